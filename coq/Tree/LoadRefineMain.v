(* Tree/LoadRefineMain.v — C09: the heap merge (Load.merge_element) computes the pure merge (MergePure.pmerge) of the
   trees it reads: [merge_refine]. *)
From Coq Require Import Permutation.
From AV Require Import Base.Bytes Base.Outcome Hash.HashModel Tree.Heap Tree.Ops Tree.Script Tree.Load Tree.MergeSpec
  Tree.MergePure Tree.LoadProofsBase Tree.LoadRefineBase Tree.LoadRefineWalk Tree.LoadRefineKeys Tree.LoadRefinePure
  Tree.LoadRefineHeap Tree.LoadRefineSlots.
Open Scope string_scope.
Open Scope list_scope.
Open Scope N_scope.

(* the versions of the files of a world *)
Definition fver_files (fl : list file) : N -> option N := fun f => option_map f_version (nth_opt fl (N.to_nat f)).
Definition fver_of (w : world) : N -> option N := fver_files (w_files w).

Section Refine.
Variable T : tables.
Variables LATEST defref : N.

Lemma files_min_version_pure w files :
  files_min_version LATEST w files = p_files_min_version LATEST (fver_of w) files.
Proof.
  unfold files_min_version, p_files_min_version, fver_of, fver_files.
  assert (E : flat_map (fun f => match nth_opt (w_files w) (N.to_nat f) with Some x => [f_version x] | None => [] end) files =
              flat_map (fun f => match option_map f_version (nth_opt (w_files w) (N.to_nat f)) with Some v => [v] | None => [] end) files).
  { apply flat_map_ext. intros f. destruct (nth_opt (w_files w) (N.to_nat f)); reflexivity. }
  rewrite E. reflexivity.
Qed.

Lemma min_ver_b_pure w nf :
  match nth_opt (w_files w) (N.to_nat nf) with Some x => f_version x | None => LATEST end =
  match fver_of w nf with Some v => v | None => LATEST end.
Proof. unfold fver_of, fver_files. destruct (nth_opt (w_files w) (N.to_nat nf)); reflexivity. Qed.

(* merge_sub_elements as a named loop *)
Fixpoint subs_loop (fl : nat) (files : list N) (nf : N) (l : list (id * id)) : W unit :=
  match l with
  | [] => wret tt
  | (elem_a, elem_b) :: r =>
    (do ea <- get_node elem_a;
     let files' := if negb (is_empty (n_files ea)) then n_files ea else files in
     merge_element T LATEST defref fl elem_a files' elem_b nf;;
     modify_node elem_a (fun x => if negb (is_empty (n_files x)) then set_files x (set_add nf (n_files x)) else x);;
     subs_loop fl files nf r)%W
  end.

Lemma wbind_ext {A B} (m : W A) (k k' : A -> W B) w :
  (forall a w', k a w' = k' a w') -> wbind m k w = wbind m k' w.
Proof. intros H. unfold wbind. destruct (m w) as [[[a|e] w']| |]; auto. Qed.

Lemma wbind_ext2 {A B} (m m' : W A) (k : A -> W B) : (forall w, m w = m' w) -> forall w, wbind m k w = wbind m' k w.
Proof. intros H w. unfold wbind. rewrite H. reflexivity. Qed.

Lemma merge_element_unfold fl pa files pb nf w :
  merge_element T LATEST defref (S fl) pa files pb nf w =
  (do w <- wget;
   do na <- get_node pa;
   do nb <- get_node pb;
   let pty := n_type na in
   do la <- wl (keys_of T defref w pty (n_content na));
   do lb <- wl (keys_of T defref w pty (n_content nb));
   let min_ver_a := files_min_version LATEST w files in
   let min_ver_b := match nth_opt (w_files w) (N.to_nat nf) with Some x => f_version x | None => LATEST end in
   let version := N.min min_ver_a min_ver_b in
   do splitable <- wl (splittable_in T pty version);
   do wk <- (fun w0 => match walk (S (List.length la + List.length lb)) la lb splitable (N.of_nat (List.length (n_content na))) 0 la lb
                                  (mkWalked [] [] []) with
                       | Val o => Val (o, w0) | Pan s => Pan s | Fuel => Fuel end);
   restrict_a_only (wk_a_only wk) files;;
   import_new_items T pa (wk_b_only wk) 0 nf min_ver_b;;
   subs_loop fl files nf (wk_merge wk))%W w.
Proof.
  cbn [merge_element].
  apply wbind_ext. intros w0 w1. apply wbind_ext. intros na w2. apply wbind_ext. intros nb w3.
  apply wbind_ext. intros la w4. apply wbind_ext. intros lb w5. apply wbind_ext. intros sp w6.
  apply wbind_ext. intros wk w7. apply wbind_ext. intros u1 w8. apply wbind_ext. intros u2 w9.
  generalize (wk_merge wk). clear. intros l. revert w9. induction l as [|[ea eb] r IH]; intros w; [reflexivity|].
  cbn [subs_loop]. apply wbind_ext. intros n w1. apply wbind_ext. intros u w2. apply wbind_ext. intros u' w3. apply IH.
Qed.

(* ------------------------------------------------------------------ the statement, for a given fuel *)
Definition RefinesAt (fl : nat) : Prop :=
  forall ta tb files nf w ha',
    AbsA w ta -> AbsA w tb -> NoDup (aids ta ++ aids tb) ->
    Clean T LATEST defref (fver_of w) fl (erase ta) files (erase tb) nf ->
    pmerge T LATEST defref (fver_of w) fl (erase ta) files (erase tb) nf = Val (OK ha') ->
    exists w' ta',
      merge_element T LATEST defref fl (a_id ta) files (a_id tb) nf w = Val (OK tt, w') /\
      AbsA w' ta' /\ erase ta' = ha' /\ a_id ta' = a_id ta /\ NoDup (aids ta') /\
      incl (aids ta') (aids ta ++ aids tb) /\ same_except w w' (aids ta ++ aids tb).

Definition a_bump (nf : N) (c : atree) : atree :=
  if negb (is_empty (a_local c)) then a_set_local c (set_add nf (a_local c)) else c.
Lemma erase_bump nf c : erase (a_bump nf c) = h_bump nf (erase c).
Proof. destruct c as [i n t ats cc cm loc]. unfold a_bump, h_bump. cbn. destruct (is_empty loc); reflexivity. Qed.
Lemma a_bump_id nf c : a_id (a_bump nf c) = a_id c.
Proof. unfold a_bump. destruct (negb _); [apply a_id_set_local|reflexivity]. Qed.
Lemma a_bump_aids nf c : aids (a_bump nf c) = aids c.
Proof. unfold a_bump. destruct (negb _); [apply aids_set_local|reflexivity]. Qed.

Definition filesp (files : list N) (c : atree) : list N := if negb (is_empty (a_local c)) then a_local c else files.
Definition foot (p : atree * atree) : list id := aids (fst p) ++ aids (snd p).
Definition idpair (p : atree * atree) : id * id := (a_id (fst p), a_id (snd p)).

Lemma same_except_fver w w' ids : same_except w w' ids -> fver_of w' = fver_of w.
Proof. intros (_ & Hf & _). unfold fver_of. rewrite Hf. reflexivity. Qed.

(* phase 3: the pairs are merged one after the other; their footprints are disjoint *)
Lemma subs_phase fl files nf : RefinesAt fl ->
  forall pairs w,
    Forall (fun p => AbsA w (fst p) /\ AbsA w (snd p)) pairs ->
    NoDup (List.concat (map foot pairs)) ->
    Forall (fun p => Clean T LATEST defref (fver_of w) fl (erase (fst p)) (filesp files (fst p)) (erase (snd p)) nf /\
                     exists r, pmerge T LATEST defref (fver_of w) fl (erase (fst p)) (filesp files (fst p)) (erase (snd p)) nf = Val (OK r)) pairs ->
    exists w' finals,
      subs_loop fl files nf (map idpair pairs) w = Val (OK tt, w') /\
      Forall2 (fun p c' => AbsA w' c' /\ a_id c' = a_id (fst p) /\ NoDup (aids c') /\ incl (aids c') (foot p) /\
                           exists r, pmerge T LATEST defref (fver_of w) fl (erase (fst p)) (filesp files (fst p)) (erase (snd p)) nf = Val (OK r) /\
                                     erase c' = h_bump nf r) pairs finals /\
      same_except w w' (List.concat (map foot pairs)).
Proof.
  intros HR. induction pairs as [|[c d] rest IH]; intros w HA Hnd HP.
  - exists w, []. split; [reflexivity|]. split; [constructor|apply same_except_refl].
  - inversion HA as [|? ? [HAc HAd] HA']; subst. inversion HP as [|? ? [HC (r & Hr)] HP']; subst.
    cbn [fst snd] in *. cbn [map List.concat] in Hnd.
    pose proof (nodup_app_l _ _ Hnd) as Hnd1. pose proof (nodup_app_r _ _ Hnd) as Hnd2.
    cbn [map subs_loop idpair fst snd].
    destruct (AbsA_node w c HAc) as (pc & Hpc).
    unfold wbind at 1. unfold get_node at 1. rewrite Hpc. cbn [n_files]. fold (filesp files c).
    destruct (HR c d (filesp files c) nf w r HAc HAd Hnd1 HC Hr) as (w1 & c1 & E1 & HA1 & Ee1 & Eid1 & Hnd_c1 & Hincl1 & S1).
    unfold wbind at 1. rewrite E1.
    destruct (AbsA_node w1 c1 HA1) as (pc1 & Hpc1). rewrite Eid1 in Hpc1.
    unfold wbind at 1. rewrite (modify_node_wupd (a_id c) _ w1 _ Hpc1). cbn [n_files].
    set (n2 := if negb (is_empty (a_local c1)) then _ else _).
    set (w2 := wupd w1 (a_id c) n2).
    assert (HA2 : AbsA w2 (a_bump nf c1)).
    { unfold a_bump. destruct (negb (is_empty (a_local c1))) eqn:Eb.
      - apply (AbsA_root_update w1 w2 c1 (set_add nf (a_local c1)) HA1 Hnd_c1).
        + exists pc1. rewrite Eid1. unfold w2, wupd. cbn [w_nodes]. rewrite upd_eq. unfold n2. reflexivity.
        + intros i Hi _. unfold w2, wupd. cbn [w_nodes]. apply upd_neq. rewrite <- Eid1. exact Hi.
      - apply (AbsA_frame' c1 w1 w2); [|exact HA1]. intros i Hi. unfold w2, wupd. cbn [w_nodes].
        destruct (N.eq_dec i (a_id c)) as [->|Hne]; [|apply upd_neq; exact Hne].
        rewrite upd_eq. unfold n2. rewrite Hpc1. reflexivity. }
    assert (S12 : same_except w w2 (foot (c, d))).
    { apply (same_except_trans w w1 w2 (foot (c, d)) [a_id c]); [apply incl_refl| |exact S1|apply wupd_same_except].
      intros y [<-|[]]. unfold foot. cbn [fst]. apply in_or_app. left. apply a_id_in_aids. }
    assert (Hdis : forall p x, In p rest -> In x (foot p) -> ~ In x (foot (c, d))).
    { intros p x Hp Hx Hx2. eapply (nodup_app_disj (foot (c, d))); [exact Hnd|exact Hx2|].
      apply in_concat. exists (foot p). split; [apply in_map; exact Hp|exact Hx]. }
    assert (HArest : Forall (fun p => AbsA w2 (fst p) /\ AbsA w2 (snd p)) rest).
    { rewrite Forall_forall in *. intros p Hp. destruct (HA' p Hp) as [H1 H2]. split.
      - apply (AbsA_frame' (fst p) w w2); [|exact H1]. eapply same_except_agree; [exact S12|].
        intros x Hx. apply (Hdis p x Hp). unfold foot. apply in_or_app. left. exact Hx.
      - apply (AbsA_frame' (snd p) w w2); [|exact H2]. eapply same_except_agree; [exact S12|].
        intros x Hx. apply (Hdis p x Hp). unfold foot. apply in_or_app. right. exact Hx. }
    pose proof (same_except_fver w w2 _ S12) as Efv.
    destruct (IH w2 HArest Hnd2) as (w' & finals & E' & F' & S').
    { rewrite Efv. exact HP'. }
    exists w', (a_bump nf c1 :: finals). split; [exact E'|]. split.
    + constructor.
      * cbn [fst snd]. split.
        -- apply (AbsA_frame' _ w2 w'); [|exact HA2]. eapply same_except_agree; [exact S'|].
           intros x Hx Hx2. rewrite a_bump_aids in Hx. apply in_concat in Hx2 as (l & Hl & Hxl).
           apply in_map_iff in Hl as (p & <- & Hp). apply (Hdis p x Hp Hxl). apply Hincl1. exact Hx.
        -- split; [rewrite a_bump_id; exact Eid1|]. split; [rewrite a_bump_aids; exact Hnd_c1|].
           split; [rewrite a_bump_aids; exact Hincl1|]. exists r. split; [exact Hr|]. rewrite erase_bump, Ee1. reflexivity.
      * rewrite Efv in F'. exact F'.
    + cbn [map List.concat]. eapply same_except_trans; [| |exact S12|exact S'].
      * intros y Hy. apply in_or_app. left. exact Hy.
      * intros y Hy. apply in_or_app. right. exact Hy.
Qed.

(* ------------------------------------------------------------------ positions and ids *)
Definition dummy : atree := ANode 0 0 (0, 0) [] [] None [].
Definition el_at (l : list (atree + cdata)) (p : N) : atree :=
  match nth_error l (N.to_nat p) with Some (inl c) => c | _ => dummy end.

Lemma pos_id_el_at l p : pos_id l p = a_id (el_at l p).
Proof. unfold pos_id, el_at. destruct (nth_error l (N.to_nat p)) as [[c|d]|]; reflexivity. Qed.

Lemma hkeys_id_in pty l : forall from p,
  In p (map k_id (hkeys T defref pty from (erase_items l))) ->
  exists c, nth_error l (N.to_nat (p - from)) = Some (inl c) /\ from <= p.
Proof.
  induction l as [|[c|d] r IH]; intros from p; cbn [erase_items hkeys map]; [intros []| |].
  - cbn [hkey k_id]. intros [<-|H].
    + exists c. rewrite N.sub_diag. split; [reflexivity|lia].
    + destruct (IH (from + 1) p H) as (c0 & Hc0 & Hle). exists c0. split; [|lia].
      replace (N.to_nat (p - from)) with (S (N.to_nat (p - (from + 1)))) by lia. exact Hc0.
  - intros H. destruct (IH (from + 1) p H) as (c0 & Hc0 & Hle). exists c0. split; [|lia].
    replace (N.to_nat (p - from)) with (S (N.to_nat (p - (from + 1)))) by lia. exact Hc0.
Qed.

Lemma hkeys_pos pty l p :
  In p (map k_id (hkeys T defref pty 0 (erase_items l))) ->
  nth_error l (N.to_nat p) = Some (inl (el_at l p)) /\ In (inl (el_at l p)) l.
Proof.
  intros H. destruct (hkeys_id_in pty l 0 p H) as (c & Hc & _). rewrite N.sub_0_r in Hc.
  unfold el_at. rewrite Hc. split; [reflexivity|]. eapply nth_error_In; eauto.
Qed.

(* different positions of elements are different sub-elements *)
Lemma el_at_inj l p q :
  NoDup (aids_items l) ->
  nth_error l (N.to_nat p) = Some (inl (el_at l p)) -> nth_error l (N.to_nat q) = Some (inl (el_at l q)) ->
  a_id (el_at l p) = a_id (el_at l q) -> p = q.
Proof.
  intros Hnd. generalize (el_at l p) (el_at l q). intros cp cq Hp Hq E.
  assert (G : forall l i j cp cq, NoDup (aids_items l) -> nth_error l i = Some (inl cp) -> nth_error l j = Some (inl cq) ->
                                  a_id cp = a_id cq -> i = j).
  { clear. induction l as [|[c|d] r IH]; intros [|i] [|j] cp cq Hnd Hi Hj E; cbn [nth_error aids_items] in *; try discriminate; auto.
    - injection Hi as ->. exfalso. eapply (nodup_app_disj (aids cp)); [exact Hnd|apply a_id_in_aids|].
      rewrite E. eapply child_id_in_aids. eapply nth_error_In; eauto.
    - injection Hj as ->. exfalso. eapply (nodup_app_disj (aids cq)); [exact Hnd|apply a_id_in_aids|].
      rewrite <- E. eapply child_id_in_aids. eapply nth_error_In; eauto.
    - f_equal. eapply IH; eauto. eapply nodup_app_r; eauto.
    - f_equal. eapply IH; eauto. }
  apply N2Nat.inj. eapply G; eauto.
Qed.

Lemma nodup_app_intro {A} (a b : list A) : NoDup a -> NoDup b -> (forall x, In x a -> ~ In x b) -> NoDup (a ++ b).
Proof.
  induction a as [|x a IH]; intros Ha Hb Hd; cbn [app]; [exact Hb|]. inversion Ha as [|? ? Hn Ha']; subst.
  constructor.
  - intros Hin. apply in_app_or in Hin as [Hin|Hin]; [contradiction|]. apply (Hd x); [left; reflexivity|exact Hin].
  - apply IH; auto. intros y Hy. apply Hd. right. exact Hy.
Qed.

Lemma foot_positions l ps :
  NoDup (aids_items l) -> NoDup ps ->
  (forall p, In p ps -> nth_error l (N.to_nat p) = Some (inl (el_at l p))) ->
  NoDup (List.concat (map (fun p => aids (el_at l p)) ps)) /\
  incl (List.concat (map (fun p => aids (el_at l p)) ps)) (aids_items l).
Proof.
  intros Hnd. induction ps as [|p ps IH]; intros Hps Hv; cbn [map List.concat].
  - split; [constructor|intros x []].
  - inversion Hps as [|? ? Hnp Hps']; subst.
    destruct IH as (IH1 & IH2); [exact Hps'|intros q Hq; apply Hv; right; exact Hq|].
    assert (Hp : In (inl (el_at l p)) l) by (eapply nth_error_In; apply Hv; left; reflexivity).
    split.
    + apply nodup_app_intro; [eapply NoDup_aids_items_child; eauto|exact IH1|].
      intros x Hx Hx2. apply in_concat in Hx2 as (lx & Hlx & Hxl). apply in_map_iff in Hlx as (q & <- & Hq).
      assert (Hq' : In (inl (el_at l q)) l) by (eapply nth_error_In; apply Hv; right; exact Hq).
      assert (E : el_at l p = el_at l q) by (eapply (aids_items_disjoint l Hnd); eauto).
      apply Hnp. replace p with q; [exact Hq|]. symmetry. eapply el_at_inj; eauto.
      * apply Hv. left. reflexivity.
      * apply Hv. right. exact Hq.
      * rewrite E. reflexivity.
    + intros x Hx. apply in_app_or in Hx as [Hx|Hx]; [eapply aids_items_in; eauto|apply IH2; exact Hx].
Qed.

Lemma concat_foot_perm (pairs : list (atree * atree)) :
  Permutation (List.concat (map foot pairs))
              (List.concat (map (fun p => aids (fst p)) pairs) ++ List.concat (map (fun p => aids (snd p)) pairs)).
Proof.
  induction pairs as [|p r IH]; cbn [map List.concat]; [constructor|]. unfold foot at 1.
  rewrite <- !app_assoc. apply Permutation_app_head.
  eapply perm_trans; [apply Permutation_app_head; exact IH|].
  rewrite !app_assoc. apply Permutation_app_tail. apply Permutation_app_comm.
Qed.

Lemma list_eq_nth {A} (a b : list A) : List.length a = List.length b -> (forall k, nth_error a k = nth_error b k) -> a = b.
Proof.
  revert b. induction a as [|x a IH]; intros [|y b] Hl Hn; cbn in Hl; try discriminate; [reflexivity|].
  pose proof (Hn O) as H0. cbn in H0. injection H0 as ->. f_equal. apply IH; [lia|]. intros k. apply (Hn (S k)).
Qed.

Lemma map_el_insert f l k x : map_el f (insert_at l k (inl x)) = insert_at (map_el f l) k (inl (f x)).
Proof. revert k. induction l as [|[c|d] r IH]; intros [|k]; cbn [insert_at map_el]; auto; rewrite IH; reflexivity. Qed.

Lemma map_el_ins_all f ds xs l :
  map_el f (ins_all ds (map inl xs) l) = ins_all ds (map inl (map f xs)) (map_el f l).
Proof.
  revert xs l. induction ds as [|d ds IH]; intros [|x xs] l; cbn [ins_all map]; try reflexivity.
  rewrite IH, map_el_insert. reflexivity.
Qed.

Lemma erase_items_ins_all ds xs l :
  erase_items (ins_all ds (map inl xs) l) = ins_all ds (map inl (map erase xs)) (erase_items l).
Proof.
  revert xs l. induction ds as [|d ds IH]; intros [|x xs] l; cbn [ins_all map]; try reflexivity.
  rewrite IH, erase_items_insert. reflexivity.
Qed.

Lemma nth_error_map_el f l k : nth_error (map_el f l) k = option_map (fun it => match it with inl c => inl (f c) | inr d => inr d end) (nth_error l k).
Proof. revert k. induction l as [|[c|d] r IH]; intros [|k]; cbn [map_el nth_error option_map]; auto. Qed.

Lemma nth_error_erase_items l k : nth_error (erase_items l) k = option_map (fun it => match it with inl c => inl (erase c) | inr d => inr d end) (nth_error l k).
Proof. revert k. induction l as [|[c|d] r IH]; intros [|k]; cbn [erase_items nth_error option_map]; auto. Qed.

Lemma pmerge_unfold' fver fl a files b new_file :
  pmerge T LATEST defref fver (S fl) a files b new_file =
  (let pty := h_ty a in
   let la := hkeys T defref pty 0 (h_content a) in
   let lb := hkeys T defref pty 0 (h_content b) in
   let min_ver_a := p_files_min_version LATEST fver files in
   let min_ver_b := match fver new_file with Some v => v | None => LATEST end in
   let version := N.min min_ver_a min_ver_b in
   let* splitable := splittable_in T pty version in
   let* wko := walk (S (List.length la + List.length lb)) la lb splitable (N.of_nat (List.length (h_content a))) 0 la lb
                    (mkWalked [] [] []) in
   match wko with
   | ER e => Val (ER e)
   | OK wk =>
     let* c1o := map_kids (child_step (pmerge T LATEST defref fver fl) wk files (h_content b) new_file) 0 (h_content a) in
     match c1o with
     | ER e => Val (ER e)
     | OK c1 =>
       let* c2o := p_import T pty (h_content b) (wk_b_only wk) 0 new_file min_ver_b c1 in
       match c2o with
       | ER e => Val (ER e)
       | OK c2 => Val (OK (h_set_content a c2))
       end
     end
   end)%res.
Proof. reflexivity. Qed.

Lemma child_ids_nodup l : NoDup (aids_items l) -> NoDup (child_ids l).
Proof.
  unfold child_ids. induction l as [|[c|d] r IH]; cbn [aids_items els flat_map app map]; intros H; [constructor| |auto].
  constructor.
  - intros Hin. apply in_map_iff in Hin as (c0 & E & H0). apply els_in in H0.
    eapply (nodup_app_disj (aids c)); [exact H|apply a_id_in_aids|]. rewrite <- E. eapply child_id_in_aids; eauto.
  - apply IH. eapply nodup_app_r; eauto.
Qed.

Lemma akeys_child_ids pty l : map k_id (akeys T defref pty l) = child_ids l.
Proof. apply akeys_ids. Qed.

Lemma pos_id_inj l x y :
  NoDup (aids_items l) ->
  In x (map k_id (hkeys T defref (0, 0) 0 (erase_items l))) -> In y (map k_id (hkeys T defref (0, 0) 0 (erase_items l))) ->
  pos_id l x = pos_id l y -> x = y.
Proof.
  intros Hnd Hx Hy E. rewrite !pos_id_el_at in E.
  destruct (hkeys_pos (0, 0) l x Hx) as (Hx1 & _). destruct (hkeys_pos (0, 0) l y Hy) as (Hy1 & _).
  eapply el_at_inj; eauto.
Qed.

Lemma hkeys_ids_pty pty pty' l from :
  map k_id (hkeys T defref pty from (erase_items l)) = map k_id (hkeys T defref pty' from (erase_items l)).
Proof. revert from. induction l as [|[c|d] r IH]; intros from; cbn [erase_items hkeys map]; auto. f_equal. apply IH. Qed.


Lemma shape_erase_map_el f l : (forall c, a_name (f c) = a_name c) -> shape (erase_items (map_el f l)) = shape (erase_items l).
Proof.
  intros Hf. unfold shape. induction l as [|[c|d] r IH]; cbn [map_el erase_items map item_name_of]; [reflexivity| |]; rewrite IH;
    [rewrite !erase_name, Hf|]; reflexivity.
Qed.

Lemma a_restrict_name files c : a_name (a_restrict files c) = a_name c.
Proof. unfold a_restrict. destruct (is_empty (a_local c)); [destruct c; reflexivity|reflexivity]. Qed.

Lemma nth_opt_erase_items l k : nth_opt (erase_items l) k = option_map (fun it => match it with inl c => inl (erase c) | inr d => inr d end) (nth_error l k).
Proof. rewrite nth_opt_nth_error. apply nth_error_erase_items. Qed.


Lemma mem_id_map_inj (f : id -> id) (D : list id) p ps :
  (forall x y, In x D -> In y D -> f x = f y -> x = y) -> In p D -> incl ps D ->
  mem_id (f p) (map f ps) = existsb (N.eqb p) ps.
Proof.
  intros Hinj Hp. unfold mem_id. induction ps as [|q ps IHp]; intros Hi; cbn [map existsb]; [reflexivity|].
  rewrite IHp by (intros z Hz; apply Hi; right; exact Hz). f_equal.
  destruct (N.eqb_spec p q) as [->|Hne]; [apply N.eqb_refl|]. apply N.eqb_neq. intros E. apply Hne. apply Hinj; auto.
  apply Hi. left. reflexivity.
Qed.

Lemma lookup_merge_in p q M : NoDup (map fst M) -> In (p, q) M -> lookup_merge p M = Some q.
Proof.
  induction M as [|[a b] r IHm]; cbn [map fst lookup_merge In]; [intros _ []|]. intros Hnd [[= -> ->]|Hin].
  - rewrite N.eqb_refl. reflexivity.
  - inversion Hnd as [|? ? Hn Hnd']; subst. destruct (a =? p) eqn:E; [|auto].
    apply N.eqb_eq in E. subst a. exfalso. apply Hn. apply (in_map fst _ _ Hin).
Qed.
Lemma lookup_merge_some p q M : lookup_merge p M = Some q -> In (p, q) M.
Proof.
  induction M as [|[a b] r IHm]; cbn [lookup_merge In]; [discriminate|]. destruct (a =? p) eqn:E.
  - intros [= ->]. apply N.eqb_eq in E. subst a. left. reflexivity.
  - intros H. right. auto.
Qed.
Lemma lookup_merge_none p M : lookup_merge p M = None -> ~ In p (map fst M).
Proof.
  induction M as [|[a b] r IHm]; cbn [lookup_merge map fst In]; [intros _ []|]. destruct (a =? p) eqn:E; [discriminate|].
  intros H [->|Hin]; [rewrite N.eqb_refl in E; discriminate|]. apply (IHm H Hin).
Qed.

Lemma hkeys_in_pos pty l : forall from k c,
  nth_error l k = Some (inl c) -> In (from + N.of_nat k) (map k_id (hkeys T defref pty from (erase_items l))).
Proof.
  induction l as [|[c0|d] r IHl]; intros from [|k] c; cbn [nth_error erase_items hkeys map]; try discriminate.
  - intros _. left. cbn [hkey k_id]. lia.
  - intros H. right. replace (from + N.of_nat (S k)) with (from + 1 + N.of_nat k) by lia. eapply IHl; eauto.
  - intros H. replace (from + N.of_nat (S k)) with (from + 1 + N.of_nat k) by lia. eapply IHl; eauto.
Qed.

Lemma el_at_nth l k c : nth_error l k = Some (inl c) -> el_at l (N.of_nat k) = c.
Proof. intros H. unfold el_at. rewrite Nat2N.id, H. reflexivity. Qed.

Lemma map_el_length f l : List.length (map_el f l) = List.length l.
Proof. induction l as [|[c|d] r IHl]; cbn [map_el List.length]; auto. Qed.

Lemma AbsItems_map_el w f l : (forall c, In (inl c) l -> AbsA w (f c)) -> AbsItems w (map_el f l).
Proof.
  induction l as [|[c|d] r IHl]; intros H; cbn [map_el AbsItems]; [exact I| |].
  - split; [apply H; left; reflexivity|apply IHl; intros c0 H0; apply H; right; exact H0].
  - apply IHl. intros c0 H0. apply H. right. exact H0.
Qed.

Lemma imported_imp3 bcontent bs nbs bsp nf :
  Imp3 bcontent bs nbs bsp -> imported bcontent bsp nf = map inl (map (fun nb => h_import nf (erase nb)) nbs).
Proof.
  induction 1 as [|bid pos nb pid bs nbs bsp Eid Hnth H3 IH3]; cbn [imported map]; [reflexivity|]. rewrite Hnth, IH3. reflexivity.
Qed.

Lemma forall2_in_r {A B} (R : A -> B -> Prop) l l' y : Forall2 R l l' -> In y l' -> exists x, In x l /\ R x y.
Proof.
  induction 1 as [|a b l l' H HF IHf]; cbn [In]; [intros []|]. intros [<-|Hy]; [exists a; auto|].
  destruct (IHf Hy) as (x & Hx & Hr). exists x. auto.
Qed.
Lemma forall2_impl {A B} (R R' : A -> B -> Prop) l l' : (forall a b, R a b -> R' a b) -> Forall2 R l l' -> Forall2 R' l l'.
Proof. intros Hi. induction 1; constructor; auto. Qed.

Theorem merge_refine : forall fuel, RefinesAt fuel.
Proof.
  induction fuel as [|fl IH]; intros ta tb files nf w ha' HA HB Hnd HC Hp; [discriminate Hp|].
  destruct ta as [ia name ty attrs ca cm aloc]. destruct tb as [ib nameb tyb attrsb cb cmb bloc].
  rewrite !erase_unfold in Hp, HC. rewrite pmerge_unfold' in Hp. cbn [h_ty h_content] in Hp. cbv zeta in Hp.
  cbn [Clean h_ty h_content] in HC. cbv zeta in HC.
  set (lap := hkeys T defref ty 0 (erase_items ca)) in *.
  set (lbp := hkeys T defref ty 0 (erase_items cb)) in *.
  set (version := N.min (p_files_min_version LATEST (fver_of w) files) (match fver_of w nf with Some v => v | None => LATEST end)) in *.
  destruct (splittable_in T ty version) as [sp| |] eqn:Esp; cbn [bind] in Hp; try discriminate.
  destruct (walk (S (List.length lap + List.length lbp)) lap lbp sp (N.of_nat (List.length (erase_items ca))) 0 lap lbp (mkWalked [] [] []))
    as [[wk|e]| |] eqn:Ew; cbn [bind] in Hp; try discriminate.
  destruct HC as (C1 & C2 & C3 & C4 & C5).
  destruct (map_kids _ 0 (erase_items ca)) as [[c1|e]| |] eqn:Em; cbn [bind] in Hp; try discriminate.
  destruct (p_import T ty (erase_items cb) (wk_b_only wk) 0 nf _ c1) as [[c2|e]| |] eqn:Ei; cbn [bind] in Hp; try discriminate.
  injection Hp as <-.
  (* the heap *)
  apply AbsA_unfold in HA as ((pa_p & Hna) & HIa). apply AbsA_unfold in HB as ((pb_p & Hnb) & HIb).
  rewrite !aids_unfold in Hnd. cbn [a_id].
  assert (Hnd_a : NoDup (aids_items ca)).
  { inversion Hnd as [|? ? _ H]; subst. eapply nodup_app_l; eauto. }
  assert (Hnd_b : NoDup (aids_items cb)).
  { apply nodup_app_r in Hnd. inversion Hnd; subst. assumption. }
  assert (Hdis_ab : forall x, In x (aids_items ca) -> ~ In x (ib :: aids_items cb)).
  { intros x Hx Hx2. inversion Hnd as [|? ? _ H]; subst. eapply nodup_app_disj; eauto. }
  assert (Hia_notin : ~ In ia (aids_items ca ++ ib :: aids_items cb)) by (inversion Hnd; assumption).
  rewrite merge_element_unfold.
  unfold wbind at 1. cbn [wget].
  unfold wbind at 1. unfold get_node at 1. rewrite Hna.
  unfold wbind at 1. unfold get_node at 1. rewrite Hnb.
  cbn [n_type n_content]. cbv zeta.
  rewrite wbind_wl, (keys_of_abs T defref w ty ca HIa).
  rewrite wbind_wl, (keys_of_abs T defref w ty cb HIb).
  rewrite files_min_version_pure, min_ver_b_pure. fold version.
  rewrite wbind_wl, Esp.
  (* the walk over the heap ids is the walk over the positions, renamed *)
  set (fa := pos_id ca). set (fb := pos_id cb).
  assert (Ela : akeys T defref ty ca = map (rk fa) lap) by apply akeys_pos.
  assert (Elb : akeys T defref ty cb = map (rk fb) lbp) by apply akeys_pos.
  assert (Hfb_inj : forall x y, In x (map k_id lbp) -> In y (map k_id lbp) -> fb x = fb y -> x = y).
  { intros x y Hx Hy E. unfold lbp in Hx, Hy. rewrite (hkeys_ids_pty ty (0, 0)) in Hx, Hy. exact (pos_id_inj cb x y Hnd_b Hx Hy E). }
  assert (Hfa_inj : forall x y, In x (map k_id lap) -> In y (map k_id lap) -> fa x = fa y -> x = y).
  { intros x y Hx Hy E. unfold lap in Hx, Hy. rewrite (hkeys_ids_pty ty (0, 0)) in Hx, Hy. exact (pos_id_inj ca x y Hnd_a Hx Hy E). }
  assert (Ewh : walk (S (List.length (akeys T defref ty ca) + List.length (akeys T defref ty cb)))
                     (akeys T defref ty ca) (akeys T defref ty cb) sp
                     (N.of_nat (List.length (map citem_of ca))) 0 (akeys T defref ty ca) (akeys T defref ty cb) (mkWalked [] [] [])
                = Val (OK (rwalked fa fb wk))).
  { rewrite Ela, Elb, !map_length, <- erase_items_length.
    change (mkWalked [] [] []) with (rwalked fa fb (mkWalked [] [] [])).
    rewrite (walk_rk fa fb lap lbp sp _ Hfb_inj); [rewrite Ew; reflexivity|apply incl_refl|intros q []]. }
  unfold wbind at 1. rewrite Ewh. cbn [rwalked wk_merge wk_a_only wk_b_only].
  (* ---- phase 1: the a-only elements are restricted *)
  set (ids1 := map fa (wk_a_only wk)).
  assert (Hvalid_a : forall p, In p (map fst (wk_merge wk) ++ wk_a_only wk) ->
                               nth_error ca (N.to_nat p) = Some (inl (el_at ca p)) /\ In (inl (el_at ca p)) ca).
  { intros p Hp. apply (hkeys_pos ty ca p). apply C2. exact Hp. }
  assert (Hvalid_b : forall q, In q (map snd (wk_merge wk) ++ map fst (wk_b_only wk)) ->
                               nth_error cb (N.to_nat q) = Some (inl (el_at cb q)) /\ In (inl (el_at cb q)) cb).
  { intros q Hq. apply (hkeys_pos ty cb q). apply C4. exact Hq. }
  assert (Hids1 : incl ids1 (child_ids ca)).
  { intros x Hx. unfold ids1 in Hx. apply in_map_iff in Hx as (p & <- & Hp). unfold fa. rewrite pos_id_el_at.
    unfold child_ids. apply in_map. apply els_in. apply Hvalid_a. apply in_or_app. right. exact Hp. }
  destruct (restrict_phase files ids1 w ca HIa Hnd_a Hids1) as (w1 & E1 & HI1 & S1).
  set (r1 := fun c => if mem_id (a_id c) ids1 then a_restrict files c else c) in *.
  set (ca1 := map_el r1 ca) in *.
  assert (Hr1id : forall c, a_id (r1 c) = a_id c).
  { intros c. unfold r1. destruct (mem_id (a_id c) ids1); [apply a_restrict_id|reflexivity]. }
  assert (Hr1aids : forall c, aids (r1 c) = aids c).
  { intros c. unfold r1. destruct (mem_id (a_id c) ids1); [apply a_restrict_aids|reflexivity]. }
  assert (Hr1name : forall c, a_name (r1 c) = a_name c).
  { intros c. unfold r1. destruct (mem_id (a_id c) ids1); [apply a_restrict_name|reflexivity]. }
  assert (Hca1_aids : aids_items ca1 = aids_items ca) by (apply map_el_aids; exact Hr1aids).
  assert (Hids1_in : forall x, In x ids1 -> In x (aids_items ca)).
  { intros x Hx. apply Hids1 in Hx. unfold child_ids in Hx. apply in_map_iff in Hx as (c & <- & Hc). apply els_in in Hc.
    apply child_id_in_aids. exact Hc. }
  unfold wbind at 1.
  match goal with |- context [restrict_a_only ?l files w] => change l with ids1 end. rewrite E1.
  assert (Hia1 : w_nodes w1 ia = Some (mkNode pa_p name ty (map citem_of ca1) attrs aloc cm)).
  { destruct S1 as (_ & _ & _ & S1n). rewrite S1n; [|intros Hin; apply Hia_notin; apply in_or_app; left; apply Hids1_in; exact Hin].
    rewrite Hna. unfold ca1. rewrite (map_el_ids r1 ca Hr1id). reflexivity. }
  assert (HIb1 : AbsItems w1 cb).
  { apply (AbsItems_frame cb w w1); [|exact HIb]. eapply same_except_agree; [exact S1|].
    intros x Hx Hx2. apply (Hdis_ab x (Hids1_in x Hx2)). right. exact Hx. }
  (* ---- phase 2: the b-only elements are imported *)
  set (minv := match fver_of w nf with Some v => v | None => LATEST end) in *.
  set (nbs := map (fun pq : id * N => el_at cb (fst pq)) (wk_b_only wk)).
  assert (H3 : Imp3 (erase_items cb) (rbonly fb (wk_b_only wk)) nbs (wk_b_only wk)).
  { unfold nbs, rbonly.
    assert (G : forall l, (forall pq, In pq l -> In (fst pq) (map fst (wk_b_only wk))) ->
                          Imp3 (erase_items cb) (map (fun pq : id * N => (fb (fst pq), snd pq)) l) (map (fun pq : id * N => el_at cb (fst pq)) l) l).
    { induction l as [|[q pos] l IHl]; intros Hl; cbn [map]; [constructor|].
      constructor; [unfold fb; apply pos_id_el_at| |apply IHl; intros pq Hpq; apply Hl; right; exact Hpq].
      rewrite nth_opt_erase_items. destruct (Hvalid_b q) as (Hq & _).
      { apply in_or_app. right. apply (Hl (q, pos)). left. reflexivity. }
      rewrite Hq. reflexivity. }
    apply G. intros pq Hpq. apply in_map. exact Hpq. }
  assert (Hnbs_in : forall nb, In nb nbs -> exists q, In q (map fst (wk_b_only wk)) /\ nb = el_at cb q /\ In (inl nb) cb).
  { intros nb Hnb0. unfold nbs in Hnb0. apply in_map_iff in Hnb0 as ([q pos] & <- & Hq). exists q. cbn [fst].
    assert (Hq' : In q (map fst (wk_b_only wk))) by (apply in_map_iff; exists (q, pos); auto).
    split; [exact Hq'|]. split; [reflexivity|]. apply Hvalid_b. apply in_or_app. right. exact Hq'. }
  assert (HBnbs : Forall (AbsA w1) nbs).
  { apply Forall_forall. intros nb Hnb0. destruct (Hnbs_in nb Hnb0) as (q & _ & _ & Hin). eapply AbsItems_in; eauto. }
  assert (Hnbs_foot : NoDup (List.concat (map aids nbs)) /\ incl (List.concat (map aids nbs)) (aids_items cb)).
  { unfold nbs. rewrite map_map.
    replace (map (fun x : id * N => aids (el_at cb (fst x))) (wk_b_only wk))
      with (map (fun q => aids (el_at cb q)) (map fst (wk_b_only wk))) by (rewrite map_map; reflexivity).
    apply foot_positions; [exact Hnd_b|eapply nodup_app_r; exact C3|].
    intros q Hq. apply Hvalid_b. apply in_or_app. right. exact Hq. }
  assert (Hnd2 : NoDup (ia :: aids_items ca1 ++ List.concat (map aids nbs))).
  { rewrite Hca1_aids. constructor.
    - intros Hin. apply Hia_notin. apply in_app_or in Hin as [Hin|Hin]; apply in_or_app; [left; exact Hin|].
      right. right. apply Hnbs_foot. exact Hin.
    - apply nodup_app_intro; [exact Hnd_a|apply Hnbs_foot|].
      intros x Hx Hx2. apply (Hdis_ab x Hx). right. apply Hnbs_foot. exact Hx2. }
  rewrite p_import_dests in Ei.
  destruct (p_dests T ty (erase_items cb) (wk_b_only wk) 0 minv (shape c1)) as [[ds|e]| |] eqn:Ed; try discriminate.
  injection Ei as <-.
  assert (Hshape : shape (erase_items ca1) = shape c1).
  { unfold ca1. rewrite (shape_erase_map_el r1 ca Hr1name). symmetry. eapply map_kids_shape. exact Em. }
  rewrite <- Hshape in Ed.
  destruct (import_phase T ty ia pa_p name attrs aloc cm nf minv (erase_items cb) _ _ _ H3 0 ca1 w1 ds Hia1 HI1 HBnbs Hnd2 Ed)
    as (w2 & cur2 & E2 & Hia2 & HI2 & Ecur2 & S2 & P2).
  unfold wbind at 1. rewrite E2.
  (* ---- phase 3: the pairs are merged *)
  pose proof (same_except_fver _ _ _ S1) as Efv1. pose proof (same_except_fver _ _ _ S2) as Efv2.
  assert (Efv : fver_of w2 = fver_of w) by (rewrite Efv2; exact Efv1).
  set (pairs := map (fun pq : id * id => (el_at ca (fst pq), el_at cb (snd pq))) (wk_merge wk)).
  assert (Hpairs_ids : rmerge fa fb (wk_merge wk) = map idpair pairs).
  { unfold pairs, rmerge. rewrite map_map. apply map_ext. intros [p q]. unfold idpair, fa, fb. cbn [fst snd].
    rewrite !pos_id_el_at. reflexivity. }
  rewrite Hpairs_ids.
  assert (HM : forall p q, In (p, q) (wk_merge wk) ->
             In p (map fst (wk_merge wk)) /\ In q (map snd (wk_merge wk)) /\
             In p (map fst (wk_merge wk) ++ wk_a_only wk) /\ In q (map snd (wk_merge wk) ++ map fst (wk_b_only wk))).
  { intros p q Hpq. pose proof (in_map fst _ _ Hpq) as H1. pose proof (in_map snd _ _ Hpq) as H2. cbn [fst snd] in H1, H2.
    repeat split; auto; apply in_or_app; left; assumption. }
  assert (Hmem1 : forall p, In p (map k_id lap) -> mem_id (fa p) ids1 = existsb (N.eqb p) (wk_a_only wk)).
  { intros p Hp. unfold ids1. apply (mem_id_map_inj fa (map k_id lap)); [exact Hfa_inj|exact Hp|].
    intros z Hz. apply C2. apply in_or_app. right. exact Hz. }
  assert (Hnot_aonly : forall p, In p (map fst (wk_merge wk)) -> existsb (N.eqb p) (wk_a_only wk) = false).
  { intros p Hp. destruct (existsb (N.eqb p) (wk_a_only wk)) eqn:E; [|reflexivity]. exfalso.
    apply existsb_exists in E as (z & Hz & Ez). apply N.eqb_eq in Ez. subst z. eapply nodup_app_disj; [exact C1|exact Hp|exact Hz]. }
  assert (Hr1_merge : forall p, In p (map fst (wk_merge wk)) -> r1 (el_at ca p) = el_at ca p).
  { intros p Hp. unfold r1. rewrite <- pos_id_el_at. change (pos_id ca p) with (fa p).
    rewrite Hmem1, (Hnot_aonly p Hp); [reflexivity|]. apply C2. apply in_or_app. left. exact Hp. }
  assert (Hpairs_in : forall pr, In pr pairs ->
            exists p q, In (p, q) (wk_merge wk) /\ pr = (el_at ca p, el_at cb q) /\
                        In (inl (el_at ca p)) cur2 /\ In (inl (el_at ca p)) ca /\ In (inl (el_at cb q)) cb).
  { intros pr Hpr. unfold pairs in Hpr. apply in_map_iff in Hpr as ([p q] & <- & Hpq). cbn [fst snd]. exists p, q.
    destruct (HM p q Hpq) as (Hp1 & Hq1 & Hp & Hq). destruct (Hvalid_a p Hp) as (_ & Hpa). destruct (Hvalid_b q Hq) as (_ & Hqb).
    repeat split; auto.
    rewrite Ecur2. apply in_ins_all. rewrite <- (Hr1_merge p Hp1). unfold ca1. apply in_map_el. exact Hpa. }
  assert (HA3 : Forall (fun p => AbsA w2 (fst p) /\ AbsA w2 (snd p)) pairs).
  { apply Forall_forall. intros pr Hpr. destruct (Hpairs_in pr Hpr) as (p & q & Hpq & -> & H1 & _ & Hb3). cbn [fst snd]. split.
    - eapply AbsItems_in; [exact HI2|exact H1].
    - apply (AbsA_frame' _ w1 w2); [|eapply AbsItems_in; [exact HIb1|exact Hb3]].
      eapply same_except_agree; [exact S2|]. intros x Hx [<-|Hx2].
      + apply Hia_notin. apply in_or_app. right. right. eapply aids_items_in; eauto.
      + apply in_map_iff in Hx2 as (nb & <- & Hnb0). destruct (Hnbs_in nb Hnb0) as (q' & Hq' & -> & Hin').
        destruct (HM p q Hpq) as (_ & Hq1 & _ & Hq).
        assert (E : el_at cb q = el_at cb q').
        { eapply (aids_items_disjoint cb Hnd_b); [exact Hb3|exact Hin'|exact Hx|apply a_id_in_aids]. }
        assert (Eq : q = q').
        { eapply (el_at_inj cb); [exact Hnd_b| | |rewrite E; reflexivity]; apply Hvalid_b; [exact Hq|].
          apply in_or_app. right. exact Hq'. }
        subst q'. eapply nodup_app_disj; [exact C3|exact Hq1|exact Hq']. }
  set (FA := List.concat (map (fun p : atree * atree => aids (fst p)) pairs)).
  set (FB := List.concat (map (fun p : atree * atree => aids (snd p)) pairs)).
  set (NB := List.concat (map aids nbs)) in *.
  assert (HFA : NoDup FA /\ incl FA (aids_items ca)).
  { unfold FA, pairs. rewrite map_map. cbn [fst].
    replace (map (fun x : id * id => aids (el_at ca (fst x))) (wk_merge wk))
      with (map (fun p => aids (el_at ca p)) (map fst (wk_merge wk))) by (rewrite map_map; reflexivity).
    apply foot_positions; [exact Hnd_a|eapply nodup_app_l; exact C1|].
    intros p Hp. apply Hvalid_a. apply in_or_app. left. exact Hp. }
  assert (HFBN : NoDup (FB ++ NB) /\ incl (FB ++ NB) (aids_items cb)).
  { unfold FB, NB, pairs, nbs. rewrite !map_map. cbn [snd].
    replace (map (fun x : id * id => aids (el_at cb (snd x))) (wk_merge wk))
      with (map (fun q => aids (el_at cb q)) (map snd (wk_merge wk))) by (rewrite map_map; reflexivity).
    replace (map (fun x : id * N => aids (el_at cb (fst x))) (wk_b_only wk))
      with (map (fun q => aids (el_at cb q)) (map fst (wk_b_only wk))) by (rewrite map_map; reflexivity).
    rewrite <- concat_app, <- map_app.
    apply foot_positions; [exact Hnd_b|exact C3|]. intros q Hq. apply Hvalid_b. exact Hq. }
  assert (Hcount : forall x,
     ((if N.eq_dec ia x then 1 else 0) + (cnt (aids_items ca) x + ((if N.eq_dec ib x then 1 else 0) + cnt (aids_items cb) x)) <= 1)%nat /\
     (cnt FA x <= 1)%nat /\ (cnt FA x > 0 -> cnt (aids_items ca) x > 0)%nat /\
     (cnt FB x + cnt NB x <= 1)%nat /\ (cnt FB x + cnt NB x > 0 -> cnt (aids_items cb) x > 0)%nat /\
     cnt (aids_items cur2) x = (cnt (aids_items ca) x + cnt NB x)%nat).
  { intros x. pose proof (proj1 (nodup_cnt _) Hnd x) as H0. cbn [app] in H0. rewrite cnt_cons, cnt_app, cnt_cons in H0.
    destruct HFA as (HFA1 & HFA2). destruct HFBN as (HFB1 & HFB2).
    pose proof (proj1 (nodup_cnt _) HFA1 x) as H1'. pose proof (proj1 (incl_cnt _ _) HFA2 x) as H2'.
    pose proof (proj1 (nodup_cnt _) HFB1 x) as H3'. pose proof (proj1 (incl_cnt _ _) HFB2 x) as H4'. rewrite cnt_app in H3', H4'.
    pose proof (perm_cnt _ _ P2 x) as H5'. rewrite cnt_app, Hca1_aids in H5'.
    repeat split; try assumption. }
  assert (Hnd_foot : NoDup (List.concat (map foot pairs))).
  { eapply Permutation_NoDup; [apply Permutation_sym; apply concat_foot_perm|]. fold FA FB.
    apply nodup_cnt. intros x. destruct (Hcount x) as (H0 & H1' & H2' & H3' & H4' & _). rewrite cnt_app. lia. }
  assert (HP3 : Forall (fun p => Clean T LATEST defref (fver_of w2) fl (erase (fst p)) (filesp files (fst p)) (erase (snd p)) nf /\
                     exists r, pmerge T LATEST defref (fver_of w2) fl (erase (fst p)) (filesp files (fst p)) (erase (snd p)) nf = Val (OK r)) pairs).
  { rewrite Efv. apply Forall_forall. intros pr Hpr. destruct (Hpairs_in pr Hpr) as (p & q & Hpq & -> & _). cbn [fst snd].
    destruct (HM p q Hpq) as (Hp1 & Hq1 & Hp & Hq). destruct (Hvalid_a p Hp) as (Hpa & _). destruct (Hvalid_b q Hq) as (Hqb & _).
    assert (Ena : nth_opt (erase_items ca) (N.to_nat p) = Some (inl (erase (el_at ca p)))) by (rewrite nth_opt_erase_items, Hpa; reflexivity).
    assert (Enb : nth_opt (erase_items cb) (N.to_nat q) = Some (inl (erase (el_at cb q)))) by (rewrite nth_opt_erase_items, Hqb; reflexivity).
    split.
    - pose proof (C5 p q _ _ Hpq Ena Enb) as HC5. rewrite erase_local in HC5. exact HC5.
    - destruct (map_kids_inv _ _ _ _ Em) as (_ & Hk).
      assert (Hnk : nth_error (erase_items ca) (N.to_nat p) = Some (inl (erase (el_at ca p)))) by (rewrite nth_error_erase_items, Hpa; reflexivity).
      specialize (Hk _ _ Hnk). cbn beta iota in Hk. destruct Hk as (c' & Hcs & _).
      rewrite N.add_0_l, N2Nat.id in Hcs. unfold child_step in Hcs.
      rewrite (Hnot_aonly p Hp1) in Hcs.
      rewrite (lookup_merge_in p q _ (nodup_app_l _ _ C1) Hpq), Enb in Hcs. rewrite erase_local in Hcs.
      fold (filesp files (el_at ca p)) in Hcs.
      destruct (pmerge T LATEST defref (fver_of w) fl (erase (el_at ca p)) (filesp files (el_at ca p)) (erase (el_at cb q)) nf) as [[r|e]| |];
        cbn [bind] in Hcs; try discriminate.
      exists r. reflexivity. }
  destruct (subs_phase fl files nf IH pairs w2 HA3 Hnd_foot HP3) as (w3 & finals & E3 & F3 & S3).
  (* ---- assembly *)
  pose (R3 := fun (p : atree * atree) (c' : atree) =>
     AbsA w3 c' /\ a_id c' = a_id (fst p) /\ NoDup (aids c') /\ incl (aids c') (foot p) /\
     exists r, pmerge T LATEST defref (fver_of w2) fl (erase (fst p)) (filesp files (fst p)) (erase (snd p)) nf = Val (OK r) /\
               erase c' = h_bump nf r).
  assert (F3' : Forall2 R3 pairs finals) by exact F3.
  assert (R3_id : forall p c', R3 p c' -> a_id c' = a_id (fst p)) by (intros p c' (_ & H & _); exact H).
  assert (Hfin_ids : map a_id finals = map (fun p => a_id (fst p)) pairs) by (apply (forall2_ids R3 R3_id); exact F3').
  assert (Hpair_ids : map (fun p : atree * atree => a_id (fst p)) pairs = map fa (map fst (wk_merge wk))).
  { unfold pairs. rewrite !map_map. apply map_ext. intros [p q]. cbn [fst]. unfold fa. rewrite pos_id_el_at. reflexivity. }
  assert (Hnd_ids : NoDup (map (fun p : atree * atree => a_id (fst p)) pairs)).
  { rewrite Hpair_ids. apply nodup_map_inj; [eapply nodup_app_l; exact C1|].
    intros x y Hx Hy. apply Hfa_inj; apply C2; apply in_or_app; left; assumption. }
  assert (HFfoot : Forall2 Rfoot pairs finals).
  { eapply forall2_impl; [|exact F3']. intros p c' (_ & H1' & H2' & H3' & _). repeat split; auto. }
  assert (Hnd_cur2FB : NoDup (aids_items cur2 ++ FB)).
  { apply nodup_cnt. intros x. destruct (Hcount x) as (H0 & H1' & H2' & H3' & H4' & H5'). rewrite cnt_app, H5'. lia. }
  assert (Hpairs_cur2 : forall p, In p pairs -> In (inl (fst p)) cur2).
  { intros pr Hpr. destruct (Hpairs_in pr Hpr) as (p & q & _ & -> & H1' & _). exact H1'. }
  destruct (slots pairs finals cur2 HFfoot Hnd_cur2FB Hpairs_cur2 Hnd_ids) as (Hnd3 & Hincl3).
  fold FB in Hincl3.
  set (g := gsel finals) in *.
  set (cur3 := map_el g cur2) in *.
  assert (Hg_none : forall c, ~ In (a_id c) (map fa (map fst (wk_merge wk))) -> g c = c).
  { intros c Hc. apply gsel_none. rewrite Hfin_ids, Hpair_ids. exact Hc. }
  assert (Hfoot_sub : forall x, In x (List.concat (map foot pairs)) -> (cnt FA x + cnt FB x > 0)%nat).
  { intros x Hx. apply in_cnt in Hx. rewrite (perm_cnt _ _ (concat_foot_perm pairs) x), cnt_app in Hx. exact Hx. }
  assert (Hmerge_ids_in_ca : forall i, In i (map fa (map fst (wk_merge wk))) -> In i (aids_items ca)).
  { intros i Hi. apply in_map_iff in Hi as (p & <- & Hp). unfold fa. rewrite pos_id_el_at. apply child_id_in_aids.
    apply Hvalid_a. apply in_or_app; left; exact Hp. }
  assert (Hnb_id_in_cb : forall nb, In nb nbs -> In (a_id nb) (aids_items cb)).
  { intros nb Hnb0. destruct (Hnbs_in nb Hnb0) as (q & _ & _ & Hin). apply child_id_in_aids. exact Hin. }
  assert (Hia3 : ~ In ia (aids_items cur3)).
  { intros Hin. apply Hincl3 in Hin. apply in_cnt in Hin. rewrite cnt_app in Hin.
    destruct (Hcount ia) as (H0 & _ & _ & _ & H4' & H5'). rewrite H5' in Hin.
    rewrite eq_dec_one in H0. lia. }
  exists w3, (ANode ia name ty attrs cur3 cm aloc).
  split; [exact E3|].
  split.
  { apply AbsA_unfold. split.
    - exists pa_p. destruct S3 as (_ & _ & _ & S3n). rewrite S3n.
      + rewrite Hia2. unfold cur3. rewrite (map_el_ids g cur2 (gsel_id finals)). reflexivity.
      + intros Hin. apply Hfoot_sub in Hin. destruct (Hcount ia) as (H0 & H1' & H2' & H3' & H4' & _).
        rewrite eq_dec_one in H0. lia.
    - unfold cur3. apply AbsItems_map_el. intros c Hc. unfold g, gsel.
      destruct (pick (a_id c) finals) as [c'|] eqn:Epk.
      + apply pick_some in Epk as (Hc' & _). destruct (forall2_in_r _ _ _ _ F3' Hc') as (pr & _ & (HAc' & _)). exact HAc'.
      + apply (AbsA_frame' c w2 w3); [|eapply AbsItems_in; [exact HI2|exact Hc]].
        eapply same_except_agree; [exact S3|]. intros x Hx Hx2. apply Hfoot_sub in Hx2.
        assert (Hx_cur2 : In x (aids_items cur2)) by (eapply aids_items_in; eauto).
        destruct (in_dec N.eq_dec x FA) as [HxA|HxA].
        * unfold FA in HxA. apply in_concat in HxA as (lx & Hlx & Hxl). apply in_map_iff in Hlx as (pr & <- & Hpr).
          assert (c = fst pr).
          { eapply (aids_items_disjoint cur2 (nodup_app_l _ _ Hnd_cur2FB)); [exact Hc|apply Hpairs_cur2; exact Hpr|exact Hx|exact Hxl]. }
          subst c. destruct (pick_forall2 R3 R3_id pairs finals F3' Hnd_ids pr Hpr) as (c' & Epk' & _). congruence.
        * apply in_cnt in Hx_cur2. apply notin_cnt in HxA.
          pose proof (proj1 (nodup_cnt _) Hnd_cur2FB x) as H9. rewrite cnt_app in H9. lia. }
  split.
  { rewrite erase_unfold. f_equal. unfold cur3. rewrite Ecur2. unfold imports_a.
    rewrite <- (map_map (a_import nf) (@inl atree cdata) nbs).
    rewrite map_el_ins_all, erase_items_ins_all. f_equal.
    - rewrite (imported_imp3 _ _ _ _ nf H3). f_equal. rewrite !map_map. apply map_ext_in. intros nb Hnb0.
      rewrite Hg_none; [apply erase_import|].
      unfold a_import. rewrite a_id_set_local. intros Hin. apply Hmerge_ids_in_ca in Hin.
      apply (Hdis_ab _ Hin). right. apply Hnb_id_in_cb. exact Hnb0.
    - unfold ca1. rewrite map_el_map_el. destruct (map_kids_inv _ _ _ _ Em) as (Hlen & Hk). apply list_eq_nth.
      + rewrite erase_items_length, map_el_length, Hlen, erase_items_length. reflexivity.
      + intros k. rewrite nth_error_erase_items, nth_error_map_el.
        destruct (nth_error ca k) as [[c|d]|] eqn:Ek; cbn [option_map].
        * assert (Hnk : nth_error (erase_items ca) k = Some (inl (erase c))) by (rewrite nth_error_erase_items, Ek; reflexivity).
          destruct (Hk _ _ Hnk) as (c' & Hcs & Hn1). rewrite Hn1. do 2 f_equal.
          rewrite N.add_0_l in Hcs. set (p := N.of_nat k) in *.
          assert (Hel : el_at ca p = c) by (apply el_at_nth; exact Ek).
          assert (Hp_lap : In p (map k_id lap)).
          { pose proof (hkeys_in_pos ty ca 0 k c Ek) as H. rewrite N.add_0_l in H. exact H. }
          assert (Hidc : a_id c = fa p) by (unfold fa; rewrite pos_id_el_at, Hel; reflexivity).
          unfold child_step in Hcs.
          assert (Hr1c : r1 c = if existsb (N.eqb p) (wk_a_only wk) then a_restrict files c else c).
          { unfold r1. rewrite Hidc, (Hmem1 p Hp_lap). reflexivity. }
          rewrite Hr1c.
          destruct (existsb (N.eqb p) (wk_a_only wk)) eqn:Ea.
          -- injection Hcs as <-. rewrite Hg_none; [apply erase_restrict|].
             rewrite a_restrict_id, Hidc. intros Hin. apply in_map_iff in Hin as (p' & E & Hp').
             assert (p' = p) by (apply Hfa_inj; [apply C2; apply in_or_app; left; exact Hp'|exact Hp_lap|exact E]). subst p'.
             rewrite (Hnot_aonly p Hp') in Ea. discriminate.
          -- destruct (lookup_merge p (wk_merge wk)) as [q|] eqn:El.
             ++ apply lookup_merge_some in El. destruct (HM p q El) as (Hp1 & Hq1 & Hp & Hq). destruct (Hvalid_b q Hq) as (Hqb & _).
                assert (Enb : nth_opt (erase_items cb) (N.to_nat q) = Some (inl (erase (el_at cb q)))) by (rewrite nth_opt_erase_items, Hqb; reflexivity).
                rewrite Enb in Hcs.
                assert (Hpr : In (el_at ca p, el_at cb q) pairs).
                { unfold pairs. apply in_map_iff. exists (p, q). split; [reflexivity|exact El]. }
                destruct (pick_forall2 R3 R3_id pairs finals F3' Hnd_ids _ Hpr) as (cf & Epk & (_ & _ & _ & _ & r & Hr & Her)).
                cbn [fst snd] in Epk, Hr. rewrite Hel in Epk, Hr.
                unfold g, gsel. rewrite Epk, Her.
                rewrite Efv in Hr. rewrite erase_local in Hcs. fold (filesp files c) in Hcs. rewrite Hr in Hcs. cbn [bind] in Hcs.
                injection Hcs as <-. reflexivity.
             ++ injection Hcs as <-. rewrite Hg_none; [reflexivity|]. rewrite Hidc. intros Hin. apply in_map_iff in Hin as (p' & E & Hp').
                assert (p' = p) by (apply Hfa_inj; [apply C2; apply in_or_app; left; exact Hp'|exact Hp_lap|exact E]). subst p'.
                apply (lookup_merge_none _ _ El). exact Hp'.
        * assert (Hnk : nth_error (erase_items ca) k = Some (inr d)) by (rewrite nth_error_erase_items, Ek; reflexivity).
          pose proof (Hk _ _ Hnk) as Hn1. cbn beta iota in Hn1. rewrite Hn1. reflexivity.
        * symmetry. apply nth_error_None. rewrite Hlen, erase_items_length. apply nth_error_None. exact Ek. }
  split; [reflexivity|].
  split; [rewrite aids_unfold; constructor; [exact Hia3|exact Hnd3]|].
  rewrite !aids_unfold. cbn [app].
  assert (Hin_target : forall x, (cnt (aids_items ca) x + cnt (aids_items cb) x > 0)%nat ->
                                 In x (ia :: aids_items ca ++ ib :: aids_items cb)).
  { intros x Hx. apply in_cnt. rewrite cnt_cons, cnt_app, cnt_cons. lia. }
  split.
  { intros x [<-|Hx]; [left; reflexivity|]. apply Hincl3 in Hx. apply in_cnt in Hx. rewrite cnt_app in Hx.
    destruct (Hcount x) as (H0 & H1' & H2' & H3' & H4' & H5'). apply Hin_target. lia. }
  assert (T12 : same_except w w2 (ia :: aids_items ca ++ aids_items cb)).
  { apply (same_except_trans w w1 w2 ids1 (ia :: map a_id nbs)); [| |exact S1|exact S2].
    - intros x Hx. right. apply in_or_app. left. apply Hids1_in. exact Hx.
    - intros x [<-|Hx]; [left; reflexivity|]. right. apply in_or_app. right. apply in_map_iff in Hx as (nb & <- & Hnb0).
      apply Hnb_id_in_cb; exact Hnb0. }
  apply (same_except_trans w w2 w3 (ia :: aids_items ca ++ aids_items cb) (List.concat (map foot pairs))); [| |exact T12|exact S3].
  - intros x [<-|Hx]; [left; reflexivity|]. apply Hin_target. apply in_app_or in Hx as [Hx|Hx]; apply in_cnt in Hx; lia.
  - intros x Hx. apply Hfoot_sub in Hx. destruct (Hcount x) as (H0 & H1' & H2' & H3' & H4' & H5'). apply Hin_target. lia.
Qed.

End Refine.
