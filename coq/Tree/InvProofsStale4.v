(* Tree/InvProofsStale4.v — C03, stale handles and the larger alphabet: Element::sort through a handle.
   sort_local: Element::sort(h) changes nothing but nodes reachable from h through content lists (and those only by
   permuting content lists: Tree/SortProofsHeap.v).  Hence a sort through a handle of a detached element leaves
   models, files and every live node as they were (stale_sort_live), in every world with Core, so along every op2
   history outside Known_load_shared; Element::serialize through any handle changes nothing at all. *)
From Coq Require Import PeanoNat Arith Lia Permutation.
From AV Require Import Base.Bytes Base.Outcome Hash.HashModel Tree.Heap Tree.Ops Tree.Script Tree.Inv Tree.Sort
  Tree.SortProofsOrder Tree.SortProofsHeap Tree.SortProofsMain
  Tree.InvProofsBase Tree.InvProofsCore Tree.InvProofsTree Tree.InvProofsPrim Tree.StaleProofs Tree.InvProofs
  Tree.InvProofsOp2 Tree.Script2 Tree.InvLoad Tree.InvProofsOp2Rej Tree.InvProofsStale3.
Open Scope string_scope.
Open Scope list_scope.
Open Scope N_scope.

Lemma reach_ptree w w' i x : ptree w w' -> (Reach w' i x <-> Reach w i x).
Proof.
  intros P. split; intros H.
  - induction H as [Ha|p c _ IH Hl]; [apply R_self; apply (ptree_alloc _ _ _ P); exact Ha|].
    eapply R_kid; [exact IH|apply (ptree_lists _ _ _ _ P); exact Hl].
  - induction H as [Ha|p c _ IH Hl]; [apply R_self; apply (ptree_alloc _ _ _ P); exact Ha|].
    eapply R_kid; [exact IH|apply (ptree_lists _ _ _ _ P); exact Hl].
Qed.

Section SortLocal.
Variable T : tables.
Variable tab_el tab_at tab_en : nametab.
Variable name_index name_definition_ref : N.
Variable srt : forall A, (A -> A -> comparison) -> list A -> list A.
Hypothesis srt_perm : forall A (c : A -> A -> comparison) l, Permutation l (srt A c l).

Notation sort_f' := (sort_f T tab_el tab_at tab_en name_index name_definition_ref srt).
Notation frame_ok' := (frame_ok T).

Definition loc (i : id) (w w' : world) : Prop := forall x, ~ Reach w i x -> w_nodes w' x = w_nodes w x.
Definition loc_ok (rec : id -> W unit) : Prop := forall c w r w', rec c w = Val (r, w') -> loc c w w'.

Lemma keyed_loop_loc rec ty l : frame_ok' rec -> loc_ok rec ->
  forall w r w', keyed_loop T rec ty l w = Val (r, w') ->
    forall x, (forall c, In (CElem c) l -> ~ Reach w c x) -> w_nodes w' x = w_nodes w x.
Proof.
  intros F L. induction l as [|it l IH]; intros w r w' H x Hx.
  - cbn in H. injection H as _ <-. reflexivity.
  - destruct it as [c|d]; cbn [keyed_loop] in H; [|eapply IH; [exact H|intros c0 Hc0; apply Hx; right; exact Hc0]].
    apply wbind_val in H as [(u & w1 & E1 & H) | (e & E1 & _)]; [|apply F in E1 as [E1 _]; discriminate].
    pose proof (L _ _ _ _ E1 x (Hx c (or_introl eq_refl))) as X1.
    apply F in E1 as [_ R1]. pose proof (world_rel_ptree T _ _ R1) as P1.
    apply wbind_val in H as [(cn & w2 & E2 & H) | (e & E2 & _)];
      [|apply get_node_val in E2 as (? & _ & E2 & _); discriminate].
    apply get_node_val in E2 as (cn' & Wc & E2 & ->). injection E2 as <-.
    apply wbind_val in H as [(fs & w3 & E3 & H) | (e & E3 & _)];
      [|apply wl_val in E3 as (? & _ & E3 & _); discriminate].
    apply wl_val in E3 as (fs' & Hfs & E3 & ->). injection E3 as <-.
    destruct fs as [[et idx]|]; [|discriminate].
    assert (G : forall r4 w4, keyed_loop T rec ty l w1 = Val (r4, w4) -> w_nodes w4 x = w_nodes w x).
    { intros r4 w4 E4. rewrite <- X1. eapply IH; [exact E4|].
      intros c0 Hc0 Hr. apply (reach_ptree _ _ _ _ P1) in Hr. revert Hr. apply Hx. right. exact Hc0. }
    apply wbind_val in H as [(more & w4 & E4 & H) | (e & E4 & ->)].
    + cbn in H. injection H as _ <-. eapply G; eauto.
    + eapply G; eauto.
Qed.

Lemma iter_loop_loc rec l : frame_ok' rec -> loc_ok rec ->
  forall w r w', iter_loop rec l w = Val (r, w') ->
    forall x, (forall c, In (CElem c) l -> ~ Reach w c x) -> w_nodes w' x = w_nodes w x.
Proof.
  intros F L. induction l as [|it l IH]; intros w r w' H x Hx.
  - cbn in H. injection H as _ <-. reflexivity.
  - destruct it as [c|d]; cbn [iter_loop] in H; [|eapply IH; [exact H|intros c0 Hc0; apply Hx; right; exact Hc0]].
    apply wbind_val in H as [(u & w1 & E1 & H) | (e & E1 & _)]; [|apply F in E1 as [E1 _]; discriminate].
    pose proof (L _ _ _ _ E1 x (Hx c (or_introl eq_refl))) as X1.
    apply F in E1 as [_ R1]. pose proof (world_rel_ptree T _ _ R1) as P1.
    rewrite <- X1. eapply IH; [exact H|].
    intros c0 Hc0 Hr. apply (reach_ptree _ _ _ _ P1) in Hr. revert Hr. apply Hx. right. exact Hc0.
Qed.

Lemma sort_loc f : loc_ok (sort_f' f).
Proof.
  induction f as [|f IH]; intros i w r w' H; [discriminate|].
  pose proof (sort_frame T tab_el tab_at tab_en name_index name_definition_ref srt srt_perm f) as F.
  cbn [sort_f] in H. intros x Hx.
  apply wbind_val in H as [(n & w1 & E1 & H) | (e & E1 & _)];
    [|apply get_node_val in E1 as (? & _ & E1 & _); discriminate].
  apply get_node_val in E1 as (n' & Wi & E1 & ->). injection E1 as <-.
  assert (Hkid : forall c, In (CElem c) (n_content n) -> ~ Reach w c x).
  { intros c Hc Hr. apply Hx. eapply reach_trans; [|exact Hr].
    eapply R_kid; [apply R_self; eexists; eauto|]. exists n. split; auto. unfold kids. apply in_elems. exact Hc. }
  apply wbind_val in H as [(mode & w2 & E2 & H) | (e & E2 & _)];
    [|apply wl_val in E2 as (? & _ & E2 & _); discriminate].
  apply wl_val in E2 as (mode' & Hmode & E2 & ->). injection E2 as <-.
  destruct ((mode =? MCharacters) || (mode =? MMixed)) eqn:Em.
  { cbn in H. injection H as _ <-. reflexivity. }
  apply wbind_val in H as [(ordered & w3 & E3 & H) | (e & E3 & _)];
    [|apply wl_val in E3 as (? & _ & E3 & _); discriminate].
  apply wl_val in E3 as (ordered' & Hord & E3 & ->). injection E3 as <-.
  destruct (negb ordered && (1 <? N.of_nat (List.length (n_content n)))) eqn:Eb;
    [|eapply iter_loop_loc; [exact F|exact IH|exact H|exact Hkid]].
  apply wbind_val in H as [(keyed & w4 & E4 & H) | (e & E4 & _)];
    [|eapply keyed_loop_frame in E4 as (_ & ? & E4 & _); [discriminate|exact F]].
  pose proof (keyed_loop_loc _ _ _ F IH _ _ _ E4 x Hkid) as X4.
  apply wbind_val in H as [(wc & w5 & E5 & H) | (e & E5 & _)]; [|discriminate].
  unfold wget in E5. injection E5 as <- <-.
  apply wbind_val in H as [(u & w6 & E6 & H) | (e & E6 & _)];
    [|apply wl_val in E6 as (? & _ & E6 & _); discriminate].
  apply wl_val in E6 as (u' & _ & _ & ->).
  unfold modify_node in H.
  apply wbind_val in H as [(n1 & w7 & E7 & H) | (e & E7 & _)];
    [|apply get_node_val in E7 as (? & _ & E7 & _); discriminate].
  apply get_node_val in E7 as (n1' & W1 & E7 & ->). injection E7 as <-.
  unfold set_node in H. injection H as _ <-. cbn [w_nodes]. rewrite <- X4.
  apply upd_neq. intros ->. apply Hx. apply R_self. eexists; eauto.
Qed.
End SortLocal.

Section StaleSort.
Variable T : tables.
Variable tab_el tab_at tab_en : nametab.
Variable name_index name_definition_ref : N.

Theorem sort_local h w r w' :
  e_sort T tab_el tab_at tab_en name_index name_definition_ref h w = Val (r, w') ->
  w_models w' = w_models w /\ w_files w' = w_files w /\ forall x, ~ Reach w h x -> w_nodes w' x = w_nodes w x.
Proof.
  intros H. pose proof H as H0.
  apply (e_sort_frame T tab_el tab_at tab_en name_index name_definition_ref isort_poly StableSort_isort) in H0
    as (_ & (_ & Hf & Hm & _)).
  split; [exact Hm|]. split; [exact Hf|].
  unfold e_sort, e_sort_with, wbind, wget in H.
  exact (sort_loc T tab_el tab_at tab_en name_index name_definition_ref isort_poly
           (fun A c l => proj1 (StableSort_isort A c l)) _ _ _ _ _ H).
Qed.

Theorem stale_sort_live h w r w' :
  Core w -> Detached w h ->
  e_sort T tab_el tab_at tab_en name_index name_definition_ref h w = Val (r, w') -> live_eq w w'.
Proof.
  intros C Hd H. destruct (sort_local _ _ _ _ H) as (Hm & Hf & Hn). repeat split; auto.
  intros x (r0 & Hin & Hr). apply Hn. intros Hhx.
  (* x below h: its chain ends where h's chain ends, in PNone; but x is live *)
  assert (Ht : Top w x PNone) by (eapply reach_top; eauto).
  eapply (detached_not_live w x C Ht). exists r0. auto.
Qed.
End StaleSort.

(* ------------------------------------------------------------------ requests of the larger alphabet through a handle *)
Definition principal2 (o : op2) : option id :=
  match o with
  | Op1 o1 => principal o1
  | OpSort h | OpSerializeElem h => Some h
  | _ => None
  end.

Section Stale4.
Variable T : tables.
Variable tab_el tab_at tab_en : nametab.
Variable check_fn : N -> list N -> res bool.
Variable float_parse : list N -> option N.
Variable float_fmt : N -> list N.
Variables LATEST name_index name_definition_ref attr_schema_location : N.
Variable root_attrs : list (N * cdata).
Notation run2 := (run_op2 T tab_el tab_at tab_en check_fn float_parse float_fmt LATEST name_index name_definition_ref
                          attr_schema_location root_attrs).

Theorem stale_live2 o h w r w' :
  Core w -> Detached w h -> principal2 o = Some h -> run2 o w = Val (r, w') -> live_eq w w'.
Proof.
  intros C Hd Hp H. destruct o; try discriminate Hp; cbn [principal2] in Hp; cbn [run_op2] in H.
  - apply wmap_inv in H as (r0 & H & _).
    eapply (stale_live T tab_el tab_en check_fn LATEST root_attrs); eauto.
  - injection Hp as ->. apply wmap_inv in H as (r0 & H & _). eapply stale_sort_live; eauto.
  - injection Hp as ->. apply wmap_inv in H as (r0 & H & _). unfold Serialize.e_serialize in H.
    destruct (Serialize.ser_heap _ _ _ _ _ _ _ _ _ _ _) in H; try discriminate. injection H as _ <-. apply live_eq_refl.
Qed.

Theorem stale_live2_histories2 l w o h r w' :
  run_ops2 T tab_el tab_at tab_en check_fn float_parse float_fmt LATEST name_index name_definition_ref
           attr_schema_location root_attrs l empty_world = Val w ->
  clean_shared_ops2 T tab_el tab_at tab_en check_fn float_parse float_fmt LATEST name_index name_definition_ref
           attr_schema_location root_attrs l empty_world = true ->
  Detached w h -> principal2 o = Some h -> run2 o w = Val (r, w') -> live_eq w w'.
Proof.
  intros H Hc Hd Hp Hr. eapply stale_live2; eauto.
  exact (Core_histories2_full T tab_el tab_at tab_en check_fn float_parse float_fmt LATEST name_index
           name_definition_ref attr_schema_location root_attrs l empty_world w empty_core Hc H).
Qed.
End Stale4.
