(* Tree/InvProofsOp2.v — C03: Core over the extended alphabet op2 of Tree/Script2.v.
     OpSort / OpSortModel : content lists are only permuted (C14_perm, agent-c14)       -> Core and NoOrphan kept
     OpSetVersion / OpCheckCompat / OpSerializeFile / OpSerializeElem : same tree        -> Core and NoOrphan kept
     OpDuplicate : new_model + create_file + copies + file sets, the dropped copy leaves only unreachable nodes -> Core
     OpLoad : pending (Tree/Load.v is not covered here). *)
From Coq Require Import PeanoNat Arith Permutation.
From AV Require Import Base.Bytes Base.Outcome Hash.HashModel Tree.Heap Tree.Ops Tree.Script Tree.Inv
  Tree.InvProofsBase Tree.InvProofsCore Tree.InvProofsTree Tree.InvProofsPrim Tree.InvProofsCreate
  Tree.InvProofsData Tree.InvProofsFiles Tree.InvProofsCopy Tree.InvProofs.
From AV Require Import Tree.Sort Tree.SortProofsHeap Tree.SortProofsOrder Tree.SortProofsMain Tree.Copy Tree.Compat
  Tree.Serialize Tree.Load Tree.Script2.
Open Scope string_scope.
Open Scope list_scope.
Open Scope N_scope.

(* ------------------------------------------------------------------ permuted content lists *)
Definition ptree (w w' : world) : Prop :=
  w_next w' = w_next w /\ roots w' = roots w /\
  forall i, match skel w i, skel w' i with
            | Some (p, ks), Some (p', ks') => p' = p /\ Permutation ks ks'
            | None, None => True
            | _, _ => False
            end.

Lemma ptree_par w w' c p : ptree w w' -> (par w' c p <-> par w c p).
Proof.
  intros (_ & _ & H). specialize (H c). rewrite !par_skel.
  destruct (skel w c) as [[q ks]|], (skel w' c) as [[q' ks']|]; try tauto.
  destruct H as (-> & _). split; intros (k & [= -> <-]); eauto.
Qed.
Lemma ptree_lists w w' p c : ptree w w' -> (lists w' p c <-> lists w p c).
Proof.
  intros (_ & _ & H). specialize (H p). rewrite !lists_skel.
  destruct (skel w p) as [[q ks]|], (skel w' p) as [[q' ks']|]; try tauto;
    try (split; intros (a & b & [=] & _); fail).
  destruct H as (-> & Hp). split; intros (a & b & [= <- <-] & Hc); do 2 eexists; split; eauto.
  - eapply Permutation_in; [apply Permutation_sym|]; eauto.
  - eapply Permutation_in; eauto.
Qed.
Lemma ptree_alloc w w' i : ptree w w' -> (allocated w' i <-> allocated w i).
Proof.
  intros (_ & _ & H). specialize (H i). rewrite !allocated_skel.
  destruct (skel w i) as [[q ks]|], (skel w' i) as [[q' ks']|]; try tauto; split; congruence.
Qed.

Lemma Core_ptree w w' : ptree w w' -> Core w -> Core w'.
Proof.
  intros S C. pose proof S as (Hn & Hr & Hs). constructor.
  - intros i. rewrite (ptree_alloc _ _ _ S), Hn. apply C.
  - intros p c Hl. apply (ptree_par _ _ _ _ S). apply C. apply (ptree_lists _ _ _ _ S). auto.
  - intros p n Hp. specialize (Hs p). rewrite (skel_some _ _ _ Hp) in Hs.
    destruct (skel w p) as [[q ks]|] eqn:E; [|tauto]. destruct Hs as (_ & Hperm).
    apply skel_inv in E as (n0 & Hn0 & _ & <-). eapply Permutation_NoDup; eauto. eapply c_nodup; eauto.
  - intros k r. rewrite Hr. intros H. destruct (c_roots _ C _ _ H) as (n & Hn0 & Hp).
    specialize (Hs r). rewrite (skel_some _ _ _ Hn0) in Hs. destruct (skel w' r) as [[q' ks']|] eqn:E; [|tauto].
    destruct Hs as (-> & _). apply skel_inv in E as (n' & Hn' & Hp' & _). exists n'. split; auto. congruence.
  - intros i Ha. apply (ptree_alloc _ _ _ S) in Ha. destruct (c_depth _ C _ Ha) as (h & Hd). exists h.
    eapply depth_transfer; [|exact Hd]. intros x n Hx. specialize (Hs x). rewrite (skel_some _ _ _ Hx) in Hs.
    destruct (skel w' x) as [[q' ks']|] eqn:E; [|tauto]. destruct Hs as (-> & _).
    apply skel_inv in E as (n' & Hn' & Hp' & _). eauto.
Qed.

Lemma NoOrphan_ptree w w' : ptree w w' -> NoOrphan w -> NoOrphan w'.
Proof.
  intros S (O & R). pose proof S as (Hn & Hr & Hs). split.
  - intros c p Hp. apply (ptree_lists _ _ _ _ S). apply O. apply (ptree_par _ _ _ _ S). auto.
  - intros i n m Hi Hm. rewrite Hr. specialize (Hs i). rewrite (skel_some _ _ _ Hi) in Hs.
    destruct (skel w i) as [[q ks]|] eqn:E; [|tauto]. destruct Hs as (Hq & _).
    apply skel_inv in E as (n0 & Hn0 & Hp0 & _). eapply R; eauto. congruence.
Qed.

Lemma celems_elems l : celems l = elems l.
Proof. reflexivity. Qed.

Lemma world_rel_ptree T w w' : world_rel T w w' -> ptree w w'.
Proof.
  intros (Hn & _ & Hm & Hj). split; auto. split; [unfold roots; rewrite Hm; auto|].
  intros i. specialize (Hj i). unfold skel. destruct (w_nodes w i) as [n|], (w_nodes w' i) as [n'|]; auto.
  destruct Hj as ((Hp & _) & Hc). split; auto. unfold kids. destruct Hc as [->|(_ & Hperm)]; auto.
  apply celems_perm in Hperm. rewrite celems_map in Hperm. rewrite !celems_elems in Hperm. auto.
Qed.

(* ------------------------------------------------------------------ Core-preserving computations *)
Definition CoreP {A} (m : W A) : Prop := forall w r w', m w = Val (r, w') -> Core w -> Core w'.
Lemma CoreP_Pres {A} (m : W A) : Pres m -> CoreP m.
Proof. intros P w r w' H C. exact (proj1 (P _ _ _ H C)). Qed.
Lemma CoreP_stp {A} (m : W A) : stp m -> CoreP m.
Proof. intros P. apply CoreP_Pres, Pres_stp, P. Qed.
Lemma CoreP_ro {A} (m : W A) : ro m -> CoreP m.
Proof. intros P. apply CoreP_Pres, Pres_ro, P. Qed.
Lemma CoreP_bind {A B} (m : W A) (k : A -> W B) : CoreP m -> (forall a, CoreP (k a)) -> CoreP (wbind m k).
Proof.
  intros Hm Hk w r w' H C. apply wbind_inv in H as [(a & w1 & H1 & H2) | (e & H1 & _)].
  - eapply Hk; eauto.
  - eapply Hm; eauto.
Qed.

Definition pending_op2 (o : op2) : bool := match o with OpLoad _ _ _ _ => true | _ => false end.

Section Op2.
Variable T : tables.
Variable tab_el tab_at tab_en : nametab.
Variable check_fn : N -> list N -> res bool.
Variable float_parse : list N -> option N.
Variable float_fmt : N -> list N.
Variable LATEST name_index name_definition_ref attr_schema_location : N.
Variable root_attrs : list (N * cdata).

Notation run2 := (run_op2 T tab_el tab_at tab_en check_fn float_parse float_fmt LATEST name_index name_definition_ref
                          attr_schema_location root_attrs).

Lemma CoreP_dup_files c : forall files fm, CoreP (dup_files T c files fm).
Proof.
  induction files as [|f rest IH]; intros fm; cbn [dup_files]; [apply CoreP_ro; ro_tac|].
  apply CoreP_bind; [apply CoreP_ro; ro_tac|]. intros fl.
  apply CoreP_bind; [apply CoreP_stp, stp_m_create_file|]. intros nf.
  apply CoreP_bind; [apply CoreP_ro; ro_tac|]. intros nfl.
  apply CoreP_bind; [apply CoreP_stp, stp_set_file|]. intros _. apply IH.
Qed.

Lemma CoreP_e_copied h other : CoreP (e_create_copied_sub_element T LATEST h other).
Proof. intros w r w' H C. eapply e_copied_spec in H as (C' & _); try exact C; try exact check_fn. exact C'. Qed.

Lemma CoreP_dup_children croot : forall items, CoreP (dup_children T LATEST croot items).
Proof.
  induction items as [|[e|d] rest IH]; cbn [dup_children]; [apply CoreP_ro; ro_tac | | exact IH].
  apply CoreP_bind; [apply CoreP_e_copied | intros; exact IH].
Qed.

Lemma CoreP_dup_membership fm : forall oids cids, CoreP (dup_membership fm oids cids).
Proof.
  induction oids as [|o orest IH]; intros cids; cbn [dup_membership]; [apply CoreP_ro; ro_tac|].
  destruct cids as [|c crest]; [apply CoreP_ro; ro_tac|].
  apply CoreP_bind; [apply CoreP_ro; ro_tac|]. intros on.
  apply CoreP_bind; [apply CoreP_ro; ro_tac|]. intros wq.
  apply CoreP_bind; [apply CoreP_stp, stp_modify_node; intros n; split; reflexivity|]. intros _. apply IH.
Qed.

Lemma CoreP_duplicate_body m : CoreP (m_duplicate_body T LATEST root_attrs m).
Proof.
  unfold m_duplicate_body.
  apply CoreP_bind; [apply CoreP_ro; ro_tac|]. intros x.
  apply CoreP_bind; [apply CoreP_Pres, Pres_new_model|]. intros c.
  apply CoreP_bind; [apply CoreP_ro; ro_tac|]. intros rn.
  apply CoreP_bind; [apply CoreP_ro; ro_tac|]. intros cx.
  apply CoreP_bind; [apply CoreP_stp, stp_modify_node; intros n; split; reflexivity|]. intros _.
  apply CoreP_bind; [apply CoreP_dup_files|]. intros fm.
  apply CoreP_bind; [apply CoreP_dup_children|]. intros _.
  apply CoreP_bind; [apply CoreP_ro; ro_tac|]. intros wq.
  apply CoreP_bind; [apply CoreP_ro; ro_tac|]. intros oids.
  apply CoreP_bind; [apply CoreP_ro; ro_tac|]. intros cids.
  apply CoreP_bind; [apply CoreP_dup_membership|]. intros _. apply CoreP_ro. ro_tac.
Qed.

Lemma nth_error_firstn {A} (l : list A) n k x : nth_error (firstn n l) k = Some x -> nth_error l k = Some x.
Proof.
  revert n k. induction l as [|y l IH]; intros [|n] [|k] H; cbn in *; try discriminate; auto. eapply IH; eauto.
Qed.

Lemma Core_drop nm nf w : Core w -> Core (drop_models_files nm nf w).
Proof.
  intros C. constructor.
  - apply C.
  - apply C.
  - apply C.
  - intros k r H. unfold roots, drop_models_files in H. cbn in H. rewrite <- firstn_map in H.
    apply nth_error_firstn in H. apply (c_roots _ C _ _ H).
  - intros i Ha. destruct (c_depth _ C _ Ha) as (h & Hd). exists h.
    eapply depth_transfer; [|exact Hd]. intros x n Hx. eauto.
Qed.

Theorem Core_step2_partial o w r w' :
  pending_op2 o = false -> Core w -> run2 o w = Val (r, w') -> Core w'.
Proof.
  intros Hp C H. destruct o; try discriminate Hp; cbn [run_op2] in H.
  - apply wmap_inv in H as (r0 & H & _). eapply Core_step; eauto.
  - apply wmap_inv in H as (r0 & H & _). unfold e_sort in H.
    apply (e_sort_frame T tab_el tab_at tab_en name_index name_definition_ref isort_poly StableSort_isort) in H as (_ & WR).
    eapply Core_ptree; [eapply world_rel_ptree; eauto | auto].
  - apply wmap_inv in H as (r0 & H & _). unfold m_sort in H.
    apply (m_sort_frame T tab_el tab_at tab_en name_index name_definition_ref isort_poly StableSort_isort) in H as (_ & WR).
    eapply Core_ptree; [eapply world_rel_ptree; eauto | auto].
  - apply wmap_inv in H as (r0 & H & _). unfold m_duplicate in H.
    destruct (m_duplicate_body T LATEST root_attrs m w) as [[[c|e] w1]|s|] eqn:E; try discriminate H.
    + injection H as _ <-. eapply CoreP_duplicate_body; eauto.
    + injection H as _ <-. apply Core_drop. eapply CoreP_duplicate_body; eauto.
  - apply wmap_inv in H as (r0 & H & _). unfold f_set_version in H.
    wstepn H ce Ec.
    + unfold f_check_version_compatibility in Ec. destruct (f_check T w f v); try discriminate. injection Ec as _ <-.
      destruct ce as [errs mask]. destruct (is_empty errs); [|winv H; auto].
      wstepn H x Ex; winv Ex. eapply Core_same_tree; [eapply stp_set_file; eauto | auto].
    + unfold f_check_version_compatibility in Ec. destruct (f_check T w f v); discriminate.
  - apply wbind_inv in H as [(a & w1 & H1 & H2) | (e & H1 & _)];
      unfold f_check_version_compatibility in H1; destruct (f_check T w f v); try discriminate.
    injection H1 as _ <-. destruct a. apply wret_inv in H2 as (_ & ->). auto.
  - apply wmap_inv in H as (r0 & H & _). unfold f_serialize in H.
    wrun_ro H ltac:(exact C).
    wstepn H o Ea. apply wtry_inv in Ea as (r1 & Ea & _).
    assert (C1 : Core w0) by (eapply Core_same_tree; [eapply stp_raw_set_attribute; eauto | auto]).
    destruct (ser_heap _ _ _ _ _ _ _ _ _ _ _) in H; try discriminate. injection H as _ <-. auto.
  - apply wmap_inv in H as (r0 & H & _). unfold e_serialize in H.
    destruct (ser_heap _ _ _ _ _ _ _ _ _ _ _) in H; try discriminate. injection H as _ <-. auto.
Qed.

End Op2.
