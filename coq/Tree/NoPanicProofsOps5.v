(* Tree/NoPanicProofsOps5.v — C12, layer 5: removal.  remove_internal clears a subtree bottom-up; while it runs the
   child lists and parent links disagree, so the argument does not use the tree invariants but two facts that every
   step of a removal keeps:  [rmrel w w'] (content lists only shrink, a parent link stays or becomes None) and,
   derived from it, the height bounds [hb] and the finite parent chains.
   remove_sub_element, remove_sub_element_kind, remove_from_file, AutosarModel::remove_file. *)
From Coq Require Import Lia.
From AV Require Import Base.Bytes Base.Outcome Hash.HashModel Spec.SpecOps Xml.TablesOk Tree.Heap Tree.Ops Tree.Script Tree.Inv.
From AV Require Import Tree.NoPanic Tree.NoPanicProofsBase Tree.NoPanicProofsOps1 Tree.NoPanicProofsClosed Tree.NoPanicProofsOps2.
From AV Require Import Tree.NoPanicProofsOps3 Tree.NoPanicProofsOps4 Tree.NoPanicProofsDepth.
Open Scope string_scope.
Open Scope list_scope.
Open Scope N_scope.

(* ------------------------------------------------------------------ the relation every removal step keeps *)
Definition rm_node (n n' : node) : Prop :=
  (forall c, In (CElem c) (n_content n') -> In (CElem c) (n_content n)) /\
  (n_parent n' = n_parent n \/ n_parent n' = PNone).
Definition rmrel (w w' : world) : Prop :=
  w_next w' = w_next w /\
  forall x, match w_nodes w x, w_nodes w' x with
            | Some n, Some n' => rm_node n n'
            | None, None => True
            | _, _ => False
            end.

Lemma rmrel_refl w : rmrel w w.
Proof. split; [reflexivity|]. intros x. destruct (w_nodes w x); [|exact I]. split; auto. Qed.
Lemma rmrel_trans a b c : rmrel a b -> rmrel b c -> rmrel a c.
Proof.
  intros (N1 & H1) (N2 & H2). split; [congruence|]. intros x. specialize (H1 x). specialize (H2 x).
  destruct (w_nodes a x) as [na|], (w_nodes b x) as [nb|], (w_nodes c x) as [nc|]; try tauto.
  destruct H1 as (C1 & P1), H2 as (C2 & P2). split; [auto|].
  destruct P2 as [P2|P2]; [rewrite P2; exact P1|right; exact P2].
Qed.
Lemma rmrel_wmodel w m x : rmrel w (wmodel w m x).
Proof. split; [reflexivity|]. intros i. cbn. destruct (w_nodes w i); [|exact I]. split; auto. Qed.
Lemma rmrel_wset w i n n0 : w_nodes w i = Some n0 -> rm_node n0 n -> rmrel w (wset w i n).
Proof.
  intros E R. split; [reflexivity|]. intros x. cbn [wset w_nodes]. unfold upd. destruct (x =? i) eqn:EX.
  - apply N.eqb_eq in EX. subst x. rewrite E. exact R.
  - destruct (w_nodes w x); [|exact I]. split; auto.
Qed.
Lemma rmrel_sameN w w' : w_nodes w' = w_nodes w -> w_next w' = w_next w -> rmrel w w'.
Proof. intros E N. split; [exact N|]. intros x. rewrite E. destruct (w_nodes w x); [|exact I]. split; auto. Qed.

Lemma hb_rmrel w w' : rmrel w w' -> forall i f, hb w i f -> hb w' i f.
Proof.
  intros (_ & R) i f H. induction H as [i f HK IH]. constructor. intros n' c E' IN.
  specialize (R i). rewrite E' in R. destruct (w_nodes w i) as [n|] eqn:E; [|destruct R].
  destruct R as (CS & _). eapply IH; [reflexivity|]. apply CS. exact IN.
Qed.

Lemma UpWF_rmrel w w' : rmrel w w' -> UpWF w -> UpWF w'.
Proof.
  intros (N & R) U i L. rewrite N in L. destruct (U i L) as (h & D). clear L.
  induction D as [x n Hn Ht | x n p h Hn Hp Dp IH].
  - pose proof (R x) as Rx. rewrite Hn in Rx. destruct (w_nodes w' x) as [n'|] eqn:E'; [|destruct Rx].
    exists O. eapply D_top; [exact E'|]. destruct Rx as (_ & [P|P]); rewrite P; [exact Ht|discriminate].
  - pose proof (R x) as Rx. rewrite Hn in Rx. destruct (w_nodes w' x) as [n'|] eqn:E'; [|destruct Rx].
    destruct Rx as (_ & [P|P]).
    + destruct IH as (h' & D'). exists (S h'). eapply D_step; [exact E'|rewrite P; exact Hp|exact D'].
    + exists O. eapply D_top; [exact E'|]. rewrite P. discriminate.
Qed.

Definition HBall (w : world) : Prop := forall x, x < w_next w -> hb w x (fuel_of w).
Lemma HBall_rmrel w w' : rmrel w w' -> HBall w -> HBall w'.
Proof.
  intros R H x L. pose proof R as (N & _). unfold fuel_of. rewrite N. rewrite N in L.
  eapply hb_rmrel; [exact R|]. apply H. exact L.
Qed.

Section Ops5.
Variable T : tables.
Variable tab_el tab_en : nametab.
Variable check_fn : N -> list N -> res bool.
Variable LATEST : N.
Variable root_attrs : list (N * cdata).
Hypothesis OK12 : tables_ok12 T = true.
Hypothesis CHECK : forall fn s, exists b, check_fn fn s = Val b.
Collection Env := T tab_el tab_en check_fn LATEST root_attrs OK12 CHECK.
Set Default Proof Using "Env".

Notation ENV f := (f T tab_el tab_en check_fn LATEST root_attrs OK12 CHECK) (only parsing).
Notation TOK := (ok12_tables T OK12) (only parsing).
Notation node_ok := (node_ok T tab_el tab_en).
Notation Closed := (Closed T tab_el tab_en).
Notation PanicFree := (PanicFree T tab_el tab_en).
Notation good := (good T tab_el tab_en).

(* what the removal family needs of a world, and keeps *)
Definition Live12 (w : world) : Prop := UpWF w /\ HBall w.
Lemma Live12_rmrel w w' : rmrel w w' -> Live12 w -> Live12 w'.
Proof. intros R (U & H). split; [eapply UpWF_rmrel; eauto|eapply HBall_rmrel; eauto]. Qed.
Lemma Live12_of_PanicFree w : PanicFree w -> Live12 w.
Proof. intros [C U CU]. split; [exact U|]. intros x L. eapply hb_fuel; eauto. Qed.

(* the judgement of the removal family: relative to the world w0 the operation started in, whatever the result *)
Definition rg {A} (w0 w : world) : out A -> world -> Prop := fun _ w' => Closed w' /\ ext w w' /\ rmrel w0 w'.

Lemma rg_rd {A B} (m : W A) (k : A -> W B) w0 w PA :
  Closed w -> rmrel w0 w -> rd m w PA -> (forall a, PA a -> runsQ (k a) w (rg w0 w)) -> runsQ (wbind m k) w (rg w0 w).
Proof.
  intros C R (r & E & F) H. unfold runsQ, wbind. rewrite E. destruct r as [a|e].
  - apply H. apply F. reflexivity.
  - exists (ER e), w. split; [reflexivity|]. split; [exact C|]. split; [apply ext_refl|exact R].
Qed.
Lemma rg_bind {A B} (m : W A) (k : A -> W B) w0 w :
  runsQ m w (rg w0 w) -> (forall a w1, Closed w1 -> ext w w1 -> rmrel w0 w1 -> runsQ (k a) w1 (rg w0 w1)) ->
  runsQ (wbind m k) w (rg w0 w).
Proof.
  intros (r & w1 & E & C1 & X1 & R1) H. unfold runsQ, wbind. rewrite E. destruct r as [a|e].
  - destruct (H a w1 C1 X1 R1) as (r2 & w2 & E2 & C2 & X2 & R2). exists r2, w2. split; [exact E2|].
    split; [exact C2|]. split; [eapply ext_trans; eauto|exact R2].
  - exists (ER e), w1. split; [reflexivity|]. split; [exact C1|]. split; [exact X1|exact R1].
Qed.
Lemma rg_ret {A} (a : A) w0 w : Closed w -> rmrel w0 w -> runsQ (wret a) w (rg w0 w).
Proof. intros C R. exists (OK a), w. split; [reflexivity|]. split; [exact C|]. split; [apply ext_refl|exact R]. Qed.
Lemma rg_fail {A} e w0 w : Closed w -> rmrel w0 w -> runsQ (@wfail A e) w (rg w0 w).
Proof. intros C R. exists (ER e), w. split; [reflexivity|]. split; [exact C|]. split; [apply ext_refl|exact R]. Qed.
Lemma rg_try {A} (m : W A) w0 w : runsQ m w (rg w0 w) -> runsQ (wtry m) w (rg w0 w).
Proof.
  intros (r & w1 & E & H). exists (OK (match r with OK a => Some a | ER _ => None end)), w1.
  split; [apply wtry_val; exact E|exact H].
Qed.
Lemma rg_runs {A} (m : W A) w0 w : runsQ m w (@rg A w0 w) -> runs m w.
Proof. apply runsQ_runs. Qed.

Lemma rg_modify_model w0 w m f : Closed w -> rmrel w0 w -> m < N.of_nat (List.length (w_models w)) ->
  (forall x, model_ok w x -> model_ok w (f x)) -> runsQ (modify_model m f) w (rg w0 w).
Proof.
  intros C R L F. destruct (ENV get_model_ok w m C L) as (x & _ & EX & MO).
  exists (OK tt), (wmodel w m (f x)). split; [apply modify_model_val; exact EX|].
  split; [apply Closed_wmodel; auto|]. split; [apply ext_wmodel|]. eapply rmrel_trans; [exact R|apply rmrel_wmodel].
Qed.

Lemma rg_set_node w0 w i n n0 : Closed w -> rmrel w0 w -> w_nodes w i = Some n0 -> node_ok w n -> rm_node n0 n ->
  runsQ (set_node i n) w (rg w0 w).
Proof.
  intros C R E NO RN. exists (OK tt), (wset w i n). split; [reflexivity|].
  assert (L : i < w_next w) by (apply (cl_alloc _ _ _ _ C); congruence).
  split; [apply Closed_wset; auto|]. split; [apply ext_wset|]. eapply rmrel_trans; [exact R|eapply rmrel_wset; eauto].
Qed.

Lemma rm_lookup w0 w i n : rmrel w0 w -> w_nodes w0 i = Some n -> exists n1, w_nodes w i = Some n1 /\ rm_node n n1.
Proof. intros (_ & R) E. specialize (R i). rewrite E in R. destruct (w_nodes w i) as [n1|]; [eauto|destruct R]. Qed.
Lemma rmrel_next w0 w : rmrel w0 w -> w_next w = w_next w0. Proof. intros (N & _). exact N. Qed.

Lemma rg_shift {A} (m : W A) w0 w : rmrel w0 w -> runsQ m w (rg w w) -> runsQ m w (rg w0 w).
Proof.
  intros R (r & w1 & E & C1 & X1 & R1). exists r, w1. split; [exact E|]. split; [exact C1|]. split; [exact X1|].
  eapply rmrel_trans; eauto.
Qed.

(* ElementRaw::remove_internal, started in w0 *)
Lemma rg_remove_internal m : forall f i w0 w path, Closed w -> rmrel w0 w -> i < w_next w -> m < N.of_nat (List.length (w_models w)) ->
  hb w i f -> runsQ (remove_internal T f i m path) w (rg w0 w).
Proof.
  induction f as [|f IH]; intros i w0 w path C R0 L Lm H; [inversion H|].
  eapply rg_shift; [exact R0|]. clear R0 w0. pose proof (rmrel_refl w) as R.
  inversion H as [i0 f0 HK]; subst. cbn [remove_internal].
  destruct (ENV get_node_ok w i C L) as (n & EG & EN & NO).
  eapply rg_rd; [exact C|exact R|exists (OK n); split; [exact EG|]; intros a [= <-]; exact (eq_refl n)|]. intros a <-.
  pose proof NO as (ET & _ & KIDS & _).
  destruct (ENV is_identifiable_ok w n C NO) as (ident & EID).
  eapply rg_rd; [exact C|exact R|exists (OK ident); split; [exact EID|]; intros a [= <-]; exact (eq_refl ident)|]. intros a <-.
  eapply rg_bind.
  { destruct ident; [|apply rg_ret; assumption].
    eapply rg_rd; [exact C|exact R|apply (ENV rd_item_name w n (fun _ => True) C NO); auto|]. intros nm _.
    destruct nm as [x|]; [|apply rg_ret; assumption]. cbv zeta.
    eapply rg_bind.
    - unfold remove_identifiable. apply rg_modify_model; auto; intros y; apply (ENV mok_remove_identifiable).
    - intros [] w1 C1 X1 R1. apply rg_ret; assumption. }
  intros path' w1 C1 X1 R1.
  assert (Lm1 : m < N.of_nat (List.length (w_models w1))) by (eapply (ENV ext_models); eauto).
  destruct (is_ref_ok T TOK _ ET) as (isr & EI).
  eapply rg_rd; [exact C1|exact R1|apply (rd_wl _ isr w1 (fun a => a = isr) EI); reflexivity|]. intros a ->.
  eapply rg_bind.
  { destruct isr; [|apply rg_ret; assumption].
    destruct (ENV character_data_ok w n NO) as (cd & ECD).
    eapply rg_rd; [exact C1|exact R1|apply (rd_wl _ cd w1 (fun a => a = cd) ECD); reflexivity|]. intros a ->.
    destruct cd as [[e|r|u|fl]|]; try (apply rg_ret; assumption).
    unfold remove_reference_origin. apply rg_modify_model; auto; intros y; apply (ENV mok_remove_reference_origin). }
  intros [] w2 C2 X2 R2.
  assert (Lm2 : m < N.of_nat (List.length (w_models w2))) by (eapply (ENV ext_models); eauto).
  eapply rg_bind.
  { assert (KLOOP : forall l w3, Closed w3 -> rmrel w w3 -> m < N.of_nat (List.length (w_models w3)) ->
              (forall c, In (CElem c) l -> In (CElem c) (n_content n)) ->
              runsQ ((fix kids (l : list citem) : W unit :=
                        match l with
                        | [] => wret tt
                        | CElem c :: rest => wbind (remove_internal T f c m path') (fun _ => kids rest)
                        | CData _ :: rest => kids rest
                        end) l) w3 (rg w w3)).
    { induction l as [|[c|d] rest IHl]; intros w3 C3 R3 Lm3 SUB.
      - apply rg_ret; assumption.
      - assert (INc : In (CElem c) (n_content n)) by (apply SUB; left; reflexivity).
        assert (Lc : c < w_next w3). { rewrite (rmrel_next _ _ R3). apply KIDS. exact INc. }
        assert (Hc : hb w3 c f). { eapply hb_rmrel; [exact R3|]. eapply HK; [exact EN|exact INc]. }
        eapply rg_bind; [apply (IH c w w3 path' C3 R3 Lc Lm3 Hc)|].
        intros [] w4 C4 X4 R4. apply IHl; auto.
        + eapply (ENV ext_models); eauto.
        + intros c0 H0. apply SUB. right. exact H0.
      - apply IHl; auto. intros c0 H0. apply SUB. right. exact H0. }
    apply KLOOP; auto. }
  intros [] w3 C3 X3 R3.
  destruct (rm_lookup w w3 i n R3 EN) as (n3 & EN3 & RN3).
  pose proof (cl_node _ _ _ _ C3 _ _ EN3) as (ET3 & NM3 & _).
  unfold modify_node.
  eapply rg_rd; [exact C3|exact R3|exists (OK n3); split; [apply get_node_val; exact EN3|]; intros a [= <-]; exact (eq_refl n3)|]. intros a <-.
  apply (rg_set_node w w3 i _ n3 C3 R3 EN3).
  - split; [exact ET3|]. split; [exact NM3|]. cbn. split; [intros c []|]. split; [intros d []|exact I].
  - split; [intros c []|right; reflexivity].
Qed.

Lemma in_remove_at {A} (l : list A) : forall k y, In y (remove_at l k) -> In y l.
Proof.
  induction l as [|z l IH]; intros k y IN; [destruct k; destruct IN|].
  destruct k; cbn in IN; [right; exact IN|]. destruct IN as [<-|IN]; [left; reflexivity|right; eapply IH; eauto].
Qed.

(* Element::remove_sub_element, started in w0 *)
Lemma rg_e_remove_sub_element w0 w h sub : Closed w -> rmrel w0 w -> Live12 w -> h < w_next w -> sub < w_next w ->
  runsQ (e_remove_sub_element T h sub) w (rg w0 w).
Proof.
  intros C R (U & HB) L Ls. unfold e_remove_sub_element.
  destruct (h =? sub); [apply rg_fail; assumption|].
  eapply rg_rd; [exact C|exact R|apply (ENV model_of_ok w h C U L)|]. intros m Lm.
  unfold raw_remove_sub_element.
  destruct (ENV get_node_ok w h C L) as (n & EG & EN & NO).
  eapply rg_rd; [exact C|exact R|exists (OK n); split; [exact EG|]; intros a [= <-]; exact (eq_refl n)|]. intros a <-.
  eapply rg_rd; [exact C|exact R|apply (ENV path_unchecked_ok w n C U NO)|]. intros path _.
  destruct (index_of (citem_is sub) (n_content n)) as [pos|]; [|apply rg_fail; assumption].
  pose proof NO as (ET & _).
  destruct (is_named_ok T OK12 _ ET) as (named & ENM).
  eapply rg_rd; [exact C|exact R|apply (rd_wl _ named w (fun a => a = named) ENM); reflexivity|]. intros a ->.
  eapply rg_rd; [exact C|exact R|apply (ENV rd_get_node w sub (fun _ => True) C Ls); auto|]. intros sn _.
  destruct (named && (n_name sn =? SHORT T)); [apply rg_fail; assumption|].
  eapply rg_rd; [exact C|exact R|exists (OK w); split; [reflexivity|]; intros a [= <-]; exact (eq_refl w)|]. intros a <-.
  destruct (rg_remove_internal m (fuel_of w) sub w w path C (rmrel_refl w) Ls Lm (HB sub Ls)) as (r1 & w1 & E1 & C1 & X1 & R1).
  unfold runsQ, wbind at 1. rewrite E1.
  assert (R01 : rmrel w0 w1) by (eapply rmrel_trans; eauto).
  destruct r1 as [[]|e1]; [|exists (ER e1), w1; split; [reflexivity|]; split; [exact C1|]; split; [exact X1|exact R01]].
  destruct (rm_lookup w w1 h n R1 EN) as (n1 & E1n & RN1).
  pose proof (cl_node _ _ _ _ C1 _ _ E1n) as (ET1 & NM1 & K1 & CD1 & PO1).
  destruct (rg_set_node w0 w1 h (set_content n1 (remove_at (n_content n1) pos)) n1 C1 R01 E1n) as (r2 & w2 & E2 & C2 & X2 & R2).
  { split; [exact ET1|]. split; [exact NM1|]. cbn.
    split; [intros c IN; apply K1; exact (in_remove_at _ _ _ IN)|]. split; [intros d IN; apply CD1; exact (in_remove_at _ _ _ IN)|exact PO1]. }
  { split; [cbn [set_content n_content]; intros c IN; exact (in_remove_at _ _ _ IN)|left; reflexivity]. }
  exists r2, w2. split; [unfold modify_node, wbind; rewrite (get_node_val _ _ _ E1n); exact E2|].
  split; [exact C2|]. split; [eapply ext_trans; eauto|exact R2].
Qed.

Lemma np_remove w h sub : PanicFree w -> h < w_next w -> sub < w_next w -> runs (e_remove_sub_element T h sub) w.
Proof.
  intros PF L Ls. eapply (rg_runs _ w w). apply rg_e_remove_sub_element; auto.
  - apply PF.
  - apply rmrel_refl.
  - apply Live12_of_PanicFree. exact PF.
Qed.

Lemma np_remove_kind w h name : PanicFree w -> h < w_next w -> runs (e_remove_sub_element_kind T h name) w.
Proof.
  intros PF L. pose proof PF as [C U _]. unfold e_remove_sub_element_kind.
  eapply rd_bind_runs; [apply (ENV get_sub_element_ok w h name C L)|]. intros [c|] Lc; [|apply runs_fail].
  apply np_remove; auto.
Qed.

(* ---------- Element::remove_from_file ---------- *)
Lemma rm_node_files n fs : rm_node n (set_files n fs).
Proof. split; [auto|left; reflexivity]. Qed.

Lemma rg_modify_files w0 w c fs : Closed w -> rmrel w0 w -> c < w_next w ->
  runsQ (modify_node c (fun x => set_files x fs)) w (rg w0 w).
Proof.
  intros C R L. destruct (ENV get_node_ok w c C L) as (n & EG & EN & NO). unfold modify_node.
  eapply rg_rd; [exact C|exact R|exists (OK n); split; [exact EG|]; intros a [= <-]; exact (eq_refl n)|]. intros a <-.
  apply (rg_set_node w0 w c _ n C R EN); [exact NO|apply rm_node_files].
Qed.

Lemma Live12_step w0 w : Live12 w0 -> rmrel w0 w -> Live12 w.
Proof. intros H R. eapply Live12_rmrel; eauto. Qed.

Lemma rg_e_remove_from_file w0 w e f : Closed w -> rmrel w0 w -> Live12 w -> e < w_next w -> f < N.of_nat (List.length (w_files w)) ->
  runsQ (e_remove_from_file T e f) w (rg w0 w).
Proof.
  intros C R0 LV L Lf. eapply rg_shift; [exact R0|]. clear R0 w0. pose proof (rmrel_refl w) as R.
  pose proof LV as (U & HB). unfold e_remove_from_file.
  destruct (ENV get_node_ok w e C L) as (n & EG & EN & NO).
  eapply rg_rd; [exact C|exact R|exists (OK n); split; [exact EG|]; intros a [= <-]; exact (eq_refl n)|]. intros a <-.
  eapply rg_rd; [exact C|exact R|apply (ENV parent_splittable_ok w n C NO)|]. intros ps _.
  destruct (negb ps); [apply rg_fail; assumption|].
  destruct (ENV get_file_ok w f Lf) as (x & EF).
  eapply (rg_rd _ _ w w (fun _ => True)); [exact C|exact R| |].
  { unfold file_model. eapply rd_bind; [exists (OK x); split; [exact EF|]; intros a [= <-]; exact I|]. intros; apply rd_ret; exact I. }
  intros fm _.
  eapply rg_rd; [exact C|exact R|apply (ENV model_of_ok w e C U L)|]. intros m _.
  destruct (negb (fm =? m)); [apply rg_fail; assumption|].
  eapply rg_rd; [exact C|exact R|apply (ENV file_membership_ok w e C U L)|]. intros [lo cur] _. cbv zeta.
  (* the element loses its last file: removed from its parent *)
  eapply rg_bind.
  { destruct (is_empty (set_remove f cur)); [|apply rg_ret; assumption].
    unfold parent_of. pose proof NO as (_ & _ & _ & _ & PO). destruct (n_parent n) as [|pm|pi].
    - eapply (rg_rd _ _ w w (fun _ => False)); [exact C|exact R|apply rd_fail|]. intros a [].
    - eapply (rg_rd _ _ w w (fun a => a = None)); [exact C|exact R|apply rd_ret; reflexivity|]. intros a ->. apply rg_ret; assumption.
    - eapply (rg_rd _ _ w w (fun a => a = Some pi)); [exact C|exact R|apply rd_ret; reflexivity|]. intros a ->.
      eapply rg_bind; [apply rg_try; apply (rg_e_remove_sub_element w w pi e C R LV PO L)|].
      intros o w1 C1 X1 R1. apply rg_ret; assumption. }
  intros [] w1 C1 X1 R1.
  assert (L1 : e < w_next w1) by (rewrite (rmrel_next _ _ R1); exact L).
  eapply rg_bind; [apply (rg_modify_files w w1 e _ C1 R1 L1)|].
  intros [] w2 C2 X2 R2.
  assert (LV2 : Live12 w2) by (exact (Live12_step w w2 LV R2)).
  assert (L2 : e < w_next w2) by (rewrite (rmrel_next _ _ R2); exact L).
  eapply rg_rd; [exact C2|exact R2|exists (OK w2); split; [reflexivity|]; intros a [= <-]; exact (eq_refl w2)|]. intros a <-.
  eapply rg_rd; [exact C2|exact R2|apply (dfs_ids_runs T tab_el tab_en w2 C2 (fuel_of w2) e L2); apply LV2; exact L2|]. intros ids IDS.
  (* scan: restrict the membership of every element below, collect the ones left without a file *)
  assert (SCAN : forall l w3, Closed w3 -> rmrel w w3 -> (forall s, In s l -> s < w_next w3) ->
       runsQ ((fix scan (l : list id) : W (list id) :=
                 match l with
                 | [] => wret []
                 | s :: rest =>
                   wbind (get_node s) (fun sn =>
                     if negb (is_empty (n_files sn)) then
                       wbind (set_node s (set_files sn (set_remove f (n_files sn)))) (fun _ =>
                         wbind (scan rest) (fun r => wret (if is_empty (set_remove f (n_files sn)) then s :: r else r)))
                     else scan rest)
                 end) l) w3 (fun r w4 => rg w w3 r w4 /\ match r with OK tl => forall s, In s tl -> In s l | ER _ => True end)).
  { induction l as [|s rest IHl]; intros w3 C3 R3 LS.
    - exists (OK []), w3. split; [reflexivity|]. split; [split; [exact C3|split; [apply ext_refl|exact R3]]|intros s []].
    - destruct (ENV get_node_ok w3 s C3 (LS s (or_introl eq_refl))) as (sn & EGS & ENS & NOS).
      unfold runsQ. unfold wbind at 1. rewrite EGS.
      destruct (negb (is_empty (n_files sn))).
      + destruct (rg_set_node w w3 s (set_files sn (set_remove f (n_files sn))) sn C3 R3 ENS NOS (rm_node_files _ _)) as (r4 & w4 & E4 & C4 & X4 & R4).
        unfold wbind at 1. rewrite E4. destruct r4 as [[]|e4];
          [|exists (ER e4), w4; split; [reflexivity|]; split; [split; [exact C4|split; [exact X4|exact R4]]|exact I]].
        destruct (IHl w4 C4 R4) as (r5 & w5 & E5 & (C5 & X5 & R5) & TL).
        { intros s0 H0. rewrite (rmrel_next _ _ R4). rewrite <- (rmrel_next _ _ R3). apply LS. right. exact H0. }
        unfold wbind at 1. rewrite E5. destruct r5 as [tl|e5].
        * eexists _, w5. split; [reflexivity|]. split; [split; [exact C5|split; [eapply ext_trans; eauto|exact R5]]|].
          intros s0 H0. destruct (is_empty (set_remove f (n_files sn))); [destruct H0 as [<-|H0]; [left; reflexivity|right; auto]|right; auto].
        * exists (ER e5), w5. split; [reflexivity|]. split; [split; [exact C5|split; [eapply ext_trans; eauto|exact R5]]|exact I].
      + destruct (IHl w3 C3 R3) as (r5 & w5 & E5 & RG5 & TL); [intros s0 H0; apply LS; right; exact H0|].
        exists r5, w5. split; [exact E5|]. split; [exact RG5|]. destruct r5; [intros s0 H0; right; auto|exact I]. }
  (* del: remove the collected elements from their parents *)
  assert (DEL : forall l w4, Closed w4 -> rmrel w w4 -> (forall d, In d l -> d < w_next w4) ->
     runsQ ((fix del (l : list id) : W unit :=
               match l with
               | [] => wret tt
               | d :: rest =>
                 wbind (get_node d) (fun dn =>
                   wbind (wtry (parent_of dn)) (fun p =>
                     wbind (match p with
                            | Some (Some pi) => wbind (wtry (e_remove_sub_element T pi d)) (fun _ => wret tt)
                            | _ => wret tt
                            end) (fun _ => del rest)))
               end) l) w4 (rg w w4)).
  { induction l as [|d rest IHl]; intros w4 C4 R4 LD.
    - apply rg_ret; assumption.
    - assert (Ld : d < w_next w4) by (apply LD; left; reflexivity).
      assert (LV4 : Live12 w4) by (exact (Live12_step w w4 LV R4)).
      destruct (ENV get_node_ok w4 d C4 Ld) as (dn & EGD & END & NOD).
      eapply rg_rd; [exact C4|exact R4|exists (OK dn); split; [exact EGD|]; intros a [= <-]; exact (eq_refl dn)|]. intros a <-.
      pose proof NOD as (_ & _ & _ & _ & POD).
      assert (TAIL : forall w5, Closed w5 -> ext w4 w5 -> rmrel w w5 ->
                runsQ ((fix del (l : list id) : W unit :=
               match l with
               | [] => wret tt
               | d :: rest =>
                 wbind (get_node d) (fun dn =>
                   wbind (wtry (parent_of dn)) (fun p =>
                     wbind (match p with
                            | Some (Some pi) => wbind (wtry (e_remove_sub_element T pi d)) (fun _ => wret tt)
                            | _ => wret tt
                            end) (fun _ => del rest)))
               end) rest) w5 (rg w w5)).
      { intros w5 C5 X5 R5. apply IHl; auto. intros d0 H0. rewrite (rmrel_next _ _ R5). rewrite <- (rmrel_next _ _ R4). apply LD. right. exact H0. }
      unfold parent_of. destruct (n_parent dn) as [|pm|pi].
      + eapply (rg_rd _ _ w w4 (fun a => a = None)); [exact C4|exact R4|exists (OK None); split; [reflexivity|]; intros a [= <-]; reflexivity|].
        intros a ->. eapply rg_bind; [apply rg_ret; assumption|]. intros [] w5 C5 X5 R5. apply TAIL; auto.
      + eapply (rg_rd _ _ w w4 (fun a => a = Some None)); [exact C4|exact R4|exists (OK (Some None)); split; [reflexivity|]; intros a [= <-]; reflexivity|].
        intros a ->. eapply rg_bind; [apply rg_ret; assumption|]. intros [] w5 C5 X5 R5. apply TAIL; auto.
      + eapply (rg_rd _ _ w w4 (fun a => a = Some (Some pi))); [exact C4|exact R4|exists (OK (Some (Some pi))); split; [reflexivity|]; intros a [= <-]; reflexivity|].
        intros a ->. eapply rg_bind.
        * eapply rg_bind; [apply rg_try; apply (rg_e_remove_sub_element w w4 pi d C4 R4 LV4 POD Ld)|].
          intros o w5 C5 X5 R5. apply rg_ret; assumption.
        * intros [] w5 C5 X5 R5. apply TAIL; auto. }
  destruct (SCAN ids w2 C2 R2 IDS) as (r3 & w3 & E3 & (C3 & X3 & R3) & TL).
  unfold runsQ. unfold wbind at 1. rewrite E3. destruct r3 as [to_delete|e3];
    [|exists (ER e3), w3; split; [reflexivity|]; split; [exact C3|split; [exact X3|exact R3]]].
  destruct (DEL to_delete w3 C3 R3) as (r4 & w4 & E4 & C4 & X4 & R4).
  { intros d H0. rewrite (rmrel_next _ _ R3). rewrite <- (rmrel_next _ _ R2). apply IDS. apply TL. exact H0. }
  exists r4, w4. split; [exact E4|]. split; [exact C4|split; [eapply ext_trans; eauto|exact R4]].
Qed.

Lemma np_remove_from_file w e f : PanicFree w -> e < w_next w -> f < N.of_nat (List.length (w_files w)) ->
  runs (e_remove_from_file T e f) w.
Proof.
  intros PF L Lf. eapply (rg_runs _ w w). apply rg_e_remove_from_file; auto.
  - apply PF.
  - apply rmrel_refl.
  - apply Live12_of_PanicFree. exact PF.
Qed.

(* ---------- AutosarModel::remove_file ---------- *)
Lemma np_remove_file w m f : PanicFree w -> m < N.of_nat (List.length (w_models w)) -> f < N.of_nat (List.length (w_files w)) ->
  runs (m_remove_file T m f) w.
Proof.
  intros PF Lm Lf. pose proof PF as [C U _]. pose proof (Live12_of_PanicFree w PF) as LV. pose proof (rmrel_refl w) as R.
  eapply (rg_runs _ w w). unfold m_remove_file.
  destruct (ENV get_model_ok w m C Lm) as (x & EGM & ENM & MO).
  eapply rg_rd; [exact C|exact R|exists (OK x); split; [exact EGM|]; intros a [= <-]; exact (eq_refl x)|]. intros a <-.
  destruct (index_of (N.eqb f) (m_files x)) as [pos|]; [|apply rg_ret; assumption]. cbv zeta.
  pose proof MO as (LR & _).
  eapply rg_bind.
  { exists (OK tt), (wmodel w m (set_mfiles x (swap_remove_at (m_files x) pos))). split; [reflexivity|].
    split; [apply Closed_wmodel; [exact C|exact MO]|]. split; [apply ext_wmodel|apply rmrel_wmodel]. }
  intros [] w1 C1 X1 R1.
  assert (LV1 : Live12 w1) by (exact (Live12_step w w1 LV R1)).
  assert (LR1 : m_root x < w_next w1) by (rewrite (rmrel_next _ _ R1); exact LR).
  assert (Lm1 : m < N.of_nat (List.length (w_models w1))) by (eapply (ENV ext_models); eauto).
  destruct (is_empty (swap_remove_at (m_files x) pos)).
  - destruct (ENV get_node_ok w1 (m_root x) C1 LR1) as (r & EGR & ENR & NOR).
    eapply rg_rd; [exact C1|exact R1|exists (OK r); split; [exact EGR|]; intros a [= <-]; exact (eq_refl r)|]. intros a <-.
    pose proof NOR as (_ & _ & KIDS & _).
    eapply rg_bind.
    { assert (EACH : forall l w2, Closed w2 -> rmrel w w2 -> (forall c, In (CElem c) l -> c < w_next w2) ->
         runsQ ((fix each (l : list citem) : W unit :=
                   match l with
                   | [] => wret tt
                   | CElem c :: rest => wbind (wtry (e_remove_sub_element T (m_root x) c)) (fun _ => each rest)
                   | CData _ :: rest => each rest
                   end) l) w2 (rg w w2)).
      { induction l as [|[c|d] rest IHl]; intros w2 C2 R2 K2.
        - apply rg_ret; assumption.
        - assert (LV2 : Live12 w2) by (exact (Live12_step w w2 LV R2)).
          eapply rg_bind.
          + apply rg_try. apply (rg_e_remove_sub_element w w2 (m_root x) c C2 R2 LV2).
            * rewrite (rmrel_next _ _ R2). exact LR.
            * apply K2. left. reflexivity.
          + intros o w3 C3 X3 R3. apply IHl; auto. intros c0 H0.
            rewrite (rmrel_next _ _ R3). rewrite <- (rmrel_next _ _ R2). apply K2. right. exact H0.
        - apply IHl; auto. intros c0 H0. apply K2. right. exact H0. }
      apply EACH; auto. }
    intros [] w2 C2 X2 R2.
    assert (LR2 : m_root x < w_next w2) by (rewrite (rmrel_next _ _ R2); exact LR).
    eapply rg_bind.
    { unfold set_file_membership.
      destruct (ENV get_node_ok w2 (m_root x) C2 LR2) as (rn & EGN & ENN & NON).
      eapply rg_rd; [exact C2|exact R2|exists (OK rn); split; [exact EGN|]; intros a [= <-]; exact (eq_refl rn)|]. intros a <-.
      pose proof NON as (_ & _ & _ & _ & PON).
      eapply (rg_rd _ _ w w2 (fun p => match p with Some (Some pi) => pi < w_next w2 | _ => True end)); [exact C2|exact R2| |].
      { unfold parent_of. destruct (n_parent rn) as [|pm|pi].
        - exists (OK None). split; [reflexivity|]. intros a [= <-]. exact I.
        - exists (OK (Some None)). split; [reflexivity|]. intros a [= <-]. exact I.
        - exists (OK (Some (Some pi))). split; [reflexivity|]. intros a [= <-]. exact PON. }
      intros p PP.
      eapply (rg_rd _ _ w w2 (fun _ => True)); [exact C2|exact R2| |].
      { destruct p as [[pi|]|]; try (apply rd_ret; exact I).
        eapply rd_bind; [apply (ENV rd_get_node w2 pi (fun y => node_ok w2 y) C2 PP); auto|]. intros pn (ETP & _).
        destruct (splittable_ok T _ ETP) as (sp & ES).
        eapply rd_bind; [apply (rd_wl _ sp w2 (fun _ => True) ES); exact I|]. intros; apply rd_ret; exact I. }
      intros ps _. cbn [is_empty orb]. apply rg_modify_files; auto. }
    intros [] w3 C3 X3 R3.
    apply rg_modify_model; auto.
    + eapply (ENV ext_models); [exact X3|]. eapply (ENV ext_models); [exact X2|exact Lm1].
    + intros y (A & _). split; [exact A|intros k l e []].
  - eapply rg_bind.
    + apply rg_try. apply (rg_e_remove_from_file w w1 (m_root x) f C1 R1 LV1 LR1).
      destruct X1 as (_ & _ & FL). lia.
    + intros o w2 C2 X2 R2. apply rg_ret; assumption.
Qed.

End Ops5.
