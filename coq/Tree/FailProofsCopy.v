(* Tree/FailProofsCopy.v — C11 proofs, layer 3: create_copied_sub_element[_at].  A failure may leave the fresh copy
   (or a part of it) allocated: ids at or beyond the old allocation bound.  Nothing that existed changes. *)
From Coq Require Import Lia.
From AV Require Import Base.Bytes Base.Outcome Hash.HashModel Tree.Heap Tree.Ops Tree.Script
  Tree.FailProofsBase Tree.FailProofsOps Tree.Fail Tree.Observe Tree.FailProofsLate.
Open Scope string_scope.
Open Scope list_scope.
Open Scope N_scope.

Notation garb := obs_eq_upto_garbage.

Lemma garb_refl w : garb w w.
Proof. repeat split; auto. apply N.le_refl. Qed.
Lemma garb_trans a b c : garb a b -> garb b c -> garb a c.
Proof.
  intros (H1 & H2 & H3 & H4) (G1 & G2 & G3 & G4). repeat split; try congruence.
  - eapply N.le_trans; eauto.
  - intros i Hi. rewrite G2 by lia. apply H2. exact Hi.
Qed.
Lemma garb_alloc w0 w n :
  garb w0 w -> garb w0 (mkWorld (upd (w_nodes w) (w_next w) n) (w_next w + 1) (w_files w) (w_models w)).
Proof.
  intros (H1 & H2 & H3 & H4). repeat split; cbn; auto; [lia|].
  intros i Hi. rewrite upd_neq by lia. apply H2. exact Hi.
Qed.
Lemma garb_upd_fresh w0 w c n :
  garb w0 w -> w_next w0 <= c -> garb w0 (mkWorld (upd (w_nodes w) c n) (w_next w) (w_files w) (w_models w)).
Proof.
  intros (H1 & H2 & H3 & H4) Hc. repeat split; cbn; auto.
  intros i Hi. rewrite upd_neq by lia. apply H2. exact Hi.
Qed.

(* gnf: on failure nothing but garbage *)
Definition gnf {A} (m : W A) : Prop := forall w e w', m w = Val (ER e, w') -> garb w w'.
Lemma gnf_of_nf {A} (m : W A) : nf m -> gnf m.
Proof. intros H w e w' E. apply H in E. subst. apply garb_refl. Qed.
Lemma gnf_bind_ro {A B} (m : W A) (k : A -> W B) : ro m -> (forall a, gnf (k a)) -> gnf (wbind m k).
Proof.
  intros Hm Hk w e w' H. apply wbind_inv in H as [(a & w1 & H1 & H2) | (e' & H1 & _)].
  - apply Hm in H1. subst w1. eapply Hk; eauto.
  - apply Hm in H1. subst. apply garb_refl.
Qed.
Ltac gnf_step :=
  first
  [ match goal with H : forall _, _ |- _ => apply H end
  | apply gnf_of_nf; solve [nf_tac]
  | apply gnf_bind_ro; [ solve [ro_tac] | intros ? ]
  | match goal with
    | |- gnf (match ?x with _ => _ end) => destruct x
    | |- gnf (if ?b then _ else _) => destruct b
    | |- gnf (let '(_, _) := ?x in _) => destruct x
    end ].
Ltac gnf_tac := repeat gnf_step.

Section Copy.
Variable T : tables.
Variable tab_el tab_en : nametab.
Variable check_fn : N -> list N -> res bool.
Variable LATEST : N.

(* deep_copy only allocates and writes fresh nodes, whatever its outcome; its result is fresh *)
Lemma deep_copy_garb f : forall src version w0 w r w',
  garb w0 w -> deep_copy T f src version w = Val (r, w') ->
  garb w0 w' /\ (forall c, r = OK c -> w_next w0 <= c).
Proof.
  induction f as [|f IH]; intros src version w0 w r w' G H; cbn [deep_copy] in H; [discriminate H|].
  wstep H; [|split; [assumption|intros ? [=]]]. winvs.
  wstep H; [|exfalso; noer].
  match goal with E : alloc _ _ = Val _ |- _ => apply alloc_inv in E as (E & ->); injection E as -> end.
  assert (Hc : w_next w0 <= w_next w) by apply G.
  pose proof (garb_alloc w0 w (mkNode PNone (n_name n) (n_type n) [] [] [] (n_comment n)) G) as G1.
  wstep H; [|split; [assumption|intros ? [=]]].
  wstep H; [|exfalso; noer].
  match goal with E : modify_node _ _ _ = Val _ |- _ => apply modify_node_inv in E as (n1 & _ & _ & ->) end.
  match type of H with wbind _ _ ?w2 = _ => assert (G2 : garb w0 w2) by (apply garb_upd_fresh; assumption) end.
  match type of H with wbind (?loop _) _ _ = _ =>
    assert (Hl : forall l w r w', garb w0 w -> loop l w = Val (r, w') -> garb w0 w') end.
  { clear - IH Hc. induction l as [|[s|d] l IHl]; intros w1 r1 w1' G1 H1.
    - winvs. assumption.
    - wstep H1; [|assumption]. winvs. wstep H1; [|assumption]. winvs.
      match type of H1 with (match ?x with _ => _ end) _ = _ => destruct x end; [|eapply IHl; eauto].
      wstep H1; [|exfalso; noer].
      match goal with E : wtry _ _ = Val _ |- _ => apply wtry_inv in E as (r0 & Et & Q); injection Q as -> end.
      destruct (IH _ _ _ _ _ _ G1 Et) as (G3 & Hfresh).
      destruct r0 as [cs|e0]; [|eapply IHl; eauto].
      specialize (Hfresh cs eq_refl).
      wstep H1; [|exfalso; noer].
      match goal with E : modify_node _ _ _ = Val _ |- _ => apply modify_node_inv in E as (n2 & _ & _ & ->) end.
      wstep H1; [|exfalso; noer].
      match goal with E : modify_node _ _ _ = Val _ |- _ => apply modify_node_inv in E as (n3 & _ & _ & ->) end.
      eapply IHl; [|exact H1]. apply garb_upd_fresh; [|assumption].
      apply (garb_upd_fresh w0 _ cs (set_parent n2 (PElem (w_next w)))); assumption.
    - wstep H1; [|exfalso; noer].
      match goal with E : modify_node _ _ _ = Val _ |- _ => apply modify_node_inv in E as (n2 & _ & _ & ->) end.
      eapply IHl; [|exact H1]. apply garb_upd_fresh; assumption. }
  wstep H.
  - winvs. split; [eapply Hl; eauto|]. intros c [= <-]. exact Hc.
  - split; [eapply Hl; eauto|intros ? [=]].
Qed.

Lemma nofail_register_subtree f : forall m cur i, nofail (register_subtree T f m cur i).
Proof.
  induction f as [|f IH]; intros m cur i; cbn [register_subtree]; nofail_tac.
  all: try nofail_loop.
Qed.
Hint Resolve nofail_register_subtree : nofail.

Lemma gnf_create_copied_inner self other pos m version :
  gnf (create_copied_sub_element_inner T self other pos m version).
Proof.
  intros w e w' H. unfold create_copied_sub_element_inner in H.
  wer H; [|apply garb_refl]. winvs. wer H; [|apply garb_refl]. winvs. wer H; [|apply garb_refl].
  match type of H with (if ?b then _ else _) _ = _ => destruct b end; [winvs; apply garb_refl|].
  wer H.
  2:{ match goal with E : deep_copy _ _ _ _ _ = Val _ |- _ =>
        exact (proj1 (deep_copy_garb _ _ _ _ _ _ _ (garb_refl w) E)) end. }
  match goal with E : deep_copy _ _ _ _ _ = Val _ |- _ =>
    destruct (deep_copy_garb _ _ _ _ _ _ _ (garb_refl w) E) as (G1 & Hfresh); clear E end.
  match goal with c : id |- _ => specialize (Hfresh c eq_refl) end.
  (* read-only checks on the copy (fix a8ba45e) and the path of the destination: a failure leaves the garbage world *)
  repeat first [ wer H; [|assumption]
               | match type of H with (if ?b then _ else _) _ = _ => destruct b; [winvs; assumption|] end ].
  wer H; [|exfalso; noer].
  match goal with E : modify_node _ _ _ = Val _ |- _ => apply modify_node_inv in E as (n1 & _ & _ & ->) end.
  match type of H with wbind _ _ ?w2 = _ => assert (G2 : garb w w2) by (apply garb_upd_fresh; assumption) end.
  wer H; [|exfalso; noer]. wer H; [|exfalso; noer].
  wer H; [exfalso; noer|].
  match goal with E : (if ?b then _ else _) _ = Val (ER _, _) |- _ => destruct b; [|winvs] end.
  match goal with E : wbind (make_unique_item_name _ _ _ _) _ _ = Val (ER _, _) |- _ => wer E; [exfalso; noer|] end.
  match goal with E : make_unique_item_name _ _ _ _ _ = Val (ER _, _) |- _ =>
    apply nf_make_unique_item_name in E; subst end.
  assumption.
Qed.

Lemma gnf_e_create_copied h other : gnf (e_create_copied_sub_element T LATEST h other).
Proof.
  unfold e_create_copied_sub_element, raw_create_copied_sub_element.
  pose proof gnf_create_copied_inner. gnf_tac.
Qed.
Lemma gnf_e_create_copied_at h other pos : gnf (e_create_copied_sub_element_at T LATEST h other pos).
Proof.
  unfold e_create_copied_sub_element_at, raw_create_copied_sub_element_at.
  pose proof gnf_create_copied_inner. gnf_tac.
Qed.

End Copy.
