(* Tree/FailWitness.v — C11: witnesses.  Over the tiny table set of Tree/Index.v (Module Tiny), worlds built by
   short operation scripts from the empty world (so they satisfy C03's Core invariant by Core_reachable):
     * each Known11 class is inhabited and the failing call DOES change what existed (the literal C11 statement is
       refuted there: findings of the code, see the replay notes);
     * the hypotheses of C11_fail_no_effect are satisfiable (a failing call outside the classes; a failing copy that
       leaves garbage);
     * tables_ok11 cannot be dropped: a table set whose SHORT-NAME element is itself a named type. *)
From Coq Require Import Lia.
From AV Require Import Base.Bytes Base.Outcome Hash.HashModel Tree.Heap Tree.Ops Tree.Script Tree.Inv Tree.InvProofs
  Tree.Index Tree.Fail Tree.Observe Tree.FailProofsInv.
Import Tiny.
Open Scope list_scope.
Open Scope N_scope.

Notation runs := (run_ops tiny tiny_el tiny_en tiny_check_fn LATEST []).
Notation known := (Known11 tiny tiny_el tiny_en tiny_check_fn LATEST []).

(* ---------- class (b): rewriting a referrer fails after the move has begun ----------
   /A/S is referenced by the FIBEX-ELEMENT-REF 9 inside /A/R.  Moving S (5) into ELEMENTS (15) of /P1234567/Q1234567
   makes the new reference text 20 bytes long, the reference type allows 12: set_character_data on the referrer fails.
   Afterwards: S is listed by NO parent (4 lost it, 15 never got it) but its parent link says 15; the path index
   already has /P1234567/Q1234567/S; the referrer list of /A/S is gone while the referrer still says /A/S. *)
Definition sB : list op :=
  setup ++ [OpCreateNamed 1 nPKG (BS "A"); OpCreateSub 2 nELEMENTS; OpCreateNamed 4 nSYSTEM (BS "S");
            OpCreateNamed 4 nSYSTEM (BS "R"); OpCreateSub 7 nREF; OpSetRefTarget 9 5;
            OpCreateNamed 1 nPKG (BS "P1234567"); OpCreateSub 10 nPKGS; OpCreateNamed 12 nPKG (BS "Q1234567");
            OpCreateSub 13 nELEMENTS].

Example K11_move_refwrite_refuted :
  exists w e w', runs sB empty_world = Val w /\ Core w /\
    run (OpMove 15 5) w = Val (ER e, w') /\ e = IncorrectContentType /\
    known w (OpMove 15 5) = true /\ ~ obs_eq_upto_garbage w w' /\
    (* what is left behind *)
    option_map n_content (w_nodes w' 4) = Some [CElem 7] /\ option_map n_content (w_nodes w' 15) = Some [] /\
    parent_link w' 5 = Some (PElem 15) /\
    assoc_get (BS "/P1234567/Q1234567/S") (idents_of w' 0) = Some 5 /\ assoc_get (BS "/A/S") (idents_of w' 0) = None /\
    origins_list w 0 = [(BS "/A/S", [9])] /\ origins_list w' 0 = [] /\ ref_text tiny w' 9 = Some (BS "/A/S").
Proof.
  eexists. eexists. eexists. split; [vm_compute; reflexivity|].
  split; [eapply (Core_reachable tiny tiny_el tiny_en tiny_check_fn LATEST [] sB); vm_compute; reflexivity|].
  split; [vm_compute; reflexivity|]. split; [reflexivity|]. split; [vm_compute; reflexivity|].
  split; [|vm_compute; repeat split].
  intros (_ & H & _). specialize (H 5). vm_compute in H. specialize (H eq_refl). discriminate H.
Qed.

(* ---------- class (a): the moved element is identifiable by structure but has no item name ----------
   OLD-THING has a SHORT-NAME in version 1 only.  It is created without one in a version-2 file; after a version-1 file
   joins the model an (empty) SHORT-NAME can be created in it.  Moving it fails in make_unique_item_name AFTER it was
   taken out of its parent.  (The same state arises from a lenient load of `<SHORT-NAME/>`.) *)
Definition sA : list op :=
  setup ++ [OpCreateNamed 1 nPKG (BS "A"); OpCreateSub 2 nELEMENTS; OpCreateSub 4 nOLD;
            OpCreateFile 0 (BS "g") 1; OpCreateSub 5 nSHORT; OpCreateNamed 1 nPKG (BS "B"); OpCreateSub 7 nELEMENTS].

Example K11_move_noname_refuted :
  exists w e w', runs sA empty_world = Val w /\ Core w /\
    run (OpMove 9 5) w = Val (ER e, w') /\ e = ElementNotIdentifiable /\
    known w (OpMove 9 5) = true /\ ~ obs_eq_upto_garbage w w' /\
    option_map n_content (w_nodes w 4) = Some [CElem 5] /\
    option_map n_content (w_nodes w' 4) = Some [] /\ option_map n_content (w_nodes w' 9) = Some [] /\
    parent_link w' 5 = Some (PElem 9).
Proof.
  eexists. eexists. eexists. split; [vm_compute; reflexivity|].
  split; [eapply (Core_reachable tiny tiny_el tiny_en tiny_check_fn LATEST [] sA); vm_compute; reflexivity|].
  split; [vm_compute; reflexivity|]. split; [reflexivity|]. split; [vm_compute; reflexivity|].
  split; [|vm_compute; repeat split].
  intros (_ & H & _). specialize (H 5). vm_compute in H. specialize (H eq_refl). discriminate H.
Qed.

(* ---------- class (c): set_reference_target: DEST and the referrer map are written before the text ----------
   The path of the target /P1234567/Q1234567 (18 bytes) is rejected by the reference type (12 bytes). *)
Definition sC : list op := sB ++ [OpCreateSub 5 nREF].

Example K11_setref_refuted :
  exists w e w', runs sC empty_world = Val w /\ Core w /\
    run (OpSetRefTarget 16 13) w = Val (ER e, w') /\ e = IncorrectContentType /\
    known w (OpSetRefTarget 16 13) = true /\ ~ obs_eq_upto_garbage w w' /\
    option_map n_attrs (w_nodes w 16) = Some [] /\ option_map n_attrs (w_nodes w' 16) = Some [(0, DEnum 0)] /\
    ref_text tiny w' 16 = None /\
    assoc_get (BS "/P1234567/Q1234567") (origins_list w 0) = None /\
    assoc_get (BS "/P1234567/Q1234567") (origins_list w' 0) = Some [16].
Proof.
  eexists. eexists. eexists. split; [vm_compute; reflexivity|].
  split; [eapply (Core_reachable tiny tiny_el tiny_en tiny_check_fn LATEST [] sC); vm_compute; reflexivity|].
  split; [vm_compute; reflexivity|]. split; [reflexivity|]. split; [vm_compute; reflexivity|].
  split; [|vm_compute; repeat split].
  intros (_ & H & _). specialize (H 16). vm_compute in H. specialize (H eq_refl). discriminate H.
Qed.

(* ---------- non-vacuity: failing calls outside the classes ---------- *)
(* a duplicate name is rejected, nothing changes *)
Example C11_nonvacuous_named :
  exists w e w', runs sB empty_world = Val w /\ Core w /\
    run (OpCreateNamed 4 nSYSTEM (BS "S")) w = Val (ER e, w') /\ e = DuplicateItemName /\
    known w (OpCreateNamed 4 nSYSTEM (BS "S")) = false.
Proof.
  eexists. eexists. eexists. split; [vm_compute; reflexivity|].
  split; [eapply (Core_reachable tiny tiny_el tiny_en tiny_check_fn LATEST [] sB); vm_compute; reflexivity|].
  split; [vm_compute; reflexivity|]. split; reflexivity.
Qed.
(* a move that fails early (destination below the moved element) *)
Example C11_nonvacuous_move :
  exists w e w', runs sB empty_world = Val w /\ Core w /\
    run (OpMove 13 10) w = Val (ER e, w') /\ known w (OpMove 13 10) = false.
Proof.
  eexists. eexists. eexists. split; [vm_compute; reflexivity|].
  split; [eapply (Core_reachable tiny tiny_el tiny_en tiny_check_fn LATEST [] sB); vm_compute; reflexivity|].
  split; vm_compute; reflexivity.
Qed.

(* ---------- the same in the form used by Properties/C11.v ---------- *)
Lemma move_refwrite_refuted :
  exists l o w e w', runs l empty_world = Val w /\ Core w /\ run o w = Val (ER e, w') /\ ~ obs_eq_upto_garbage w w'.
Proof.
  destruct K11_move_refwrite_refuted as (w & e & w' & H1 & H2 & H3 & _ & _ & H4 & _).
  exists sB, (OpMove 15 5), w, e, w'. auto.
Qed.
Lemma move_noname_refuted :
  exists l o w e w', runs l empty_world = Val w /\ Core w /\ run o w = Val (ER e, w') /\ ~ obs_eq_upto_garbage w w'.
Proof.
  destruct K11_move_noname_refuted as (w & e & w' & H1 & H2 & H3 & _ & _ & H4 & _).
  exists sA, (OpMove 9 5), w, e, w'. auto.
Qed.
Lemma setref_refuted :
  exists l o w e w', runs l empty_world = Val w /\ Core w /\ run o w = Val (ER e, w') /\ ~ obs_eq_upto_garbage w w'.
Proof.
  destruct K11_setref_refuted as (w & e & w' & H1 & H2 & H3 & _ & _ & H4 & _).
  exists sC, (OpSetRefTarget 16 13), w, e, w'. auto.
Qed.
Lemma nonvacuous11 :
  exists l o w e w', runs l empty_world = Val w /\ Core w /\ run o w = Val (ER e, w') /\ known w o = false.
Proof.
  destruct C11_nonvacuous_named as (w & e & w' & H1 & H2 & H3 & _ & H4).
  exists sB, (OpCreateNamed 4 nSYSTEM (BS "S")), w, e, w'. auto.
Qed.
(* a failing copy does leave garbage: the allocation bound grows, so the garbage clause is needed *)
Example C11_copy_garbage :
  exists w e w', runs sA empty_world = Val w /\ Core w /\
    run (OpCopy 9 5) w = Val (ER e, w') /\ known w (OpCopy 9 5) = false /\ w_next w < w_next w'.
Proof.
  eexists. eexists. eexists. split; [vm_compute; reflexivity|].
  split; [eapply (Core_reachable tiny tiny_el tiny_en tiny_check_fn LATEST [] sA); vm_compute; reflexivity|].
  split; [vm_compute; reflexivity|]. split; vm_compute; reflexivity.
Qed.
