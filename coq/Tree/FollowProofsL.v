(* Tree/FollowProofsL.v — C06 in loaded worlds, layer 0: the bridge from TreeFactsL (Tree/FollowL.v: TreeFacts without
   "only the root carries PModel m") to agent-c04's lemmas about TreeFacts.
     TreeFacts_unstale   TreeFactsL w -> TreeFacts (unstale w)
     SV_unstale          the two worlds have the same view (names, types, content lists, models): every top-down
                         reading (SpecPath, MReach, ref_text, identifiable, the two invariants) is the same
     upath_unstale       an upward path of unstale w is an upward path of w
   and the three facts about the readers the rename proof uses, now under TreeFactsL:
     specpath_funL, model_of_liveL, path_of_specL. *)
From Coq Require Import Lia.
From AV Require Import Base.Bytes Base.Outcome Hash.HashModel Tree.Heap Tree.Ops Tree.Script Tree.IndexProofsW
  Tree.Index Tree.IndexProofsBase Tree.IndexProofsFrame Tree.Refs Tree.Follow Tree.FollowProofsPath Tree.FollowL.
Open Scope string_scope.
Open Scope list_scope.
Open Scope N_scope.

Lemma unstale_tview w i n : tview (unstale_node w i n) = tview n.
Proof. unfold unstale_node. destruct (n_parent n) as [|m|p]; try reflexivity. destruct (is_root w m i); reflexivity. Qed.

Lemma unstale_content w i n : n_content (unstale_node w i n) = n_content n.
Proof. pose proof (unstale_tview w i n) as H. unfold tview in H. congruence. Qed.

Lemma unstale_parent_elem w i n p : n_parent (unstale_node w i n) = PElem p <-> n_parent n = PElem p.
Proof.
  unfold unstale_node. destruct (n_parent n) as [|m|q] eqn:E; try (rewrite E; tauto).
  destruct (is_root w m i); cbn; rewrite ?E; split; intros H; discriminate H.
Qed.

Lemma NV_unstale w : NV w (unstale w).
Proof. intros i. cbn [unstale w_nodes]. destruct (w_nodes w i) as [n|]; cbn; [rewrite unstale_tview|]; reflexivity. Qed.
Lemma SV_unstale w : SV w (unstale w).
Proof. split; [apply NV_unstale|reflexivity]. Qed.
Lemma SV_unstale_back w : SV (unstale w) w.
Proof. apply SV_sym. apply SV_unstale. Qed.

Lemma child_of_unstale w p c : child_of (unstale w) p c <-> child_of w p c.
Proof.
  unfold child_of. cbn [unstale w_nodes]. split.
  - intros (n' & Hn & Hin). destruct (w_nodes w p) as [n|]; [|discriminate Hn]. injection Hn as <-.
    rewrite unstale_content in Hin. eauto.
  - intros (n & Hn & Hin). rewrite Hn. eexists. split; [reflexivity|]. rewrite unstale_content. exact Hin.
Qed.

Lemma pdepth_unstale w i h : pdepth w i h -> pdepth (unstale w) i h.
Proof.
  induction 1 as [i n Hn Hp|i n p h Hn Hp _ IH].
  - eapply pd_top; [cbn [unstale w_nodes]; rewrite Hn; reflexivity|].
    intros p E. apply (proj1 (unstale_parent_elem _ _ _ _)) in E. exact (Hp p E).
  - eapply pd_step; [cbn [unstale w_nodes]; rewrite Hn; reflexivity| |exact IH].
    apply (proj2 (unstale_parent_elem _ _ _ _)). exact Hp.
Qed.

Theorem TreeFacts_unstale w : TreeFactsL w -> TreeFacts (unstale w).
Proof.
  intros L. constructor.
  - intros p c Hc. apply (proj1 (child_of_unstale _ _ _)) in Hc. destruct (tl_up _ L _ _ Hc) as (cn & Hcn & Hp).
    exists (unstale_node w c cn). split; [cbn [unstale w_nodes]; rewrite Hcn; reflexivity|]. apply (proj2 (unstale_parent_elem _ _ _ _)). exact Hp.
  - intros p n' Hn. cbn [unstale w_nodes] in Hn. destruct (w_nodes w p) as [n|] eqn:E; [|discriminate Hn]. injection Hn as <-.
    rewrite unstale_content. eapply tl_nodup; eauto.
  - intros c cn' p Hn Hp. cbn [unstale w_nodes] in Hn. destruct (w_nodes w c) as [cn|] eqn:E; [|discriminate Hn]. injection Hn as <-.
    apply (proj1 (unstale_parent_elem _ _ _ _)) in Hp. apply (proj2 (child_of_unstale _ _ _)). eapply tl_down; eauto.
  - intros m x Hx. change (model_at w m = Some x) in Hx. destruct (tl_roots _ L _ _ Hx) as (n & Hn & Hp).
    exists n. split; [|exact Hp]. cbn [unstale w_nodes]. rewrite Hn. cbn. f_equal. unfold unstale_node. rewrite Hp.
    unfold is_root. rewrite Hx, N.eqb_refl. reflexivity.
  - intros i n' m Hn Hp. cbn [unstale w_nodes] in Hn. destruct (w_nodes w i) as [n|] eqn:E; [|discriminate Hn]. injection Hn as <-.
    unfold unstale_node in Hp. destruct (n_parent n) as [|m'|q] eqn:Ep; try (rewrite Ep in Hp; discriminate Hp).
    unfold is_root in Hp. change (model_at (unstale w) m) with (model_at w m).
    destruct (model_at w m') as [x|] eqn:Ex; [|discriminate Hp].
    destruct (m_root x =? i) eqn:Er; [|discriminate Hp]. rewrite Ep in Hp. injection Hp as <-.
    apply N.eqb_eq in Er. eauto.
  - intros i n' Hn. cbn [unstale w_nodes] in Hn. destruct (w_nodes w i) as [n|] eqn:E; [|discriminate Hn].
    destruct (tl_depth _ L _ _ E) as (h & Hd). exists h. apply pdepth_unstale. exact Hd.
  - intros i n' Hn. cbn [unstale w_nodes] in Hn. destruct (w_nodes w i) as [n|] eqn:E; [|discriminate Hn].
    exact (tl_alloc _ L _ _ E).
Qed.

Lemma unstale_facts w : TreeFactsL w ->
  TreeFacts (unstale w) /\ w_models (unstale w) = w_models w /\ w_next (unstale w) = w_next w /\
  (forall i, option_map (fun n => (n_name n, n_type n, n_content n)) (w_nodes (unstale w) i) =
             option_map (fun n => (n_name n, n_type n, n_content n)) (w_nodes w i)).
Proof. intros L. split; [apply TreeFacts_unstale; exact L|]. split; [reflexivity|]. split; [reflexivity|exact (NV_unstale w)]. Qed.

Lemma TreeFacts_L w : TreeFacts w -> TreeFactsL w.
Proof. intros F. constructor; [apply (tf_up _ F)|apply (tf_nodup _ F)|apply (tf_down _ F)|apply (tf_roots _ F)|apply (tf_depth _ F)|apply (tf_alloc _ F)]. Qed.

Section L.
Variable T : tables.

Lemma upath_unstale w m l p : upath T (unstale w) m l p -> upath T w m l p.
Proof.
  induction 1 as [|i n' q Hn Hu IH]; [constructor|].
  cbn [unstale w_nodes] in Hn. destruct (w_nodes w i) as [n|] eqn:E; [|discriminate Hn]. injection Hn as <-.
  assert (Hs : seg_n T (unstale w) (unstale_node w i n) = seg_n T w n).
  { pose proof (seg_sv T w (unstale w) i (NV_unstale w)) as H. unfold seg in H. cbn [unstale w_nodes] in H.
    rewrite E in H. exact H. }
  rewrite Hs. econstructor; [exact E|].
  unfold unstale_node in IH, Hu. destruct (n_parent n) as [|m'|pp] eqn:Ep; try (rewrite Ep in IH; exact IH).
  destruct (is_root w m' i); [rewrite Ep in IH; exact IH|]. cbn in Hu. inversion Hu.
Qed.

Lemma specpath_to_unstale w m i p : SpecPath T w m i p -> SpecPath T (unstale w) m i p.
Proof. apply specpath_iv. apply SV_IV. apply SV_unstale. Qed.
Lemma specpath_of_unstale w m i p : SpecPath T (unstale w) m i p -> SpecPath T w m i p.
Proof. apply specpath_iv. apply SV_IV. apply SV_unstale_back. Qed.

Lemma specpath_upathL w m i p : TreeFactsL w -> SpecPath T w m i p -> upath T w m (PElem i) p.
Proof.
  intros L H. apply upath_unstale. apply (specpath_upath T (unstale w) m i p (TreeFacts_unstale w L)).
  apply specpath_to_unstale. exact H.
Qed.

Lemma specpath_funL w m1 m2 i p1 p2 :
  TreeFactsL w -> SpecPath T w m1 i p1 -> SpecPath T w m2 i p2 -> m1 = m2 /\ p1 = p2.
Proof.
  intros L H1 H2. apply (specpath_fun T (unstale w) m1 m2 i p1 p2 (TreeFacts_unstale w L)); apply specpath_to_unstale; assumption.
Qed.

(* the model the walk of a LIVE element ends in is the model it is reachable in *)
Lemma model_of_liveL w h m m0 :
  TreeFactsL w -> model_of h w = Val (OK m, w) -> MReach T w m0 h -> m0 = m.
Proof.
  intros L H HR. apply (model_of_val T) in H as (_ & [(m1 & s & [= <-] & Hu)|([=] & _)]).
  destruct (mreach_specpath T _ _ _ HR) as (p & Hp). pose proof (specpath_upathL _ _ _ _ L Hp) as Hu0.
  destruct (upath_fun T _ _ _ _ Hu0 _ _ Hu) as [-> _]. reflexivity.
Qed.

Lemma path_of_specL w m i n :
  TreeFactsL w -> w_nodes w i = Some n -> MReach T w m i ->
  forall r w', path_of T n w = Val (r, w') ->
    w' = w /\
    if identifiable T w i then exists p, r = OK p /\ SpecPath T w m i p else r = ER ElementNotIdentifiable.
Proof.
  intros L Hn HR r w' H. unfold identifiable. rewrite Hn.
  destruct (mreach_specpath T _ _ _ HR) as (p & HS).
  pose proof (specpath_upathL _ _ _ _ L HS) as Hu.
  eapply (path_of_val T) in H as (-> & [(Hi & ->)|(Hi & [(m2 & s & -> & Hu2)|(-> & Hd)])]); eauto; rewrite Hi; (split; [reflexivity|]).
  - reflexivity.
  - destruct (upath_fun T _ _ _ _ Hu _ _ Hu2) as [-> ->]. eauto.
  - exfalso. eapply upath_not_dead; eauto.
Qed.

(* the path of an element below h (Tree/FollowProofsPath.v below_old_form, under TreeFactsL) *)
Lemma below_old_formL w m h x old p :
  TreeFactsL w -> SpecPath T w m h old -> reach T w h x -> SpecPath T w m x p -> old_form old p.
Proof.
  intros L (xm & Hxm & (q0 & Hd0 & ->)) (q & Hd) Hp.
  assert (Hp2 : SpecPath T w m x ((seg T w (m_root xm) ++ q0) ++ q)).
  { exists xm. split; [exact Hxm|]. exists (q0 ++ q). split; [eapply dpath_trans; eauto|]. rewrite app_assoc. reflexivity. }
  destruct (specpath_funL w m m x _ _ L Hp Hp2) as (_ & ->).
  exists q. split; [reflexivity|]. exact (FollowProofsPath.dpath_boundary T _ _ _ _ Hd).
Qed.

End L.
