(* Tree/CompatHist2.v — the typing invariant for histories, part 2: the creating operations.
   JB m : m keeps (Bounded, TypedU) whatever it returns. *)
From Coq Require Import PeanoNat Arith Lia.
From AV Require Import Base.Bytes Base.Outcome Hash.HashModel Spec.SpecOps Tree.Heap Tree.Ops Tree.Script Tree.Inv
  Tree.InvProofsBase Tree.InvProofsCore Tree.InvProofsPrim Tree.InvProofsCreate Tree.InvProofsRefs Tree.InvProofsRemove
  Tree.Compat Tree.CompatSpec Tree.CompatTyped Tree.CompatProofs8 Tree.CompatFrame Tree.CompatFrameOps Tree.CompatHist1.
Open Scope string_scope.
Open Scope list_scope.
Open Scope N_scope.

Section JB.
Variable T : tables.
Variable tab_el tab_en : nametab.
Variable check_fn : N -> list N -> res bool.
Variable LATEST : N.

Definition JB {A} (m : W A) : Prop :=
  forall w r w', m w = Val (r, w') -> Bounded w -> TypedU T w -> Bounded w' /\ TypedU T w'.

Lemma JB_frp {A} (m : W A) : (forall w0, frp w0 m) -> JB m.
Proof.
  intros Hf w r w' H B HT. pose proof (Hf w w r w' (Fr_refl w) H) as F.
  split; [exact (Fr_bounded w w' F B)|exact (Fr_typed_u T w w' F HT)].
Qed.
Lemma JB_ro {A} (m : W A) : ro m -> JB m.
Proof. intros R w r w' H B HT. apply R in H. subst. auto. Qed.
Lemma JB_bind {A B} (m : W A) (k : A -> W B) : JB m -> (forall a, JB (k a)) -> JB (wbind m k).
Proof.
  intros Hm Hk w r w' H Bw HT. apply wbind_inv in H as [(a & w1 & H1 & H2) | (e & H1 & _)].
  - destruct (Hm _ _ _ H1 Bw HT) as (B1 & T1). exact (Hk _ _ _ _ H2 B1 T1).
  - exact (Hm _ _ _ H1 Bw HT).
Qed.
Lemma JB_try {A} (m : W A) : JB m -> JB (wtry m).
Proof. intros Hm w r w' H. apply wtry_inv in H as (r0 & H & _). exact (Hm _ _ _ H). Qed.

Create HintDb jb discriminated.
Ltac jb_step :=
  first
  [ apply JB_ro; solve [ro_tac]
  | assumption
  | solve [auto with jb]
  | apply JB_try
  | apply JB_bind; [ | intros ? ]
  | match goal with
    | |- JB (match ?x with _ => _ end) => destruct x
    | |- JB (if ?b then _ else _) => destruct b
    | |- JB (let '(_, _) := ?x in _) => destruct x
    end ].
Ltac jb_tac := repeat jb_step.

(* ---- create_sub_element_inner ---- *)
Lemma JB_create_inner self name pos version : JB (create_sub_element_inner T self name pos version).
Proof.
  intros w r w' H B HT. unfold create_sub_element_inner in H.
  wstep H; winv E.
  wstep H; winv E.
  destruct v as [[et ix]|]; [|winv H; auto].
  wstep H; winv E.
  destruct v; [winv H; auto|].
  wstep H. apply alloc_walloc in E as ([= ->] & ->).
  wstep H.
  - winv H. exact (alloc_insert_typed T w self n name et ix version pos _ _ B HT Hn Hv E).
  - exact (alloc_insert_typed T w self n name et ix version pos _ _ B HT Hn Hv E).
Qed.
Hint Resolve JB_create_inner : jb.

Lemma JB_raw_create_sub self name version : JB (raw_create_sub_element T self name version).
Proof. unfold raw_create_sub_element. jb_tac. Qed.
Lemma JB_raw_create_sub_at self name pos version : JB (raw_create_sub_element_at T self name pos version).
Proof. unfold raw_create_sub_element_at. jb_tac. Qed.
Hint Resolve JB_raw_create_sub JB_raw_create_sub_at : jb.

Lemma JB_e_create_sub h name : JB (e_create_sub_element T LATEST h name).
Proof. unfold e_create_sub_element. jb_tac. Qed.
Lemma JB_e_create_sub_at h name pos : JB (e_create_sub_element_at T LATEST h name pos).
Proof. unfold e_create_sub_element_at. jb_tac. Qed.
Lemma JB_e_get_or_create h name : JB (e_get_or_create_sub_element T LATEST h name).
Proof. unfold e_get_or_create_sub_element. jb_tac. Qed.

(* ---- create_named_sub_element_inner ---- *)
Lemma JB_create_named_inner self name item pos m version :
  JB (create_named_sub_element_inner T check_fn self name item pos m version).
Proof.
  unfold create_named_sub_element_inner. intros w r w' H B HT.
  destruct (is_empty item); [winv H; auto|].
  wstep H; winv E.
  wstep H; winv E.
  destruct v as [[et ix]|]; [|winv H; auto].
  wstep H; winv E.
  destruct (negb v); [winv H; auto|].
  wstep H; winv E.
  wstep H; [|auto].
  destruct (negb a); [winv H; auto|].
  wstep H; [|auto].
  wstep H; [|auto].
  destruct a1; [winv H; auto|].
  wstepn H c Ea.
  apply alloc_walloc in Ea as ([= ->] & ->).
  wstepn H u Ei.
  2:{ exact (alloc_insert_typed T w self n name et ix version pos _ _ B HT Hn Hv Ei). }
  destruct (alloc_insert_typed T w self n name et ix version pos _ _ B HT Hn Hv Ei) as (B1 & T1).
  assert (P : JB (do s <- raw_create_sub_element T (w_next w) (name_short_name T) version;
                  do _ <- wtry (raw_set_character_data T check_fn s (DString item) version);
                  add_identifiable m (a0 ++ [47] ++ item) (w_next w);; wret (w_next w))%W).
  { apply JB_bind; [apply JB_raw_create_sub|intros s].
    apply JB_frp. intros wb. fr_go. }
  exact (P _ _ _ H B1 T1).
Qed.
Hint Resolve JB_create_named_inner : jb.

Lemma JB_raw_create_named self name item m version : JB (raw_create_named_sub_element T check_fn self name item m version).
Proof. unfold raw_create_named_sub_element. jb_tac. Qed.
Lemma JB_raw_create_named_at self name item pos m version :
  JB (raw_create_named_sub_element_at T check_fn self name item pos m version).
Proof. unfold raw_create_named_sub_element_at. jb_tac. Qed.
Hint Resolve JB_raw_create_named JB_raw_create_named_at : jb.
Lemma JB_e_create_named h name item : JB (e_create_named_sub_element T check_fn LATEST h name item).
Proof. unfold e_create_named_sub_element. jb_tac. Qed.
Lemma JB_e_create_named_at h name item pos : JB (e_create_named_sub_element_at T check_fn LATEST h name item pos).
Proof. unfold e_create_named_sub_element_at. jb_tac. Qed.
Lemma JB_e_get_or_create_named h name item : JB (e_get_or_create_named_sub_element T check_fn LATEST h name item).
Proof. unfold e_get_or_create_named_sub_element. jb_tac. Qed.

(* ---- AutosarModel::new ---- *)
Lemma JB_new_model root_attrs : JB (new_model T root_attrs).
Proof.
  intros w r w' H B HT. unfold new_model in H.
  destruct (et_new T (autosar_element T)) as [ty| |]; destruct (elem T (autosar_element T)) as [ed| |]; try discriminate.
  injection H as <- <-.
  set (nd := mkNode _ _ _ _ _ _ _).
  pose proof (bounded_alloc w nd B eq_refl) as B1. pose proof (typed_alloc T w nd B HT eq_refl) as T1.
  split.
  - destruct B1 as (X1 & X2). split; [exact X1|exact X2].
  - exact T1.
Qed.

End JB.
