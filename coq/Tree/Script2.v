(* Tree/Script2.v — the extended operation alphabet: everything of Tree/Script.v (`Op1`) plus the operations whose
   models live in Tree/Sort.v, Tree/Copy.v, Tree/Load.v, Tree/Compat.v, Tree/Serialize.v.
   MODEL ONLY: definitions, no proofs. *)
From AV Require Import Base.Bytes Base.Outcome Hash.HashModel Tree.Heap Tree.Ops Tree.Script
  Tree.Sort Tree.Copy Tree.Load Tree.Compat Tree.Serialize.
From AV Require Xml.Parser.
Open Scope string_scope.
Open Scope list_scope.
Open Scope N_scope.

Inductive op2 :=
| Op1 (o : op)
| OpSort (h : N) | OpSortModel (m : N)
| OpDuplicate (m : N)
| OpLoad (m : N) (buffer filename : list N) (strict : bool)
| OpSetVersion (f v : N)
| OpCheckCompat (f v : N)
| OpSerializeFile (f : N)
| OpSerializeElem (h : N).

Inductive value2 :=
| V1 (v : value)
| VText (s : list N)
| VCompat (errs : list compat_err) (mask : N)
| VLoad (f : N) (warnings : list Parser.perror).

Section Script2.
Variable T : tables.
Variable tab_el tab_at tab_en : nametab.
Variable check_fn : N -> list N -> res bool.
Variable float_parse : list N -> option N.
Variable float_fmt : N -> list N.
Variable LATEST name_index name_definition_ref attr_schema_location : N.
Variable root_attrs : list (N * cdata).

Definition run_op2 (o : op2) : W value2 :=
  match o with
  | Op1 o1 => (do v <- run_op T tab_el tab_en check_fn LATEST root_attrs o1; wret (V1 v))%W
  | OpSort h => (do _ <- e_sort T tab_el tab_at tab_en name_index name_definition_ref h; wret (V1 VUnit))%W
  | OpSortModel m => (do _ <- m_sort T tab_el tab_at tab_en name_index name_definition_ref m; wret (V1 VUnit))%W
  | OpDuplicate m => (do m' <- m_duplicate T tab_el tab_en check_fn LATEST root_attrs m; wret (V1 (VModel m')))%W
  | OpLoad m buffer filename strict =>
    (do '(f, ws) <- m_load_buffer T tab_el tab_at tab_en check_fn float_parse LATEST name_definition_ref m buffer filename strict;
     wret (VLoad f ws))%W
  | OpSetVersion f v => (do _ <- f_set_version T f v; wret (V1 VUnit))%W
  | OpCheckCompat f v => (do '(errs, mask) <- f_check_version_compatibility T f v; wret (VCompat errs mask))%W
  | OpSerializeFile f => (do s <- f_serialize T tab_el tab_at tab_en check_fn float_fmt attr_schema_location f; wret (VText s))%W
  | OpSerializeElem h => (do s <- e_serialize T tab_el tab_at tab_en float_fmt h; wret (VText s))%W
  end.

(* Element::cmp as a query *)
Definition q_cmp (a b : id) : W comparison := elem_cmp T tab_el tab_at tab_en name_index name_definition_ref a b.
Definition q_serialize_file (f : N) : W (list N) := f_serialize T tab_el tab_at tab_en check_fn float_fmt attr_schema_location f.

End Script2.
