(* Tree/InvProofsLoad.v — C03: Core is preserved by OpLoad (AutosarModel::load_buffer) outside the classes
   Known_load_shared (genuine: one incoming element merged/imported twice) and Known_load_rejected (the rollback path). *)
From Coq Require Import PeanoNat Arith Lia.
From AV Require Import Base.Bytes Base.Outcome Hash.HashModel Tree.Heap Tree.Ops Tree.Script Tree.Inv
  Tree.InvProofsBase Tree.InvProofsCore Tree.InvProofsTree Tree.InvProofsPrim Tree.InvProofsRemove Tree.InvProofsFiles
  Tree.InvProofsNav
  Tree.Load Tree.InvLoad Tree.InvProofsLoadBase Tree.InvProofsLoadWalk Tree.InvProofsLoadMerge.
From AV Require Xml.Parser.
From AV Require Tree.LoadProofs.
Open Scope string_scope.
Open Scope list_scope.
Open Scope N_scope.

Ltac bstep H a wa E :=
  apply wbind_inv in H as [(a & wa & E & H) | (?e & E & ?Hr)]; [cbv beta zeta in H|].

Lemma nfp_same_tree w w' :
  (forall x, w_nodes w' x = w_nodes w x) -> w_next w' = w_next w -> roots w' = roots w -> same_tree w w'.
Proof. intros A B Cc. repeat split; auto. intros i. unfold skel. rewrite A. reflexivity. Qed.

Lemma par_alloc w c p : Core w -> par w c p -> allocated w p.
Proof.
  intros C Hp. assert (Hc : allocated w c) by (destruct Hp as (n & Hn & _); eexists; eauto).
  destruct (c_depth _ C _ Hc) as (h & Hd). destruct (par_depth _ _ _ _ Hp Hd) as (h' & _ & Hd').
  eapply depth_alloc; eauto.
Qed.

Lemma nth_opt_roots w m x : nth_opt (w_models w) (N.to_nat m) = Some x -> nth_error (roots w) (N.to_nat m) = Some (m_root x).
Proof. intros H. rewrite nth_opt_nth_error in H. unfold roots. rewrite nth_error_map, H. reflexivity. Qed.

Section LoadCore.
Variable T : tables.
Variable LATEST name_definition_ref : N.

Lemma nfp_fill_identifiables m t : forall l, nfp (fill_identifiables m t l).
Proof.
  induction l as [|[key pos] l IH]; cbn [fill_identifiables]; [nfp_tac|].
  destruct (it_at t pos); [|nfp_tac]. apply nfp_bind; [nfp_tac|intros w0]. apply nfp_bind; [nfp_tac|intros x].
  destruct (ident_live w0 x key); [exact IH|]. apply nfp_bind; [|intros _; exact IH].
  unfold add_identifiable. nfp_tac.
Qed.
Lemma nfp_fill_references m t : forall l, nfp (fill_references m t l).
Proof.
  induction l as [|[key pos] l IH]; cbn [fill_references]; [nfp_tac|].
  destruct (it_at t pos); [|nfp_tac]. apply nfp_bind; [|intros _; exact IH].
  unfold add_reference_origin. nfp_tac.
Qed.

(* the tail of the merge stage: index fills and the file list; no node, no root changes *)
Lemma nfp_stage_tail m t (st : Parser.pstate) fid :
  nfp (fill_identifiables m t (rev (Parser.p_idents st));;
       fill_references m t (rev (Parser.p_refs st));;
       modify_model m (fun y => set_mfiles y (m_files y ++ [fid])))%W.
Proof.
  apply nfp_bind; [apply nfp_fill_identifiables|intros _].
  apply nfp_bind; [apply nfp_fill_references|intros _]. nfp_tac.
Qed.

(* ---------- the first load into a model: the root is replaced ---------- *)
Lemma first_load_core m re fid w2 r wa :
  Core w2 -> (exists n, w_nodes w2 re = Some n /\ n_parent n = PNone) ->
  (forall k r0, nth_error (roots w2) k = Some r0 -> r0 <> re) ->
  (modify_node re (fun n => set_parent n (PModel m));;
   modify_node re (fun n => set_files n (set_add fid (n_files n)));;
   modify_model m (fun y => set_root y re))%W w2 = Val (r, wa) ->
  Core wa /\ w_next wa = w_next w2 /\ (forall i, i <> re -> w_nodes wa i = w_nodes w2 i) /\
  (forall k r0, nth_error (roots wa) k = Some r0 -> r0 = re \/ nth_error (roots w2) k = Some r0) /\
  nth_error (roots wa) (N.to_nat m) = Some re.
Proof.
  intros C (n & Hn & Hpn) Hroots H.
  bstep H u1 w3 E1; [|apply modify_node_wset in E1 as (? & _ & [=] & _)].
  apply modify_node_wset in E1 as (n' & Hn' & _ & ->). rewrite Hn in Hn'. injection Hn' as <-.
  bstep H u2 w4 E2; [|apply modify_node_wset in E2 as (? & _ & [=] & _)].
  apply modify_node_wset in E2 as (n2 & Hn2 & _ & ->). rewrite nodes_wset_eq in Hn2. injection Hn2 as <-.
  set (n1 := set_parent n (PModel m)) in *. set (n2 := set_files n1 _) in *.
  set (w3 := wset w2 re n1) in *. set (w4 := wset w3 re n2) in *.
  assert (Hunl : forall p, ~ lists w2 p re).
  { intros p Hl. apply (c_up _ C) in Hl. destruct Hl as (n0 & Hn0 & Hp0). congruence. }
  assert (Hsk : forall i, i <> re -> skel w4 i = skel w2 i).
  { intros i Hi. unfold w4, w3. rewrite !skel_wset_neq by auto. reflexivity. }
  assert (Hskr : skel w4 re = Some (PModel m, kids n)) by (unfold w4; rewrite skel_wset_eq; reflexivity).
  assert (HP : forall x nx, w_nodes w2 x = Some nx -> exists n', w_nodes w4 x = Some n' /\
     (n_parent n' = n_parent nx \/ ((forall p, n_parent nx <> PElem p) /\ (forall p, n_parent n' <> PElem p)))).
  { intros x nx Hx. destruct (N.eq_dec x re) as [->|Hxr].
    - exists n2. split; [apply nodes_wset_eq|]. right. rewrite Hn in Hx. injection Hx as <-. rewrite Hpn. split; intros p; discriminate.
    - exists nx. split; [|auto]. unfold w4, w3. rewrite !nodes_wset_neq by auto. auto. }
  assert (C4 : Core w4).
  { constructor.
    - intros i. rewrite allocated_skel. destruct (N.eq_dec i re) as [->|Hi].
      + rewrite Hskr. split; [intros _|congruence]. apply C. eexists; eauto.
      + rewrite Hsk by auto. rewrite <- allocated_skel. apply C.
    - intros p c Hl. assert (Hl2 : lists w2 p c).
      { apply lists_skel in Hl as (a & b & E & Hc). apply lists_skel. destruct (N.eq_dec p re) as [->|Hp].
        - rewrite Hskr in E. injection E as <- <-. rewrite (skel_some _ _ _ Hn). eauto.
        - rewrite Hsk in E by auto. eauto. }
      assert (c <> re) by (intros ->; eapply Hunl; eauto).
      apply (c_up _ C) in Hl2. apply par_skel in Hl2 as (ks & E). apply par_skel. exists ks. rewrite Hsk; auto.
    - intros p np Hp. pose proof (skel_some _ _ _ Hp) as E. destruct (N.eq_dec p re) as [->|Hpr].
      + rewrite Hskr in E. injection E as _ <-. eapply c_nodup; eauto.
      + rewrite Hsk in E by auto. apply skel_inv in E as (n0 & Hn0 & _ & <-). eapply c_nodup; eauto.
    - intros k r0 Hk. assert (Hk2 : nth_error (roots w2) k = Some r0) by exact Hk.
      destruct (c_roots _ C _ _ Hk2) as (n0 & Hn0 & Hp0). pose proof (Hroots _ _ Hk2) as Hne.
      exists n0. split; auto. unfold w4, w3. rewrite !nodes_wset_neq by auto. auto.
    - intros i Ha. assert (Ha2 : allocated w2 i).
      { apply allocated_skel in Ha. apply allocated_skel. destruct (N.eq_dec i re) as [->|Hi].
        - rewrite (skel_some _ _ _ Hn). congruence.
        - rewrite Hsk in Ha; auto. }
      destruct (c_depth _ C _ Ha2) as (h & Hd). exists h. eapply depth_transfer_top; eauto. }
  apply modify_model_inv in H as (x & Hx & _ & ->).
  rewrite nth_opt_nth_error in Hx.
  match goal with |- Core ?ww /\ _ => set (w5 := ww) in * end.
  assert (Hr5 : forall k r0, nth_error (roots w5) k = Some r0 ->
            (k = N.to_nat m /\ r0 = re) \/ nth_error (roots w2) k = Some r0).
  { intros k r0 Hk. unfold roots, w5, wmodels in Hk. cbn [w_models] in Hk. rewrite nth_error_map in Hk.
    destruct (Nat.eq_dec k (N.to_nat m)) as [->|Hkm].
    - rewrite (list_set_nth_eq _ _ _ _ Hx) in Hk. cbn in Hk. injection Hk as <-. left. auto.
    - rewrite list_set_nth_neq in Hk by auto. right. unfold roots. rewrite nth_error_map. exact Hk. }
  split; [|split; [reflexivity|split; [|split]]].
  - constructor.
    + apply C4.
    + apply C4.
    + apply C4.
    + intros k r0 Hk. destruct (Hr5 _ _ Hk) as [(-> & ->)|Hk2].
      * exists n2. split; [apply nodes_wset_eq|]. cbn. rewrite N2Nat.id. reflexivity.
      * apply (c_roots _ C4). exact Hk2.
    + intros i Ha. destruct (c_depth _ C4 i Ha) as (h & Hd). exists h. eapply depth_transfer; [|exact Hd]. eauto.
  - intros i Hi. unfold w5, wmodels. cbn [w_nodes]. unfold w4, w3. rewrite !nodes_wset_neq by auto. reflexivity.
  - intros k r0 Hk. destruct (Hr5 _ _ Hk) as [(_ & ->)|Hk2]; auto.
  - unfold roots, w5, wmodels. cbn [w_models]. rewrite nth_error_map, (list_set_nth_eq _ _ _ _ Hx). reflexivity.
Qed.

(* ---------- the end of a load: what is not reachable from the root is dropped ---------- *)
Lemma kill_first_core base re f w3 keep wq rk wk :
  Core w3 -> base <= re ->
  (forall k r0, nth_error (roots w3) k = Some r0 -> r0 = re \/ r0 < base) ->
  (forall p c, p < base -> lists w3 p c -> c < base) ->
  dfs_ids f re w3 = Val (OK keep, wq) -> kill_unreachable base keep w3 = Val (rk, wk) -> Core wk.
Proof.
  intros C Hre Hroots Hcl Hd Hk. destruct (dfs_ids_reach _ _ _ _ _ Hd) as (Hself & _ & Hclosed).
  eapply (core_kill [] base keep w3); [apply Core_mask; exact C| | | |exact Hk].
  - intros k r0 Hr0. destruct (Hroots _ _ Hr0) as [->|Hlt]; [apply killedb_kept; auto|apply killedb_old; auto].
  - intros p [].
  - intros p c Kp Hl. destruct (killedb_false _ _ _ _ Kp) as [Hp|[Hp|Hp]].
    + apply killedb_old. eapply Hcl; eauto.
    + exfalso. destruct Hl as (n & Hn & _). assert (allocated w3 p) as Ha by (eexists; eauto). apply C in Ha. lia.
    + apply killedb_kept. eapply Hclosed; eauto.
Qed.

Lemma kill_merge_core base r rb w1 D Imp f w3 keep wq rk wk :
  r < base -> MI base r rb w1 D Imp w3 ->
  (forall k r0, nth_error (roots w3) k = Some r0 -> r0 < base) ->
  dfs_ids f r w3 = Val (OK keep, wq) -> kill_unreachable base keep w3 = Val (rk, wk) -> Core wk.
Proof.
  intros Hr M Hroots Hd Hk. pose proof (dfs_ids_keep _ _ _ _ _ Hd) as Hkeep.
  eapply (core_kill D base keep w3); [apply (mi_core _ _ _ _ _ _ _ M)| | | |exact Hk].
  - intros k r0 Hr0. apply killedb_old. eapply Hroots; eauto.
  - intros d Hd0 Ha. apply killedb_true. destruct (mi_dup _ _ _ _ _ _ _ M _ Hd0) as (Hb & _). split; auto. split.
    + apply (MI_alloc _ _ _ _ _ _ _ _ M). exact Ha.
    + intros Hin. apply Hkeep in Hin. eapply MI_reach_good; eauto.
  - intros p c Kp Hl. destruct (killedb_false _ _ _ _ Kp) as [Hp|[Hp|Hp]].
    + destruct (N.lt_ge_cases c base) as [|Hc]; [apply killedb_old; auto|].
      assert (HpD : ~ In p D). { intros Hin. apply (mi_dup _ _ _ _ _ _ _ M) in Hin as (? & _). lia. }
      pose proof (MI_honest _ _ _ _ _ _ _ _ _ M HpD Hl) as Hpar.
      destruct (mi_hang _ _ _ _ _ _ _ M _ _ Hc Hpar) as [|Hre]; [lia|].
      apply killedb_kept. apply Hkeep. econstructor; eauto.
    + exfalso. destruct Hl as (n & Hn & _). assert (allocated w3 p) as Ha by (eexists; eauto).
      apply (MI_alloc _ _ _ _ _ _ _ _ M) in Ha. lia.
    + apply killedb_kept. apply Hkeep. apply Hkeep in Hp. econstructor; eauto.
Qed.


(* ---------- load_parsed ---------- *)
Lemma load_parsed_core m filename root st w r w' :
  Core w ->
  (forall t w1 x, install PNone root w = Val (OK t, w1) ->
     let w2 := mkWorld (w_nodes w1) (w_next w1)
                       (w_files w1 ++ [mkFile m filename (Parser.p_version st) (Parser.p_standalone st)]) (w_models w1) in
     nth_opt (w_models w2) (N.to_nat m) = Some x -> is_empty (m_files x) = false ->
     merge_shared T LATEST name_definition_ref (fuel_of w2) (m_root x) (fold_right set_add [] (m_files x)) (it_id t)
                  (N.of_nat (List.length (w_files w))) w2 = false) ->
  r <> ER InvalidFileMerge ->
  load_parsed T LATEST name_definition_ref m filename root st w = Val (r, w') -> Core w'.
Proof.
  intros C Hshared Hrej H. unfold load_parsed in H.
  bstep H w0 wx E0; [|apply wget_inv in E0 as ([=] & _)]. apply wget_inv in E0 as ([= ->] & ->).
  bstep H t w1 E1.
  2:{ destruct (install_core _ _ _ _ _ C (or_introl eq_refl) E1) as (t' & [=] & _). }
  destruct (install_core _ _ _ _ _ C (or_introl eq_refl) E1) as (t' & [= <-] & Eid & C1 & L1 & R1 & F1 & (nr & Hnr & Pnr) & Cl1).
  specialize (Hshared t w1).
  set (base := w_next w) in *. set (re := it_id t) in *.
  bstep H w1' wx E2; [|apply wget_inv in E2 as ([=] & _)]. apply wget_inv in E2 as ([= ->] & ->).
  bstep H x0 wx E3; [|apply get_model_inv in E3 as (? & _ & [=] & _)]. apply get_model_inv in E3 as (x0' & Hx0 & [= ->] & ->).
  bstep H ov wx E4; [|apply wl_inv in E4 as (? & _ & [=] & _)]. apply wl_inv in E4 as (ov' & _ & [= ->] & ->).
  assert (Hroots_old : forall k r0, nth_error (roots w1) k = Some r0 -> r0 < base).
  { intros k r0 Hk. rewrite R1 in Hk. destruct (c_roots _ C _ _ Hk) as (n & Hn & _). apply C. eexists; eauto. }
  assert (Hold_closed : forall p c, p < base -> lists w1 p c -> c < base).
  { intros p c Hp (n & Hn & Hc). rewrite F1 in Hn by auto. assert (Hl : lists w p c) by (exists n; auto).
    apply (c_up _ C) in Hl. destruct Hl as (nc & Hnc & _). apply C. eexists; eauto. }
  destruct ov'.
  - (* overlap: everything that was installed is dropped *)
    bstep H u wk Ek.
    2:{ apply kill_spec in Ek as ([=] & _). }
    apply wfail_inv in H as (_ & ->).
    eapply (core_kill [] base [] w1); [apply Core_mask; exact C1| | | |exact Ek].
    + intros k r0 Hk. apply killedb_old. eauto.
    + intros p [].
    + intros p c Kp Hl. destruct (killedb_false _ _ _ _ Kp) as [Hp|[Hp|[]]].
      * apply killedb_old. eauto.
      * exfalso. destruct Hl as (n & Hn & _). assert (allocated w1 p) as Ha by (eexists; eauto). apply C1 in Ha. lia.
  - bstep H u w2 E5; [|apply wput_inv in E5 as ([=] & _)]. apply wput_inv in E5 as (_ & ->).
    set (w2 := mkWorld _ _ _ _) in *.
    assert (S12 : same_tree w1 w2) by (apply st_models; reflexivity).
    pose proof (Core_same_tree _ _ S12 C1) as C2.
    bstep H x wx E6; [|apply get_model_inv in E6 as (? & _ & [=] & _)]. apply get_model_inv in E6 as (x' & Hx & [= ->] & ->).
    bstep H rb w3 E7; [|apply wcatch_inv in E7 as (? & _ & [=])]. apply wcatch_inv in E7 as (rb' & E7 & [= ->]).
    bstep H x3 wx E8; [|apply get_model_inv in E8 as (? & _ & [=] & _)]. apply get_model_inv in E8 as (x3' & Hx3 & [= ->] & ->).
    bstep H w3' wx E9; [|apply wget_inv in E9 as ([=] & _)]. apply wget_inv in E9 as ([= ->] & ->).
    bstep H keep wq E10; [|exfalso; exact (LoadProofs.errs_dfs_ids (fun _ => False) _ _ _ _ _ E10)].
    pose proof (ro_dfs_ids _ _ _ _ _ E10) as ->.
    bstep H u2 wk E11; [|apply kill_spec in E11 as ([=] & _)].
    destruct rb' as [ub|eb].
    2:{ (* the merge stage failed: the load reports InvalidFileMerge *)
        exfalso. apply Hrej.
        pose proof (LoadProofs.errs_merge_stage T LATEST name_definition_ref m x' re (N.of_nat (List.length (w_files w))) t st _ _ _ E7) as He.
        red in He. subst eb.
        apply wbind_inv in H as [(u3 & w5 & E12 & H) | (e5 & E12 & ->)]; [|discriminate E12].
        apply wfail_inv in H as (-> & _). reflexivity. }
    apply wret_inv in H as (_ & ->).
    (* the stage: branch, then the index fills *)
    apply wbind_inv in E7 as [(ua & wa & Ea & Etail) | (e & _ & [=])].
    destruct (nfp_stage_tail m t st _ _ _ _ Etail) as (Tn & Tx & Tr).
    assert (Sa3 : same_tree wa w3) by (apply nfp_same_tree; auto).
    destruct (is_empty (m_files x')) eqn:Efirst.
    + (* first load *)
      destruct (first_load_core m re (N.of_nat (List.length (w_files w))) w2 (OK ua) wa C2) as (Ca & Na & Fa & Ra & Rm); [| |exact Ea|].
      { exists nr. split; [rewrite Eid; exact Hnr|exact Pnr]. }
      { intros k r0 Hk Heq. apply Hroots_old in Hk. subst r0. rewrite Eid in Hk. lia. }
      pose proof (Core_same_tree _ _ Sa3 Ca) as C3.
      assert (Hroot3 : m_root x3' = re).
      { apply nth_opt_roots in Hx3. rewrite Tr, Rm in Hx3. congruence. }
      rewrite Hroot3 in E10.
      eapply (kill_first_core base re _ w3 keep w3 _ wk C3); [rewrite Eid; apply N.le_refl| | |exact E10|exact E11].
      * intros k r0 Hk. rewrite Tr in Hk. destruct (Ra _ _ Hk) as [->|Hk2]; auto. right. eapply Hroots_old. exact Hk2.
      * intros p c Hp (n & Hn & Hc). rewrite Tn, Fa in Hn by (rewrite Eid; lia).
        eapply Hold_closed; eauto. exists n. auto.
    + (* merge into the existing data *)
      apply wbind_inv in Ea as [(mr & wb & Em & Ea) | (e & Em & [=])].
      apply wcatch_inv in Em as (mr' & Em & [= ->]).
      destruct mr' as [um|em].
      2:{ apply wbind_inv in Ea as [(x1 & w6 & _ & Ea) | (e & _ & [=])].
          apply wbind_inv in Ea as [(u6 & w7 & _ & Ea) | (e & _ & [=])].
          apply wfail_inv in Ea as ([=] & _). }
      apply wret_inv in Ea as (_ & ->).
      unfold merge_file_data in Em.
      apply wbind_inv in Em as [(xm & wm & Em1 & Em) | (e & _ & [=])].
      apply get_model_inv in Em1 as (xm' & Hxm & [= ->] & ->).
      rewrite Hx in Hxm. injection Hxm as <-.
      apply wbind_inv in Em as [(wg & wm & Em2 & Em) | (e & _ & [=])].
      apply wget_inv in Em2 as ([= ->] & ->).
      apply wbind_inv in Em as [(ue & we & Eme & Em) | (e & _ & [=])].
      apply wbind_inv in Em as [(x2 & wm & Em3 & Em) | (e & _ & [=])].
      apply get_model_inv in Em3 as (x2' & Hx2 & [= ->] & ->).
      destruct ue.
      set (rt := m_root x').
      assert (Hr_root : nth_error (roots w2) (N.to_nat m) = Some rt) by (apply nth_opt_roots; exact Hx).
      assert (Hr_old : rt < base) by (eapply Hroots_old; rewrite <- Hr_root; reflexivity).
      assert (Hold_up : forall c p, c < base -> par w2 c p -> p < base).
      { intros c p Hc Hp. apply (proj1 (st_par _ _ _ _ S12)) in Hp.
        assert (Hp0 : par w c p). { destruct Hp as (n & Hn & Hpp). rewrite F1 in Hn by auto. exists n. auto. }
        apply par_alloc in Hp0; auto. apply C. auto. }
      assert (Hrb : parent_in w2 re = PNone).
      { unfold parent_in. cbn [w_nodes w2]. rewrite Eid. rewrite Hnr. exact Pnr. }
      assert (Hnew_up : forall c p, base <= c -> par w2 c p -> base <= p).
      { intros c p Hc Hp. apply (proj1 (st_par _ _ _ _ S12)) in Hp. destruct (N.eq_dec c base) as [->|Hne].
        - destruct Hp as (n & Hn & Hpp). rewrite Hnr in Hn. injection Hn as <-. congruence.
        - apply (Cl1 c p); auto. lia. }
      assert (M0 : MI base rt re w2 [] [] w2).
      { constructor.
        - apply Core_mask. exact C2.
        - reflexivity.
        - reflexivity.
        - intros p d _ [].
        - intros d [].
        - reflexivity.
        - reflexivity.
        - intros y [].
        - intros c p Hc Hp. left. eapply Hnew_up; eauto. }
      assert (Hrr : Reach w2 rt rt).
      { constructor. destruct (c_roots _ C2 _ _ Hr_root) as (n & Hn & _). eexists; eauto. }
      destruct (merge_ok T LATEST name_definition_ref base rt re w2 C2 Hr_old (ex_intro _ _ Hr_root) Hold_up Hrb
                         (fuel_of w2) rt (fold_right set_add [] (m_files x')) re (N.of_nat (List.length (w_files w)))
                         [] [] w2 we M0 Hrr) as (D' & Imp' & (Me & _ & _ & _) & _ & _);
        [intros []|intros []|rewrite Eid; apply N.le_refl|left; reflexivity|apply Hshared; auto|exact Eme|].
      assert (Seb : same_tree we wb).
      { eapply stp_modify_node; [|exact Em]. intros n. split; reflexivity. }
      pose proof (MI_same_tree _ _ _ _ _ _ _ _ Seb Me) as Ma.
      pose proof (MI_same_tree _ _ _ _ _ _ _ _ Sa3 Ma) as M3.
      assert (Hroot3 : m_root x3' = rt).
      { apply nth_opt_roots in Hx3. rewrite (mi_roots _ _ _ _ _ _ _ M3), Hr_root in Hx3. congruence. }
      rewrite Hroot3 in E10.
      eapply (kill_merge_core base rt re w2 D' Imp' _ w3 keep w3 _ wk Hr_old M3); [|exact E10|exact E11].
      intros k r0 Hk. rewrite (mi_roots _ _ _ _ _ _ _ M3) in Hk. destruct S12 as (_ & Sr & _). rewrite Sr in Hk. eauto.
Qed.

End LoadCore.
