(* Tree/IndexProofsTablesReal.v — [F] the regenerated specification tables (Spec/SpecReal.v, RT) together with the
   validator model of Tree/CheckFn.v (any DFA tables for the table-driven validators) satisfy TablesOK:
     - every lookup of SHORT-NAME yields the one SHORT-NAME definition (sweep over all element definitions), whose type
       has character content, is not the reference type, and is validated by the hand-written validator 8
       (^[a-zA-Z][a-zA-Z0-9_]*$, C19_8): accepted values are strings without '/';
     - reference types have character content (sweep over all data types) and a pattern specification;
     - the root element is not SHORT-NAME. *)
From Coq Require Import Lia FMapPositive.
From AV Require Import Base.Bytes Base.Outcome Hash.HashModel Tree.Heap Tree.Ops Tree.Script Tree.Inv Tree.Index Tree.Refs
  Tree.IndexProofsBridge Spec.SpecReal Tree.SpecWFReal Tree.CheckFn Regex.Regex Regex.Vexpr.
From AV.Gen Require Import RegexData XmlVexprs.
Open Scope list_scope.
Open Scope N_scope.

(* ---------- what find_sub returns: an element definition with the name looked for (every table set) *)
Section FindSound.
Variable T : tables.

Lemma find_sub_sound fuel : forall ty target v et ix,
  find_sub T fuel ty target v = Val (Some (et, ix)) ->
  exists e, elem T (fst et) = Val e /\ ed_name e = target /\ snd et = ed_type e.
Proof.
  induction fuel as [|fuel IH]; intros ty target v et ix; cbn [find_sub]; [discriminate|].
  destruct (sub_slice T ty) as [[[start stop] d]| |] eqn:ES; cbn [bind]; try discriminate.
  match goal with
  | |- ?f ?k0 0 = _ -> ?G0 =>
    assert (G : forall k pos, f k pos = Val (Some (et, ix)) -> G0); [| apply G]
  end.
  induction k as [|k IHk]; intros pos; [discriminate|].
  destruct (subel T (start + pos)) as [[kind idx]| |] eqn:ESub; cbn [bind]; try discriminate.
  destruct (kind =? 0) eqn:EK.
  - destruct (elem T idx) as [e| |] eqn:EE; cbn [bind]; try discriminate.
    destruct (vinfo T (dt_sub_ver d + pos)) as [mask| |] eqn:EV; cbn [bind]; try discriminate.
    destruct ((ed_name e =? target) && negb (N.land v mask =? 0)) eqn:Eb.
    + unfold et_new. rewrite EE. cbn [bind]. intros [= <- <-]. cbn [fst snd].
      apply andb_true_iff in Eb as (Eb & _). apply N.eqb_eq in Eb. exists e. auto.
    + apply IHk.
  - destruct (find_sub T fuel idx target v) as [[[et' ixs]|]| |] eqn:EF; try discriminate.
    + intros [= <- <-]. eapply IH; eauto.
    + apply IHk.
Qed.
End FindSound.

(* ---------- the generated tables *)
Definition ids_upto (n : N) : list N := map N.of_nat (seq 0 (N.to_nat n)).
Lemma ids_upto_in n i : i < n -> In i (ids_upto n).
Proof.
  intros H. unfold ids_upto. apply in_map_iff. exists (N.to_nat i). split; [apply N2Nat.id|]. apply in_seq. lia.
Qed.

(* the only element definition named SHORT-NAME *)
Definition short_def_ok (i : N) : bool :=
  match T_elements RT i with
  | Some e => if ed_name e =? name_short_name RT then (i =? 6912) && (ed_type e =? 2500) else true
  | None => true
  end.
Lemma rt_short_sweep : forallb short_def_ok (ids_upto (n_elements RT)) = true.
Proof. vm_compute. reflexivity. Qed.

Lemma rt_short_def i e : T_elements RT i = Some e -> ed_name e = name_short_name RT -> i = 6912 /\ ed_type e = 2500.
Proof.
  intros He Hn. pose proof (real_elem_bound _ _ He) as Hb. pose proof rt_short_sweep as HS. rewrite forallb_forall in HS.
  specialize (HS i (ids_upto_in _ _ Hb)). unfold short_def_ok in HS. rewrite He in HS. apply N.eqb_eq in Hn. rewrite Hn in HS.
  apply andb_true_iff in HS as (H1 & H2). apply N.eqb_eq in H1, H2. auto.
Qed.

(* reference types have character content *)
Definition ref_mode_ok (ty : N) : bool :=
  match T_datatypes RT ty with
  | Some d => if (negb (dt_cdata d =? 0)) && (dt_cdata d - 1 =? reference_type_idx RT) then dt_mode d =? MCharacters else true
  | None => true
  end.
Lemma rt_ref_sweep : forallb ref_mode_ok (ids_upto (n_datatypes RT)) = true.
Proof. vm_compute. reflexivity. Qed.

Section Real.
Variable dfas : N -> option (list (list N) * list N).
Notation cf := (check_fn_model dfas).

Lemma v8_no_slash s : veval v_8 s = Some true -> ~ In 47 s.
Proof.
  unfold v_8. cbn [veval]. destruct (match s with [] => false | _ :: _ => true end); [|discriminate].
  destruct (nth_opt s 0) as [c|]; [|discriminate]. destruct (class_mem _ c); [|discriminate].
  intros [= H] Hin. rewrite forallb_forall in H. specialize (H 47 Hin). vm_compute in H. discriminate.
Qed.

Lemma rt_short_type : short_type RT cf (6912, 2500).
Proof.
  split; [vm_compute; reflexivity|]. split; [vm_compute; reflexivity|].
  intros cs v ver Hcs Hck. vm_compute in Hcs. injection Hcs as <-.
  destruct v as [e|s|u|f]; cbn [check_value] in Hck; try discriminate.
  exists s. split; [reflexivity|]. destruct (opt_le (Some 128) (List.length s)); [|discriminate].
  unfold check_fn_model in Hck. change (xml_vexpr 8) with (Some v_8) in Hck. cbv beta iota in Hck.
  destruct (veval v_8 s) as [b|] eqn:Ev; [|discriminate]. injection Hck as Hb. subst b. apply v8_no_slash. exact Ev.
Qed.

Theorem real_tables_ok : TablesOK RT cf.
Proof.
  constructor.
  - intros ty v et ix H. unfold find_sub_element in H. apply find_sub_sound in H as (e & He & Hn & Ht).
    unfold elem, unwrap in He. destruct (T_elements RT (fst et)) as [e0|] eqn:E0; [|discriminate]. injection He as ->.
    destruct (rt_short_def _ _ E0 Hn) as (H1 & H2). destruct et as [a b]. cbn [fst snd] in *. subst a. rewrite H2 in Ht. subst b.
    exact rt_short_type.
  - intros ty Hr. unfold is_ref, content_mode, dt, unwrap in *.
    destruct (T_datatypes RT (snd ty)) as [d|] eqn:Ed; cbn [bind] in *; [|discriminate].
    pose proof (real_dt_bound _ _ Ed) as Hb. pose proof rt_ref_sweep as HS. rewrite forallb_forall in HS.
    specialize (HS (snd ty) (ids_upto_in _ _ Hb)). unfold ref_mode_ok in HS. rewrite Ed in HS.
    destruct (dt_cdata d =? 0); [discriminate|]. cbn [negb andb] in HS.
    destruct (dt_cdata d - 1 =? reference_type_idx RT); [|discriminate].
    apply N.eqb_eq in HS. rewrite HS. reflexivity.
  - intros ty cs v ver Hr Hcs Hck. unfold is_ref, chardata_spec, dt, unwrap in *.
    destruct (T_datatypes RT (snd ty)) as [d|]; cbn [bind] in *; [|discriminate].
    destruct (dt_cdata d =? 0); [discriminate|].
    destruct (dt_cdata d - 1 =? reference_type_idx RT) eqn:Er; [|discriminate]. apply N.eqb_eq in Er. rewrite Er in Hcs.
    vm_compute in Hcs. injection Hcs as <-. destruct v as [e|s|u|f]; cbn [check_value] in Hck; try discriminate. eauto.
  - intros ed H. vm_compute in H. injection H as <-. cbn. discriminate.
Qed.

(* [F] the closed history theorem for the generated tables: every history of operations from the empty world whose
   steps avoid the finding classes of C03/C04/C05 and the pending constructors (clean45, decidable along the history)
   ends in a world with exact path index and exact referrer lists — for any name tables, any DFA tables of the
   table-driven validators, any LATEST and any root attributes. *)
Theorem C04_C05_history_real (tab_el tab_en : nametab) (LATEST : N) (root_attrs : list (N * cdata)) l w' :
  clean45 RT tab_el tab_en cf LATEST root_attrs l empty_world = true ->
  run_ops RT tab_el tab_en cf LATEST root_attrs l empty_world = Val w' ->
  TreeFacts w' /\ Inv04 RT cf w' /\ Inv05 RT w'.
Proof. apply C04_C05_reachable_partial. exact real_tables_ok. Qed.

End Real.
