(* Tree/CompatHist3.v — the typing invariant for histories, part 3: ElementRaw::deep_copy.
   The copy is a fresh subtree whose nodes carry the names and element types of their sources, so every edge inside the copy
   repeats an edge of the source: deep_copy keeps (Bounded, TypedU) unconditionally, leaves all old nodes alone, and returns a
   node with the name and type of the source. *)
From Coq Require Import PeanoNat Arith Lia.
From AV Require Import Base.Bytes Base.Outcome Hash.HashModel Spec.SpecOps Tree.Heap Tree.Ops Tree.Script Tree.Inv
  Tree.InvProofsBase Tree.InvProofsCore Tree.InvProofsPrim Tree.InvProofsCreate Tree.InvProofsRefs Tree.InvProofsRemove
  Tree.Compat Tree.CompatSpec Tree.CompatTyped Tree.CompatProofs8 Tree.CompatFrame Tree.CompatFrameOps Tree.CompatHist1 Tree.CompatHist2.
Open Scope string_scope.
Open Scope list_scope.
Open Scope N_scope.

(* old nodes untouched, allocation only grows *)
Definition ext' (w w' : world) : Prop := w_next w <= w_next w' /\ forall x, x < w_next w -> w_nodes w' x = w_nodes w x.
Lemma ext'_refl w : ext' w w. Proof. split; [lia|auto]. Qed.
Lemma ext'_trans a b c : ext' a b -> ext' b c -> ext' a c.
Proof. intros (N1 & H1) (N2 & H2). split; [lia|]. intros x Hx. rewrite H2 by lia. auto. Qed.
Lemma ext'_wset w0 w i x : ext' w0 w -> w_next w0 <= i -> ext' w0 (wset w i x).
Proof. intros (N1 & H1) Hi. split; [exact N1|]. intros y Hy. rewrite nodes_wset_neq by lia. auto. Qed.
Lemma ext'_walloc w nd : Bounded w -> ext' w (walloc w nd).
Proof. intros _. split; [cbn [walloc w_next]; lia|]. intros x Hx. apply nodes_walloc_old. lia. Qed.

Lemma Fr_wset_self w i x x' : w_nodes w i = Some x -> nrel x x' -> Fr w (wset w i x').
Proof. intros Hx R. apply Fr_wset; [apply Fr_refl|]. exists x. auto. Qed.

Section DeepCopy.
Variable T : tables.

Definition dc_items (dc : id -> N -> W id) (c : id) (ty : N * N) (version : N) : list citem -> W unit :=
  fix items (l : list citem) : W unit :=
    match l with
    | [] => wret tt
    | CData d :: rest =>
      (modify_node c (fun x => set_content x (n_content x ++ [CData d]));; items rest)%W
    | CElem s :: rest =>
      (do sn <- get_node s;
       do fs <- wl (find_sub_element T ty (n_name sn) version);
       match fs with
       | Some _ =>
         do r <- wtry (dc s version);
         match r with
         | Some cs =>
           modify_node cs (fun x => set_parent x (PElem c));;
           modify_node c (fun x => set_content x (n_content x ++ [CElem cs]));;
           items rest
         | None => items rest
         end
       | None => items rest
       end)%W
    end.

Lemma deep_copy_S f src version :
  deep_copy T (S f) src version =
  (do n <- get_node src;
   do c <- alloc (mkNode PNone (n_name n) (n_type n) [] [] [] (n_comment n));
   do attrs <- copy_attrs T (n_type n) version (n_attrs n) [];
   modify_node c (fun x => set_attrs x attrs);;
   dc_items (deep_copy T f) c (n_type n) version (n_content n);;
   wret c)%W.
Proof. reflexivity. Qed.

Definition DC (dc : id -> N -> W id) : Prop :=
  forall src ver w r w', dc src ver w = Val (r, w') -> Bounded w -> TypedU T w ->
    Bounded w' /\ TypedU T w' /\ ext' w w' /\
    match r with
    | OK c => exists n nc, w_nodes w src = Some n /\ w_nodes w' c = Some nc /\ n_name nc = n_name n /\ n_type nc = n_type n /\
                           w_next w <= c < w_next w'
    | ER _ => True
    end.

(* the state of the copy c of source node n while its children are appended *)
Definition II (w0 : world) (c : id) (nm : N) (ty : N * N) (wk : world) : Prop :=
  Bounded wk /\ TypedU T wk /\ ext' w0 wk /\ w_next w0 <= c < w_next wk /\
  exists nc, w_nodes wk c = Some nc /\ n_name nc = nm /\ n_type nc = ty.

Lemma items_spec dc (Hdc : DC dc) w0 src n c ver :
  Bounded w0 -> TypedU T w0 -> w_nodes w0 src = Some n ->
  forall l wk r w', (forall s, In (CElem s) l -> In (CElem s) (n_content n)) ->
    II w0 c (n_name n) (n_type n) wk ->
    dc_items dc c (n_type n) ver l wk = Val (r, w') -> II w0 c (n_name n) (n_type n) w'.
Proof.
  intros B0 T0 Hsrc. induction l as [|[s|d] l IH]; intros wk r w' Hl I H; cbn [dc_items] in H.
  - winv H. exact I.
  - assert (Hl' : forall s0, In (CElem s0) l -> In (CElem s0) (n_content n)) by (intros s0 Hs0; apply Hl; right; exact Hs0).
    destruct I as (Bk & Tk & Ek & Hc & nc & Hnc & Nnc & Tnc).
    wstepn H sn Es; winv Es. wstepn H fs Ef; winv Ef.
    destruct v as [x|]; [|apply (IH _ _ _ Hl' (conj Bk (conj Tk (conj Ek (conj Hc (ex_intro _ nc (conj Hnc (conj Nnc Tnc))))))) H)].
    (* s is an old node *)
    assert (Hs0 : s < w_next w0) by (destruct B0 as (_ & B2); exact (B2 _ _ _ Hsrc (Hl s (or_introl eq_refl)))).
    assert (Hsn0 : w_nodes w0 s = Some n0) by (rewrite <- (proj2 Ek) by exact Hs0; exact Hn).
    wstepn H ro Ed. apply wtry_inv in Ed as (r0 & Ed & [= ->]).
    destruct (Hdc _ _ _ _ _ Ed Bk Tk) as (B1 & T1 & E1 & Hr0).
    assert (Hc1 : w_nodes w c = Some nc) by (rewrite (proj2 E1) by lia; exact Hnc).
    destruct r0 as [cs|e].
    + destruct Hr0 as (sn' & ncs & Hsn' & Hncs & Nncs & Tncs & Hcs). rewrite Hn in Hsn'. injection Hsn' as <-.
      wstepn H u1 Em1. apply modify_node_wset in Em1 as (ncs' & Hncs' & _ & ->). rewrite Hncs in Hncs'. injection Hncs' as <-.
      set (w2 := wset w cs (set_parent ncs (PElem c))) in *.
      assert (F2 : Fr w w2) by (apply (Fr_wset_self w cs ncs); [exact Hncs|repeat split; auto]).
      pose proof (Fr_bounded w w2 F2 B1) as B2. pose proof (Fr_typed_u T w w2 F2 T1) as T2.
      assert (Hcs_ne : cs <> c) by lia.
      assert (Hc2 : w_nodes w2 c = Some nc) by (unfold w2; rewrite nodes_wset_neq by lia; exact Hc1).
      assert (Hcs2 : w_nodes w2 cs = Some (set_parent ncs (PElem c))) by (unfold w2; apply nodes_wset_eq).
      wstepn H u2 Em2. apply modify_node_wset in Em2 as (nc' & Hnc' & _ & ->). rewrite Hc2 in Hnc'. injection Hnc' as <-.
      eapply (IH _ _ _ Hl'); [|exact H].
      assert (Hin3 : forall x0, In (CElem x0) (n_content nc ++ [CElem cs]) -> x0 = cs \/ In (CElem x0) (n_content nc)).
      { intros x0 Hx0. apply in_app_or in Hx0 as [Hx0|[Hx0|[]]]; [right; exact Hx0|injection Hx0 as ->; left; reflexivity]. }
      split; [|split; [|split; [|split]]].
      * apply (bounded_add_edge w2 c nc cs); [exact B2|exact Hc2|unfold w2; cbn [wset w_next]; lia|exact Hin3].
      * apply (typed_add_edge T w2 c nc cs); [exact T2|exact Hc2| |exact Hin3].
        intros ncs2 Hncs2. rewrite Hcs2 in Hncs2. injection Hncs2 as <-.
        cbn [set_parent n_name n_type]. rewrite Tnc, Nncs, Tncs.
        exact (T0 src n s n0 Hsrc (Hl s (or_introl eq_refl)) Hsn0).
      * apply ext'_wset; [|lia]. apply ext'_wset; [|lia]. eapply ext'_trans; eauto.
      * unfold w2. cbn [wset w_next]. destruct E1 as (N1 & _). lia.
      * exists (set_content nc (n_content nc ++ [CElem cs])). split; [apply nodes_wset_eq|]. cbn [set_content n_name n_type]. auto.
    + eapply (IH _ _ _ Hl'); [|exact H].
      split; [exact B1|]. split; [exact T1|]. split; [eapply ext'_trans; eauto|]. split; [destruct E1 as (N1 & _); lia|].
      exists nc. auto.
  - assert (Hl' : forall s0, In (CElem s0) l -> In (CElem s0) (n_content n)) by (intros s0 Hs0; apply Hl; right; exact Hs0).
    destruct I as (Bk & Tk & Ek & Hc & nc & Hnc & Nnc & Tnc).
    wstepn H u Em. apply modify_node_wset in Em as (nc' & Hnc' & _ & ->). rewrite Hnc in Hnc'. injection Hnc' as <-.
    eapply (IH _ _ _ Hl'); [|exact H].
    set (w2 := wset wk c _).
    assert (F2 : Fr wk w2).
    { apply (Fr_wset_self wk c nc); [exact Hnc|]. split; [reflexivity|]. split; [reflexivity|].
      intros x Hx. cbn [set_content n_content] in Hx. apply in_app_or in Hx as [Hx|[Hx|[]]]; [exact Hx|discriminate]. }
    split; [exact (Fr_bounded wk w2 F2 Bk)|]. split; [exact (Fr_typed_u T wk w2 F2 Tk)|].
    split; [apply ext'_wset; [exact Ek|lia]|]. split; [cbn [w2 wset w_next]; exact Hc|].
    eexists. split; [apply nodes_wset_eq|]. cbn [set_content n_name n_type]. auto.
Qed.

Theorem deep_copy_dc : forall fuel, DC (deep_copy T fuel).
Proof.
  induction fuel as [|f IHf]; intros src ver w r w' H B HT; [discriminate|].
  rewrite deep_copy_S in H.
  wstepn H nn En. apply get_node_inv in En as (n & Hn & En & _). assert (nn = n) by congruence. subst nn. clear En.
  wstepn H c Ea. apply alloc_walloc in Ea as ([= ->] & ->).
  set (nd := mkNode _ _ _ _ _ _ _) in *. set (w1 := walloc w nd) in *.
  pose proof (bounded_alloc w nd B eq_refl) as B1. pose proof (typed_alloc T w nd B HT eq_refl) as T1.
  pose proof (ext'_walloc w nd B) as E1. fold w1 in B1, T1, E1.
  assert (PE : forall e, Bounded w1 /\ TypedU T w1 /\ ext' w w1 /\ match @ER id e with OK _ => False | ER _ => True end) by (intros; auto).
  wstepn H attrs Ec. 2:{ destruct (PE e) as (X1 & X2 & X3 & _). auto. }
  wstepn H u Em. apply modify_node_wset in Em as (nd' & Hnd' & _ & ->).
  assert (Hnd1 : w_nodes w1 (w_next w) = Some nd) by (unfold w1; apply nodes_walloc_new). rewrite Hnd1 in Hnd'. injection Hnd' as <-.
  set (w2 := wset w1 (w_next w) (set_attrs nd attrs)) in *.
  assert (F2 : Fr w1 w2) by (apply (Fr_wset_self w1 (w_next w) nd); [exact Hnd1|repeat split; auto]).
  assert (I2 : II w (w_next w) (n_name n) (n_type n) w2).
  { split; [exact (Fr_bounded w1 w2 F2 B1)|]. split; [exact (Fr_typed_u T w1 w2 F2 T1)|].
    split; [apply ext'_wset; [exact E1|lia]|]. split; [unfold w2, w1; cbn [wset walloc w_next]; lia|].
    eexists. split; [unfold w2; apply nodes_wset_eq|]. cbn [set_attrs nd n_name n_type]. auto. }
  wstepn H u2 Ei.
  - winv H. destruct (items_spec _ IHf w src n (w_next w) ver B HT Hn _ _ _ _ (fun s Hs => Hs) I2 Ei) as (B3 & T3 & E3 & Hc3 & nc & Hnc & Nnc & Tnc).
    split; [exact B3|]. split; [exact T3|]. split; [exact E3|]. exists n, nc. auto.
  - destruct (items_spec _ IHf w src n (w_next w) ver B HT Hn _ _ _ _ (fun s Hs => Hs) I2 Ei) as (B3 & T3 & E3 & _). auto.
Qed.

End DeepCopy.
