(* Tree/FilesProofsOp2b.v — C10 proofs: FilesOwned (and Core, C03) over the WHOLE extended alphabet op2, OpLoad and
   OpDuplicate included, outside C03's Known_load (a merge that uses an incoming element twice; a load rejected with
   InvalidFileMerge, whose rollback is not covered).  No other exclusion. *)
From Coq Require Import PeanoNat Arith Lia.
From AV Require Import Base.Bytes Base.Outcome Hash.HashModel Tree.Heap Tree.Ops Tree.Script Tree.Serialize
  Tree.Inv Tree.InvProofsBase Tree.InvProofsCore Tree.InvProofsPrim Tree.InvProofsData Tree.InvProofs
  Tree.Files Tree.FilesProofsBase Tree.FilesProofsFrame Tree.FilesProofsOps Tree.FilesProofsAdd Tree.FilesProofsHist
  Tree.FilesProofsTop Tree.FilesProofsOwned Tree.FilesProofsOp2 Tree.FilesProofsLoad3.
From AV Require Import Tree.Sort Tree.SortProofsHeap Tree.SortProofsOrder Tree.SortProofsMain Tree.Copy Tree.Compat Tree.Load Tree.Script2
  Tree.InvLoad Tree.InvProofsOp2 Tree.InvProofsOp2Full Tree.LoadProofs.
From AV Require Xml.Parser.
Open Scope string_scope.
Open Scope list_scope.
Open Scope N_scope.

Section Load.
Variable T : tables.
Variables LATEST defref : N.

(* a load_parsed that is rejected, but not by the merge: nothing the invariant reads has changed *)
Lemma load_parsed_rejected m filename root st w e w' :
  load_parsed T LATEST defref m filename root st w = Val (ER e, w') -> e <> InvalidFileMerge ->
  w_files w' = w_files w /\ w_models w' = w_models w.
Proof.
  intros H Hne. unfold load_parsed in H.
  apply wbind_inv in H as [(w0 & w1 & H0 & H) | (e0 & H0 & _)]; [|apply wget_inv in H0 as ([=] & _)].
  apply wget_inv in H0 as ([= ->] & ->).
  apply wbind_inv in H as [(t & w1 & Hi & H) | (e0 & Hi & _)]; [|exfalso; eapply (errs_install (fun _ => False)); eauto].
  destruct (above_install (w_next w) _ _ _ _ _ (N.le_refl _) Hi) as (_ & _ & F1 & M1).
  apply wbind_inv in H as [(w1' & w2 & H0 & H) | (e0 & H0 & _)]; [|apply wget_inv in H0 as ([=] & _)].
  apply wget_inv in H0 as ([= ->] & ->).
  apply wbind_inv in H as [(x0 & w2 & H0 & H) | (e0 & H0 & _)]; [|apply get_model_inv in H0 as (? & _ & [=] & _)].
  apply get_model_inv in H0 as (x0' & Hx0 & [= <-] & ->).
  apply wbind_inv in H as [(ov & w2 & H0 & H) | (e0 & H0 & _)]; [|apply wl_inv in H0 as (? & _ & [=] & _)].
  apply wl_inv in H0 as (ov' & _ & [= <-] & ->).
  destruct ov.
  { apply wbind_inv in H as [(u & w2 & Hk & H) | (e0 & Hk & _)]; [|exfalso; eapply (errs_kill_unreachable (fun _ => False)); eauto].
    apply wfail_inv in H as (_ & ->). destruct (mfp_kill _ _ _ _ _ Hk) as (F & _).
    unfold kill_unreachable in Hk. injection Hk as _ <-. cbn. split; congruence. }
  exfalso.
  apply wbind_inv in H as [(u & w2 & H0 & H) | (e0 & H0 & _)]; [|discriminate H0]. unfold wput in H0. injection H0 as _ <-.
  apply wbind_inv in H as [(x & w3 & H0 & H) | (e0 & H0 & _)]; [|apply get_model_inv in H0 as (? & _ & [=] & _)].
  apply get_model_inv in H0 as (x' & Hx & [= <-] & ->).
  apply wbind_inv in H as [(r & w3 & Hc & H) | (e0 & Hc & _)]; [|apply wcatch_inv in Hc as (? & _ & [=])].
  apply wcatch_inv in Hc as (r0 & Hc & [= ->]).
  apply wbind_inv in H as [(x3 & w4 & H0 & H) | (e0 & H0 & _)]; [|apply get_model_inv in H0 as (? & _ & [=] & _)].
  apply get_model_inv in H0 as (x3' & Hx3 & [= <-] & ->).
  apply wbind_inv in H as [(w3' & w4 & H0 & H) | (e0 & H0 & _)]; [|apply wget_inv in H0 as ([=] & _)].
  apply wget_inv in H0 as ([= ->] & ->).
  apply wbind_inv in H as [(keep & w4 & H0 & H) | (e0 & H0 & _)]; [|eapply (errs_dfs_ids (fun _ => False)); eauto].
  apply wbind_inv in H as [(u2 & w5 & Hk & H) | (e0 & Hk & _)]; [|eapply (errs_kill_unreachable (fun _ => False)); eauto].
  destruct r0 as [u3|e1]; [apply wret_inv in H as ([=] & _)|].
  apply wbind_inv in H as [(u4 & w6 & H9 & H) | (e' & H9 & _)]; [|eapply (errs_drop_file (fun _ => False)); eauto].
  apply wfail_inv in H as ([= <-] & _). apply Hne.
  (* the error comes out of the stage: it is a merge error *)
  apply wbind_inv in Hc as [(us & wa & Hs & Hc) | (e2 & Hs & [= <-])].
  - exfalso. apply wbind_inv in Hc as [(ui & wb & Hfi & Hc) | (e2 & Hfi & _)]; [|eapply (errs_fill_identifiables (fun _ => False)); eauto].
    apply wbind_inv in Hc as [(ur & wc & Hfr & Hc) | (e2 & Hfr & _)]; [|eapply (errs_fill_references (fun _ => False)); eauto].
    eapply (errs_modify_model (fun _ => False)); eauto.
  - destruct (is_empty (m_files x)).
    + exfalso. apply wbind_inv in Hs as [(a & w7 & H1 & Hs) | (e2 & H1 & _)]; [|eapply (errs_modify_node (fun _ => False)); eauto].
      apply wbind_inv in Hs as [(a2 & w8 & H2 & Hs) | (e2 & H2 & _)]; [|eapply (errs_modify_node (fun _ => False)); eauto].
      eapply (errs_modify_model (fun _ => False)); eauto.
    + apply wbind_inv in Hs as [(mr & w7 & Hm & Hs) | (e2 & Hm & _)]; [|apply wcatch_inv in Hm as (? & _ & [=])].
      apply wcatch_inv in Hm as (mr0 & Hm & [= ->]). destruct mr0 as [um|em]; [apply wret_inv in Hs as ([=] & _)|].
      apply wbind_inv in Hs as [(x1 & w8 & H1 & Hs) | (e2 & H1 & _)]; [|apply get_model_inv in H1 as (? & _ & [=] & _)].
      apply wbind_inv in Hs as [(o1 & w9 & H2 & Hs) | (e2 & H2 & _)]; [|apply wtry_inv in H2 as (? & _ & [=])].
      apply wfail_inv in Hs as ([= <-] & _).
      apply (errs_merge_file_data T LATEST defref _ _ _ _ _ _ Hm).
Qed.

End Load.

Section Op2b.
Variable T : tables.
Variable tab_el tab_at tab_en : nametab.
Variable check_fn : N -> list N -> res bool.
Variable float_parse : list N -> option N.
Variable float_fmt : N -> list N.
Variable LATEST name_index name_definition_ref attr_schema_location : N.
Variable root_attrs : list (N * cdata).

Notation run2 := (run_op2 T tab_el tab_at tab_en check_fn float_parse float_fmt LATEST name_index name_definition_ref
                          attr_schema_location root_attrs).
Notation KL := (Known_load T tab_el tab_at tab_en check_fn float_parse float_fmt LATEST name_index name_definition_ref
                           attr_schema_location root_attrs).

Lemma load_buffer_owned m buffer filename strict w r w' : FilesOwned w ->
  m_load_buffer T tab_el tab_at tab_en check_fn float_parse LATEST name_definition_ref m buffer filename strict w = Val (r, w') ->
  r <> ER InvalidFileMerge -> FilesOwned w'.
Proof.
  intros O H Hne. unfold m_load_buffer in H.
  apply wbind_inv in H as [(x & w1 & H0 & H) | (e0 & H0 & _)]; [|apply get_model_inv in H0 as (? & _ & [=] & _)].
  apply get_model_inv in H0 as (x' & Hx & [= <-] & ->).
  apply wbind_inv in H as [(w0 & w1 & H0 & H) | (e0 & H0 & _)]; [|apply wget_inv in H0 as ([=] & _)].
  apply wget_inv in H0 as ([= ->] & ->).
  destruct (existsb _ (m_files x)); [apply wfail_inv in H as (_ & ->); exact O|].
  destruct (Parser.load strict T tab_el tab_at tab_en check_fn float_parse buffer) as [[root st|pe st]| |]; try discriminate H.
  2:{ apply wfail_inv in H as (_ & ->). exact O. }
  apply wbind_inv in H as [(f & w1 & H1 & H) | (e0 & H1 & ->)].
  - apply wret_inv in H as (_ & ->). eapply load_parsed_owned; eauto.
  - destruct (load_parsed_rejected T LATEST name_definition_ref m filename root st w e0 w' H1) as (F & M).
    { intros ->. apply Hne. reflexivity. }
    eapply owned_same; eauto.
Qed.

Lemma duplicate_owned m w r w' : Core w -> FilesOwned w ->
  m_duplicate T tab_el tab_en check_fn LATEST root_attrs m w = Val (r, w') -> FilesOwned w'.
Proof.
  intros C O H.
  destruct (CopyProofsDup.duplicate_spec T tab_el tab_en check_fn LATEST root_attrs m w r w' (CopyProofsBridge.Core_Closed w C)) as (_ & _ & _ & _ & Hr); auto.
  { intros x Hx. rewrite nth_opt_error in Hx.
    assert (nth_error (roots w) (N.to_nat m) = Some (m_root x)) as Hk by (unfold roots; rewrite nth_error_map, Hx; reflexivity).
    destruct (c_roots _ C _ _ Hk) as (rn & Hrn & _). eauto. }
  unfold m_duplicate in H. destruct (m_duplicate_body T LATEST root_attrs m w) as [[[c|e] w1]|s|] eqn:E; try discriminate H.
  - injection H as _ <-. destruct (fo_duplicate_body T tab_el tab_en check_fn LATEST root_attrs m _ _ _ E C O) as (_ & O1). exact O1.
  - destruct r as [c|e']; [discriminate H|]. destruct Hr as (F & M). eapply owned_same; eauto.
Qed.

Theorem owned_step2_all o w r w' : Core w -> FilesOwned w -> KL w o = false ->
  run2 o w = Val (r, w') -> Core w' /\ FilesOwned w'.
Proof.
  intros C O HK H.
  assert (Core w') as C'.
  { eapply (Core_step2 T tab_el tab_at tab_en check_fn float_parse float_fmt LATEST name_index name_definition_ref
              attr_schema_location root_attrs); eauto. }
  split; [exact C'|].
  destruct o; cbn [run_op2] in H.
  - apply wmap_inv in H as (r0 & H & _). apply (owned_step_all T tab_el tab_en check_fn LATEST root_attrs o w r0 w' C O H).
  - apply wmap_inv in H as (r0 & H & _). unfold e_sort in H.
    apply (e_sort_frame T tab_el tab_at tab_en name_index name_definition_ref isort_poly StableSort_isort) in H as (_ & (_ & F & M & _)).
    eapply owned_same; eauto.
  - apply wmap_inv in H as (r0 & H & _). unfold m_sort in H.
    apply (m_sort_frame T tab_el tab_at tab_en name_index name_definition_ref isort_poly StableSort_isort) in H as (_ & (_ & F & M & _)).
    eapply owned_same; eauto.
  - apply wmap_inv in H as (r0 & H & _). apply (duplicate_owned m w r0 w' C O H).
  - (* load *)
    unfold Known_load in HK. apply Bool.orb_false_iff in HK as (_ & Hrej). unfold Known_load_rejected in Hrej.
    cbn [run_op2] in Hrej. rewrite H in Hrej.
    apply wbind_inv in H as [([f ws] & w1 & H1 & H2) | (e & H1 & ->)].
    + apply wret_inv in H2 as (_ & Ew). subst. apply (load_buffer_owned _ _ _ _ _ _ _ O H1). intros Hx; discriminate Hx.
    + apply (load_buffer_owned _ _ _ _ _ _ _ O H1). intros Hx. injection Hx as ->. discriminate Hrej.
  - (* set_version *)
    apply wmap_inv in H as (r0 & H & _). unfold f_set_version in H.
    apply wbind_inv in H as [([errs mask] & w1 & H1 & H) | (e0 & H1 & _)].
    2:{ unfold f_check_version_compatibility in H1. destruct (f_check T w f v); discriminate. }
    unfold f_check_version_compatibility in H1. destruct (f_check T w f v); try discriminate. injection H1 as _ <-.
    destruct (is_empty errs); [|apply wfail_inv in H as (_ & ->); auto].
    apply wbind_inv in H as [(x & w1 & H1 & H) | (e0 & H1 & _)]; [|apply get_file_inv in H1 as (? & _ & [=] & _)].
    apply get_file_inv in H1 as (x' & Hx & [= <-] & ->). unfold set_file in H. injection H as _ <-.
    intros m0 x0 f0 Hx0 Hf0. unfold model_b in Hx0. cbn in Hx0 |- *.
    destruct (O m0 x0 f0 Hx0 Hf0) as (fl & Hfl & Hm).
    rewrite nth_opt_error, nth_error_list_set. rewrite nth_opt_error in Hfl, Hx.
    destruct (Nat.eqb (N.to_nat f0) (N.to_nat f)) eqn:E.
    + apply Nat.eqb_eq in E. rewrite E in *. rewrite Hfl. eexists. split; [reflexivity|]. cbn. congruence.
    + exists fl. auto.
  - apply wbind_inv in H as [(a & w1 & H1 & H2) | (e & H1 & _)];
      unfold f_check_version_compatibility in H1; destruct (f_check T w f v); try discriminate.
    injection H1 as _ <-. destruct a. apply wret_inv in H2 as (_ & ->). auto.
  - (* serialize file *)
    apply wmap_inv in H as (r0 & H & _). unfold f_serialize in H.
    apply wbind_inv in H as [(fl & w1 & H1 & H) | (e0 & H1 & _)]; [|apply get_file_inv in H1 as (? & _ & [=] & _)].
    apply get_file_inv in H1 as (fl' & Hfl & [= <-] & ->).
    apply wbind_inv in H as [(x & w1 & H1 & H) | (e0 & H1 & _)]; [|apply get_model_inv in H1 as (? & _ & [=] & _)].
    apply get_model_inv in H1 as (x' & Hx & [= <-] & ->).
    apply wbind_inv in H as [([loc files] & w1 & H1 & H) | (e0 & H1 & _)].
    2:{ assert (w' = w) as -> by (apply (ro_file_membership (m_root x) _ _ _ H1)). auto. }
    assert (w1 = w) as -> by (apply (ro_file_membership (m_root x) _ _ _ H1)).
    destruct (negb (set_mem f files)); [apply wfail_inv in H as (_ & ->); auto|].
    apply wbind_inv in H as [(fname & w1 & H2 & H) | (e0 & H2 & _)]; [|apply wlift_inv in H2 as (? & _ & [=] & _)].
    apply wlift_inv in H2 as (a & _ & _ & ->).
    apply wbind_inv in H as [(u & w1 & H2 & H) | (e0 & H2 & _)]; [|apply wtry_inv in H2 as (? & _ & [=])].
    apply wtry_inv in H2 as (r1 & H2 & _).
    assert (w' = w1) as -> by (destruct (ser_heap _ _ _ _ _ _ _ _ _ _ _) in H; try discriminate; injection H as _ <-; reflexivity).
    destruct (ff_raw_set_attribute T check_fn _ _ _ _ _ _ _ (core_fresh _ C) H2) as (F & _).
    eapply owned_posrel; eauto. apply frame_pos; auto.
  - apply wmap_inv in H as (r0 & H & _). unfold e_serialize in H.
    destruct (ser_heap _ _ _ _ _ _ _ _ _ _ _) in H; try discriminate. injection H as _ <-. auto.
Qed.

(* histories over the whole alphabet *)
Fixpoint steps_clean2 (l : list op2) (w : world) : bool :=
  match l with
  | [] => true
  | o :: rest => negb (KL w o) && match run2 o w with Val (_, w') => steps_clean2 rest w' | _ => true end
  end.

Theorem owned_histories2_all l : forall w w', Core w -> FilesOwned w -> steps_clean2 l w = true ->
  run_ops2 T tab_el tab_at tab_en check_fn float_parse float_fmt LATEST name_index name_definition_ref
           attr_schema_location root_attrs l w = Val w' -> Core w' /\ FilesOwned w'.
Proof.
  induction l as [|o rest IH]; intros w w' C O Hok H; cbn [run_ops2 steps_clean2] in *.
  - injection H as <-. auto.
  - apply Bool.andb_true_iff in Hok as (Hs & Hok). apply Bool.negb_true_iff in Hs.
    destruct (run2 o w) as [[r w1]| |] eqn:Er; try discriminate.
    destruct (owned_step2_all o w r w1 C O Hs Er) as (C1 & O1). apply (IH w1 w'); auto.
Qed.

End Op2b.
