(* Tree/CompatProofs5.v — under the table fact PairOK and the world invariant Typed (Tree/CompatTyped.v) none of the classes
   K_recalc / K_mixup / K_skip occurs, for EVERY table set; hence the exactness theorem without the K hypotheses.
   (1) find_sub_listed : what find_sub returns is an entry of the listing list_sub (same name, that type);
   (2) pair_ok_reflect : the boolean checker on every datatype gives PairOK;
   (3) vis_rel         : along strict validation's walk the stored datatype and the v-type's datatype are rel_ok;
   (4) typed_no_known  : NoKnown;  f_check_exact_typed. *)
From AV Require Import Base.Bytes Base.Outcome Hash.HashModel Spec.SpecOps Spec.SpecProofs Tree.Heap Tree.Ops Tree.Compat Tree.CompatSpec
  Tree.CompatProofs1 Tree.CompatProofs2 Tree.CompatTyped.
From Coq Require Import Lia.
Open Scope list_scope.
Open Scope N_scope.

Section Listed.
Variable T : tables.

Definition lres := res (list sub_item).

Fixpoint list_loop (rec : N -> lres) (start : N) (d : dtype) (k : nat) (pos : N) : lres :=
  match k with
  | O => Val []
  | S k' =>
    (let* '(kind, idx) := subel T (start + pos) in
     if kind =? 0 then
       let* e := elem T idx in
       let* mask := vinfo T (dt_sub_ver d + pos) in
       let* et := et_new T idx in
       let* nm := short_name_version_mask T (snd et) in
       let* rest := list_loop rec start d k' (pos + 1) in
       Val ((ed_name e, et, mask, match nm with Some m => m | None => 0 end) :: rest)
     else
       let* inner := rec idx in
       let* rest := list_loop rec start d k' (pos + 1) in
       Val (inner ++ rest)%list)%res
  end.

Lemma list_sub_unfold fuel ty :
  list_sub T (S fuel) ty =
  (let* d := dt T ty in
   list_loop (fun idx => list_sub T fuel idx) (dt_sub_start d) d (N.to_nat (dt_sub_end d - dt_sub_start d)) 0)%res.
Proof.
  cbn [list_sub]. destruct (dt T ty) as [d| |]; cbn [bind]; try reflexivity.
  remember (N.to_nat (dt_sub_end d - dt_sub_start d)) as k eqn:Hk. clear Hk.
  match goal with |- ?F k 0 = list_loop ?r ?s ?dd k 0 =>
    cut (forall pos, F k pos = list_loop r s dd k pos); [intros HH; apply HH|] end.
  induction k as [|k IH]; intros pos; [reflexivity|].
  cbn [list_loop]. destruct (subel T (dt_sub_start d + pos)) as [[kind idx]| |]; cbn [bind]; try reflexivity.
  destruct (kind =? 0).
  - destruct (elem T idx); cbn [bind]; try reflexivity.
    destruct (vinfo T (dt_sub_ver d + pos)); cbn [bind]; try reflexivity.
    destruct (et_new T idx); cbn [bind]; try reflexivity.
    destruct (short_name_version_mask T (snd a1)); cbn [bind]; try reflexivity.
    rewrite IH. reflexivity.
  - destruct (list_sub T fuel idx); cbn [bind]; try reflexivity. rewrite IH. reflexivity.
Qed.

Definition listed_at (recf : N -> fres) (recl : N -> lres) (name : N) : Prop :=
  forall idx et ixs items, recf idx = Val (Some (et, ixs)) -> recl idx = Val items ->
    exists it, In it items /\ it_name it = name /\ it_type it = et.

Lemma loops_listed recf recl start d name ver :
  listed_at recf recl name ->
  forall k pos et ixs items,
    find_loop T recf start d name ver k pos = Val (Some (et, ixs)) ->
    list_loop recl start d k pos = Val items ->
    exists it, In it items /\ it_name it = name /\ it_type it = et.
Proof.
  intros Hrec. induction k as [|k IH]; intros pos et ixs items HF HL; [discriminate|].
  cbn [find_loop] in HF. cbn [list_loop] in HL.
  destruct (subel T (start + pos)) as [[kind idx]| |]; cbn [bind] in HF, HL; try discriminate.
  destruct (kind =? 0).
  - destruct (elem T idx) as [e| |]; cbn [bind] in HF, HL; try discriminate.
    destruct (vinfo T (dt_sub_ver d + pos)) as [mask| |]; cbn [bind] in HF, HL; try discriminate.
    destruct (et_new T idx) as [et0| |]; cbn [bind] in HL; try discriminate.
    destruct (short_name_version_mask T (snd et0)) as [nm| |]; cbn [bind] in HL; try discriminate.
    destruct (list_loop recl start d k (pos + 1)) as [rest| |] eqn:ER; cbn [bind] in HL; try discriminate.
    injection HL as <-.
    destruct ((ed_name e =? name) && negb (N.land ver mask =? 0)) eqn:Ec.
    + cbn [bind] in HF. injection HF as <- <-.
      apply andb_true_iff in Ec as [En _]. apply N.eqb_eq in En.
      eexists. split; [left; reflexivity|]. split; [exact En|reflexivity].
    + destruct (IH (pos + 1) et ixs rest HF ER) as (it & Hin & Hn & Ht).
      exists it. split; [right; exact Hin|]. split; assumption.
  - destruct (recl idx) as [inner| |] eqn:EL; cbn [bind] in HL; try discriminate.
    destruct (list_loop recl start d k (pos + 1)) as [rest| |] eqn:ER; cbn [bind] in HL; try discriminate.
    injection HL as <-.
    destruct (recf idx) as [[[et' ixs']|]| |] eqn:EF; try discriminate.
    + injection HF as <- <-.
      destruct (Hrec _ _ _ _ EF EL) as (it & Hin & Hn & Ht).
      exists it. split; [apply in_or_app; left; exact Hin|]. split; assumption.
    + destruct (IH (pos + 1) et ixs rest HF ER) as (it & Hin & Hn & Ht).
      exists it. split; [apply in_or_app; right; exact Hin|]. split; assumption.
Qed.

Lemma find_sub_listed fuel : forall ty name ver et ixs items,
  find_sub T fuel ty name ver = Val (Some (et, ixs)) -> list_sub T fuel ty = Val items ->
  exists it, In it items /\ it_name it = name /\ it_type it = et.
Proof.
  induction fuel as [|fuel IH]; intros ty name ver et ixs items HF HL; [discriminate|].
  rewrite find_sub_unfold in HF. rewrite list_sub_unfold in HL.
  unfold sub_slice in HF.
  destruct (dt T ty) as [d| |]; cbn [bind] in HF, HL; try discriminate.
  destruct (slice_chk _ _ _ _); cbn [bind] in HF; try discriminate.
  apply (loops_listed (fun idx => find_sub T fuel idx name ver) (fun idx => list_sub T fuel idx) (dt_sub_start d) d name ver
           (fun idx et' ixs' items' H1 H2 => IH idx name ver et' ixs' items' H1 H2) _ _ _ _ _ HF HL).
Qed.

(* ---- the checker gives PairOK ---- *)
Theorem pair_ok_reflect :
  (forall ty d, T_datatypes T ty = Some d -> ty < n_datatypes T) ->
  (forall ty, ty < n_datatypes T -> pair_ok_b T ty = true) ->
  PairOK T.
Proof.
  intros Hb Hc ty name u v et ixs et' ixs' H1 H2.
  assert (Hd : exists d, T_datatypes T ty = Some d).
  { unfold FUEL in H1. rewrite find_sub_unfold in H1. unfold sub_slice, dt, unwrap in H1.
    destruct (T_datatypes T ty) as [d|]; [eauto|discriminate]. }
  destruct Hd as [d Hd]. specialize (Hc ty (Hb _ _ Hd)). unfold pair_ok_b in Hc.
  destruct (list_sub T FUEL ty) as [items| |] eqn:EL; try discriminate.
  destruct (find_sub_listed _ _ _ _ _ _ _ H1 EL) as (a & Ha & Na & Ta).
  destruct (find_sub_listed _ _ _ _ _ _ _ H2 EL) as (b & Hb' & Nb & Tb).
  rewrite forallb_forall in Hc. specialize (Hc a Ha). rewrite forallb_forall in Hc. specialize (Hc b Hb').
  rewrite Na, Nb, N.eqb_refl in Hc. cbn [negb orb] in Hc. rewrite Ta, Tb in Hc. exact Hc.
Qed.

(* ---- leaves list nothing ---- *)
Lemma leaf_finds_nothing t name ver r : leafb T (snd t) = true -> find_sub_element T t name ver = Val r -> r = None.
Proof.
  unfold leafb, find_sub_element, FUEL. intros HL H. rewrite find_sub_unfold in H.
  unfold sub_slice, dt, unwrap in H. destruct (T_datatypes T (snd t)) as [d|]; [|discriminate].
  cbn [bind] in H. destruct (slice_chk _ _ _ _); cbn [bind] in H; try discriminate.
  apply N.eqb_eq in HL. rewrite HL, N.sub_diag in H. cbn in H. injection H as <-. reflexivity.
Qed.

(* the lookups read the datatype only *)
Lemma find_sub_element_snd t t' name ver : snd t = snd t' -> find_sub_element T t name ver = find_sub_element T t' name ver.
Proof. unfold find_sub_element. intros ->. reflexivity. Qed.
Lemma mask_snd t t' ixs : snd t = snd t' -> get_sub_element_version_mask T t ixs = get_sub_element_version_mask T t' ixs.
Proof. unfold get_sub_element_version_mask, get_sub_element_spec. intros ->. reflexivity. Qed.

(* a lookup that succeeds for a version set within u32 also succeeds for all versions *)
Lemma find_sub_element_max t name u et ixs :
  N.land u U32MAX = u -> find_sub_element T t name u = Val (Some (et, ixs)) -> find_sub_element T t name U32MAX <> Val None.
Proof.
  intros Hu H HN.
  destruct (find_sub_element_mask T _ _ _ _ _ H) as (m & Hm & Hnz).
  pose proof (find_sub_element_fallback T _ _ _ _ _ _ _ HN H Hm) as Hz.
  apply Hnz. rewrite <- Hu, <- N.land_assoc, Hz. apply N.land_0_r.
Qed.

End Listed.

(* ------------------------------------------------------------------ no known class in a typed world *)
Section TypedWorld.
Variable T : tables.
Variable w : world.
Variable f v : N.
Hypothesis HP : PairOK T.
Hypothesis HT : Typed T w.
Hypothesis HR : RootOk w f.

Lemma rel_ok_refl a : rel_ok T a a = true.
Proof. unfold rel_ok. rewrite N.eqb_refl. reflexivity. Qed.

(* a node that lists a sub element is not a leaf, so rel_ok means: same datatype *)
Lemma rel_ok_nonleaf (s t : N * N) name ver r :
  rel_ok T (snd s) (snd t) = true -> find_sub_element T t name ver = Val (Some r) -> snd s = snd t.
Proof.
  unfold rel_ok. intros HRl HF. apply orb_true_iff in HRl as [E|E]; [apply N.eqb_eq; exact E|].
  apply andb_true_iff in E as [_ E]. pose proof (leaf_finds_nothing T _ _ _ _ E HF). discriminate.
Qed.
Lemma rel_ok_nonleaf_l (s t : N * N) name ver r :
  rel_ok T (snd s) (snd t) = true -> find_sub_element T s name ver = Val (Some r) -> snd s = snd t.
Proof.
  unfold rel_ok. intros HRl HF. apply orb_true_iff in HRl as [E|E]; [apply N.eqb_eq; exact E|].
  apply andb_true_iff in E as [E _]. pose proof (leaf_finds_nothing T _ _ _ _ E HF). discriminate.
Qed.

Lemma vis_rel ty i : Vis T w f v ty i -> forall n, w_nodes w i = Some n -> rel_ok T (snd (n_type n)) (snd ty) = true.
Proof.
  intros H. induction H as [r ty (x & m & n0 & Hx & Hm & -> & Hn0 & ->)|ty i n c cn tc ixs HV IH Hn Hin Hcn Hf Hfind].
  - intros n Hn. rewrite Hn0 in Hn. injection Hn as <-. apply rel_ok_refl.
  - intros cn' Hcn'. rewrite Hcn in Hcn'. injection Hcn' as <-.
    pose proof (IH n Hn) as Rp.
    pose proof (rel_ok_nonleaf _ _ _ _ _ Rp Hfind) as Es.
    destruct (HT i n c cn Hn Hin Hcn) as (_ & u & et & ixs' & _ & Hfu & Hsnd).
    rewrite (find_sub_element_snd T _ _ _ _ Es) in Hfu.
    unfold find_sub_element in Hfu, Hfind.
    pose proof (HP _ _ _ _ _ _ _ _ Hfu Hfind) as Hrel. rewrite Hsnd in Hrel. exact Hrel.
Qed.

Theorem typed_no_known : NoKnown T w f v.
Proof.
  split; [|split].
  - (* K_recalc *)
    intros ty i n HV Hn. inversion HV as [r ty' Hroot|ty' p pn c cn tc ixs HVp Hpn Hin Hcn Hf Hfind]; subst.
    + unfold recalc_element_type. pose proof (HR _ _ _ Hroot Hn) as Hnp.
      destruct Hroot as (x & m & n0 & _ & _ & -> & Hn0 & ->). rewrite Hn0 in Hn. injection Hn as <-.
      destruct (n_parent n0) as [|m'|p]; [reflexivity|reflexivity|exfalso; exact (Hnp p eq_refl)].
    + rewrite Hcn in Hn. injection Hn as <-.
      destruct (HT p pn i cn Hpn Hin Hcn) as (Hpar & _).
      unfold recalc_element_type. rewrite Hpar. unfold node_at. rewrite Hpn. cbn [unwrap bind].
      pose proof (vis_rel _ _ HVp pn Hpn) as Rp.
      rewrite (find_sub_element_snd T _ _ _ _ (rel_ok_nonleaf _ _ _ _ _ Rp Hfind)), Hfind. reflexivity.
  - (* K_mixup *)
    intros ty i n c cn ixs HV Hn Hin Hcn Hf (tc & Hex).
    pose proof (vis_rel _ _ HV n Hn) as Rp.
    apply mask_snd.
    destruct Hex as [Hx|[_ Hx]]; exact (rel_ok_nonleaf _ _ _ _ _ Rp Hx).
  - (* K_skip *)
    intros ty i n c cn HV Hn Hin Hcn Hf.
    pose proof (vis_rel _ _ HV n Hn) as Rp.
    destruct (HT i n c cn Hn Hin Hcn) as (_ & u & et & ixs' & Hu & Hfu & _).
    rewrite <- (find_sub_element_snd T _ _ _ _ (rel_ok_nonleaf_l _ _ _ _ _ Rp Hfu)).
    exact (find_sub_element_max T _ _ _ _ _ Hu Hfu).
Qed.

Theorem f_check_exact_typed r : f_check T w f v = Val r -> (fst r = [] <-> ValidIn T w f v).
Proof.
  destruct typed_no_known as (Kr & Km & Ks). exact (f_check_exact T w f v Km Ks Kr r).
Qed.

(* the `unwrap` of the mask lookup (old type, new index list) always finds a mask *)
Theorem mask_lookup_some ty i n c cn tc ixs :
  Vis T w f v ty i -> w_nodes w i = Some n -> In (CElem c) (n_content n) -> w_nodes w c = Some cn -> in_file f cn = true ->
  (find_sub_element T ty (n_name cn) v = Val (Some (tc, ixs)) \/ find_sub_element T ty (n_name cn) U32MAX = Val (Some (tc, ixs))) ->
  exists m, get_sub_element_version_mask T (n_type n) ixs = Val (Some m).
Proof.
  intros HV Hn Hin Hcn Hf Hex.
  pose proof (vis_rel _ _ HV n Hn) as Rp.
  destruct Hex as [Hx|Hx]; rewrite (mask_snd T _ _ ixs (rel_ok_nonleaf _ _ _ _ _ Rp Hx));
    destruct (find_sub_element_mask T _ _ _ _ _ Hx) as (m & Hm & _); eauto.
Qed.

End TypedWorld.
