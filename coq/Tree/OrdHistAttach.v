(* Tree/OrdHistAttach.v — C07, histories: operations that attach an EXISTING node (move_element_here[_at],
   create_copied_sub_element[_at]) keep AllOrd, whatever they return.
   SI self c pos m (the shape of agent-c17's FI, Tree/CompatHist4.v, aware of the result): m is Sh steps; when it returns an error
   that is all, when it returns a value the steps may be followed by ONE insertion of c into the content of self at pos.
   For the node `self` the order after the insertion is the per-operation theorem (C07_order_inv_copy / _move); every other node
   is a node of the world before the insertion. *)
From Coq Require Import PeanoNat Arith Lia.
From AV Require Import Base.Bytes Base.Outcome Hash.HashModel Spec.SpecOps Tree.Heap Tree.Ops Tree.Script Tree.Inv
  Tree.InvProofsBase Tree.InvProofsCore Tree.InvProofsPrim Tree.InvProofsCreate Tree.InvProofsRefs Tree.InvProofsRemove
  Tree.Range Tree.SpecWF Tree.RangeProofsLoop Tree.RangeProofsCalc Tree.RangeProofsOps Tree.RangeProofsKeep Tree.RangeProofsMoveFinal
  Tree.OrdFrame Tree.OrdFrameOps Tree.OrdHistAlloc Tree.CompatHist3 Tree.OrdHistCopy.
Open Scope string_scope.
Open Scope list_scope.
Open Scope N_scope.

Definition ShI {A} (self c : id) (pos : N) (w0 : world) (r : out A) (w' : world) : Prop :=
  match r with
  | ER _ => Sh w0 w'
  | OK _ => Sh w0 w' \/
            exists w4 n4, Sh w0 w4 /\ w_nodes w4 self = Some n4 /\
                          w' = wset w4 self (set_content n4 (insert_at (n_content n4) (N.to_nat pos) (CElem c)))
  end.

Definition SI {A} (self c : id) (pos : N) (w0 : world) (m : W A) : Prop :=
  forall w r w', Sh w0 w -> m w = Val (r, w') -> ShI self c pos w0 r w'.

Lemma SI_shp {A} self c pos w0 (m : W A) : shp w0 m -> SI self c pos w0 m.
Proof. intros Hm w r w' F H. pose proof (Hm _ _ _ F H) as S. destruct r; [left; exact S|exact S]. Qed.
Lemma SI_bind {A B} self c pos w0 (m : W A) (k : A -> W B) :
  shp w0 m -> (forall a, SI self c pos w0 (k a)) -> SI self c pos w0 (wbind m k).
Proof.
  intros Hm Hk w r w' F H. apply wbind_inv in H as [(a & w1 & H1 & H2) | (e & H1 & ->)].
  - exact (Hk a _ _ _ (Hm _ _ _ F H1) H2).
  - exact (Hm _ _ _ F H1).
Qed.
Lemma SI_bind_get {B} self c pos w0 i (k : node -> W B) :
  (forall n, sknown w0 i n -> SI self c pos w0 (k n)) -> SI self c pos w0 (wbind (get_node i) k).
Proof.
  intros Hk w r w' F H. apply wbind_inv in H as [(n & w1 & H1 & H2) | (e & H1 & _)].
  - apply get_node_inv in H1 as (n' & Hn & [= <-] & ->). exact (Hk n (proj1 F _ _ Hn) _ _ _ F H2).
  - apply get_node_inv in H1 as (n' & _ & [=] & _).
Qed.
Lemma SI_insert {A} self c pos w0 (x : A) : SI self c pos w0 (content_insert self pos (CElem c);; wret x)%W.
Proof.
  intros w r w' F H. apply wbind_inv in H as [(a & w1 & H1 & H2) | (e & H1 & _)].
  - apply wret_inv in H2 as (-> & ->). apply content_insert_inv in H1 as (n & Hn & _ & ->). right. eauto.
  - apply content_insert_inv in H1 as (n & Hn & [=] & _).
Qed.

Ltac si_step :=
  lazymatch goal with
  | |- SI _ _ _ _ (wbind (content_insert _ _ _) _) => apply SI_insert
  | |- SI _ _ _ _ (wbind (get_node _) _) => apply SI_bind_get; intros ? ?
  | |- SI _ _ _ _ (wbind _ _) => apply SI_bind; [ solve [sh_go] | intros ? ]
  | |- SI _ _ _ _ (match ?x with _ => _ end) => destruct x eqn:?
  | |- SI _ _ _ _ (if ?b then _ else _) => destruct b
  | |- SI _ _ _ _ (let '(_, _) := ?x in _) => destruct x
  | |- SI _ _ _ _ _ => first [ assumption | apply SI_shp; solve [sh_go] ]
  end.
Ltac si_tac := repeat si_step.

Section Attach.
Variable T : tables.
Hypothesis WF : SpecWF T.
Variable tab_el tab_en : nametab.
Variable check_fn : N -> list N -> res bool.
Variable LATEST : N.
Variable v : N.

Notation AllOrd := (AllOrd T v).

Lemma SI_move_local w0 self mv pos m version : SI self mv pos w0 (move_element_local T check_fn self mv pos m version).
Proof. unfold move_element_local. si_tac. Qed.

Lemma SI_move_full w0 self mv pos m m_src version :
  SI self mv pos w0 (move_element_full T tab_en check_fn self mv pos m m_src version).
Proof. unfold move_element_full. si_tac. Qed.

(* every node but self after an SI computation *)
Lemma ShI_others {A} self c pos w (r : out A) w' : AllOrd w -> Fresh w -> ShI self c pos w r w' ->
  Fresh w' /\
  (forall i x, i <> self -> w_nodes w' i = Some x ->
     exists items, items_of w' (n_content x) = Some items /\ Ordered T (n_type x) v items) /\
  (Sh w w' \/ exists n0 n', w_nodes w self = Some n0 /\ w_nodes w' self = Some n' /\ n_name n' = n_name n0 /\ n_type n' = n_type n0).
Proof.
  intros A0 F0 S.
  assert (Hsh : forall w1, Sh w w1 -> Fresh w1 /\ (forall i x, w_nodes w1 i = Some x ->
            exists items, items_of w1 (n_content x) = Some items /\ Ordered T (n_type x) v items)).
  { intros w1 S1. split; [exact (Sh_fresh _ _ S1 F0)|exact (Sh_allord T v _ _ S1 A0)]. }
  assert (Hins : forall w4 n4, Sh w w4 -> w_nodes w4 self = Some n4 ->
            let w1 := wset w4 self (set_content n4 (insert_at (n_content n4) (N.to_nat pos) (CElem c))) in
            Fresh w1 /\ (forall i x, i <> self -> w_nodes w1 i = Some x ->
               exists items, items_of w1 (n_content x) = Some items /\ Ordered T (n_type x) v items) /\
            exists n0 n', w_nodes w self = Some n0 /\ w_nodes w1 self = Some n' /\ n_name n' = n_name n0 /\ n_type n' = n_type n0).
  { intros w4 n4 S4 Hn4 w1. destruct (Hsh _ S4) as (F4 & A4). split; [|split].
    - apply fresh_wset; [exact F4|congruence].
    - intros i x NE Hx. unfold w1 in Hx. rewrite nodes_wset_neq in Hx by exact NE.
      destruct (A4 _ _ Hx) as (items & HI & HO). exists items. split; [|exact HO].
      apply (items_of_frame w4); [|exact HI]. apply (NameExt_wset w4 self n4); auto.
    - destruct (proj1 S4 _ _ Hn4) as (n0 & Hn0 & (Nn & Tn & _)). exists n0. eexists. split; [exact Hn0|].
      split; [unfold w1; apply nodes_wset_eq|]. cbn [set_content n_name n_type]. auto. }
  destruct r as [a|e]; cbn [ShI] in S.
  - destruct S as [S|(w4 & n4 & S4 & Hn4 & ->)].
    + destruct (Hsh _ S) as (F1 & A1). split; [exact F1|]. split; [intros i x _ Hx; exact (A1 _ _ Hx)|left; exact S].
    + destruct (Hins w4 n4 S4 Hn4) as (F1 & A1 & Hs). split; [exact F1|]. split; [exact A1|right; exact Hs].
  - destruct (Hsh _ S) as (F1 & A1). split; [exact F1|]. split; [intros i x _ Hx; exact (A1 _ _ Hx)|left; exact S].
Qed.

End Attach.
