(* Tree/InvProofsRefs.v — C03 proofs: the computations that rewrite the text of referring elements (rename, move).
   They overwrite content[0] of every element recorded in the reference-origin index; this never drops a
   sub-element when no recorded element has a sub-element as its first content item ([OriginsClean], the negation of
   the class Known_refhead). *)
From Coq Require Import PeanoNat Arith.
From AV Require Import Base.Bytes Base.Outcome Hash.HashModel Tree.Heap Tree.Ops Tree.Script Tree.Inv
  Tree.InvProofsBase Tree.InvProofsCore Tree.InvProofsTree Tree.InvProofsPrim Tree.InvProofsCreate
  Tree.InvProofsData.
Open Scope string_scope.
Open Scope list_scope.
Open Scope N_scope.

Definition in_origins (w : world) (re : id) : Prop :=
  exists x k l, In x (w_models w) /\ In (k, l) (m_origins x) /\ In re l.
Definition OriginsClean (w : world) : Prop := forall re, in_origins w re -> node_head_elem w re = false.

Lemma dirty_origins_clean w : dirty_origins w = false -> OriginsClean w.
Proof.
  unfold dirty_origins. intros H re (x & k & l & Hx & Hk & Hr).
  destruct (node_head_elem w re) eqn:E; auto.
  assert (existsb (fun x => existsb (fun e => existsb (node_head_elem w) (snd e)) (m_origins x)) (w_models w) = true);
    [|congruence].
  apply existsb_exists. exists x. split; auto. apply existsb_exists. exists (k, l). split; auto.
  apply existsb_exists. exists re. auto.
Qed.

(* heads only get cleaner, the index only loses elements *)
Definition hb (w0 w : world) : Prop :=
  (forall i, node_head_elem w0 i = false -> node_head_elem w i = false) /\
  (forall re, in_origins w re -> in_origins w0 re).
Definition bn (w0 w : world) : Prop := same_tree w0 w /\ hb w0 w.

Lemma hb_refl w : hb w w. Proof. split; auto. Qed.
Lemma bn_refl w : bn w w. Proof. split; [apply same_tree_refl | apply hb_refl]. Qed.
Lemma hb_trans a b c : hb a b -> hb b c -> hb a c.
Proof. intros (H1 & H2) (G1 & G2). split; auto. Qed.
Lemma bn_trans a b c : bn a b -> bn b c -> bn a c.
Proof. intros (S1 & H1) (S2 & H2). split; [eapply same_tree_trans | eapply hb_trans]; eauto. Qed.
Lemma hb_clean w0 w : OriginsClean w0 -> hb w0 w -> OriginsClean w.
Proof. intros Hc (H1 & H2) re Hr. apply H1. apply Hc. apply H2. auto. Qed.

(* a computation keeps the world within bn of a clean start *)
Definition bnp {A} (w0 : world) (m : W A) : Prop :=
  forall w r w', bn w0 w -> m w = Val (r, w') -> bn w0 w'.

Lemma bnp_ro {A} w0 (m : W A) : ro m -> bnp w0 m.
Proof. intros H w r w' B E. apply H in E. subst. auto. Qed.
Lemma bnp_bind {A B} w0 (m : W A) (k : A -> W B) : bnp w0 m -> (forall a, bnp w0 (k a)) -> bnp w0 (wbind m k).
Proof.
  intros Hm Hk w r w' Bn H. apply wbind_inv in H as [(a & w1 & H1 & H2) | (e & H1 & _)].
  - eapply Hk; [eapply Hm; eauto | eauto].
  - eapply Hm; eauto.
Qed.
Lemma bnp_try {A} w0 (m : W A) : bnp w0 m -> bnp w0 (wtry m).
Proof. intros Hm w r w' B H. apply wtry_inv in H as (r0 & H & _). eapply Hm; eauto. Qed.

(* a step w -> w' that is itself benign *)
Lemma bnp_of_step {A} w0 (m : W A) :
  (forall w r w', m w = Val (r, w') -> bn w w') -> bnp w0 m.
Proof. intros H w r w' B E. eapply bn_trans; eauto. Qed.

(* model-record updates *)
Lemma in_origins_models w ms re :
  in_origins (wmodels w ms) re <-> exists x k l, In x ms /\ In (k, l) (m_origins x) /\ In re l.
Proof. reflexivity. Qed.

Lemma in_list_set {A} (l : list A) k x y : In y (list_set l k x) -> y = x \/ In y l.
Proof.
  revert k. induction l as [|z l IH]; intros [|k] H; cbn in *; auto.
  - destruct H; auto.
  - destruct H as [->|H]; auto. apply IH in H. tauto.
Qed.

Lemma head_wmodels w ms i : node_head_elem (wmodels w ms) i = node_head_elem w i.
Proof. reflexivity. Qed.

(* replacing model m by a record whose origin lists only contain old elements *)
Lemma bn_set_model w m x y :
  nth_opt (w_models w) (N.to_nat m) = Some x -> m_root y = m_root x ->
  (forall k l re, In (k, l) (m_origins y) -> In re l -> in_origins w re) ->
  bn w (wmodels w (list_set (w_models w) (N.to_nat m) y)).
Proof.
  intros Hx Hr Ho. split; [|split].
  - apply st_models. rewrite nth_opt_nth_error in Hx. eapply roots_list_set; eauto.
  - intros i. rewrite head_wmodels. auto.
  - intros re (z & k & l & Hz & Hk & Hre). cbn in Hz. apply in_list_set in Hz as [->|Hz].
    + eapply Ho; eauto.
    + exists z, k, l. auto.
Qed.

Lemma nth_opt_in {A} (l : list A) k x : nth_opt l k = Some x -> In x l.
Proof. apply nth_opt_In. Qed.

Lemma assoc_get_in {A} k (l : list (list N * A)) a : assoc_get k l = Some a -> exists k', In (k', a) l.
Proof.
  induction l as [|[k' a'] l IH]; cbn; [discriminate|]. destruct (bytes_eqb k' k).
  - intros [= ->]. exists k'. auto.
  - intros H. apply IH in H as (k'' & H). exists k''. auto.
Qed.
Lemma assoc_insert_in {A} k (a : A) l k' a' : In (k', a') (assoc_insert k a l) -> In (k', a') l \/ a' = a.
Proof.
  induction l as [|[k0 a0] l IH]; cbn.
  - intros [[= <- <-]|[]]. auto.
  - destruct (bytes_eqb k0 k); cbn.
    + intros [[= <- <-]|H]; auto.
    + intros [H|H]; auto. apply IH in H. tauto.
Qed.
Lemma assoc_remove_in {A} k (l : list (list N * A)) e : In e (assoc_remove k l) -> In e l.
Proof. unfold assoc_remove. intros H. apply filter_In in H. tauto. Qed.

(* index updates that do not touch m_origins *)
Lemma bnp_modify_idents w0 m f :
  (forall x, m_root (f x) = m_root x /\ m_origins (f x) = m_origins x) -> bnp w0 (modify_model m f).
Proof.
  intros Hf. apply bnp_of_step. intros w r w' H. apply modify_model_inv in H as (x & Hx & _ & ->).
  destruct (Hf x) as (Hr & Ho). apply bn_set_model with (x := x); auto.
  intros k l re Hk Hre. rewrite Ho in Hk. exists x, k, l. split; auto. eapply nth_opt_in; eauto.
Qed.

Section Refs.
Variable T : tables.
Variable tab_el tab_en : nametab.
Variable check_fn : N -> list N -> res bool.
Variable LATEST : N.

Lemma bnp_fix_identifiables w0 m a b : bnp w0 (fix_identifiables m a b).
Proof. unfold fix_identifiables. apply bnp_modify_idents. intros x. split; reflexivity. Qed.
Lemma bnp_add_identifiable w0 m a b : bnp w0 (add_identifiable m a b).
Proof. unfold add_identifiable. apply bnp_modify_idents. intros x. split; reflexivity. Qed.

(* overwriting content[0] of an element whose head is clean *)
Lemma bn_wset_head w i n c :
  w_nodes w i = Some n -> head_elem n = false ->
  bn w (wset w i (set_content n (match n_content n with [] => [c] | _ :: t => c :: t end))) \/ True.
Proof. auto. Qed.

Lemma bn_overwrite w i n d t :
  w_nodes w i = Some n -> node_head_elem w i = false ->
  t = match n_content n with [] => [] | _ :: t => t end ->
  bn w (wset w i (set_content n (CData d :: t))).
Proof.
  intros Hn Hh ->. unfold node_head_elem in Hh. rewrite Hn in Hh. unfold head_elem in Hh.
  split; [|split].
  - eapply st_wset; eauto. unfold kids. cbn. destruct (n_content n) as [|[c|d'] t]; try discriminate; reflexivity.
  - intros j Hj. unfold node_head_elem. destruct (N.eq_dec j i) as [->|Hji].
    + rewrite nodes_wset_eq. reflexivity.
    + rewrite nodes_wset_neq by auto. exact Hj.
  - intros re Hr. exact Hr.
Qed.

Lemma bnp_raw_set_cdata w0 re v version :
  OriginsClean w0 -> in_origins w0 re -> bnp w0 (raw_set_character_data T check_fn re v version).
Proof.
  intros Hc Hr w r w' B H. eapply bn_trans; [exact B|].
  assert (Hh : node_head_elem w re = false) by (apply (proj1 (proj2 B)); auto).
  apply raw_set_cdata_inv in H as [->|(n & Hn & _ & ->)]; [apply bn_refl|].
  destruct (n_content n) as [|x t] eqn:Hc'.
  - replace [CData v] with (CData v :: match n_content n with [] => [] | _ :: t => t end) by (rewrite Hc'; auto).
    eapply bn_overwrite; eauto.
  - replace (CData v :: t) with (CData v :: match n_content n with [] => [] | _ :: t => t end) by (rewrite Hc'; auto).
    eapply bn_overwrite; eauto.
Qed.

(* replacing model m (relative form): the new origin lists only contain elements recorded at the clean start *)
Lemma bn0_set_model w0 w m x y :
  bn w0 w -> nth_opt (w_models w) (N.to_nat m) = Some x -> m_root y = m_root x ->
  (forall k l re, In (k, l) (m_origins y) -> In re l -> in_origins w0 re) ->
  bn w0 (wmodels w (list_set (w_models w) (N.to_nat m) y)).
Proof.
  intros (ST & H1 & H2) Hx Hr Ho. split; [|split].
  - eapply same_tree_trans; [exact ST|]. apply st_models. rewrite nth_opt_nth_error in Hx. eapply roots_list_set; eauto.
  - intros i Hi. rewrite head_wmodels. auto.
  - intros re (z & k & l & Hz & Hk & Hre). cbn in Hz. apply in_list_set in Hz as [->|Hz].
    + eapply Ho; eauto.
    + apply H2. exists z, k, l. auto.
Qed.

Lemma in_origins_get w m x k l re :
  nth_opt (w_models w) (N.to_nat m) = Some x -> In (k, l) (m_origins x) -> In re l -> in_origins w re.
Proof. intros Hx Hk Hre. exists x, k, l. split; auto. eapply nth_opt_in; eauto. Qed.

Lemma item_name_some n w nm :
  item_name T n w = Val (OK (Some nm), w) ->
  exists s rest sn, n_content n = CElem s :: rest /\ w_nodes w s = Some sn /\ n_content sn = [CData (DString nm)].
Proof.
  unfold item_name. intros H. wrun H idtac; try discriminate.
  destruct v0 as [[| nm' | |]|]; try discriminate. injection H as ->.
  apply character_data_some in Hv0. eauto 10.
Qed.

(* ---------- the loops of move_element_local ---------- *)
Definition upd_refs_loop (refstr : list N) (version : N) : list id -> W unit :=
  fix upd_refs (rl : list id) : W unit :=
    match rl with
    | [] => wret tt
    | re :: rr => (raw_set_character_data T check_fn re (DString refstr) version;; upd_refs rr)%W
    end.

Lemma bnp_upd_refs_loop w0 refstr version rl :
  OriginsClean w0 -> (forall re, In re rl -> in_origins w0 re) -> bnp w0 (upd_refs_loop refstr version rl).
Proof.
  intros Hc. induction rl as [|re rr IH]; intros Hin; cbn [upd_refs_loop].
  - apply bnp_ro. ro_tac.
  - apply bnp_bind.
    + apply bnp_raw_set_cdata; auto. apply Hin. left; auto.
    + intros _. apply IH. intros re' Hre'. apply Hin. right; auto.
Qed.

Definition move_ref_body (m : N) (src_prefix dest_path : list N) (version : N) (orig_ref : list N) : W unit :=
  match strip_prefix src_prefix orig_ref with
  | Some suffix =>
    (do x <- get_model m;
     match assoc_get orig_ref (m_origins x) with
     | Some refs =>
       set_model m (set_origins x (assoc_remove orig_ref (m_origins x)));;
       let refstr := dest_path ++ suffix in
       upd_refs_loop refstr version refs;;
       modify_model m (fun y => set_origins y (match assoc_get refstr (m_origins y) with
                                                | Some l0 => assoc_insert refstr (l0 ++ refs) (m_origins y)
                                                | None => m_origins y ++ [(refstr, refs)] end))
     | None => wret tt
     end)%W
  | None => wret tt
  end.

Lemma bnp_move_ref_body w0 m sp dp version orig_ref :
  OriginsClean w0 -> bnp w0 (move_ref_body m sp dp version orig_ref).
Proof.
  intros Hc w r w' B H. unfold move_ref_body in H.
  destruct (strip_prefix sp orig_ref) as [suffix|]; [|winv H; auto].
  wstepn H x Ex; winv Ex.
  destruct (assoc_get orig_ref (m_origins x0)) as [refs|] eqn:Hg; [|winv H; auto].
  assert (Hrefs : forall re, In re refs -> in_origins w0 re).
  { intros re Hre. apply (proj2 (proj2 B)). apply assoc_get_in in Hg as (k' & Hk'). eapply in_origins_get; eauto. }
  wstepn H u Es. apply set_model_inv in Es as (_ & ->).
  assert (B1 : bn w0 (wmodels w (list_set (w_models w) (N.to_nat m) (set_origins x0 (assoc_remove orig_ref (m_origins x0)))))).
  { eapply bn0_set_model; eauto. intros k l re Hk Hre. apply (proj2 (proj2 B)).
    cbn in Hk. apply assoc_remove_in in Hk. eapply in_origins_get; eauto. }
  wstepn H u2 El.
  2:{ eapply bnp_upd_refs_loop; eauto. }
  assert (B2 : bn w0 w1) by (eapply bnp_upd_refs_loop; eauto).
  apply modify_model_inv in H as (y & Hy & _ & ->).
  eapply bn0_set_model; eauto.
  intros k l re Hk Hre. cbn in Hk.
  destruct (assoc_get (dp ++ suffix) (m_origins y)) as [l0|] eqn:Hg0.
  - apply assoc_insert_in in Hk as [Hk| ->].
    + apply (proj2 (proj2 B2)). eapply in_origins_get; eauto.
    + apply in_app_or in Hre as [Hre|Hre]; auto.
      apply (proj2 (proj2 B2)). apply assoc_get_in in Hg0 as (k' & Hk'). eapply in_origins_get; eauto.
  - apply in_app_or in Hk as [Hk|[[= <- <-]|[]]]; auto.
    apply (proj2 (proj2 B2)). eapply in_origins_get; eauto.
Qed.

Definition each_loop {A} (body : A -> W unit) : list A -> W unit :=
  fix each (l : list A) : W unit :=
    match l with
    | [] => wret tt
    | a :: r => (body a;; each r)%W
    end.

Lemma bnp_each_loop {A} w0 (body : A -> W unit) l : (forall a, bnp w0 (body a)) -> bnp w0 (each_loop body l).
Proof.
  intros Hb. induction l as [|a l IH]; cbn [each_loop]; [apply bnp_ro; ro_tac|].
  apply bnp_bind; auto.
Qed.

(* make_unique_item_name rewrites the text of the SHORT-NAME child *)
Lemma bnp_make_unique w0 i m pp : bnp w0 (make_unique_item_name T i m pp).
Proof.
  intros w r w' B H. unfold make_unique_item_name in H.
  wstepn H n En; winv En.
  wstepn H nm Ei.
  destruct nm as [orig|]; [|winv H; auto].
  wstepn H x Ex; winv Ex.
  wstepn H nc Eu. destruct nc as [name counter].
  apply item_name_some in Ei as (s & rest & sn & Hc & Hs & Hsc).
  wstepn H u Em.
  - winv H. destruct (1 <? counter); [|winv Em; auto]. rewrite Hc in Em.
    apply modify_node_wset in Em as (sn' & Hs' & _ & ->). eapply bn_trans; [exact B|].
    assert (sn' = sn) as -> by congruence.
    apply (bn_overwrite w s sn (DString name) []); auto.
    + unfold node_head_elem, head_elem. rewrite Hs, Hsc. reflexivity.
    + rewrite Hsc. reflexivity.
  - destruct (1 <? counter); [|winv Em]. rewrite Hc in Em. prim_noerr Em.
  - exact B.
  - exact B.
Qed.

Lemma stp_make_unique i m pp : stp (make_unique_item_name T i m pp).
Proof. intros w r w' H. apply (bnp_make_unique w i m pp w r w' (bn_refl w) H). Qed.

(* ---------- the same computations only shrink content lists, whatever the index contains ---------- *)
Definition shrp {A} (m : W A) : Prop := forall w r w', Core w -> m w = Val (r, w') -> shr w w'.

Lemma shrp_stp {A} (m : W A) : stp m -> shrp m.
Proof. intros H w r w' C E. apply same_tree_shr; auto. eapply H; eauto. Qed.
Lemma shrp_bind {A B} (m : W A) (k : A -> W B) : shrp m -> (forall a, shrp (k a)) -> shrp (wbind m k).
Proof.
  intros Hm Hk w r w' C H. apply wbind_inv in H as [(a & w1 & H1 & H2) | (e & H1 & _)].
  - pose proof (Hm _ _ _ C H1) as S1. eapply shr_trans; [exact S1|]. eapply Hk; eauto. eapply Core_shr; eauto.
  - eapply Hm; eauto.
Qed.

Lemma shrp_raw_set_cdata re v version : shrp (raw_set_character_data T check_fn re v version).
Proof.
  intros w r w' C H. apply raw_set_cdata_inv in H as [->|(n & Hn & _ & ->)]; [apply shr_refl; auto|].
  set (n' := set_content n _).
  assert (Hk : kids n' = kids n \/ exists c, kids n = c :: kids n').
  { unfold n', kids. cbn. destruct (n_content n) as [|[c|d] t]; auto. right. exists c. reflexivity. }
  pose proof (c_nodup _ C _ _ Hn) as Hnd.
  apply (shr_upd1 w _ re (n_parent n) (kids n) (kids n')); auto.
  - apply upd1_wset.
  - apply skel_some; auto.
  - rewrite skel_wset_eq. reflexivity.
  - destruct Hk as [->|(c & ->)]; [apply incl_refl | apply incl_tl, incl_refl].
  - destruct Hk as [->|(c & Hk)]; auto. rewrite Hk in Hnd. inversion Hnd; auto.
Qed.

Lemma shrp_upd_refs_loop refstr version rl : shrp (upd_refs_loop refstr version rl).
Proof.
  induction rl as [|re rr IH]; cbn [upd_refs_loop]; [apply shrp_stp; stp_tac|].
  apply shrp_bind; [apply shrp_raw_set_cdata | intros; exact IH].
Qed.

Lemma shrp_move_ref_body m sp dp version orig_ref : shrp (move_ref_body m sp dp version orig_ref).
Proof.
  unfold move_ref_body. destruct (strip_prefix sp orig_ref); [|apply shrp_stp; stp_tac].
  intros w r w' C H. wstepn H x Ex; winv Ex.
  destruct (assoc_get orig_ref (m_origins x0)); [|winv H; apply shr_refl; auto].
  wstepn H u Es.
  pose proof (stp_set_model_same m x0 (fun y => set_origins y (assoc_remove orig_ref (m_origins y)))
                (fun y => eq_refl) _ _ _ Hx Es) as ST.
  assert (C1 : Core w0) by (eapply Core_same_tree; eauto).
  eapply shr_trans; [apply same_tree_shr; eauto|].
  match type of H with ?mm ?wa = _ => refine ((_ : shrp mm) wa _ _ C1 H) end.
  apply shrp_bind; [apply shrp_upd_refs_loop | intros; apply shrp_stp; stp_tac].
Qed.

Lemma shrp_each_loop {A} (body : A -> W unit) l : (forall a, shrp (body a)) -> shrp (each_loop body l).
Proof.
  intros Hb. induction l as [|a l IH]; cbn [each_loop]; [apply shrp_stp; stp_tac|].
  apply shrp_bind; auto.
Qed.

End Refs.
