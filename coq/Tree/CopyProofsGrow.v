(* Tree/CopyProofsGrow.v — C13: every operation of Tree/Ops.v only grows the world (allocation bound, number of models,
   number of files).  No side conditions: a tactic decomposes the computation; defined functions are unfolded on the way
   (the recursive ones have their own lemmas). *)
From AV Require Import Base.Bytes Base.Outcome Hash.HashModel Tree.Heap Tree.Ops Tree.Script
  Tree.CopyProofsW Tree.CopyProofsDefs Tree.CopyProofsIrp.
From Coq Require Import Lia PeanoNat.
Open Scope string_scope.
Open Scope list_scope.
Open Scope N_scope.

Create HintDb grows discriminated.
#[export] Hint Resolve grows_set_node grows_modify_node grows_alloc grows_set_model grows_modify_model grows_set_file : grows.

Ltac head_of t := lazymatch t with ?f _ => head_of f | _ => t end.

Ltac grows_loop :=
  match goal with
  | |- grows (?F ?l) =>
    is_fix F; let l' := fresh "l" in generalize l; intro l'; induction l' as [|? ? ?]; lazy beta iota fix zeta
  end.

Ltac grows_step :=
  lazymatch goal with
  | |- forall _, _ => intros ?
  | |- grows (wbind _ _) => apply grows_bind; [ | intros ? ]
  | |- grows (wtry _) => apply grows_try
  | |- grows (wcatch _) => apply grows_catch
  | |- grows (match ?x with _ => _ end) => destruct x
  | |- grows (if ?b then _ else _) => destruct b
  | |- grows (let '(_, _) := ?x in _) => destruct x
  | |- grows ?c =>
    first [ assumption
          | solve [auto with grows nocore]
          | apply grows_ro; solve [ro_tac]
          | grows_loop
          | let h := head_of c in unfold h ]
  end.
Ltac grows_tac := repeat grows_step.

Section Grow.
Variable T : tables.
Variable tab_el tab_en : nametab.
Variable check_fn : N -> list N -> res bool.
Variable LATEST : N.
Variable root_attrs : list (N * cdata).

Lemma grows_remove_internal fuel : forall i m path, grows (remove_internal T fuel i m path).
Proof. induction fuel as [|f IH]; intros i m path; cbn [remove_internal]; grows_tac. Qed.
Hint Resolve grows_remove_internal : grows.
Lemma grows_atfr fuel : forall e f, grows (add_to_file_restricted T fuel e f).
Proof. induction fuel as [|fl IH]; intros e f; cbn [add_to_file_restricted]; grows_tac. Qed.
Hint Resolve grows_atfr : grows.
Lemma grows_deep_copy fuel : forall src version, grows (deep_copy T fuel src version).
Proof. induction fuel as [|f IH]; intros src version; cbn [deep_copy]; grows_tac. Qed.
Hint Resolve grows_deep_copy : grows.
Lemma grows_register_subtree fuel : forall m cur i, grows (register_subtree T fuel m cur i).
Proof. induction fuel as [|f IH]; intros m cur i; cbn [register_subtree]; grows_tac. Qed.
Hint Resolve grows_register_subtree : grows.

Lemma grows_new_model : grows (new_model T root_attrs).
Proof.
  intros w r w' E. unfold new_model in E.
  destruct (et_new T (autosar_element T)); destruct (elem T (autosar_element T)); try discriminate E.
  injection E as _ <-. unfold Grow; cbn [w_next w_models w_files]. rewrite app_length. cbn. repeat split; lia.
Qed.
Hint Resolve grows_new_model : grows.

Lemma grows_content_insert i pos c : grows (content_insert i pos (CElem c)).
Proof. unfold content_insert. grows_tac. Qed.
Hint Resolve grows_content_insert : grows.
Lemma grows_create_inner self name pos version : grows (create_sub_element_inner T self name pos version).
Proof. unfold create_sub_element_inner. grows_tac. Qed.
Hint Resolve grows_create_inner : grows.
Lemma grows_raw_create_sub self name version : grows (raw_create_sub_element T self name version).
Proof. unfold raw_create_sub_element. grows_tac. Qed.
Hint Resolve grows_raw_create_sub : grows.
Lemma grows_raw_create_sub_at self name pos version : grows (raw_create_sub_element_at T self name pos version).
Proof. unfold raw_create_sub_element_at. grows_tac. Qed.
Hint Resolve grows_raw_create_sub_at : grows.
Lemma grows_raw_set_cdata i v version : grows (raw_set_character_data T check_fn i v version).
Proof. unfold raw_set_character_data. grows_tac. Qed.
Hint Resolve grows_raw_set_cdata : grows.
Lemma grows_create_named_inner self name item pos m version : grows (create_named_sub_element_inner T check_fn self name item pos m version).
Proof. unfold create_named_sub_element_inner. grows_tac. Qed.
Hint Resolve grows_create_named_inner : grows.
Lemma grows_raw_create_named self name item m version : grows (raw_create_named_sub_element T check_fn self name item m version).
Proof. unfold raw_create_named_sub_element. grows_tac. Qed.
Hint Resolve grows_raw_create_named : grows.
Lemma grows_raw_create_named_at self name item pos m version : grows (raw_create_named_sub_element_at T check_fn self name item pos m version).
Proof. unfold raw_create_named_sub_element_at. grows_tac. Qed.
Hint Resolve grows_raw_create_named_at : grows.
Lemma grows_make_unique i m pp : grows (make_unique_item_name T i m pp).
Proof. unfold make_unique_item_name. grows_tac. Qed.
Hint Resolve grows_make_unique : grows.
Lemma grows_detach parent c : grows (detach_from parent c).
Proof. unfold detach_from. grows_tac. Qed.
Hint Resolve grows_detach : grows.
Lemma grows_raw_remove self sub m : grows (raw_remove_sub_element T self sub m).
Proof. unfold raw_remove_sub_element. grows_tac. Qed.
Hint Resolve grows_raw_remove : grows.
Lemma grows_e_remove h sub : grows (e_remove_sub_element T h sub).
Proof. unfold e_remove_sub_element. grows_tac. Qed.
Hint Resolve grows_e_remove : grows.
Lemma grows_e_remove_kind h name : grows (e_remove_sub_element_kind T h name).
Proof. unfold e_remove_sub_element_kind. grows_tac. Qed.
Hint Resolve grows_e_remove_kind : grows.
Lemma grows_set_item_name h nm : grows (e_set_item_name T check_fn LATEST h nm).
Proof. unfold e_set_item_name. grows_tac. Qed.
Hint Resolve grows_set_item_name : grows.
Lemma grows_move_position self mv pos e : grows (move_element_position self mv pos e).
Proof. unfold move_element_position. grows_tac. Qed.
Hint Resolve grows_move_position : grows.
Lemma grows_move_local self mv pos m version : grows (move_element_local T check_fn self mv pos m version).
Proof. unfold move_element_local. grows_tac. Qed.
Hint Resolve grows_move_local : grows.
Lemma grows_move_full self mv pos m m_src version : grows (move_element_full T tab_en check_fn self mv pos m m_src version).
Proof. unfold move_element_full. grows_tac. Qed.
Hint Resolve grows_move_full : grows.
Lemma grows_e_move h mv : grows (e_move_element_here T tab_en check_fn LATEST h mv).
Proof. unfold e_move_element_here. grows_tac. Qed.
Hint Resolve grows_e_move : grows.
Lemma grows_e_move_at h mv pos : grows (e_move_element_here_at T tab_en check_fn LATEST h mv pos).
Proof. unfold e_move_element_here_at. grows_tac. Qed.
Hint Resolve grows_e_move_at : grows.
Lemma grows_add_to_file e f : grows (e_add_to_file T e f).
Proof. unfold e_add_to_file. grows_tac. Qed.
Hint Resolve grows_add_to_file : grows.
Lemma grows_remove_from_file e f : grows (e_remove_from_file T e f).
Proof. unfold e_remove_from_file. grows_tac. Qed.
Hint Resolve grows_remove_from_file : grows.
Lemma grows_set_file_membership e fm : grows (set_file_membership T e fm).
Proof. unfold set_file_membership. grows_tac. Qed.
Hint Resolve grows_set_file_membership : grows.
Lemma grows_remove_file m f : grows (m_remove_file T m f).
Proof. unfold m_remove_file. grows_tac. Qed.
Hint Resolve grows_remove_file : grows.
Lemma grows_e_create_sub h name : grows (e_create_sub_element T LATEST h name).
Proof. unfold e_create_sub_element. grows_tac. Qed.
Hint Resolve grows_e_create_sub : grows.
Lemma grows_e_create_sub_at h name pos : grows (e_create_sub_element_at T LATEST h name pos).
Proof. unfold e_create_sub_element_at. grows_tac. Qed.
Hint Resolve grows_e_create_sub_at : grows.
Lemma grows_e_create_named h name item : grows (e_create_named_sub_element T check_fn LATEST h name item).
Proof. unfold e_create_named_sub_element. grows_tac. Qed.
Hint Resolve grows_e_create_named : grows.
Lemma grows_e_create_named_at h name item pos : grows (e_create_named_sub_element_at T check_fn LATEST h name item pos).
Proof. unfold e_create_named_sub_element_at. grows_tac. Qed.
Hint Resolve grows_e_create_named_at : grows.
Lemma grows_e_get_or_create h name : grows (e_get_or_create_sub_element T LATEST h name).
Proof. unfold e_get_or_create_sub_element. grows_tac. Qed.
Hint Resolve grows_e_get_or_create : grows.
Lemma grows_e_get_or_create_named h name item : grows (e_get_or_create_named_sub_element T check_fn LATEST h name item).
Proof. unfold e_get_or_create_named_sub_element. grows_tac. Qed.
Hint Resolve grows_e_get_or_create_named : grows.
Lemma grows_e_set_cdata h v : grows (e_set_character_data T tab_en check_fn LATEST h v).
Proof. unfold e_set_character_data. grows_tac. Qed.
Hint Resolve grows_e_set_cdata : grows.
Lemma grows_e_remove_cdata h : grows (e_remove_character_data T h).
Proof. unfold e_remove_character_data. grows_tac. Qed.
Hint Resolve grows_e_remove_cdata : grows.
Lemma grows_e_insert_citem h t p : grows (e_insert_character_content_item T h t p).
Proof. unfold e_insert_character_content_item. grows_tac. Qed.
Hint Resolve grows_e_insert_citem : grows.
Lemma grows_e_remove_citem h p : grows (e_remove_character_content_item T h p).
Proof. unfold e_remove_character_content_item. grows_tac. Qed.
Hint Resolve grows_e_remove_citem : grows.
Lemma grows_raw_set_attribute h a v version : grows (raw_set_attribute T check_fn h a v version).
Proof. unfold raw_set_attribute. grows_tac. Qed.
Hint Resolve grows_raw_set_attribute : grows.
Lemma grows_e_set_attribute h a v : grows (e_set_attribute T check_fn LATEST h a v).
Proof. unfold e_set_attribute. grows_tac. Qed.
Hint Resolve grows_e_set_attribute : grows.
Lemma grows_e_remove_attribute h a : grows (e_remove_attribute T h a).
Proof. unfold e_remove_attribute. grows_tac. Qed.
Hint Resolve grows_e_remove_attribute : grows.
Lemma grows_e_set_comment h c : grows (e_set_comment h c).
Proof. unfold e_set_comment. grows_tac. Qed.
Hint Resolve grows_e_set_comment : grows.
Lemma grows_e_set_reference_target h target : grows (e_set_reference_target T tab_el tab_en check_fn LATEST h target).
Proof. unfold e_set_reference_target. grows_tac. Qed.
Hint Resolve grows_e_set_reference_target : grows.
Lemma grows_ccsei self other pos m version : grows (create_copied_sub_element_inner T self other pos m version).
Proof. unfold create_copied_sub_element_inner. grows_tac. Qed.
Hint Resolve grows_ccsei : grows.
Lemma grows_e_copy h other : grows (e_create_copied_sub_element T LATEST h other).
Proof. unfold e_create_copied_sub_element, raw_create_copied_sub_element. grows_tac. Qed.
Hint Resolve grows_e_copy : grows.
Lemma grows_e_copy_at h other pos : grows (e_create_copied_sub_element_at T LATEST h other pos).
Proof. unfold e_create_copied_sub_element_at, raw_create_copied_sub_element_at. grows_tac. Qed.
Hint Resolve grows_e_copy_at : grows.

Lemma grows_create_file m name version : grows (m_create_file T m name version).
Proof.
  unfold m_create_file. apply grows_bind; [apply grows_ro; ro_tac|intros x].
  intros w r w' E. apply wbind_inv in E as [(w0 & w1 & E1 & E2) | (e & E1 & _)]; [|apply wget_inv in E1 as ([=] & _)].
  apply wget_inv in E1 as ([= ->] & ->).
  destruct (existsb _ (m_files x)); [apply wfail_inv in E2 as (_ & ->); apply Grow_refl|].
  apply wbind_inv in E2 as [(u & w1 & E1 & E2) | (e & E1 & _)]; [|discriminate E1].
  unfold wput in E1. injection E1 as _ <-.
  assert (G1 : Grow w (mkWorld (w_nodes w) (w_next w) (w_files w ++ [mkFile m name version None]) (w_models w))).
  { unfold Grow; cbn [w_next w_models w_files]. rewrite app_length. cbn. repeat split; lia. }
  eapply Grow_trans; [exact G1|]. revert E2. generalize (N.of_nat (List.length (w_files w))). intros fid E2.
  assert (Hk : grows (modify_model m (fun y => set_mfiles y (m_files y ++ [fid]));;
                     (do w2 <- wget; do _ <- wtry (add_to_file_restricted T (fuel_of w2) (m_root x) fid); wret fid))%W).
  { grows_tac. }
  exact (Hk _ _ _ E2).
Qed.
Hint Resolve grows_create_file : grows.

End Grow.

#[export] Hint Resolve grows_remove_internal grows_atfr grows_deep_copy grows_register_subtree grows_new_model grows_content_insert grows_create_inner grows_raw_create_sub grows_raw_create_sub_at grows_raw_set_cdata grows_create_named_inner grows_raw_create_named grows_raw_create_named_at grows_make_unique grows_detach grows_raw_remove grows_e_remove grows_e_remove_kind grows_set_item_name grows_move_position grows_move_local grows_move_full grows_e_move grows_e_move_at grows_add_to_file grows_remove_from_file grows_set_file_membership grows_remove_file grows_e_create_sub grows_e_create_sub_at grows_e_create_named grows_e_create_named_at grows_e_get_or_create grows_e_get_or_create_named grows_e_set_cdata grows_e_remove_cdata grows_e_insert_citem grows_e_remove_citem grows_raw_set_attribute grows_e_set_attribute grows_e_remove_attribute grows_e_set_comment grows_e_set_reference_target grows_ccsei grows_e_copy grows_e_copy_at grows_create_file : grows.
