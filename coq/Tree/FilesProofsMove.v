(* Tree/FilesProofsMove.v — C10 proofs: move_element_here / move_element_here_at.
   MoveRel mv w w': no node is allocated, every node keeps its type and its local file set, every node other than mv
   keeps its parent link (or loses it), content lists only lose children except that mv may be gained.  Both move
   operations satisfy MoveRel (for every result, also the failing ones).  When no element below mv carries a local set
   (the complement of finding class Known_move_local) the invariant is inherited. *)
From Coq Require Import PeanoNat Arith Lia.
From AV Require Import Base.Bytes Base.Outcome Hash.HashModel Tree.Heap Tree.Ops Tree.Script Tree.Serialize
  Tree.Inv Tree.InvProofsBase Tree.InvProofsCore Tree.InvProofsTree Tree.InvProofsPrim
  Tree.Files Tree.FilesProofsBase Tree.FilesProofsProj Tree.FilesProofsFrame Tree.FilesProofsOps.
Open Scope string_scope.
Open Scope list_scope.
Open Scope N_scope.

Section Rel.
Variable mv : id.

Definition node_mv (x : id) (n n' : node) : Prop :=
  n_type n' = n_type n /\ n_files n' = n_files n /\
  (x = mv \/ n_parent n' = n_parent n \/ n_parent n' = PNone) /\
  (forall k, In k (kids n') -> In k (kids n) \/ k = mv).

Record MoveRel (w w' : world) : Prop := mkMoveRel {
  mr_next : w_next w' = w_next w;
  mr_files : w_files w' = w_files w;
  mr_models : map mview (w_models w') = map mview (w_models w);
  mr_none : forall x, w_nodes w x = None -> w_nodes w' x = None;
  mr_node : forall x n, w_nodes w x = Some n -> exists n', w_nodes w' x = Some n' /\ node_mv x n n'
}.

Lemma node_mv_refl x n : node_mv x n n.
Proof. repeat split; auto. Qed.
Lemma node_mv_trans x a b c : node_mv x a b -> node_mv x b c -> node_mv x a c.
Proof.
  intros (T1 & F1 & P1 & K1) (T2 & F2 & P2 & K2). split; [congruence|]. split; [congruence|]. split.
  - destruct P1 as [E|[P1|P1]]; [left; exact E| |].
    + destruct P2 as [E|[P2|P2]]; [left; exact E|right; left; congruence|right; right; exact P2].
    + destruct P2 as [E|[P2|P2]]; [left; exact E|right; right; congruence|right; right; exact P2].
  - intros k Hk. destruct (K2 k Hk) as [Hk'|?]; auto.
Qed.

Lemma MoveRel_refl w : MoveRel w w.
Proof. constructor; auto. intros x n H. exists n. split; auto. apply node_mv_refl. Qed.
Lemma MoveRel_trans a b c : MoveRel a b -> MoveRel b c -> MoveRel a c.
Proof.
  intros [N1 F1 M1 Z1 D1] [N2 F2 M2 Z2 D2]. constructor; try congruence; auto.
  intros x n H. destruct (D1 _ _ H) as (n1 & H1 & K1). destruct (D2 _ _ H1) as (n2 & H2 & K2).
  exists n2. split; auto. eapply node_mv_trans; eauto.
Qed.

Definition mrp {A} (m : W A) : Prop := forall w r w', m w = Val (r, w') -> MoveRel w w'.

Lemma mrp_ro {A} (m : W A) : ro m -> mrp m.
Proof. intros R w r w' H. apply R in H. subst. apply MoveRel_refl. Qed.
Lemma mrp_bind {A B} (m : W A) (k : A -> W B) : mrp m -> (forall a, mrp (k a)) -> mrp (wbind m k).
Proof.
  intros Hm Hk w r w' H. apply wbind_inv in H as [(a & w1 & H1 & H2) | (e & H1 & _)].
  - eapply MoveRel_trans; [eapply Hm; eauto | eapply Hk; eauto].
  - eapply Hm; eauto.
Qed.
Lemma mrp_try {A} (m : W A) : mrp m -> mrp (wtry m).
Proof. intros Hm w r w' H. apply wtry_inv in H as (r0 & H & _). eapply Hm; eauto. Qed.

Lemma moverel_wset w i n n' : w_nodes w i = Some n -> node_mv i n n' -> MoveRel w (wset w i n').
Proof.
  intros Hn K. constructor; cbn; auto.
  - intros x Hx. unfold upd. destruct (x =? i) eqn:E; auto. apply N.eqb_eq in E. subst. congruence.
  - intros x m Hm. unfold upd. destruct (x =? i) eqn:E.
    + apply N.eqb_eq in E. subst. exists n'. split; auto. assert (m = n) by congruence. subst. exact K.
    + exists m. split; auto. apply node_mv_refl.
Qed.

Lemma mrp_modify_node i f : (forall n, node_mv i n (f n)) -> mrp (modify_node i f).
Proof. intros K w r w' H. apply modify_node_wset in H as (n & Hn & _ & ->). eapply moverel_wset; eauto. Qed.

Lemma mrp_modify_model m f : (forall x, mview (f x) = mview x) -> mrp (modify_model m f).
Proof.
  intros K w r w' H. apply modify_model_inv in H as (x & Hx & _ & ->). constructor; cbn; auto.
  - eapply mview_list_set; eauto.
  - intros y n Hn. exists n. split; auto. apply node_mv_refl.
Qed.

(* with a known node / model *)
Definition mrat (i : id) (n : node) {A} (m : W A) : Prop :=
  forall w r w', w_nodes w i = Some n -> m w = Val (r, w') -> MoveRel w w'.
Lemma mrat_mrp i n {A} (m : W A) : mrp m -> mrat i n m.
Proof. intros H w r w' _ E. eapply H; eauto. Qed.
Lemma mrat_set_node i n n' : node_mv i n n' -> mrat i n (set_node i n').
Proof. intros K w r w' Hn H. apply set_node_wset in H as (_ & ->). eapply moverel_wset; eauto. Qed.
Lemma mrat_bind_ro i n {A B} (m : W A) (k : A -> W B) : ro m -> (forall a, mrat i n (k a)) -> mrat i n (wbind m k).
Proof.
  intros R Hk w r w' Hn H. apply wbind_inv in H as [(a & w1 & H1 & H2) | (e & H1 & _)].
  - apply R in H1. subst. eapply Hk; eauto.
  - apply R in H1. subst. apply MoveRel_refl.
Qed.
Lemma mrat_bind i n {A B} (m : W A) (k : A -> W B) : mrat i n m -> (forall a, mrp (k a)) -> mrat i n (wbind m k).
Proof.
  intros Hm Hk w r w' Hn H. apply wbind_inv in H as [(a & w1 & H1 & H2) | (e & H1 & _)].
  - eapply MoveRel_trans; [eapply Hm; eauto | eapply Hk; eauto].
  - eapply Hm; eauto.
Qed.
Lemma mrp_get_node i {B} (k : node -> W B) : (forall n, mrat i n (k n)) -> mrp (wbind (get_node i) k).
Proof.
  intros Hk w r w' H. apply wbind_inv in H as [(a & w1 & H1 & H2) | (e & H1 & _)].
  - apply get_node_inv in H1 as (n & Hn & [= <-] & ->). eapply Hk; eauto.
  - apply get_node_inv in H1 as (n & _ & [=] & _).
Qed.

Definition mrmod (m : N) (x : model) {A} (mm : W A) : Prop :=
  forall w r w', nth_opt (w_models w) (N.to_nat m) = Some x -> mm w = Val (r, w') -> MoveRel w w'.
Lemma mrmod_mrp m x {A} (mm : W A) : mrp mm -> mrmod m x mm.
Proof. intros H w r w' _ E. eapply H; eauto. Qed.
Lemma mrmod_set_model m x y : mview y = mview x -> mrmod m x (set_model m y).
Proof.
  intros K w r w' Hx H. apply set_model_inv in H as (_ & ->). constructor; cbn; auto.
  - eapply mview_list_set; eauto.
  - intros z n Hn. exists n. split; auto. apply node_mv_refl.
Qed.
Lemma mrmod_bind_ro m x {A B} (mm : W A) (k : A -> W B) : ro mm -> (forall a, mrmod m x (k a)) -> mrmod m x (wbind mm k).
Proof.
  intros R Hk w r w' Hx H. apply wbind_inv in H as [(a & w1 & H1 & H2) | (e & H1 & _)].
  - apply R in H1. subst. eapply Hk; eauto.
  - apply R in H1. subst. apply MoveRel_refl.
Qed.
Lemma mrmod_bind m x {A B} (mm : W A) (k : A -> W B) : mrmod m x mm -> (forall a, mrp (k a)) -> mrmod m x (wbind mm k).
Proof.
  intros Hm Hk w r w' Hx H. apply wbind_inv in H as [(a & w1 & H1 & H2) | (e & H1 & _)].
  - eapply MoveRel_trans; [eapply Hm; eauto | eapply Hk; eauto].
  - eapply Hm; eauto.
Qed.
Lemma mrp_get_model m {B} (k : model -> W B) : (forall x, mrmod m x (k x)) -> mrp (wbind (get_model m) k).
Proof.
  intros Hk w r w' H. apply wbind_inv in H as [(a & w1 & H1 & H2) | (e & H1 & _)].
  - apply get_model_inv in H1 as (x & Hx & [= <-] & ->). eapply Hk; eauto.
  - apply get_model_inv in H1 as (x & _ & [=] & _).
Qed.

(* node changes that are fine for every node *)
Lemma mv_set_attrs i n a : node_mv i n (set_attrs n a). Proof. repeat split; auto. Qed.
Lemma mv_set_comment i n c : node_mv i n (set_comment n c). Proof. repeat split; auto. Qed.
(* a content list whose sub-elements are among the old ones *)
Lemma mv_set_content_sub i n c : (forall k, In k (elems c) -> In k (kids n) \/ k = mv) -> node_mv i n (set_content n c).
Proof. intros H. repeat split; auto. Qed.

End Rel.

Create HintDb mrp discriminated.

Ltac mr_step mv :=
  first
  [ apply mrp_ro; solve [ro_tac]
  | solve [auto with mrp]
  | match goal with
    | |- mrat _ _ _ (match ?x with _ => _ end) => destruct x
    | |- mrat _ _ _ (if ?b then _ else _) => destruct b
    | |- mrat _ _ _ (let '(_, _) := ?x in _) => destruct x
    | |- mrat _ _ _ (set_node _ _) => apply mrat_set_node; solve [auto with mrp]
    | |- mrat _ _ _ (wbind _ _) => first [ apply mrat_bind_ro; [solve [ro_tac] | intros ?] | apply mrat_bind; [ | intros ? ] ]
    | |- mrat _ _ _ _ => apply mrat_mrp
    end
  | match goal with
    | |- mrmod _ _ _ (match ?x with _ => _ end) => destruct x
    | |- mrmod _ _ _ (if ?b then _ else _) => destruct b
    | |- mrmod _ _ _ (let '(_, _) := ?x in _) => destruct x
    | |- mrmod _ _ _ (set_model _ _) => apply mrmod_set_model; reflexivity
    | |- mrmod _ _ _ (wbind _ _) => first [ apply mrmod_bind_ro; [solve [ro_tac] | intros ?] | apply mrmod_bind; [ | intros ? ] ]
    | |- mrmod _ _ _ _ => apply mrmod_mrp
    end
  | apply mrp_modify_node; solve [intros; auto with mrp]
  | apply mrp_modify_model; solve [intros; reflexivity]
  | apply mrp_get_node; intros ?
  | match goal with |- mrp _ (wbind (get_model _) _) => apply mrp_get_model; intros ? end
  | apply mrp_bind; [ | intros ? ]
  | apply mrp_try
  | match goal with
    | |- mrp _ ((fix f (l : list _) {struct l} : _ := _) ?l0) =>
      let l := fresh "l" in let a := fresh "a" in let IHl := fresh "IHl" in
      generalize l0; intros l; induction l as [|a l IHl]; [ | simpl ]
    | |- mrp _ (match ?x with _ => _ end) => destruct x
    | |- mrp _ (if ?b then _ else _) => destruct b
    | |- mrp _ (let '(_, _) := ?x in _) => destruct x
    end ].
Ltac mr_tac mv := repeat (mr_step mv).

Section MoveOps.
Variable T : tables.
Variable tab_el tab_en : nametab.
Variable check_fn : N -> list N -> res bool.
Variable LATEST : N.
Variable mv : id.

Hint Resolve mv_set_attrs mv_set_comment node_mv_refl : mrp.

(* content changes that only drop sub-elements *)
Lemma mv_head_data i n v : node_mv mv i n (set_content n (match n_content n with [] => [CData v] | _ :: r => CData v :: r end)).
Proof.
  apply mv_set_content_sub. intros k Hk. left. unfold kids. destruct (n_content n) as [|[c|d] r]; cbn in *; auto; try tauto.
Qed.
Lemma mv_only_data i n v : node_mv mv i n (set_content n [CData v]).
Proof. apply mv_set_content_sub. intros k []. Qed.
Lemma mv_remove_at i n k : node_mv mv i n (set_content n (remove_at (n_content n) k)).
Proof. apply mv_set_content_sub. intros c Hc. left. eapply elems_remove_incl; eauto. Qed.
Lemma mv_insert_mv i n k : node_mv mv i n (set_content n (insert_at (n_content n) k (CElem mv))).
Proof. apply mv_set_content_sub. intros c Hc. apply elems_insert_in in Hc. tauto. Qed.
Lemma mv_reinsert_mv i n k j : node_mv mv i n (set_content n (insert_at (remove_at (n_content n) k) j (CElem mv))).
Proof.
  apply mv_set_content_sub. intros c Hc. apply elems_insert_in in Hc as [->|Hc]; auto. left. eapply elems_remove_incl; eauto.
Qed.
Lemma mv_reparent n p : node_mv mv mv n (set_parent n p).
Proof. repeat split; auto. Qed.
Hint Resolve mv_head_data mv_only_data mv_remove_at mv_insert_mv mv_reinsert_mv mv_reparent : mrp.

Lemma mr_add_identifiable m p e : mrp mv (add_identifiable m p e).
Proof. unfold add_identifiable. mr_tac mv. Qed.
Lemma mr_remove_identifiable m p : mrp mv (remove_identifiable m p).
Proof. unfold remove_identifiable. mr_tac mv. Qed.
Lemma mr_fix_identifiables m a b : mrp mv (fix_identifiables m a b).
Proof. unfold fix_identifiables. mr_tac mv. Qed.
Lemma mr_add_reference_origin m r e : mrp mv (add_reference_origin m r e).
Proof. unfold add_reference_origin. mr_tac mv. Qed.
Lemma mr_remove_reference_origin m r e : mrp mv (remove_reference_origin m r e).
Proof. unfold remove_reference_origin. mr_tac mv. Qed.
Hint Resolve mr_add_identifiable mr_remove_identifiable mr_fix_identifiables mr_add_reference_origin mr_remove_reference_origin : mrp.

Lemma mr_raw_set_character_data i v version : mrp mv (raw_set_character_data T check_fn i v version).
Proof. unfold raw_set_character_data. mr_tac mv. Qed.
Lemma mr_make_unique_item_name i m pp : mrp mv (make_unique_item_name T i m pp).
Proof. unfold make_unique_item_name. mr_tac mv. Qed.
Lemma mr_detach_from p : mrp mv (detach_from p mv).
Proof. unfold detach_from. mr_tac mv. Qed.
Lemma mr_content_insert_mv self pos : mrp mv (content_insert self pos (CElem mv)).
Proof. unfold content_insert. mr_tac mv. Qed.
Lemma mr_move_element_position self pos e : mrp mv (move_element_position self mv pos e).
Proof. unfold move_element_position. mr_tac mv. Qed.
Hint Resolve mr_raw_set_character_data mr_make_unique_item_name mr_detach_from mr_content_insert_mv mr_move_element_position : mrp.

Lemma mr_move_element_local self pos m version : mrp mv (move_element_local T check_fn self mv pos m version).
Proof. unfold move_element_local. mr_tac mv. Qed.
Lemma mr_move_element_full self pos m m_src version : mrp mv (move_element_full T tab_en check_fn self mv pos m m_src version).
Proof. unfold move_element_full. mr_tac mv. Qed.
Hint Resolve mr_move_element_local mr_move_element_full : mrp.

Lemma mr_e_move_element_here h : mrp mv (e_move_element_here T tab_en check_fn LATEST h mv).
Proof. unfold e_move_element_here. mr_tac mv. Qed.
Lemma mr_e_move_element_here_at h pos : mrp mv (e_move_element_here_at T tab_en check_fn LATEST h mv pos).
Proof. unfold e_move_element_here_at. mr_tac mv. Qed.

End MoveOps.

(* ------------------------------------------------------------------ the invariant under MoveRel *)
Section MoveTransfer.
Variable T : tables.

Lemma eff_transfer_node w w' i n n' : w_nodes w i = Some n -> w_nodes w' i = Some n' -> n_files n' = n_files n ->
  (forall p, n_parent n = PElem p -> n_files n = [] -> n_parent n' = PElem p /\ forall s, Eff w p s -> Eff w' p s) ->
  forall s, Eff w i s -> Eff w' i s.
Proof.
  intros Hn Hn' Fs Hp s Hs. destruct Hs as [i n0 Hn0 Hne | i n0 p s Hn0 He Hpp Hs].
  - assert (n0 = n) by congruence. subst n0. rewrite <- Fs. constructor; auto. congruence.
  - assert (n0 = n) by congruence. subst n0. destruct (Hp p Hpp He) as (Hp' & Tr).
    eapply Eff_up; eauto. congruence.
Qed.

Definition keepsA (w w' : world) (root i : id) : Prop :=
  exists n n', w_nodes w i = Some n /\ w_nodes w' i = Some n' /\ Reach w root i /\
    (forall s, Eff w i s -> Eff w' i s) /\
    (forall p, n_parent n' = PElem p -> n_parent n = PElem p /\ forall s, Eff w p s -> Eff w' p s).

Lemma move_classes mv w w' x x' : TreeInv w -> Core w' -> MoveRel mv w w' -> FilesInvM T w x ->
  In x (w_models w) -> In x' (w_models w') -> mview x = mview x' ->
  (forall y n, Reach w mv y -> w_nodes w y = Some n -> n_files n = []) ->
  forall i, Reach w' (m_root x') i ->
    (m_files x <> [] -> exists s, Eff w' i s) /\ (keepsA w w' (m_root x) i \/ Reach w mv i).
Proof.
  intros (C & NO & _) C' MR FIx Hx Hx' Hv Hsub. injection Hv as Hroot Hfiles.
  assert (forall y n', w_nodes w' y = Some n' -> exists n, w_nodes w y = Some n /\ node_mv mv y n n') as Back.
  { intros y n' Hn'. destruct (w_nodes w y) as [n|] eqn:Hn.
    - destruct (mr_node _ _ _ MR _ _ Hn) as (n'' & Hn'' & K). assert (n'' = n') by congruence. subst. eauto.
    - rewrite (mr_none _ _ _ MR _ Hn) in Hn'. discriminate. }
  intros i Hr. rewrite <- Hroot in Hr. induction Hr as [H|p c Hp IH Hl].
  - destruct (root_node _ _ C Hx) as (n & k & Hn & Hpn).
    destruct (mr_node _ _ _ MR _ _ Hn) as (n' & Hn' & (Ty & Fs & _ & _)).
    destruct (root_node _ _ C' Hx') as (n'' & k' & Hn'' & Hpn'). rewrite <- Hroot in Hn''. assert (n'' = n') by congruence. subst n''.
    assert (forall s, Eff w (m_root x) s -> Eff w' (m_root x) s) as Tr.
    { apply (eff_transfer_node w w' (m_root x) n n'); auto. intros p Hp' _. congruence. }
    split.
    + intros Hne. destruct (fi_eff _ _ _ FIx Hne (m_root x)) as (s & Hs); [constructor; exists n; auto|]. eauto.
    + left. exists n, n'. split; [exact Hn|]. split; [exact Hn'|]. split; [constructor; exists n; auto|]. split; [exact Tr|].
      intros p0 Hp0. congruence.
  - destruct IH as (IHd & IHc).
    destruct Hl as (pn' & Hpn' & Hc). destruct (Back _ _ Hpn') as (pn & Hpn & (_ & _ & _ & Kp)).
    assert (lists w' p c) as Hl' by (exists pn'; auto).
    destruct (c_up _ C' _ _ Hl') as (cn' & Hcn' & Hpar').
    destruct (Back _ _ Hcn') as (cn & Hcn & (Tyc & Fsc & _ & _)).
    assert (keepsA w w' (m_root x) c \/ Reach w mv c) as Cl.
    { destruct (Kp c Hc) as [Hck|Ecm]; [|subst c; right; constructor; exists cn; auto].
      assert (lists w p c) as Hlw by (exists pn; auto).
      destruct IHc as [(pn0 & pn0' & Hpn0 & Hpn0' & Hrp & Trp & _)|Hbp]; [|right; eapply R_kid; eauto].
      left. destruct (c_up _ C _ _ Hlw) as (cn0 & Hcn0 & Hparw). assert (cn0 = cn) by congruence. subst cn0.
      exists cn, cn'. split; auto. split; auto. split; [eapply R_kid; eauto|]. split.
      - apply (eff_transfer_node w w' c cn cn'); auto. intros p0 Hp0 _. assert (p0 = p) by congruence. subst. split; auto.
      - intros p0 Hp0. assert (p0 = p) by congruence. subst. split; auto. }
    split; auto.
    intros Hne. destruct Cl as [(cn0 & cn0' & Hcn0 & Hcn0' & Hrc & Trc & _)|Hb].
    + destruct (fi_eff _ _ _ FIx Hne c Hrc) as (s & Hs). eauto.
    + destruct (IHd Hne) as (sp & Hsp). exists sp. eapply Eff_up; eauto.
      rewrite Fsc. eapply Hsub; eauto.
Qed.

Theorem move_transfer mv w w' : TreeInv w -> Core w' -> MoveRel mv w w' -> FilesInv T w ->
  (forall y n, Reach w mv y -> w_nodes w y = Some n -> n_files n = []) -> FilesInv T w'.
Proof.
  intros TI C' MR FI Hsub x' Hx'.
  assert (exists x, In x (w_models w) /\ mview x = mview x') as (x & Hx & Hv).
  { apply (in_map mview) in Hx'. rewrite (mr_models _ _ _ MR) in Hx'. apply in_map_iff in Hx' as (x & E & Hx). eauto. }
  pose proof (FI x Hx) as FIx.
  pose proof (move_classes mv w w' x x' TI C' MR FIx Hx Hx' Hv Hsub) as CL.
  pose proof TI as (C & NO & _). injection Hv as Hroot Hfiles.
  assert (forall y n', w_nodes w' y = Some n' -> exists n, w_nodes w y = Some n /\ node_mv mv y n n') as Back.
  { intros y n' Hn'. destruct (w_nodes w y) as [n|] eqn:Hn.
    - destruct (mr_node _ _ _ MR _ _ Hn) as (n'' & Hn'' & K). assert (n'' = n') by congruence. subst. eauto.
    - rewrite (mr_none _ _ _ MR _ Hn) in Hn'. discriminate. }
  constructor.
  - intros i n' Hr Hn'. rewrite <- Hfiles. destruct (Back _ _ Hn') as (n & Hn & (_ & Fs & _ & _)). rewrite Fs.
    destruct (CL i Hr) as (_ & [(n0 & n0' & Hn0 & _ & Hrw & _)|Hb]).
    + assert (n0 = n) by congruence. subst. eapply (fi_sub _ _ _ FIx); eauto.
    + rewrite (Hsub i n Hb Hn). intros g [].
  - intros i n' p Hr Hn' Hne Hp. destruct (Back _ _ Hn') as (n & Hn & (_ & Fs & _ & _)).
    destruct (CL i Hr) as (_ & [(n0 & n0' & Hn0 & Hn0' & Hrw & _ & Par)|Hb]).
    + assert (n0 = n) by congruence. subst n0. assert (n0' = n') by congruence. subst n0'.
      destruct (Par p Hp) as (Hpw & Trp).
      destruct (fi_par _ _ _ FIx i n p Hrw Hn) as (s & Hs & Hi); try congruence.
      exists s. split; auto. rewrite Fs. exact Hi.
    + exfalso. apply Hne. rewrite Fs. eapply Hsub; eauto.
  - intros i n' p pn' Hr Hn' Hne Hp Hpn'. destruct (Back _ _ Hn') as (n & Hn & (_ & Fs & _ & _)).
    destruct (Back _ _ Hpn') as (pn & Hpn & (Typ & _)).
    destruct (CL i Hr) as (_ & [(n0 & n0' & Hn0 & Hn0' & Hrw & _ & Par)|Hb]).
    + assert (n0 = n) by congruence. subst n0. assert (n0' = n') by congruence. subst n0'.
      destruct (Par p Hp) as (Hpw & _). eapply split_ok_type; eauto.
      eapply (fi_split _ _ _ FIx i n p pn); eauto; congruence.
    + exfalso. apply Hne. rewrite Fs. eapply Hsub; eauto.
  - intros Hne i Hr. destruct (CL i Hr) as (Hd & _). apply Hd. congruence.
Qed.

End MoveTransfer.
