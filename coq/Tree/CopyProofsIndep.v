(* Tree/CopyProofsIndep.v — C13: independence for the whole operation alphabet `op`.
     op_handles o / op_models o : the node handles an operation writes through, the model numbers it addresses.
     op_apart P PM o            : none of the handles is in the protected region P, none of the models is protected.
     irp_run_op                 : such an operation keeps Sealed and leaves the protected part alone (Same).
     independent_history        : ... along every history.
     Sealed_of_TreeInv          : the tree of a model b of a world with TreeInv is a Sealed region as soon as the index
                                  maps of the other models mention no node of it.
     independent_all            : the statement for one model b in terms of TreeInv. *)
From AV Require Import Base.Bytes Base.Outcome Hash.HashModel Tree.Heap Tree.Ops Tree.Script Tree.Inv
  Tree.CopyProofsW Tree.CopyProofsDefs Tree.CopyProofsIrp Tree.CopyProofsIrpLib Tree.CopyProofsGrow Tree.CopyProofsIrpOps.
From Coq Require Import Lia PeanoNat.
Open Scope string_scope.
Open Scope list_scope.
Open Scope N_scope.

(* the handles through which an operation writes (a copy only reads its source, set_reference_target only reads its
   target, remove takes the removed element out of the content list of h) *)
Definition op_handles (o : op) : list id :=
  match o with
  | OpMove h mv | OpMoveAt h mv _ => [h; mv]
  | OpNewModel | OpCreateFile _ _ _ | OpRemoveFile _ _ => []
  | OpCreateSub h _ | OpCreateSubAt h _ _ | OpCreateNamed h _ _ | OpCreateNamedAt h _ _ _
  | OpCopy h _ | OpCopyAt h _ _ | OpRemove h _ | OpRemoveKind h _ | OpSetItemName h _
  | OpSetCData h _ | OpRemoveCData h | OpInsertCItem h _ _ | OpRemoveCItem h _
  | OpSetRefTarget h _ | OpSetAttr h _ _ | OpRemoveAttr h _ | OpSetComment h _
  | OpGetOrCreate h _ | OpGetOrCreateNamed h _ _ | OpAddToFile h _ | OpRemoveFromFile h _ => [h]
  end.
Definition op_models (o : op) : list N :=
  match o with
  | OpCreateFile m _ _ | OpRemoveFile m _ => [m]
  | _ => []
  end.
Definition op_apart (P : id -> Prop) (PM : N -> Prop) (o : op) : Prop :=
  (forall i, In i (op_handles o) -> ~ P i) /\ (forall m, In m (op_models o) -> ~ PM m).

Lemma Sub_same w w' a :
  (forall x, Sub w a x -> w_nodes w' x = w_nodes w x) -> forall x, Sub w' a x <-> Sub w a x.
Proof.
  intros Hsame x. split; intros HS.
  - induction HS as [|p n c HS IH Hp Hin]; [constructor|]. rewrite (Hsame p IH) in Hp. econstructor; eauto.
  - induction HS as [|p n c HS IH Hp Hin]; [constructor|]. rewrite <- (Hsame p HS) in Hp. econstructor; eauto.
Qed.

(* ------------------------------------------------------------------ one model of a well-formed world *)
(* the index maps of the models other than b mention no node of the region P *)
Definition IndexApart (w : world) (P : id -> Prop) (b : N) : Prop :=
  forall m x, m <> b -> nth_opt (w_models w) (N.to_nat m) = Some x ->
    (forall p j, In (p, j) (m_idents x) -> ~ P j) /\ (forall p l j, In (p, l) (m_origins x) -> In j l -> ~ P j).

(* the file list of model b names existing files, and every file that says it belongs to b is on the list *)
Definition FilesListed (w : world) (b : N) (xb : model) : Prop :=
  (forall f, In f (m_files xb) -> exists fl, nth_opt (w_files w) (N.to_nat f) = Some fl) /\
  (forall f fl, nth_opt (w_files w) (N.to_nat f) = Some fl -> f_model fl = b -> In f (m_files xb)).

Lemma in_elems_c c l : In c (elems l) <-> In (CElem c) l.
Proof.
  induction l as [|[x|d] l IH]; cbn; [tauto| |].
  - rewrite IH. split; intros [H|H]; auto; left; congruence.
  - rewrite IH. split; [auto|intros [H|H]; [discriminate|auto]].
Qed.

Lemma root_of_model w b xb :
  Core w -> nth_opt (w_models w) (N.to_nat b) = Some xb ->
  nth_error (roots w) (N.to_nat b) = Some (m_root xb) /\
  exists n, w_nodes w (m_root xb) = Some n /\ n_parent n = PModel b.
Proof.
  intros C Hb. assert (Hr : nth_error (roots w) (N.to_nat b) = Some (m_root xb)).
  { unfold roots. rewrite nth_error_map, <- nth_opt_nth_error, Hb. reflexivity. }
  split; [exact Hr|]. destruct (c_roots w C _ _ Hr) as (n & Hn & Hp). exists n. split; [exact Hn|].
  rewrite Nnat.N2Nat.id in Hp. exact Hp.
Qed.

Lemma Sub_cases w a x : Sub w a x -> x = a \/ exists p, Sub w a p /\ lists w p x.
Proof.
  intros HS. destruct HS as [|p n c HS Hp Hin]; [left; reflexivity|right].
  exists p. split; [exact HS|]. exists n. split; [exact Hp|]. unfold kids. apply in_elems_c. exact Hin.
Qed.

Lemma Sub_alloc w a x : Core w -> allocated w a -> Sub w a x -> allocated w x.
Proof.
  intros C Ha HS. destruct (Sub_cases _ _ _ HS) as [->|(p & _ & Hl)]; [exact Ha|].
  destruct (c_up w C _ _ Hl) as (n & Hn & _). exists n. exact Hn.
Qed.

Theorem Sealed_of_TreeInv w b xb :
  TreeInv w -> nth_opt (w_models w) (N.to_nat b) = Some xb ->
  IndexApart w (Sub w (m_root xb)) b ->
  FilesListed w b xb ->
  Sealed (Sub w (m_root xb)) (fun m => m = b) (fun f => In f (m_files xb)) w.
Proof.
  intros (C & (Hf & HR)) Hb HI HF. destruct (root_of_model w b xb C Hb) as (Hroots & rn & Hrn & Hrp).
  assert (Hnotkid : forall p, ~ lists w p (m_root xb)).
  { intros p Hl. destruct (c_up w C _ _ Hl) as (n & Hn & Hp). congruence. }
  split; [|split; [|split; [|split; [|split; [exact (proj1 HF)|intros f fl Hn Hfl E; exact (Hn (proj2 HF f fl Hfl E))]]]]].
  - intros i Hi. apply (c_alloc w C). eapply Sub_alloc; eauto. exists rn. exact Hrn.
  - intros i n Hi Hn. split; [|split].
    + intros c Hc HS. assert (Hl : lists w i c). { exists n. split; [exact Hn|]. apply in_elems_c. exact Hc. }
      destruct (Sub_cases _ _ _ HS) as [->|(p & HSp & Hl2)]; [exact (Hnotkid _ Hl)|].
      destruct (c_up w C _ _ Hl) as (cn & Hcn & Hp1). destruct (c_up w C _ _ Hl2) as (cn2 & Hcn2 & Hp2).
      assert (p = i) by congruence. subst p. exact (Hi HSp).
    + intros p Hp HS. apply Hi. assert (Hl : lists w p i). { apply Hf. exists n. auto. }
      destruct Hl as (pn & Hpn & Hin). econstructor; [exact HS|exact Hpn|]. apply in_elems_c. exact Hin.
    + intros m Hp ->. apply Hi. pose proof (HR _ _ _ Hn Hp) as E. rewrite Hroots in E. injection E as <-. constructor.
  - intros m x Hm Hx. destruct (HI m x Hm Hx) as (H1 & H2). split; [|split; [exact H1|exact H2]].
    intros HS. assert (Hr : nth_error (roots w) (N.to_nat m) = Some (m_root x)).
    { unfold roots. rewrite nth_error_map, <- nth_opt_nth_error, Hx. reflexivity. }
    destruct (c_roots w C _ _ Hr) as (n & Hn & Hp). rewrite Nnat.N2Nat.id in Hp.
    destruct (Sub_cases _ _ _ HS) as [E|(p & _ & Hl)].
    + rewrite E in Hn. apply Hm. congruence.
    + destruct (c_up w C _ _ Hl) as (n2 & Hn2 & Hp2). congruence.
  - intros m ->. eauto.
Qed.

(* what Same says about one model b whose tree is the protected region *)
Lemma Same_model w w' b xb :
  nth_opt (w_models w) (N.to_nat b) = Some xb ->
  Same (Sub w (m_root xb)) (fun m => m = b) (fun f => In f (m_files xb)) w w' ->
  nth_opt (w_models w') (N.to_nat b) = Some xb /\
  (forall f, In f (m_files xb) -> nth_opt (w_files w') (N.to_nat f) = nth_opt (w_files w) (N.to_nat f)) /\
  (forall x, Sub w (m_root xb) x -> w_nodes w' x = w_nodes w x) /\
  (forall x, Sub w' (m_root xb) x <-> Sub w (m_root xb) x).
Proof.
  intros Hb (Hn & Hm & Hf & _). split; [rewrite (Hm b eq_refl); exact Hb|]. split; [exact Hf|].
  split; [exact Hn|apply Sub_same; exact Hn].
Qed.

Section Indep.
Variable T : tables.
Variable tab_el tab_en : nametab.
Variable check_fn : N -> list N -> res bool.
Variable LATEST name_index name_definition_ref : N.
Variable root_attrs : list (N * cdata).

Notation run := (run_op T tab_el tab_en check_fn LATEST root_attrs).
Notation run_ops := (Inv.run_ops T tab_el tab_en check_fn LATEST root_attrs).

Section Region.
Variable P : id -> Prop.
Variable PM : N -> Prop.
Variable PF : N -> Prop.

Section Bounds.
Variables L LM LF : N.
Notation irpL := (irpL P PM PF L LM LF).
Notation irpqL := (irpqL P PM PF L LM LF).

Lemma grows_ret_after {A B} (g : A -> B) : forall a : A, grows (wret (g a)).
Proof. intros a. apply grows_ro. apply ro_ret. Qed.

Lemma irp_welem c : irpqL (fun i => ~ P i) c -> irpL (welem c).
Proof.
  intros H. unfold welem. eapply irpq_bind; [exact H|intros a; apply grows_ro; apply ro_ret|].
  intros a _. apply irpq_ret. exact I.
Qed.
Lemma irp_wunit c : irpL c -> irpL (wunit c).
Proof.
  intros H. unfold wunit. eapply irpq_bind; [exact H|intros a; apply grows_ro; apply ro_ret|].
  intros a _. apply irpq_ret. exact I.
Qed.

Theorem irp_run_opL o : op_apart P PM o -> irpL (run o).
Proof.
  intros (Hh & Hm).
  destruct o; cbn [op_handles op_models] in Hh, Hm; cbn [run_op];
    try (assert (Hh1 : ~ P h) by (apply Hh; left; reflexivity)).
  - apply irp_welem. apply irpq_e_create_sub; assumption.
  - apply irp_welem. apply irpq_e_create_sub_at; assumption.
  - apply irp_welem. apply irpq_e_create_named; assumption.
  - apply irp_welem. apply irpq_e_create_named_at; assumption.
  - apply irp_welem. apply irpq_e_copy; assumption.
  - apply irp_welem. apply irpq_e_copy_at; assumption.
  - apply irp_welem. apply irpq_e_move; [assumption|]. apply Hh. right. left. reflexivity.
  - apply irp_welem. apply irpq_e_move_at; [assumption|]. apply Hh. right. left. reflexivity.
  - apply irp_wunit. apply irp_e_remove; assumption.
  - apply irp_wunit. apply irp_e_remove_kind; assumption.
  - apply irp_wunit. apply irp_set_item_name; assumption.
  - apply irp_wunit. apply irp_e_set_cdata; assumption.
  - apply irp_wunit. apply irp_e_remove_cdata; assumption.
  - apply irp_wunit. apply irp_e_insert_citem; assumption.
  - apply irp_wunit. apply irp_e_remove_citem; assumption.
  - apply irp_wunit. apply irp_e_set_reference_target; assumption.
  - apply irp_wunit. apply irp_e_set_attribute; assumption.
  - eapply irpq_bind; [apply irp_e_remove_attribute; assumption|intros a; apply grows_ro; apply ro_ret|]. intros a _. apply irpq_ret. exact I.
  - apply irp_wunit. apply irp_e_set_comment; assumption.
  - apply irp_welem. apply irpq_e_get_or_create; assumption.
  - apply irp_welem. apply irpq_e_get_or_create_named; assumption.
  - eapply irpq_bind; [apply irpq_new_model|intros a; apply grows_ro; apply ro_ret|]. intros a _. apply irpq_ret. exact I.
  - eapply irpq_bind; [apply irpq_create_file; apply Hm; left; reflexivity|intros a; apply grows_ro; apply ro_ret|]. intros a _. apply irpq_ret. exact I.
  - apply irp_wunit. apply irp_remove_file. apply Hm. left. reflexivity.
  - apply irp_wunit. apply irp_add_to_file; assumption.
  - apply irp_wunit. apply irp_remove_from_file; assumption.
Qed.
End Bounds.

Notation irp := (irp P PM PF).
Notation irpq := (irpq P PM PF).

Theorem irp_run_op o : op_apart P PM o -> irp (run o).
Proof. intros H. apply irpq_of_L. intros L LM LF. apply irp_run_opL. exact H. Qed.

Theorem independent_history l : forall w w',
  Sealed P PM PF w -> Forall (op_apart P PM) l -> run_ops l w = Val w' -> Sealed P PM PF w' /\ Same P PM PF w w'.
Proof.
  induction l as [|o l IH]; intros w w' S HF H; cbn [Inv.run_ops] in H.
  - injection H as <-. split; [exact S|apply Same_refl].
  - inversion HF as [|? ? Ho Hl]; subst. unfold Inv.run in H.
    destruct (run o w) as [[r w1]| |] eqn:E; try discriminate H.
    destruct (irp_run_op o Ho _ _ _ S E) as (S1 & Sm1 & _).
    destruct (IH _ _ S1 Hl H) as (S2 & Sm2). split; [exact S2|eapply Same_trans; eauto].
Qed.

End Region.

(* INDEPENDENCE, every operation: an operation none of whose handles lies in the tree of model b, and which does not
   address b by number, leaves b alone: its record (root, file list, index maps), the records of its files, every node
   of its tree, its reachable set *)
Theorem independent_all o w r w' b xb :
  TreeInv w -> nth_opt (w_models w) (N.to_nat b) = Some xb ->
  IndexApart w (Sub w (m_root xb)) b ->
  FilesListed w b xb ->
  (forall i, In i (op_handles o) -> ~ Sub w (m_root xb) i) -> (forall m, In m (op_models o) -> m <> b) ->
  run o w = Val (r, w') ->
  nth_opt (w_models w') (N.to_nat b) = Some xb /\
  (forall f, In f (m_files xb) -> nth_opt (w_files w') (N.to_nat f) = nth_opt (w_files w) (N.to_nat f)) /\
  (forall x, Sub w (m_root xb) x -> w_nodes w' x = w_nodes w x) /\
  (forall x, Sub w' (m_root xb) x <-> Sub w (m_root xb) x) /\
  IndexApart w' (Sub w' (m_root xb)) b.
Proof.
  intros HT Hb HI HF Hh Hm H. pose proof (Sealed_of_TreeInv w b xb HT Hb HI HF) as S.
  destruct (irp_run_op _ _ _ o (conj Hh Hm) _ _ _ S H) as (S' & Sm & _).
  destruct (Same_model w w' b xb Hb Sm) as (A & B & C & D). split; [exact A|]. split; [exact B|]. split; [exact C|].
  split; [exact D|]. intros m x Hmb Hx. destruct (proj1 (proj2 (proj2 S')) m x Hmb Hx) as (_ & H1 & H2).
  split; [intros p j Hin HS; apply D in HS; exact (H1 p j Hin HS)|intros p l j Hin Hj HS; apply D in HS; exact (H2 p l j Hin Hj HS)].
Qed.

(* ... and every history of such operations *)
Theorem independent_histories l w w' b xb :
  TreeInv w -> nth_opt (w_models w) (N.to_nat b) = Some xb ->
  IndexApart w (Sub w (m_root xb)) b ->
  FilesListed w b xb ->
  Forall (op_apart (Sub w (m_root xb)) (fun m => m = b)) l ->
  run_ops l w = Val w' ->
  nth_opt (w_models w') (N.to_nat b) = Some xb /\
  (forall f, In f (m_files xb) -> nth_opt (w_files w') (N.to_nat f) = nth_opt (w_files w) (N.to_nat f)) /\
  (forall x, Sub w (m_root xb) x -> w_nodes w' x = w_nodes w x) /\
  (forall x, Sub w' (m_root xb) x <-> Sub w (m_root xb) x).
Proof.
  intros HT Hb HI HF HL H. pose proof (Sealed_of_TreeInv w b xb HT Hb HI HF) as S.
  destruct (independent_history _ _ _ l _ _ S HL H) as (_ & Sm). exact (Same_model w w' b xb Hb Sm).
Qed.

End Indep.
