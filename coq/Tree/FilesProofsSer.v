(* Tree/FilesProofsSer.v — C10 proofs: the serialize side over histories.  After every history of the extended alphabet
   that avoids the recorded classes, ArxmlFile::serialize of a file f (Serialize.f_serialize) returns the header of the
   file followed by a body that ser_heap produces from EXACTLY the elements attributed to f: the list of written
   elements (Files.ser_ids, C10_ser_visits) contains only elements of the model that are attributed to f, and — when
   elements with sub-elements do not have character content mode (Recursible, C07) — all of them; and every element of
   the model is in the list of at least one file of the model. *)
From Coq Require Import PeanoNat Arith Lia.
From AV Require Import Base.Bytes Base.Outcome Hash.HashModel Tree.Heap Tree.Ops Tree.Script Tree.Serialize
  Tree.Inv Tree.InvProofsBase Tree.InvProofsCore Tree.InvProofsTree Tree.InvProofsPrim Tree.InvProofsData
  Tree.Files Tree.FilesProofsBase Tree.FilesProofsProj Tree.FilesProofsFrame Tree.FilesProofsOps
  Tree.FilesProofsAdd Tree.FilesProofsExact Tree.FilesProofsHist Tree.FilesProofsTop Tree.FilesProofsOwned Tree.FilesProofsOp2.
From AV Require Import Tree.Script2.
From AV Require Xml.Serializer.
Open Scope string_scope.
Open Scope list_scope.
Open Scope N_scope.

Section Ser.
Variable T : tables.
Variable tab_el tab_at tab_en : nametab.
Variable check_fn : N -> list N -> res bool.
Variable float_parse : list N -> option N.
Variable float_fmt : N -> list N.
Variable LATEST name_index name_definition_ref attr_schema_location : N.
Variable root_attrs : list (N * cdata).

Let FS := f_serialize T tab_el tab_at tab_en check_fn float_fmt attr_schema_location.

(* what the text of a file is made of, in the world the call leaves behind *)
Definition WrittenExactly (w1 : world) (f : N) (root : id) (text : list N) (sa : option bool) : Prop :=
  exists body l,
    text = Serializer.xml_header sa ++ body /\
    ser_heap T tab_el tab_at tab_en float_fmt (fuel_of w1) w1 (Some f) root 0 false = Val body /\
    ser_ids T (fuel_of w1) w1 (Some f) root = Val l /\
    (forall i, In i l -> Reach w1 root i /\ Attributed w1 i f) /\
    (Recursible T w1 -> forall i, Reach w1 root i -> Attributed w1 i f -> In i l).

(* one state: TreeInv and FilesInv suffice *)
Theorem serialize_exact f w text w1 : TreeInv w -> FilesInv T w -> FS f w = Val (OK text, w1) ->
  TreeInv w1 /\ FilesInv T w1 /\
  exists fl x, nth_opt (w_files w) (N.to_nat f) = Some fl /\ nth_opt (w_models w) (N.to_nat (f_model fl)) = Some x /\
    WrittenExactly w1 f (m_root x) text (f_standalone fl).
Proof.
  intros TI FI H. pose proof TI as (C & NO). unfold FS, f_serialize in H.
  apply wbind_inv in H as [(fl & w0 & H1 & H) | (e0 & H1 & [=])].
  apply get_file_inv in H1 as (fl' & Hfl & [= <-] & ->).
  apply wbind_inv in H as [(x & w0 & H1 & H) | (e0 & H1 & [=])].
  apply get_model_inv in H1 as (x' & Hx & [= <-] & ->).
  apply wbind_inv in H as [([loc files] & w0 & H1 & H) | (e0 & H1 & [=])].
  apply file_membership_spec in H1 as (-> & Heff & _).
  destruct (set_mem f files) eqn:Hm; cbn [negb] in H; [|apply wfail_inv in H as ([=] & _)].
  apply wbind_inv in H as [(fname & w0 & H1 & H) | (e0 & H1 & [=])].
  apply wlift_inv in H1 as (a & _ & [= <-] & ->).
  apply wbind_inv in H as [(u & w2 & H2 & H) | (e0 & H2 & [=])].
  apply wtry_inv in H2 as (r1 & H2 & _).
  destruct (ser_heap T tab_el tab_at tab_en float_fmt (fuel_of w2) w2 (Some f) (m_root x) 0 false) as [body| |] eqn:Eb; try discriminate H.
  injection H as <- <-.
  (* the world after the attribute of the root was rewritten *)
  pose proof (stp_raw_set_attribute T check_fn _ _ _ _ _ _ _ H2) as ST.
  assert (TreeInv w2) as TI2 by (eapply TreeInv_same_tree; eauto).
  destruct (ff_raw_set_attribute T check_fn _ _ _ _ _ _ _ (core_fresh _ C) H2) as (F & _).
  pose proof (frame_transfer T w w2 TI (proj1 TI2) F FI) as FI2.
  split; [exact TI2|]. split; [exact FI2|]. exists fl, x. split; [exact Hfl|]. split; [exact Hx|].
  destruct TI2 as (C2 & _). destruct ST as (_ & Hroots & Hskel).
  (* the record of the model in w2: same root *)
  assert (In x (w_models w)) as Hxin by (rewrite nth_opt_error in Hx; eapply nth_error_In; eauto).
  assert (exists x2, In x2 (w_models w2) /\ m_root x2 = m_root x) as (x2 & Hx2 & Hr2).
  { rewrite nth_opt_error in Hx.
    assert (nth_error (roots w) (N.to_nat (f_model fl)) = Some (m_root x)) as Hk by (unfold roots; rewrite nth_error_map, Hx; reflexivity).
    rewrite <- Hroots in Hk. unfold roots in Hk. rewrite nth_error_map in Hk.
    destruct (nth_error (w_models w2) (N.to_nat (f_model fl))) as [x2|] eqn:E2; [|discriminate Hk]. injection Hk as Hk.
    exists x2. split; [eapply nth_error_In; eauto|exact Hk]. }
  (* the root is attributed to f in w2 as well *)
  destruct (root_node _ _ C Hxin) as (rn & k & Hrn & Hrp).
  assert (n_files rn <> []) as Hne.
  { intros E. destruct (Eff_up_inv _ _ _ _ Heff Hrn E) as (p & Hp & _). congruence. }
  assert (files = n_files rn) as -> by (eapply Eff_local_inv; eauto).
  assert (Attributed w2 (m_root x) f) as Hroot2.
  { destruct (fr_old _ _ F _ _ Hrn) as (rn2 & Hrn2 & _ & K).
    assert (n_parent rn2 = n_parent rn) as Hp2.
    { specialize (Hskel (m_root x)). unfold skel in Hskel. rewrite Hrn, Hrn2 in Hskel. congruence. }
    assert (n_files rn2 = n_files rn) as Hf2.
    { destruct K as [(E & _)|(_ & E)]; auto. rewrite Hp2, Hrp in E. discriminate E. }
    exists (n_files rn). split; [|apply set_mem_in; exact Hm]. rewrite <- Hf2. constructor; auto. congruence. }
  destruct (ser_visits T tab_el tab_at tab_en float_fmt _ _ _ _ _ _ _ Eb) as (l & Hl & Hin).
  exists body, l. split; [reflexivity|]. split; [exact Eb|]. split; [exact Hl|].
  pose proof (FI2 x2 Hx2) as FIx2. rewrite <- Hr2 in *. split.
  - intros i Hi. apply Hin in Hi. split; [eapply proj_reach; eauto|].
    apply (proj1 (filter_is_eff T w2 x2 f C2 Hx2 FIx2 Hroot2 i (proj_reach T _ _ _ _ Hi)) Hi).
  - intros Hrec i Hr Ha. apply Hin. apply (proj2 (filter_is_eff T w2 x2 f C2 Hx2 FIx2 Hroot2 i Hr) Hrec Ha).
Qed.

Notation run2s := (run_ops2 T tab_el tab_at tab_en check_fn float_parse float_fmt LATEST name_index name_definition_ref
                            attr_schema_location root_attrs).
Notation ok2s := (steps_ok2 T tab_el tab_at tab_en check_fn float_parse float_fmt LATEST name_index name_definition_ref
                            attr_schema_location root_attrs).

(* over histories of the extended alphabet (Script.v's 26 operations, sort, set_version, check, serialize) *)
Theorem serialize_exact_histories l w0 w f text w1 :
  TreeInv w0 -> FilesInv T w0 -> FilesOwned w0 -> ok2s l w0 = true -> run2s l w0 = Val w ->
  FS f w = Val (OK text, w1) ->
  exists fl x, nth_opt (w_files w) (N.to_nat f) = Some fl /\ nth_opt (w_models w) (N.to_nat (f_model fl)) = Some x /\
    WrittenExactly w1 f (m_root x) text (f_standalone fl).
Proof.
  intros TI0 FI0 FO0 Hok Hrun H.
  destruct (inv_histories2_owned T tab_el tab_at tab_en check_fn float_parse float_fmt LATEST name_index name_definition_ref
              attr_schema_location root_attrs l w0 w TI0 FI0 FO0 Hok Hrun) as (TI & FI & _).
  destruct (serialize_exact f w text w1 TI FI H) as (_ & _ & R). exact R.
Qed.

Theorem serialize_exact_reachable l w f text w1 :
  ok2s l empty_world = true -> run2s l empty_world = Val w -> FS f w = Val (OK text, w1) ->
  exists fl x, nth_opt (w_files w) (N.to_nat f) = Some fl /\ nth_opt (w_models w) (N.to_nat (f_model fl)) = Some x /\
    WrittenExactly w1 f (m_root x) text (f_standalone fl).
Proof.
  intros Hok Hrun H. eapply serialize_exact_histories; eauto; [apply empty_treeinv|apply empty_filesinv|apply empty_owned].
Qed.

(* ... and nothing is lost: in every state such a history reaches, every element of a model with files is attributed to
   a file of the model and is written for that file *)
Theorem written_somewhere_histories l w0 w :
  TreeInv w0 -> FilesInv T w0 -> FilesOwned w0 -> ok2s l w0 = true -> run2s l w0 = Val w -> Recursible T w ->
  forall x, In x (w_models w) -> m_files x <> [] ->
  forall i, Reach w (m_root x) i -> exists f, In f (m_files x) /\ Attributed w i f /\ Proj T w (Some f) (m_root x) i.
Proof.
  intros TI0 FI0 FO0 Hok Hrun Hrec x Hx Hne i Hr.
  destruct (inv_histories2_owned T tab_el tab_at tab_en check_fn float_parse float_fmt LATEST name_index name_definition_ref
              attr_schema_location root_attrs l w0 w TI0 FI0 FO0 Hok Hrun) as ((C & _) & FI & _).
  pose proof (FI x Hx) as FIx.
  destruct (fi_eff _ _ _ FIx Hne i Hr) as (s & Hs).
  destruct s as [|f s']; [exfalso; eapply Eff_nonempty; eauto|].
  assert (Attributed w i f) as Hai by (exists (f :: s'); split; auto; left; reflexivity).
  assert (Reach w (m_root x) (m_root x)) as Hrr by (constructor; destruct (root_node _ _ C Hx) as (rn & k & Hrn & _); exists rn; auto).
  destruct (fi_eff _ _ _ FIx Hne (m_root x) Hrr) as (sr & Hsr).
  assert (Attributed w (m_root x) f) as Hroot.
  { exists sr. split; auto. apply (FilesProofsExact.eff_mono_down T w x (m_root x) i sr (f :: s') C Hx FIx Hrr Hr Hsr Hs). left. reflexivity. }
  exists f. split; [eapply (Eff_incl_files T w x i (f :: s')); eauto; left; reflexivity|]. split; [exact Hai|].
  apply (proj2 (filter_is_eff T w x f C Hx FIx Hroot i Hr) Hrec Hai).
Qed.

End Ser.
