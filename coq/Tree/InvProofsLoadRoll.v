(* Tree/InvProofsLoadRoll.v — C03 over a REJECTED load, part 2: what remove_sub_element / remove_from_file do to
   reachability in a Core world: a node that was reachable from r is still reachable, or has lost all its sub-elements
   (it lies in a removed subtree); content lists only shrink. *)
From Coq Require Import PeanoNat Arith Lia.
From AV Require Import Base.Bytes Base.Outcome Hash.HashModel Tree.Heap Tree.Ops Tree.Script Tree.Inv
  Tree.InvProofsBase Tree.InvProofsCore Tree.InvProofsTree Tree.InvProofsPrim Tree.InvProofsRemove Tree.InvProofsFiles
  Tree.InvProofsNav Tree.InvProofsLoadMerge.
Open Scope string_scope.
Open Scope list_scope.
Open Scope N_scope.

Section Roll.
Variable T : tables.
Variable r : id.

Definition Rstar (w w' : world) : Prop :=
  (forall x, Reach w r x -> Reach w' r x \/ kids_of w' x = []) /\
  (forall x c, In c (kids_of w' x) -> In c (kids_of w x)) /\
  (forall x, allocated w x -> allocated w' x) /\
  (forall S, OrphE w S -> OrphE w' S).

Lemma Rstar_refl w : Rstar w w.
Proof. split; [auto|split; [auto|split; auto]]. Qed.
Lemma Rstar_trans a b c : Rstar a b -> Rstar b c -> Rstar a c.
Proof.
  intros (A1 & A2 & A3 & A4) (B1 & B2 & B3 & B4). split; [|split; [|split]].
  - intros x Hx. destruct (A1 _ Hx) as [Hb|Hb]; [apply B1; exact Hb|].
    right. destruct (kids_of c x) as [|k l] eqn:E; auto. exfalso.
    assert (In k (kids_of b x)) by (apply B2; rewrite E; left; reflexivity). rewrite Hb in H. destruct H.
  - intros x k Hk. apply A2. apply B2. exact Hk.
  - intros x Hx. apply B3. apply A3. exact Hx.
  - intros S0 HS. apply B4. apply A4. exact HS.
Qed.
Lemma Rstar_same_tree w w' : same_tree w w' -> Rstar w w'.
Proof.
  intros S. pose proof S as (_ & _ & Ss). split; [|split; [|split]].
  - intros x Hx. left. apply (st_reach _ _ _ _ S). exact Hx.
  - intros x c. rewrite !kids_of_skel, Ss. auto.
  - intros x. apply (st_alloc _ _ _ S).
  - intros S0. apply OrphE_same_tree. exact S.
Qed.

Definition RSp {A} (m : W A) : Prop := forall w r0 w', Core w -> m w = Val (r0, w') -> Rstar w w'.
Lemma RSp_stp {A} (m : W A) : stp m -> RSp m.
Proof. intros H w r0 w' _ E. apply Rstar_same_tree. eapply H; eauto. Qed.
Lemma RSp_ro {A} (m : W A) : ro m -> RSp m.
Proof. intros H. apply RSp_stp, stp_ro, H. Qed.
Lemma RSp_bind {A B} (m : W A) (k : A -> W B) : Pres m -> RSp m -> (forall a, RSp (k a)) -> RSp (wbind m k).
Proof.
  intros HP Hm Hk w r0 w' C H. apply wbind_inv in H as [(a & w1 & H1 & H2) | (e & H1 & _)].
  - eapply Rstar_trans; [eapply Hm; eauto|]. eapply Hk; [|exact H2]. exact (proj1 (HP _ _ _ H1 C)).
  - eapply Hm; eauto.
Qed.
Lemma RSp_try {A} (m : W A) : RSp m -> RSp (wtry m).
Proof. intros Hm w r0 w' C H. apply wtry_inv in H as (r1 & H & _). eapply Hm; eauto. Qed.

Lemma RSp_raw_remove self sub m : RSp (raw_remove_sub_element T self sub m).
Proof.
  intros w r0 w' C H. unfold raw_remove_sub_element in H.
  assert (F : Rstar w w) by apply Rstar_refl.
  wrun_ro H ltac:(exact F).
  match goal with Hi : index_of (citem_is sub) (n_content ?n) = Some ?pos |- _ =>
    rename Hi into Hidx; rename n into ns; rename pos into ps end.
  assert (Hl : lists w self sub) by (exists ns; split; auto; eapply index_of_citem_in; eauto).
  pose proof (c_up _ C _ _ Hl) as Hps.
  assert (Hsa : allocated w sub) by (destruct Hps as (x & ? & _); eexists; eauto).
  set (f := N.to_nat (w_next w)) in *.
  pose proof (enough_top _ _ C Hsa) as He. fold f in He.
  wstepn H u Er.
  2:{ destruct (remove_internal_spec T w C f sub _ _ Hsa He w _ _ (fun x _ => eq_refl) Er) as ([=] & _). }
  destruct (remove_internal_spec T w C f sub _ _ Hsa He w _ _ (fun x _ => eq_refl) Er) as (_ & N1 & R1 & Cl & Fr).
  apply modify_node_wset in H as (nq & Hnq & -> & ->).
  assert (HselfL : ~ In self (subl f w sub)) by (apply subl_not_parent; auto).
  assert (nq = ns) as -> by (rewrite Fr in Hnq by auto; congruence).
  set (w' := wset _ self _).
  assert (HL : forall x, In x (subl f w sub) -> skel w' x = Some (PNone, [])).
  { intros x Hx. unfold w'. rewrite skel_wset_neq by (intros ->; auto). auto. }
  assert (Ho : forall x, ~ In x (subl f w sub) -> x <> self -> skel w' x = skel w x).
  { intros x Hx Hxs. unfold w'. rewrite skel_wset_neq by auto. unfold skel. rewrite Fr by auto. reflexivity. }
  assert (Hi' : skel w' self = Some (n_parent ns, elems (remove_at (n_content ns) ps))).
  { unfold w'. rewrite skel_wset_eq. reflexivity. }
  assert (Hi0 : skel w self = Some (n_parent ns, kids ns)) by (apply skel_some; auto).
  assert (Hks : forall x, In x (elems (remove_at (n_content ns) ps)) <-> In x (kids ns) /\ x <> sub).
  { intros x. apply elems_remove_elem; auto. eapply index_of_citem; eauto. eapply c_nodup; eauto. }
  assert (Hdown : forall p c, In p (subl f w sub) -> lists w p c -> In c (subl f w sub)).
  { intros p c. apply subl_closed; auto. }
  assert (Hkids : forall x c, In c (kids_of w' x) -> In c (kids_of w x)).
  { intros x c. rewrite !kids_of_skel. destruct (in_dec N.eq_dec x (subl f w sub)) as [Hin|Hin].
    - rewrite (HL _ Hin). intros [].
    - destruct (N.eq_dec x self) as [->|Hxs].
      + rewrite Hi', Hi0. intros Hc. apply Hks in Hc. tauto.
      + rewrite Ho by auto. auto. }
  assert (Hal : forall x, allocated w x -> allocated w' x).
  { intros x. rewrite !allocated_skel. destruct (in_dec N.eq_dec x (subl f w sub)) as [Hin|Hin].
    - rewrite (HL _ Hin). congruence.
    - destruct (N.eq_dec x self) as [->|Hxs]; [rewrite Hi'; congruence|rewrite Ho by auto; auto]. }
  split; [|split; [auto|split; [auto|]]].
  2:{ eapply (orphe_clear w w' self sub (subl f w sub) (n_parent ns) (kids ns)); eauto.
      - intros x Hx. split; [eapply subl_alloc; eauto|auto].
      - apply subl_self. }
  intros x Hx. destruct (in_dec N.eq_dec x (subl f w sub)) as [Hin|Hin].
  { right. rewrite kids_of_skel, (HL _ Hin). reflexivity. }
  left. induction Hx as [Ha|p x Hrp IH Hlx].
  - constructor. apply Hal. exact Ha.
  - assert (Hpn : ~ In p (subl f w sub)) by (intros Hp; apply Hin; eapply Hdown; eauto).
    econstructor; [apply IH; exact Hpn|].
    apply lists_skel in Hlx as (pp0 & kk0 & Esk & Hc). apply lists_skel.
    destruct (N.eq_dec p self) as [->|Hps0].
    + rewrite Hi0 in Esk. injection Esk as <- <-. rewrite Hi'. do 2 eexists. split; [reflexivity|].
      apply Hks. split; auto. intros ->. apply Hin. apply subl_self.
    + rewrite Ho by auto. eauto.
Qed.

Lemma RSp_e_remove h sub : RSp (e_remove_sub_element T h sub).
Proof.
  unfold e_remove_sub_element. destruct (h =? sub); [apply RSp_ro; ro_tac|].
  apply RSp_bind; [pres_tac|apply RSp_ro; ro_tac|intros m; apply RSp_raw_remove].
Qed.

Theorem RSp_e_remove_from_file e f : RSp (e_remove_from_file T e f).
Proof.
  unfold e_remove_from_file.
  apply RSp_bind; [pres_tac|apply RSp_ro; ro_tac|]. intros n.
  apply RSp_bind; [pres_tac|apply RSp_ro; ro_tac|]. intros ps.
  destruct (negb ps); [apply RSp_ro; ro_tac|].
  apply RSp_bind; [pres_tac|apply RSp_ro; ro_tac|]. intros fm.
  apply RSp_bind; [pres_tac|apply RSp_ro; ro_tac|]. intros m.
  destruct (negb (fm =? m)); [apply RSp_ro; ro_tac|].
  apply RSp_bind; [pres_tac|apply RSp_ro; ro_tac|]. intros [loc cur].
  apply RSp_bind; [pres_tac| |].
  { destruct (is_empty (set_remove f cur)); [|apply RSp_ro; ro_tac].
    apply RSp_bind; [pres_tac|apply RSp_ro; ro_tac|]. intros [pi|]; [|apply RSp_ro; ro_tac].
    apply RSp_bind; [pres_tac|apply RSp_try, RSp_e_remove|intros _; apply RSp_ro; ro_tac]. }
  intros _.
  apply RSp_bind; [pres_tac|apply RSp_stp; stp_tac|]. intros _.
  apply RSp_bind; [pres_tac|apply RSp_ro; ro_tac|]. intros w0.
  apply RSp_bind; [pres_tac|apply RSp_ro; ro_tac|]. intros ids.
  apply RSp_bind; [apply Pres_stp; apply (stp_scan_loop f ids)|apply RSp_stp; apply (stp_scan_loop f ids)|].
  intros to_delete. induction to_delete as [|d rest IHd]; [apply RSp_ro; ro_tac|].
  apply RSp_bind; [pres_tac|apply RSp_ro; ro_tac|]. intros dn.
  apply RSp_bind; [pres_tac|apply RSp_ro; ro_tac|]. intros p.
  apply RSp_bind; [pres_tac| |intros _; exact IHd].
  destruct p as [[pi|]|]; try solve [apply RSp_ro; ro_tac].
  apply RSp_bind; [pres_tac|apply RSp_try, RSp_e_remove|intros _; apply RSp_ro; ro_tac].
Qed.

End Roll.
