(* GENERATED from Tree/InvProofsFiles.v by tools/c03_gen_invE.py: the same proof over NoOrphanP (no RootsOnly), see Tree/InvEBase.v *)
(* Tree/InvProofsFiles.v — C03 proofs: new_model, create_file, add_to_file, remove_from_file, remove_file. *)
From Coq Require Import PeanoNat Arith.
From AV Require Import Base.Bytes Base.Outcome Hash.HashModel Tree.Heap Tree.Ops Tree.Script Tree.Inv
  Tree.InvProofsBase Tree.InvProofsCore Tree.InvProofsTree Tree.InvProofsPrim Tree.InvEBase Tree.InvProofsRemove Tree.InvE_Remove.
Open Scope string_scope.
Open Scope list_scope.
Open Scope N_scope.

Lemma wput_invE w1 w r w' : wput w1 w = Val (r, w') -> r = OK tt /\ w' = w1.
Proof. unfold wput. intros [= <- <-]. auto. Qed.

Section Files.
Variable T : tables.
Variable root_attrs : list (N * cdata).

Lemma stp_files_ifE cur : forall n : node,
  n_parent (if is_empty (n_files n) then set_files n cur else n) = n_parent n /\
  kids (if is_empty (n_files n) then set_files n cur else n) = kids n.
Proof. intros n. destruct (is_empty (n_files n)); split; reflexivity. Qed.

Lemma stp_add_to_file_restrictedE fuel : forall e f, stp (add_to_file_restricted T fuel e f).
Proof.
  induction fuel as [|fl IH]; intros e f; cbn [add_to_file_restricted].
  - intros w r w' H. discriminate.
  - apply stp_bind; [stp_tac|]. intros fm.
    destruct (match fm with Some x => x | None => (true, []) end) as [local cur].
    destruct (set_mem f cur); [stp_tac|].
    apply stp_bind; [stp_tac|]. intros n.
    apply stp_bind; [stp_tac|]. intros sp.
    apply stp_bind.
    { destruct (negb (sp =? 0)); [|stp_tac].
      induction (n_content n) as [|[c|d] l IHl]; [stp_tac| |exact IHl].
      apply stp_bind; [|intros; exact IHl]. apply stp_modify_node. apply stp_files_ifE. }
    intros _. stp_tac; try apply IH.
Qed.
Hint Resolve stp_add_to_file_restrictedE : stp.

Lemma stp_e_add_to_fileE e f : stp (e_add_to_file T e f).
Proof. unfold e_add_to_file. stp_tac. Qed.

Lemma stp_set_file_membershipE e fm : stp (set_file_membership T e fm).
Proof. unfold set_file_membership. stp_tac. Qed.
Hint Resolve stp_set_file_membershipE : stp.

Lemma stp_m_create_fileE m name version : stp (m_create_file T m name version).
Proof.
  intros w r w' H. unfold m_create_file in H.
  wrun_ro H ltac:(apply same_tree_refl).
  wstepn H u Ep.
  apply wput_invE in Ep as (_ & ->).
  eapply same_tree_trans; [|match type of H with ?mm ?wa = _ => refine ((_ : stp mm) wa _ _ H); stp_tac end].
  repeat split; auto.
Qed.

(* ---------- new_model ---------- *)
Lemma Pres_new_modelE : PresE (new_model T root_attrs).
Proof.
  intros w r w' H C. unfold new_model in H.
  destruct (et_new T (autosar_element T)) as [ty|s|]; destruct (elem T (autosar_element T)) as [ed|s'|];
    try discriminate.
  injection H as <- <-.
  set (nd := mkNode _ _ _ _ _ _ _). set (w' := mkWorld _ _ _ _).
  assert (Hn : w_next w' = w_next w + 1) by reflexivity.
  assert (Hr : roots w' = roots w ++ [w_next w]).
  { unfold w', roots. cbn. rewrite map_app. reflexivity. }
  assert (Ho : forall x, x <> w_next w -> skel w' x = skel w x).
  { intros x Hx. unfold skel, w'. cbn. rewrite upd_neq by auto. reflexivity. }
  assert (Hi : skel w' (w_next w) = Some (PModel (N.of_nat (List.length (roots w))), [])).
  { unfold skel, w'. cbn. rewrite upd_eq. unfold roots. rewrite map_length. reflexivity. }
  split.
  - eapply core_new_model; eauto.
  - intros O. apply NoOrphanP_OrphSubE. apply NoOrphanP_OrphSubE in O. eapply orphsubE_new_model; eauto.
Qed.

(* ---------- remove_from_file ---------- *)
Definition scan_loopE (f : N) : list id -> W (list id) :=
  fix scan (l : list id) : W (list id) :=
    match l with
    | [] => wret []
    | s :: rest =>
      (do sn <- get_node s;
       if negb (is_empty (n_files sn)) then
         let fs := set_remove f (n_files sn) in
         set_node s (set_files sn fs);;
         do r <- scan rest;
         wret (if is_empty fs then s :: r else r)
       else scan rest)%W
    end.

Lemma stp_scan_loopE f ids : stp (scan_loopE f ids).
Proof.
  induction ids as [|s rest IH]; intros w r w' H; cbn [scan_loopE] in H.
  - winv H. apply same_tree_refl.
  - wstepn H sn Es; winv Es. destruct (negb (is_empty (n_files n))).
    + wstepn H u Ew. apply set_node_wset in Ew as (_ & ->).
      match type of H with ?mm ?wa = _ => apply (same_tree_trans _ wa); [eapply st_wset; eauto; reflexivity|];
        refine ((_ : stp mm) wa _ _ H) end.
      apply stp_bind; [exact IH|intros; stp_tac].
    + eapply IH; eauto.
Qed.

Lemma Pres_e_remove_from_fileE e f : PresE (e_remove_from_file T e f).
Proof.
  unfold e_remove_from_file.
  apply PresE_bind; [presE_tac|]. intros n.
  apply PresE_bind; [presE_tac|]. intros ps.
  destruct (negb ps); [presE_tac|].
  apply PresE_bind; [presE_tac|]. intros fm.
  apply PresE_bind; [presE_tac|]. intros m.
  destruct (negb (fm =? m)); [presE_tac|].
  apply PresE_bind; [presE_tac|]. intros [loc cur].
  apply PresE_bind; [presE_tac|]. intros _.
  apply PresE_bind; [presE_tac|]. intros _.
  apply PresE_bind; [presE_tac|]. intros w0.
  apply PresE_bind; [presE_tac|]. intros ids.
  apply PresE_bind.
  - apply PresE_stp. apply (stp_scan_loopE f ids).
  - intros to_delete. induction to_delete as [|d rest IHd]; presE_tac.
Qed.
Hint Resolve Pres_e_remove_from_fileE : presE.

(* ---------- remove_file ---------- *)
Lemma Pres_m_remove_fileE m f : PresE (m_remove_file T m f).
Proof.
  intros w r w' H C. unfold m_remove_file in H.
  assert (F : Core w /\ (NoOrphanP w -> NoOrphanP w)) by auto.
  wrun_ro H ltac:(exact F).
  wstepn H u Es.
  pose proof (stp_set_model_same m x (fun y => set_mfiles y (swap_remove_at (m_files y) n)) (fun y => eq_refl)
                _ _ _ Hx Es) as ST.
  assert (C1 : Core w0) by (eapply Core_same_tree; eauto).
  assert (O1 : NoOrphanP w -> NoOrphanP w0) by (intros O; eapply NoOrphanP_same_tree; eauto).
  match type of H with ?mm ?wa = _ => assert (P : PresE mm) end.
  { destruct (is_empty _); [|presE_tac].
    apply PresE_bind; [presE_tac|]. intros rn.
    apply PresE_bind; [|intros; presE_tac].
    induction (n_content rn) as [|[c|d] l IHl]; presE_tac. }
  destruct (P _ _ _ H C1). auto.
Qed.

End Files.

#[export] Hint Resolve stp_add_to_file_restrictedE stp_set_file_membershipE : stp.
#[export] Hint Resolve Pres_e_remove_from_fileE Pres_m_remove_fileE Pres_new_modelE : presE.
