(* Tree/RangeProofsCopy.v — C07: a successful create_copied_sub_element[_at] inserts the copy at a position inside the range
   of ITS name, so the child list of the destination stays in specification order.  (The known class
   copy-keeps-source-type concerns the TYPE of the copy, not the order of the destination's children, which is by NAME.)
   Uses the C13 characterisation of the copy (Tree/CopyProofsCreate.v ccsei_spec, CopyProofsDeep.v deep_copy_spec). *)
From Coq Require Import Arith.
From AV Require Import Base.Bytes Base.Outcome Hash.HashModel Spec.SpecOps Tree.Heap Tree.Ops Tree.Script Tree.Inv Tree.InvProofsBase
  Tree.Range Tree.RangeProofsPath Tree.SpecWF Tree.RangeProofsLoop Tree.RangeProofsCalc Tree.RangeProofsOps
  Tree.CopyProofsDefs Tree.CopyProofsDeep Tree.CopyProofsCreate.
Open Scope list_scope.
Open Scope N_scope.

Section Copy.
Variable T : tables.
Variable LATEST : N.
Hypothesis WF : SpecWF T.

Lemma copy_at_unfold h other n o m v pos w :
  h <> other -> w_nodes w h = Some n -> w_nodes w other = Some o ->
  model_of h w = Val (OK m, w) -> min_version LATEST h w = Val (OK v, w) ->
  e_create_copied_sub_element_at T LATEST h other pos w =
  match calc_element_insert_range T n (n_name o) v w with
  | Val (OK (s, e), w1) =>
    if (s <=? pos) && (pos <=? e) then create_copied_sub_element_inner T h other pos m v w1 else Val (ER InvalidPosition, w1)
  | Val (ER er, w1) => Val (ER er, w1)
  | Pan st => Pan st
  | Fuel => Fuel
  end.
Proof.
  intros NE Hn Ho Hm Hv. unfold e_create_copied_sub_element_at. apply N.eqb_neq in NE. rewrite NE.
  unfold wbind. rewrite Hm, Hv. unfold raw_create_copied_sub_element_at, wbind, get_node. rewrite Hn, Ho.
  destruct (calc_element_insert_range T n (n_name o) v w) as [[[[s e]|er] w1]| |]; try reflexivity.
  destruct ((s <=? pos) && (pos <=? e)); reflexivity.
Qed.

Lemma copy_default_unfold h other n o m v w :
  h <> other -> w_nodes w h = Some n -> w_nodes w other = Some o ->
  model_of h w = Val (OK m, w) -> min_version LATEST h w = Val (OK v, w) ->
  e_create_copied_sub_element T LATEST h other w =
  match calc_element_insert_range T n (n_name o) v w with
  | Val (OK (s, e), w1) => create_copied_sub_element_inner T h other e m v w1
  | Val (ER er, w1) => Val (ER er, w1)
  | Pan st => Pan st
  | Fuel => Fuel
  end.
Proof.
  intros NE Hn Ho Hm Hv. unfold e_create_copied_sub_element. apply N.eqb_neq in NE. rewrite NE.
  unfold wbind. rewrite Hm, Hv. unfold raw_create_copied_sub_element, wbind, get_node. rewrite Hn, Ho.
  destruct (calc_element_insert_range T n (n_name o) v w) as [[[[s e]|er] w1]| |]; reflexivity.
Qed.

(* the destination's child list after a successful inner copy *)
Lemma copied_inner_items h other n o pos m v w c w' items :
  Closed w -> w_nodes w h = Some n -> w_nodes w other = Some o ->
  items_of w (n_content n) = Some items ->
  create_copied_sub_element_inner T h other pos m v w = Val (OK c, w') ->
  exists n', w_nodes w' h = Some n' /\ n_type n' = n_type n /\
    items_of w' (n_content n') = Some (ins items (N.to_nat pos) (Some (n_name o))).
Proof.
  intros Cw Hn Ho HI H.
  destruct (ccsei_spec T _ _ _ _ _ _ _ _ Cw H) as (_ & (Hnext & Hold & _) & ns & Hns & Hh & w1 & Hd & HR & _).
  rewrite Hn in Hns. injection Hns as <-.
  destruct (deep_copy_spec T _ _ _ _ _ _ Cw Hd) as (_ & _ & HF).
  inversion HF as [p s c0 nso nc Hso Hc Hlo _ _ Hname _ _ _ _]; subst.
  rewrite Ho in Hso. injection Hso as <-.
  destruct HR as (nc1 & Hc1 & Hc' & _). rewrite Hc in Hc1. injection Hc1 as <-.
  eexists. split; [exact Hh|]. split; [reflexivity|]. cbn [n_content set_content].
  apply items_of_insert.
  - apply (items_of_frame w); [|exact HI]. intros i cn Hi.
    destruct (N.eq_dec i h) as [->|NE].
    + rewrite Hn in Hi. injection Hi as <-. eexists. split; [exact Hh|reflexivity].
    + exists cn. split; [|reflexivity]. rewrite Hold; auto. eapply (proj1 Cw); eauto.
  - cbn [item_of]. rewrite Hc'. cbn [n_name set_parent]. rewrite Hname. reflexivity.
Qed.

Theorem copy_at_order_inv h other n o m v pos w c w' items :
  Closed w -> w_nodes w h = Some n -> w_nodes w other = Some o ->
  model_of h w = Val (OK m, w) -> min_version LATEST h w = Val (OK v, w) ->
  items_of w (n_content n) = Some items -> Ordered T (n_type n) v items ->
  e_create_copied_sub_element_at T LATEST h other pos w = Val (OK c, w') ->
  exists n', w_nodes w' h = Some n' /\ n_type n' = n_type n /\
    items_of w' (n_content n') = Some (ins items (N.to_nat pos) (Some (n_name o))) /\
    Ordered T (n_type n) v (ins items (N.to_nat pos) (Some (n_name o))).
Proof.
  intros Cw Hn Ho Hm Hv HI HO H.
  assert (NE : h <> other).
  { intros <-. unfold e_create_copied_sub_element_at in H. rewrite N.eqb_refl in H. discriminate. }
  rewrite (copy_at_unfold h other n o m v pos w NE Hn Ho Hm Hv) in H.
  destruct (calc_element_insert_range T n (n_name o) v w) as [[[[lo hi]|er] w1]| |] eqn:EC; try discriminate.
  pose proof (calc_ro T _ _ _ _ _ _ EC) as ->.
  destruct ((lo <=? pos) && (pos <=? hi)) eqn:EP; [|discriminate].
  apply andb_true_iff in EP as [E1 E2]. apply N.leb_le in E1. apply N.leb_le in E2.
  destruct (copied_inner_items h other n o pos m v w c w' items Cw Hn Ho HI H) as (n' & A & B & C).
  exists n'. split; [exact A|]. split; [exact B|]. split; [exact C|].
  destruct (range_exact T WF n (n_name o) v w lo hi w items HI HO EC) as (_ & _ & Hhi & Hiff). apply Hiff; lia.
Qed.

Theorem copy_order_inv h other n o m v w c w' items :
  Closed w -> w_nodes w h = Some n -> w_nodes w other = Some o ->
  model_of h w = Val (OK m, w) -> min_version LATEST h w = Val (OK v, w) ->
  items_of w (n_content n) = Some items -> Ordered T (n_type n) v items ->
  e_create_copied_sub_element T LATEST h other w = Val (OK c, w') ->
  exists n' items', w_nodes w' h = Some n' /\ n_type n' = n_type n /\
    items_of w' (n_content n') = Some items' /\ Ordered T (n_type n) v items'.
Proof.
  intros Cw Hn Ho Hm Hv HI HO H.
  assert (NE : h <> other).
  { intros <-. unfold e_create_copied_sub_element in H. rewrite N.eqb_refl in H. discriminate. }
  rewrite (copy_default_unfold h other n o m v w NE Hn Ho Hm Hv) in H.
  destruct (calc_element_insert_range T n (n_name o) v w) as [[[[lo hi]|er] w1]| |] eqn:EC; try discriminate.
  pose proof (calc_ro T _ _ _ _ _ _ EC) as ->.
  destruct (copied_inner_items h other n o hi m v w c w' items Cw Hn Ho HI H) as (n' & A & B & C).
  exists n', (ins items (N.to_nat hi) (Some (n_name o))). split; [exact A|]. split; [exact B|]. split; [exact C|].
  destruct (range_exact T WF n (n_name o) v w lo hi w items HI HO EC) as (_ & Hlh & Hhi & Hiff). apply Hiff; lia.
Qed.

End Copy.
