(* Tree/FilesProofsOwned.v — C10 proofs: FilesOwned (every file listed in a model names that model) is preserved by
   every operation; under FilesOwned the excluded class Unowned never occurs.
   PosRel w w' : the file table is unchanged and, position by position, the file list of a model of w' is included in
   the file list of the model of w at that position (or is empty: a new model).  Every operation except create_file
   is in PosRel: through Frame (FilesProofsOps.v; positions from the root's parent link PModel k of Core), through
   MoveRel (moves), or because it does not write models / files at all. *)
From Coq Require Import PeanoNat Arith Lia.
From AV Require Import Base.Bytes Base.Outcome Hash.HashModel Tree.Heap Tree.Ops Tree.Script Tree.Serialize
  Tree.Inv Tree.InvProofsBase Tree.InvProofsCore Tree.InvProofsTree Tree.InvProofsPrim Tree.InvProofsNav
  Tree.InvProofsRemove Tree.InvProofsFiles
  Tree.Files Tree.FilesProofsBase Tree.FilesProofsProj Tree.FilesProofsFrame Tree.FilesProofsOps
  Tree.FilesProofsSet Tree.FilesProofsAdd Tree.FilesProofsRemove Tree.FilesProofsMove Tree.FilesProofsInv
  Tree.FilesProofsHist Tree.IndexProofsAssoc.
Open Scope string_scope.
Open Scope list_scope.
Open Scope N_scope.

(* l' is contained in l and keeps every injectivity l has (a sub-list up to order) *)
Definition lsub (l' l : list N) : Prop :=
  incl l' l /\ forall g : N -> list N, NoDup (map g l) -> NoDup (map g l').
Lemma lsub_refl l : lsub l l.
Proof. split; [apply incl_refl|auto]. Qed.
Lemma lsub_trans a b c : lsub a b -> lsub b c -> lsub a c.
Proof. intros (I1 & N1) (I2 & N2). split; [eapply incl_tran; eauto|auto]. Qed.

Definition PosRel (w w' : world) : Prop :=
  w_files w' = w_files w /\
  forall m x', model_b w' m = Some x' ->
    (exists x, model_b w m = Some x /\ lsub (m_files x') (m_files x)) \/ m_files x' = [].

Lemma PosRel_refl w : PosRel w w.
Proof. split; auto. intros m x' H. left. exists x'. split; auto. apply lsub_refl. Qed.

Lemma PosRel_trans a b c : PosRel a b -> PosRel b c -> PosRel a c.
Proof.
  intros (F1 & M1) (F2 & M2). split; [congruence|]. intros m x' H.
  destruct (M2 m x' H) as [(x & Hx & Hi)|E]; auto.
  destruct (M1 m x Hx) as [(x0 & Hx0 & Hi0)|E]; [left; exists x0; split; auto; eapply lsub_trans; eauto|].
  right. destruct Hi as (Hi & _). rewrite E in Hi. destruct (m_files x') as [|g l]; auto. exfalso. apply (Hi g). left. reflexivity.
Qed.

Lemma owned_posrel w w' : FilesOwned w -> PosRel w w' -> FilesOwned w'.
Proof.
  intros O (F & M) m x' f Hx' Hf. destruct (M m x' Hx') as [(x & Hx & Hi)|E]; [|rewrite E in Hf; destruct Hf].
  rewrite F. eapply O; eauto. apply (proj1 Hi). exact Hf.
Qed.

Lemma owned_unowned w o : FilesOwned w -> Unowned w o = false.
Proof.
  intros O. destruct o; try reflexivity. cbn [Unowned].
  destruct (model_b w m) as [x|] eqn:Hx; auto. destruct (nth_opt (w_files w) (N.to_nat f)) as [fl|] eqn:Hfl; auto.
  destruct (set_mem f (m_files x)) eqn:Hm; auto. apply set_mem_in in Hm.
  destruct (O m x f Hx Hm) as (fl' & Hfl' & Hmm). assert (fl' = fl) by congruence. subst fl'.
  rewrite Hmm, N.eqb_refl. reflexivity.
Qed.

Lemma empty_owned : FilesOwned empty_world.
Proof. intros m x f H. unfold model_b in H. cbn in H. destruct (N.to_nat m); discriminate. Qed.

(* ---------- Frame gives PosRel: the position of a model is the number in its root's parent link ---------- *)
Lemma model_b_in w m x : model_b w m = Some x -> In x (w_models w).
Proof. unfold model_b. rewrite nth_opt_error. apply nth_error_In. Qed.

Lemma model_b_root w m x : model_b w m = Some x -> nth_error (roots w) (N.to_nat m) = Some (m_root x).
Proof. unfold model_b, roots. rewrite nth_opt_error, nth_error_map. intros ->. reflexivity. Qed.

Lemma frame_pos w w' : Core w -> Core w' -> Frame w w' -> PosRel w w'.
Proof.
  intros C C' F. split; [apply (fr_files _ _ F)|]. intros m x' Hx'.
  destruct (fr_models _ _ F x' (model_b_in _ _ _ Hx')) as [(x & Hx & Hv)|(E & _)]; auto.
  left. exists x. unfold mview in Hv. injection Hv as Hr Hf. split; [|rewrite Hf; apply lsub_refl].
  apply In_nth_error in Hx as (k & Hk).
  assert (nth_error (roots w) k = Some (m_root x)) as Hrk by (unfold roots; rewrite nth_error_map, Hk; reflexivity).
  destruct (c_roots _ C _ _ Hrk) as (n & Hn & Hp).
  pose proof (model_b_root _ _ _ Hx') as Hrm. rewrite <- Hr in Hrm.
  destruct (c_roots _ C' _ _ Hrm) as (n' & Hn' & Hp').
  destruct (fr_old _ _ F _ _ Hn) as (n'' & Hn'' & _ & K). assert (n'' = n') by congruence. subst n''.
  assert (n_parent n' = n_parent n) as Ep.
  { destruct K as [(_ & [E|E])|(_ & E)]; auto; congruence. }
  rewrite Hp, Hp' in Ep. injection Ep as Ep. apply Nnat.Nat2N.inj in Ep.
  unfold model_b. rewrite nth_opt_error, Ep. exact Hk.
Qed.

(* ---------- computations: cp = preserves Core and is in PosRel ---------- *)
Definition km {A} (c : W A) : Prop :=
  forall w r w', c w = Val (r, w') -> w_models w' = w_models w /\ w_files w' = w_files w.

Lemma km_ro {A} (c : W A) : ro c -> km c.
Proof. intros R w r w' H. apply R in H. subst. auto. Qed.
Lemma km_bind {A B} (c : W A) (k : A -> W B) : km c -> (forall a, km (k a)) -> km (wbind c k).
Proof.
  intros Hc Hk w r w' H. apply wbind_inv in H as [(a & w1 & H1 & H2) | (e & H1 & _)].
  - destruct (Hc _ _ _ H1) as (M1 & F1). destruct (Hk a _ _ _ H2) as (M2 & F2). split; congruence.
  - eapply Hc; eauto.
Qed.
Lemma km_try {A} (c : W A) : km c -> km (wtry c).
Proof. intros Hc w r w' H. apply wtry_inv in H as (r0 & H & _). eapply Hc; eauto. Qed.
Lemma km_modify_node i g : km (modify_node i g).
Proof.
  intros w r w' H. destruct r as [u|e].
  - apply modify_node_wset in H as (n & _ & _ & ->). auto.
  - unfold modify_node in H. apply wbind_inv in H as [(n & w1 & H1 & H2) | (e0 & H1 & _)].
    + apply set_node_wset in H2 as ([=] & _).
    + apply get_node_inv in H1 as (? & _ & [=] & _).
Qed.
Lemma km_set_node i n : km (set_node i n).
Proof. intros w r w' H. apply set_node_wset in H as (_ & ->). auto. Qed.

Ltac km_step :=
  first
  [ apply km_ro; solve [ro_tac]
  | assumption
  | apply km_modify_node | apply km_set_node
  | apply km_try
  | apply km_bind; [ | intros ? ]
  | match goal with
    | |- km (match ?x with _ => _ end) => destruct x
    | |- km (if ?b then _ else _) => destruct b
    | |- km (let '(_, _) := ?x in _) => destruct x
    end ].
Ltac km_tac := repeat km_step.

Definition cp {A} (c : W A) : Prop :=
  forall w r w', c w = Val (r, w') -> Core w -> Core w' /\ PosRel w w'.

Lemma cp_ro {A} (c : W A) : ro c -> cp c.
Proof. intros R w r w' H C. apply R in H. subst. split; auto. apply PosRel_refl. Qed.
Lemma cp_bind {A B} (c : W A) (k : A -> W B) : cp c -> (forall a, cp (k a)) -> cp (wbind c k).
Proof.
  intros Hc Hk w r w' H C. apply wbind_inv in H as [(a & w1 & H1 & H2) | (e & H1 & _)].
  - destruct (Hc _ _ _ H1 C) as (C1 & P1). destruct (Hk a _ _ _ H2 C1) as (C2 & P2). split; auto. eapply PosRel_trans; eauto.
  - eapply Hc; eauto.
Qed.
Lemma cp_try {A} (c : W A) : cp c -> cp (wtry c).
Proof. intros Hc w r w' H C. apply wtry_inv in H as (r0 & H & _). eapply Hc; eauto. Qed.
Lemma cp_pres_km {A} (c : W A) : Pres c -> km c -> cp c.
Proof.
  intros P K w r w' H C. destruct (P _ _ _ H C) as (C' & _). split; auto.
  destruct (K _ _ _ H) as (M & F). split; auto. intros m x' Hx'. left. exists x'. unfold model_b in *. rewrite <- M.
  split; auto. apply lsub_refl.
Qed.
Lemma cp_pres_ff {A} (c : W A) : Pres c -> ff c -> cp c.
Proof.
  intros P F w r w' H C. destruct (P _ _ _ H C) as (C' & _). split; auto.
  destruct (F _ _ _ (core_fresh _ C) H) as (Fr & _). apply frame_pos; auto.
Qed.

Lemma cp_modify_files e g : (forall n, n_parent (g n) = n_parent n /\ n_content (g n) = n_content n) -> cp (modify_node e g).
Proof.
  intros Hg. intros w r w' H C. pose proof (km_modify_node e g _ _ _ H) as (M & F).
  assert (Core w') as C'.
  { destruct r as [u|e0].
    - apply modify_node_wset in H as (n & Hn & _ & ->). eapply Core_same_tree; eauto.
      destruct (Hg n) as (Ep & Ec). apply (st_wset w e n _ Hn); [exact Ep | unfold kids; rewrite Ec; reflexivity].
    - unfold modify_node in H. apply wbind_inv in H as [(n & w1 & H1 & H2) | (e1 & H1 & _)].
      + apply set_node_wset in H2 as ([=] & _).
      + apply get_node_inv in H1 as (? & _ & [=] & _). }
  split; auto. split; auto. intros m x' Hx'. left. exists x'. unfold model_b in *. rewrite <- M. split; auto. apply lsub_refl.
Qed.

Create HintDb cp discriminated.
Ltac cp_step :=
  first
  [ apply cp_ro; solve [ro_tac]
  | assumption
  | solve [auto with cp]
  | apply cp_modify_files; solve [intros ?; split; reflexivity | intros ?; destruct (is_empty _); split; reflexivity]
  | apply cp_try
  | apply cp_bind; [ | intros ? ]
  | match goal with
    | |- cp (match ?x with _ => _ end) => destruct x
    | |- cp (if ?b then _ else _) => destruct b
    | |- cp (let '(_, _) := ?x in _) => destruct x
    end ].
Ltac cp_tac := repeat cp_step.

Section Owned.
Variable T : tables.
Variable tab_el tab_en : nametab.
Variable check_fn : N -> list N -> res bool.
Variable LATEST : N.
Variable root_attrs : list (N * cdata).

Lemma cp_e_remove h sub : cp (e_remove_sub_element T h sub).
Proof. apply cp_pres_ff; [apply Pres_e_remove | apply ff_e_remove_sub_element]. Qed.

Hint Resolve cp_e_remove : cp.

Lemma cp_kids_loop cur l : cp (kids_loop cur l).
Proof. induction l as [|[c|d] l IH]; cbn [kids_loop]; cp_tac. Qed.
Hint Resolve cp_kids_loop : cp.

Lemma cp_atfr f : forall fuel e, cp (add_to_file_restricted T fuel e f).
Proof.
  induction fuel as [|fl IH]; intros e; [intros w r w' H; discriminate|].
  rewrite atfr_unfold. cp_tac; apply IH.
Qed.
Hint Resolve cp_atfr : cp.

Lemma cp_e_add_to_file e f : cp (e_add_to_file T e f).
Proof. unfold e_add_to_file. cp_tac. Qed.

Lemma km_scan_loop f ids : km (scan_loop f ids).
Proof. induction ids as [|s rest IH]; cbn [scan_loop]; km_tac. Qed.

Lemma cp_del_loop : forall l, cp (del_loop T l).
Proof. induction l as [|d rest IH]; cbn [del_loop]; cp_tac. Qed.

Lemma cp_e_remove_from_file e f : cp (e_remove_from_file T e f).
Proof.
  unfold e_remove_from_file.
  apply cp_bind; [cp_tac|]. intros n.
  apply cp_bind; [cp_tac|]. intros ps.
  destruct (negb ps); [cp_tac|].
  apply cp_bind; [cp_tac|]. intros fm.
  apply cp_bind; [cp_tac|]. intros m.
  destruct (negb (fm =? m)); [cp_tac|].
  apply cp_bind; [cp_tac|]. intros [loc cur].
  apply cp_bind; [cp_tac|]. intros _.
  apply cp_bind; [cp_tac|]. intros _.
  apply cp_bind; [cp_tac|]. intros w0.
  apply cp_bind; [cp_tac|]. intros ids.
  apply cp_bind.
  - apply cp_pres_km; [apply Pres_stp; apply (stp_scan_loop f ids) | apply (km_scan_loop f ids)].
  - intros td. apply (cp_del_loop td).
Qed.

Lemma cp_set_file_membership e fm : cp (set_file_membership T e fm).
Proof. unfold set_file_membership. cp_tac. Qed.

(* list_set, position by position *)
Lemma nth_error_list_set {A} (l : list A) k x j :
  nth_error (list_set l k x) j = if Nat.eqb j k then (match nth_error l j with Some _ => Some x | None => None end) else nth_error l j.
Proof.
  revert k j. induction l as [|a l IH]; intros k j.
  - cbn. destruct j; destruct (Nat.eqb _ k); reflexivity.
  - destruct k as [|k]; destruct j as [|j]; cbn; auto.
Qed.

Lemma posrel_set_model w m x y : model_b w m = Some x -> lsub (m_files y) (m_files x) ->
  PosRel w (wmodels w (list_set (w_models w) (N.to_nat m) y)).
Proof.
  intros Hx Hi. split; [reflexivity|]. intros m' x' H. unfold model_b in *. cbn in H.
  rewrite nth_opt_error in H. rewrite nth_error_list_set in H. rewrite <- !nth_opt_error in H.
  destruct (Nat.eqb (N.to_nat m') (N.to_nat m)) eqn:E.
  - apply Nat.eqb_eq in E. rewrite E in *. rewrite Hx in H. injection H as <-. left. exists x. auto.
  - left. exists x'. split; auto. apply lsub_refl.
Qed.

Lemma cp_modify_model_idx m g : (forall y, m_root (g y) = m_root y /\ m_files (g y) = m_files y) -> cp (modify_model m g).
Proof.
  intros Hg w r w' H C. apply modify_model_inv in H as (x & Hx & _ & ->). destruct (Hg x) as (Er & Ef). split.
  - eapply Core_same_tree; eauto. apply st_models. cbn. unfold roots.
    clear - Hx Er. revert Hx. generalize (N.to_nat m) as k. induction (w_models w) as [|a l IH]; intros [|k] Hx; cbn in *; try discriminate; auto.
    + injection Hx as ->. rewrite Er. reflexivity.
    + rewrite (IH k Hx). reflexivity.
  - apply (posrel_set_model w m x (g x) Hx). rewrite Ef. apply lsub_refl.
Qed.

Lemma swap_remove_incl (f : N) l pos : index_of (N.eqb f) l = Some pos -> incl (swap_remove_at l pos) l.
Proof.
  intros H g Hg. destruct (FilesProofsRemove.index_of_split f l pos H) as (l1 & l2 & El & Ep). subst l pos.
  eapply Permutation.Permutation_in in Hg; [|apply swap_remove_at_perm].
  apply in_app_iff in Hg as [Hg|Hg]; apply in_or_app; [left|right; right]; auto.
Qed.

Lemma swap_remove_lsub (f : N) l pos : index_of (N.eqb f) l = Some pos -> lsub (swap_remove_at l pos) l.
Proof.
  intros H. split; [eapply swap_remove_incl; eauto|]. intros g Hnd.
  destruct (FilesProofsRemove.index_of_split f l pos H) as (l1 & l2 & El & Ep). subst l pos.
  pose proof (swap_remove_at_perm l1 f l2) as P. apply (Permutation.Permutation_map g) in P.
  eapply Permutation.Permutation_NoDup; [apply Permutation.Permutation_sym; exact P|].
  rewrite map_app in *. cbn [map] in Hnd. eapply NoDup_remove_1; eauto.
Qed.

Hint Resolve cp_e_add_to_file cp_e_remove_from_file cp_set_file_membership : cp.

Lemma cp_m_remove_file m f : cp (m_remove_file T m f).
Proof.
  intros w r w' H C. unfold m_remove_file in H.
  apply wbind_inv in H as [(x & w0 & H1 & H) | (e0 & H1 & _)]; [|apply get_model_inv in H1 as (? & _ & [=] & _)].
  apply get_model_inv in H1 as (x' & Hx & [= <-] & ->).
  destruct (index_of (N.eqb f) (m_files x)) as [pos|] eqn:Hpos.
  2:{ apply wret_inv in H as (_ & ->). split; auto. apply PosRel_refl. }
  apply wbind_inv in H as [(u & w1 & H1 & H) | (e0 & H1 & _)]; [|apply set_model_inv in H1 as ([=] & _)].
  pose proof (stp_set_model_same m x (fun y => set_mfiles y (swap_remove_at (m_files y) pos)) (fun y => eq_refl) _ _ _ Hx H1) as ST.
  apply set_model_inv in H1 as (_ & ->).
  assert (Core (wmodels w (list_set (w_models w) (N.to_nat m) (set_mfiles x (swap_remove_at (m_files x) pos))))) as C1
    by (eapply Core_same_tree; eauto).
  assert (PosRel w (wmodels w (list_set (w_models w) (N.to_nat m) (set_mfiles x (swap_remove_at (m_files x) pos))))) as P1.
  { apply (posrel_set_model w m x); auto. cbn. eapply swap_remove_lsub; eauto. }
  match type of H with ?mm ?wa = _ => assert (cp mm) as P end.
  { destruct (is_empty _); [|cp_tac].
    apply cp_bind; [cp_tac|]. intros rn.
    apply cp_bind; [|intros _; apply cp_bind; [cp_tac|intros _; apply cp_modify_model_idx; intros y; split; reflexivity]].
    induction (n_content rn) as [|[c|d] l IHl]; cp_tac. }
  destruct (P _ _ _ H C1) as (C' & P2). split; auto. eapply PosRel_trans; eauto.
Qed.

Lemma km_kids_loop cur l : km (kids_loop cur l).
Proof. induction l as [|[c|d] l IH]; cbn [kids_loop]; km_tac. Qed.

Lemma km_atfr f : forall fuel e, km (add_to_file_restricted T fuel e f).
Proof.
  induction fuel as [|fl IH]; intros e; [intros w r w' H; discriminate|].
  rewrite atfr_unfold. km_tac; try apply km_kids_loop; apply IH.
Qed.

Lemma owned_create_file m name version w r w' :
  FilesOwned w -> m_create_file T m name version w = Val (r, w') -> FilesOwned w'.
Proof.
  intros O H. unfold m_create_file in H.
  apply wbind_inv in H as [(x & w1 & H1 & H) | (e0 & H1 & _)]; [|apply get_model_inv in H1 as (? & _ & [=] & _)].
  apply get_model_inv in H1 as (x' & Hx & [= <-] & ->).
  apply wbind_inv in H as [(w0 & w1 & H1 & H) | (e0 & H1 & _)]; [|apply wget_inv in H1 as ([=] & _)].
  apply wget_inv in H1 as ([= ->] & ->).
  destruct (existsb _ (m_files x)); [apply wfail_inv in H as (_ & ->); exact O|].
  set (fid := N.of_nat (List.length (w_files w))) in *.
  apply wbind_inv in H as [(u & w1 & H1 & H) | (e0 & H1 & _)]; [|discriminate].
  injection H1 as _ <-.
  apply wbind_inv in H as [(u2 & w2 & H2 & H) | (e0 & H2 & _)]; [|apply modify_model_inv in H2 as (? & _ & [=] & _)].
  apply modify_model_inv in H2 as (x0 & Hx0 & _ & ->). cbn in Hx0. assert (x0 = x) by congruence. subst x0.
  match type of H with wbind wget _ ?W = _ => set (w2 := W) in * end.
  apply wbind_inv in H as [(w0 & w3 & H3 & H) | (e0 & H3 & _)]; [|apply wget_inv in H3 as ([=] & _)].
  apply wget_inv in H3 as ([= ->] & ->).
  apply wbind_inv in H as [(o & w3 & H3 & H) | (e0 & H3 & _)]; [|apply wtry_inv in H3 as (? & _ & [=])].
  apply wret_inv in H as (_ & Ew). subst w3. apply wtry_inv in H3 as (r0 & H3 & _).
  destruct (km_atfr fid _ _ _ _ _ H3) as (M & F).
  assert (forall g fl, nth_opt (w_files w) (N.to_nat g) = Some fl ->
            nth_opt (w_files w ++ [mkFile m name version None]) (N.to_nat g) = Some fl) as Old.
  { intros g fl Hg. rewrite nth_opt_error in *. rewrite nth_error_app1; auto. apply nth_error_Some. congruence. }
  intros m' x' f' Hx' Hf'. unfold model_b in Hx'. rewrite M in Hx'. rewrite F. unfold w2 in *. cbn in Hx' |- *.
  rewrite nth_opt_error in Hx'. rewrite nth_error_list_set in Hx'. rewrite <- !nth_opt_error in Hx'.
  destruct (Nat.eqb (N.to_nat m') (N.to_nat m)) eqn:E.
  - apply Nat.eqb_eq in E. apply Nnat.N2Nat.inj in E. subst m'. rewrite Hx in Hx'. injection Hx' as <-. cbn in Hf'.
    apply in_app_iff in Hf' as [Hf'|[<-|[]]].
    + destruct (O m x f' Hx Hf') as (fl & Hfl & Hm). exists fl. split; auto.
    + exists (mkFile m name version None). split; auto. unfold fid. rewrite Nnat.Nat2N.id, nth_opt_error.
      rewrite nth_error_app2 by lia. rewrite Nat.sub_diag. reflexivity.
  - destruct (O m' x' f' Hx' Hf') as (fl & Hfl & Hm). exists fl. split; auto.
Qed.

(* moves: the model list keeps roots and file lists position by position *)
Lemma moverel_pos mv w w' : MoveRel mv w w' -> PosRel w w'.
Proof.
  intros R. split; [apply (mr_files _ _ _ R)|]. intros m x' Hx'. left. unfold model_b in *. rewrite nth_opt_error in *.
  assert (nth_error (map mview (w_models w')) (N.to_nat m) = Some (mview x')) as H1 by (rewrite nth_error_map, Hx'; reflexivity).
  rewrite (mr_models _ _ _ R), nth_error_map in H1.
  destruct (nth_error (w_models w) (N.to_nat m)) as [x|] eqn:E; [|discriminate]. cbn in H1.
  assert (m_files x = m_files x') as Ef by (unfold mview in H1; congruence).
  exists x. split; auto. rewrite Ef. apply lsub_refl.
Qed.

Let run := run_op T tab_el tab_en check_fn LATEST root_attrs.
Hypothesis core_step : CoreStep T tab_el tab_en check_fn LATEST root_attrs.

(* every operation preserves FilesOwned *)
Theorem owned_step o w r w' : Core w -> FilesOwned w -> run o w = Val (r, w') -> FilesOwned w'.
Proof.
  intros C O H. assert (Core w') as C' by (eapply core_step; eauto).
  destruct (frame_op o) eqn:Efo.
  - destruct (ff_run T tab_el tab_en check_fn LATEST root_attrs o Efo _ _ _ (core_fresh _ C) H) as (F & _).
    eapply owned_posrel; eauto. apply frame_pos; auto.
  - destruct o; cbn [frame_op] in Efo; try discriminate; unfold run in H; cbn [run_op] in H.
    + unfold welem in H. apply run_bind_inv in H as (r0 & H).
      eapply owned_posrel; eauto. eapply moverel_pos. eapply mr_e_move_element_here; eauto.
    + unfold welem in H. apply run_bind_inv in H as (r0 & H).
      eapply owned_posrel; eauto. eapply moverel_pos. eapply mr_e_move_element_here_at; eauto.
    + apply run_bind_inv in H as (r0 & H). eapply owned_create_file; eauto.
    + unfold wunit in H. apply run_bind_inv in H as (r0 & H).
      destruct (cp_m_remove_file _ _ _ _ _ H C) as (_ & P). eapply owned_posrel; eauto.
    + unfold wunit in H. apply run_bind_inv in H as (r0 & H).
      destruct (cp_e_add_to_file _ _ _ _ _ H C) as (_ & P). eapply owned_posrel; eauto.
    + unfold wunit in H. apply run_bind_inv in H as (r0 & H).
      destruct (cp_e_remove_from_file _ _ _ _ _ H C) as (_ & P). eapply owned_posrel; eauto.
Qed.

Hypothesis tree_step : TreeStep T tab_el tab_en check_fn LATEST root_attrs.

(* with FilesOwned carried along, the step theorem needs no Unowned exclusion *)
Theorem inv_step_owned o w r w' :
  TreeInv w -> FilesInv T w -> FilesOwned w -> RootNamedLast T w o = false -> Known10 w o = false ->
  run o w = Val (r, w') -> FilesInv T w' /\ FilesOwned w'.
Proof.
  intros TI FI O HP HK H. pose proof TI as (C & _). split.
  - eapply (inv_step T tab_el tab_en check_fn LATEST root_attrs core_step); eauto. apply owned_unowned. exact O.
  - eapply owned_step; eauto.
Qed.

Definition step_ok_owned (w : world) (o : op) : bool :=
  negb (Known T tab_el tab_en check_fn LATEST root_attrs w o) && negb (RootNamedLast T w o) && negb (Known10 w o).

Fixpoint steps_ok_owned (l : list op) (w : world) : bool :=
  match l with
  | [] => true
  | o :: rest => step_ok_owned w o && match run o w with Val (_, w') => steps_ok_owned rest w' | _ => true end
  end.

Theorem inv_histories_owned l : forall w w', TreeInv w -> FilesInv T w -> FilesOwned w -> steps_ok_owned l w = true ->
  run_ops T tab_el tab_en check_fn LATEST root_attrs l w = Val w' -> TreeInv w' /\ FilesInv T w' /\ FilesOwned w'.
Proof.
  induction l as [|o rest IH]; intros w w' TI FI O Hok H; cbn [run_ops steps_ok_owned] in *.
  - injection H as <-. auto.
  - apply Bool.andb_true_iff in Hok as (Hs & Hok). unfold step_ok_owned in Hs.
    apply Bool.andb_true_iff in Hs as (Hs & H3). apply Bool.andb_true_iff in Hs as (H1 & H2).
    apply Bool.negb_true_iff in H1, H2, H3.
    change (Inv.run T tab_el tab_en check_fn LATEST root_attrs o w) with (run o w) in H.
    destruct (run o w) as [[r w1]| |] eqn:Er; try discriminate.
    destruct (inv_step_owned o w r w1 TI FI O H2 H3 Er) as (FI1 & O1).
    apply (IH w1 w'); auto. eapply tree_step; eauto.
Qed.

End Owned.
