(* Tree/FollowProofsTree.v — C06 proofs: tree facts used by the container move and the cross-model move.
     reach_inv            last step of a downward path
     reach_comparable     two ancestors-or-self of one node are comparable (unique parents)
     ancestor_is_sound    the loop `ancestor_is` answers true for every proper ancestor
     below_strict_suffix  the path of an identifiable element strictly below a node extends the node's path properly
     self_path_owner      a non-empty path_unchecked value is the key of an identifiable ancestor-or-self *)
From Coq Require Import Lia.
From AV Require Import Base.Bytes Base.Outcome Hash.HashModel Tree.Heap Tree.Ops Tree.Script Tree.Index Tree.Refs
  Tree.IndexProofsW Tree.IndexProofsBase Tree.IndexProofsAssoc Tree.Follow Tree.FollowProofsPath.
Open Scope string_scope.
Open Scope list_scope.
Open Scope N_scope.

Section TreeLemmas.
Variable T : tables.

Lemma reach_inv w a x : reach T w a x -> a = x \/ exists p, reach T w a p /\ child_of w p x.
Proof. intros (q & Hd). destruct Hd as [|p c q Hp Hc]; [left; reflexivity|right; exists p; split; [exists q; exact Hp|exact Hc]]. Qed.

Lemma child_parent_unique w p1 p2 x : TreeFacts w -> child_of w p1 x -> child_of w p2 x -> p1 = p2.
Proof.
  intros HT H1 H2. destruct (tf_up _ HT _ _ H1) as (n1 & Hn1 & Hp1). destruct (tf_up _ HT _ _ H2) as (n2 & Hn2 & Hp2).
  congruence.
Qed.

Lemma reach_comparable w a b x : TreeFacts w -> reach T w a x -> reach T w b x -> reach T w a b \/ reach T w b a.
Proof.
  intros HT Ha (q & Hb). revert a Ha. induction Hb as [|p c q Hp IH Hc]; intros a Ha.
  - left. exact Ha.
  - apply reach_inv in Ha as [->|(p' & Hap & Hc')].
    + right. exists (q ++ seg T w c). econstructor; eauto.
    + assert (p' = p) by (eapply child_parent_unique; eauto). subst p'. apply IH. exact Hap.
Qed.

Lemma ancestor_is_sound w a : TreeFacts w -> forall f x nx b,
  w_nodes w x = Some nx -> reach T w a x -> a <> x ->
  ancestor_is f (n_parent nx) a w = Val (OK b, w) -> b = true.
Proof.
  intros HT. induction f as [|f IH]; intros x nx b Hx Hr Hne H; [discriminate H|]. cbn [ancestor_is] in H.
  apply reach_inv in Hr as [->|(p & Hap & Hc)]; [contradiction|].
  destruct (tf_up _ HT _ _ Hc) as (nx' & Hnx' & Hpar). assert (nx' = nx) by congruence. subst nx'. rewrite Hpar in H.
  destruct (p =? a) eqn:Epa; [apply wret_inv in H as ([= <-] & _); reflexivity|].
  apply N.eqb_neq in Epa.
  apply wbind_inv in H as [(np & w1 & E & H)|(e & _ & [=])].
  apply get_node_inv in E as (np0 & Hnp & Q & ->). injection Q as ->.
  eapply (IH p np0); eauto.
Qed.

Lemma identifiable_seg w i : AllNamed T w -> identifiable T w i = true -> exists nm, seg T w i = 47 :: nm.
Proof.
  intros HA Hi. unfold identifiable in Hi. destruct (w_nodes w i) as [n|] eqn:Hn; [|discriminate Hi].
  destruct (item_name_n T w n) as [nm|] eqn:En; [|exfalso; eapply HA; eauto].
  exists nm. unfold seg, seg_n. rewrite Hn, En. reflexivity.
Qed.

Lemma dpath_nonempty w a x q : AllNamed T w -> dpath T w a x q -> a <> x -> identifiable T w x = true -> q <> [].
Proof.
  intros HA Hd Hne Hi. destruct Hd as [|p c q Hp Hc]; [contradiction|].
  destruct (identifiable_seg w c HA Hi) as (nm & ->). intros E. apply app_eq_nil in E as (_ & E). discriminate E.
Qed.

(* the path of an identifiable element strictly below a node *)
Lemma below_strict_suffix w m a x pa px :
  TreeFacts w -> AllNamed T w -> SpecPath T w m a pa -> reach T w a x -> SpecPath T w m x px ->
  a <> x -> identifiable T w x = true ->
  exists u, px = pa ++ u /\ u <> [] /\ boundary u = true.
Proof.
  intros HT HA (xm & Hxm & (q0 & Hd0 & ->)) (q & Hd) Hp Hne Hi.
  assert (Hp2 : SpecPath T w m x ((seg T w (m_root xm) ++ q0) ++ q)).
  { exists xm. split; [exact Hxm|]. exists (q0 ++ q). split; [eapply dpath_trans; eauto|]. rewrite app_assoc. reflexivity. }
  destruct (specpath_fun T w m m x _ _ HT Hp Hp2) as (_ & ->).
  exists q. split; [reflexivity|]. split; [eapply dpath_nonempty; eauto|eapply dpath_boundary; eauto].
Qed.

(* a non-empty SpecPath is the key of an identifiable ancestor-or-self *)
Lemma self_path_owner w m i p :
  NamesSlashFree T w -> SpecPath T w m i p -> p <> [] ->
  exists y, SpecPath T w m y p /\ identifiable T w y = true /\ reach T w y i.
Proof. intros HS Hsp Hne. eapply (prefix_is_path T w m i p p []); eauto. rewrite app_nil_r. reflexivity. Qed.

(* two boundary prefixes of one string are comparable, with a boundary remainder *)
Lemma boundary_prefix_cmp (a b s s' : list N) :
  boundary s = true -> boundary s' = true -> a ++ s = b ++ s' ->
  (exists t, a = b ++ t /\ boundary t = true) \/ (exists t, b = a ++ t /\ boundary t = true).
Proof.
  intros Hs Hs' H. apply app_eq_app in H as (l & [(H1 & H2)|(H1 & H2)]).
  - left. exists l. split; [exact H1|]. destruct l as [|c l]; [reflexivity|].
    apply boundary_spec in Hs' as [E|(r & E)]; rewrite H2 in E; [discriminate E|]. injection E as -> _. reflexivity.
  - right. exists l. split; [exact H1|]. destruct l as [|c l]; [reflexivity|].
    apply boundary_spec in Hs as [E|(r & E)]; rewrite H2 in E; [discriminate E|]. injection E as -> _. reflexivity.
Qed.

End TreeLemmas.
