(* Tree/FilesProofsStrip.v — C10 proofs, layer 7: removing one file from the local sets of a subtree.
   Stripped f e cur w w3: w3 is w with the same tree where the local set of e became (cur minus f) and the local
   set of every other element below e lost f.  When cur is the effective set of e, e may carry its own set and e
   does not lose its last file while being the root, the invariant of e's model survives. *)
From Coq Require Import PeanoNat Arith Lia.
From AV Require Import Base.Bytes Base.Outcome Hash.HashModel Tree.Heap Tree.Ops Tree.Script Tree.Serialize
  Tree.Inv Tree.InvProofsBase Tree.InvProofsCore Tree.InvProofsTree Tree.Files Tree.FilesProofsBase Tree.FilesProofsProj
  Tree.FilesProofsFrame Tree.FilesProofsSet Tree.FilesProofsHole Tree.FilesProofsAdd.
Open Scope string_scope.
Open Scope list_scope.
Open Scope N_scope.

Record Stripped (f : N) (e : id) (cur : list N) (w w3 : world) : Prop := mkStripped {
  st_tree : same_tree w w3;
  st_models : w_models w3 = w_models w;
  st_wfiles : w_files w3 = w_files w;
  st_node : forall x n, w_nodes w x = Some n -> exists fs, w_nodes w3 x = Some (set_files n fs) /\
            (x = e -> fs = set_remove f cur) /\
            (x <> e -> Reach w e x -> fs = set_remove f (n_files n)) /\
            (~ Reach w e x -> fs = n_files n)
}.

Lemma stripped_node f e cur w w3 x n3 : Stripped f e cur w w3 -> w_nodes w3 x = Some n3 ->
  exists n, w_nodes w x = Some n /\ n3 = set_files n (n_files n3).
Proof.
  intros S H3. destruct (w_nodes w x) as [n|] eqn:Hn.
  - destruct (st_node _ _ _ _ _ S _ _ Hn) as (fs & H3' & _). rewrite H3 in H3'. injection H3' as ->. exists n. split; auto.
  - exfalso. destruct (st_tree _ _ _ _ _ S) as (_ & _ & Sk). specialize (Sk x). unfold skel in Sk. rewrite Hn, H3 in Sk. discriminate.
Qed.

Lemma stripped_under f e cur w w3 root : Stripped f e cur w w3 -> Reach w root e -> Under w w3 root.
Proof.
  intros S Hre. constructor.
  - apply (st_tree _ _ _ _ _ S).
  - apply (st_models _ _ _ _ _ S).
  - apply (st_wfiles _ _ _ _ _ S).
  - intros i Hi. destruct (w_nodes w i) as [n|] eqn:Hn.
    + destruct (st_node _ _ _ _ _ S _ _ Hn) as (fs & H3 & _ & _ & Ho). rewrite H3. rewrite (Ho) by (intros Hr; apply Hi; eapply reach_trans; eauto).
      rewrite set_files_eta. reflexivity.
    + destruct (w_nodes w3 i) as [n3|] eqn:H3; auto. destruct (stripped_node _ _ _ _ _ _ _ S H3) as (n & Hn' & _). congruence.
  - intros i n Hn. destruct (st_node _ _ _ _ _ S _ _ Hn) as (fs & H3 & _). exists (set_files n fs). auto.
Qed.

Lemma reach_dec w e i : Core w -> Reach w e i \/ ~ Reach w e i.
Proof.
  intros C. destruct (w_nodes w e) as [n|] eqn:Hn.
  - assert (allocated w e) as A by (exists n; auto).
    pose proof (subl_reach w (N.to_nat (w_next w)) e i C A (enough_top _ _ C A)) as R.
    destruct (in_dec N.eq_dec i (subl (N.to_nat (w_next w)) w e)) as [Hi|Hi]; [left|right]; tauto.
  - right. intros H. assert (allocated w e) as (m & Hm); [|congruence].
    clear Hn. induction H as [H|p c Hp IH Hl]; auto.
Qed.

Section Strip.
Variable T : tables.

(* x need not be an entry of the model list: it only names a root (an element without element parent) and a file list *)
Lemma strip_inv_r f e cur w w3 x en :
  Core w -> (forall i p, Reach w (m_root x) i -> par w i p -> Reach w (m_root x) p /\ lists w p i) ->
  FilesInvM T w x -> Reach w (m_root x) e -> w_nodes w e = Some en -> Eff w e cur ->
  (n_files en <> [] \/ forall p pn, n_parent en = PElem p -> w_nodes w p = Some pn -> split_ok T pn) ->
  (e = m_root x -> set_remove f cur <> []) ->
  Stripped f e cur w w3 -> FilesInvM T w3 x.
Proof.
  intros C Hx FI Hre Hen Hcur Hsplit Hroot S.
  assert (forall i a, Reach w (m_root x) i -> AncS w a i -> Reach w (m_root x) a) as RAncs.
  { intros i a Hr Ha. induction Ha as [|i p Hp Ha IH]; auto. apply IH. apply (Hx i p); auto. }
  assert (forall i s, Reach w (m_root x) i -> Eff w i s -> incl s (m_files x)) as EIncl.
  { intros i s Hr He. destruct (Eff_owner _ _ _ He) as (a & n & Ha & Hn & <- & _).
    apply (fi_sub _ _ _ FI a n); auto. eapply RAncs; eauto. }
  pose proof (stripped_under _ _ _ _ _ _ S Hre) as U.
  assert (Core w3) as C3 by (eapply under_core; eauto).
  pose proof (fun i => proj1 (under_reach _ _ _ (m_root x) i U)) as RB.
  assert (m_files x <> []) as Hmf.
  { pose proof (Eff_nonempty _ _ _ Hcur) as Hne. intros E.
    pose proof (EIncl _ _ Hre Hcur) as Hi. rewrite E in Hi.
    destruct cur as [|g l]; [congruence|]. apply (Hi g). left. reflexivity. }
  (* the parent of an element below e (other than e) is below e; the parent of e is not *)
  assert (forall i p, Reach w e i -> i <> e -> par w i p -> Reach w e p) as SubPar.
  { intros i p Hr Hne Hp. destruct (reach_has_par _ _ _ C Hr Hne) as (q & Hq & Hrq & _).
    rewrite (par_fun _ _ _ _ Hp Hq). exact Hrq. }
  assert (forall p, par w e p -> ~ Reach w e p) as ParOut.
  { intros p Hp Hr. eapply ancs_par_irrefl; eauto; [apply (c_depth _ C); exists en; auto|].
    apply reach_ancs_root; auto. }
  assert (forall i p, Reach w (m_root x) i -> ~ Reach w e i -> par w i p -> ~ Reach w e p) as OutPar.
  { intros i p Hri Hi Hp Hr. apply Hi. destruct (Hx _ _ Hri Hp) as (_ & Hl). eapply R_kid; eauto. }
  (* nodes of w3 *)
  assert (forall i n, w_nodes w i = Some n -> exists fs, w_nodes w3 i = Some (set_files n fs) /\
            (i = e -> fs = set_remove f cur) /\ (i <> e -> Reach w e i -> fs = set_remove f (n_files n)) /\
            (~ Reach w e i -> fs = n_files n)) as ND by (apply (st_node _ _ _ _ _ S)).
  (* E1: outside the subtree nothing changes *)
  assert (forall i s, Eff w i s -> Reach w (m_root x) i -> ~ Reach w e i -> Eff w3 i s) as E1.
  { intros i s He. induction He as [i n Hn Hf | i n p s Hn Hf Hp He IH]; intros Hri Hout.
    - destruct (ND _ _ Hn) as (fs & H3 & _ & _ & Ho). rewrite (Ho Hout) in H3.
      replace (n_files n) with (n_files (set_files n (n_files n))) by reflexivity. constructor; auto.
    - destruct (ND _ _ Hn) as (fs & H3 & _ & _ & Ho). rewrite (Ho Hout) in H3.
      assert (par w i p) as Hpar by (exists n; auto).
      eapply Eff_up; eauto. apply IH.
      + apply (Hx _ _ ltac:(eassumption) ltac:(eassumption)).
      + eapply OutPar; eauto. }
  (* the parent of e *)
  assert (forall p, n_parent en = PElem p -> exists sp, Eff w p sp /\ incl cur sp /\ Eff w3 p sp) as ParE.
  { intros p Hp. assert (par w e p) as Hpar by (exists en; auto).
    assert (exists sp, Eff w p sp /\ incl cur sp) as (sp & Hsp & Hi).
    { destruct (n_files en) as [|g l] eqn:Ef.
      - destruct (Eff_up_inv _ _ _ _ Hcur Hen Ef) as (p' & Hp' & Hs). assert (p' = p) by congruence. subst.
        exists cur. split; auto. apply incl_refl.
      - assert (cur = n_files en) as -> by (eapply Eff_local_inv; eauto; congruence).
        eapply (fi_par _ _ _ FI e en p); eauto. congruence. }
    exists sp. split; auto. split; auto. apply E1; auto.
    all: try (apply (Hx _ _ ltac:(eassumption) ltac:(eassumption))). all: try (apply ParOut; exact Hpar). }
  (* E2: inside the subtree the effective sets lose at most f *)
  assert (forall i, Reach w e i -> forall s, Eff w i s -> exists s', Eff w3 i s' /\ incl (set_remove f s) s') as E2.
  { assert (forall s, Eff w e s -> exists s', Eff w3 e s' /\ incl (set_remove f s) s') as Base.
    { intros s Hs. assert (s = cur) as -> by (eapply Eff_fun; eauto).
      destruct (ND _ _ Hen) as (fs & H3 & He & _). rewrite (He eq_refl) in H3.
      destruct (set_remove f cur) as [|g l] eqn:Er.
      - destruct (N.eq_dec e (m_root x)) as [Eq|Hne]; [exfalso; apply (Hroot Eq); reflexivity|].
        destruct (reach_has_par _ _ _ C Hre Hne) as (p & (en' & Hen' & Hp) & _).
        assert (en' = en) by congruence. subst en'.
        destruct (ParE p Hp) as (sp & _ & _ & Hsp3). exists sp. split; [|intros y []].
        eapply Eff_up; eauto.
      - exists (g :: l). split; [|apply incl_refl].
        replace (g :: l) with (n_files (set_files en (g :: l))) by reflexivity. constructor; auto. cbn. discriminate. }
    intros i Hr. induction Hr as [_|p c Hp IH Hl]; auto.
    intros s Hs. destruct (N.eq_dec c e) as [->|Hne]; [apply Base; auto|].
    destruct (c_up _ C _ _ Hl) as (cn & Hcn & Hpar).
    assert (Reach w e c) as Hrc by (eapply R_kid; eauto).
    destruct (ND _ _ Hcn) as (fs & H3 & _ & Hin & _). rewrite (Hin Hne Hrc) in H3.
    assert (Reach w (m_root x) p) as Hrp by (eapply reach_trans; eauto).
    destruct (fi_eff _ _ _ FI Hmf p Hrp) as (sp & Hsp). destruct (IH _ Hsp) as (sp' & Hsp' & Hip).
    destruct (set_remove f (n_files cn)) as [|g l] eqn:Er.
    - (* c inherits in w3 *)
      destruct (n_files cn) as [|g0 l0] eqn:Ef.
      + destruct (Eff_up_inv _ _ _ _ Hs Hcn Ef) as (p' & Hp' & Hs'). assert (p' = p) by congruence. subst.
        destruct (IH _ Hs') as (s' & Hs3 & Hi3). exists s'. split; auto. eapply Eff_up; eauto.
      + assert (s = n_files cn) as -> by (eapply Eff_local_inv; eauto; congruence).
        exists sp'. split; [eapply Eff_up; eauto|]. rewrite Ef, Er. intros y [].
    - assert (n_files cn <> []) as Hne' by (intros E; rewrite E in Er; discriminate).
      assert (s = n_files cn) as -> by (eapply Eff_local_inv; eauto).
      exists (g :: l). split; [|rewrite Er; apply incl_refl].
      replace (g :: l) with (n_files (set_files cn (g :: l))) by reflexivity. constructor; auto. cbn. discriminate. }
  constructor.
  - (* (a) *)
    intros i n3 Hr H3. apply RB in Hr. destruct (stripped_node _ _ _ _ _ _ _ S H3) as (n & Hn & _).
    destruct (ND _ _ Hn) as (fs & H3' & He & Hin & Hout). rewrite H3 in H3'. injection H3' as ->. cbn.
    pose proof (fi_sub _ _ _ FI i n Hr Hn) as Hsub.
    pose proof (EIncl _ _ Hre Hcur) as Hcsub.
    destruct (N.eq_dec i e) as [Eq|Hne].
    + rewrite (He Eq). eapply incl_tran; [apply set_remove_incl|auto].
    + destruct (reach_dec w e i C) as [Hs|Hs].
      * rewrite (Hin Hne Hs). eapply incl_tran; [apply set_remove_incl|auto].
      * rewrite (Hout Hs). auto.
  - (* (b) *)
    intros i n3 p Hr H3 Hne3 Hp3. apply RB in Hr. destruct (stripped_node _ _ _ _ _ _ _ S H3) as (n & Hn & _).
    destruct (ND _ _ Hn) as (fs & H3' & He & Hin & Hout). rewrite H3 in H3'. injection H3' as ->. cbn in *.
    assert (par w i p) as Hpar by (exists n; auto).
    destruct (N.eq_dec i e) as [Eq|Hnee].
    + subst i. assert (n = en) by congruence. subst n. rewrite (He eq_refl) in *.
      destruct (ParE p Hp3) as (sp & _ & Hi & Hsp3). exists sp. split; auto.
      eapply incl_tran; [apply set_remove_incl|auto].
    + destruct (reach_dec w e i C) as [Hs|Hs].
      * rewrite (Hin Hnee Hs) in *.
        assert (n_files n <> []) as Hnf by (intros E; rewrite E in Hne3; apply Hne3; reflexivity).
        destruct (fi_par _ _ _ FI i n p Hr Hn Hnf Hp3) as (sp & Hsp & Hi).
        destruct (E2 p (SubPar _ _ Hs Hnee Hpar) _ Hsp) as (sp' & Hsp' & Hi').
        exists sp'. split; auto. eapply incl_tran; [apply set_remove_mono; eauto|auto].
      * rewrite (Hout Hs) in *. destruct (fi_par _ _ _ FI i n p Hr Hn Hne3 Hp3) as (sp & Hsp & Hi).
        exists sp. split; auto. apply E1; auto; [apply (Hx _ _ ltac:(eassumption) ltac:(eassumption)) | eapply OutPar; eauto].
  - (* (c) *)
    intros i n3 p pn3 Hr H3 Hne3 Hp3 Hpn3. apply RB in Hr. destruct (stripped_node _ _ _ _ _ _ _ S H3) as (n & Hn & _).
    destruct (stripped_node _ _ _ _ _ _ _ S Hpn3) as (pn & Hpn & Epn).
    destruct (ND _ _ Hn) as (fs & H3' & He & Hin & Hout). rewrite H3 in H3'. injection H3' as ->. cbn in *.
    apply (split_ok_type T pn pn3); [rewrite Epn; reflexivity|].
    destruct (n_files n) as [|g l] eqn:Ef.
    + (* only e can get a set it did not have *)
      destruct (N.eq_dec i e) as [Eq|Hnee].
      * subst i. assert (n = en) by congruence. subst n. destruct Hsplit as [Hs|Hs]; [congruence|]. eapply Hs; eauto.
      * exfalso. apply Hne3. destruct (reach_dec w e i C) as [Hs|Hs]; [rewrite (Hin Hnee Hs)|rewrite (Hout Hs)]; reflexivity.
    + apply (fi_split _ _ _ FI i n p pn); auto. congruence.
  - (* (d) *)
    intros _ i Hr. apply RB in Hr. destruct (fi_eff _ _ _ FI Hmf i Hr) as (s & Hs).
    destruct (reach_dec w e i C) as [Hin|Hout].
    + destruct (E2 i Hin _ Hs) as (s' & Hs' & _). eauto.
    + exists s. apply E1; auto.
Qed.

Lemma strip_inv f e cur w w3 x en :
  Core w -> In x (w_models w) -> FilesInvM T w x -> Reach w (m_root x) e -> w_nodes w e = Some en -> Eff w e cur ->
  (n_files en <> [] \/ forall p pn, n_parent en = PElem p -> w_nodes w p = Some pn -> split_ok T pn) ->
  (e = m_root x -> set_remove f cur <> []) ->
  Stripped f e cur w w3 -> FilesInvM T w3 x.
Proof.
  intros C Hx. apply strip_inv_r; auto. intros i p Hr Hp. eapply reach_par; eauto.
Qed.

End Strip.
