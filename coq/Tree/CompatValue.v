(* Tree/CompatValue.v — C17, the value half: CharacterData::check_version_compatibility (Ops.value_compat) against
   CharacterData::check_value (Ops.check_value, what strict loading and set_character_data apply, including the length bound
   `len <= max_length` and the pattern validator).
   For a value that fits its specification in SOME version u (every value the library stores: created by set_character_data /
   set_attribute / the loader under check_value of the stored type), the compatibility verdict for the target v IS check_value for v:
   enumeration items are re-checked against the item's mask, everything else (pattern, length bound, number kinds) does not depend
   on the version.  Without the premise the two differ (a value that fits no version is reported compatible): that is the shape of
   the known finding C17-value-revalidation, where the premise holds for the STORED type's spec and the target type's spec differs. *)
From Coq Require Import Lia.
From AV Require Import Base.Bytes Base.Outcome Hash.HashModel Spec.SpecTypes Spec.SpecOps Tree.Heap Tree.Ops Tree.Compat Tree.CompatSpec.
From AV Require Tree.CompatProofs2.
Open Scope list_scope.
Open Scope N_scope.

Section Value.
Variable check_fn : N -> list N -> res bool.

Lemma value_compat_check d spec u v :
  check_value check_fn d spec u = Val true ->
  check_value check_fn d spec v = Val (fst (value_compat d spec v)).
Proof.
  unfold check_value, value_compat. intros H.
  destruct spec as [items|fn maxlen|pres maxlen| |]; destruct d as [e|s|n|b]; try discriminate H; cbn [fst]; try reflexivity.
  - destruct (find (fun it => fst it =? e) items) as [[it mask]|]; reflexivity.
  - exact H.
  - exact H.
Qed.

(* the verdict: compatible with v exactly when check_value accepts the value for v *)
Theorem value_valid_check d spec u v :
  check_value check_fn d spec u = Val true ->
  (value_valid v d spec <-> check_value check_fn d spec v = Val true).
Proof.
  intros H. unfold value_valid. rewrite (value_compat_check d spec u v H). split; [intros ->; reflexivity|intros [= E]; exact E].
Qed.

(* the mask: it contains the target exactly for an accepted verdict (item mask for enumerations, u32::MAX otherwise) *)
Theorem value_compat_mask_check d spec u v ok m :
  N.land 4294967295 v <> 0 ->
  check_value check_fn d spec u = Val true -> value_compat d spec v = (ok, m) ->
  (ok = true <-> N.land m v <> 0).
Proof.
  unfold check_value, value_compat. intros Hv H E.
  destruct spec as [items|fn maxlen|pres maxlen| |]; destruct d as [e|s|n|b]; try discriminate H;
    try (injection E as <- <-; split; [intros _; exact Hv|reflexivity]).
  destruct (find (fun it => fst it =? e) items) as [[it mask]|]; [|discriminate H].
  injection E as <- <-. rewrite Bool.negb_true_iff, N.eqb_neq. reflexivity.
Qed.

(* the character data of an element: no error is pushed exactly when every text item passes check_value for the target *)
Theorem text_loop_check self spec v items errs m :
  (forall d, In (CData d) items -> exists u, check_value check_fn d spec u = Val true) ->
  text_loop self spec v items = (errs, m) ->
  (errs = [] <-> forall d, In (CData d) items -> check_value check_fn d spec v = Val true).
Proof.
  intros Hst H. rewrite (CompatProofs2.text_loop_exact v self spec items errs m H). split; intros Hall d Hd.
  - destruct (Hst d Hd) as (u & Hu). apply (value_valid_check d spec u v Hu). exact (Hall d Hd).
  - destruct (Hst d Hd) as (u & Hu). apply (value_valid_check d spec u v Hu). exact (Hall d Hd).
Qed.

(* the length bound is part of it: a string of exactly max_length bytes is compatible and accepted; one byte more is accepted
   by NO version, and then the premise is needed: the compatibility verdict alone says `compatible` *)
Example length_bound_at_max :
  check_value check_fn (DString [65; 66; 67]) (CString false (Some 3)) 1 = Val true /\
  value_valid 2 (DString [65; 66; 67]) (CString false (Some 3)).
Proof. split; reflexivity. Qed.
Example premise_needed :
  (forall u, check_value check_fn (DString [65; 66; 67; 68]) (CString false (Some 3)) u = Val false) /\
  value_valid 2 (DString [65; 66; 67; 68]) (CString false (Some 3)).
Proof. split; [intros u|]; reflexivity. Qed.

End Value.

Lemma length_bound_example (check_fn : N -> list N -> res bool) :
  (check_value check_fn (DString [65; 66; 67]) (CString false (Some 3)) 1 = Val true /\
   value_valid 2 (DString [65; 66; 67]) (CString false (Some 3))) /\
  ((forall u, check_value check_fn (DString [65; 66; 67; 68]) (CString false (Some 3)) u = Val false) /\
   value_valid 2 (DString [65; 66; 67; 68]) (CString false (Some 3))).
Proof. exact (conj (length_bound_at_max check_fn) (premise_needed check_fn)). Qed.
