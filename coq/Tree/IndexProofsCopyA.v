(* Tree/IndexProofsCopyA.v — C04/C05: the reduced result condition copy_clean_a of Tree/RefsAll.v implies copy_clean:
   the registration walk lists a referrer at most once because it visits the nodes of the copy in the order of `walk`,
   which lists nobody twice. *)
From Coq Require Import Lia PeanoNat.
From AV Require Import Base.Bytes Base.Outcome Hash.HashModel Tree.Heap Tree.Ops Tree.Script Tree.IndexProofsW
  Tree.Index Tree.IndexProofsBase Tree.IndexProofsAssoc Tree.IndexProofsTree Tree.Refs Tree.RefsAll Tree.IndexProofsReg
  Tree.IndexProofsNamed Tree.IndexProofsCreate Tree.Copy Tree.CopyProofsDefs Tree.CopyProofsDeep Tree.CopyProofsCreate Tree.CopyProofsFK Tree.IndexProofsCopy.
Open Scope string_scope.
Open Scope list_scope.
Open Scope N_scope.

Lemma nodupN_complete l : NoDup l -> nodupN l = true.
Proof.
  induction 1 as [|k r Hni Hnd IH]; [reflexivity|]. cbn. rewrite IH, andb_true_r. apply negb_true_iff.
  destruct (existsb (N.eqb k) r) eqn:E; [|reflexivity]. exfalso. apply existsb_exists in E as (y & Hy & Ey). apply N.eqb_eq in Ey. subst. contradiction.
Qed.
Lemma nodup_filter {A} (g : A -> bool) l : NoDup l -> NoDup (filter g l).
Proof.
  induction 1 as [|a l Hni Hnd IH]; [constructor|]. cbn. destruct (g a); [|exact IH]. constructor; [|exact IH].
  intros Hin. apply filter_In in Hin as (Hin & _). contradiction.
Qed.
Lemma filter_flat_map {A B} (g : B -> bool) (f : A -> list B) l : filter g (flat_map f l) = flat_map (fun a => filter g (f a)) l.
Proof. induction l as [|a l IH]; [reflexivity|]. cbn. rewrite filter_app, IH. reflexivity. Qed.

Section CopyA.
Variable T : tables.

Definition isrf (w : world) (j : id) : bool :=
  match w_nodes w j with
  | Some n => if isref T (n_type n) then match cdata_of T n with Some (DString _) => true | _ => false end else false
  | None => false
  end.

(* the referrers of the registration walk, in the order of walk *)
Lemma reg_R_walk f : forall w cur i L R, reg_entries T f w cur i = Some (L, R) -> map snd R = filter (isrf w) (walk f w i).
Proof.
  induction f as [|f IH]; intros w cur i L R H; [discriminate H|]. rewrite reg_entries_S in H. cbn [walk].
  destruct (w_nodes w i) as [n|] eqn:Hn; [|discriminate H]. cbv zeta in H.
  destruct (reg_kids T f w (cur ++ seg_n T w n) (n_content n)) as [[a b]|] eqn:Ek; [|discriminate H].
  injection H as <- <-. rewrite map_app. cbn [filter]. unfold isrf at 1. rewrite Hn.
  assert (Hk : map snd b = filter (isrf w) (flat_map (fun it => match it with CElem c => walk f w c | CData _ => [] end) (n_content n))).
  { clear Hn. revert a b Ek. generalize (cur ++ seg_n T w n). intros p. induction (n_content n) as [|[c|d] l IHl]; intros a b Ek.
    - injection Ek as <- <-. reflexivity.
    - rewrite reg_kids_cons_elem in Ek. destruct (reg_entries T f w p c) as [[a1 b1]|] eqn:E1; [|discriminate Ek].
      destruct (reg_kids T f w p l) as [[a2 b2]|] eqn:E2; [|discriminate Ek].
      injection Ek as <- <-. cbn [flat_map]. rewrite map_app, filter_app, (IH _ _ _ _ _ E1), (IHl _ _ eq_refl). reflexivity.
    - cbn [flat_map app]. exact (IHl _ _ Ek). }
  rewrite Hk. destruct (isref T (n_type n)); [|reflexivity]. destruct (cdata_of T n) as [[| s | |]|]; reflexivity.
Qed.

(* walk only follows content lists: two worlds that agree above lo, whose new nodes list new nodes, give the same walk *)
Lemma walk_ext lo w w3 : FreshKids lo w -> (forall j, lo <= j -> w_nodes w3 j = w_nodes w j) ->
  forall f j, lo <= j -> walk f w3 j = walk f w j.
Proof.
  intros HK Hsame. induction f as [|f IH]; intros j Hj; [reflexivity|]. cbn [walk]. rewrite (Hsame j Hj).
  destruct (w_nodes w j) as [n|] eqn:Hn; [|reflexivity]. f_equal.
  assert (Hkids : forall c, In (CElem c) (n_content n) -> lo <= c) by (intros c Hc; eapply HK; eauto).
  induction (n_content n) as [|[c|d] l IHl]; [reflexivity| |].
  - cbn [flat_map]. rewrite (IH c (Hkids c (or_introl eq_refl))), IHl; [reflexivity|]. intros c' Hc'. apply Hkids. right. exact Hc'.
  - cbn [flat_map]. apply IHl. intros c' Hc'. apply Hkids. right. exact Hc'.
Qed.

Variable check_fn : N -> list N -> res bool.
Hypothesis TK : TablesOK T check_fn.
Notation Inv04 := (Inv04 T check_fn).

Lemma copy_clean_a_full self other pos m v w c w' :
  TreeFacts w -> Inv04 w -> MReach T w m self ->
  create_copied_sub_element_inner T self other pos m v w = Val (OK c, w') ->
  copy_clean_a T w w' self c = true -> copy_clean T w w' self c = true.
Proof.
  intros HF HI HRself H Hclean.
  pose proof (tf_closed w HF) as Cw.
  assert (HFK : FreshKids (w_next w) w').
  { destruct (CopyProofsFK.ccsei_FK T (w_next w) _ _ _ _ _ _ _ _ H) as (_ & _ & HK); [apply N.le_refl| |exact HK].
    intros p np y Hp Hnp _. pose proof (tf_alloc _ HF _ _ Hnp). lia. }
  destruct (copy_inner_shape T check_fn self other pos m v w c w' HF HI HRself H)
    as (n & w1 & cn0 & x & path & L & R & ren & Hn & Hpath & Hx & Cw1 & HE & HFR & Hcn0 & _).
  assert (Hlo_c : w_next w <= c) by (destruct (FiltR_inv T _ _ _ _ _ _ _ HFR) as (? & ? & _ & _ & Hl & _); exact Hl).
  assert (Hself_lt : self < w_next w) by (eapply tf_alloc; eauto).
  unfold copy_clean_a in Hclean. unfold copy_clean. rewrite Hn in *.
  destruct (path_unchecked T n w) as [[[path0|e0] wq]| |]; try discriminate Hclean.
  match type of Hclean with match reg_entries T ?f ?w3 ?p c with _ => _ end = true =>
    destruct (reg_entries T f w3 p c) as [[L0 R0]|] eqn:Ereg; [|discriminate Hclean];
    pose proof (reg_R_walk f w3 p c L0 R0 Ereg) as HRw;
    rewrite (walk_ext (w_next w) w' w3 HFK) in HRw end.
  2:{ intros j Hj. cbn. destruct (j =? self) eqn:Ej; [apply N.eqb_eq in Ej; lia|reflexivity]. }
  2:{ exact Hlo_c. }
  repeat (apply andb_true_iff in Hclean as (Hclean & ?)).
  pose proof (nodupN_sound _ Hclean) as Hnd.
  assert (HR : nodupN (map snd R0) = true) by (rewrite HRw; apply nodupN_complete; apply nodup_filter; exact Hnd).
  repeat (apply andb_true_iff; split); assumption.
Qed.

End CopyA.
