(* Tree/RangeProofsUnique.v — C07: ElementRaw::make_unique_item_name writes the generated name orig_<k> into the SHORT-NAME
   without looking at the length limit of the SHORT-NAME specification (known finding unique-name-exceeds-max-length).
   Positive part: the generated name is orig or orig ++ "_" ++ decimal k (C13's make_unique_spec); when
   |orig| + 1 + digits(k) stays within the limit the length test of check_value passes, so the name is as valid as the
   pattern validator says.  Witness on the real tables: Tree/RangeProofsReal.v unique_name_too_long. *)
From Coq Require Import Arith Lia.
From AV Require Import Base.Bytes Base.Outcome Hash.HashModel Spec.SpecOps Tree.Heap Tree.Ops Tree.CopyProofsDefs Tree.CopyProofsCreate.
Open Scope list_scope.
Open Scope N_scope.

Theorem unique_name_valid_when_short (T : tables) (check_fn : N -> list N -> res bool) i m pp w name w' :
  make_unique_item_name T i m pp w = Val (OK name, w') ->
  exists n orig k,
    w_nodes w i = Some n /\ item_name T n w = Val (OK (Some orig), w) /\
    (name = orig \/ (1 <= k /\ name = orig ++ [95] ++ to_dec k)) /\
    forall maxlen fn v,
      N.of_nat (List.length orig) + 1 + N.of_nat (List.length (to_dec k)) <= maxlen ->
      check_value check_fn (DString name) (CPattern fn (Some maxlen)) v = check_fn fn name.
Proof.
  intros H. destruct (make_unique_spec T i m pp w _ w' H) as [(e & [=] & _)|(n & orig & name' & Hn & Hi & [= <-] & HN & _ & _)].
  assert (Hk : exists k, (name = orig \/ (1 <= k /\ name = orig ++ [95] ++ to_dec k))).
  { destruct HN as [->|(k & Hk & ->)]; [exists 1; left; reflexivity|exists k; right; split; [exact Hk|reflexivity]]. }
  destruct Hk as (k & Hk). exists n, orig, k. split; [exact Hn|]. split; [exact Hi|]. split; [exact Hk|].
  intros maxlen fn v Hlen. cbn [check_value]. unfold opt_le.
  replace (N.of_nat (List.length name) <=? maxlen) with true; [reflexivity|]. symmetry. apply N.leb_le.
  destruct Hk as [->|(_ & ->)]; [lia|]. rewrite !app_length. cbn [List.length]. lia.
Qed.
