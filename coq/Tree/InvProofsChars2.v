(* Tree/InvProofsChars2.v — C03: CharsLeaf / type frame, part 2: file operations, insertion (create, move, copy). *)
From Coq Require Import PeanoNat Arith.
From AV Require Import Base.Bytes Base.Outcome Hash.HashModel Tree.Heap Tree.Ops Tree.Script Tree.Inv
  Tree.InvProofsBase Tree.InvProofsCore Tree.InvProofsTree Tree.InvProofsPrim Tree.InvProofsCreate
  Tree.InvProofsData Tree.InvProofsRefs Tree.InvProofsRemove Tree.InvProofsFiles Tree.InvProofsMove
  Tree.InvProofsCopy Tree.InvProofsRename Tree.InvProofsFrame Tree.InvProofsChars.
Open Scope string_scope.
Open Scope list_scope.
Open Scope N_scope.

#[export] Hint Resolve cfp_add_identifiable cfp_remove_identifiable cfp_fix_identifiables cfp_add_reference_origin
  cfp_fix_reference_origins cfp_remove_reference_origin cfp_raw_set_cdata cfp_raw_set_attribute cfp_detach_from
  cfp_make_unique cfp_register_subtree cfp_upd_refs_loop cfp_ow_loop cfp_move_ref_body cfp_fixid_body
  cfp_rename_ref_body cfp_rm_id_loop cfp_rm_ref_loop cfp_add_id_loop cfp_add_ref_loop cfp_remove_internal
  cfp_raw_remove cfp_e_remove cfp_e_remove_kind : frp.

Section CF2.
Variable T : tables.
Variable tab_el tab_en : nametab.
Variable check_fn : N -> list N -> res bool.
Variable LATEST : N.
Variable root_attrs : list (N * cdata).

Notation cfp := (frp (cNR T) (cNN T)).
Notation cfp_at := (frp_at (cNR T) (cNN T)).
Notation cframe := (frame (cNR T) (cNN T)).

Lemma cframe_refl w : cframe w w. Proof. apply frame_refl, cNR_refl. Qed.
Lemma cframe_trans a b c : cframe a b -> cframe b c -> cframe a c.
Proof. apply frame_trans; [apply cNR_trans | apply cNN_NR]. Qed.

(* ---------- file operations ---------- *)
Lemma cfp_add_to_file_restricted fuel : forall e f, cfp (add_to_file_restricted T fuel e f).
Proof.
  induction fuel as [|fl IH]; intros e f; cbn [add_to_file_restricted]; [intros w r w' H; discriminate|].
  apply frp_bind; [ fr_side .. | c_tac | ]. intros fm.
  destruct (match fm with Some x => x | None => (true, []) end) as [local cur].
  destruct (set_mem f cur); [c_tac|].
  apply frp_bind; [ fr_side .. | c_tac | ]. intros n.
  apply frp_bind; [ fr_side .. | c_tac | ]. intros sp.
  apply frp_bind; [ fr_side .. | | ].
  { destruct (negb (sp =? 0)); [|c_tac].
    induction (n_content n) as [|[c|d] l IHl]; [c_tac | | exact IHl].
    apply frp_bind; [ fr_side .. | | intros; exact IHl ].
    apply frp_modify_node; [ fr_side .. | ]. intros nx. destruct (is_empty (n_files nx)); c_leaf. }
  intros _. c_tac; try apply IH.
Qed.
Hint Resolve cfp_add_to_file_restricted : frp.
Lemma cfp_e_add_to_file e f : cfp (e_add_to_file T e f).
Proof. unfold e_add_to_file. c_tac. Qed.
Lemma cfp_set_file_membership e fm : cfp (set_file_membership T e fm).
Proof. unfold set_file_membership. c_tac. Qed.
Hint Resolve cfp_set_file_membership : frp.

Lemma cframe_m_create_file m name version w r w' : m_create_file T m name version w = Val (r, w') -> cframe w w'.
Proof.
  intros H. unfold m_create_file in H. wrun_ro H ltac:(apply cframe_refl).
  wstepn H u Ep. apply wput_inv in Ep as (_ & ->).
  match type of H with ?mm ?wa = _ =>
    refine (cframe_trans _ wa _ _ ((_ : cfp mm) wa _ _ H)); [apply frame_nodes_eq; [apply cNR_refl | reflexivity]|] end.
  c_tac.
Qed.

Lemma cfp_scan_loop f ids : cfp (scan_loop f ids).
Proof. induction ids as [|s rest IH]; cbn [scan_loop]; c_tac. Qed.

Lemma cfp_e_remove_from_file e f : cfp (e_remove_from_file T e f).
Proof.
  unfold e_remove_from_file.
  apply frp_bind; [ fr_side .. | c_tac | ]. intros n.
  apply frp_bind; [ fr_side .. | c_tac | ]. intros ps.
  destruct (negb ps); [c_tac|].
  apply frp_bind; [ fr_side .. | c_tac | ]. intros fm.
  apply frp_bind; [ fr_side .. | c_tac | ]. intros m.
  destruct (negb (fm =? m)); [c_tac|].
  apply frp_bind; [ fr_side .. | c_tac | ]. intros [loc cur].
  apply frp_bind; [ fr_side .. | c_tac | ]. intros _.
  apply frp_bind; [ fr_side .. | c_tac | ]. intros _.
  apply frp_bind; [ fr_side .. | c_tac | ]. intros w0.
  apply frp_bind; [ fr_side .. | c_tac | ]. intros ids.
  apply frp_bind; [ fr_side .. | apply (cfp_scan_loop f ids) | ].
  intros to_delete. induction to_delete as [|d rest IHd]; c_tac.
Qed.
Hint Resolve cfp_e_remove_from_file : frp.

Lemma cframe_m_remove_file m f w r w' : m_remove_file T m f w = Val (r, w') -> cframe w w'.
Proof.
  intros H. unfold m_remove_file in H. wrun_ro H ltac:(apply cframe_refl).
  wstepn H u Es. apply set_model_inv in Es as (_ & ->).
  match type of H with ?mm ?wa = _ =>
    refine (cframe_trans _ wa _ _ ((_ : cfp mm) wa _ _ H)); [apply frame_nodes_eq; [apply cNR_refl | reflexivity]|] end.
  destruct (is_empty _); [|c_tac].
  apply frp_bind; [ fr_side .. | c_tac | ]. intros rn.
  apply frp_bind; [ fr_side .. | | intros; c_tac ].
  induction (n_content rn) as [|[c|d] l IHl]; c_tac.
Qed.

(* ---------- new_model ---------- *)
Lemma cframe_new_model w r w' : Core w -> new_model T root_attrs w = Val (r, w') -> cframe w w'.
Proof.
  intros C H. unfold new_model in H.
  destruct (et_new T (autosar_element T)) as [ty|s|]; destruct (elem T (autosar_element T)) as [ed|s'|];
    try discriminate.
  injection H as <- <-. pose proof (core_fresh_none _ C) as Hf. apply skel_none in Hf. split.
  - intros i Hi. cbn. unfold upd. destruct (i =? w_next w); congruence.
  - intros i n' Hn'. cbn in Hn'. unfold upd in Hn'. destruct (i =? w_next w) eqn:E.
    + apply N.eqb_eq in E. subst i. injection Hn' as <-. right. split; auto. intros _. reflexivity.
    + left. exists n'. split; auto. apply cNR_refl.
Qed.

(* ---------- insertion of a sub-element: the destination must not be a Characters-mode element ---------- *)
Lemma calc_not_chars n name version w r : calc_element_insert_range T n name version w = Val (OK r, w) -> ~ is_chars T n.
Proof.
  unfold calc_element_insert_range, is_chars. intros H Hc. wstepn H mode Em; winv Em.
  rewrite Hc in Hv. injection Hv as <-. cbn in H. winv H.
Qed.

Lemma cframe_content_insert self pos c w r w' n :
  w_nodes w self = Some n -> ~ is_chars T n -> content_insert self pos (CElem c) w = Val (r, w') -> cframe w w'.
Proof.
  intros Hn Hc H. apply content_insert_inv in H as (n1 & Hn1 & _ & ->). assert (n1 = n) as -> by congruence.
  eapply frame_wset; [apply cNR_refl | exact Hn |]. split; [reflexivity | intros Hx; contradiction].
Qed.

Lemma cframe_move_position self mv pos e w r w' : move_element_position self mv pos e w = Val (r, w') -> cframe w w'.
Proof.
  intros H. unfold move_element_position in H. wrun_ro H ltac:(apply cframe_refl).
  wstepn H u Es. apply set_node_wset in Es as (_ & ->). winv H.
  eapply frame_wset; [apply cNR_refl | eassumption |]. split; [reflexivity|]. intros _ Hk.
  exfalso. match goal with Hi : index_of (citem_is mv) _ = Some _ |- _ => apply index_of_citem_in in Hi end.
  unfold kids in Hk. rewrite Hk in *. contradiction.
Qed.

End CF2.
