(* Tree/LoadRefineKeys.v — what merge_element reads of a sub-element (Load.key_of: heap) is MergePure.hkey of the erased
   tree, with the heap id; the key list of a content list is the positional key list of the pure merge with the
   positions renamed to the heap ids. *)
From AV Require Import Base.Bytes Base.Outcome Hash.HashModel Tree.Heap Tree.Ops Tree.Script Tree.Load Tree.MergeSpec
  Tree.MergePure Tree.LoadProofsBase Tree.LoadRefineBase Tree.LoadRefineWalk.
Open Scope string_scope.
Open Scope list_scope.
Open Scope N_scope.

Section Keys.
Variable T : tables.
Variable defref : N.

Lemma character_data_abs w a : AbsA w a ->
  forall p, w_nodes w (a_id a) = Some p -> character_data T p = h_character_data T (erase a).
Proof.
  intros HA n Hn. destruct (AbsA_node w a HA) as (p & Hp). rewrite Hp in Hn. injection Hn as <-.
  destruct a as [i name ty attrs content comment local]. cbn [a_name a_ty a_content a_local] in *.
  unfold character_data, h_character_data. cbn [n_content n_type]. rewrite erase_unfold. cbn [h_content h_ty].
  destruct content as [|[c|d] [|x r]]; cbn [map citem_of erase_items]; try reflexivity; destruct x; reflexivity.
Qed.

Lemma rd_is_identifiable w a : AbsA w a ->
  forall n, w_nodes w (a_id a) = Some n -> rd (is_identifiable T n) w = h_is_identifiable T (erase a).
Proof.
  intros HA n Hn. destruct (AbsA_node w a HA) as (p & Hp). rewrite Hp in Hn. injection Hn as <-.
  pose proof (AbsA_items w a HA) as HI.
  destruct a as [i name ty attrs content comment local]. cbn [a_name a_ty a_content a_local] in *.
  unfold rd, is_identifiable, h_is_identifiable. rewrite erase_unfold. cbn [n_type n_content h_ty h_content].
  unfold wbind, wl, wlift. destruct (is_named T ty) as [named| |]; cbn [bind]; try reflexivity.
  destruct named; cbn [negb]; [|reflexivity].
  destruct content as [|[c|d] r]; cbn [map citem_of erase_items]; try reflexivity.
  cbn [AbsItems] in HI. destruct HI as [Hc _]. destruct (AbsA_node w c Hc) as (pc & Hpc).
  unfold get_node. rewrite Hpc. cbn [wret n_name]. rewrite erase_name. reflexivity.
Qed.

Lemma rd_item_name w a : AbsA w a ->
  forall n, w_nodes w (a_id a) = Some n -> rd (item_name T n) w = h_item_name T (erase a).
Proof.
  intros HA n Hn. destruct (AbsA_node w a HA) as (p & Hp). rewrite Hp in Hn. injection Hn as <-.
  pose proof (AbsA_items w a HA) as HI.
  destruct a as [i name ty attrs content comment local]. cbn [a_name a_ty a_content a_local] in *.
  unfold rd, item_name, h_item_name. rewrite erase_unfold. cbn [n_type n_content h_ty h_content].
  unfold wbind, wl, wlift. destruct (is_named T ty) as [named| |]; cbn [bind]; try reflexivity.
  destruct named; cbn [negb]; [|reflexivity].
  destruct content as [|[c|d] r]; cbn [map citem_of erase_items]; try reflexivity.
  cbn [AbsItems] in HI. destruct HI as [Hc _]. destruct (AbsA_node w c Hc) as (pc & Hpc).
  unfold get_node. rewrite Hpc. cbn [n_name]. rewrite erase_name. unfold SHORT.
  destruct (a_name c =? name_short_name T); [|reflexivity].
  rewrite (character_data_abs w c Hc _ Hpc).
  destruct (h_character_data T (erase c)) as [[[e|s|u|f]|]| |]; reflexivity.
Qed.

Fixpoint a_first_named (name : N) (l : list (atree + cdata)) : option atree :=
  match l with
  | [] => None
  | inl c :: r => if a_name c =? name then Some c else a_first_named name r
  | inr _ :: r => a_first_named name r
  end.

Lemma first_named_abs w name l : AbsItems w l ->
  first_named name (map citem_of l) w = Val (OK (option_map a_id (a_first_named name l)), w).
Proof.
  induction l as [|[c|d] r IH]; cbn [map citem_of first_named a_first_named AbsItems]; [reflexivity| |exact IH].
  intros [Hc Hr]. destruct (AbsA_node w c Hc) as (pc & Hpc).
  unfold wbind, get_node. rewrite Hpc. cbn [n_name].
  destruct (a_name c =? name); [reflexivity|]. apply IH. exact Hr.
Qed.

Lemma h_first_named_erase name l : h_first_named name (erase_items l) = option_map erase (a_first_named name l).
Proof.
  induction l as [|[c|d] r IH]; cbn [erase_items h_first_named a_first_named]; [reflexivity| |exact IH].
  rewrite erase_name. destruct (a_name c =? name); [reflexivity|exact IH].
Qed.

Lemma a_first_named_in name l c : a_first_named name l = Some c -> In (inl c) l.
Proof.
  induction l as [|[c0|d] r IH]; cbn [a_first_named]; [discriminate| |].
  - destruct (a_name c0 =? name); [intros [= ->]; left; reflexivity|intros H; right; apply IH; exact H].
  - intros H. right. apply IH. exact H.
Qed.

Lemma rd_defref w a : AbsA w a ->
  forall n, w_nodes w (a_id a) = Some n -> rd (defref_of T defref n) w = h_defref T defref (erase a).
Proof.
  intros HA n Hn. destruct (AbsA_node w a HA) as (p & Hp). rewrite Hp in Hn. injection Hn as <-.
  pose proof (AbsA_items w a HA) as HI.
  destruct a as [i name ty attrs content comment local]. cbn [a_name a_ty a_content a_local] in *.
  unfold rd, defref_of, h_defref. rewrite erase_unfold. cbn [n_content h_content].
  unfold wbind. rewrite (first_named_abs w defref content HI), h_first_named_erase.
  destruct (a_first_named defref content) as [d|] eqn:E; cbn [option_map]; [|reflexivity].
  pose proof (AbsItems_in w content d HI (a_first_named_in _ _ _ E)) as Hd.
  destruct (AbsA_node w d Hd) as (pd & Hpd). unfold get_node. rewrite Hpd. unfold wl, wlift.
  rewrite (character_data_abs w d Hd _ Hpd).
  destruct (h_character_data T (erase d)) as [[[e|s|u|f]|]| |]; reflexivity.
Qed.

(* the key of a sub-element *)
Lemma key_of_abs w pty a : AbsA w a -> key_of T defref w pty (a_id a) = Val (hkey T defref pty (a_id a) (erase a)).
Proof.
  intros HA. destruct (AbsA_node w a HA) as (p & Hp). unfold key_of. rewrite Hp.
  rewrite (rd_is_identifiable w a HA _ Hp), (rd_item_name w a HA _ Hp), (rd_defref w a HA _ Hp).
  unfold hkey. cbn [n_name]. rewrite erase_name. reflexivity.
Qed.

Fixpoint akeys (pty : N * N) (l : list (atree + cdata)) : list ckey :=
  match l with
  | [] => []
  | inl c :: r => hkey T defref pty (a_id c) (erase c) :: akeys pty r
  | inr _ :: r => akeys pty r
  end.

Lemma keys_of_abs w pty l : AbsItems w l -> keys_of T defref w pty (map citem_of l) = Val (akeys pty l).
Proof.
  induction l as [|[c|d] r IH]; cbn [map citem_of keys_of akeys AbsItems]; [reflexivity| |exact IH].
  intros [Hc Hr]. rewrite (key_of_abs w pty c Hc). cbn [bind]. rewrite (IH Hr). reflexivity.
Qed.

(* the id of the element at a position of a content list *)
Definition pos_id (l : list (atree + cdata)) (p : N) : id :=
  match nth_error l (N.to_nat p) with Some (inl c) => a_id c | _ => 0 end.

Lemma akeys_rk pty l : forall from (f : id -> id),
  (forall j c, nth_error l j = Some (inl c) -> f (from + N.of_nat j) = a_id c) ->
  akeys pty l = map (rk f) (hkeys T defref pty from (erase_items l)).
Proof.
  induction l as [|[c|d] r IH]; intros from f Hf; cbn [akeys erase_items hkeys map]; [reflexivity| |].
  - f_equal.
    + unfold rk, hkey. cbn [k_id k_name k_ident k_item k_defref k_idx]. f_equal.
      specialize (Hf O c eq_refl). rewrite N.add_0_r in Hf. symmetry. exact Hf.
    + apply IH. intros j c0 Hj. rewrite <- (Hf (S j) c0 Hj). f_equal. lia.
  - apply IH. intros j c0 Hj. rewrite <- (Hf (S j) c0 Hj). f_equal. lia.
Qed.

Lemma akeys_pos pty l : akeys pty l = map (rk (pos_id l)) (hkeys T defref pty 0 (erase_items l)).
Proof.
  apply akeys_rk. intros j c Hj. unfold pos_id. rewrite N.add_0_l, Nat2N.id, Hj. reflexivity.
Qed.

Lemma akeys_ids pty l : map k_id (akeys pty l) = map a_id (flat_map (fun it => match it with inl c => [c] | inr _ => [] end) l).
Proof. induction l as [|[c|d] r IH]; cbn [akeys map flat_map app]; [reflexivity| |exact IH]. f_equal. exact IH. Qed.

End Keys.
