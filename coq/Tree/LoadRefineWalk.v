(* Tree/LoadRefineWalk.v — the walk of merge_element does not depend on what the node ids are: renaming the ids of the
   two key lists (injectively on the b side) renames the result.  Used to relate the walk over the heap ids
   (Load.merge_element) with the walk over the positions of the content list (MergePure.pmerge). *)
From AV Require Import Base.Bytes Base.Outcome Hash.HashModel Tree.Heap Tree.Ops Tree.Load.
Open Scope string_scope.
Open Scope list_scope.
Open Scope N_scope.

Definition rk (f : id -> id) (k : ckey) : ckey :=
  mkKey (f (k_id k)) (k_name k) (k_ident k) (k_item k) (k_defref k) (k_idx k).

Definition rmerge (fa fb : id -> id) (l : list (id * id)) : list (id * id) := map (fun p => (fa (fst p), fb (snd p))) l.
Definition rbonly (fb : id -> id) (l : list (id * N)) : list (id * N) := map (fun p => (fb (fst p), snd p)) l.
Definition rwalked (fa fb : id -> id) (wk : walked) : walked :=
  mkWalked (rmerge fa fb (wk_merge wk)) (map fa (wk_a_only wk)) (rbonly fb (wk_b_only wk)).

Definition raction (fb : id -> id) (a : action) : action :=
  match a with MergeUnequal b => MergeUnequal (fb b) | x => x end.

Definition res_map {A B} (f : A -> B) (r : res A) : res B :=
  match r with Val a => Val (f a) | Pan s => Pan s | Fuel => Fuel end.
Definition out_map {A B} (f : A -> B) (o : out A) : out B := match o with OK a => OK (f a) | ER e => ER e end.

Lemma find_sibling_item_rk f name item l :
  find_sibling_item name item (map (rk f) l) = res_map (option_map f) (find_sibling_item name item l).
Proof.
  induction l as [|k l IH]; cbn [map find_sibling_item]; [reflexivity|]. cbn [rk k_name k_item k_id].
  destruct (k_name k =? name); [|exact IH].
  destruct (k_item k) as [it| |]; cbn [bind]; try reflexivity.
  destruct (opt_bytes_eqb it item); [reflexivity|exact IH].
Qed.

Lemma find_sibling_defref_rk f name dr l :
  find_sibling_defref name dr (map (rk f) l) = res_map (option_map f) (find_sibling_defref name dr l).
Proof.
  induction l as [|k l IH]; cbn [map find_sibling_defref]; [reflexivity|]. cbn [rk k_name k_defref k_id].
  destruct (k_name k =? name); [|exact IH].
  destruct (k_defref k) as [d| |]; cbn [bind]; try reflexivity.
  destruct (opt_bytes_eqb d dr); [reflexivity|exact IH].
Qed.

Lemma find_merge_partner_rk f l k k' :
  k_ident k' = k_ident k -> k_item k' = k_item k -> k_defref k' = k_defref k -> k_name k' = k_name k ->
  find_merge_partner (map (rk f) l) k' = res_map (option_map f) (find_merge_partner l k).
Proof.
  intros E1 E2 E3 E4. unfold find_merge_partner. rewrite E1, E2, E3, E4.
  destruct (k_ident k) as [[|]| |]; cbn [bind res_map]; try reflexivity.
  - destruct (k_item k) as [it| |]; cbn [bind res_map]; try reflexivity. apply find_sibling_item_rk.
  - destruct (k_defref k) as [d| |]; cbn [bind res_map]; try reflexivity. apply find_sibling_defref_rk.
Qed.

Lemma merge_action_rk fa fb all_a all_b sp pos ka kb :
  merge_action (map (rk fa) all_a) (map (rk fb) all_b) sp pos (rk fa ka) (rk fb kb) =
  res_map (out_map (raction fb)) (merge_action all_a all_b sp pos ka kb).
Proof.
  unfold merge_action. cbn [rk k_name k_ident k_idx].
  destruct (k_name ka =? k_name kb).
  - destruct (k_ident ka) as [[|]| |]; cbn [bind res_map]; try reflexivity.
    + unfold calc_identifiables_merge. cbn [rk k_item k_name].
      destruct (k_item ka) as [ia| |]; cbn [bind res_map]; try reflexivity.
      destruct (k_item kb) as [ib| |]; cbn [bind res_map]; try reflexivity.
      destruct (opt_bytes_eqb ia ib); [reflexivity|].
      rewrite find_sibling_item_rk.
      destruct (find_sibling_item (k_name ka) ia all_b) as [[s|]| |]; cbn [res_map option_map bind]; try reflexivity.
      destruct sp; reflexivity.
    + unfold calc_element_merge. cbn [rk k_defref k_name].
      destruct (k_defref ka) as [da| |]; cbn [bind res_map]; try reflexivity.
      destruct (k_defref kb) as [db| |]; cbn [bind res_map]; try reflexivity.
      destruct (opt_bytes_eqb da db); [reflexivity|].
      rewrite find_sibling_defref_rk.
      destruct (find_sibling_defref (k_name ka) da all_b) as [[s|]| |]; cbn [res_map option_map bind]; reflexivity.
  - destruct (k_idx ka) as [[ia|]| |]; cbn [bind res_map]; try reflexivity.
    destruct (k_idx kb) as [[ib|]| |]; cbn [bind res_map]; try reflexivity.
    rewrite (find_merge_partner_rk fb all_b ka) by reflexivity.
    destruct (find_merge_partner all_b ka) as [[s|]| |]; cbn [res_map option_map bind]; try reflexivity.
    rewrite (find_merge_partner_rk fa all_a kb) by reflexivity.
    destruct (find_merge_partner all_a kb) as [[s|]| |]; cbn [res_map option_map bind]; try reflexivity.
    destruct (lex_cmp ia ib); reflexivity.
Qed.

(* ------------------------------------------------------------------ the walk *)
Lemma merged_b_rk fa fb (D : id -> Prop) merges b :
  (forall x y, D x -> D y -> fb x = fb y -> x = y) -> D b -> (forall p, In p merges -> D (snd p)) ->
  merged_b (rmerge fa fb merges) (fb b) = merged_b merges b.
Proof.
  intros Hinj Hb Hm. unfold merged_b, rmerge. induction merges as [|[pa pb] l IH]; cbn [map existsb]; [reflexivity|].
  rewrite IH by (intros q Hq; apply Hm; right; exact Hq). f_equal. cbn [fst snd].
  assert (Hpb : D pb) by (apply (Hm (pa, pb)); left; reflexivity).
  destruct (N.eq_dec pb b) as [E|E].
  - rewrite E, !N.eqb_refl. reflexivity.
  - rewrite (proj2 (N.eqb_neq _ _) E). apply N.eqb_neq. intros E2. apply E. apply Hinj; auto.
Qed.

Lemma find_sibling_item_in name item l s : find_sibling_item name item l = Val (Some s) -> In s (map k_id l).
Proof.
  induction l as [|k l IH]; cbn [find_sibling_item map]; [discriminate|].
  destruct (k_name k =? name); [|intros H; right; apply IH; exact H].
  destruct (k_item k) as [it| |]; cbn [bind]; try discriminate.
  destruct (opt_bytes_eqb it item); [intros [= <-]; left; reflexivity|intros H; right; apply IH; exact H].
Qed.
Lemma find_sibling_defref_in name dr l s : find_sibling_defref name dr l = Val (Some s) -> In s (map k_id l).
Proof.
  induction l as [|k l IH]; cbn [find_sibling_defref map]; [discriminate|].
  destruct (k_name k =? name); [|intros H; right; apply IH; exact H].
  destruct (k_defref k) as [d| |]; cbn [bind]; try discriminate.
  destruct (opt_bytes_eqb d dr); [intros [= <-]; left; reflexivity|intros H; right; apply IH; exact H].
Qed.
Lemma find_merge_partner_in l k s : find_merge_partner l k = Val (Some s) -> In s (map k_id l).
Proof.
  unfold find_merge_partner. destruct (k_ident k) as [[|]| |]; cbn [bind]; try discriminate.
  - destruct (k_item k) as [it| |]; cbn [bind]; try discriminate. apply find_sibling_item_in.
  - destruct (k_defref k) as [d| |]; cbn [bind]; try discriminate. apply find_sibling_defref_in.
Qed.

(* the sibling a MergeUnequal names is one of all_b *)
Lemma merge_action_unequal_in all_a all_b sp pos ka kb s :
  merge_action all_a all_b sp pos ka kb = Val (OK (MergeUnequal s)) -> In s (map k_id all_b).
Proof.
  unfold merge_action. destruct (k_name ka =? k_name kb).
  - destruct (k_ident ka) as [[|]| |]; cbn [bind]; try discriminate.
    + unfold calc_identifiables_merge.
      destruct (k_item ka) as [ia| |]; cbn [bind]; try discriminate.
      destruct (k_item kb) as [ib| |]; cbn [bind]; try discriminate.
      destruct (opt_bytes_eqb ia ib); [discriminate|].
      destruct (find_sibling_item (k_name ka) ia all_b) as [[x|]| |] eqn:E; cbn [bind]; try discriminate.
      * intros [= <-]. eapply find_sibling_item_in; eauto.
      * destruct sp; discriminate.
    + unfold calc_element_merge.
      destruct (k_defref ka) as [da| |]; cbn [bind]; try discriminate.
      destruct (k_defref kb) as [db| |]; cbn [bind]; try discriminate.
      destruct (opt_bytes_eqb da db); [discriminate|].
      destruct (find_sibling_defref (k_name ka) da all_b) as [[x|]| |] eqn:E; cbn [bind]; try discriminate.
      intros [= <-]. eapply find_sibling_defref_in; eauto.
  - destruct (k_idx ka) as [[ia|]| |]; cbn [bind]; try discriminate.
    destruct (k_idx kb) as [[ib|]| |]; cbn [bind]; try discriminate.
    destruct (find_merge_partner all_b ka) as [[x|]| |] eqn:E; cbn [bind]; try discriminate.
    + intros [= <-]. eapply find_merge_partner_in; eauto.
    + destruct (find_merge_partner all_a kb) as [[y|]| |]; cbn [bind]; try discriminate.
      destruct (lex_cmp ia ib); discriminate.
Qed.

Theorem walk_rk fa fb (all_a all_b : list ckey) sp cnt :
  (forall x y, In x (map k_id all_b) -> In y (map k_id all_b) -> fb x = fb y -> x = y) ->
  forall fuel pos la lb acc,
    incl lb all_b -> (forall p, In p (wk_merge acc) -> In (snd p) (map k_id all_b)) ->
    walk fuel (map (rk fa) all_a) (map (rk fb) all_b) sp cnt pos (map (rk fa) la) (map (rk fb) lb) (rwalked fa fb acc) =
    res_map (out_map (rwalked fa fb)) (walk fuel all_a all_b sp cnt pos la lb acc).
Proof.
  intros Hinj. induction fuel as [|f IH]; intros pos la lb acc Hlb Hacc; [reflexivity|].
  cbn [walk]. destruct la as [|ka la']; destruct lb as [|kb lb']; cbn [map].
  - cbn [res_map out_map]. unfold rwalked. cbn [wk_merge wk_a_only wk_b_only]. rewrite app_nil_r. cbn [map]. rewrite app_nil_r. reflexivity.
  - cbn [res_map out_map]. unfold rwalked. cbn [wk_merge wk_a_only wk_b_only]. f_equal. f_equal. f_equal.
    unfold rbonly. rewrite map_app. f_equal.
    change (rk fb kb :: map (rk fb) lb') with (map (rk fb) (kb :: lb')).
    assert (G : forall l, incl l all_b ->
                map (fun kb0 : ckey => (k_id kb0, cnt))
                    (filter (fun kb0 : ckey => negb (merged_b (rmerge fa fb (wk_merge acc)) (k_id kb0))) (map (rk fb) l)) =
                map (fun p : id * N => (fb (fst p), snd p))
                    (map (fun kb0 : ckey => (k_id kb0, cnt)) (filter (fun kb0 : ckey => negb (merged_b (wk_merge acc) (k_id kb0))) l))).
    { induction l as [|x l IHl]; intros Hl; cbn [map filter]; [reflexivity|]. cbn [rk k_id].
      rewrite (merged_b_rk fa fb (fun i => In i (map k_id all_b))); auto.
      2:{ apply in_map. apply Hl. left. reflexivity. }
      assert (Hl' : incl l all_b) by (intros z Hz; apply Hl; right; exact Hz).
      destruct (negb (merged_b (wk_merge acc) (k_id x))); cbn [map fst snd k_id rk]; rewrite IHl by exact Hl'; reflexivity. }
    apply G. exact Hlb.
  - cbn [res_map out_map]. unfold rwalked. cbn [wk_merge wk_a_only wk_b_only]. f_equal. f_equal. f_equal.
    rewrite map_app. f_equal. cbn [map rk k_id]. f_equal. rewrite !map_map. reflexivity.
  - rewrite merge_action_rk.
    assert (Hkb : In kb all_b) by (apply Hlb; left; reflexivity).
    assert (Hlb' : incl lb' all_b) by (intros z Hz; apply Hlb; right; exact Hz).
    destruct (merge_action all_a all_b sp pos ka kb) as [[act|e]| |] eqn:Ea; cbn [res_map out_map bind]; try reflexivity.
    destruct act as [|o| |p]; cbn [raction].
    + (* MergeEqual *)
      rewrite <- (IH (pos + 1) la' lb' (mkWalked (wk_merge acc ++ [(k_id ka, k_id kb)]) (wk_a_only acc) (wk_b_only acc))); auto.
      * unfold rwalked, rmerge. cbn [wk_merge wk_a_only wk_b_only rk k_id]. rewrite map_app. reflexivity.
      * cbn [wk_merge]. intros q Hq. apply in_app_or in Hq as [Hq|[<-|[]]]; [auto|]. cbn [snd]. apply in_map. exact Hkb.
    + (* MergeUnequal *)
      change (rk fb kb :: map (rk fb) lb') with (map (rk fb) (kb :: lb')).
      rewrite <- (IH (pos + 1) la' (kb :: lb') (mkWalked (wk_merge acc ++ [(k_id ka, o)]) (wk_a_only acc) (wk_b_only acc))); auto.
      * unfold rwalked, rmerge. cbn [wk_merge wk_a_only wk_b_only rk k_id]. rewrite map_app. reflexivity.
      * cbn [wk_merge]. intros q Hq. apply in_app_or in Hq as [Hq|[<-|[]]]; [auto|]. cbn [snd].
        eapply merge_action_unequal_in; eauto.
    + (* AOnly *)
      change (rk fb kb :: map (rk fb) lb') with (map (rk fb) (kb :: lb')).
      rewrite <- (IH (pos + 1) la' (kb :: lb') (mkWalked (wk_merge acc) (wk_a_only acc ++ [k_id ka]) (wk_b_only acc))); auto.
      unfold rwalked. cbn [wk_merge wk_a_only wk_b_only rk k_id]. rewrite map_app. reflexivity.
    + (* BOnly *)
      change (rk fa ka :: map (rk fa) la') with (map (rk fa) (ka :: la')).
      cbn [rwalked wk_merge wk_a_only wk_b_only rk k_id].
      rewrite (merged_b_rk fa fb (fun i => In i (map k_id all_b))); auto; [|apply in_map; exact Hkb].
      rewrite <- (IH pos (ka :: la') lb'
                     (mkWalked (wk_merge acc) (wk_a_only acc)
                               (if merged_b (wk_merge acc) (k_id kb) then wk_b_only acc else wk_b_only acc ++ [(k_id kb, p)]))); auto.
      unfold rwalked. cbn [wk_merge wk_a_only wk_b_only].
      destruct (merged_b (wk_merge acc) (k_id kb)); [reflexivity|]. unfold rbonly. rewrite map_app. reflexivity.
Qed.
