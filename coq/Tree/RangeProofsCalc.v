(* Tree/RangeProofsCalc.v — C07 proofs, layer 2: Ops.range_loop over the heap refines the abstract class loop, and the
   theorems about Ops.calc_element_insert_range for every table set with SpecWF. *)
From Coq Require Import Arith.
From AV Require Import Base.Bytes Base.Outcome Hash.HashModel Spec.SpecOps Tree.Heap Tree.Ops Tree.Script Tree.Inv Tree.InvProofsBase
  Tree.Range Tree.RangeProofsPath Tree.SpecWF Tree.RangeProofsLoop.
Open Scope list_scope.
Open Scope N_scope.

Lemma lex_cmp_ix a b : lex_cmp a b = ix_cmp a b.
Proof. revert b. induction a as [|x a IH]; intros [|y b]; cbn [lex_cmp ix_cmp]; try reflexivity; try (rewrite IH; reflexivity). Qed.
Lemma list_eqbN_ix a b : list_eqbN a b = ix_eqb a b.
Proof. revert b. induction a as [|x a IH]; intros [|y b]; cbn [list_eqbN ix_eqb]; try reflexivity; try (rewrite IH; reflexivity). Qed.

Section Calc.
Variable T : tables.

Lemma idx_of_find ty v name ix : idx_of T ty v name = Some ix -> exists et, find_sub_element T ty name v = Val (Some (et, ix)).
Proof.
  unfold idx_of. destruct (find_sub_element T ty name v) as [[[et ix']|]| |]; try discriminate. intros [= ->]. eauto.
Qed.

Lemma repeat_conflict_leaf ty new : leaf_path T (snd ty) new ->
  repeat_conflict T ty new = Val (negb (mult_any T ty new)).
Proof.
  intros L. destruct (mult_any_leaf T ty new L) as (mu & H1 & H2). unfold repeat_conflict. rewrite H1, H2. reflexivity.
Qed.

(* ------------------------------------------------------------------ 3. refinement *)
Lemma range_loop_refine ty v new : leaf_path T (snd ty) new ->
  forall l items ol idx s w r w',
  items_of w l = Some items -> opaths T ty v items = Some ol ->
  range_loop T ty v new l idx s idx w = Val (r, w') ->
  w' = w /\
  match r with
  | OK x => cloop (map (cls_of T ty new) ol) idx s = Some (Some x)
  | ER er => er = ElementInsertionConflict /\ cloop (map (cls_of T ty new) ol) idx s = Some None
  end.
Proof.
  intros Lnew. induction l as [|c l IH]; intros items ol idx s w r w' HI HO H.
  - cbn [items_of] in HI. injection HI as <-. cbn [opaths] in HO. injection HO as <-.
    cbn [range_loop] in H. apply wret_inv in H as [-> ->]. split; reflexivity.
  - cbn [items_of] in HI. destruct (item_of w c) as [it|] eqn:EI; [|discriminate].
    destruct (items_of w l) as [items'|] eqn:EIs; [|discriminate]. injection HI as <-.
    destruct c as [c|d]; cbn [item_of] in EI.
    + destruct (w_nodes w c) as [cn|] eqn:EN; [|discriminate]. injection EI as <-.
      cbn [opaths] in HO. destruct (idx_of T ty v (n_name cn)) as [ex|] eqn:EX; [|discriminate].
      destruct (opaths T ty v items') as [ol'|] eqn:EO; [|discriminate]. injection HO as <-.
      apply idx_of_find in EX as (et & EF).
      cbn [range_loop] in H. unfold wbind, get_node, wl, wlift in H. rewrite EN, EF in H.
      unfold wret at 1 in H. cbn beta iota in H.
      rewrite lex_cmp_ix, list_eqbN_ix, (repeat_conflict_leaf ty new Lnew) in H.
      cbn [map cls_of]. unfold classify, group_mode.
      destruct (find_common_group T ty new ex) as [g| |]; try discriminate.
      destruct (dt T g) as [gd| |]; try discriminate.
      destruct (dt_mode gd =? MSequence).
      { destruct (ix_cmp new ex).
        - destruct (mult_any T ty new); cbn [negb] in H.
          + cbn [cloop]. eapply IH; eauto.
          + apply wfail_inv in H as [-> ->]. cbn [cloop]. auto.
        - apply wret_inv in H as [-> ->]. cbn [cloop]. auto.
        - cbn [cloop]. eapply IH; eauto. }
      destruct (dt_mode gd =? MChoice).
      { destruct (ix_eqb new ex).
        - destruct (mult_any T ty new); cbn [negb] in H.
          + cbn [cloop]. eapply IH; eauto.
          + apply wfail_inv in H as [-> ->]. cbn [cloop]. auto.
        - apply wfail_inv in H as [-> ->]. cbn [cloop]. auto. }
      destruct ((dt_mode gd =? MBag) || (dt_mode gd =? MMixed)).
      { cbn [cloop]. eapply IH; eauto. }
      discriminate.
    + injection EI as <-. cbn [opaths] in HO. destruct (opaths T ty v items') as [ol'|] eqn:EO; [|discriminate].
      injection HO as <-. cbn [range_loop] in H. cbn [map cls_of cloop]. eapply IH; eauto.
Qed.

(* ------------------------------------------------------------------ 4. calc_element_insert_range *)
Lemma opaths_leaf ty v items ol : opaths T ty v items = Some ol -> forall ex, In (Some ex) ol -> leaf_path T (snd ty) ex.
Proof.
  revert ol. induction items as [|[name|] r IH]; intros ol; cbn [opaths].
  - intros [= <-] ex [].
  - destruct (idx_of T ty v name) as [ix|] eqn:EX; [|discriminate]. destruct (opaths T ty v r) as [l|]; [|discriminate].
    intros [= <-] ex [[= <-]|Hin]; [eapply idx_of_leaf; eauto | eapply IH; eauto].
  - destruct (opaths T ty v r) as [l|]; [|discriminate]. intros [= <-] ex [Hd|Hin]; [discriminate | eapply IH; eauto].
Qed.

Lemma tail_ok_of_ordered ty new ol :
  leaf_path T (snd ty) new -> (forall ex, In (Some ex) ol -> leaf_path T (snd ty) ex) ->
  all_pairs_ok T ty (somes ol) = true -> tail_ok (map (cls_of T ty new) ol).
Proof.
  intros Lnew. induction ol as [|[ex|] r IH]; intros HL HO; cbn [map cls_of tail_ok]; [exact I| |].
  - cbn [somes flat_map app] in HO. change (flat_map _ r) with (somes r) in HO.
    cbn [all_pairs_ok] in HO. apply andb_true_iff in HO as [H1 H2]. rewrite forallb_forall in H1.
    assert (IHr : tail_ok (map (cls_of T ty new) r)) by (apply IH; [intros e He; apply HL; right; exact He | exact H2]).
    destruct (classify T ty new ex) eqn:EC; try exact IHr.
    apply Forall_after. intros ej Hj. apply (break_sound T ty new ex ej); auto.
    + apply HL. left. reflexivity.
    + apply HL. right. clear - Hj. induction r as [|[y|] r IHr]; cbn [somes flat_map app] in Hj; [destruct Hj| |].
      * destruct Hj as [<-|Hj]; [left; reflexivity | right; apply IHr; exact Hj].
      * right. apply IHr. exact Hj.
  - apply IH; [intros e He; apply HL; right; exact He | exact HO].
Qed.

Lemma ins_beyond {A} (l : list A) q x : (List.length l <= q)%nat -> ins l q x = ins l (List.length l) x.
Proof.
  revert q. induction l as [|y l IH]; intros q Hq; cbn [List.length] in *.
  - destruct q; reflexivity.
  - destruct q as [|q]; [lia|]. cbn [ins]. f_equal. apply IH. lia.
Qed.

Lemma items_of_length w l items : items_of w l = Some items -> List.length items = List.length l.
Proof.
  revert items. induction l as [|c l IH]; intros items; cbn [items_of].
  - intros [= <-]. reflexivity.
  - destruct (item_of w c); [|discriminate]. destruct (items_of w l) as [xs|]; [|discriminate].
    intros [= <-]. cbn [List.length]. f_equal. apply IH. reflexivity.
Qed.

(* Ordered of an insertion, through the classes *)
Lemma ordered_ins_iff ty v items name q new ol :
  idx_of T ty v name = Some new -> opaths T ty v items = Some ol -> (q <= List.length items)%nat ->
  (Ordered T ty v (ins items q (Some name)) <->
   all_pairs_ok T ty (somes ol) = true /\ valid (map (cls_of T ty new) ol) q).
Proof.
  intros EX EO Hq. unfold Ordered, orderedb. rewrite paths_of_opaths, opaths_ins, EX, EO. cbn [option_map].
  apply ordered_ins. rewrite (opaths_length T _ _ _ _ EO). exact Hq.
Qed.

Lemma not_ordered_unresolved ty v items name q : idx_of T ty v name = None -> ~ Ordered T ty v (ins items q (Some name)).
Proof.
  intros EX. unfold Ordered, orderedb. rewrite paths_of_opaths, opaths_ins, EX. cbn [option_map]. discriminate.
Qed.

Lemma not_ordered_items ty v items name q : opaths T ty v items = None -> ~ Ordered T ty v (ins items q (Some name)).
Proof.
  intros EO. unfold Ordered, orderedb. rewrite paths_of_opaths, opaths_ins, EO.
  destruct (idx_of T ty v name); cbn [option_map]; discriminate.
Qed.

Hypothesis WF : SpecWF T.

(* in a flat Bag / Mixed parent every pair of children is fine *)
Lemma bag_all_mid ty d new ex :
  dt T (snd ty) = Val d -> (dt_mode d = MBag \/ dt_mode d = MMixed) ->
  leaf_path T (snd ty) new -> leaf_path T (snd ty) ex -> classify T ty new ex = CMid.
Proof.
  intros Hd Hm Ln Le.
  assert (flat : forall p, leaf_path T (snd ty) p -> exists x def d', p = [x] /\ slot T (snd ty) x = Some (0, def, d')).
  { intros p Lp. inversion Lp; subst.
    - eauto.
    - exfalso. match goal with S : slot _ _ _ = Some (?k, _, _), K : ?k <> 0 |- _ => apply K; eapply (wf_bag_flat T WF); eauto end. }
  destruct (flat _ Ln) as (x & dx & d1 & -> & Sx). destruct (flat _ Le) as (y & dy & d2 & -> & Sy).
  unfold classify, find_common_group.
  assert (CG : common_group T (snd ty) [x] [y] = Val (snd ty)).
  { destruct (N.eq_dec x y) as [->|NE]; [rewrite (common_group_same T _ _ _ _ _ _ _ Sy); reflexivity | apply common_group_diff; exact NE]. }
  rewrite CG. unfold group_mode. rewrite Hd.
  destruct Hm as [-> | ->]; reflexivity.
Qed.

Lemma chars_unresolved ty d v name : dt T (snd ty) = Val d -> dt_mode d = MCharacters -> idx_of T ty v name = None.
Proof.
  intros Hd Hm. pose proof (wf_chars_empty T WF _ _ Hd Hm) as E.
  unfold idx_of, find_sub_element, FUEL. cbn [find_sub]. unfold sub_slice. rewrite Hd. cbn [bind].
  destruct (slice_chk _ _ _ _); cbn [bind]; [|reflexivity|reflexivity].
  rewrite E, N.sub_diag. reflexivity.
Qed.

(* what calc_element_insert_range does, case by case *)
Lemma calc_cases n name v w r w' :
  calc_element_insert_range T n name v w = Val (r, w') ->
  exists d, dt T (snd (n_type n)) = Val d /\
  ( (dt_mode d = MCharacters /\ r = ER IncorrectContentType /\ w' = w) \/
    (dt_mode d <> MCharacters /\ idx_of T (n_type n) v name = None /\ r = ER InvalidSubElement /\ w' = w) \/
    (dt_mode d <> MCharacters /\ exists new, idx_of T (n_type n) v name = Some new /\
       ( ((dt_mode d = MBag \/ dt_mode d = MMixed) /\ r = OK (0, N.of_nat (List.length (n_content n))) /\ w' = w) \/
         (~ (dt_mode d = MBag \/ dt_mode d = MMixed) /\
          range_loop T (n_type n) v new (n_content n) 0 0 0 w = Val (r, w')) )) ).
Proof.
  unfold calc_element_insert_range, content_mode. unfold wbind, wl, wlift.
  destruct (dt T (snd (n_type n))) as [d| |] eqn:Hd; cbn [bind]; try discriminate.
  intros H. exists d. split; [reflexivity|].
  destruct (dt_mode d =? MCharacters) eqn:EC.
  - apply N.eqb_eq in EC. apply wfail_inv in H as [-> ->]. left. auto.
  - apply N.eqb_neq in EC. right.
    unfold idx_of.
    destruct (find_sub_element T (n_type n) name v) as [[[et new]|]| |]; try discriminate.
    + right. split; [exact EC|]. exists new. split; [reflexivity|].
      destruct ((dt_mode d =? MBag) || (dt_mode d =? MMixed)) eqn:EB.
      * apply wret_inv in H as [-> ->]. left. split; [|auto].
        apply orb_true_iff in EB as [EB|EB]; apply N.eqb_eq in EB; auto.
      * right. split; [|exact H]. intros [X|X]; rewrite X in EB; discriminate.
    + apply wfail_inv in H as [-> ->]. left. auto.
Qed.

Lemma in_firstn {A} (x : A) n l : In x (firstn n l) -> In x l.
Proof. intros H. rewrite <- (firstn_skipn n l). apply in_or_app. left. exact H. Qed.
Lemma in_skipn {A} (x : A) n l : In x (skipn n l) -> In x l.
Proof. intros H. rewrite <- (firstn_skipn n l). apply in_or_app. right. exact H. Qed.

Lemma all_mid_valid cs q : Forall (fun c => c = CMid) cs -> valid cs q.
Proof.
  intros H. unfold valid. split.
  - apply Forall_forall. intros c Hc. right. rewrite Forall_forall in H. apply H. eapply in_firstn; eauto.
  - apply Forall_forall. intros c Hc. right. rewrite Forall_forall in H. apply H. eapply in_skipn; eauto.
Qed.

Theorem range_exact n name v w lo hi w' items :
  items_of w (n_content n) = Some items -> Ordered T (n_type n) v items ->
  calc_element_insert_range T n name v w = Val (OK (lo, hi), w') ->
  w' = w /\ lo <= hi /\ hi <= N.of_nat (List.length items) /\
  forall p, p <= N.of_nat (List.length items) ->
    (lo <= p <= hi <-> Ordered T (n_type n) v (ins items (N.to_nat p) (Some name))).
Proof.
  intros HI HO H.
  unfold Ordered, orderedb in HO. rewrite paths_of_opaths in HO.
  destruct (opaths T (n_type n) v items) as [ol|] eqn:EO; cbn [option_map] in HO; [|discriminate].
  pose proof (items_of_length _ _ _ HI) as HLen.
  pose proof (opaths_length T _ _ _ _ EO) as HLen2.
  destruct (calc_cases _ _ _ _ _ _ H) as (d & Hd & [(_ & X & _) | [(_ & _ & X & _) | (NC & new & EX & Hcase)]]); try discriminate.
  pose proof (idx_of_leaf T _ _ _ _ EX) as Lnew.
  pose proof (opaths_leaf _ _ _ _ EO) as Lol.
  destruct Hcase as [(Hbag & HR & ->) | (Hnb & HR)].
  - injection HR as -> ->. rewrite HLen. split; [reflexivity|]. split; [lia|]. split; [lia|].
    intros p Hp. rewrite (ordered_ins_iff _ _ _ _ _ _ _ EX EO) by lia. split; [|lia].
    intros _. split; [exact HO|]. apply all_mid_valid. apply Forall_forall. intros c Hc.
    apply in_map_iff in Hc as ([ex|] & <- & Hin); cbn [cls_of]; [|reflexivity].
    apply (bag_all_mid (n_type n) d new ex Hd Hbag Lnew). apply Lol. exact Hin.
  - destruct (range_loop_refine (n_type n) v new Lnew _ _ _ _ _ _ _ _ HI EO HR) as [-> HC]. cbn beta iota in HC.
    pose proof (tail_ok_of_ordered (n_type n) new ol Lnew Lol HO) as HT.
    destruct (cloop_exact _ 0 0 lo hi (N.le_refl 0) HC) as (A & B & C & D & E & F).
    rewrite map_length, HLen2 in B, E, F.
    split; [reflexivity|]. split; [lia|]. split; [lia|].
    intros p Hp. rewrite (ordered_ins_iff _ _ _ _ _ _ _ EX EO) by lia. split.
    + intros Hr. split; [exact HO|]. apply (F HT); [lia|]. rewrite N2Nat.id. lia.
    + intros [_ Hv]. specialize (E (N.to_nat p) ltac:(lia) Hv). rewrite N2Nat.id in E. lia.
Qed.

(* completeness needs no premise about the content: an insertion that is in order lies in the range *)
Theorem range_complete n name v w lo hi w' items :
  items_of w (n_content n) = Some items ->
  calc_element_insert_range T n name v w = Val (OK (lo, hi), w') ->
  forall p, p <= N.of_nat (List.length items) ->
    Ordered T (n_type n) v (ins items (N.to_nat p) (Some name)) -> lo <= p <= hi.
Proof.
  intros HI H p Hp HO.
  destruct (opaths T (n_type n) v items) as [ol|] eqn:EO; [|exfalso; eapply not_ordered_items; eauto].
  pose proof (items_of_length _ _ _ HI) as HLen.
  pose proof (opaths_length T _ _ _ _ EO) as HLen2.
  destruct (calc_cases _ _ _ _ _ _ H) as (d & Hd & [(_ & X & _) | [(_ & _ & X & _) | (NC & new & EX & Hcase)]]); try discriminate.
  pose proof (idx_of_leaf T _ _ _ _ EX) as Lnew.
  destruct Hcase as [(Hbag & HR & ->) | (Hnb & HR)].
  - injection HR as -> ->. lia.
  - destruct (range_loop_refine (n_type n) v new Lnew _ _ _ _ _ _ _ _ HI EO HR) as [-> HC]. cbn beta iota in HC.
    destruct (cloop_exact _ 0 0 lo hi (N.le_refl 0) HC) as (A & B & C & D & E & F).
    rewrite map_length, HLen2 in E.
    assert (Hq : (N.to_nat p <= List.length items)%nat) by lia.
    pose proof (proj1 (ordered_ins_iff _ _ _ _ _ _ _ EX EO Hq) HO) as [_ Hv].
    specialize (E (N.to_nat p) ltac:(lia) Hv). rewrite N2Nat.id in E. lia.
Qed.

Theorem range_err n name v w e w' items :
  items_of w (n_content n) = Some items ->
  calc_element_insert_range T n name v w = Val (ER e, w') ->
  w' = w /\ forall q, ~ Ordered T (n_type n) v (ins items q (Some name)).
Proof.
  intros HI H.
  destruct (calc_cases _ _ _ _ _ _ H) as (d & Hd & [(HM & _ & ->) | [(_ & EX & _ & ->) | (NC & new & EX & Hcase)]]).
  - split; [reflexivity|]. intros q. apply not_ordered_unresolved. eapply chars_unresolved; eauto.
  - split; [reflexivity|]. intros q. apply not_ordered_unresolved. exact EX.
  - destruct Hcase as [(_ & HR & _) | (Hnb & HR)]; [discriminate|].
    pose proof (idx_of_leaf T _ _ _ _ EX) as Lnew.
    destruct (opaths T (n_type n) v items) as [ol|] eqn:EO.
    + destruct (range_loop_refine (n_type n) v new Lnew _ _ _ _ _ _ _ _ HI EO HR) as [-> [_ HC]].
      split; [reflexivity|]. intros q HO.
      pose proof (opaths_length T _ _ _ _ EO) as HLen2.
      assert (Hq : exists q', (q' <= List.length items)%nat /\ ins items q (Some name) = ins items q' (Some name)).
      { destruct (Nat.leb q (List.length items)) eqn:EL; [apply Nat.leb_le in EL; exists q; auto|]. apply Nat.leb_gt in EL.
        exists (List.length items). split; [lia|]. apply ins_beyond. lia. }
      destruct Hq as (q' & Hq' & Eq). rewrite Eq in HO.
      pose proof (proj1 (ordered_ins_iff _ _ _ _ _ _ _ EX EO Hq') HO) as [_ Hv].
      eapply cloop_conflict; eauto.
    + assert (w' = w) as ->.
      { eapply (ro_range_loop T); eauto. }
      split; [reflexivity|]. intros q. apply not_ordered_items. exact EO.
Qed.

End Calc.
