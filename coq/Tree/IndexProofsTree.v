(* Tree/IndexProofsTree.v — C04/C05 proofs: more consequences of TreeFacts about subtrees:
   head decomposition of top-down paths, depth of reachable nodes, the subtrees of two different children of one
   node are disjoint, a node is not below itself through a child. *)
From AV Require Import Base.Bytes Base.Outcome Hash.HashModel Tree.Heap Tree.Ops Tree.Script Tree.IndexProofsW
  Tree.Index Tree.IndexProofsBase.
Open Scope string_scope.
Open Scope list_scope.
Open Scope N_scope.

Section Tree.
Variable T : tables.

Lemma dpath_cons w a c j q : child_of w a c -> dpath T w c j q -> dpath T w a j (seg T w c ++ q).
Proof. intros Hc Hd. eapply dpath_trans; [apply dpath_child; exact Hc|exact Hd]. Qed.

Lemma dpath_head w a j q :
  dpath T w a j q -> (j = a /\ q = []) \/ exists c q', child_of w a c /\ dpath T w c j q' /\ q = seg T w c ++ q'.
Proof.
  induction 1 as [|p c q Hp IH Hc]; [left; auto|]. right.
  destruct IH as [(-> & ->)|(c0 & q' & Hc0 & Hd & ->)].
  - exists c, []. split; [exact Hc|]. split; [constructor|]. rewrite app_nil_r. reflexivity.
  - exists c0, (q' ++ seg T w c). split; [exact Hc0|]. split; [econstructor; eauto|]. rewrite app_assoc. reflexivity.
Qed.

(* the l-th ancestor *)
Inductive anc (w : world) : nat -> id -> id -> Prop :=
| anc0 j : anc w 0 j j
| ancS l j nj p a : w_nodes w j = Some nj -> n_parent nj = PElem p -> anc w l p a -> anc w (S l) j a.

Lemma anc_fun w l j a1 : anc w l j a1 -> forall a2, anc w l j a2 -> a1 = a2.
Proof.
  induction 1 as [|l j nj p a Hj Hp Ha IH]; intros a2 H2; inversion H2; subst; [reflexivity|].
  rewrite Hj in H0. injection H0 as <-. rewrite Hp in H1. injection H1 as <-. auto.
Qed.
Lemma anc_snoc w l j a : anc w l j a -> forall na g, w_nodes w a = Some na -> n_parent na = PElem g -> anc w (S l) j g.
Proof.
  induction 1 as [|l j nj p a Hj Hp Ha IH]; intros na g Hna Hg.
  - econstructor; eauto. constructor.
  - econstructor; eauto.
Qed.
Lemma anc_depth w l j a : anc w l j a -> forall h, pdepth w a h -> pdepth w j (l + h).
Proof.
  induction 1 as [|l j nj p a Hj Hp Ha IH]; intros h Hh; [exact Hh|]. cbn. eapply pd_step; eauto.
Qed.

Lemma dpath_anc w a j q : TreeFacts w -> dpath T w a j q -> exists l, anc w l j a.
Proof.
  intros HF Hd. induction Hd as [|p c q Hp (l & IH) Hc]; [exists 0%nat; constructor|].
  destruct (tf_up _ HF _ _ Hc) as (cn & Hcn & Hpar). exists (S l). econstructor; eauto.
Qed.

Lemma child_depth w i c h : TreeFacts w -> child_of w i c -> pdepth w i h -> pdepth w c (S h).
Proof. intros HF Hc Hh. destruct (tf_up _ HF _ _ Hc) as (cn & Hcn & Hpar). eapply pd_step; eauto. Qed.

Lemma child_alloc w i c : child_of w i c -> exists n, w_nodes w i = Some n.
Proof. intros (n & Hn & _). eauto. Qed.

(* a node is not (strictly) below itself *)
Lemma not_below_self w i c q : TreeFacts w -> child_of w i c -> dpath T w c i q -> False.
Proof.
  intros HF Hc Hd. destruct (child_alloc _ _ _ Hc) as (n & Hn). destruct (tf_depth _ HF _ _ Hn) as (h & Hh).
  pose proof (child_depth _ _ _ _ HF Hc Hh) as Hch. destruct (dpath_anc _ _ _ _ HF Hd) as (l & Ha).
  pose proof (anc_depth _ _ _ _ Ha _ Hch) as Hi. pose proof (pdepth_fun _ _ _ Hh _ Hi). lia.
Qed.

(* the subtrees of two different children are disjoint *)
Lemma siblings_disjoint w i c1 c2 j q1 q2 :
  TreeFacts w -> child_of w i c1 -> child_of w i c2 -> dpath T w c1 j q1 -> dpath T w c2 j q2 -> c1 = c2.
Proof.
  intros HF H1 H2 D1 D2. destruct (child_alloc _ _ _ H1) as (n & Hn). destruct (tf_depth _ HF _ _ Hn) as (h & Hh).
  pose proof (child_depth _ _ _ _ HF H1 Hh) as Hc1. pose proof (child_depth _ _ _ _ HF H2 Hh) as Hc2.
  destruct (dpath_anc _ _ _ _ HF D1) as (l1 & A1). destruct (dpath_anc _ _ _ _ HF D2) as (l2 & A2).
  pose proof (anc_depth _ _ _ _ A1 _ Hc1) as P1. pose proof (anc_depth _ _ _ _ A2 _ Hc2) as P2.
  pose proof (pdepth_fun _ _ _ P1 _ P2). assert (l1 = l2) by lia. subst l2. eapply anc_fun; eauto.
Qed.

(* a reachable node lies below exactly one place: if j is below x and below y then one of x, y is below the other *)
Lemma below_chain w x y j q1 q2 :
  TreeFacts w -> dpath T w x j q1 -> dpath T w y j q2 -> reach T w x y \/ reach T w y x.
Proof.
  intros HF D1. revert y q2. induction D1 as [|p c q Hp IH Hc]; intros y q2 D2.
  - right. exists q2. exact D2.
  - inversion D2 as [|p2 c2 q2' Hp2 Hc2]; subst.
    + left. eexists. econstructor; eauto.
    + assert (p2 = p).
      { destruct (tf_up _ HF _ _ Hc) as (cn & Hcn & Hpar). destruct (tf_up _ HF _ _ Hc2) as (cn2 & Hcn2 & Hpar2). congruence. }
      subst p2. eapply IH; eauto.
Qed.

End Tree.

(* whether j lies in the subtree of a is decidable (walk up from j) *)
Section BelowDec.
Variable T : tables.

Lemma dpath_last w a j q : dpath T w a j q -> j = a \/ exists p, child_of w p j /\ reach T w a p.
Proof.
  induction 1 as [|p c q Hp IH Hc]; [left; reflexivity|]. right. exists p. split; [exact Hc|exists q; exact Hp].
Qed.

Lemma below_dec w a : TreeFacts w -> forall j, reach T w a j \/ ~ reach T w a j.
Proof.
  intros HF j. destruct (N.eq_dec j a) as [->|Hne]; [left; apply reach_refl|].
  destruct (w_nodes w j) as [nj|] eqn:Ej.
  2:{ right. intros (q & Hd). destruct (dpath_last _ _ _ _ Hd) as [E|(p & Hc & _)]; [contradiction|].
      destruct (tf_up _ HF _ _ Hc) as (cn & Hcn & _). congruence. }
  destruct (tf_depth _ HF _ _ Ej) as (h & Hd). revert nj Ej Hne.
  induction Hd as [j nj0 Hj Htop|j nj0 p h Hj Hp Hd IH]; intros nj Ej Hne.
  - right. intros (q & Hq). destruct (dpath_last _ _ _ _ Hq) as [E|(p & Hc & _)]; [contradiction|].
    destruct (tf_up _ HF _ _ Hc) as (cn & Hcn & Hpar). rewrite Hj in Hcn. injection Hcn as <-. eapply Htop; eauto.
  - assert (Hcj : child_of w p j) by exact (tf_down _ HF _ _ _ Hj Hp).
    assert (Hdec : reach T w a p \/ ~ reach T w a p).
    { destruct (N.eq_dec p a) as [->|Hpa]; [left; apply reach_refl|].
      destruct (child_alloc _ _ _ Hcj) as (np & Hnp). eapply IH; eauto. }
    destruct Hdec as [Hb|Hnb].
    + left. eapply reach_step; eauto.
    + right. intros (q & Hq). destruct (dpath_last _ _ _ _ Hq) as [E|(p2 & Hc2 & Hb2)]; [contradiction|].
      destruct (tf_up _ HF _ _ Hc2) as (cn & Hcn & Hpar). rewrite Hj in Hcn. injection Hcn as <-.
      rewrite Hp in Hpar. injection Hpar as <-. contradiction.
Qed.

End BelowDec.

(* ---------- TreeFacts only looks at parent links, element children, roots and the allocation bound *)
Definition sview (n : node) := (n_parent n, elem_ids (n_content n)).
Definition SE (w w' : world) : Prop :=
  (forall j, option_map sview (w_nodes w' j) = option_map sview (w_nodes w j)) /\
  w_next w' = w_next w /\ map m_root (w_models w') = map m_root (w_models w).

Lemma se_child w w' p c : SE w w' -> child_of w p c -> child_of w' p c.
Proof.
  intros (Hn & _) (n & Hp & Hc). specialize (Hn p). rewrite Hp in Hn. destruct (w_nodes w' p) as [n'|] eqn:Ep'; [|discriminate].
  cbn in Hn. injection Hn as _ He. unfold child_of. rewrite Ep'. exists n'. split; [reflexivity|]. apply in_elem_ids. rewrite He. apply in_elem_ids. exact Hc.
Qed.
Lemma SE_sym w w' : SE w w' -> SE w' w.
Proof. intros (H1 & H2 & H3). split; [intros j; symmetry; apply H1|]. split; congruence. Qed.
Lemma se_node w w' j n : SE w w' -> w_nodes w j = Some n -> exists n', w_nodes w' j = Some n' /\ sview n' = sview n.
Proof.
  intros (Hn & _) Hj. specialize (Hn j). rewrite Hj in Hn. destruct (w_nodes w' j) as [n'|]; [|discriminate].
  exists n'. split; [reflexivity|]. cbn in Hn. congruence.
Qed.
Lemma se_model w w' m x : SE w w' -> model_at w m = Some x -> exists x', model_at w' m = Some x' /\ m_root x' = m_root x.
Proof.
  intros (_ & _ & Hm) Hx. unfold model_at in *. apply (f_equal (fun l => nth_opt l (N.to_nat m))) in Hm.
  assert (Hmap : forall (l : list model) k, nth_opt (map m_root l) k = option_map m_root (nth_opt l k)).
  { induction l as [|y l IH]; intros [|k]; cbn; auto. }
  rewrite !Hmap, Hx in Hm. destruct (nth_opt (w_models w') (N.to_nat m)) as [x'|]; [|discriminate].
  exists x'. split; [reflexivity|]. cbn in Hm. congruence.
Qed.
Lemma se_pdepth w w' i h : SE w w' -> pdepth w i h -> pdepth w' i h.
Proof.
  intros HS Hd. induction Hd as [i n Hn Ht|i n p h Hn Hp Hd IH].
  - destruct (se_node _ _ _ _ HS Hn) as (n' & Hn' & Hv). eapply pd_top; [exact Hn'|]. unfold sview in Hv. intros p Hp. apply (Ht p). congruence.
  - destruct (se_node _ _ _ _ HS Hn) as (n' & Hn' & Hv). eapply pd_step; [exact Hn'| |exact IH]. unfold sview in Hv. congruence.
Qed.

Section SEreach.
Variable T : tables.
Lemma se_reach w w' a i : SE w w' -> reach T w a i -> reach T w' a i.
Proof.
  intros HS (q & Hd). induction Hd as [|p c q Hp IH Hc]; [apply reach_refl|]. eapply reach_step; [exact IH|eapply se_child; eauto].
Qed.

Theorem TreeFacts_se w w' : SE w w' -> TreeFacts w -> TreeFacts w'.
Proof.
  intros HS HF. pose proof (SE_sym _ _ HS) as HS'. constructor.
  - intros p c Hc. apply (se_child _ _ _ _ HS') in Hc. destruct (tf_up _ HF _ _ Hc) as (cn & Hcn & Hp).
    destruct (se_node _ _ _ _ HS Hcn) as (cn' & Hcn' & Hv). exists cn'. split; [exact Hcn'|]. unfold sview in Hv. congruence.
  - intros p n' Hp. destruct (se_node _ _ _ _ HS' Hp) as (n & Hn & Hv). unfold sview in Hv.
    assert (elem_ids (n_content n') = elem_ids (n_content n)) by congruence. rewrite H. eapply tf_nodup; eauto.
  - intros c cn' p Hc Hp. destruct (se_node _ _ _ _ HS' Hc) as (cn & Hcn & Hv). unfold sview in Hv.
    eapply se_child; [exact HS|]. eapply tf_down; eauto. congruence.
  - intros m x' Hx'. destruct (se_model _ _ _ _ HS' Hx') as (x & Hx & Hr). destruct (tf_roots _ HF _ _ Hx) as (n & Hn & Hp).
    destruct (se_node _ _ _ _ HS Hn) as (n' & Hn' & Hv). exists n'. rewrite <- Hr. split; [exact Hn'|]. unfold sview in Hv. congruence.
  - intros i n' m Hn' Hp. destruct (se_node _ _ _ _ HS' Hn') as (n & Hn & Hv). unfold sview in Hv.
    destruct (tf_pmodel _ HF i n m Hn) as (x & Hx & Hr); [congruence|].
    destruct (se_model _ _ _ _ HS Hx) as (x' & Hx' & Hr'). exists x'. split; [exact Hx'|congruence].
  - intros i n' Hn'. destruct (se_node _ _ _ _ HS' Hn') as (n & Hn & _). destruct (tf_depth _ HF _ _ Hn) as (h & Hd).
    exists h. eapply se_pdepth; eauto.
  - intros i n' Hn'. destruct (se_node _ _ _ _ HS' Hn') as (n & Hn & _). destruct HS as (_ & Hnx & _). rewrite Hnx.
    eapply tf_alloc; eauto.
Qed.
End SEreach.
