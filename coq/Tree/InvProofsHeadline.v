(* Tree/InvProofsHeadline.v — C03, the property text as ONE statement over histories of the large alphabet op2
   (all 26 editing operations, sort, duplicate, load_buffer (accepted or rejected), set_version, compatibility check,
   serialize) from the empty world, outside the merge-DAG class Known_load_shared (known finding
   C03-merge-shared-partner-dag).  In every world w reached:
     (tree)   Core w: ids allocated = below w_next, every listed child names its lister as parent, no element is listed
              twice, every model root carries its model link, parent chains are finite;
     (agree)  sub_elements / parent / position agree: a listed child answers parent() = the lister and position() = its
              unique index;
     (dfs)    elements_dfs from any element yields exactly the elements reachable through content lists, each once,
              in pre-order; the sub-element iterator yields exactly the content list's elements;
     (stale)  whatever is requested through a handle of a detached (removed) element leaves models, files and all live
              nodes as they were; every place-dependent request except the four that ask for min_version alone fails
              without any change (for the four: C03_stale_histories2_partial, histories without OpLoad). *)
From Coq Require Import PeanoNat Arith Lia.
From AV Require Import Base.Bytes Base.Outcome Hash.HashModel Tree.Heap Tree.Ops Tree.Script Tree.Inv Tree.Iter
  Tree.InvProofsNav Tree.InvProofs Tree.StaleProofs Tree.IterProofs Tree.Script2 Tree.InvLoad Tree.InvProofsOp2Rej
  Tree.InvProofsStale3.
Open Scope string_scope.
Open Scope list_scope.
Open Scope N_scope.

Section Headline.
Variable T : tables.
Variable tab_el tab_at tab_en : nametab.
Variable check_fn : N -> list N -> res bool.
Variable float_parse : list N -> option N.
Variable float_fmt : N -> list N.
Variables LATEST name_index name_definition_ref attr_schema_location : N.
Variable root_attrs : list (N * cdata).

Theorem headline_histories2 l w :
  run_ops2 T tab_el tab_at tab_en check_fn float_parse float_fmt LATEST name_index name_definition_ref
           attr_schema_location root_attrs l empty_world = Val w ->
  clean_shared_ops2 T tab_el tab_at tab_en check_fn float_parse float_fmt LATEST name_index name_definition_ref
           attr_schema_location root_attrs l empty_world = true ->
  Core w /\
  (forall p c, lists w p c -> par w c p /\ exists k, q_position c w = Val (OK (Some k), w)) /\
  (forall i, allocated w i ->
     exists l f0, (forall f, (f0 <= f)%nat -> elements_dfs f i 0 w = Val l) /\
                  Pre w i (map snd l) /\ NoDup (map snd l) /\ forall x, In x (map snd l) <-> Reach w i x) /\
  (forall e n, w_nodes w e = Some n ->
     forall f, (List.length (kids n) + 1 <= f)%nat -> ei_drain f (ei_new e) w = Val (kids n)) /\
  (forall o h r w', Detached w h -> principal o = Some h ->
     Inv.run T tab_el tab_en check_fn LATEST root_attrs o w = Val (r, w') ->
     live_eq w w' /\ (place_dependent o = true -> needs_version_only o = false -> w' = w /\ failed r)).
Proof.
  intros H Hc.
  pose proof (Core_histories2_full T tab_el tab_at tab_en check_fn float_parse float_fmt LATEST name_index
                name_definition_ref attr_schema_location root_attrs l empty_world w empty_core Hc H) as C.
  split; [exact C|]. split; [|split; [|split]].
  - intros p c Hl. split; [apply (c_up _ C); exact Hl|eapply position_listed; eauto].
  - intros i Ha. apply dfs_iter_unlimited; auto.
  - intros e n Hn f Hf. eapply ei_iter_spec; eauto.
  - intros o h r w' Hd Hp Hr.
    exact (stale_live_histories2 T tab_el tab_at tab_en check_fn float_parse float_fmt LATEST name_index
             name_definition_ref attr_schema_location root_attrs l w o h r w' H Hc Hd Hp Hr).
Qed.
End Headline.
