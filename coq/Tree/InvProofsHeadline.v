(* Tree/InvProofsHeadline.v — C03, the property text as ONE statement over histories of the large alphabet op2
   (all 26 editing operations, sort, duplicate, load_buffer (accepted or rejected), set_version, compatibility check,
   serialize) from the empty world, outside the merge-DAG class Known_load_shared (known finding
   C03-merge-shared-partner-dag).  In every world w reached:
     (tree)   Core w: ids allocated = below w_next, every listed child names its lister as parent, no element is listed
              twice, every model root carries its model link, parent chains are finite;
     (agree)  sub_elements / parent / position agree: a listed child answers parent() = the lister and position() = its
              unique index;
     (dfs)    elements_dfs from any element yields exactly the elements reachable through content lists, each once,
              in pre-order; the sub-element iterator yields exactly the content list's elements;
     (stale)  whatever is requested through a handle of a detached (removed) element leaves models, files and all live
              nodes as they were; every place-dependent request except the four that ask for min_version alone fails
              without any change (for the four: C03_stale_histories2_partial, histories without OpLoad). *)
From Coq Require Import PeanoNat Arith Lia.
From AV Require Import Base.Bytes Base.Outcome Hash.HashModel Tree.Heap Tree.Ops Tree.Script Tree.Inv Tree.Iter
  Tree.InvProofsBase Tree.InvProofsCore Tree.InvProofsTree Tree.InvProofsNav Tree.InvProofs Tree.StaleProofs Tree.IterProofs Tree.IterProofsFile Tree.Script2 Tree.InvLoad Tree.InvProofsOp2Rej
  Tree.InvProofsStale3.
Open Scope string_scope.
Open Scope list_scope.
Open Scope N_scope.

Section Headline.
Variable T : tables.
Variable tab_el tab_at tab_en : nametab.
Variable check_fn : N -> list N -> res bool.
Variable float_parse : list N -> option N.
Variable float_fmt : N -> list N.
Variables LATEST name_index name_definition_ref attr_schema_location : N.
Variable root_attrs : list (N * cdata).

Theorem headline_histories2 l w :
  run_ops2 T tab_el tab_at tab_en check_fn float_parse float_fmt LATEST name_index name_definition_ref
           attr_schema_location root_attrs l empty_world = Val w ->
  clean_shared_ops2 T tab_el tab_at tab_en check_fn float_parse float_fmt LATEST name_index name_definition_ref
           attr_schema_location root_attrs l empty_world = true ->
  Core w /\
  (forall p c, lists w p c -> par w c p /\ exists k, q_position c w = Val (OK (Some k), w)) /\
  (forall i, allocated w i ->
     exists l f0, (forall f, (f0 <= f)%nat -> elements_dfs f i 0 w = Val l) /\
                  Pre w i (map snd l) /\ NoDup (map snd l) /\ forall x, In x (map snd l) <-> Reach w i x) /\
  (forall e n, w_nodes w e = Some n ->
     forall f, (List.length (kids n) + 1 <= f)%nat -> ei_drain f (ei_new e) w = Val (kids n)) /\
  (forall o h r w', Detached w h -> principal o = Some h ->
     Inv.run T tab_el tab_en check_fn LATEST root_attrs o w = Val (r, w') ->
     live_eq w w' /\ (place_dependent o = true -> needs_version_only o = false -> w' = w /\ failed r)).
Proof.
  intros H Hc.
  pose proof (Core_histories2_full T tab_el tab_at tab_en check_fn float_parse float_fmt LATEST name_index
                name_definition_ref attr_schema_location root_attrs l empty_world w empty_core Hc H) as C.
  split; [exact C|]. split; [|split; [|split]].
  - intros p c Hl. split; [apply (c_up _ C); exact Hl|eapply position_listed; eauto].
  - intros i Ha. apply dfs_iter_unlimited; auto.
  - intros e n Hn f Hf. eapply ei_iter_spec; eauto.
  - intros o h r w' Hd Hp Hr.
    exact (stale_live_histories2 T tab_el tab_at tab_en check_fn float_parse float_fmt LATEST name_index
             name_definition_ref attr_schema_location root_attrs l w o h r w' H Hc Hd Hp Hr).
Qed.
End Headline.

(* ------------------------------------------------------------------ the remaining clauses of the property text *)
(* "it belongs to the model": an element reachable from the root of model k answers model() = k *)
Lemma model_walk_val w : forall f i h, Depth w i h -> (h < f)%nat -> exists r, model_walk f i w = Val (r, w).
Proof.
  induction f as [|f IH]; intros i h Hd Hf; [lia|]. cbn [model_walk]. unfold wbind, get_node.
  destruct Hd as [x n Hn Ht | x n p h Hn Hp Hd]; rewrite Hn.
  - destruct (n_parent n) as [| |p]; [eexists; reflexivity|eexists; reflexivity|]. exfalso. eapply Ht; eauto.
  - rewrite Hp. eapply IH; eauto. lia.
Qed.

Theorem model_of_live w k r x :
  Core w -> nth_error (roots w) k = Some r -> Reach w r x -> model_of x w = Val (OK (N.of_nat k), w).
Proof.
  intros C Hk Hr.
  destruct (c_roots _ C _ _ Hk) as (n & Hn & Hp).
  assert (Ht : Top w x (PModel (N.of_nat k))).
  { eapply reach_top; eauto. rewrite <- Hp. eapply T_here; eauto. rewrite Hp. congruence. }
  assert (Ha : allocated w x).
  { destruct Hr as [Ha|p c _ Hl]; [exact Ha|]. apply (c_up _ C) in Hl. destruct Hl as (nc & Hnc & _). eexists; eauto. }
  destruct (c_depth _ C _ Ha) as (h & Hd). pose proof (depth_bound _ _ _ C Hd) as Hb.
  destruct (model_walk_val w (fuel_of w) x h Hd ltac:(unfold fuel_of; lia)) as (r0 & E).
  assert (E' : model_of x w = Val (r0, w)) by (unfold model_of, wbind, wget; exact E).
  destruct (model_of_top _ _ _ _ E') as (_ & t & Ht' & Hr0).
  rewrite (top_fun _ _ _ Ht' _ Ht) in Hr0. rewrite E', Hr0. reflexivity.
Qed.

Lemma q_parent_listed w p c : Core w -> lists w p c -> q_parent c w = Val (OK (Some p), w).
Proof.
  intros C Hl. apply (c_up _ C) in Hl. destruct Hl as (n & Hn & Hp).
  unfold q_parent, wbind, get_node. rewrite Hn. unfold parent_of. rewrite Hp. reflexivity.
Qed.

Section Headline2.
Variable T : tables.
Variable tab_el tab_at tab_en : nametab.
Variable check_fn : N -> list N -> res bool.
Variable float_parse : list N -> option N.
Variable float_fmt : N -> list N.
Variables LATEST name_index name_definition_ref attr_schema_location : N.
Variable root_attrs : list (N * cdata).

Theorem navigation_histories2 l w :
  run_ops2 T tab_el tab_at tab_en check_fn float_parse float_fmt LATEST name_index name_definition_ref
           attr_schema_location root_attrs l empty_world = Val w ->
  clean_shared_ops2 T tab_el tab_at tab_en check_fn float_parse float_fmt LATEST name_index name_definition_ref
           attr_schema_location root_attrs l empty_world = true ->
  (* membership: what the root of model k reaches belongs to model k *)
  (forall k r x, nth_error (roots w) k = Some r -> Reach w r x -> q_model x w = Val (OK (N.of_nat k), w)) /\
  (* parent() of a listed element is the lister *)
  (forall p c, lists w p c -> q_parent c w = Val (OK (Some p), w)) /\
  (* the element-scoped depth-first iterator, every depth limit *)
  (forall i max, allocated w i ->
     exists l f0, PreD w (lim_of max) 0 i l /\ forall f, (f0 <= f)%nat -> elements_dfs f i max w = Val l) /\
  (* the file-scoped depth-first iterator *)
  (forall file max fl x, nth_opt (w_files w) (N.to_nat file) = Some fl ->
     nth_opt (w_models w) (N.to_nat (f_model fl)) = Some x ->
     exists l f0, PreF w (lim_of max) file 0 (m_root x) l /\
                  forall f, (f0 <= f)%nat -> file_elements_dfs f file max w = Val l) /\
  (* the queries through a handle of a detached element *)
  (forall h, Detached w h ->
     (forall r w', q_model h w = Val (r, w') -> w' = w /\ r = ER ItemDeleted) /\
     (forall r w', q_path T h w = Val (r, w') -> w' = w /\ failed r) /\
     (forall r w', parent_in w h = PNone -> q_parent h w = Val (r, w') -> w' = w /\ r = ER ItemDeleted)).
Proof.
  intros H Hc.
  pose proof (Core_histories2_full T tab_el tab_at tab_en check_fn float_parse float_fmt LATEST name_index
                name_definition_ref attr_schema_location root_attrs l empty_world w empty_core Hc H) as C.
  split; [|split; [|split; [|split]]].
  - intros k r x Hk Hr. unfold q_model. eapply model_of_live; eauto.
  - intros p c Hl. apply q_parent_listed; auto.
  - intros i max Ha. apply dfs_iter_spec; auto.
  - intros file max fl x Hf Hx. eapply fi_iter_spec; eauto.
  - intros h Hd. destruct (stale_queries T h w Hd) as (A & B & _ & D). auto.
Qed.
End Headline2.
