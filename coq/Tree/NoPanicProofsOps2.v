(* Tree/NoPanicProofsOps2.v — C12, layer 2: operations with several mutations.  Every mutating helper gets a
   total-correctness statement `runsQ m w (fun r w' => Closed w' /\ ext w w' /\ ...)`: it returns, and the world it leaves
   is Closed again (so the next step of the operation can be discharged the same way).
   create_named_sub_element (+_at, get_or_create_named), set_character_data, set_item_name, set_reference_target. *)
From Coq Require Import Lia.
From AV Require Import Base.Bytes Base.Outcome Hash.HashModel Spec.SpecOps Xml.TablesOk Tree.Heap Tree.Ops Tree.Script Tree.Inv.
From AV Require Import Tree.NoPanic Tree.NoPanicProofsBase Tree.NoPanicProofsOps1 Tree.NoPanicProofsClosed.
Open Scope string_scope.
Open Scope list_scope.
Open Scope N_scope.

(* ------------------------------------------------------------------ parent links unchanged => chains unchanged *)
Definition sameP (w w' : world) : Prop :=
  forall x, option_map n_parent (w_nodes w' x) = option_map n_parent (w_nodes w x).
Lemma sameP_refl w : sameP w w. Proof. intros x. reflexivity. Qed.
Lemma sameP_trans a b c : sameP a b -> sameP b c -> sameP a c.
Proof. intros H1 H2 x. rewrite H2. apply H1. Qed.

Lemma Depth_sameP w w' : sameP w w' -> forall i h, Depth w i h -> Depth w' i h.
Proof.
  intros S i h D. induction D as [x n Hn Ht | x n p h Hn Hp Dp IH].
  - pose proof (S x) as E. rewrite Hn in E. cbn in E. destruct (w_nodes w' x) as [n'|] eqn:E'; [|discriminate].
    cbn in E. injection E as E. eapply D_top; [exact E'|]. rewrite E. exact Ht.
  - pose proof (S x) as E. rewrite Hn in E. cbn in E. destruct (w_nodes w' x) as [n'|] eqn:E'; [|discriminate].
    cbn in E. injection E as E. eapply D_step; [exact E'|rewrite E; exact Hp|exact IH].
Qed.

Lemma UpWF_sameP w w' : sameP w w' -> w_next w' = w_next w -> UpWF w -> UpWF w'.
Proof. intros S EN U i L. rewrite EN in L. destruct (U i L) as (h & D). exists h. eapply Depth_sameP; eauto. Qed.

Lemma sameP_wset w i n n0 : w_nodes w i = Some n0 -> n_parent n = n_parent n0 -> sameP w (wset w i n).
Proof.
  intros E EP x. cbn [wset w_nodes]. unfold upd. destruct (x =? i) eqn:EX; [|reflexivity].
  apply N.eqb_eq in EX. subst x. rewrite E. cbn. congruence.
Qed.
Lemma sameP_wmodel w m x : sameP w (wmodel w m x). Proof. intros i. reflexivity. Qed.

Section Ops2.
Variable T : tables.
Variable tab_el tab_en : nametab.
Variable check_fn : N -> list N -> res bool.
Variable LATEST : N.
Variable root_attrs : list (N * cdata).
Hypothesis OK12 : tables_ok12 T = true.
Hypothesis CHECK : forall fn s, exists b, check_fn fn s = Val b.
Collection Env := T tab_el tab_en check_fn LATEST root_attrs OK12 CHECK.
Set Default Proof Using "Env".

Notation ENV f := (f T tab_el tab_en check_fn LATEST root_attrs OK12 CHECK) (only parsing).
Notation TOK := (ok12_tables T OK12) (only parsing).
Notation node_ok := (node_ok T tab_el tab_en).
Notation Closed := (Closed T tab_el tab_en).
Notation PanicFree := (PanicFree T tab_el tab_en).
Notation cdata_ok := (cdata_ok tab_en).
Notation name_ok := (name_ok tab_el).

(* the postcondition shared by the mutating helpers *)
Definition good {A} (w : world) (P : A -> world -> Prop) : out A -> world -> Prop :=
  fun r w' => Closed w' /\ ext w w' /\ match r with OK a => P a w' | ER _ => True end.

Lemma good_rd {A B} (m : W A) (k : A -> W B) w PA (P : B -> world -> Prop) :
  Closed w -> rd m w PA -> (forall a, PA a -> runsQ (k a) w (good w P)) -> runsQ (wbind m k) w (good w P).
Proof.
  intros C (r & E & F) H. unfold runsQ, wbind. rewrite E. destruct r as [a|e].
  - apply H. apply F. reflexivity.
  - exists (ER e), w. split; [reflexivity|]. split; [exact C|]. split; [apply ext_refl|exact I].
Qed.

Lemma good_bind {A B} (m : W A) (k : A -> W B) w PA (P : B -> world -> Prop) :
  runsQ m w (good w PA) ->
  (forall a w1, Closed w1 -> ext w w1 -> PA a w1 -> runsQ (k a) w1 (good w1 (fun b w2 => forall w0, ext w0 w1 -> P b w2))) ->
  runsQ (wbind m k) w (good w P).
Proof.
  intros (r & w1 & E & C1 & X1 & H1) H. unfold runsQ, wbind. rewrite E. destruct r as [a|e].
  - destruct (H a w1 C1 X1 H1) as (r2 & w2 & E2 & C2 & X2 & H2). exists r2, w2. split; [exact E2|].
    split; [exact C2|]. split; [eapply ext_trans; eauto|]. destruct r2; [apply (H2 w1); apply ext_refl|exact I].
  - exists (ER e), w1. split; [reflexivity|]. split; [exact C1|]. split; [exact X1|exact I].
Qed.

Lemma good_ret {A} (a : A) w (P : A -> world -> Prop) : Closed w -> P a w -> runsQ (wret a) w (good w P).
Proof. intros C H. exists (OK a), w. split; [reflexivity|]. split; [exact C|]. split; [apply ext_refl|exact H]. Qed.
Lemma good_fail {A} e w (P : A -> world -> Prop) : Closed w -> runsQ (@wfail A e) w (good w P).
Proof. intros C. exists (ER e), w. split; [reflexivity|]. split; [exact C|]. split; [apply ext_refl|exact I]. Qed.
Lemma good_weaken {A} (m : W A) w (P Q : A -> world -> Prop) :
  runsQ m w (good w P) -> (forall a w1, P a w1 -> Q a w1) -> runsQ m w (good w Q).
Proof.
  intros (r & w1 & E & C & X & H) HPQ. exists r, w1. split; [exact E|]. split; [exact C|]. split; [exact X|].
  destruct r; auto.
Qed.
Lemma good_runs {A} (m : W A) w P : runsQ m w (good w P) -> runs m w.
Proof. apply runsQ_runs. Qed.

(* ---------- primitive mutations ---------- *)
Lemma good_set_node w i n n0 : Closed w -> w_nodes w i = Some n0 -> node_ok w n -> n_parent n = n_parent n0 ->
  runsQ (set_node i n) w (good w (fun _ w' => sameP w w' /\ w_next w' = w_next w /\ w' = wset w i n)).
Proof.
  intros C E NO EP. exists (OK tt), (wset w i n). split; [reflexivity|].
  assert (L : i < w_next w) by (apply (cl_alloc _ _ _ _ C); congruence).
  split; [apply Closed_wset; auto|]. split; [apply ext_wset|]. split; [eapply sameP_wset; eauto|]. split; reflexivity.
Qed.

Lemma good_modify_model w m f : Closed w -> m < N.of_nat (List.length (w_models w)) ->
  (forall x, model_ok w x -> model_ok w (f x)) ->
  runsQ (modify_model m f) w (good w (fun _ w' => sameP w w' /\ w_next w' = w_next w /\ w_nodes w' = w_nodes w)).
Proof.
  intros C L F. destruct (ENV get_model_ok w m C L) as (x & _ & EX & MO).
  exists (OK tt), (wmodel w m (f x)). split; [apply modify_model_val; exact EX|].
  split; [apply Closed_wmodel; auto|]. split; [apply ext_wmodel|]. split; [apply sameP_wmodel|]. split; reflexivity.
Qed.

(* the index-map updates keep a model closed *)
Lemma mok_add_identifiable w path e x : e < w_next w -> model_ok w x -> model_ok w (set_idents x (assoc_insert path e (m_idents x))).
Proof.
  intros L MO. apply model_ok_iff in MO as (A & D). apply model_ok_iff. cbn.
  split; [exact A|exact D].
Qed.
Lemma mok_remove_identifiable w path x : model_ok w x -> model_ok w (set_idents x (assoc_swap_remove path (m_idents x))).
Proof.
  intros MO. apply model_ok_iff in MO as (A & D). apply model_ok_iff. cbn.
  split; [exact A|exact D].
Qed.
Lemma mok_fix_identifiables w a b x : model_ok w x ->
  model_ok w (set_idents x (fold_left (fun idents key =>
         match strip_prefix a key with
         | Some suffix =>
           if is_empty suffix || starts_with_slash suffix then
             match assoc_get key idents with
             | Some entry => assoc_insert (b ++ suffix) entry (assoc_swap_remove key idents)
             | None => idents
             end
           else idents
         | None => idents
         end) (map fst (m_idents x)) (m_idents x))).
Proof.
  intros MO. apply model_ok_iff in MO as (A & D). apply model_ok_iff. cbn.
  split; [exact A|exact D].
Qed.
Lemma mok_add_reference_origin w r e x : e < w_next w -> model_ok w x ->
  model_ok w (set_origins x (match assoc_get r (m_origins x) with
                             | Some l => assoc_insert r (l ++ [e]) (m_origins x)
                             | None => m_origins x ++ [(r, [e])]
                             end)).
Proof.
  intros L MO. apply model_ok_iff in MO as (A & D). apply model_ok_iff. cbn.
  split; [exact A|].
  destruct (assoc_get r (m_origins x)) as [l|] eqn:E.
  - apply assoc_insert_ok; [exact D|]. apply Forall_app. split; [eapply assoc_get_ok; eauto|repeat constructor; exact L].
  - apply vals_ok_app; [exact D|]. apply vals_ok_one. repeat constructor. exact L.
Qed.
Lemma mok_remove_reference_origin w r e x : model_ok w x ->
  model_ok w (set_origins x (match assoc_get r (m_origins x) with
                   | Some l => let l' := remove_first e l in
                               if is_empty l' then assoc_remove r (m_origins x) else assoc_insert r l' (m_origins x)
                   | None => m_origins x
                   end)).
Proof.
  intros MO. apply model_ok_iff in MO as (A & D). apply model_ok_iff. cbn.
  split; [exact A|].
  destruct (assoc_get r (m_origins x)) as [l|] eqn:E; [|exact D]. cbv zeta.
  destruct (is_empty (remove_first e l)); [apply assoc_remove_ok; exact D|].
  apply assoc_insert_ok; [exact D|]. apply remove_first_ok. eapply assoc_get_ok; eauto.
Qed.
Lemma mok_fix_reference_origins w old_ref new_ref e x : e < w_next w -> model_ok w x ->
  model_ok w (let o1 := match assoc_get old_ref (m_origins x) with
              | Some l =>
                match index_of (N.eqb e) l with
                | Some k => let l' := swap_remove_at l k in
                            if is_empty l' then assoc_remove old_ref (m_origins x)
                            else assoc_insert old_ref l' (m_origins x)
                | None => m_origins x
                end
              | None => m_origins x
              end in
    set_origins x (match assoc_get new_ref o1 with
                   | Some l => assoc_insert new_ref (l ++ [e]) o1
                   | None => o1 ++ [(new_ref, [e])]
                   end)).
Proof.
  intros L MO. apply model_ok_iff in MO as (A & D). cbv zeta. apply model_ok_iff. cbn.
  split; [exact A|].
  set (o1 := match assoc_get old_ref (m_origins x) with Some l => _ | None => _ end).
  assert (O1 : vals_ok (fun l => Forall (fun e => e < w_next w) l) o1).
  { unfold o1. destruct (assoc_get old_ref (m_origins x)) as [l|] eqn:E; [|exact D].
    destruct (index_of (N.eqb e) l) as [k|]; [|exact D].
    destruct (is_empty (swap_remove_at l k)); [apply assoc_remove_ok; exact D|].
    apply assoc_insert_ok; [exact D|]. pose proof (assoc_get_ok _ _ _ _ D E) as FL.
    rewrite Forall_forall in *. intros y IN. apply in_swap_remove in IN. auto. }
  destruct (assoc_get new_ref o1) as [l|] eqn:E.
  - apply assoc_insert_ok; [exact O1|]. apply Forall_app. split; [eapply assoc_get_ok; eauto|repeat constructor; exact L].
  - apply vals_ok_app; [exact O1|]. apply vals_ok_one. repeat constructor. exact L.
Qed.

Definition keepN (w : world) : unit -> world -> Prop := fun _ w' => sameP w w' /\ w_next w' = w_next w /\ w_nodes w' = w_nodes w.

Lemma good_add_identifiable w m path e : Closed w -> m < N.of_nat (List.length (w_models w)) -> e < w_next w ->
  runsQ (add_identifiable m path e) w (good w (keepN w)).
Proof. intros C L Le. unfold add_identifiable. apply good_modify_model; [exact C|exact L|intros x MO; apply (mok_add_identifiable w path e x Le MO)]. Qed.
Lemma good_remove_identifiable w m path : Closed w -> m < N.of_nat (List.length (w_models w)) ->
  runsQ (remove_identifiable m path) w (good w (keepN w)).
Proof. intros C L. unfold remove_identifiable. apply good_modify_model; [exact C|exact L|intros x MO; apply mok_remove_identifiable; auto]. Qed.
Lemma good_fix_identifiables w m a b : Closed w -> m < N.of_nat (List.length (w_models w)) ->
  runsQ (fix_identifiables m a b) w (good w (keepN w)).
Proof. intros C L. unfold fix_identifiables. apply good_modify_model; [exact C|exact L|intros x MO; apply mok_fix_identifiables; auto]. Qed.
Lemma good_add_reference_origin w m r e : Closed w -> m < N.of_nat (List.length (w_models w)) -> e < w_next w ->
  runsQ (add_reference_origin m r e) w (good w (keepN w)).
Proof. intros C L Le. unfold add_reference_origin. apply good_modify_model; [exact C|exact L|intros x MO; apply mok_add_reference_origin; auto]. Qed.
Lemma good_remove_reference_origin w m r e : Closed w -> m < N.of_nat (List.length (w_models w)) ->
  runsQ (remove_reference_origin m r e) w (good w (keepN w)).
Proof. intros C L. unfold remove_reference_origin. apply good_modify_model; [exact C|exact L|intros x MO; apply mok_remove_reference_origin; auto]. Qed.
Lemma good_fix_reference_origins w m a b e : Closed w -> m < N.of_nat (List.length (w_models w)) -> e < w_next w ->
  runsQ (fix_reference_origins m a b e) w (good w (keepN w)).
Proof.
  intros C L Le. unfold fix_reference_origins. destruct (bytes_eqb a b).
  - apply good_ret; auto. split; [apply sameP_refl|]. split; reflexivity.
  - apply good_modify_model; [exact C|exact L|intros x MO; apply mok_fix_reference_origins; auto].
Qed.

(* ---------- ElementRaw::set_character_data ---------- *)
Lemma good_raw_set_character_data w i v version : Closed w -> i < w_next w -> cdata_ok v ->
  runsQ (raw_set_character_data T check_fn i v version) w
        (good w (fun _ w' => sameP w w' /\ w_next w' = w_next w)).
Proof.
  intros C L CV. unfold raw_set_character_data.
  destruct (ENV get_node_ok w i C L) as (n & EG & EN & NO).
  eapply good_rd; [exact C|exists (OK n); split; [exact EG|]; intros a [= <-]; exact (eq_refl n)|]. intros a <-.
  pose proof NO as (ET & NM & KIDS & CD & PO).
  destruct (content_mode_ok T OK12 _ ET) as (mode & EM).
  eapply good_rd; [exact C|apply (rd_wl _ mode w (fun a => a = mode) EM); reflexivity|]. intros a ->.
  destruct ((mode =? MCharacters) || ((mode =? MMixed) && Nat.leb (List.length (n_content n)) 1)); [|apply good_fail; exact C].
  destruct (chardata_spec_ok T TOK _ ET) as (spec & ES & _).
  eapply good_rd; [exact C|apply (rd_wl _ spec w (fun a => a = spec) ES); reflexivity|]. intros a ->.
  destruct spec as [cs|]; [|apply good_fail; exact C].
  destruct (ENV check_value_ok v cs version) as (b & EB).
  eapply good_rd; [exact C|apply (rd_wl _ b w (fun a => a = b) EB); reflexivity|]. intros a ->.
  destruct b; [|apply good_fail; exact C].
  eapply good_weaken; [eapply (good_set_node w i _ n C EN); [|reflexivity]|intros _ w1 (S1 & N1 & _); auto].
  split; [exact ET|]. split; [exact NM|]. cbn [set_content n_content n_parent]. split; [|split; [|exact PO]].
  - intros c IN. apply KIDS. destruct (n_content n) as [|it r]; [destruct IN as [[=]|[]]|].
    destruct IN as [[=]|IN]. right. exact IN.
  - intros d IN. destruct (n_content n) as [|it r].
    + destruct IN as [[= <-]|[]]. exact CV.
    + destruct IN as [[= <-]|IN]; [exact CV|]. apply CD. right. exact IN.
Qed.

(* ---------- create_sub_element_inner with the world it leaves ---------- *)
Lemma in_insert_at {A} (l : list A) : forall k x y, In y (insert_at l k x) -> y = x \/ In y l.
Proof.
  induction l as [|z l IH]; intros k x y IN.
  - destruct k; cbn in IN; destruct IN as [<-|[]]; left; reflexivity.
  - destruct k; cbn in IN.
    + destruct IN as [<-|IN]; [left; reflexivity|right; exact IN].
    + destruct IN as [<-|IN]; [right; left; reflexivity|]. destruct (IH _ _ _ IN); [left|right; right]; assumption.
Qed.

Definition created (w : world) (self name : N) : id -> world -> Prop :=
  fun c w' => c = w_next w /\ w_next w' = w_next w + 1 /\
              exists et, etype_ok T et /\ w_nodes w' c = Some (new_node (PElem self) name et).

Lemma good_content_insert w self pos c n : Closed w -> w_nodes w self = Some n -> c < w_next w ->
  pos <= N.of_nat (List.length (n_content n)) ->
  runsQ (content_insert self pos (CElem c)) w
        (good w (fun _ w' => w' = wset w self (set_content n (insert_at (n_content n) (N.to_nat pos) (CElem c))))).
Proof.
  intros C E Lc LE. unfold content_insert.
  exists (OK tt), (wset w self (set_content n (insert_at (n_content n) (N.to_nat pos) (CElem c)))).
  split.
  - unfold wbind. rewrite (get_node_val _ _ _ E).
    destruct (N.of_nat (List.length (n_content n)) <? pos) eqn:EL; [apply N.ltb_lt in EL; lia|]. reflexivity.
  - pose proof (cl_node _ _ _ _ C _ _ E) as (ET & NM & KIDS & CD & PO).
    assert (L : self < w_next w) by (apply (cl_alloc _ _ _ _ C); congruence).
    split; [|split; [apply ext_wset|reflexivity]].
    apply Closed_wset; auto. split; [exact ET|]. split; [exact NM|]. cbn [set_content n_content n_parent].
    split; [|split; [|exact PO]].
    + intros x IN. apply in_insert_at in IN as [[= ->]|IN]; [exact Lc|apply KIDS; exact IN].
    + intros d IN. apply in_insert_at in IN as [[=]|IN]. apply CD. exact IN.
Qed.

Lemma good_create_sub_element_inner w self n name pos version :
  Closed w -> w_nodes w self = Some n -> name_ok name -> pos <= N.of_nat (List.length (n_content n)) ->
  runsQ (create_sub_element_inner T self name pos version) w (good w (created w self name)).
Proof.
  intros C EN NM LE. unfold create_sub_element_inner.
  assert (L : self < w_next w) by (apply (cl_alloc _ _ _ _ C); congruence).
  eapply good_rd; [exact C|exists (OK n); split; [apply get_node_val; exact EN|]; intros a [= <-]; exact (eq_refl n)|]. intros a <-.
  pose proof (cl_node _ _ _ _ C _ _ EN) as (ET & _).
  destruct (find_sub_element_total T TOK (n_type n) name version ET) as (f & EF & FO).
  eapply good_rd; [exact C|apply (rd_wl _ f w (fun a => a = f) EF); reflexivity|]. intros a ->.
  destruct f as [[et idx]|]; [|apply good_fail; exact C]. destruct FO as [ETN _].
  destruct (is_named_in_version_ok T TOK et version ETN) as (b & EB).
  eapply good_rd; [exact C|apply (rd_wl _ b w (fun a => a = b) EB); reflexivity|]. intros a ->.
  destruct b; [apply good_fail; exact C|].
  set (nn := new_node (PElem self) name et). set (w1 := walloc w nn).
  assert (C1 : Closed w1).
  { apply Closed_walloc; [exact C|]. split; [exact ETN|]. split; [exact NM|]. cbn.
    split; [intros c []|]. split; [intros d []|]. lia. }
  assert (E1 : w_nodes w1 self = Some n). { unfold w1. cbn [walloc w_nodes]. rewrite upd_other; [exact EN|lia]. }
  destruct (good_content_insert w1 self pos (w_next w) n C1 E1 ltac:(unfold w1; cbn; lia) LE) as (r2 & w2 & E2 & C2 & X2 & H2).
  destruct r2 as [[]|e2]; [|exfalso].
  - exists (OK (w_next w)), w2. split.
    + unfold wbind at 1. rewrite alloc_val. fold nn. fold w1. unfold wbind. rewrite E2. reflexivity.
    + split; [exact C2|]. split; [eapply ext_trans; [apply ext_walloc|exact X2]|].
      split; [reflexivity|]. subst w2. cbn [wset w_next walloc w1]. split; [reflexivity|].
      exists et. split; [exact ETN|]. cbn [wset w_nodes]. rewrite upd_other; [|lia]. unfold w1. cbn [walloc w_nodes]. apply upd_same.
  - (* content_insert does not fail *)
    unfold content_insert, wbind in E2. rewrite (get_node_val _ _ _ E1) in E2.
    destruct (N.of_nat (List.length (n_content n)) <? pos); discriminate.
Qed.

Lemma good_raw_create_sub_element w self name version : Closed w -> self < w_next w -> name_ok name ->
  runsQ (raw_create_sub_element T self name version) w (good w (created w self name)).
Proof.
  intros C L NM. unfold raw_create_sub_element.
  destruct (ENV get_node_ok w self C L) as (n & EG & EN & NO).
  eapply good_rd; [exact C|exists (OK n); split; [exact EG|]; intros a [= <-]; exact (eq_refl n)|]. intros a <-.
  eapply good_rd; [exact C|apply (ENV calc_range_ok w n name version C NO)|]. intros [s e] [_ LE].
  eapply good_create_sub_element_inner; eauto.
Qed.

(* ---------- create_named_sub_element ---------- *)
Lemma good_create_named_inner w self n name item pos m version :
  Closed w -> UpWF w -> w_nodes w self = Some n -> name_ok name -> name_ok (SHORT T) ->
  m < N.of_nat (List.length (w_models w)) -> pos <= N.of_nat (List.length (n_content n)) ->
  runsQ (create_named_sub_element_inner T check_fn self name item pos m version) w (good w (fun c w' => c < w_next w')).
Proof.
  intros C U EN NM SN Lm LE. unfold create_named_sub_element_inner.
  destruct (is_empty item); [apply good_fail; exact C|].
  assert (L : self < w_next w) by (apply (cl_alloc _ _ _ _ C); congruence).
  eapply good_rd; [exact C|exists (OK n); split; [apply get_node_val; exact EN|]; intros a [= <-]; exact (eq_refl n)|]. intros a <-.
  pose proof (cl_node _ _ _ _ C _ _ EN) as NO. pose proof NO as (ET & _).
  destruct (find_sub_element_total T TOK (n_type n) name version ET) as (f & EF & FO).
  eapply good_rd; [exact C|apply (rd_wl _ f w (fun a => a = f) EF); reflexivity|]. intros a ->.
  destruct f as [[et idx]|]; [|apply good_fail; exact C]. destruct FO as [ETN _].
  destruct (is_named_in_version_ok T TOK et version ETN) as (b & EB).
  eapply good_rd; [exact C|apply (rd_wl _ b w (fun a => a = b) EB); reflexivity|]. intros a ->.
  destruct b; cbn [negb]; [|apply good_fail; exact C].
  destruct (find_sub_element_total T TOK et (SHORT T) version ETN) as (sn & ESN & FSN).
  eapply good_rd; [exact C|apply (rd_wl _ sn w (fun a => a = sn) ESN); reflexivity|]. intros a ->.
  eapply (good_rd _ _ w (fun _ => True)); [exact C| |].
  { destruct sn as [[se_type six]|]; [|apply rd_ret; exact I]. destruct FSN as [ETS _].
    destruct (chardata_spec_ok T TOK _ ETS) as (cs & ECS & _).
    eapply rd_bind; [apply (rd_wl _ cs w (fun a => a = cs) ECS); reflexivity|]. intros a ->.
    destruct cs as [spec|]; [|apply rd_ret; exact I].
    destruct (ENV check_value_ok (DString item) spec version) as (b & EB2). eapply rd_wl; eauto. }
  intros valid _. destruct valid; cbn [negb]; [|apply good_fail; exact C].
  eapply good_rd; [exact C|apply (ENV path_unchecked_ok w n C U NO)|]. intros parent_path _.
  eapply good_rd; [exact C|apply (ENV get_element_by_path_ok w m _ C Lm)|]. intros ex _.
  destruct ex; [apply good_fail; exact C|].
  (* allocation + insertion, as in create_sub_element_inner *)
  set (nn := new_node (PElem self) name et). set (w1 := walloc w nn).
  assert (C1 : Closed w1).
  { apply Closed_walloc; [exact C|]. split; [exact ETN|]. split; [exact NM|]. cbn.
    split; [intros c []|]. split; [intros d []|]. lia. }
  assert (E1 : w_nodes w1 self = Some n). { unfold w1. cbn [walloc w_nodes]. rewrite upd_other; [exact EN|lia]. }
  destruct (good_content_insert w1 self pos (w_next w) n C1 E1 ltac:(unfold w1; cbn; lia) LE) as (r2 & w2 & E2 & C2 & X2 & H2).
  destruct r2 as [[]|e2]; [|exfalso; unfold content_insert, wbind in E2; rewrite (get_node_val _ _ _ E1) in E2;
                             destruct (N.of_nat (List.length (n_content n)) <? pos); discriminate].
  assert (X02 : ext w w2) by (eapply ext_trans; [apply ext_walloc|exact X2]).
  assert (N2 : w_next w2 = w_next w + 1) by (subst w2; reflexivity).
  assert (Ec : w_nodes w2 (w_next w) = Some nn).
  { subst w2. cbn [wset w_nodes]. rewrite upd_other; [|lia]. unfold w1. cbn [walloc w_nodes]. apply upd_same. }
  unfold wbind at 1. unfold runsQ. rewrite alloc_val. fold nn. fold w1. unfold wbind at 1. rewrite E2.
  (* the SHORT-NAME below the new element *)
  destruct (good_raw_create_sub_element w2 (w_next w) (SHORT T) version C2 ltac:(lia) SN) as (r3 & w3 & E3 & C3 & X3 & H3).
  unfold wbind at 1. rewrite E3. destruct r3 as [s|e3].
  - destruct H3 as (-> & N3 & _).
    destruct (good_raw_set_character_data w3 (w_next w2) (DString item) version C3 ltac:(lia) I) as (r4 & w4 & E4 & C4 & X4 & H4).
    unfold wbind at 1. rewrite (wtry_val _ _ _ _ E4).
    assert (Lm4 : m < N.of_nat (List.length (w_models w4))).
    { destruct X4 as (_ & M4 & _). destruct X3 as (_ & M3 & _). destruct X02 as (_ & M2 & _). lia. }
    assert (Lc4 : w_next w < w_next w4). { destruct X4 as (A4 & _). lia. }
    destruct (good_add_identifiable w4 m (parent_path ++ [47] ++ item) (w_next w) C4 Lm4 Lc4) as (r5 & w5 & E5 & C5 & X5 & H5).
    unfold wbind at 1. rewrite E5. destruct r5 as [[]|e5].
    + exists (OK (w_next w)), w5. split; [reflexivity|]. split; [exact C5|].
      split; [repeat (eapply ext_trans; [eassumption|]); apply ext_refl|]. destruct X5 as (A5 & _). lia.
    + exists (ER e5), w5. split; [reflexivity|]. split; [exact C5|].
      split; [repeat (eapply ext_trans; [eassumption|]); apply ext_refl|exact I].
  - exists (ER e3), w3. split; [reflexivity|]. split; [exact C3|]. split; [eapply ext_trans; eauto|exact I].
Qed.

Lemma good_raw_create_named w self name item m version :
  Closed w -> UpWF w -> self < w_next w -> name_ok name -> name_ok (SHORT T) -> m < N.of_nat (List.length (w_models w)) ->
  runsQ (raw_create_named_sub_element T check_fn self name item m version) w (good w (fun c w' => c < w_next w')).
Proof.
  intros C U L NM SN Lm. unfold raw_create_named_sub_element.
  destruct (ENV get_node_ok w self C L) as (n & EG & EN & NO).
  eapply good_rd; [exact C|exists (OK n); split; [exact EG|]; intros a [= <-]; exact (eq_refl n)|]. intros a <-.
  eapply good_rd; [exact C|apply (ENV calc_range_ok w n name version C NO)|]. intros [s e] [_ LE].
  eapply good_create_named_inner; eauto.
Qed.

Lemma good_raw_create_named_at w self name item pos m version :
  Closed w -> UpWF w -> self < w_next w -> name_ok name -> name_ok (SHORT T) -> m < N.of_nat (List.length (w_models w)) ->
  runsQ (raw_create_named_sub_element_at T check_fn self name item pos m version) w (good w (fun c w' => c < w_next w')).
Proof.
  intros C U L NM SN Lm. unfold raw_create_named_sub_element_at.
  destruct (ENV get_node_ok w self C L) as (n & EG & EN & NO).
  eapply good_rd; [exact C|exists (OK n); split; [exact EG|]; intros a [= <-]; exact (eq_refl n)|]. intros a <-.
  eapply good_rd; [exact C|apply (ENV calc_range_ok w n name version C NO)|]. intros [s e] [_ LE]. cbn [fst snd] in LE.
  destruct ((s <=? pos) && (pos <=? e)) eqn:B; [|apply good_fail; exact C].
  apply andb_true_iff in B as [_ B]. apply N.leb_le in B.
  eapply good_create_named_inner; eauto. lia.
Qed.

Lemma gq_create_named w h name item : PanicFree w -> h < w_next w -> name_ok name -> name_ok (SHORT T) ->
  runsQ (e_create_named_sub_element T check_fn LATEST h name item) w (good w (fun c w' => c < w_next w')).
Proof.
  intros [C U _] L NM SN. unfold e_create_named_sub_element.
  eapply good_rd; [exact C|apply (ENV model_of_ok w h C U L)|]. intros m Lm.
  eapply good_rd; [exact C|apply (ENV min_version_ok w h C U L)|]. intros v _.
  apply good_raw_create_named; auto.
Qed.
Lemma np_create_named w h name item : PanicFree w -> h < w_next w -> name_ok name -> name_ok (SHORT T) ->
  runs (e_create_named_sub_element T check_fn LATEST h name item) w.
Proof. intros. eapply good_runs. apply gq_create_named; assumption. Qed.

Lemma gq_create_named_at w h name item pos : PanicFree w -> h < w_next w -> name_ok name -> name_ok (SHORT T) ->
  runsQ (e_create_named_sub_element_at T check_fn LATEST h name item pos) w (good w (fun c w' => c < w_next w')).
Proof.
  intros [C U _] L NM SN. unfold e_create_named_sub_element_at.
  eapply good_rd; [exact C|apply (ENV model_of_ok w h C U L)|]. intros m Lm.
  eapply good_rd; [exact C|apply (ENV min_version_ok w h C U L)|]. intros v _.
  apply good_raw_create_named_at; auto.
Qed.
Lemma np_create_named_at w h name item pos : PanicFree w -> h < w_next w -> name_ok name -> name_ok (SHORT T) ->
  runs (e_create_named_sub_element_at T check_fn LATEST h name item pos) w.
Proof. intros. eapply good_runs. apply gq_create_named_at; assumption. Qed.

Lemma first_named_item_ok w name item l : Closed w -> (forall c, In (CElem c) l -> c < w_next w) ->
  rd (first_named_item T name item l) w (fun _ => True).
Proof.
  intros C. induction l as [|[c|d] rest IH]; intros KIDS; cbn [first_named_item].
  - apply rd_ret. exact I.
  - eapply rd_bind; [apply (ENV rd_get_node w c (fun n => node_ok w n) C); [apply KIDS; left; reflexivity|auto]|]. intros cn NO.
    eapply rd_bind; [apply (ENV rd_item_name w cn (fun _ => True) C NO); auto|]. intros nm _.
    destruct ((n_name cn =? name) && bytes_eqb match nm with Some x => x | None => [] end item); [apply rd_ret; exact I|].
    apply IH. intros c0 H. apply KIDS. right. exact H.
  - apply IH. intros c0 H. apply KIDS. right. exact H.
Qed.

Lemma np_get_or_create_named w h name item : PanicFree w -> h < w_next w -> name_ok name -> name_ok (SHORT T) ->
  runs (e_get_or_create_named_sub_element T check_fn LATEST h name item) w.
Proof.
  intros [C U _] L NM SN. unfold e_get_or_create_named_sub_element.
  eapply rd_bind_runs; [apply (ENV model_of_ok w h C U L)|]. intros m Lm.
  eapply rd_bind_runs; [apply (ENV min_version_ok w h C U L)|]. intros v _.
  eapply rd_bind_runs; [apply (ENV rd_get_node w h (fun n => node_ok w n) C L); auto|]. intros n (_ & _ & KIDS & _).
  eapply rd_bind_runs; [apply (first_named_item_ok w name item _ C KIDS)|]. intros [c|] _; [apply runs_ret|].
  eapply good_runs. apply good_raw_create_named; auto.
Qed.

End Ops2.
