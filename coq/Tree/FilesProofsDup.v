(* Tree/FilesProofsDup.v — C10 proofs, duplicate: the membership phase of AutosarModel::duplicate carries the membership
   invariant from the original to the copy.
   In a world w4 in which the root of the original and the root of the copy are equal up to node ids (agent-c13's Iso:
   what the construction phase yields when nothing is filtered out — C13_copy_same_version / AllValidIn), the third loop
   (zip of the two pre-order walks, local set := the original's local set translated through the file map) gives a
   copy that satisfies FilesInvW for the translated files, whenever the original satisfies it and the file map sends
   every file of the original to a file of the copy.  Unique file names are NOT needed for this (only for the text). *)
From Coq Require Import PeanoNat Arith Lia.
From AV Require Import Base.Bytes Base.Outcome Hash.HashModel Tree.Heap Tree.Ops Tree.Script Tree.Copy Tree.Inv Tree.InvProofsBase
  Tree.InvProofsTree Tree.Files Tree.FilesLoad Tree.FilesProofsBase Tree.FilesProofsProj.
From AV Require Import Tree.CopyProofsW Tree.CopyProofsDefs Tree.CopyProofsDup Tree.CopyProofsDupText.
Open Scope string_scope.
Open Scope list_scope.
Open Scope N_scope.

Section Dup.
Variables (w4 w' : world) (fm : list (list N * N)) (F F' : list N).
Hypothesis C4 : Core w4.
Hypothesis C' : Core w'.

Notation tr := (translate_files w4 fm).

Hypothesis HT : forall g, In g F -> exists gl ng, nth_opt (w_files w4) (N.to_nat g) = Some gl /\ assoc_get (f_name gl) fm = Some ng /\ In ng F'.

Lemma tr_in s y : incl s F -> (In y (tr s) <-> exists g gl, In g s /\ nth_opt (w_files w4) (N.to_nat g) = Some gl /\ assoc_get (f_name gl) fm = Some y).
Proof.
  induction s as [|g s IH]; intros Hs; cbn [translate_files].
  - split; [intros []|intros (g & gl & [] & _)].
  - destruct (HT g (Hs g (or_introl eq_refl))) as (gl & ng & Hg & Hm & _). rewrite Hg, Hm.
    assert (incl s F) as Hs' by (intros z Hz; apply Hs; right; exact Hz).
    rewrite set_add_in, (IH Hs'). split.
    + intros [->|(g0 & gl0 & Hg0 & A & B)]; [exists g, gl; split; [left; reflexivity|auto]|exists g0, gl0; split; [right; exact Hg0|auto]].
    + intros (g0 & gl0 & [<-|Hg0] & A & B); [left; congruence|right; eauto].
Qed.

Lemma tr_sub s : incl s F -> incl (tr s) F'.
Proof.
  intros Hs y Hy. apply (tr_in s y Hs) in Hy as (g & gl & Hg & A & B).
  destruct (HT g (Hs g Hg)) as (gl' & ng & A' & B' & Hin). congruence.
Qed.
Lemma tr_mono s t : incl s t -> incl t F -> incl (tr s) (tr t).
Proof.
  intros Hst Ht y Hy. assert (incl s F) as Hs by (intros z Hz; apply Ht, Hst, Hz).
  apply (tr_in s y Hs) in Hy as (g & gl & Hg & A & B). apply (tr_in t y Ht). exists g, gl. auto.
Qed.
Lemma tr_nonempty s : s <> [] -> incl s F -> tr s <> [].
Proof.
  intros Hne Hs. destruct s as [|g s]; [congruence|]. destruct (HT g (Hs g (or_introl eq_refl))) as (gl & ng & Hg & Hm & _).
  intros E. assert (In ng (tr (g :: s))) as Hi by (apply tr_in; auto; exists g, gl; split; [left; reflexivity|auto]).
  rewrite E in Hi. destruct Hi.
Qed.

Variables (root croot : id).
Hypothesis FI : FilesInvW w4 (mkModel root F [] []).
Hypothesis FNE : F <> [].
Hypothesis Hroot_par : forall n p, w_nodes w4 root = Some n -> n_parent n <> PElem p.
Hypothesis Hcroot_par : forall n p, w_nodes w' croot = Some n -> n_parent n <> PElem p.

Definition Qp (o c : id) : Prop := w_nodes w' o = w_nodes w4 o /\ MemRel w4 w' fm o c.

Definition OKc (c' : id) : Prop :=
  exists nd, w_nodes w' c' = Some nd /\ incl (n_files nd) F' /\ (exists s, Eff w' c' s) /\
    (n_files nd <> [] -> forall p, n_parent nd = PElem p -> exists s, Eff w' p s /\ incl (n_files nd) s).

Lemma lists_first a b : Reach w' a b -> a = b \/ exists k, lists w' a k /\ Reach w' k b.
Proof.
  induction 1 as [H|p c Hp IH Hl]; [left; reflexivity|]. right. destruct IH as [->|(k & Hk & Hr)].
  - exists c. split; auto. constructor. destruct (c_up _ C' _ _ Hl) as (cn & Hcn & _). exists cn; auto.
  - exists k. split; auto. eapply R_kid; eauto.
Qed.

(* the copy of a pair, given that the effective set is carried over at this pair *)
Definition PN (o c : id) : Prop :=
  forall so, Eff w4 o so -> incl so F -> Reach w4 root o -> Eff w' c (tr so) ->
  forall c', Reach w' c c' -> c' <> c -> OKc c'.
Definition PI (lo lc : list citem) : Prop :=
  forall o0 c0 so, Eff w4 o0 so -> incl so F -> Reach w4 root o0 -> Eff w' c0 (tr so) ->
  (forall o, In o (elems lo) -> lists w4 o0 o) -> (forall c, In c (elems lc) -> lists w' c0 c) ->
  forall c, In c (elems lc) -> forall c', Reach w' c c' -> OKc c'.

Lemma iso_okc : (forall o c, IsoP Qp w4 w4 o c -> PN o c) /\ (forall lo lc, IsoPItems Qp w4 w4 lo lc -> PI lo lc).
Proof.
  apply IsoP_mutind.
  - (* node *)
    intros s c ns nc Hs Hc _ _ _ _ (Hsame & (on & cn & Hon & Hcn & Hc')) _ IHitems so Hso HsoF Hrs Hce c' Hr Hne.
    assert (on = ns) by congruence. subst on. assert (cn = nc) by congruence. subst cn.
    destruct (lists_first c c' Hr) as [E|(k & Hk & Hrk)]; [congruence|].
    apply (IHitems s c so Hso HsoF Hrs Hce) with (c := k); auto.
    + intros o Ho. exists ns. split; auto.
    + intros c1 Hc1. exists (set_files nc (tr (n_files ns))). split; auto.
    + destruct Hk as (n' & Hn' & Hin). rewrite Hc' in Hn'. injection Hn' as <-. exact Hin.
  - intros o0 c0 so _ _ _ _ _ _ c [].
  - (* data *)
    intros d r r' _ IH o0 c0 so Hso HsoF Hr0 Hce Hlo Hlc c Hc c' Hr. cbn [elems flat_map app] in *.
    apply (IH o0 c0 so Hso HsoF Hr0 Hce Hlo Hlc c Hc c' Hr).
  - (* element pair *)
    intros s1 c1 r r' Hiso IHn _ IHr o0 c0 so Hso HsoF Hr0 Hce Hlo Hlc c Hc c' Hr. cbn [elems flat_map app] in *.
    destruct Hc as [<-|Hc].
    2:{ apply (IHr o0 c0 so Hso HsoF Hr0 Hce (fun o Ho => Hlo o (or_intror Ho)) (fun c2 Hc2 => Hlc c2 (or_intror Hc2)) c Hc c' Hr). }
    inversion Hiso as [? ? ns nc Hs Hcn _ _ _ _ (Hsame & (on & cn & Hon & Hcn' & Hc')) _]; subst.
    assert (on = ns) by congruence. subst on. assert (cn = nc) by congruence. subst cn.
    assert (Reach w4 root s1) as Hrs by (apply (R_kid w4 root o0 s1 Hr0); apply Hlo; left; reflexivity).
    destruct (c_up _ C4 _ _ (Hlo s1 (or_introl eq_refl))) as (ns' & Hns' & Hps). assert (ns' = ns) by congruence. subst ns'.
    destruct (c_up _ C' _ _ (Hlc c1 (or_introl eq_refl))) as (nc' & Hnc' & Hpc). rewrite Hc' in Hnc'. injection Hnc' as <-.
    cbn [n_parent set_files] in Hpc.
    pose proof (fw_sub _ _ FI s1 ns Hrs Hs) as HaF. cbn [m_files] in HaF.
    (* the effective sets of the pair *)
    assert (exists so1, Eff w4 s1 so1 /\ incl so1 F /\ Eff w' c1 (tr so1) /\
                        (n_files ns <> [] -> so1 = n_files ns) /\ (n_files ns = [] -> so1 = so)) as (so1 & He1 & Hs1F & Hec1 & Hne1 & He0).
    { destruct (n_files ns) as [|g l] eqn:Ef.
      - exists so. split; [eapply Eff_up; eauto|]. split; auto. split; [|split; [congruence|auto]].
        eapply (Eff_up w' c1 _ c0 (tr so) Hc'); auto.
      - exists (g :: l). split; [rewrite <- Ef; constructor; auto; rewrite Ef; discriminate|]. split; [exact HaF|].
        split; [|split; [auto|congruence]].
        refine (Eff_local w' c1 _ Hc' _). cbn [n_files set_files]. apply tr_nonempty; [discriminate|exact HaF]. }
    destruct (N.eq_dec c' c1) as [->|Hne].
    + (* the copy itself *)
      eexists. split; [exact Hc'|]. cbn [n_files n_parent set_files]. split; [apply tr_sub; exact HaF|]. split; [eauto|].
      intros Hcne p Hp. rewrite Hpc in Hp. injection Hp as <-. exists (tr so). split; auto.
      assert (n_files ns <> []) as Hnne by (intros E; rewrite E in Hcne; cbn in Hcne; congruence).
      destruct (fw_par _ _ FI s1 ns o0 Hrs Hs Hnne Hps) as (s & Hss & Hi).
      rewrite (Eff_fun _ _ _ Hss _ Hso) in Hi. apply tr_mono; auto.
    + apply (IHn so1 He1 Hs1F Hrs Hec1 c' Hr Hne).
Qed.

Theorem iso_filesinv : IsoP Qp w4 w4 root croot -> FilesInvW w' (mkModel croot F' [] []).
Proof.
  intros HI. inversion HI as [? ? ns nc Hs Hcn _ _ _ _ (Hsame & (on & cn & Hon & Hcn' & Hc')) _]; subst.
  assert (on = ns) by congruence. subst on. assert (cn = nc) by congruence. subst cn.
  assert (Reach w4 root root) as Hrr by (constructor; exists ns; auto).
  destruct (fw_eff _ _ FI FNE root Hrr) as (so & Hso). cbn [m_files m_root] in *.
  assert (n_files ns <> []) as Hlne.
  { intros E. destruct (Eff_up_inv _ _ _ _ Hso Hs E) as (p & Hp & _). eapply Hroot_par; eauto. }
  assert (so = n_files ns) as -> by (eapply Eff_local_inv; eauto).
  pose proof (fw_sub _ _ FI root ns Hrr Hs) as HaF. cbn [m_files] in HaF.
  assert (Eff w' croot (tr (n_files ns))) as Hec.
  { refine (Eff_local w' croot _ Hc' _). cbn [n_files set_files]. apply tr_nonempty; auto. }
  assert (forall i, Reach w' croot i -> OKc i) as OK.
  { intros i Hr. destruct (N.eq_dec i croot) as [->|Hne].
    - eexists. split; [exact Hc'|]. cbn [n_files n_parent set_files]. split; [apply tr_sub; exact HaF|]. split; [eauto|].
      intros _ p Hp. exfalso. eapply (Hcroot_par _ p Hc'). exact Hp.
    - apply (proj1 iso_okc root croot HI (n_files ns) Hso HaF Hrr Hec i Hr Hne). }
  constructor; cbn [m_root m_files].
  - intros i n Hr Hn. destruct (OK i Hr) as (nd & Hnd & A & _). assert (nd = n) by congruence. subst nd. exact A.
  - intros i n p Hr Hn Hne Hp. destruct (OK i Hr) as (nd & Hnd & _ & _ & B). assert (nd = n) by congruence. subst nd. apply B; auto.
  - intros _ i Hr. destruct (OK i Hr) as (nd & _ & _ & E & _). exact E.
Qed.

End Dup.

(* the last phase of duplicate() — the statement has the shape of agent-c13's duplicate_tail_text *)
Theorem duplicate_tail_filesinv fm root croot w4 r w' F F' :
  Core w4 -> Core w' ->
  (forall g, In g F -> exists gl ng, nth_opt (w_files w4) (N.to_nat g) = Some gl /\ assoc_get (f_name gl) fm = Some ng /\ In ng F') ->
  FilesInvW w4 (mkModel root F [] []) -> F <> [] ->
  (forall n p, w_nodes w4 root = Some n -> n_parent n <> PElem p) ->
  (forall n p, w_nodes w4 croot = Some n -> n_parent n <> PElem p) ->
  Iso w4 w4 root croot ->
  (forall x y, Sub w4 root x -> Sub w4 croot y -> x <> y) ->
  (forall l, dfs_ids (fuel_of w4) croot w4 = Val (OK l, w4) -> NoDup l) ->
  (do w <- wget; do oids <- dfs_ids (fuel_of w) root; do cids <- dfs_ids (fuel_of w) croot;
   dup_membership fm oids cids)%W w4 = Val (OK r, w') ->
  FilesInvW w' (mkModel croot F' [] []).
Proof.
  intros C4 C' HT FI FNE Hrp Hcp HI Hdis HND H.
  apply wbind_inv in H as [(wg & w1 & E & H) | (e & E & [=])]. apply wget_inv in E as ([= ->] & ->).
  apply wbind_inv in H as [(oids & w1 & Eo & H) | (e & E & [=])].
  assert (w1 = w4) by (eapply ro_dfs_ids; eauto). subst w1.
  apply wbind_inv in H as [(cids & w1 & Ec & H) | (e & E & [=])].
  assert (w1 = w4) by (eapply ro_dfs_ids; eauto). subst w1.
  assert (forall o c, In o oids -> In c cids -> o <> c) as Hd.
  { intros o c Ho Hc. apply Hdis; [exact (dfs_ids_Sub _ _ _ _ _ Eo _ eq_refl _ Ho)|exact (dfs_ids_Sub _ _ _ _ _ Ec _ eq_refl _ Hc)]. }
  pose proof (dfs_len w4 w4 _ _ _ _ _ _ _ HI Eo Ec) as Hl.
  destruct (dup_membership_effect fm oids cids w4 _ w' H Hl (HND cids Ec) Hd) as (_ & _ & _ & Hk & HF).
  assert (Forall2 (Qp w4 w' fm) oids cids) as HF2.
  { pose proof (Forall2_with_in _ (fun o => w_nodes w' o = w_nodes w4 o) _ _ HF) as G. apply G.
    intros o Hin. apply Hk. intros Hc'. exact (Hd o o Hin Hc' eq_refl). }
  pose proof (dfs_isoP (Qp w4 w' fm) w4 w4 (fuel_of w4) root croot oids cids w4 w4 HI Eo Ec HF2) as HIP.
  apply (iso_filesinv w4 w' fm F F' C4 C' HT root croot FI FNE Hrp); auto.
  intros n p Hn Hp.
  inversion HIP as [? ? ns nc Hs Hcn _ _ _ _ (Hsame & (on & cn & Hon & Hcn' & Hc')) _]; subst.
  rewrite Hc' in Hn. injection Hn as <-. cbn [n_parent set_files] in Hp. eapply Hcp; eauto.
Qed.
