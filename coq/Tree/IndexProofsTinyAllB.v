(* Tree/IndexProofsTinyAllB.v — non-vacuity of the statement with the class Known05b (tiny tables): the copy script of
   Tree/IndexProofsTinyMove.v is clean, the witness of the finding C04-copy-container-duplicates-paths is in the class. *)
From AV Require Import Base.Bytes Base.Outcome Hash.HashModel Tree.Heap Tree.Ops Tree.Script Tree.Inv Tree.InvProofs.
From AV Require Import Tree.Index Tree.IndexProofsBase Tree.Refs Tree.IndexProofsBridge Tree.IndexProofsTiny Tree.IndexProofsTinyMove
  Tree.RefsAll Tree.RefsAllB Tree.IndexProofsNodeInv Tree.IndexProofsAll Tree.IndexProofsTinyCross Tree.IndexProofsAllB.
Import Tiny.
Open Scope string_scope.
Open Scope list_scope.
Open Scope N_scope.

Definition script_okb (s : list op) : bool :=
  clean45b tiny tiny_el tiny_en tiny_check_fn LATEST [] s Inv.empty_world && is_val (run_script s empty_world).
Theorem script_invb s :
  script_okb s = true -> TreeFacts (wof s) /\ Inv04 tiny tiny_check_fn (wof s) /\ Inv05 tiny (wof s).
Proof.
  unfold script_okb, wof. intros H. apply andb_true_iff in H as (Hc & Hv).
  destruct (run_script s empty_world) as [w'| |] eqn:E; try discriminate.
  eapply (C04_C05_history_allb tiny tiny_el tiny_en tiny_check_fn LATEST [] tiny_tables_ok tiny_root_plain s w' Hc).
  rewrite <- run_script_run_ops. exact E.
Qed.
Example copy_demo_b :
  script_okb copy_demo = true /\
  Known05b tiny tiny_el tiny_en tiny_check_fn LATEST [] (wof cc_pre) cc_op = true.
Proof. vm_compute. split; reflexivity. Qed.
