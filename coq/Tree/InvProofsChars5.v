(* Tree/InvProofsChars5.v — C03: CharsLeaf / type frame, part 5: deep_copy, create_copied_sub_element; the step theorem. *)
From Coq Require Import PeanoNat Arith.
From AV Require Import Base.Bytes Base.Outcome Hash.HashModel Tree.Heap Tree.Ops Tree.Script Tree.Inv
  Tree.InvProofsBase Tree.InvProofsCore Tree.InvProofsTree Tree.InvProofsPrim Tree.InvProofsCreate
  Tree.InvProofsData Tree.InvProofsRefs Tree.InvProofsRemove Tree.InvProofsFiles Tree.InvProofsMove
  Tree.InvProofsCopy Tree.InvProofsRename Tree.InvProofsFrame Tree.InvProofs Tree.InvProofsChars Tree.InvProofsChars2
  Tree.InvProofsChars3 Tree.InvProofsChars4.
Open Scope string_scope.
Open Scope list_scope.
Open Scope N_scope.

Section CF5.
Variable T : tables.
Variable tab_el tab_en : nametab.
Variable check_fn : N -> list N -> res bool.
Variable LATEST : N.
Variable root_attrs : list (N * cdata).

Notation cfp := (frp (cNR T) (cNN T)).
Notation cframe := (frame (cNR T) (cNN T)).

Lemma CharsLeaf_wset w i n n' : CharsLeaf T w -> w_nodes w i = Some n -> cNR T n n' -> CharsLeaf T (wset w i n').
Proof. intros CL Hn Hr. eapply CharsLeaf_frame; [|exact CL]. eapply frame_wset; eauto. apply cNR_refl. Qed.

Definition CInv2 (w0 : world) (c : id) (ty : N * N) (wk : world) : Prop :=
  CInv w0 c wk /\ CharsLeaf T wk /\ forall nc, w_nodes wk c = Some nc -> n_type nc = ty.

Lemma items_spec_cl f w0 c ty version :
  (forall src ver w r w', deep_copy T f src ver w = Val (r, w') -> Core w -> CharsLeaf T w -> CharsLeaf T w') ->
  forall l, (elems l <> [] -> content_mode T ty <> Val MCharacters) ->
  forall wk r w', CInv2 w0 c ty wk -> items_loop T f ty version c l wk = Val (r, w') -> CInv2 w0 c ty w'.
Proof.
  intros IHcl. induction l as [|[s|d] l IH]; intros Hl wk r w' (I & CL & Hty) H; cbn [items_loop] in H.
  - winv H. split; auto.
  - wstepn H sn Es; winv Es. wstepn H fs Ef; winv Ef.
    assert (Hnc : content_mode T ty <> Val MCharacters) by (apply Hl; rewrite elems_cons_elem; discriminate).
    assert (Hl' : elems l <> [] -> content_mode T ty <> Val MCharacters) by (intros _; exact Hnc).
    destruct v as [x|]; [|eapply IH; eauto; split; auto].
    wstepn H ro Ed. apply wtry_inv in Ed as (r0 & Ed & [= ->]).
    pose proof I as (Ck & Ok & Ek & Hc0 & Hc & nc & Hncq & Hp).
    pose proof Ed as Ed0. apply deep_copy_spec in Ed0 as (C1 & O1 & E1 & Hr0); try exact Ck; try exact check_fn; try exact LATEST.
    pose proof (IHcl _ _ _ _ _ Ed Ck CL) as CL1.
    destruct r0 as [cs|e].
    + destruct Hr0 as (-> & Hcs & ncs & Hncs & Hpcs).
      wstepn H u1 Em1. wstepn H u2 Em2.
      assert (Hc1 : w_nodes w c = Some nc) by (rewrite (proj2 (proj2 E1)) by auto; auto).
      destruct (attach_last check_fn LATEST w c (w_next wk) ncs C1 ltac:(lia) ltac:(eexists; eauto)
                  (fun a Ha => pnone_not_below _ _ _ _ Hc1 Hp Ha) Hncs Hpcs _ _ _ _ Em1 Em2)
        as (C2 & O2 & N2 & R2 & F2 & (nc1 & nc2 & Hq1 & Hq2 & Hq3) & _ & _).
      eapply IH; [exact Hl' | | exact H]. split; [|split].
      * split; auto. split; [intros S HS; auto|].
        destruct Ek as (K1 & K2 & K3). destruct E1 as (L1 & L2 & L3).
        split; [repeat split; try lia; try congruence|].
        { intros y Hy. rewrite F2 by lia. rewrite L3 by lia. auto. }
        split; auto. split; [lia|]. exists nc2. split; auto. congruence.
      * apply modify_node_wset in Em1 as (n1 & Hn1 & _ & ->). apply modify_node_wset in Em2 as (n2 & Hn2 & _ & ->).
        eapply CharsLeaf_wset; [eapply CharsLeaf_wset; [exact CL1 | exact Hn1 | split; [reflexivity | auto]] | exact Hn2 |].
        split; [reflexivity|]. intros Hch _. exfalso. apply Hnc.
        assert (n_type n2 = ty); [|unfold is_chars in Hch; congruence].
        apply Hty. rewrite nodes_wset_neq in Hn2 by lia. rewrite (proj2 (proj2 E1)) in Hn2 by auto. exact Hn2.
      * intros ncz Hz. apply modify_node_wset in Em1 as (n1 & Hn1 & _ & ->). apply modify_node_wset in Em2 as (n2 & Hn2 & _ & ->).
        rewrite nodes_wset_eq in Hz. injection Hz as <-. cbn.
        apply Hty. rewrite nodes_wset_neq in Hn2 by lia. rewrite (proj2 (proj2 E1)) in Hn2 by auto. exact Hn2.
    + eapply IH; [exact Hl' | | exact H]. split; [|split; auto].
      * split; auto. split; [intros S HS; auto|].
        split; [eapply ext_trans; eauto|]. split; auto. destruct E1 as (L1 & L2 & L3). split; [lia|].
        exists nc. split; auto. rewrite L3 by auto. auto.
      * intros ncz Hz. apply Hty. rewrite (proj2 (proj2 E1)) in Hz by auto. exact Hz.
  - wstepn H u Em. pose proof I as (Ck & Ok & Ek & Hc0 & Hc & nc & Hnc & Hp).
    apply modify_node_wset in Em as (nc' & Hnc' & _ & ->). assert (nc' = nc) as -> by congruence.
    eapply IH; [intros Hx; apply Hl; rewrite elems_cons_data; exact Hx | | exact H]. split; [|split].
    + eapply CInv_st; [| |exact I].
      * eapply st_wset; eauto. unfold kids. cbn. apply elems_app_data.
      * intros x Hx. apply nodes_wset_neq. lia.
    + eapply CharsLeaf_wset; eauto. split; [reflexivity|]. intros _ Hk. unfold kids in *. cbn. rewrite elems_app_data. exact Hk.
    + intros ncz Hz. rewrite nodes_wset_eq in Hz. injection Hz as <-. cbn. auto.
Qed.

Lemma deep_copy_cl f : forall src ver w r w',
  deep_copy T f src ver w = Val (r, w') -> Core w -> CharsLeaf T w -> CharsLeaf T w'.
Proof.
  induction f as [|f IHf]; intros src ver w r w' H C CL; [discriminate|].
  change (deep_copy T (S f) src ver) with
    (do n <- get_node src;
     do c <- alloc (mkNode PNone (n_name n) (n_type n) [] [] [] (n_comment n));
     do attrs <- copy_attrs T (n_type n) ver (n_attrs n) [];
     modify_node c (fun x => set_attrs x attrs);;
     items_loop T f (n_type n) ver c (n_content n);;
     wret c)%W in H.
  wstepn H n En; winv En.
  match goal with Hq : w_nodes w src = Some ?nx |- _ => rename nx into n; rename Hq into Hn end.
  wstepn H c Ea. apply alloc_walloc in Ea as ([= ->] & ->).
  set (nd := mkNode _ _ _ _ _ _ _) in *. set (w1 := walloc w nd) in *.
  assert (Hsk : skel w1 (w_next w) = Some (PNone, [])) by (unfold w1; rewrite skel_walloc_new; reflexivity).
  assert (Hfresh : w_nodes w (w_next w) = None) by (apply (proj1 (skel_none _ _)), core_fresh_none; auto).
  assert (I1 : CInv w (w_next w) w1).
  { split; [eapply (core_alloc w w1 PNone); eauto using alloc1_walloc|].
    split.
    { intros S HS. eapply OrphSub_weaken; [|eapply (orphsub_alloc w w1 PNone); eauto using alloc1_walloc; congruence].
      cbn. intros x [?|(_ & Hx)]; auto. congruence. }
    split; [split; [unfold w1; cbn; lia | split; [reflexivity | intros x Hx; unfold w1; apply nodes_walloc_old; lia]]|].
    split; [lia|]. split; [unfold w1; cbn; lia|]. exists nd. split; [apply nodes_walloc_new|reflexivity]. }
  assert (CL1 : CharsLeaf T w1).
  { eapply CharsLeaf_frame; [|exact CL]. apply frame_walloc; [apply cNR_refl | exact Hfresh | intros _; reflexivity]. }
  wstepn H attrs Ec. 2:{ exact CL1. }
  wstepn H u Em. apply modify_node_wset in Em as (nd' & Hnd' & _ & ->).
  assert (nd' = nd) as -> by (unfold w1 in Hnd'; rewrite nodes_walloc_new in Hnd'; congruence).
  assert (I2 : CInv2 w (w_next w) (n_type n) (wset w1 (w_next w) (set_attrs nd attrs))).
  { split; [|split].
    - eapply CInv_st; [| |exact I1].
      + eapply st_wset; eauto.
      + intros x Hx. apply nodes_wset_neq. lia.
    - eapply CharsLeaf_wset; eauto. split; [reflexivity | auto].
    - intros ncz Hz. rewrite nodes_wset_eq in Hz. injection Hz as <-. reflexivity. }
  assert (Hl : elems (n_content n) <> [] -> content_mode T (n_type n) <> Val MCharacters).
  { intros Hne Hch. apply Hne. apply (CL _ _ Hn Hch). }
  wstepn H u2 Ei; [winv H|]; apply (items_spec_cl f w (w_next w) _ _ IHf _ Hl _ _ _ I2 Ei).
Qed.

Lemma deep_copy_cframe f src ver w r w' :
  deep_copy T f src ver w = Val (r, w') -> Core w -> CharsLeaf T w -> cframe w w'.
Proof.
  intros H C CL. pose proof (deep_copy_cl _ _ _ _ _ _ H C CL) as CL'.
  pose proof H as H0. apply deep_copy_spec in H0 as (_ & _ & (X1 & X2 & X3) & _); try exact C; try exact check_fn; try exact LATEST.
  split.
  - intros i Hi. assert (Ha : allocated w i) by (destruct (w_nodes w i) as [n0|] eqn:E; [exists n0; auto | congruence]).
    apply C in Ha. rewrite X3; auto.
  - intros i n' Hn'. destruct (N.lt_ge_cases i (w_next w)) as [Hlt|Hge].
    + left. rewrite X3 in Hn' by auto. exists n'. split; auto. apply cNR_refl.
    + right. split; [|intros Hc; eapply CL'; eauto].
      destruct (w_nodes w i) eqn:E; auto. assert (Ha : allocated w i) by (eexists; eauto). apply C in Ha. lia.
Qed.

Lemma copied_inner_cframe self other pos m version w r w' n :
  Core w -> CharsLeaf T w -> w_nodes w self = Some n -> ~ is_chars T n ->
  create_copied_sub_element_inner T self other pos m version w = Val (r, w') -> cframe w w'.
Proof.
  intros C CL Hn Hc H. unfold create_copied_sub_element_inner in H.
  wrun_ro H ltac:(apply cframe_refl).
  wstepn H c Ed. 2:{ eapply deep_copy_cframe; eauto. }
  pose proof (deep_copy_cframe _ _ _ _ _ _ Ed C CL) as F1.
  match type of Ed with _ = Val (_, ?wx) => rename wx into w1 end.
  wrun_ro H ltac:(exact F1).
  wstepn H u Em.
  match type of Em with _ = Val (_, ?wx) => rename wx into w2 end.
  assert (F2 : cframe w w2).
  { eapply cframe_trans; [exact F1|].
    match type of Em with ?mm ?wa = _ => refine ((_ : cfp mm) wa _ _ Em) end.
    apply frp_modify_node; [fr_side .. |]. intros nx. c_leaf. }
  wstepn H cn Eg; winv Eg.
  wstepn H ident Ei. 2:{ unfold is_identifiable in Ei. absurd_err Ei. }
  wstepn H u2 Eu.
  2:{ eapply cframe_trans; [exact F2|]. match type of Eu with ?mm ?wa = _ => refine ((_ : cfp mm) wa _ _ Eu) end. c_tac. }
  match type of Eu with _ = Val (_, ?wx) => rename wx into w3 end.
  assert (F3 : cframe w w3).
  { eapply cframe_trans; [exact F2|]. match type of Eu with ?mm ?wa = _ => refine ((_ : cfp mm) wa _ _ Eu) end. c_tac. }
  wstepn H w2' Ew; winv Ew.
  wstepn H u3 Er.
  2:{ eapply cframe_trans; [exact F3|]. eapply cfp_register_subtree; eauto. }
  match type of Er with _ = Val (_, ?wx) => rename wx into w4 end.
  assert (F4 : cframe w w4) by (eapply cframe_trans; [exact F3|]; eapply cfp_register_subtree; eauto).
  wstepn H u5 Ec; [winv H|]; exact (cframe_insert_later T _ _ _ _ _ _ _ _ F4 Hn Hc Ec).
Qed.

Lemma e_copied_cframe h other w r w' :
  Core w -> CharsLeaf T w -> e_create_copied_sub_element T LATEST h other w = Val (r, w') -> cframe w w'.
Proof.
  intros C CL H. unfold e_create_copied_sub_element, raw_create_copied_sub_element in H.
  wrun_ro H ltac:(apply cframe_refl).
  match goal with Hq : calc_element_insert_range T ?nn _ _ ?ww = _ |- _ => pose proof (calc_not_chars _ _ _ _ _ _ Hq) as Hc end.
  eapply copied_inner_cframe; eauto.
Qed.
Lemma e_copied_at_cframe h other pos w r w' :
  Core w -> CharsLeaf T w -> e_create_copied_sub_element_at T LATEST h other pos w = Val (r, w') -> cframe w w'.
Proof.
  intros C CL H. unfold e_create_copied_sub_element_at, raw_create_copied_sub_element_at in H.
  wrun_ro H ltac:(apply cframe_refl).
  match goal with Hq : calc_element_insert_range T ?nn _ _ ?ww = _ |- _ => pose proof (calc_not_chars _ _ _ _ _ _ Hq) as Hc end.
  eapply copied_inner_cframe; eauto.
Qed.

(* ---------- every operation keeps the type of every node, and CharsLeaf ---------- *)
Notation run := (Inv.run T tab_el tab_en check_fn LATEST root_attrs).

Ltac by_cfp L := eapply L; eassumption.
Ltac by_cfC L := eapply L; [eassumption | eassumption].

Theorem cframe_step o w r w' : Core w -> CharsLeaf T w -> run o w = Val (r, w') -> cframe w w'.
Proof.
  intros C CL H. unfold Inv.run in H. destruct o; cbn [run_op welem wunit] in H;
    apply wmap_inv in H as (r0 & H & _).
  - by_cfC cfC_e_create_sub.
  - by_cfC cfC_e_create_sub_at.
  - by_cfC cfC_e_create_named.
  - by_cfC cfC_e_create_named_at.
  - eapply e_copied_cframe; eauto.
  - eapply e_copied_at_cframe; eauto.
  - eapply e_move_cframe; eauto.
  - eapply e_move_at_cframe; eauto.
  - by_cfp cfp_e_remove.
  - by_cfp cfp_e_remove_kind.
  - eapply set_item_name_cframe; eauto.
  - by_cfp cfp_set_character_data.
  - by_cfp cfp_remove_character_data.
  - by_cfp cfp_insert_citem.
  - by_cfp cfp_remove_citem.
  - by_cfp cfp_set_reference_target.
  - by_cfp cfp_set_attribute.
  - by_cfp cfp_remove_attribute.
  - by_cfp cfp_set_comment.
  - by_cfC cfC_e_get_or_create.
  - by_cfC cfC_e_get_or_create_named.
  - eapply cframe_new_model; eauto.
  - eapply cframe_m_create_file; eauto.
  - eapply cframe_m_remove_file; eauto.
  - by_cfp cfp_e_add_to_file.
  - by_cfp cfp_e_remove_from_file.
Qed.

Theorem CharsLeaf_step o w r w' : Core w -> CharsLeaf T w -> run o w = Val (r, w') -> CharsLeaf T w'.
Proof. intros C CL H. eapply CharsLeaf_frame; [eapply cframe_step; eauto | exact CL]. Qed.

End CF5.
