(* Tree/InvProofsStale2Examples.v — C03: non-vacuity of the stale-handle theorem over op2 histories
   (Tree/InvProofsStale2.v) on the tiny tables of Tree/InvExamples.v: build /a/b/c, remove /a/b, duplicate the model;
   the history is clean, the duplicate succeeds (two models), handle 5 (the former /a/b/c) is detached, and every
   place-dependent request through it fails without changing the world. *)
From AV Require Import Base.Bytes Base.Outcome Hash.HashModel Tree.Heap Tree.Ops Tree.Script Tree.Inv
  Tree.StaleProofs Tree.Script2 Tree.InvLoad Tree.InvExamples Tree.InvProofsStale2.
Open Scope string_scope.
Open Scope list_scope.
Open Scope N_scope.

Module Tiny2.
Import Tiny.
Definition fp0 : list N -> option N := fun _ => None.
Definition ff0 : N -> list N := fun _ => [].
Notation run_ops20 := (run_ops2 T0 nt0 nt0 nt0 chk0 fp0 ff0 1 0 0 0 []).
Notation clean20 := (clean_stale_ops2 T0 nt0 nt0 nt0 chk0 fp0 ff0 1 0 0 0 []).

Definition opsD : list op2 := map Op1 ops3 ++ [Op1 (OpRemove 1 3); OpDuplicate 0].
Definition wD : world := match run_ops20 opsD empty_world with Val w => w | _ => empty_world end.

Lemma wD_runs : run_ops20 opsD empty_world = Val wD.
Proof. unfold wD. destruct (run_ops20 opsD empty_world) eqn:E; try reflexivity; vm_compute in E; discriminate. Qed.
Lemma wD_clean : clean20 opsD empty_world = true.
Proof. vm_compute. reflexivity. Qed.
(* the duplicate succeeded: two models, the copy's root is a new node *)
Example wD_two_models : List.length (w_models wD) = 2%nat /\ map m_root (w_models wD) = [0; 7].
Proof. vm_compute. auto. Qed.
Example wD_detached : Detached wD 5.
Proof.
  unfold Detached.
  assert (H : exists n, w_nodes wD 5 = Some n /\ n_parent n = PNone).
  { vm_compute. eexists. split; reflexivity. }
  destruct H as (n & Hn & Hp). rewrite <- Hp. eapply T_here; eauto. rewrite Hp. congruence.
Qed.
Theorem wD_stale o r w' :
  principal o = Some 5 -> place_dependent o = true -> run0 o wD = Val (r, w') -> w' = wD /\ failed r.
Proof.
  intros Hp Hpd H.
  exact (stale_fails_histories2_partial T0 nt0 nt0 nt0 chk0 fp0 ff0 1 0 0 0 [] opsD wD o 5 r w'
           wD_runs wD_clean wD_detached Hp Hpd H).
Qed.
(* and the premise of wD_stale is met by a concrete request *)
Example wD_stale_create :
  principal (OpCreateNamed 5 PKG na) = Some 5 /\ place_dependent (OpCreateNamed 5 PKG na) = true /\
  exists e, run0 (OpCreateNamed 5 PKG na) wD = Val (ER e, wD).
Proof.
  split; [reflexivity|]. split; [reflexivity|].
  destruct (run0 (OpCreateNamed 5 PKG na) wD) as [[r w']| |] eqn:E; try (vm_compute in E; discriminate).
  destruct (wD_stale (OpCreateNamed 5 PKG na) r w' eq_refl eq_refl E) as (-> & (e & ->)). eauto.
Qed.
Theorem wD_example :
  run_ops20 opsD empty_world = Val wD /\ clean20 opsD empty_world = true /\ In (OpDuplicate 0) opsD /\
  (List.length (w_models wD) = 2%nat /\ map m_root (w_models wD) = [0; 7]) /\ Detached wD 5 /\
  (principal (OpCreateNamed 5 PKG na) = Some 5 /\ place_dependent (OpCreateNamed 5 PKG na) = true /\
   exists e, run0 (OpCreateNamed 5 PKG na) wD = Val (ER e, wD)).
Proof.
  split; [exact wD_runs|]. split; [exact wD_clean|]. split; [vm_compute; auto 10|].
  split; [exact wD_two_models|]. split; [exact wD_detached|exact wD_stale_create].
Qed.
End Tiny2.
