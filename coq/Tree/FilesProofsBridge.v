(* Tree/FilesProofsBridge.v — C10 proofs, load: the bridge between agent-c09's abstraction of a model as an
   id-annotated tree (LoadRefineBase.atree / AbsA, LoadRefineTop.ModelTree) and the heap invariant FilesInvW:
   for a model that is such a tree, FilesInvW holds iff the erased tree satisfies HInvRoot. *)
From Coq Require Import PeanoNat Arith Lia.
From AV Require Import Base.Bytes Base.Outcome Hash.HashModel Tree.Heap Tree.Ops Tree.Script Tree.Inv Tree.InvProofsBase
  Tree.InvProofsTree Tree.Load Tree.MergeSpec Tree.MergePure Tree.LoadRefineBase Tree.LoadRefineTop
  Tree.Files Tree.FilesLoad Tree.FilesProofsBase Tree.FilesProofsProj Tree.FilesProofsMerge.
Open Scope string_scope.
Open Scope list_scope.
Open Scope N_scope.

(* ---------- subtrees of an annotated tree ---------- *)
Inductive SubT : atree -> atree -> Prop :=
| ST_refl a : SubT a a
| ST_kid s c a : SubT s c -> In (inl c) (a_content a) -> SubT s a.

Lemma aids_items_inv l x : In x (aids_items l) -> exists c, In (inl c) l /\ In x (aids c).
Proof.
  induction l as [|[c|d] r IH]; cbn [aids_items]; intros H; [destruct H| |].
  - apply in_app_iff in H as [H|H]; [exists c; split; auto; left; reflexivity|].
    destruct (IH H) as (c0 & Hc0 & Hx). exists c0. split; auto. right. exact Hc0.
  - destruct (IH H) as (c0 & Hc0 & Hx). exists c0. split; auto. right. exact Hc0.
Qed.

Lemma erase_items_in l c : In (inl c) l -> In (inl (erase c)) (erase_items l).
Proof.
  induction l as [|[c0|d] r IH]; cbn [erase_items In]; [intros []| |].
  - intros [[= ->]|H]; [left; reflexivity|right; auto].
  - intros [[=]|H]. right. auto.
Qed.
Lemma erase_items_inv l k : In (inl k) (erase_items l) -> exists c, In (inl c) l /\ k = erase c.
Proof.
  induction l as [|[c0|d] r IH]; cbn [erase_items In]; [intros []| |].
  - intros [[= <-]|H]; [exists c0; split; auto|]. destruct (IH H) as (c & Hc & ->). exists c. split; auto.
  - intros [[=]|H]. destruct (IH H) as (c & Hc & ->). exists c. split; auto.
Qed.

Lemma aids_sub n : forall a, (adepth a <= n)%nat -> forall i, In i (aids a) -> exists s, SubT s a /\ a_id s = i.
Proof.
  induction n as [|n IH]; intros [i0 name ty attrs content comment local] Hd i Hi; rewrite adepth_unfold in Hd; [lia|].
  rewrite aids_unfold in Hi. destruct Hi as [<-|Hi]; [eexists; split; [apply ST_refl|reflexivity]|].
  destruct (aids_items_inv _ _ Hi) as (c & Hc & Hx).
  destruct (IH c) with (i := i) as (s & Hs & Hid); auto.
  { apply adepth_items_in in Hc. lia. }
  exists s. split; auto. eapply ST_kid; eauto.
Qed.

Lemma SubT_abs w s a : SubT s a -> AbsA w a -> AbsA w s.
Proof. induction 1 as [|s c a Hs IH Hc]; intros H; auto. apply IH. eapply AbsItems_in; [apply AbsA_items; exact H|exact Hc]. Qed.

Lemma SubT_aids s a : SubT s a -> incl (aids s) (aids a).
Proof.
  induction 1 as [|s c a Hs IH Hc]; [apply incl_refl|]. intros x Hx. destruct a. rewrite aids_unfold. right.
  eapply aids_items_in; eauto.
Qed.

Lemma SubT_depth s a : SubT s a -> (adepth s <= adepth a)%nat.
Proof.
  induction 1 as [|s c a Hs IH Hc]; auto. destruct a. rewrite adepth_unfold. cbn [a_content] in Hc.
  apply adepth_items_in in Hc. lia.
Qed.

Section Bridge.
Variable w : world.
Hypothesis C : Core w.

Lemma abs_alloc a : AbsA w a -> allocated w (a_id a).
Proof. intros H. destruct (AbsA_node _ _ H) as (p & Hp). eexists. exact Hp. Qed.

Lemma abs_lists a c : AbsA w a -> In (inl c) (a_content a) -> lists w (a_id a) (a_id c).
Proof.
  intros H Hc. destruct (AbsA_node _ _ H) as (p & Hp). eexists. split; [exact Hp|]. unfold kids. cbn [n_content].
  apply in_elems. apply (in_map citem_of) in Hc. exact Hc.
Qed.

Lemma abs_lists_inv a c : AbsA w a -> lists w (a_id a) c -> exists k, In (inl k) (a_content a) /\ a_id k = c.
Proof.
  intros H (n & Hn & Hc). destruct (AbsA_node _ _ H) as (p & Hp). rewrite Hp in Hn. injection Hn as <-.
  unfold kids in Hc. cbn [n_content] in Hc. apply in_elems in Hc. apply in_map_iff in Hc as ([k|d] & E & Hin); cbn in E; [|discriminate].
  injection E as E. exists k. auto.
Qed.

Lemma sub_reach s a : SubT s a -> AbsA w a -> Reach w (a_id a) (a_id s).
Proof.
  induction 1 as [a|s c a Hs IH Hc]; intros H.
  - constructor. apply abs_alloc. exact H.
  - assert (AbsA w c) as Hac by (eapply AbsItems_in; [apply AbsA_items; exact H|exact Hc]).
    eapply reach_trans; [|apply IH; exact Hac]. eapply R_kid; [constructor; apply abs_alloc; exact H|]. apply abs_lists; auto.
Qed.

Lemma aids_reach ta i : AbsA w ta -> In i (aids ta) -> Reach w (a_id ta) i.
Proof.
  intros H Hi. destruct (aids_sub (adepth ta) ta (le_n _) i Hi) as (s & Hs & <-). apply sub_reach; auto.
Qed.

Lemma reach_aids ta i : AbsA w ta -> Reach w (a_id ta) i -> In i (aids ta).
Proof.
  intros H Hr. induction Hr as [_|p c Hp IH Hl]; [apply a_id_in_aids|].
  destruct (aids_sub (adepth ta) ta (le_n _) p IH) as (s & Hs & <-).
  destruct (abs_lists_inv s c (SubT_abs w s ta Hs H) Hl) as (k & Hk & <-).
  apply (SubT_aids s ta Hs). destruct s. rewrite aids_unfold. right. eapply aids_items_in; eauto. apply a_id_in_aids.
Qed.

(* the node of a sub-element: its parent link is its parent in the tree *)
Lemma abs_child_node a c : AbsA w a -> In (inl c) (a_content a) ->
  exists nd, w_nodes w (a_id c) = Some nd /\ n_parent nd = PElem (a_id a) /\ n_files nd = a_local c.
Proof.
  intros H Hc. assert (AbsA w c) as Hac by (eapply AbsItems_in; [apply AbsA_items; exact H|exact Hc]).
  destruct (AbsA_node _ _ Hac) as (p & Hp). destruct (c_up _ C _ _ (abs_lists a c H Hc)) as (nd & Hnd & Hpar).
  exists nd. rewrite Hp in Hnd. injection Hnd as <-. cbn in *. auto.
Qed.

Variable F : list N.

(* what FilesInvW says about one element, given the effective set of its parent *)
Definition ElemOK (i : id) : Prop :=
  exists nd, w_nodes w i = Some nd /\ incl (n_files nd) F /\ (exists s, Eff w i s) /\
    (n_files nd <> [] -> forall p, n_parent nd = PElem p -> exists s, Eff w p s /\ incl (n_files nd) s).

(* ---------- tree -> heap ---------- *)
Lemma hinv_heap n : forall a inh p, (adepth a <= n)%nat -> AbsA w a -> HInv F inh (erase a) ->
  (exists nd, w_nodes w (a_id a) = Some nd /\ n_parent nd = PElem p) -> Eff w p inh ->
  Eff w (a_id a) (eff_of inh (a_local a)) /\ forall i, In i (aids a) -> ElemOK i.
Proof.
  induction n as [|n IH]; intros [i0 name ty attrs content comment local] inh p Hd HA HI (nd & Hnd & Hpar) He;
    rewrite adepth_unfold in Hd; [lia|].
  cbn [a_id a_local] in *. pose proof HA as HA0. apply AbsA_unfold in HA as ((p0 & Hp0) & Hitems).
  rewrite Hp0 in Hnd. injection Hnd as <-. cbn [n_parent] in Hpar. subst p0.
  rewrite erase_unfold in HI. inversion HI as [? ? ? ? ? ? ? Hl Hp Hk]; subst.
  assert (Eff w i0 (eff_of inh local)) as Hme.
  { unfold eff_of. destruct local as [|g l]; cbn [is_empty].
    - apply (Eff_up w i0 _ p inh Hp0 eq_refl eq_refl He).
    - refine (Eff_local w i0 _ Hp0 _). cbn. discriminate. }
  split; [exact Hme|]. intros i Hi. rewrite aids_unfold in Hi. destruct Hi as [<-|Hi].
  - eexists. split; [exact Hp0|]. cbn [n_files n_parent]. split; auto. split; [eauto|].
    intros Hne p' [= <-]. exists inh. split; auto.
  - destruct (aids_items_inv _ _ Hi) as (c & Hc & Hx).
    assert (AbsA w c) as Hac by (eapply AbsItems_in; eauto).
    destruct (abs_child_node (ANode i0 name ty attrs content comment local) c HA0 Hc) as (cn & Hcn & Hcp & _).
    destruct (IH c (eff_of inh local) i0) as (_ & Hall); auto.
    + apply adepth_items_in in Hc. lia.
    + apply Hk. apply erase_items_in. exact Hc.
    + exists cn. auto.
Qed.

Theorem tree_to_heap ta x : AbsA w ta -> m_root x = a_id ta -> m_files x = F ->
  (exists rn k, w_nodes w (a_id ta) = Some rn /\ n_parent rn = PModel k) ->
  HInvRoot F (erase ta) -> FilesInvW w x.
Proof.
  intros HA Hroot HF (rn & k & Hrn & Hrp) (Hne & Hl & Hk).
  assert (forall i, Reach w (m_root x) i -> ElemOK i) as OK.
  { intros i Hr. rewrite Hroot in Hr. apply (reach_aids ta i HA) in Hr.
    destruct ta as [i0 name ty attrs content comment local]. cbn [a_id] in *. rewrite erase_unfold in *. cbn [h_local h_content] in *.
    pose proof HA as HA0. apply AbsA_unfold in HA as ((p0 & Hp0) & Hitems). rewrite Hp0 in Hrn. injection Hrn as <-. cbn in Hrp. subst p0.
    assert (Eff w i0 local) as Hre.
    { refine (Eff_local w i0 _ Hp0 _). cbn. exact Hne. }
    rewrite aids_unfold in Hr. destruct Hr as [<-|Hi].
    - eexists. split; [exact Hp0|]. cbn. split; auto. split; [eauto|]. intros _ p' [=].
    - destruct (aids_items_inv _ _ Hi) as (c & Hc & Hx).
      assert (AbsA w c) as Hac by (eapply AbsItems_in; eauto).
      destruct (abs_child_node (ANode i0 name ty attrs content comment local) c HA0 Hc) as (cn & Hcn & Hcp & _).
      destruct (hinv_heap (adepth c) c local i0 (le_n _) Hac) as (_ & Hall); auto.
      + apply Hk. apply erase_items_in. exact Hc.
      + exists cn. auto. }
  constructor.
  - intros i n Hr Hn. destruct (OK i Hr) as (nd & Hnd & A & _). rewrite HF. assert (nd = n) by congruence. subst nd. exact A.
  - intros i n p Hr Hn Hne' Hp. destruct (OK i Hr) as (nd & Hnd & _ & _ & B). assert (nd = n) by congruence. subst nd. apply B; auto.
  - intros _ i Hr. destruct (OK i Hr) as (nd & _ & _ & E & _). exact E.
Qed.

(* ---------- heap -> tree ---------- *)
Lemma heap_hinv x (FI : FilesInvW w x) (HF : m_files x = F) n : forall a inh p, (adepth a <= n)%nat -> AbsA w a ->
  (forall i, In i (aids a) -> Reach w (m_root x) i) ->
  (exists nd, w_nodes w (a_id a) = Some nd /\ n_parent nd = PElem p) -> Eff w p inh ->
  HInv F inh (erase a).
Proof.
  induction n as [|n IH]; intros [i0 name ty attrs content comment local] inh p Hd HA Hreach (nd & Hnd & Hpar) He;
    rewrite adepth_unfold in Hd; [lia|].
  cbn [a_id] in *. pose proof HA as HA0. apply AbsA_unfold in HA as ((p0 & Hp0) & Hitems).
  rewrite Hp0 in Hnd. injection Hnd as <-. cbn [n_parent] in Hpar. subst p0.
  assert (Reach w (m_root x) i0) as Hr0 by (apply Hreach; rewrite aids_unfold; left; reflexivity).
  rewrite erase_unfold. constructor.
  - rewrite <- HF. apply (fw_sub _ _ FI i0 _ Hr0 Hp0).
  - intros Hne. destruct (fw_par _ _ FI i0 _ p Hr0 Hp0 Hne eq_refl) as (s & Hs & Hi). cbn in Hi.
    rewrite (Eff_fun _ _ _ He _ Hs). exact Hi.
  - intros k Hk. destruct (erase_items_inv _ _ Hk) as (c & Hc & ->).
    assert (AbsA w c) as Hac by (eapply AbsItems_in; eauto).
    destruct (abs_child_node (ANode i0 name ty attrs content comment local) c HA0 Hc) as (cn & Hcn & Hcp & _).
    apply (IH c (eff_of inh local) i0); auto.
    + apply adepth_items_in in Hc. lia.
    + intros i Hi. apply Hreach. rewrite aids_unfold. right. eapply aids_items_in; eauto.
    + exists cn. auto.
    + unfold eff_of. destruct local as [|g l]; cbn [is_empty].
      * apply (Eff_up w i0 _ p inh Hp0 eq_refl eq_refl He).
      * refine (Eff_local w i0 _ Hp0 _). cbn. discriminate.
Qed.

Theorem heap_to_tree ta x : AbsA w ta -> m_root x = a_id ta -> m_files x = F -> F <> [] ->
  (exists rn k, w_nodes w (a_id ta) = Some rn /\ n_parent rn = PModel k) ->
  FilesInvW w x -> HInvRoot F (erase ta).
Proof.
  intros HA Hroot HF Hne (rn & k & Hrn & Hrp) FI.
  destruct ta as [i0 name ty attrs content comment local]. cbn [a_id] in *. rewrite erase_unfold. unfold HInvRoot. cbn [h_local h_content].
  pose proof HA as HA0. apply AbsA_unfold in HA as ((p0 & Hp0) & Hitems). rewrite Hp0 in Hrn. injection Hrn as <-. cbn in Hrp. subst p0.
  assert (Reach w (m_root x) i0) as Hr0 by (rewrite Hroot; constructor; eexists; exact Hp0).
  assert (local <> []) as Hlne.
  { destruct (fw_eff _ _ FI ltac:(rewrite HF; exact Hne) i0 Hr0) as (s & Hs).
    destruct local as [|g l]; [|discriminate]. destruct (Eff_up_inv _ _ _ _ Hs Hp0 eq_refl) as (p & Hp & _). discriminate. }
  split; [exact Hlne|]. split.
  - rewrite <- HF. apply (fw_sub _ _ FI i0 _ Hr0 Hp0).
  - intros k0 Hk. destruct (erase_items_inv _ _ Hk) as (c & Hc & ->).
    assert (AbsA w c) as Hac by (eapply AbsItems_in; eauto).
    destruct (abs_child_node (ANode i0 name ty attrs content comment local) c HA0 Hc) as (cn & Hcn & Hcp & _).
    apply (heap_hinv x FI HF (adepth c) c local i0 (le_n _) Hac).
    + intros i Hi. rewrite Hroot. apply (aids_reach (ANode i0 name ty attrs content comment local) i HA0).
      rewrite aids_unfold. right. eapply aids_items_in; eauto.
    + exists cn. auto.
    + refine (Eff_local w i0 _ Hp0 _). cbn. exact Hlne.
Qed.

End Bridge.
