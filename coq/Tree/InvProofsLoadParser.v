(* Tree/InvProofsLoadParser.v — C03: what every tree returned by Xml/Parser.load satisfies, in the form the load
   invariant needs (Tree/InvProofsLoadLive.v): Characters-mode elements have no sub-elements (EChars), the recorded
   references are elements of a reference type (ERefs).  From agent-xmlproofs' Xml/LoadRecords*.v:
   load_records (p_refs = rev prefs, linked), load_types_ok, chars_leaf, linked_leaf. *)
From Coq Require Import PeanoNat Arith Lia.
From AV Require Import Base.Bytes Base.Outcome Hash.HashModel Spec.SpecTypes Spec.SpecOps Tree.Heap Tree.Ops Tree.Inv
  Tree.InvProofsLoadLive.
From AV Require Import Xml.Parser Xml.TablesOk Xml.StrictValidDef Xml.LoadRecords Xml.LoadRecordsRegular.
Open Scope list_scope.
Open Scope N_scope.

Section ParserFacts.
Variable T : tables.

Lemma et_type_e_type e : et_type e = e_type e. Proof. destruct e; reflexivity. Qed.

Lemma echars_of t : tables_ok T = true -> AllNodes (fun ty _ => etype_ok T ty) t -> linked T t -> EChars T t.
Proof.
  intros OK. induction 1 as [n ty a content cm TY KT IH]. intros LK.
  inversion LK as [n0 ty0 a0 c0 cm0 FD LC]; subst.
  constructor.
  - intros CM c I. pose proof (chars_leaf T OK ty TY CM) as LF. exact (linked_leaf T _ _ _ _ _ LK LF c I).
  - intros c I. exact (IH c I (LC c I)).
Qed.

Lemma prefs_typed : forall e p key pos, In (key, pos) (prefs T p e) ->
  exists suf sub, pos = rev p ++ suf /\ et_at e suf = Some sub /\ is_ref_b T (et_type sub) = true.
Proof.
  fix IH 1. intros [n ty a content cm] p key pos H. rewrite prefs_node in H.
  assert (G : forall l pre, content = pre ++ l ->
            In (key, pos) (pref_go (prefs T) (is_ref_b T ty) p (List.length pre) l) ->
            exists suf sub, pos = rev p ++ suf /\ et_at (ENode n ty a content cm) suf = Some sub /\ is_ref_b T (et_type sub) = true).
  { induction l as [|[c|d] l IHl]; intros pre Hc Hin; cbn [pref_go] in Hin.
    - destruct Hin.
    - apply in_app_or in Hin as [Hin|Hin].
      + destruct (IH c (List.length pre :: p) key pos Hin) as (suf & sub & E1 & E2 & E3).
        exists (List.length pre :: suf), sub. split; [|split; auto].
        * rewrite E1. cbn [rev]. rewrite <- app_assoc. reflexivity.
        * cbn [et_at et_content]. rewrite Hc. rewrite nth_error_app2 by lia. rewrite Nat.sub_diag. cbn. exact E2.
      + apply (IHl (pre ++ [inl c])); [rewrite <- app_assoc; exact Hc|].
        rewrite app_length. cbn [List.length]. rewrite Nat.add_1_r. exact Hin.
    - assert (Hrest : In (key, pos) (pref_go (prefs T) (is_ref_b T ty) p (S (List.length pre)) l) ->
                      exists suf sub, pos = rev p ++ suf /\ et_at (ENode n ty a content cm) suf = Some sub /\ is_ref_b T (et_type sub) = true).
      { intros Hin'. apply (IHl (pre ++ [inr d])); [rewrite <- app_assoc; exact Hc|].
        rewrite app_length. cbn [List.length]. rewrite Nat.add_1_r. exact Hin'. }
      destruct d as [e0|s|u|f0]; try (apply Hrest; exact Hin).
      apply in_app_or in Hin as [Hin|Hin]; [|apply Hrest; exact Hin].
      destruct (is_ref_b T ty) eqn:IR; [|destruct Hin]. destruct Hin as [[= <- <-]|[]].
      exists [], (ENode n ty a content cm). split; [rewrite app_nil_r; reflexivity|]. split; [reflexivity|exact IR]. }
  apply (G content []); auto.
Qed.

Theorem load_tree_facts tab_el tab_at tab_en check_fn float_parse s bs t st :
  tables_ok T = true ->
  load s T tab_el tab_at tab_en check_fn float_parse bs = Val (Ret t st) ->
  EChars T t /\ ERefs T t (p_refs st).
Proof.
  intros OK L. destruct (load_types_ok T tab_el tab_at tab_en check_fn float_parse s bs t st OK L) as [TY LK].
  split; [apply echars_of; auto|].
  destruct (load_records T tab_el tab_at tab_en check_fn float_parse s bs t st L) as (_ & RF & _ & _).
  intros key pos sub Hin Hs. rewrite RF in Hin. apply in_rev in Hin.
  destruct (prefs_typed t [] key pos Hin) as (suf & sub' & E1 & E2 & E3). cbn in E1. subst suf.
  rewrite Hs in E2. injection E2 as <-. unfold is_ref_b in E3. destruct (is_ref T (et_type sub)) as [b| |]; try discriminate E3.
  subst b. reflexivity.
Qed.

End ParserFacts.
