(* Tree/IndexProofsMoveTree.v — C04/C05: the tree side of a move inside one model.
   The identifiable element mv (SHORT-NAME s) is taken out of its parent sp and put below self at position pos, its
   item name becomes nm (make_unique_item_name), the path index of the model is re-keyed by the prefix rule
   (rekey src dest); the reference texts and the referrer lists are NOT yet touched (that is the loop which follows:
   a sequence of bulk re-targetings, Tree/RefsProofsSetName.v).  The world w1 so obtained satisfies TreeFacts, Inv04
   and Inv05.
   Proof: w1 = attach (erase w), where the virtual world wr = erase w lacks the subtree of mv (IndexProofsRemoveOp.v,
   Section Rem, with the nodes of the subtree gone) and the subtree is attached again below self
   (IndexProofsAttach.v, Section Subtree / SubtreeInv). *)
From Coq Require Import Lia PeanoNat.
From AV Require Import Base.Bytes Base.Outcome Hash.HashModel Tree.Heap Tree.Ops Tree.Script Tree.IndexProofsW
  Tree.Index Tree.IndexProofsBase Tree.IndexProofsAssoc Tree.IndexProofsFrame Tree.IndexProofsAttach
  Tree.IndexProofsTree Tree.IndexProofsNamed Tree.Refs Tree.RefsProofsBase Tree.RefsProofs Tree.IndexProofsRemove
  Tree.IndexProofsRemoveOp Tree.Follow Tree.FollowProofsPath.
Open Scope string_scope.
Open Scope list_scope.
Open Scope N_scope.

Lemma mem_id_in i l : mem_id i l = true <-> In i l.
Proof.
  unfold mem_id. rewrite existsb_exists. split.
  - intros (x & Hx & E). apply N.eqb_eq in E. subst. exact Hx.
  - intros H. exists i. split; [exact H|apply N.eqb_refl].
Qed.

Section Reloc.
Variable T : tables.
Variable check_fn : N -> list N -> res bool.
Hypothesis TK : TablesOK T check_fn.
Notation Inv04 := (Inv04 T check_fn).
Notation SHORTN := (name_short_name T).

Variables (w w1 : world) (mv sp self s : id) (mn pn n sn : node) (rest0 : list citem) (kpos pos : nat)
          (m : N) (xm : model) (cur nm src dpre : list N) (IDS : list (list N * id)) (ids : list id).
Hypothesis HF : TreeFacts w.
Hypothesis HI : Inv04 w.
Hypothesis HI5 : Inv05 T w.
Hypothesis Hmn : w_nodes w mv = Some mn.
Hypothesis Hpar : n_parent mn = PElem sp.
Hypothesis Hpn : w_nodes w sp = Some pn.
Hypothesis Hidx : index_of (citem_is mv) (n_content pn) = Some kpos.
Hypothesis Hn : w_nodes w self = Some n.
Hypothesis Hself_mv : self <> mv.
Hypothesis Hself_out : ~ reach T w mv self.
Hypothesis Hself_sp : self <> sp.
Hypothesis Hcmn : n_content mn = CElem s :: rest0.
Hypothesis Hnamed : named T (n_type mn) = true.
Hypothesis Hs : w_nodes w s = Some sn.
Hypothesis Hsn : n_name sn = SHORTN.
Hypothesis Hpos : (pos <= List.length (n_content n))%nat.
Hypothesis Hnm : ~ In 47 nm.
Hypothesis Hids_D : forall j, In j ids <-> reach T w mv j.
Let sn1 := set_content sn [CData (DString nm)].
Let pn1 := set_content pn (remove_at (n_content pn) kpos).
Let mn1 := set_parent mn (PElem self).
Let n1 := set_content n (insert_at (n_content n) pos (CElem mv)).
Hypothesis Hnodes : forall j, w_nodes w1 j =
  if j =? s then Some sn1 else if j =? mv then Some mn1 else if j =? sp then Some pn1 else if j =? self then Some n1 else w_nodes w j.
Hypothesis Hnext : w_next w1 = w_next w.
Hypothesis Hreach_self : MReach T w m self.
Hypothesis Hsrc : SpecPath T w m mv src.
Hypothesis Hdpre : SpecPath T w m self dpre.
Let dest := dpre ++ 47 :: nm.
Hypothesis Hx : model_at w m = Some xm.
Hypothesis Hmodels : w_models w1 = list_set (w_models w) (N.to_nat m) (set_idents xm IDS).
Hypothesis Hids_nd : NoDupKeys IDS.
Hypothesis Hids : forall k2 e, assoc_get k2 IDS = Some e <->
     (exists k, rekey src dest k = Some k2 /\ assoc_get k (m_idents xm) = Some e)
     \/ (rekey src dest k2 = None /\ assoc_get k2 (m_idents xm) = Some e).
(* K04-front on the source side and on the destination side; the moved element is not a SHORT-NAME element *)
Hypothesis Hfront_src : named T (n_type pn) = true -> kpos = O ->
  forall c2 rest c2n, n_content pn = CElem mv :: CElem c2 :: rest -> w_nodes w c2 = Some c2n -> n_name c2n <> SHORTN.
Hypothesis Hfront_dst : pos = O -> identifiable T w self = false.
Hypothesis Hmv_not_short : n_name mn <> SHORTN.
Hypothesis Hself_mode : content_mode T (n_type n) <> Val MCharacters.

Notation D := (reach T w mv).

(* ---------- the five nodes *)
Lemma rl_child_sp : child_of w sp mv.
Proof. exists pn. split; [exact Hpn|eapply index_of_citem; eauto]. Qed.
Lemma rl_child_s : child_of w mv s.
Proof. exists mn. rewrite Hcmn. split; [exact Hmn|left; reflexivity]. Qed.
Lemma rl_D_s : D s.
Proof. eapply reach_step; [apply reach_refl|apply rl_child_s]. Qed.
Lemma rl_sp_notD : ~ D sp.
Proof. intros (q & Hd). eapply (not_below_self T w sp mv q); eauto. apply rl_child_sp. Qed.
Lemma rl_s_mv : s <> mv.
Proof. intros E. eapply (not_below_self T w mv s []); eauto; [apply rl_child_s|rewrite E; constructor]. Qed.
Lemma rl_s_sp : s <> sp.
Proof. intros E. apply rl_sp_notD. rewrite <- E. apply rl_D_s. Qed.
Lemma rl_s_self : s <> self.
Proof. intros E. apply Hself_out. rewrite <- E. apply rl_D_s. Qed.
Lemma rl_mv_sp : mv <> sp.
Proof. intros E. apply rl_sp_notD. rewrite <- E. apply reach_refl. Qed.

Lemma rl_w1_s : w_nodes w1 s = Some sn1.
Proof. rewrite Hnodes, N.eqb_refl. reflexivity. Qed.
Lemma rl_w1_mv : w_nodes w1 mv = Some mn1.
Proof. rewrite Hnodes. pose proof rl_s_mv as H. apply not_eq_sym, N.eqb_neq in H. rewrite H, N.eqb_refl. reflexivity. Qed.
Lemma rl_w1_sp : w_nodes w1 sp = Some pn1.
Proof.
  rewrite Hnodes. pose proof rl_s_sp as H1. apply not_eq_sym, N.eqb_neq in H1. pose proof rl_mv_sp as H2. apply not_eq_sym, N.eqb_neq in H2.
  rewrite H1, H2, N.eqb_refl. reflexivity.
Qed.
Lemma rl_w1_self : w_nodes w1 self = Some n1.
Proof.
  rewrite Hnodes. pose proof rl_s_self as H1. apply not_eq_sym, N.eqb_neq in H1. apply N.eqb_neq in Hself_mv as H2. apply N.eqb_neq in Hself_sp as H3.
  rewrite H1, H2, H3, N.eqb_refl. reflexivity.
Qed.
Lemma rl_w1_other j : j <> s -> j <> mv -> j <> sp -> j <> self -> w_nodes w1 j = w_nodes w j.
Proof.
  intros H1 H2 H3 H4. rewrite Hnodes. apply N.eqb_neq in H1, H2, H3, H4. rewrite H1, H2, H3, H4. reflexivity.
Qed.

(* the SHORT-NAME element *)
Lemma rl_s_mode : content_mode T (n_type sn) = Val MCharacters.
Proof. destruct (i4_short _ _ _ HI _ _ Hs Hsn) as (H & _). exact H. Qed.
Lemma rl_s_leaf : elem_ids (n_content sn) = [].
Proof. apply chars_content_elems. eapply (i4_leaf _ _ _ HI); eauto. apply rl_s_mode. Qed.
Lemma rl_sn1_cd : cdata_of T sn1 = Some (DString nm).
Proof. unfold cdata_of, character_data, sn1. cbn. rewrite rl_s_mode. reflexivity. Qed.

(* a node of the subtree in the two worlds: same type, name, element children, and the same content unless it is s *)
Lemma rl_D_node j nj : D j -> w_nodes w j = Some nj ->
  exists nj', w_nodes w1 j = Some nj' /\ n_type nj' = n_type nj /\ n_name nj' = n_name nj /\
              elem_ids (n_content nj') = elem_ids (n_content nj) /\
              (j <> s -> n_content nj' = n_content nj) /\ (j <> mv -> n_parent nj' = n_parent nj).
Proof.
  intros Hd Hj. destruct (N.eq_dec j s) as [->|H1].
  - rewrite Hs in Hj. injection Hj as <-. exists sn1. split; [apply rl_w1_s|]. unfold sn1. cbn. rewrite rl_s_leaf. repeat split; auto. congruence.
  - destruct (N.eq_dec j mv) as [->|H2].
    + rewrite Hmn in Hj. injection Hj as <-. exists mn1. split; [apply rl_w1_mv|]. unfold mn1. cbn. repeat split; auto. congruence.
    + exists nj. split; [|repeat split; auto]. rewrite rl_w1_other; auto.
      * intros ->. apply rl_sp_notD. exact Hd.
      * intros ->. contradiction.
Qed.

Lemma rl_D_alloc j : D j -> exists nj, w_nodes w j = Some nj.
Proof.
  intros (q & Hd). destruct (dpath_alloc T _ _ _ _ Hd) as [->|(p & Hc)]; [eauto|].
  destruct (tf_up _ HF _ _ Hc) as (cn & Hcn & _). eauto.
Qed.

(* children inside the subtree *)
Lemma rl_D_child p c : D p -> (child_of w1 p c <-> child_of w p c).
Proof.
  intros Hp. destruct (rl_D_alloc p Hp) as (np & Hnp). destruct (rl_D_node p np Hp Hnp) as (np' & Hnp' & _ & _ & He & _).
  unfold child_of. rewrite Hnp, Hnp'. split; intros (x & [= <-] & Hin); eexists; (split; [reflexivity|]);
    apply in_elem_ids; apply in_elem_ids in Hin; congruence.
Qed.

(* ---------- readings inside the subtree *)
Lemma rl_D_same y : D y -> y <> s -> y <> mv -> w_nodes w1 y = w_nodes w y.
Proof.
  intros Hd H1 H2. apply rl_w1_other; auto; intros ->; [apply rl_sp_notD; exact Hd|contradiction].
Qed.

Lemma rl_mv_unique_parent p : child_of w p mv -> p = sp.
Proof. intros Hc. destruct (tf_up _ HF _ _ Hc) as (a & Ha & Hap). rewrite Hmn in Ha. injection Ha as <-. congruence. Qed.
Lemma rl_s_unique_parent p : child_of w p s -> p = mv.
Proof.
  intros Hc. destruct (tf_up _ HF _ _ Hc) as (a & Ha & Hap). destruct (tf_up _ HF _ _ rl_child_s) as (b & Hb & Hbp). congruence.
Qed.

Lemma rl_short_child_D j nj : D j -> j <> mv -> j <> s -> w_nodes w j = Some nj -> short_child T w1 nj = short_child T w nj.
Proof.
  intros Hd Hjm Hjs Hj. rewrite !short_child_hd. destruct (hd_error (n_content nj)) as [[y|d]|] eqn:Eh; try reflexivity.
  assert (Hy : child_of w j y).
  { exists nj. split; [exact Hj|]. destruct (n_content nj); cbn in Eh; [discriminate|]. injection Eh as ->. left. reflexivity. }
  rewrite rl_D_same; [reflexivity|eapply reach_step; eauto| |].
  - intros ->. apply Hjm. apply rl_s_unique_parent. exact Hy.
  - intros ->. apply rl_sp_notD. rewrite <- (rl_mv_unique_parent j Hy). exact Hd.
Qed.

Lemma rl_seg_D j : D j -> j <> mv -> seg T w1 j = seg T w j /\ identifiable T w1 j = identifiable T w j.
Proof.
  intros Hd Hjm. unfold seg, identifiable. destruct (N.eq_dec j s) as [->|Hjs].
  - rewrite rl_w1_s, Hs. unfold seg_n, item_name_n, identifiable_n, short_child, sn1. cbn.
    pose proof rl_s_leaf as Hl. destruct (n_content sn) as [|[y|d] r]; try discriminate; auto.
  - rewrite (rl_D_same j Hd Hjs Hjm). destruct (w_nodes w j) as [nj|] eqn:Ej; [|auto].
    destruct (readings_ext T w w1 nj nj eq_refl (rl_short_child_D j nj Hd Hjm Hjs Ej)) as (_ & H2 & H3). auto.
Qed.

Lemma rl_short_mv : short_child T w mn = Some sn /\ short_child T w1 mn1 = Some sn1.
Proof.
  unfold short_child, mn1. cbn [set_parent n_content]. rewrite Hcmn, Hs, rl_w1_s. unfold sn1. cbn [set_content n_name].
  rewrite Hsn, N.eqb_refl. auto.
Qed.
Lemma rl_seg_mv : seg T w1 mv = 47 :: nm /\ identifiable T w1 mv = true /\ identifiable T w mv = true.
Proof.
  destruct rl_short_mv as (H1 & H2). unfold seg, identifiable. rewrite rl_w1_mv, Hmn. unfold seg_n, item_name_n, identifiable_n.
  change (n_type mn1) with (n_type mn). rewrite Hnamed, H1, H2, rl_sn1_cd. auto.
Qed.

(* paths from mv downwards are the same in both worlds *)
Lemma rl_dpath_D j q : dpath T w1 mv j q <-> dpath T w mv j q.
Proof.
  split.
  - intros Hd. assert (H : dpath T w mv j q /\ D j); [|tauto].
    induction Hd as [|p c q Hp IH Hc]; [split; [constructor|apply reach_refl]|].
    destruct IH as (IH1 & IH2). apply (rl_D_child p c IH2) in Hc.
    assert (Hcd : D c) by (eapply reach_step; eauto).
    assert (Hcm : c <> mv) by (intros ->; apply rl_sp_notD; rewrite <- (rl_mv_unique_parent p Hc); exact IH2).
    destruct (rl_seg_D c Hcd Hcm) as (-> & _). split; [econstructor; eauto|exact Hcd].
  - intros Hd. assert (H : dpath T w1 mv j q /\ D j); [|tauto].
    induction Hd as [|p c q Hp IH Hc]; [split; [constructor|apply reach_refl]|].
    destruct IH as (IH1 & IH2).
    assert (Hcd : D c) by (eapply reach_step; eauto).
    assert (Hcm : c <> mv) by (intros ->; apply rl_sp_notD; rewrite <- (rl_mv_unique_parent p Hc); exact IH2).
    destruct (rl_seg_D c Hcd Hcm) as (<- & _). split; [econstructor; [exact IH1|apply (rl_D_child p c IH2); exact Hc]|exact Hcd].
Qed.
Lemma rl_reach_D j : reach T w1 mv j <-> D j.
Proof. split; intros (q & Hd); exists q; apply rl_dpath_D; exact Hd. Qed.

(* ---------- the virtual world without the subtree *)
Definition wr : world :=
  mkWorld (fun j => if mem_id j ids then None else if j =? sp then Some pn1 else w_nodes w j) (w_next w) (w_files w) (w_models w).

Lemma wr_in j : D j -> w_nodes wr j = None.
Proof. intros Hd. cbn. apply Hids_D, mem_id_in in Hd. rewrite Hd. reflexivity. Qed.
Lemma wr_notin j : ~ D j -> w_nodes wr j = if j =? sp then Some pn1 else w_nodes w j.
Proof.
  intros Hd. cbn. destruct (mem_id j ids) eqn:E; [|reflexivity]. apply mem_id_in, Hids_D in E. contradiction.
Qed.
Lemma wr_sp : w_nodes wr sp = Some (set_content pn (remove_at (n_content pn) kpos)).
Proof. rewrite (wr_notin sp rl_sp_notD), N.eqb_refl. reflexivity. Qed.
Lemma wr_out j : j <> sp -> ~ D j -> w_nodes wr j = w_nodes w j.
Proof. intros H1 H2. rewrite (wr_notin j H2). apply N.eqb_neq in H1. rewrite H1. reflexivity. Qed.
Lemma wr_gone j nj : D j -> w_nodes w j = Some nj -> w_nodes wr j = Some (wipe nj) \/ w_nodes wr j = None.
Proof. intros Hd _. right. apply wr_in. exact Hd. Qed.
Lemma wr_models : w_models wr = list_set (w_models w) (N.to_nat m) (apply_plan xm [] []).
Proof. cbn. rewrite apply_plan_nil. symmetry. apply list_set_same. exact Hx. Qed.
Lemma wr_short : named T (n_type pn) = true -> forall a, w_nodes w mv = Some a -> n_name a <> SHORTN.
Proof. intros _ a Ha. rewrite Hmn in Ha. injection Ha as <-. exact Hmv_not_short. Qed.
Lemma wr_next : w_next wr = w_next w.
Proof. reflexivity. Qed.

Lemma wr_tf : TreeFacts wr.
Proof.
  eapply removed_treefacts with (w := w) (h := sp) (sub := mv) (n := pn) (pos := kpos) (m := m) (x := xm) (K := []) (R := []);
    eauto using wr_sp, wr_out, wr_gone, wr_models, wr_short, wr_next.
Qed.
Lemma wr_side : ShortTyped T check_fn wr /\ SlashFree T wr /\ AllNamed T wr /\ CharsLeaf T wr.
Proof.
  eapply removed_side with (w := w) (h := sp) (sub := mv) (n := pn) (pos := kpos); eauto using wr_sp, wr_out, wr_gone, wr_short.
Qed.
Lemma wr_pathset m2 p j : PathSet T wr m2 p j <-> PathSet T w m2 p j /\ ~ D j.
Proof.
  eapply rem_pathset with (h := sp) (n := pn) (pos := kpos) (m := m) (x := xm) (K := []) (R := []);
    eauto using wr_sp, wr_out, wr_gone, wr_models, wr_short.
Qed.
Lemma wr_refset m2 p r : RefSet T wr m2 p r <-> RefSet T w m2 p r /\ ~ D r.
Proof.
  eapply rem_refset with (h := sp) (n := pn) (pos := kpos) (m := m) (x := xm) (K := []) (R := []);
    eauto using wr_sp, wr_out, wr_gone, wr_models, wr_short.
Qed.
Lemma wr_specpath m2 j p : ~ D j -> (SpecPath T wr m2 j p <-> SpecPath T w m2 j p).
Proof.
  eapply rem_specpath with (h := sp) (n := pn) (pos := kpos) (m := m) (x := xm) (K := []) (R := []);
    eauto using wr_sp, wr_out, wr_gone, wr_models, wr_short.
Qed.
Lemma wr_identifiable j : ~ D j -> identifiable T wr j = identifiable T w j.
Proof.
  eapply rem_identifiable with (h := sp) (n := pn) (pos := kpos); eauto using wr_sp, wr_out, wr_gone, wr_short.
Qed.
Lemma rl_D_model m2 j : D j -> MReach T w m2 j -> m2 = m.
Proof.
  eapply D_model with (h := sp) (n := pn) (pos := kpos); eauto.
  destruct Hsrc as (y & Hy & (q & Hd & _)). exists y. split; [exact Hy|].
  destruct (dpath_last T _ _ _ _ Hd) as [E|(p & Hc & Hr)].
  - exfalso. destruct (tf_roots _ HF _ _ Hy) as (nr & Hnr & Hpr). rewrite <- E in Hnr. congruence.
  - rewrite <- (rl_mv_unique_parent p Hc). exact Hr.
Qed.

(* ---------- old and new with respect to wr *)
Lemma wr_old_iff j : old wr j <-> (exists nj, w_nodes w j = Some nj) /\ ~ D j.
Proof.
  unfold old. split.
  - intros (nj & Hj). destruct (below_dec T w mv HF j) as [Hd|Hd]; [rewrite (wr_in j Hd) in Hj; discriminate|].
    split; [|exact Hd]. destruct (N.eq_dec j sp) as [->|Hne]; [eauto|]. rewrite (wr_out j Hne Hd) in Hj. eauto.
  - intros ((nj & Hj) & Hd). destruct (N.eq_dec j sp) as [->|Hne]; [rewrite wr_sp; eauto|]. rewrite (wr_out j Hne Hd). eauto.
Qed.
Lemma wr_new_alloc j nj' : ~ old wr j -> w_nodes w1 j = Some nj' -> D j.
Proof.
  intros Hno Hj. destruct (below_dec T w mv HF j) as [Hd|Hd]; [exact Hd|]. exfalso. apply Hno. apply wr_old_iff. split; [|exact Hd].
  destruct (N.eq_dec j sp) as [->|H3]; [eauto|]. destruct (N.eq_dec j self) as [->|H4]; [eauto|].
  rewrite rl_w1_other in Hj; eauto; intros ->; apply Hd; [apply rl_D_s|apply reach_refl].
Qed.

Lemma wr_self : w_nodes wr self = Some n.
Proof. rewrite (wr_out self Hself_sp Hself_out). exact Hn. Qed.

Lemma A_old j nj : w_nodes wr j = Some nj -> j <> self -> w_nodes w1 j = Some nj.
Proof.
  intros Hj Hne. destruct (below_dec T w mv HF j) as [Hd|Hd]; [rewrite (wr_in j Hd) in Hj; discriminate|].
  destruct (N.eq_dec j sp) as [->|H3]; [rewrite wr_sp in Hj; rewrite rl_w1_sp; exact Hj|].
  rewrite (wr_out j H3 Hd) in Hj. rewrite rl_w1_other; auto; intros ->; apply Hd; [apply rl_D_s|apply reach_refl].
Qed.
Lemma A_newkids p y : child_of w1 p y -> w_nodes wr p = None -> w_nodes wr y = None.
Proof.
  intros Hc Hp. destruct (below_dec T w mv HF p) as [Hd|Hd].
  - apply wr_in. eapply reach_step; [exact Hd|]. apply (rl_D_child p y Hd). exact Hc.
  - exfalso. destruct Hc as (np' & Hp' & _).
    destruct (N.eq_dec p sp) as [->|H3]; [rewrite wr_sp in Hp; discriminate|]. rewrite (wr_out p H3 Hd) in Hp.
    destruct (N.eq_dec p self) as [->|H4]; [congruence|].
    rewrite rl_w1_other in Hp'; [congruence| | |exact H3|exact H4]; intros ->; apply Hd; [apply rl_D_s|apply reach_refl].
Qed.
Lemma A_nshort : n_name n <> SHORTN.
Proof. intros E. destruct (i4_short _ _ _ HI _ _ Hn E) as (Hm & _). contradiction. Qed.
Lemma A_front : pos = O -> identifiable_n T wr n = false /\
  (named T (n_type n) = true -> forall cn, w_nodes w1 mv = Some cn -> n_name cn <> SHORTN).
Proof.
  intros Hp. split.
  - pose proof (wr_identifiable self Hself_out) as H. unfold identifiable in H. rewrite wr_self, Hn in H. rewrite H.
    pose proof (Hfront_dst Hp) as H0. unfold identifiable in H0. rewrite Hn in H0. exact H0.
  - intros _ cn Hcn. rewrite rl_w1_mv in Hcn. injection Hcn as <-. exact Hmv_not_short.
Qed.
Lemma A_roots m2 : option_map m_root (model_at w1 m2) = option_map m_root (model_at wr m2).
Proof.
  unfold model_at at 2. cbn [wr w_models]. fold (model_at w m2). destruct (N.eq_dec m2 m) as [->|Hne].
  - rewrite (model_at_set_same _ _ _ _ Hmodels _ Hx), Hx. reflexivity.
  - rewrite (model_at_set_other _ _ _ _ _ Hmodels Hne). reflexivity.
Qed.

(* ---------- the three invariants *)
Theorem reloc_treefacts : TreeFacts w1.
Proof.
  eapply attach_treefacts with (w := wr) (self := self) (c := mv) (n := n) (k := pos).
  - exact wr_tf.
  - exact wr_self.
  - exact A_old.
  - exact rl_w1_self.
  - apply wr_in. apply reach_refl.
  - exact A_newkids.
  - exact Hpos.
  - exact A_nshort.
  - exact A_front.
  - exact A_roots.
  - rewrite Hnext. cbn. lia.
  - exists mn1. split; [exact rl_w1_mv|reflexivity].
  - intros j nj' Hno Hj. pose proof (wr_new_alloc j nj' Hno Hj) as Hd. destruct (rl_D_alloc j Hd) as (nj & Hnj).
    destruct (rl_D_node j nj Hd Hnj) as (nj2 & Hj2 & _ & _ & He & _ & Hpj). rewrite Hj in Hj2. injection Hj2 as <-.
    split; [rewrite He; eapply tf_nodup; eauto|]. split; [rewrite Hnext; eapply tf_alloc; eauto|]. split; [apply rl_reach_D; exact Hd|].
    intros y Hy. assert (Hc : child_of w j y).
    { apply (rl_D_child j y Hd). exists nj'. auto. }
    destruct (tf_up _ HF _ _ Hc) as (yn & Hyn & Hyp). assert (Hyd : D y) by (eapply reach_step; eauto).
    destruct (rl_D_node y yn Hyd Hyn) as (yn' & Hyn' & _ & _ & _ & _ & Hpy). exists yn'. split; [exact Hyn'|].
    rewrite Hpy; [exact Hyp|]. intros ->. apply rl_sp_notD. rewrite <- (rl_mv_unique_parent j Hc). exact Hd.
Qed.

Lemma rl_src_ne : src <> [].
Proof.
  destruct Hsrc as (y & Hy & (q & Hd & ->)). intros E. apply app_eq_nil in E as (_ & E).
  inversion Hd as [E1|p c q' Hp Hc E1 E2].
  - destruct (tf_roots _ HF _ _ Hy) as (nr & Hnr & Hpr). rewrite E1 in Hnr. congruence.
  - rewrite <- E2 in E. apply app_eq_nil in E as (_ & E). unfold seg in E. rewrite Hmn in E. unfold seg_n in E.
    destruct (item_name_n T w mn) as [a|] eqn:Ea; [discriminate|].
    destruct rl_seg_mv as (_ & _ & Hid). unfold identifiable in Hid. rewrite Hmn in Hid. exact (i4_named _ _ _ HI mv mn Hmn Hid Ea).
Qed.
Lemma rl_mv_key : assoc_get src (m_idents xm) = Some mv.
Proof.
  apply (i4_exact _ _ _ HI m xm Hx). split; [eapply specpath_mreach; eauto|]. split; [apply rl_seg_mv|exact Hsrc].
Qed.
Lemma rl_old_form_D k j : old_form src k -> assoc_get k (m_idents xm) = Some j -> D j.
Proof.
  intros Hof Hk. eapply (old_form_below T w m xm mv src k j); eauto.
  - apply slashfree_names. apply (i4_slash _ _ _ HI).
  - exact (i4_exact _ _ _ HI m).
  - apply rl_src_ne.
  - apply rl_mv_key.
Qed.
(* the path of an element of the subtree *)
Lemma rl_D_path j p : D j -> SpecPath T w m j p -> exists q, dpath T w mv j q /\ p = src ++ q /\ boundary q = true.
Proof.
  intros (q & Hd) Hp. exists q. split; [exact Hd|].
  destruct Hsrc as (y & Hy & (q0 & Hd0 & E)).
  assert (Hp2 : SpecPath T w m j (src ++ q)).
  { exists y. split; [exact Hy|]. exists (q0 ++ q). split; [eapply dpath_trans; eauto|]. rewrite E, app_assoc. reflexivity. }
  destruct (specpath_fun T _ _ _ _ _ _ HF Hp Hp2) as (_ & ->). split; [reflexivity|]. eapply dpath_boundary; eauto.
Qed.

Theorem reloc_inv04 : Inv04 w1.
Proof.
  destruct wr_side as (S1 & S2 & S3 & S4). pose proof HI as [I1 I2 I3 IL I4 I5].
  eapply attach_inv04 with (w := wr) (self := self) (c := mv) (n := n) (k := pos) (mm := m) (ps := dpre).
  - exact wr_tf.
  - exact wr_self.
  - exact A_old.
  - exact rl_w1_self.
  - apply wr_in. apply reach_refl.
  - exact A_newkids.
  - exact Hpos.
  - exact A_nshort.
  - exact A_front.
  - exact A_roots.
  - apply wr_specpath; assumption.
  - exact S1.
  - exact S2.
  - exact S3.
  - exact S4.
  - exact Hself_mode.
  - (* side invariants of the nodes of the subtree *)
    intros j nj' Hno Hj. pose proof (wr_new_alloc j nj' Hno Hj) as Hd. destruct (rl_D_alloc j Hd) as (nj & Hnj).
    destruct (rl_D_node j nj Hd Hnj) as (nj2 & Hj2 & Hty & Hname & _ & Hcont & _). rewrite Hj in Hj2. injection Hj2 as <-.
    split; [intros E; rewrite Hty; eapply I1; eauto; congruence|]. split; [|split].
    + intros t E Hcd. destruct (N.eq_dec j s) as [->|Hjs].
      * rewrite rl_w1_s in Hj. injection Hj as <-. rewrite rl_sn1_cd in Hcd. injection Hcd as <-. exact Hnm.
      * eapply (I2 j nj); eauto; [congruence|]. rewrite <- Hcd. symmetry. apply cdata_of_ext; auto.
    + intros Hid. destruct (N.eq_dec j mv) as [->|Hjm].
      * rewrite rl_w1_mv in Hj. injection Hj as <-. destruct rl_short_mv as (_ & H2). unfold item_name_n.
        change (n_type mn1) with (n_type mn). rewrite Hnamed, H2, rl_sn1_cd. discriminate.
      * destruct (N.eq_dec j s) as [->|Hjs].
        -- rewrite rl_w1_s in Hj. injection Hj as <-. unfold identifiable_n, short_child, sn1 in Hid. cbn in Hid.
           rewrite andb_false_r in Hid. discriminate.
        -- rewrite (rl_D_same j Hd Hjs Hjm) in Hj. rewrite Hnj in Hj. injection Hj as <-.
           destruct (readings_ext T w w1 nj nj eq_refl (rl_short_child_D j nj Hd Hjm Hjs Hnj)) as (H1 & H2 & _).
           rewrite H1. apply (I3 j nj Hnj). rewrite <- H2. exact Hid.
    + intros Hm. destruct (N.eq_dec j s) as [->|Hjs].
      * rewrite rl_w1_s in Hj. injection Hj as <-. right. eexists. reflexivity.
      * rewrite (Hcont Hjs). eapply IL; eauto. congruence.
  - (* the entries of the old elements *)
    intros m2 x2' Hx2' p i Hio. rewrite wr_pathset. apply wr_old_iff in Hio as (_ & Hnd).
    destruct (N.eq_dec m2 m) as [->|Hne].
    + rewrite (model_at_set_same _ _ _ _ Hmodels _ Hx) in Hx2'. injection Hx2' as <-. cbn [set_idents m_idents]. rewrite Hids. split.
      * intros [(k & Hr & Hk)|(Hr & Hk)].
        -- exfalso. apply Hnd. apply rekey_some in Hr as (suf & -> & Hb & _). eapply rl_old_form_D; [exists suf; auto|exact Hk].
        -- split; [apply (I4 m xm Hx); exact Hk|exact Hnd].
      * intros (HP & _). right. apply (I4 m xm Hx) in HP. split; [|exact HP].
        destruct (rekey src dest p) as [k'|] eqn:Er; [|reflexivity]. exfalso. apply Hnd.
        apply rekey_some in Er as (suf & -> & Hb & _). eapply rl_old_form_D; [exists suf; auto|exact HP].
    + rewrite (model_at_set_other _ _ _ _ _ Hmodels Hne) in Hx2'. rewrite (I4 m2 x2' Hx2' p i). tauto.
  - (* the entries of the elements of the subtree *)
    intros m2 x2' Hx2' p i Hno. destruct (N.eq_dec m2 m) as [->|Hne].
    + rewrite (model_at_set_same _ _ _ _ Hmodels _ Hx) in Hx2'. injection Hx2' as <-. cbn [set_idents m_idents]. rewrite Hids.
      destruct rl_seg_mv as (Hsg & _ & _). rewrite Hsg. split.
      * intros [(k & Hr & Hk)|(Hr & Hk)].
        -- apply rekey_some in Hr as (suf & -> & Hb & ->).
           pose proof (rl_old_form_D _ i (ex_intro _ suf (conj eq_refl Hb)) Hk) as Hd.
           apply (I4 m xm Hx) in Hk as (P1 & P2 & P3). destruct (rl_D_path i _ Hd P3) as (q & Hdq & E & _).
           apply app_inv_head in E. subst suf. split; [reflexivity|]. exists q. split; [apply rl_dpath_D; exact Hdq|]. split.
           ++ destruct (N.eq_dec i mv) as [->|Him]; [apply rl_seg_mv|]. destruct (rl_seg_D i Hd Him) as (_ & ->). exact P2.
           ++ unfold dest. rewrite <- app_assoc. reflexivity.
        -- exfalso. apply (I4 m xm Hx) in Hk as (P1 & P2 & P3).
           assert (Hd : D i).
           { destruct (below_dec T w mv HF i) as [Hd|Hd]; [exact Hd|]. exfalso. apply Hno. apply wr_old_iff. split; [|exact Hd].
             eapply mreach_alloc; eauto. }
           destruct (rl_D_path i _ Hd P3) as (q & _ & -> & Hb).
           assert (rekey src dest (src ++ q) = Some (dest ++ q)) by (apply rekey_some; exists q; auto). congruence.
      * intros (_ & q & Hdq & Hid & ->). apply rl_dpath_D in Hdq. left. exists (src ++ q).
        assert (Hd : D i) by (exists q; exact Hdq).
        assert (Hb : boundary q = true) by (eapply dpath_boundary; eauto).
        split; [apply rekey_some; exists q; split; [reflexivity|]; split; [exact Hb|]; unfold dest; rewrite <- app_assoc; reflexivity|].
        apply (I4 m xm Hx). destruct Hsrc as (y & Hy & (q0 & Hd0 & E)).
        assert (Hsp : SpecPath T w m i (src ++ q)).
        { exists y. split; [exact Hy|]. exists (q0 ++ q). split; [eapply dpath_trans; eauto|]. rewrite E, app_assoc. reflexivity. }
        split; [eapply specpath_mreach; eauto|]. split; [|exact Hsp].
        destruct (N.eq_dec i mv) as [->|Him]; [apply rl_seg_mv|]. destruct (rl_seg_D i Hd Him) as (_ & <-). exact Hid.
    + rewrite (model_at_set_other _ _ _ _ _ Hmodels Hne) in Hx2'. rewrite (I4 m2 x2' Hx2' p i). split.
      * intros (P1 & _). exfalso. apply Hne.
        assert (Hd : D i).
        { destruct (below_dec T w mv HF i) as [Hd|Hd]; [exact Hd|]. exfalso. apply Hno. apply wr_old_iff. split; [|exact Hd].
          eapply mreach_alloc; eauto. }
        eapply rl_D_model; eauto.
      * intros (E & _). contradiction.
  - intros m2 x2' Hx2'. destruct (N.eq_dec m2 m) as [->|Hne].
    + rewrite (model_at_set_same _ _ _ _ Hmodels _ Hx) in Hx2'. injection Hx2' as <-. exact Hids_nd.
    + rewrite (model_at_set_other _ _ _ _ _ Hmodels Hne) in Hx2'. apply (I5 m2 x2' Hx2').
Qed.

(* reference texts: untouched *)
Lemma rl_ref_text_D r : D r -> ref_text T w1 r = ref_text T w r.
Proof.
  intros Hd. unfold ref_text. destruct (rl_D_alloc r Hd) as (nr & Hnr).
  destruct (rl_D_node r nr Hd Hnr) as (nr' & Hnr' & Hty & _ & _ & Hc & _). rewrite Hnr, Hnr', Hty.
  destruct (N.eq_dec r s) as [->|Hrs].
  - rewrite Hs in Hnr. injection Hnr as <-. destruct (i4_short _ _ _ HI _ _ Hs Hsn) as (_ & Hr & _).
    unfold isref. rewrite Hr. reflexivity.
  - rewrite (cdata_of_ext T nr nr' Hty (Hc Hrs)). reflexivity.
Qed.

Lemma rl_self_noref : isref T (n_type n) = false.
Proof.
  unfold isref. destruct (is_ref T (n_type n)) as [[|]| |] eqn:E; try reflexivity.
  exfalso. apply Hself_mode. apply (tk_ref _ _ TK _ E).
Qed.

Lemma rl_origins m2 x2' : model_at w1 m2 = Some x2' -> exists x2, model_at w m2 = Some x2 /\ m_origins x2' = m_origins x2.
Proof.
  intros Hx2'. destruct (N.eq_dec m2 m) as [->|Hne].
  - rewrite (model_at_set_same _ _ _ _ Hmodels _ Hx) in Hx2'. injection Hx2' as <-. exists xm. auto.
  - rewrite (model_at_set_other _ _ _ _ _ Hmodels Hne) in Hx2'. eauto.
Qed.

Theorem reloc_inv05 : Inv05 T w1.
Proof.
  pose proof HI5 as [IE IT].
  eapply attach_inv05 with (w := wr) (self := self) (c := mv) (n := n) (k := pos) (mm := m) (ps := dpre).
  - exact wr_tf.
  - exact wr_self.
  - exact A_old.
  - exact rl_w1_self.
  - apply wr_in. apply reach_refl.
  - exact A_newkids.
  - exact Hpos.
  - exact A_nshort.
  - exact A_front.
  - exact A_roots.
  - apply wr_specpath; assumption.
  - exact rl_self_noref.
  - intros m2 x2' Hx2' p r Hro. destruct (rl_origins m2 x2' Hx2') as (x2 & Hx2 & Ho). unfold origins_of. rewrite Ho.
    rewrite wr_refset. apply wr_old_iff in Hro as (_ & Hnd). destruct (IE m2 x2 Hx2 p) as (_ & H). unfold origins_of in H. rewrite H. tauto.
  - intros m2 x2' Hx2' p r Hno. destruct (rl_origins m2 x2' Hx2') as (x2 & Hx2 & Ho). unfold origins_of. rewrite Ho.
    destruct (IE m2 x2 Hx2 p) as (_ & H). unfold origins_of in H. rewrite H. unfold RefSet. split.
    + intros (Hm & Ht).
      assert (Hd : D r).
      { destruct (below_dec T w mv HF r) as [Hd|Hd]; [exact Hd|]. exfalso. apply Hno. apply wr_old_iff. split; [|exact Hd].
        eapply mreach_alloc; eauto. }
      split; [eapply rl_D_model; eauto|]. split; [apply rl_reach_D; exact Hd|]. rewrite (rl_ref_text_D r Hd). exact Ht.
    + intros (-> & Hr & Ht). apply rl_reach_D in Hr. rewrite (rl_ref_text_D r Hr) in Ht. split; [|exact Ht].
      destruct Hsrc as (y & Hy & (q0 & Hd0 & _)). exists y. split; [exact Hy|]. eapply reach_trans; [exists q0; exact Hd0|exact Hr].
  - intros m2 x2' p Hx2'. destruct (rl_origins m2 x2' Hx2') as (x2 & Hx2 & Ho). unfold origins_of. rewrite Ho. apply (IE m2 x2 Hx2 p).
  - intros m2 x2' Hx2'. destruct (rl_origins m2 x2' Hx2') as (x2 & Hx2 & Ho). rewrite Ho. apply (IT m2 x2 Hx2).
Qed.

Theorem reloc_j5 : TreeFacts w1 /\ Inv04 w1 /\ Inv05 T w1.
Proof. exact (conj reloc_treefacts (conj reloc_inv04 reloc_inv05)). Qed.

End Reloc.

(* ====================================================================== the moved element is NOT identifiable (a container)
   No renaming; the entries of the identifiable elements it holds change their prefix from src (the path of the old
   parent) to dpre (the path of the new parent).  The index after the per-path re-keying is described in terms of the
   moved subtree D. *)
Section RelocC.
Variable T : tables.
Variable check_fn : N -> list N -> res bool.
Hypothesis TK : TablesOK T check_fn.
Notation Inv04 := (Inv04 T check_fn).
Notation SHORTN := (name_short_name T).

Variables (w w1 : world) (mv sp self : id) (mn pn n : node) (kpos pos : nat)
          (m : N) (xm : model) (src dpre : list N) (IDS : list (list N * id)) (ids : list id).
Hypothesis HF : TreeFacts w.
Hypothesis HI : Inv04 w.
Hypothesis HI5 : Inv05 T w.
Hypothesis Hmn : w_nodes w mv = Some mn.
Hypothesis Hpar : n_parent mn = PElem sp.
Hypothesis Hpn : w_nodes w sp = Some pn.
Hypothesis Hidx : index_of (citem_is mv) (n_content pn) = Some kpos.
Hypothesis Hn : w_nodes w self = Some n.
Hypothesis Hself_mv : self <> mv.
Hypothesis Hself_out : ~ reach T w mv self.
Hypothesis Hself_sp : self <> sp.
Hypothesis Hnid : identifiable T w mv = false.
Hypothesis Hpos : (pos <= List.length (n_content n))%nat.
Hypothesis Hids_D : forall j, In j ids <-> reach T w mv j.
Let pn1 := set_content pn (remove_at (n_content pn) kpos).
Let mn1 := set_parent mn (PElem self).
Let n1 := set_content n (insert_at (n_content n) pos (CElem mv)).
Hypothesis Hnodes : forall j, w_nodes w1 j =
  if j =? mv then Some mn1 else if j =? sp then Some pn1 else if j =? self then Some n1 else w_nodes w j.
Hypothesis Hnext : w_next w1 = w_next w.
Hypothesis Hsrc : SpecPath T w m mv src.
Hypothesis Hdpre : SpecPath T w m self dpre.
Hypothesis Hx : model_at w m = Some xm.
Hypothesis Hmodels : w_models w1 = list_set (w_models w) (N.to_nat m) (set_idents xm IDS).
Hypothesis Hids_nd : NoDupKeys IDS.
Hypothesis Hids : forall k2 e, assoc_get k2 IDS = Some e <->
     (reach T w mv e /\ exists q, assoc_get (src ++ q) (m_idents xm) = Some e /\ k2 = dpre ++ q)
     \/ (~ reach T w mv e /\ assoc_get k2 (m_idents xm) = Some e).
Hypothesis Hfront_src : named T (n_type pn) = true -> kpos = O ->
  forall c2 rest c2n, n_content pn = CElem mv :: CElem c2 :: rest -> w_nodes w c2 = Some c2n -> n_name c2n <> SHORTN.
Hypothesis Hfront_dst : pos = O -> identifiable T w self = false.
Hypothesis Hmv_not_short : n_name mn <> SHORTN.
Hypothesis Hself_mode : content_mode T (n_type n) <> Val MCharacters.

Notation D := (reach T w mv).

Lemma rc_child_sp : child_of w sp mv.
Proof. exists pn. split; [exact Hpn|eapply index_of_citem; eauto]. Qed.
Lemma rc_sp_notD : ~ D sp.
Proof. intros (q & Hd). eapply (not_below_self T w sp mv q); eauto. apply rc_child_sp. Qed.
Lemma rc_mv_sp : mv <> sp.
Proof. intros E. apply rc_sp_notD. rewrite <- E. apply reach_refl. Qed.

Lemma rc_w1_mv : w_nodes w1 mv = Some mn1.
Proof. rewrite Hnodes, N.eqb_refl. reflexivity. Qed.
Lemma rc_w1_sp : w_nodes w1 sp = Some pn1.
Proof. rewrite Hnodes. pose proof rc_mv_sp as H2. apply not_eq_sym, N.eqb_neq in H2. rewrite H2, N.eqb_refl. reflexivity. Qed.
Lemma rc_w1_self : w_nodes w1 self = Some n1.
Proof. rewrite Hnodes. apply N.eqb_neq in Hself_mv as H2. apply N.eqb_neq in Hself_sp as H3. rewrite H2, H3, N.eqb_refl. reflexivity. Qed.
Lemma rc_w1_other j : j <> mv -> j <> sp -> j <> self -> w_nodes w1 j = w_nodes w j.
Proof. intros H2 H3 H4. rewrite Hnodes. apply N.eqb_neq in H2, H3, H4. rewrite H2, H3, H4. reflexivity. Qed.

Lemma rc_D_same y : D y -> y <> mv -> w_nodes w1 y = w_nodes w y.
Proof. intros Hd H2. apply rc_w1_other; auto; intros ->; [apply rc_sp_notD; exact Hd|contradiction]. Qed.
Lemma rc_D_alloc j : D j -> exists nj, w_nodes w j = Some nj.
Proof.
  intros (q & Hd). destruct (dpath_alloc T _ _ _ _ Hd) as [->|(p & Hc)]; [eauto|].
  destruct (tf_up _ HF _ _ Hc) as (cn & Hcn & _). eauto.
Qed.
Lemma rc_D_node j nj : D j -> w_nodes w j = Some nj ->
  exists nj', w_nodes w1 j = Some nj' /\ n_type nj' = n_type nj /\ n_name nj' = n_name nj /\ n_content nj' = n_content nj /\
              (j <> mv -> nj' = nj).
Proof.
  intros Hd Hj. destruct (N.eq_dec j mv) as [->|H2].
  - rewrite Hmn in Hj. injection Hj as <-. exists mn1. split; [apply rc_w1_mv|]. unfold mn1. cbn. repeat split; auto. congruence.
  - exists nj. rewrite (rc_D_same j Hd H2). auto.
Qed.
Lemma rc_D_child p c : D p -> (child_of w1 p c <-> child_of w p c).
Proof.
  intros Hp. destruct (rc_D_alloc p Hp) as (np & Hnp). destruct (rc_D_node p np Hp Hnp) as (np' & Hnp' & _ & _ & He & _).
  unfold child_of. rewrite Hnp, Hnp'. split; intros (x & [= <-] & Hin); eexists; (split; [reflexivity|]); congruence.
Qed.
Lemma rc_mv_unique_parent p : child_of w p mv -> p = sp.
Proof. intros Hc. destruct (tf_up _ HF _ _ Hc) as (a & Ha & Hap). rewrite Hmn in Ha. injection Ha as <-. congruence. Qed.

Lemma rc_short_child_D j nj nj' : D j -> w_nodes w j = Some nj -> w_nodes w1 j = Some nj' -> short_child T w1 nj' = short_child T w nj.
Proof.
  intros Hd Hj Hj'. destruct (rc_D_node j nj Hd Hj) as (nj2 & Hj2 & _ & _ & Hc & _). rewrite Hj' in Hj2. injection Hj2 as <-.
  rewrite !short_child_hd, Hc. destruct (hd_error (n_content nj)) as [[y|d]|] eqn:Eh; try reflexivity.
  assert (Hy : child_of w j y).
  { exists nj. split; [exact Hj|]. destruct (n_content nj); cbn in Eh; [discriminate|]. injection Eh as ->. left. reflexivity. }
  rewrite rc_D_same; [reflexivity|eapply reach_step; eauto|].
  intros ->. apply rc_sp_notD. rewrite <- (rc_mv_unique_parent j Hy). exact Hd.
Qed.
Lemma rc_seg_D j : D j -> seg T w1 j = seg T w j /\ identifiable T w1 j = identifiable T w j.
Proof.
  intros Hd. unfold seg, identifiable. destruct (rc_D_alloc j Hd) as (nj & Hj). destruct (rc_D_node j nj Hd Hj) as (nj' & Hj' & Hty & _).
  rewrite Hj, Hj'. destruct (readings_ext T w w1 nj nj' Hty (rc_short_child_D j nj nj' Hd Hj Hj')) as (_ & H2 & H3). auto.
Qed.
Lemma rc_seg_mv : seg T w mv = [] /\ seg T w1 mv = [].
Proof.
  assert (H0 : seg T w mv = []).
  { unfold seg. rewrite Hmn. unfold seg_n. destruct (item_name_n T w mn) as [a|] eqn:Ea; [|reflexivity].
    apply item_name_identifiable in Ea. unfold identifiable in Hnid. rewrite Hmn in Hnid. congruence. }
  destruct (rc_seg_D mv (reach_refl T w mv)) as (E & _). rewrite E. auto.
Qed.

Lemma rc_dpath_D j q : dpath T w1 mv j q <-> dpath T w mv j q.
Proof.
  split.
  - intros Hd. assert (H : dpath T w mv j q /\ D j); [|tauto].
    induction Hd as [|p c q Hp IH Hc]; [split; [constructor|apply reach_refl]|].
    destruct IH as (IH1 & IH2). apply (rc_D_child p c IH2) in Hc.
    assert (Hcd : D c) by (eapply reach_step; eauto).
    destruct (rc_seg_D c Hcd) as (-> & _). split; [econstructor; eauto|exact Hcd].
  - intros Hd. assert (H : dpath T w1 mv j q /\ D j); [|tauto].
    induction Hd as [|p c q Hp IH Hc]; [split; [constructor|apply reach_refl]|].
    destruct IH as (IH1 & IH2).
    assert (Hcd : D c) by (eapply reach_step; eauto).
    destruct (rc_seg_D c Hcd) as (<- & _). split; [econstructor; [exact IH1|apply (rc_D_child p c IH2); exact Hc]|exact Hcd].
Qed.
Lemma rc_reach_D j : reach T w1 mv j <-> D j.
Proof. split; intros (q & Hd); exists q; apply rc_dpath_D; exact Hd. Qed.

(* ---------- the virtual world without the subtree *)
Definition wrc : world :=
  mkWorld (fun j => if mem_id j ids then None else if j =? sp then Some pn1 else w_nodes w j) (w_next w) (w_files w) (w_models w).

Lemma wrc_in j : D j -> w_nodes wrc j = None.
Proof. intros Hd. cbn. apply Hids_D, mem_id_in in Hd. rewrite Hd. reflexivity. Qed.
Lemma wrc_notin j : ~ D j -> w_nodes wrc j = if j =? sp then Some pn1 else w_nodes w j.
Proof. intros Hd. cbn. destruct (mem_id j ids) eqn:E; [|reflexivity]. apply mem_id_in, Hids_D in E. contradiction. Qed.
Lemma wrc_sp : w_nodes wrc sp = Some (set_content pn (remove_at (n_content pn) kpos)).
Proof. rewrite (wrc_notin sp rc_sp_notD), N.eqb_refl. reflexivity. Qed.
Lemma wrc_out j : j <> sp -> ~ D j -> w_nodes wrc j = w_nodes w j.
Proof. intros H1 H2. rewrite (wrc_notin j H2). apply N.eqb_neq in H1. rewrite H1. reflexivity. Qed.
Lemma wrc_gone j nj : D j -> w_nodes w j = Some nj -> w_nodes wrc j = Some (wipe nj) \/ w_nodes wrc j = None.
Proof. intros Hd _. right. apply wrc_in. exact Hd. Qed.
Lemma wrc_models : w_models wrc = list_set (w_models w) (N.to_nat m) (apply_plan xm [] []).
Proof. cbn. rewrite apply_plan_nil. symmetry. apply list_set_same. exact Hx. Qed.
Lemma wrc_short : named T (n_type pn) = true -> forall a, w_nodes w mv = Some a -> n_name a <> SHORTN.
Proof. intros _ a Ha. rewrite Hmn in Ha. injection Ha as <-. exact Hmv_not_short. Qed.
Lemma wrc_next : w_next wrc = w_next w.
Proof. reflexivity. Qed.

Lemma wrc_tf : TreeFacts wrc.
Proof.
  eapply removed_treefacts with (w := w) (h := sp) (sub := mv) (n := pn) (pos := kpos) (m := m) (x := xm) (K := []) (R := []);
    eauto using wrc_sp, wrc_out, wrc_gone, wrc_models, wrc_short, wrc_next.
Qed.
Lemma wrc_side : ShortTyped T check_fn wrc /\ SlashFree T wrc /\ AllNamed T wrc /\ CharsLeaf T wrc.
Proof.
  eapply removed_side with (w := w) (h := sp) (sub := mv) (n := pn) (pos := kpos); eauto using wrc_sp, wrc_out, wrc_gone, wrc_short.
Qed.
Lemma wrc_pathset m2 p j : PathSet T wrc m2 p j <-> PathSet T w m2 p j /\ ~ D j.
Proof.
  eapply rem_pathset with (h := sp) (n := pn) (pos := kpos) (m := m) (x := xm) (K := []) (R := []);
    eauto using wrc_sp, wrc_out, wrc_gone, wrc_models, wrc_short.
Qed.
Lemma wrc_refset m2 p r : RefSet T wrc m2 p r <-> RefSet T w m2 p r /\ ~ D r.
Proof.
  eapply rem_refset with (h := sp) (n := pn) (pos := kpos) (m := m) (x := xm) (K := []) (R := []);
    eauto using wrc_sp, wrc_out, wrc_gone, wrc_models, wrc_short.
Qed.
Lemma wrc_specpath m2 j p : ~ D j -> (SpecPath T wrc m2 j p <-> SpecPath T w m2 j p).
Proof.
  eapply rem_specpath with (h := sp) (n := pn) (pos := kpos) (m := m) (x := xm) (K := []) (R := []);
    eauto using wrc_sp, wrc_out, wrc_gone, wrc_models, wrc_short.
Qed.
Lemma wrc_identifiable j : ~ D j -> identifiable T wrc j = identifiable T w j.
Proof. eapply rem_identifiable with (h := sp) (n := pn) (pos := kpos); eauto using wrc_sp, wrc_out, wrc_gone, wrc_short. Qed.
Lemma rc_D_model m2 j : D j -> MReach T w m2 j -> m2 = m.
Proof.
  eapply D_model with (h := sp) (n := pn) (pos := kpos); eauto.
  destruct Hsrc as (y & Hy & (q & Hd & _)). exists y. split; [exact Hy|].
  destruct (dpath_last T _ _ _ _ Hd) as [E|(p & Hc & Hr)].
  - exfalso. destruct (tf_roots _ HF _ _ Hy) as (nr & Hnr & Hpr). rewrite <- E in Hnr. congruence.
  - rewrite <- (rc_mv_unique_parent p Hc). exact Hr.
Qed.

Lemma wrc_old_iff j : old wrc j <-> (exists nj, w_nodes w j = Some nj) /\ ~ D j.
Proof.
  unfold old. split.
  - intros (nj & Hj). destruct (below_dec T w mv HF j) as [Hd|Hd]; [rewrite (wrc_in j Hd) in Hj; discriminate|].
    split; [|exact Hd]. destruct (N.eq_dec j sp) as [->|Hne]; [eauto|]. rewrite (wrc_out j Hne Hd) in Hj. eauto.
  - intros ((nj & Hj) & Hd). destruct (N.eq_dec j sp) as [->|Hne]; [rewrite wrc_sp; eauto|]. rewrite (wrc_out j Hne Hd). eauto.
Qed.
Lemma wrc_new_alloc j nj' : ~ old wrc j -> w_nodes w1 j = Some nj' -> D j.
Proof.
  intros Hno Hj. destruct (below_dec T w mv HF j) as [Hd|Hd]; [exact Hd|]. exfalso. apply Hno. apply wrc_old_iff. split; [|exact Hd].
  destruct (N.eq_dec j sp) as [->|H3]; [eauto|]. destruct (N.eq_dec j self) as [->|H4]; [eauto|].
  rewrite rc_w1_other in Hj; eauto. intros ->. apply Hd. apply reach_refl.
Qed.
Lemma wrc_self : w_nodes wrc self = Some n.
Proof. rewrite (wrc_out self Hself_sp Hself_out). exact Hn. Qed.
Lemma AC_old j nj : w_nodes wrc j = Some nj -> j <> self -> w_nodes w1 j = Some nj.
Proof.
  intros Hj Hne. destruct (below_dec T w mv HF j) as [Hd|Hd]; [rewrite (wrc_in j Hd) in Hj; discriminate|].
  destruct (N.eq_dec j sp) as [->|H3]; [rewrite wrc_sp in Hj; rewrite rc_w1_sp; exact Hj|].
  rewrite (wrc_out j H3 Hd) in Hj. rewrite rc_w1_other; auto. intros ->. apply Hd. apply reach_refl.
Qed.
Lemma AC_newkids p y : child_of w1 p y -> w_nodes wrc p = None -> w_nodes wrc y = None.
Proof.
  intros Hc Hp. destruct (below_dec T w mv HF p) as [Hd|Hd].
  - apply wrc_in. eapply reach_step; [exact Hd|]. apply (rc_D_child p y Hd). exact Hc.
  - exfalso. destruct Hc as (np' & Hp' & _).
    destruct (N.eq_dec p sp) as [->|H3]; [rewrite wrc_sp in Hp; discriminate|]. rewrite (wrc_out p H3 Hd) in Hp.
    destruct (N.eq_dec p self) as [->|H4]; [congruence|].
    rewrite rc_w1_other in Hp'; [congruence| |exact H3|exact H4]. intros ->. apply Hd. apply reach_refl.
Qed.
Lemma AC_nshort : n_name n <> SHORTN.
Proof. intros E. destruct (i4_short _ _ _ HI _ _ Hn E) as (Hm & _). contradiction. Qed.
Lemma AC_front : pos = O -> identifiable_n T wrc n = false /\
  (named T (n_type n) = true -> forall cn, w_nodes w1 mv = Some cn -> n_name cn <> SHORTN).
Proof.
  intros Hp. split.
  - pose proof (wrc_identifiable self Hself_out) as H. unfold identifiable in H. rewrite wrc_self, Hn in H. rewrite H.
    pose proof (Hfront_dst Hp) as H0. unfold identifiable in H0. rewrite Hn in H0. exact H0.
  - intros _ cn Hcn. rewrite rc_w1_mv in Hcn. injection Hcn as <-. exact Hmv_not_short.
Qed.
Lemma AC_roots m2 : option_map m_root (model_at w1 m2) = option_map m_root (model_at wrc m2).
Proof.
  unfold model_at at 2. cbn [wrc w_models]. fold (model_at w m2). destruct (N.eq_dec m2 m) as [->|Hne].
  - rewrite (model_at_set_same _ _ _ _ Hmodels _ Hx), Hx. reflexivity.
  - rewrite (model_at_set_other _ _ _ _ _ Hmodels Hne). reflexivity.
Qed.

Theorem relocc_treefacts : TreeFacts w1.
Proof.
  eapply attach_treefacts with (w := wrc) (self := self) (c := mv) (n := n) (k := pos).
  - exact wrc_tf.
  - exact wrc_self.
  - exact AC_old.
  - exact rc_w1_self.
  - apply wrc_in. apply reach_refl.
  - exact AC_newkids.
  - exact Hpos.
  - exact AC_nshort.
  - exact AC_front.
  - exact AC_roots.
  - rewrite Hnext. cbn. lia.
  - exists mn1. split; [exact rc_w1_mv|reflexivity].
  - intros j nj' Hno Hj. pose proof (wrc_new_alloc j nj' Hno Hj) as Hd. destruct (rc_D_alloc j Hd) as (nj & Hnj).
    destruct (rc_D_node j nj Hd Hnj) as (nj2 & Hj2 & _ & _ & He & _). rewrite Hj in Hj2. injection Hj2 as <-.
    split; [rewrite He; eapply tf_nodup; eauto|]. split; [rewrite Hnext; eapply tf_alloc; eauto|]. split; [apply rc_reach_D; exact Hd|].
    intros y Hy. assert (Hc : child_of w j y) by (apply (rc_D_child j y Hd); exists nj'; auto).
    destruct (tf_up _ HF _ _ Hc) as (yn & Hyn & Hyp). assert (Hyd : D y) by (eapply reach_step; eauto).
    exists yn. split; [|exact Hyp]. rewrite rc_D_same; [exact Hyn|exact Hyd|].
    intros ->. apply rc_sp_notD. rewrite <- (rc_mv_unique_parent j Hc). exact Hd.
Qed.

(* the path of an element of the subtree *)
Lemma rc_D_path j p : D j -> SpecPath T w m j p -> exists q, dpath T w mv j q /\ p = src ++ q.
Proof.
  intros (q & Hd) Hp. exists q. split; [exact Hd|].
  destruct Hsrc as (y & Hy & (q0 & Hd0 & E)).
  assert (Hp2 : SpecPath T w m j (src ++ q)).
  { exists y. split; [exact Hy|]. exists (q0 ++ q). split; [eapply dpath_trans; eauto|]. rewrite E, app_assoc. reflexivity. }
  destruct (specpath_fun T _ _ _ _ _ _ HF Hp Hp2) as (_ & ->). reflexivity.
Qed.
Lemma rc_D_specpath j q : dpath T w mv j q -> SpecPath T w m j (src ++ q).
Proof.
  intros Hd. destruct Hsrc as (y & Hy & (q0 & Hd0 & E)). exists y. split; [exact Hy|]. exists (q0 ++ q).
  split; [eapply dpath_trans; eauto|]. rewrite E, app_assoc. reflexivity.
Qed.
Lemma rc_new_D i : ~ old wrc i -> (exists ni, w_nodes w i = Some ni) -> D i.
Proof.
  intros Hno Hal. destruct (below_dec T w mv HF i) as [Hd|Hd]; [exact Hd|]. exfalso. apply Hno. apply wrc_old_iff. auto.
Qed.

Theorem relocc_inv04 : Inv04 w1.
Proof.
  destruct wrc_side as (S1 & S2 & S3 & S4). pose proof HI as [I1 I2 I3 IL I4 I5].
  eapply attach_inv04 with (w := wrc) (self := self) (c := mv) (n := n) (k := pos) (mm := m) (ps := dpre).
  - exact wrc_tf.
  - exact wrc_self.
  - exact AC_old.
  - exact rc_w1_self.
  - apply wrc_in. apply reach_refl.
  - exact AC_newkids.
  - exact Hpos.
  - exact AC_nshort.
  - exact AC_front.
  - exact AC_roots.
  - apply wrc_specpath; assumption.
  - exact S1.
  - exact S2.
  - exact S3.
  - exact S4.
  - exact Hself_mode.
  - intros j nj' Hno Hj. pose proof (wrc_new_alloc j nj' Hno Hj) as Hd. destruct (rc_D_alloc j Hd) as (nj & Hnj).
    destruct (rc_D_node j nj Hd Hnj) as (nj2 & Hj2 & Hty & Hname & Hcont & _). rewrite Hj in Hj2. injection Hj2 as <-.
    split; [intros E; rewrite Hty; eapply I1; eauto; congruence|]. split; [|split].
    + intros t E Hcd. eapply (I2 j nj); eauto; [congruence|]. rewrite <- Hcd. symmetry. apply cdata_of_ext; auto.
    + intros Hid. destruct (readings_ext T w w1 nj nj' Hty (rc_short_child_D j nj nj' Hd Hnj Hj)) as (H1 & H2 & _).
      rewrite H1. apply (I3 j nj Hnj). rewrite <- H2. exact Hid.
    + intros Hm. rewrite Hcont. eapply IL; eauto. congruence.
  - intros m2 x2' Hx2' p i Hio. rewrite wrc_pathset. apply wrc_old_iff in Hio as (_ & Hnd).
    destruct (N.eq_dec m2 m) as [->|Hne].
    + rewrite (model_at_set_same _ _ _ _ Hmodels _ Hx) in Hx2'. injection Hx2' as <-. cbn [set_idents m_idents]. rewrite Hids. split.
      * intros [(Hd & _)|(_ & Hk)]; [contradiction|]. split; [apply (I4 m xm Hx); exact Hk|exact Hnd].
      * intros (HP & _). right. split; [exact Hnd|apply (I4 m xm Hx); exact HP].
    + rewrite (model_at_set_other _ _ _ _ _ Hmodels Hne) in Hx2'. rewrite (I4 m2 x2' Hx2' p i). tauto.
  - intros m2 x2' Hx2' p i Hno. destruct (N.eq_dec m2 m) as [->|Hne].
    + rewrite (model_at_set_same _ _ _ _ Hmodels _ Hx) in Hx2'. injection Hx2' as <-. cbn [set_idents m_idents]. rewrite Hids.
      destruct rc_seg_mv as (_ & Hsg). rewrite Hsg. cbn [app]. split.
      * intros [(Hd & q & Hk & ->)|(Hnd & Hk)].
        -- apply (I4 m xm Hx) in Hk as (P1 & P2 & P3). destruct (rc_D_path i _ Hd P3) as (q' & Hdq & E).
           apply app_inv_head in E. subst q'. split; [reflexivity|]. exists q. split; [apply rc_dpath_D; exact Hdq|]. split; [|reflexivity].
           destruct (rc_seg_D i Hd) as (_ & ->). exact P2.
        -- exfalso. apply Hnd. apply rc_new_D; [exact Hno|]. apply (I4 m xm Hx) in Hk as (P1 & _). eapply mreach_alloc; eauto.
      * intros (_ & q & Hdq & Hid & ->). apply rc_dpath_D in Hdq. assert (Hd : D i) by (exists q; exact Hdq). left. split; [exact Hd|].
        exists q. split; [|reflexivity]. apply (I4 m xm Hx). pose proof (rc_D_specpath i q Hdq) as Hsp.
        split; [eapply specpath_mreach; eauto|]. split; [|exact Hsp]. destruct (rc_seg_D i Hd) as (_ & <-). exact Hid.
    + rewrite (model_at_set_other _ _ _ _ _ Hmodels Hne) in Hx2'. rewrite (I4 m2 x2' Hx2' p i). split.
      * intros (P1 & _). exfalso. apply Hne. eapply rc_D_model; [|exact P1]. apply rc_new_D; [exact Hno|eapply mreach_alloc; eauto].
      * intros (E & _). contradiction.
  - intros m2 x2' Hx2'. destruct (N.eq_dec m2 m) as [->|Hne].
    + rewrite (model_at_set_same _ _ _ _ Hmodels _ Hx) in Hx2'. injection Hx2' as <-. exact Hids_nd.
    + rewrite (model_at_set_other _ _ _ _ _ Hmodels Hne) in Hx2'. apply (I5 m2 x2' Hx2').
Qed.

Lemma rc_ref_text_D r : D r -> ref_text T w1 r = ref_text T w r.
Proof.
  intros Hd. unfold ref_text. destruct (rc_D_alloc r Hd) as (nr & Hnr).
  destruct (rc_D_node r nr Hd Hnr) as (nr' & Hnr' & Hty & _ & Hc & _). rewrite Hnr, Hnr', Hty.
  rewrite (cdata_of_ext T nr nr' Hty Hc). reflexivity.
Qed.
Lemma rc_self_noref : isref T (n_type n) = false.
Proof.
  unfold isref. destruct (is_ref T (n_type n)) as [[|]| |] eqn:E; try reflexivity.
  exfalso. apply Hself_mode. apply (tk_ref _ _ TK _ E).
Qed.
Lemma rc_origins m2 x2' : model_at w1 m2 = Some x2' -> exists x2, model_at w m2 = Some x2 /\ m_origins x2' = m_origins x2.
Proof.
  intros Hx2'. destruct (N.eq_dec m2 m) as [->|Hne].
  - rewrite (model_at_set_same _ _ _ _ Hmodels _ Hx) in Hx2'. injection Hx2' as <-. exists xm. auto.
  - rewrite (model_at_set_other _ _ _ _ _ Hmodels Hne) in Hx2'. eauto.
Qed.

Theorem relocc_inv05 : Inv05 T w1.
Proof.
  pose proof HI5 as [IE IT].
  eapply attach_inv05 with (w := wrc) (self := self) (c := mv) (n := n) (k := pos) (mm := m) (ps := dpre).
  - exact wrc_tf.
  - exact wrc_self.
  - exact AC_old.
  - exact rc_w1_self.
  - apply wrc_in. apply reach_refl.
  - exact AC_newkids.
  - exact Hpos.
  - exact AC_nshort.
  - exact AC_front.
  - exact AC_roots.
  - apply wrc_specpath; assumption.
  - exact rc_self_noref.
  - intros m2 x2' Hx2' p r Hro. destruct (rc_origins m2 x2' Hx2') as (x2 & Hx2 & Ho). unfold origins_of. rewrite Ho.
    rewrite wrc_refset. apply wrc_old_iff in Hro as (_ & Hnd). destruct (IE m2 x2 Hx2 p) as (_ & H). unfold origins_of in H. rewrite H. tauto.
  - intros m2 x2' Hx2' p r Hno. destruct (rc_origins m2 x2' Hx2') as (x2 & Hx2 & Ho). unfold origins_of. rewrite Ho.
    destruct (IE m2 x2 Hx2 p) as (_ & H). unfold origins_of in H. rewrite H. unfold RefSet. split.
    + intros (Hm & Ht). assert (Hd : D r) by (apply rc_new_D; [exact Hno|eapply mreach_alloc; eauto]).
      split; [eapply rc_D_model; eauto|]. split; [apply rc_reach_D; exact Hd|]. rewrite (rc_ref_text_D r Hd). exact Ht.
    + intros (-> & Hr & Ht). apply rc_reach_D in Hr. rewrite (rc_ref_text_D r Hr) in Ht. split; [|exact Ht].
      destruct Hsrc as (y & Hy & (q0 & Hd0 & _)). exists y. split; [exact Hy|]. eapply reach_trans; [exists q0; exact Hd0|exact Hr].
  - intros m2 x2' p Hx2'. destruct (rc_origins m2 x2' Hx2') as (x2 & Hx2 & Ho). unfold origins_of. rewrite Ho. apply (IE m2 x2 Hx2 p).
  - intros m2 x2' Hx2'. destruct (rc_origins m2 x2' Hx2') as (x2 & Hx2 & Ho). rewrite Ho. apply (IT m2 x2 Hx2).
Qed.

Theorem relocc_j5 : TreeFacts w1 /\ Inv04 w1 /\ Inv05 T w1.
Proof. exact (conj relocc_treefacts (conj relocc_inv04 relocc_inv05)). Qed.

End RelocC.
