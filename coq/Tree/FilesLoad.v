(* Tree/FilesLoad.v — specification side of C10 for load_buffer (merging a further file): the file-membership
   invariant on PURE trees with local membership (MergeSpec.htree, what agent-c09's pure merge MergePure.pmerge works
   on), the part of FilesInv a merge keeps, and the class of merges that break it.
     HInv F inh t       t is an element whose parent has the effective set inh: local set ⊆ F, a non-empty local set
                        ⊆ inh, and the same below with the element's own effective set
     HInvRoot F t       t is the tree of a model with the files F: the root's set is explicit
     NoLocal t          no membership anywhere (a parsed tree)
     FilesInvW T w x    FilesInvM without (c): (a) local ⊆ files of the model, (b) non-empty local ⊆ effective set of
                        the parent, (d) every element has an effective set when the model has files.  Rule (c) — own
                        sets only below splittable parents — is about sets made through the API: a merge makes the
                        membership of every element that only one side has explicit, splittable parent or not.
     RootFull w x       the root of the model is in all of the model's files (the shape of the known finding
                        C10-merge-membership-inconsistent is its negation)
   DEFINITIONS ONLY. *)
From AV Require Import Base.Bytes Base.Outcome Hash.HashModel Tree.Heap Tree.Ops Tree.Script Tree.Inv Tree.Load Tree.MergeSpec
  Tree.MergePure Tree.Files.
Open Scope string_scope.
Open Scope list_scope.
Open Scope N_scope.

Definition eff_of (inh loc : list N) : list N := if is_empty loc then inh else loc.
Definition seteq (a b : list N) : Prop := incl a b /\ incl b a.

Inductive HInv (F : list N) : list N -> htree -> Prop :=
| HInv_node name ty attrs content comment loc inh :
    incl loc F -> (loc <> [] -> incl loc inh) ->
    (forall k, In (inl k) content -> HInv F (eff_of inh loc) k) ->
    HInv F inh (HNode name ty attrs content comment loc).

Definition HInvRoot (F : list N) (t : htree) : Prop :=
  h_local t <> [] /\ incl (h_local t) F /\ forall k, In (inl k) (h_content t) -> HInv F (h_local t) k.

Inductive NoLocal : htree -> Prop :=
| NoLocal_node name ty attrs content comment :
    (forall k, In (inl k) content -> NoLocal k) -> NoLocal (HNode name ty attrs content comment []).

Record FilesInvW (w : world) (x : model) : Prop := mkFilesInvW {
  fw_sub : forall i n, Reach w (m_root x) i -> w_nodes w i = Some n -> incl (n_files n) (m_files x);
  fw_par : forall i n p, Reach w (m_root x) i -> w_nodes w i = Some n -> n_files n <> [] ->
           n_parent n = PElem p -> exists s, Eff w p s /\ incl (n_files n) s;
  fw_eff : m_files x <> [] -> forall i, Reach w (m_root x) i -> exists s, Eff w i s
}.

Definition RootFull (w : world) (x : model) : Prop :=
  exists rn, w_nodes w (m_root x) = Some rn /\ incl (m_files x) (n_files rn).
