(* Tree/FilesLoad.v — specification side of C10 for load_buffer (merging a further file): the file-membership
   invariant on PURE trees with local membership (MergeSpec.htree, what agent-c09's pure merge MergePure.pmerge works
   on), the part of FilesInv a merge keeps, and the class of merges that break it.
     HInv F inh t       t is an element whose parent has the effective set inh: local set ⊆ F, a non-empty local set
                        ⊆ inh, and the same below with the element's own effective set
     HInvRoot F t       t is the tree of a model with the files F: the root's set is explicit
     NoLocal t          no membership anywhere (a parsed tree)
     FilesInvW T w x    FilesInvM without (c): (a) local ⊆ files of the model, (b) non-empty local ⊆ effective set of
                        the parent, (d) every element has an effective set when the model has files.  Rule (c) — own
                        sets only below splittable parents — is about sets made through the API: a merge makes the
                        membership of every element that only one side has explicit, splittable parent or not.
     RootFull w x       the root of the model is in all of the model's files (the shape of the known finding
                        C10-merge-membership-inconsistent is its negation)
   DEFINITIONS ONLY. *)
From AV Require Import Base.Bytes Base.Outcome Hash.HashModel Tree.Heap Tree.Ops Tree.Script Tree.Inv Tree.Load Tree.MergeSpec
  Tree.MergePure Tree.Files.
Open Scope string_scope.
Open Scope list_scope.
Open Scope N_scope.

Definition eff_of (inh loc : list N) : list N := if is_empty loc then inh else loc.
Definition seteq (a b : list N) : Prop := incl a b /\ incl b a.

Inductive HInv (F : list N) : list N -> htree -> Prop :=
| HInv_node name ty attrs content comment loc inh :
    incl loc F -> (loc <> [] -> incl loc inh) ->
    (forall k, In (inl k) content -> HInv F (eff_of inh loc) k) ->
    HInv F inh (HNode name ty attrs content comment loc).

Definition HInvRoot (F : list N) (t : htree) : Prop :=
  h_local t <> [] /\ incl (h_local t) F /\ forall k, In (inl k) (h_content t) -> HInv F (h_local t) k.

Inductive NoLocal : htree -> Prop :=
| NoLocal_node name ty attrs content comment :
    (forall k, In (inl k) content -> NoLocal k) -> NoLocal (HNode name ty attrs content comment []).

Record FilesInvW (w : world) (x : model) : Prop := mkFilesInvW {
  fw_sub : forall i n, Reach w (m_root x) i -> w_nodes w i = Some n -> incl (n_files n) (m_files x);
  fw_par : forall i n p, Reach w (m_root x) i -> w_nodes w i = Some n -> n_files n <> [] ->
           n_parent n = PElem p -> exists s, Eff w p s /\ incl (n_files n) s;
  fw_eff : m_files x <> [] -> forall i, Reach w (m_root x) i -> exists s, Eff w i s
}.

Definition RootFull (w : world) (x : model) : Prop :=
  exists rn, w_nodes w (m_root x) = Some rn /\ incl (m_files x) (n_files rn).

(* ---------- witness of the class that breaks (b): the root of the model is not in all of its files ---------- *)
Module TinyL.
Import TinyF.
(* files 0 and 1, package /A = 2; the root is taken out of file 1 (it keeps file 0): root local [0], model files [0;1] *)
Definition pre : list op :=
  [OpNewModel; OpCreateFile 0 (BS "f0") 2; OpCreateFile 0 (BS "f1") 2; OpCreateSub 0 nPKGS; OpCreateNamed 1 nPKG (BS "A");
   OpRemoveFromFile 0 1].
(* a third file with the package /B only *)
Definition tB : Parser.etree :=
  Parser.ENode 0 (0, 0) []
    [inl (Parser.ENode 1 (1, 1) []
       [inl (Parser.ENode 2 (2, 2) [] [inl (Parser.ENode 3 (3, 3) [] [inr (Parser.DString (BS "B"))] None)] None)] None)] None.
Definition ld (w : world) : res (out N * world) := load_parsed tiny 2 99 0 (BS "f2") tB (pstate_of tiny 2 tB) w.
Definition w_pre : world := after pre.
Definition w_post : world := match ld w_pre with Val (_, w') => w' | _ => empty_world end.
(* /A (node 2, only in the model) gets the explicit set of ALL files of the model, its parent inherits [0;2] *)
Example partial_load :
  (locals w_pre [0; 1; 2], map m_files (w_models w_pre), files_ok tiny w_pre) = ([[0]; []; []], [[0; 1]], true) /\
  match ld w_pre with Val (r, w') => Some (r, locals w' [0; 1; 2], effs w' [0; 1; 2], map m_files (w_models w'), files_ok tiny w') | _ => None end =
  Some (OK 2, [[0; 2]; []; [0; 1]], [Some [0; 2]; Some [0; 2]; Some [0; 1]], [[0; 1; 2]], false).
Proof. vm_compute. split; reflexivity. Qed.

(* ---------- witness that rule (c) is not kept by a merge, although the root is in all files ---------- *)
(* one file, package /A = 2 with ELEMENTS = 4 (everything inherits) *)
Definition pre_c : list op :=
  [OpNewModel; OpCreateFile 0 (BS "f0") 2; OpCreateSub 0 nPKGS; OpCreateNamed 1 nPKG (BS "A"); OpCreateSub 2 nELEMENTS].
(* a second file with the package /A without ELEMENTS *)
Definition tA : Parser.etree :=
  Parser.ENode 0 (0, 0) []
    [inl (Parser.ENode 1 (1, 1) []
       [inl (Parser.ENode 2 (2, 2) [] [inl (Parser.ENode 3 (3, 3) [] [inr (Parser.DString (BS "A"))] None)] None)] None)] None.
Definition ld_c (w : world) : res (out N * world) := load_parsed tiny 2 99 0 (BS "f1") tA (pstate_of tiny 2 tA) w.
Definition wc_pre : world := after pre_c.
Definition wc_post : world := match ld_c wc_pre with Val (_, w') => w' | _ => empty_world end.
(* ELEMENTS (only in the model) gets the explicit set [0] below AR-PACKAGE, which is not splittable *)
Example rule_c_load :
  (locals wc_pre [0; 1; 2; 4], files_ok tiny wc_pre) = ([[0]; []; []; []], true) /\
  match ld_c wc_pre with Val (r, w') => Some (r, locals w' [0; 1; 2; 4], effs w' [0; 2; 4], map m_files (w_models w'), files_ok tiny w') | _ => None end =
  Some (OK 1, [[0; 1]; []; []; [0]], [Some [0; 1]; Some [0; 1]; Some [0]], [[0; 1]], false).
Proof. vm_compute. split; reflexivity. Qed.
End TinyL.
