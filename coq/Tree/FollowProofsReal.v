(* Tree/FollowProofsReal.v — C06 on the generated specification tables: TablesOK RT is agent-c04's real_tables_ok, the
   invariants along histories are C04_C05_history_rt. *)
From AV Require Import Base.Bytes Base.Outcome Hash.HashModel Tree.Heap Tree.Ops Tree.Script Tree.Inv Tree.InvProofs
  Tree.Index Tree.Refs Spec.SpecReal Tree.CheckFn Tree.IndexProofsTablesReal Tree.IndexProofsClosed
  Tree.Follow Tree.FollowProofsRename Tree.FollowProofsMove Tree.FollowProofsContainer Tree.FollowProofsCross Tree.FollowProofsAll.
From AV Require Import Tree.Script2 Tree.IndexProofsAll Tree.IndexProofsNodeInv Tree.IndexProofsOp2 Tree.IndexProofsSortReal Tree.InvProofsRealTables
  Tree.RefsAll Tree.Copy Tree.FollowProofsOp2.
Open Scope list_scope.
Open Scope N_scope.

Theorem move_total_real (dfas : N -> option (list (list N) * list N)) (tab_el tab_en : nametab) (LATEST : N)
        (root_attrs : list (N * cdata)) o w w' v h mv :
  Inv06 RT (check_fn_model dfas) w ->
  run_op RT tab_el tab_en (check_fn_model dfas) LATEST root_attrs o w = Val (OK v, w') ->
  (o = OpMove h mv \/ exists pos, o = OpMoveAt h mv pos) ->
  move_clauses RT w w' h mv \/
  (exists m, model_of h w = Val (OK m, w) /\ model_of mv w = Val (OK m, w) /\
             identifiable RT w mv = false /\ collision06 RT w h mv = true).
Proof. apply C06_move_total. apply real_tables_ok. Qed.

Theorem history_real (dfas : N -> option (list (list N) * list N)) (tab_el tab_en : nametab) (LATEST : N)
        (root_attrs : list (N * cdata)) l w o v w' :
  clean45m RT tab_el tab_en (check_fn_model dfas) LATEST root_attrs l empty_world = true ->
  run_ops RT tab_el tab_en (check_fn_model dfas) LATEST root_attrs l empty_world = Val w ->
  run_op RT tab_el tab_en (check_fn_model dfas) LATEST root_attrs o w = Val (OK v, w') ->
  (forall h nn, o = OpSetItemName h nn -> rename_clauses RT w w' h) /\
  (forall h mv, (o = OpMove h mv \/ exists pos, o = OpMoveAt h mv pos) ->
     move_clauses RT w w' h mv \/
     (exists m, model_of h w = Val (OK m, w) /\ model_of mv w = Val (OK m, w) /\
                identifiable RT w mv = false /\ collision06 RT w h mv = true)).
Proof. apply C06_history_m. apply real_tables_ok. Qed.

(* ---------- the extended alphabet on the generated tables: TablesOK, the root type, MaskOk and RefChars are all [F] *)
Section Real2.
Variable dfas : N -> option (list (list N) * list N).
Variable tab_el tab_at tab_en : nametab.
Variable float_parse : list N -> option N.
Variable float_fmt : N -> list N.
Variable LATEST name_index name_definition_ref attr_schema_location : N.
Variable root_attrs : list (N * cdata).

Theorem history2_real l w o v w' :
  steps06_2 RT tab_el tab_at tab_en (check_fn_model dfas) float_parse float_fmt LATEST name_index name_definition_ref
            attr_schema_location root_attrs l empty_world ->
  run_hist2 RT tab_el tab_at tab_en (check_fn_model dfas) float_parse float_fmt LATEST name_index name_definition_ref
            attr_schema_location root_attrs l empty_world = Val w ->
  run_op RT tab_el tab_en (check_fn_model dfas) LATEST root_attrs o w = Val (OK v, w') ->
  (forall h nn, o = OpSetItemName h nn -> rename_clauses RT w w' h) /\
  (forall h mv, (o = OpMove h mv \/ exists pos, o = OpMoveAt h mv pos) ->
     move_clauses RT w w' h mv \/
     (exists m, model_of h w = Val (OK m, w) /\ model_of mv w = Val (OK m, w) /\
                identifiable RT w mv = false /\ collision06 RT w h mv = true)).
Proof. apply C06_after_history2; [apply real_tables_ok|exact real_root_plain|exact RefChars_real|exact real_mask_ok]. Qed.

Theorem duplicate_refs_real m w c w' :
  TreeInv w -> Inv06 RT (check_fn_model dfas) w -> RX RT w ->
  dup_clean RT tab_el tab_en (check_fn_model dfas) LATEST root_attrs w m = true ->
  m_duplicate RT tab_el tab_en (check_fn_model dfas) LATEST root_attrs m w = Val (OK c, w') ->
  Inv06 RT (check_fn_model dfas) w' /\ TreeInv w' /\ RX RT w' /\
  (forall m0 r, live_ref RT w m0 r -> live_ref RT w' m0 r) /\
  (forall r p, ref_text RT w r = Some p -> ref_text RT w' r = Some p) /\
  (forall m0 r x, designates RT w m0 r x -> designates RT w' m0 r x) /\
  (forall r' x', live_ref RT w' c r' -> designates RT w' c r' x' ->
     live_ref RT w' c x' /\ w_next w <= x' /\ exists p, ref_text RT w' r' = Some p /\ SpecPath RT w' c x' p) /\
  (forall r x r' x' p, ref_text RT w r = Some p -> ref_text RT w' r' = Some p ->
     designates RT w m r x -> designates RT w' c r' x' -> SpecPath RT w m x p /\ SpecPath RT w' c x' p /\ x < w_next w <= x').
Proof. apply C06_duplicate_refs; [apply real_tables_ok|exact real_root_plain]. Qed.

End Real2.
