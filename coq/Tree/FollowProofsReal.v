(* Tree/FollowProofsReal.v — C06 on the generated specification tables: TablesOK RT is agent-c04's real_tables_ok, the
   invariants along histories are C04_C05_history_rt. *)
From AV Require Import Base.Bytes Base.Outcome Hash.HashModel Tree.Heap Tree.Ops Tree.Script Tree.Inv Tree.InvProofs
  Tree.Index Tree.Refs Spec.SpecReal Tree.CheckFn Tree.IndexProofsTablesReal Tree.IndexProofsClosed
  Tree.Follow Tree.FollowProofsRename Tree.FollowProofsMove Tree.FollowProofsContainer Tree.FollowProofsCross Tree.FollowProofsAll.
Open Scope list_scope.
Open Scope N_scope.

Theorem move_total_real (dfas : N -> option (list (list N) * list N)) (tab_el tab_en : nametab) (LATEST : N)
        (root_attrs : list (N * cdata)) o w w' v h mv :
  Inv06 RT (check_fn_model dfas) w ->
  run_op RT tab_el tab_en (check_fn_model dfas) LATEST root_attrs o w = Val (OK v, w') ->
  (o = OpMove h mv \/ exists pos, o = OpMoveAt h mv pos) ->
  move_clauses RT w w' h mv \/
  (exists m, model_of h w = Val (OK m, w) /\ model_of mv w = Val (OK m, w) /\
             identifiable RT w mv = false /\ collision06 RT w h mv = true).
Proof. apply C06_move_total. apply real_tables_ok. Qed.

Theorem history_real (dfas : N -> option (list (list N) * list N)) (tab_el tab_en : nametab) (LATEST : N)
        (root_attrs : list (N * cdata)) l w o v w' :
  clean45m RT tab_el tab_en (check_fn_model dfas) LATEST root_attrs l empty_world = true ->
  run_ops RT tab_el tab_en (check_fn_model dfas) LATEST root_attrs l empty_world = Val w ->
  run_op RT tab_el tab_en (check_fn_model dfas) LATEST root_attrs o w = Val (OK v, w') ->
  (forall h nn, o = OpSetItemName h nn -> rename_clauses RT w w' h) /\
  (forall h mv, (o = OpMove h mv \/ exists pos, o = OpMoveAt h mv pos) ->
     move_clauses RT w w' h mv \/
     (exists m, model_of h w = Val (OK m, w) /\ model_of mv w = Val (OK m, w) /\
                identifiable RT w mv = false /\ collision06 RT w h mv = true)).
Proof. apply C06_history_m. apply real_tables_ok. Qed.
