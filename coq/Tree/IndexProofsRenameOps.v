(* Tree/IndexProofsRenameOps.v — C04: set_character_data on a SHORT-NAME element that already has text (the direct edit
   of an item name: duplicate check, text write, fix_identifiables old new), and with it the complete theorem for
   OpSetCData. *)
From AV Require Import Base.Bytes Base.Outcome Hash.HashModel Tree.Heap Tree.Ops Tree.Script Tree.IndexProofsW
  Tree.Index Tree.IndexProofsBase Tree.IndexProofsAssoc Tree.IndexProofsFrame Tree.IndexProofsAttach
  Tree.IndexProofsTree Tree.IndexProofsNamed Tree.IndexProofsEdit Tree.Follow Tree.FollowProofsPath Tree.IndexProofsRename.
Open Scope string_scope.
Open Scope list_scope.
Open Scope N_scope.

(* re-keying a prefix onto itself changes the order of the map only *)
Lemma rekey_same_fold {A} (old : list N) (todo : list (list N)) : forall (c : list (list N * A)),
  NoDupKeys c ->
  NoDupKeys (fold_left (rekey_step old old) todo c) /\
  forall k, assoc_get k (fold_left (rekey_step old old) todo c) = assoc_get k c.
Proof.
  induction todo as [|k0 todo IH]; intros c Hnd; cbn [fold_left]; [split; [exact Hnd|reflexivity]|].
  assert (Hstep : NoDupKeys (rekey_step old old c k0) /\ forall k, assoc_get k (rekey_step old old c k0) = assoc_get k c).
  { rewrite rekey_step_eq. destruct (rekey old old k0) as [k'|] eqn:Er; [|split; [exact Hnd|reflexivity]].
    destruct (assoc_get k0 c) as [e|] eqn:Eg; [|split; [exact Hnd|reflexivity]].
    apply rekey_some in Er as (suf & Hk0 & _ & ->). rewrite <- Hk0.
    split; [apply nodup_insert, nodup_swap_remove; exact Hnd|]. intros k. destruct (bytes_dec k k0) as [->|Hne].
    - rewrite assoc_get_insert_eq. symmetry. exact Eg.
    - rewrite assoc_get_insert_neq by exact Hne. apply assoc_get_swap_remove_neq; assumption. }
  destruct Hstep as (H1 & H2). destruct (IH _ H1) as (H3 & H4). split; [exact H3|]. intros k. rewrite H4. apply H2.
Qed.

Section RenOps.
Variable T : tables.
Variable tab_el tab_en : nametab.
Variable check_fn : N -> list N -> res bool.
Variable LATEST : N.
Hypothesis TK : TablesOK T check_fn.
Notation Inv04 := (Inv04 T check_fn).
Notation SHORTN := (name_short_name T).

(* worlds with the same nodes and the same model roots have the same specification side *)
Lemma pathset_nodes_eq w w' :
  (forall i, w_nodes w' i = w_nodes w i) ->
  (forall m2, option_map m_root (model_at w' m2) = option_map m_root (model_at w m2)) ->
  forall m2 p j, PathSet T w' m2 p j <-> PathSet T w m2 p j.
Proof.
  intros Hn Hr.
  assert (N1 : NV w w') by (intros i; rewrite Hn; reflexivity).
  assert (N2 : NV w' w) by (intros i; rewrite Hn; reflexivity).
  assert (Hroot : forall wa wb, NV wa wb -> (forall m2, option_map m_root (model_at wb m2) = option_map m_root (model_at wa m2)) ->
            forall m2 p j, PathSet T wa m2 p j -> PathSet T wb m2 p j).
  { intros wa wb HN HR m2 p j ((y & Hy & (q & Hd)) & Hid & (y2 & Hy2 & (q2 & Hd2 & ->))).
    specialize (HR m2). rewrite Hy in HR. destruct (model_at wb m2) as [yb|] eqn:Eb; [|discriminate]. cbn in HR. injection HR as HR.
    assert (y2 = y) by congruence. subst y2.
    unfold PathSet, MReach, SpecPath. rewrite Eb.
    split; [exists yb; split; [reflexivity|exists q; rewrite HR; eapply dpath_sv; eauto]|].
    split; [rewrite (identifiable_sv T _ _ _ HN); exact Hid|].
    exists yb. split; [reflexivity|]. exists q2. rewrite HR. split; [eapply dpath_sv; eauto|]. rewrite (seg_sv T _ _ _ HN). reflexivity. }
  intros m2 p j. split; [apply (Hroot w' w N2); intros m0; symmetry; apply Hr|apply (Hroot w w' N1 Hr)].
Qed.

(* the identifiables map of model m is replaced by one that answers every lookup alike *)
Lemma inv04_idents_equiv w m x ids' :
  Inv04 w -> model_at w m = Some x -> NoDupKeys ids' -> (forall k, assoc_get k ids' = assoc_get k (m_idents x)) ->
  Inv04 (mkWorld (w_nodes w) (w_next w) (w_files w) (list_set (w_models w) (N.to_nat m) (set_idents x ids'))).
Proof.
  intros [I1 I2 I3 IL I4 I5] Hx Hnd Hget.
  set (w' := mkWorld (w_nodes w) (w_next w) (w_files w) (list_set (w_models w) (N.to_nat m) (set_idents x ids'))).
  assert (Hm : w_models w' = list_set (w_models w) (N.to_nat m) (set_idents x ids')) by reflexivity.
  assert (Hps : forall m2 p j, PathSet T w' m2 p j <-> PathSet T w m2 p j).
  { apply pathset_nodes_eq; [reflexivity|]. intros m2. destruct (N.eq_dec m2 m) as [->|Hne].
    - rewrite (model_at_set_same _ _ _ _ Hm _ Hx), Hx. reflexivity.
    - rewrite (model_at_set_other _ _ _ _ _ Hm Hne). reflexivity. }
  constructor; try assumption.
  - intros m2 y Hy p j. rewrite Hps. destruct (N.eq_dec m2 m) as [->|Hne].
    + rewrite (model_at_set_same _ _ _ _ Hm _ Hx) in Hy. injection Hy as <-. cbn [set_idents m_idents]. rewrite Hget. apply (I4 m x Hx).
    + rewrite (model_at_set_other _ _ _ _ _ Hm Hne) in Hy. apply (I4 m2 y Hy).
  - intros m2 y Hy. destruct (N.eq_dec m2 m) as [->|Hne].
    + rewrite (model_at_set_same _ _ _ _ Hm _ Hx) in Hy. injection Hy as <-. exact Hnd.
    + rewrite (model_at_set_other _ _ _ _ _ Hm Hne) in Hy. apply (I5 m2 y Hy).
Qed.

(* fix_identifiables as a function on the world *)
Lemma fix_identifiables_val m old new w r w' :
  fix_identifiables m old new w = Val (r, w') ->
  exists x, model_at w m = Some x /\ r = OK tt /\
    w' = mkWorld (w_nodes w) (w_next w) (w_files w)
           (list_set (w_models w) (N.to_nat m) (set_idents x (fold_left (rekey_step old new) (map fst (m_idents x)) (m_idents x)))).
Proof.
  intros H. unfold fix_identifiables in H. apply modify_model_inv in H as (x & Hx & -> & ->). exists x. split; [exact Hx|]. split; reflexivity.
Qed.

Lemma list_set_same_nth {A} (l : list A) k a : nth_opt l k = Some a -> list_set l k a = l.
Proof. revert k. induction l as [|y l IH]; intros [|k]; cbn; try discriminate; [intros [= ->]; reflexivity|]. intros H. f_equal. auto. Qed.

Lemma strip_suffix_app a suf : strip_suffix suf (a ++ suf) = Some a.
Proof. unfold strip_suffix. rewrite rev_app_distr, strip_prefix_app, rev_involutive. reflexivity. Qed.

Lemma set_content_same nd : set_content nd (n_content nd) = nd.
Proof. destruct nd; reflexivity. Qed.

Lemma cdata_of_content nd d : cdata_of T nd = Some d -> n_content nd = [CData d].
Proof.
  unfold cdata_of, character_data. destruct (n_content nd) as [|[c|d0] [|y r]]; try discriminate.
  destruct (content_mode T (n_type nd)) as [md| |]; cbn; try discriminate.
  destruct ((md =? MCharacters) || (md =? MMixed)); [intros [= ->]; reflexivity|discriminate].
Qed.

(* the world after editing the text of node h and running fix_identifiables old new on model m *)
Definition renamed_world (w : world) (h : id) (n' : node) (m : N) (x : model) (old new : list N) : world :=
  mkWorld (upd (w_nodes w) h n') (w_next w) (w_files w)
          (list_set (w_models w) (N.to_nat m)
             (set_idents x (fold_left (rekey_step old new) (map fst (m_idents x)) (m_idents x)))).

(* the rename case proper: h is the SHORT-NAME (first item) of the identifiable element pi *)
Lemma rename_short_inv04 w h n pi pn rest m x pre cur nn :
  TreeFacts w -> Inv04 w ->
  w_nodes w h = Some n -> n_name n = SHORTN -> cdata_of T n = Some (DString cur) ->
  w_nodes w pi = Some pn -> n_content pn = CElem h :: rest -> named T (n_type pn) = true ->
  MReach T w m pi -> SpecPath T w m pi (pre ++ 47 :: cur) -> model_at w m = Some x ->
  ~ In 47 nn -> cur <> nn -> assoc_get (pre ++ 47 :: nn) (m_idents x) = None ->
  Inv04 (renamed_world w h (set_content n [CData (DString nn)]) m x (pre ++ 47 :: cur) (pre ++ 47 :: nn)).
Proof.
  intros HF HI Hn Hsn Hcd Hpn Hc Hnamed Hreach Hold Hx Hnn Hne Hfresh.
  pose proof (i4_nodup _ _ _ HI m x Hx) as Hnd.
  assert (Hnew_ne : pre ++ 47 :: nn <> []) by (destruct pre; discriminate).
  pose proof (rekey_fresh T w m x (pre ++ 47 :: cur) (pre ++ 47 :: nn) HF (slashfree_names T w (i4_slash _ _ _ HI))
                (i4_exact _ _ _ HI m) Hx Hnew_ne Hfresh) as Hfr.
  destruct (rekey_all (pre ++ 47 :: cur) (pre ++ 47 :: nn) (m_idents x) Hnd Hfr) as (Hnd2 & Hids).
  eapply (one_inv04 T check_fn w _ pi h pn n rest m x cur nn pre _ HF HI Hpn Hc Hnamed Hn Hsn Hcd); eauto;
    try reflexivity.
Qed.

Lemma chars_cdata_of nd v : content_mode T (n_type nd) = Val MCharacters -> cdata_of T (set_content nd [CData v]) = Some v.
Proof. intros Hm. unfold cdata_of, character_data. cbn. rewrite Hm. reflexivity. Qed.

(* path_id of an element of the model: exactly its specification path *)
Lemma path_id_ok w m i p r w' :
  TreeFacts w -> upath T w m (PElem i) p -> identifiable T w i = true -> path_id T i w = Val (r, w') -> w' = w /\ r = OK p.
Proof.
  intros HF Hu Hid H. apply path_id_val in H as (-> & ni & Hni & H). split; [reflexivity|].
  unfold identifiable in Hid. rewrite Hni in Hid. rewrite Hid in H.
  destruct H as [(E & _)|(_ & [(m2 & s & -> & Hu2)|(-> & Hd)])]; [discriminate| |].
  - destruct (upath_fun T _ _ _ _ Hu _ _ Hu2) as (_ & ->). reflexivity.
  - exfalso. eapply upath_not_dead; eauto.
Qed.

Lemma tail_fix w1 h n' pi m x pp np r w' :
  w_nodes w1 h = Some n' -> n_parent n' = PElem pi -> TreeFacts w1 -> upath T w1 m (PElem pi) np ->
  identifiable T w1 pi = true -> model_at w1 m = Some x ->
  ((do n2 <- get_node h;
    do p <- parent_of n2;
    match p with
    | Some pi => do np <- path_id T pi; fix_identifiables m pp np
    | None => wret tt
    end);; wret tt)%W w1 = Val (r, w') ->
  w' = mkWorld (w_nodes w1) (w_next w1) (w_files w1)
         (list_set (w_models w1) (N.to_nat m) (set_idents x (fold_left (rekey_step pp np) (map fst (m_idents x)) (m_idents x)))).
Proof.
  intros Hh Hp HF1 Hu Hid Hx H.
  assert (Hfix : forall r2 w2, (do n2 <- get_node h; do p <- parent_of n2;
                   match p with Some pi => do np <- path_id T pi; fix_identifiables m pp np | None => wret tt end)%W w1 = Val (r2, w2) ->
                 r2 = OK tt /\ w2 = mkWorld (w_nodes w1) (w_next w1) (w_files w1)
                   (list_set (w_models w1) (N.to_nat m) (set_idents x (fold_left (rekey_step pp np) (map fst (m_idents x)) (m_idents x))))).
  { intros r2 w2 E. wnode E n2 Hn2. rewrite Hh in Hn2. injection Hn2 as <-. unfold parent_of in E. rewrite Hp in E.
    assert (Hpath : forall rr ww, path_id T pi w1 = Val (rr, ww) -> ww = w1 /\ rr = OK np) by (intros rr ww; eapply path_id_ok; eauto).
    apply wbind_inv in E as [(p1 & wa & Ea & E)|(e & Ea & _)]; [|apply wret_inv in Ea as ([=] & _)].
    apply wret_inv in Ea as (Ea & ->). injection Ea as ->.
    apply wbind_inv in E as [(np1 & wb & Eb & E)|(e & Eb & _)].
    2:{ apply Hpath in Eb as (_ & [=]). }
    apply Hpath in Eb as (-> & Eb). injection Eb as ->.
    apply fix_identifiables_val in E as (x1 & Hx1 & -> & ->). rewrite Hx in Hx1. injection Hx1 as <-. auto. }
  apply wbind_inv in H as [(u & w2 & E & H)|(e & E & _)].
  - apply Hfix in E as (_ & ->). apply wret_inv in H as (_ & ->). reflexivity.
  - apply Hfix in E as ([=] & _).
Qed.

Theorem C04_set_cdata h val0 w r w' :
  TreeFacts w -> Inv04 w ->
  e_set_character_data T tab_en check_fn LATEST h val0 w = Val (r, w') -> Inv04 w'.
Proof.
  intros HF HI H0.
  destruct (w_nodes w h) as [n|] eqn:Hn.
  2:{ unfold e_set_character_data in H0. wnode H0 n0 Hn0. congruence. }
  destruct ((n_name n =? SHORTN) && is_some (cdata_of T n)) eqn:Ecase.
  2:{ eapply C04_set_cdata_plain; eauto. intros n0 Hn0. rewrite Hn in Hn0. injection Hn0 as <-. exact Ecase. }
  apply andb_true_iff in Ecase as (Hsn & Hsome). apply N.eqb_eq in Hsn.
  destruct (cdata_of T n) as [d0|] eqn:Hcd0; [clear Hsome|discriminate].
  destruct (i4_short _ _ _ HI _ _ Hn Hsn) as (Hmode & Hnoref & Hval).
  pose proof H0 as H. unfold e_set_character_data in H.
  wnode H n1 Hn1. rewrite Hn in Hn1. injection Hn1 as <-.
  wval H mode Hm. rewrite Hmode in Hm. injection Hm as <-. change (MCharacters =? MCharacters) with true in H. cbn [orb negb] in H.
  wval H spec Hspec. destruct spec as [cs|]; [|winv H; exact HI].
  wbind_ro H m Em; [|exact HI]. wbind_ro H ver Ever; [|exact HI]. wval H ok0 Hok0.
  wbind_ro H vok Evok.
  2:{ exfalso. destruct (negb ok0 && _); [|winv Evok]. wval Evok s0 Hs0. wval Evok ok1 Hok1. winv Evok. }
  assert (Hchk : snd vok = true -> check_value check_fn (fst vok) cs ver = Val true).
  { destruct (negb ok0 && _).
    - wval Evok s0 Hs0. wval Evok ok1 Hok1. winv Evok. cbn. intros ->. exact Hok1.
    - winv Evok. cbn. intros ->. exact Hok0. }
  clear Evok. destruct vok as [v ok]. cbn [fst snd] in Hchk. destruct ok; cbn [negb] in H; [|winv H; exact HI].
  specialize (Hchk eq_refl). destruct (Hval _ _ _ Hspec Hchk) as (nn & -> & Hnn).
  wval H cd0 Hcd. rewrite (cdata_of_val _ _ _ Hcd) in Hcd0. subst cd0.
  unfold SHORT in H. rewrite Hsn, N.eqb_refl in H. cbn [andb] in H.
  wbind_ro H prev Eprev; [|exact HI].
  wval H isr Hisr. rewrite Hnoref in Hisr. injection Hisr as <-.
  set (n' := set_content n [CData (DString nn)]) in *.
  wbind_w H u w1 E1. 2:{ apply set_node_inv in E1 as ([=] & _). }
  apply set_node_inv in E1 as (_ & ->). fold (edit_world w h n') in H.
  assert (Hleaf : elem_ids (n_content n) = []) by (apply chars_content_elems; eapply (i4_leaf _ _ _ HI); eauto).
  (* an edit that changes nobody's name *)
  assert (Hinert : (forall j nj, w_nodes w j = Some nj -> hd_error (n_content nj) = Some (CElem h) -> named T (n_type nj) = false) ->
                   Inv04 (edit_world w h n')).
  { intros Hno. apply (inv04_edit_node T check_fn w h n n'); auto.
    - intros _. right. eexists. reflexivity.
    - intros _. split; [exact Hno|]. intros s0 Hs0. unfold n' in Hs0. rewrite (chars_cdata_of n (DString nn) Hmode) in Hs0. injection Hs0 as <-. exact Hnn.
    - intros _. right. split; apply hd_no_elem_not_identifiable; [exact Hleaf|reflexivity]. }
  destruct (n_parent n) as [|mm|pi] eqn:Epar.
  { unfold parent_of in Eprev. rewrite Epar in Eprev. wbind_ro Eprev p0 Ep0. winv Ep0. }
  { (* a SHORT-NAME element that is a model root: nobody lists it *)
    unfold parent_of in Eprev. rewrite Epar in Eprev. wbind_ro Eprev p0 Ep0. winv Ep0. winv Eprev.
    wbind_w H u2 w2 E2; [|winv E2]. winv E2. winv H. apply Hinert.
    intros j nj Hj Hhd. exfalso.
    assert (Hc : child_of w j h).
    { exists nj. split; [exact Hj|]. destruct (n_content nj); cbn in Hhd; [discriminate|]. injection Hhd as ->. left. reflexivity. }
    destruct (tf_up _ HF _ _ Hc) as (cn & Hcn & Hp). rewrite Hn in Hcn. injection Hcn as <-. congruence. }
  (* the parent pi *)
  unfold parent_of in Eprev. rewrite Epar in Eprev. wbind_ro Eprev p0 Ep0. winv Ep0.
  wbind_ro Eprev pp Epp. wnode Eprev pn Hpn. wbind_ro Eprev oldn Eold.
  apply item_name_val in Eold as (_ & [= ->]).
  wbind_ro Eprev uchk Echk. winv Eprev.
  pose proof Epp as Epp0. apply path_id_val in Epp0 as (_ & pn0 & Hpn0 & Hpid). rewrite Hpn in Hpn0. injection Hpn0 as <-.
  destruct Hpid as [(_ & [=])|(Hidp & [(m' & s0 & [= <-] & Hup)|([=] & _)])].
  assert (Hm' : m' = m).
  { apply (model_of_val T) in Em as (_ & [(m2 & q2 & [= <-] & Hu2)|([=] & _)]).
    inversion Hu2 as [|i0 n0 q0 Hn0 Hu0]; subst. rewrite Hn in Hn0. injection Hn0 as <-. rewrite Epar in Hu0.
    destruct (upath_fun T _ _ _ _ Hup _ _ Hu0) as (-> & _). reflexivity. }
  subst m'.
  assert (Hspp : SpecPath T w m pi pp) by (eapply upath_specpath; eauto).
  assert (Hrp : MReach T w m pi) by (eapply specpath_mreach; eauto).
  destruct Hrp as (x & Hx & Hrx). assert (Hrp : MReach T w m pi) by (exists x; auto).
  (* the edited world has the structure of w *)
  set (w1 := edit_world w h n') in *.
  assert (Hw1h : w_nodes w1 h = Some n') by (cbn; apply upd_eq).
  assert (Hw1o : forall j, j <> h -> w_nodes w1 j = w_nodes w j) by (intros j Hj; cbn; apply upd_neq; exact Hj).
  assert (HSE : SE w w1).
  { split; [|split; reflexivity]. intros j. destruct (N.eq_dec j h) as [->|Hj].
    - rewrite Hw1h, Hn. cbn. unfold sview. cbn. rewrite Hleaf. reflexivity.
    - rewrite (Hw1o j Hj). reflexivity. }
  pose proof (TreeFacts_se w w1 HSE HF) as HF1.
  assert (Hx1 : model_at w1 m = Some x) by exact Hx.
  assert (Hpar' : n_parent n' = PElem pi) by exact Epar.
  assert (Hch : child_of w pi h) by (eapply tf_down; eauto).
  (* is h the SHORT-NAME (first item) of pi ? *)
  unfold identifiable_n in Hidp. apply andb_true_iff in Hidp as (Hnamed & Hsc).
  destruct (short_child T w pn) as [sc|] eqn:Esc; [|discriminate]. clear Hsc.
  rewrite short_child_hd in Esc. destruct (hd_error (n_content pn)) as [[s0|d1]|] eqn:Ehd; try discriminate.
  destruct (N.eq_dec s0 h) as [->|Hs0].
  - (* RENAME: the item name of pi changes from cur to nn *)
    destruct (n_content pn) as [|it rest] eqn:Ec; [discriminate|]. cbn in Ehd. injection Ehd as ->.
    rewrite Hn, Hsn, N.eqb_refl in Esc. injection Esc as <-.
    assert (Hcur : exists cur, d0 = DString cur /\ item_name_n T w pn = Some cur).
    { pose proof (i4_named _ _ _ HI _ _ Hpn) as HA. unfold identifiable_n, item_name_n, short_child in HA |- *.
      rewrite Hnamed, Ec, Hn, Hsn, N.eqb_refl, (cdata_of_val _ _ _ Hcd) in *. cbn in HA.
      destruct d0 as [| cur | |]; try (exfalso; apply HA; reflexivity). eauto. }
    destruct Hcur as (cur & -> & Hin). rewrite Hin in Echk.
    (* the path of pi ends with /cur *)
    inversion Hup as [|i0 n0 pre Hn0 Hu0]; subst. rewrite Hpn in Hn0. injection Hn0 as <-.
    assert (Hseg : seg_n T w pn = 47 :: cur) by (unfold seg_n; rewrite Hin; reflexivity).
    rewrite Hseg in *.
    replace (pre ++ 47 :: cur) with ((pre ++ [47]) ++ cur) in Echk by (rewrite <- app_assoc; reflexivity).
    rewrite strip_suffix_app in Echk.
    destruct (bytes_eqb nn cur) eqn:Enc; cbn [negb] in Echk.
    + (* the same name again: nothing changes but the order of the map *)
      apply bytes_eqb_spec in Enc. subst nn.
      assert (Hn'n : n' = n).
      { unfold n'. rewrite <- (cdata_of_content n (DString cur) (cdata_of_val _ _ _ Hcd)). apply set_content_same. }
      assert (HIV : IV w w1).
      { split; [|reflexivity]. intros j. destruct (N.eq_dec j h) as [->|Hj]; [rewrite Hw1h, Hn, Hn'n; reflexivity|rewrite (Hw1o j Hj); reflexivity]. }
      pose proof (Inv04_iv T check_fn w w1 HIV HI) as HI1.
      assert (Hu1 : upath T w1 m (PElem pi) (pre ++ 47 :: cur)).
      { eapply specpath_upath; [exact HF1|]. eapply specpath_iv; eauto. }
      assert (Hid1 : identifiable T w1 pi = true).
      { rewrite (identifiable_sv T _ _ _ (proj1 HIV)). unfold identifiable. rewrite Hpn. unfold identifiable_n, short_child.
        rewrite Hnamed, Ec, Hn, Hsn, N.eqb_refl. reflexivity. }
      rewrite (tail_fix w1 h n' pi m x _ _ r w' Hw1h Hpar' HF1 Hu1 Hid1 Hx1 H).
      destruct (rekey_same_fold (pre ++ 47 :: cur) (map fst (m_idents x)) (m_idents x) (i4_nodup _ _ _ HI m x Hx)) as (G1 & G2).
      apply (inv04_idents_equiv w1 m x _ HI1 Hx1 G1 G2).
    + (* a different name: it must be free *)
      apply bytes_eqb_false in Enc.
      wbind_ro Echk ex Eex. unfold get_element_by_path in Eex. wmodel Eex x0 Hx0. winv Eex.
      fold (model_at w m) in Hx0. rewrite Hx in Hx0. injection Hx0 as <-.
      destruct (assoc_get ((pre ++ [47]) ++ nn) (m_idents x)) as [ex0|] eqn:Efree; [winv Echk|]. clear Echk.
      rewrite <- app_assoc in Efree. cbn [app] in Efree.
      (* the new path of pi in the edited world *)
      assert (Hnodes1 : forall j, w_nodes w1 j = if j =? h then Some (set_content n [CData (DString nn)]) else w_nodes w j).
      { intros j. cbn. unfold upd. reflexivity. }
      assert (Hu1 : upath T w1 m (PElem pi) (pre ++ 47 :: nn)).
      { eapply (one_new_upath T check_fn) with (w := w) (h := pi) (s := h) (n := pn) (sn := n) (cur := cur) (IDS2 := m_idents x); eauto.
        - rewrite (cdata_of_val _ _ _ Hcd). reflexivity.
        - cbn [w1 edit_world w_models]. symmetry. replace (set_idents x (m_idents x)) with x by (destruct x; reflexivity).
          apply list_set_same_nth. exact Hx. }
      assert (Hid1 : identifiable T w1 pi = true).
      { erewrite (one_identifiable T check_fn) with (w := w) (h := pi) (s := h) (n := pn) (sn := n); eauto.
        unfold identifiable. rewrite Hpn.
        unfold identifiable_n, short_child. rewrite Hnamed, Ec, Hn, Hsn, N.eqb_refl. reflexivity. }
      rewrite (tail_fix w1 h n' pi m x _ _ r w' Hw1h Hpar' HF1 Hu1 Hid1 Hx1 H).
      apply (rename_short_inv04 w h n pi pn rest m x pre cur nn HF HI Hn Hsn); auto;
        first [rewrite (cdata_of_val _ _ _ Hcd); reflexivity | intros E; apply Enc; symmetry; exact E].
  - (* h is a further SHORT-NAME element of pi, not the one that names it: nobody's name changes *)
    assert (HI1 : Inv04 w1).
    { apply Hinert. intros j nj Hj Hhd. exfalso.
      assert (Hc : child_of w j h).
      { exists nj. split; [exact Hj|]. destruct (n_content nj); cbn in Hhd; [discriminate|]. injection Hhd as ->. left. reflexivity. }
      assert (j = pi). { destruct (tf_up _ HF _ _ Hc) as (cn & Hcn & Hpc). rewrite Hn in Hcn. injection Hcn as <-. congruence. }
      subst j. rewrite Hpn in Hj. injection Hj as <-. rewrite Ehd in Hhd. injection Hhd as E. contradiction. }
    assert (Hedit : forall m2 j p, SpecPath T w1 m2 j p <-> SpecPath T w m2 j p).
    { intros m2 j p. unfold SpecPath, spath. change (model_at w1 m2) with (model_at w m2).
      assert (Hd : forall a i q, dpath T w1 a i q <-> dpath T w a i q).
      { intros a i q. apply (dpath_edit T w h n n' Hn eq_refl eq_refl).
        - unfold n'. cbn [set_content n_content]. rewrite Hleaf. reflexivity.
        - intros _. split.
          + intros j0 nj Hj Hhd. destruct (named T (n_type nj)) eqn:En0; [|reflexivity]. exfalso.
            assert (Hc : child_of w j0 h).
            { exists nj. split; [exact Hj|]. destruct (n_content nj); cbn in Hhd; [discriminate|]. injection Hhd as ->. left. reflexivity. }
            assert (j0 = pi). { destruct (tf_up _ HF _ _ Hc) as (cn & Hcn & Hpc). rewrite Hn in Hcn. injection Hcn as <-. congruence. }
            subst j0. rewrite Hpn in Hj. injection Hj as <-. rewrite Ehd in Hhd. injection Hhd as E. contradiction.
          + intros s1 Hs1. unfold n' in Hs1. rewrite (chars_cdata_of n (DString nn) Hmode) in Hs1. injection Hs1 as <-. exact Hnn.
        - intros _. right. split; apply hd_no_elem_not_identifiable; [exact Hleaf|reflexivity]. }
      assert (Hsg : forall j0, seg T w1 j0 = seg T w j0).
      { intros j0. apply (seg_edit T w h n n' Hn eq_refl eq_refl).
        - intros _. split.
          + intros j1 nj Hj Hhd. destruct (named T (n_type nj)) eqn:En0; [|reflexivity]. exfalso.
            assert (Hc : child_of w j1 h).
            { exists nj. split; [exact Hj|]. destruct (n_content nj); cbn in Hhd; [discriminate|]. injection Hhd as ->. left. reflexivity. }
            assert (j1 = pi). { destruct (tf_up _ HF _ _ Hc) as (cn & Hcn & Hpc). rewrite Hn in Hcn. injection Hcn as <-. congruence. }
            subst j1. rewrite Hpn in Hj. injection Hj as <-. rewrite Ehd in Hhd. injection Hhd as E. contradiction.
          + intros s1 Hs1. unfold n' in Hs1. rewrite (chars_cdata_of n (DString nn) Hmode) in Hs1. injection Hs1 as <-. exact Hnn.
        - intros _. right. split; apply hd_no_elem_not_identifiable; [exact Hleaf|reflexivity]. }
      split; intros (y & Hy & (q & Hq & ->)); exists y; (split; [exact Hy|]); exists q; (split; [apply Hd; exact Hq|]); rewrite Hsg; reflexivity. }
    assert (Hu1 : upath T w1 m (PElem pi) pp) by (eapply specpath_upath; [exact HF1|apply Hedit; exact Hspp]).
    assert (Hid1 : identifiable T w1 pi = true).
    { unfold identifiable. rewrite (Hw1o pi); [|intros ->; eapply (not_below_self T w h h []); eauto; constructor]. rewrite Hpn.
      unfold identifiable_n. rewrite Hnamed. rewrite short_child_hd, Ehd. rewrite (Hw1o s0 Hs0).
      destruct (w_nodes w s0) as [sn0|]; [|discriminate].
      destruct (n_name sn0 =? SHORTN); [reflexivity|discriminate]. }
    rewrite (tail_fix w1 h n' pi m x _ _ r w' Hw1h Hpar' HF1 Hu1 Hid1 Hx1 H).
    destruct (rekey_same_fold pp (map fst (m_idents x)) (m_idents x) (i4_nodup _ _ _ HI m x Hx)) as (G1 & G2).
    apply (inv04_idents_equiv w1 m x _ HI1 Hx1 G1 G2).
Qed.

End RenOps.
