(* Tree/CopyProofsIndep2.v — C13: independence for the extended alphabet `op2` (Tree/Script2.v).
   Covered: Op1 (all 26), OpSort, OpSortModel, OpDuplicate, OpSetVersion, OpCheckCompat, OpSerializeFile (it writes the
   schema-location attribute of the root of the file's model), OpSerializeElem.  Pending: OpLoad. *)
From AV Require Import Base.Bytes Base.Outcome Hash.HashModel Tree.Heap Tree.Ops Tree.Script Tree.Inv
  Tree.Sort Tree.Copy Tree.Load Tree.Compat Tree.Serialize Tree.Script2
  Tree.CopyProofsW Tree.CopyProofsDefs Tree.CopyProofsIrp Tree.CopyProofsIrpLib Tree.CopyProofsGrow Tree.CopyProofsIrpOps Tree.CopyProofsIndep.
From Coq Require Import Lia PeanoNat.
Open Scope string_scope.
Open Scope list_scope.
Open Scope N_scope.

Definition pending_indep2 (o : op2) : bool := match o with OpLoad _ _ _ _ => true | _ => false end.

Definition is_dup (o : op2) : bool := match o with OpDuplicate _ => true | _ => false end.

Definition op2_handles (o : op2) : list id :=
  match o with
  | Op1 o1 => op_handles o1
  | OpSort h => [h]
  | _ => []
  end.
Definition op2_models (o : op2) : list N :=
  match o with
  | Op1 o1 => op_models o1
  | OpSortModel m => [m]
  | OpLoad m _ _ _ => [m]
  | _ => []
  end.
Definition op2_files (o : op2) : list N :=
  match o with
  | OpSetVersion f _ | OpSerializeFile f => [f]
  | _ => []
  end.
Definition op2_apart (P : id -> Prop) (PM PF : N -> Prop) (o : op2) : Prop :=
  (forall i, In i (op2_handles o) -> ~ P i) /\ (forall m, In m (op2_models o) -> ~ PM m) /\
  (forall f, In f (op2_files o) -> ~ PF f).

Lemma in_ins_left {A} (c : A -> A -> comparison) x y r : In x (ins_left c y r) -> x = y \/ In x r.
Proof.
  induction r as [|z r IH]; cbn [ins_left]; [intros [H|[]]; auto|].
  destruct (c y z); cbn [In]; intros H; try (destruct H as [H|H]; auto; fail).
  destruct H as [H|H]; [auto|]. destruct (IH H); auto.
Qed.
Lemma in_isort {A} (c : A -> A -> comparison) x l : In x (isort c l) -> In x l.
Proof.
  unfold isort. intros H. apply in_rev in H.
  assert (G : forall l acc, In x (fold_left (fun racc y => ins_left c y racc) l acc) -> In x l \/ In x acc).
  { clear. induction l as [|y l IH]; intros acc H; cbn [fold_left] in H; [auto|].
    destruct (IH _ H) as [H1|H1]; [left; right; exact H1|]. apply in_ins_left in H1 as [->|H1]; [left; left; reflexivity|auto]. }
  destruct (G _ _ H) as [H1|[]]. exact H1.
Qed.

#[local] Hint Extern 2 (irpqL _ _ _ _ _ _ _ (raw_set_attribute _ _ _ _ _ _)) => (apply irp_raw_set_attribute; np) : irp.
#[local] Hint Extern 2 (irpqL _ _ _ _ _ _ _ (m_create_file _ _ _ _)) => (apply irpq_create_file; np) : irp.
#[local] Hint Extern 2 (irpqL _ _ _ _ _ _ _ (new_model _ _)) => (apply irpq_new_model) : irp.
#[local] Hint Extern 2 (irpqL _ _ _ _ _ _ _ (e_create_copied_sub_element _ _ _ _)) => (apply irpq_e_copy; np) : irp.

Lemma nth_opt_firstn_lt {A} (l : list A) n k : (k < n)%nat -> nth_opt (firstn n l) k = nth_opt l k.
Proof.
  revert n k. induction l as [|x l IH]; intros [|n] [|k] H; cbn; try reflexivity; try lia. apply IH. lia.
Qed.
Lemma nth_opt_firstn_some {A} (l : list A) n k x : nth_opt (firstn n l) k = Some x -> nth_opt l k = Some x /\ (k < n)%nat.
Proof.
  revert n k. induction l as [|y l IH]; intros [|n] [|k] H; cbn in *; try discriminate; [split; [exact H|lia]|].
  destruct (IH _ _ H). split; [assumption|lia].
Qed.

Section Indep2.
Variable T : tables.
Variable tab_el tab_at tab_en : nametab.
Variable check_fn : N -> list N -> res bool.
Variable float_parse : list N -> option N.
Variable float_fmt : N -> list N.
Variable LATEST name_index name_definition_ref attr_schema_location : N.
Variable root_attrs : list (N * cdata).

Notation run2 := (run_op2 T tab_el tab_at tab_en check_fn float_parse float_fmt LATEST name_index name_definition_ref
                          attr_schema_location root_attrs).

(* ---------- worlds only grow ---------- *)
Lemma grows_keyed_loop rec ty : (forall c, grows (rec c)) -> forall l, grows (keyed_loop T rec ty l).
Proof. intros Hr. induction l as [|[c|d] l IH]; cbn [keyed_loop]; grows_tac. Qed.
Lemma grows_iter_loop rec : (forall c, grows (rec c)) -> forall l, grows (iter_loop rec l).
Proof. intros Hr. induction l as [|[c|d] l IH]; cbn [iter_loop]; grows_tac. Qed.
Hint Resolve grows_keyed_loop grows_iter_loop : grows.
Lemma grows_sort_f fuel : forall i, grows (sort_f T tab_el tab_at tab_en name_index name_definition_ref isort_poly fuel i).
Proof. induction fuel as [|f IH]; intros i; cbn [sort_f]; grows_tac. Qed.
Hint Resolve grows_sort_f : grows.
Lemma grows_e_sort i : grows (e_sort T tab_el tab_at tab_en name_index name_definition_ref i).
Proof. unfold e_sort, e_sort_with. grows_tac. Qed.
Lemma grows_m_sort m : grows (m_sort T tab_el tab_at tab_en name_index name_definition_ref m).
Proof. unfold m_sort, m_sort_with, e_sort_with. grows_tac. Qed.
Lemma grows_dup_files c : forall files fm, grows (dup_files T c files fm).
Proof. induction files as [|f files IH]; intros fm; cbn [dup_files]; grows_tac. Qed.
Lemma grows_dup_children croot : forall items, grows (dup_children T LATEST croot items).
Proof. induction items as [|[e|d] items IH]; cbn [dup_children]; grows_tac. Qed.
Lemma grows_dup_membership fm : forall oids cids, grows (dup_membership fm oids cids).
Proof. induction oids as [|o oids IH]; intros [|c cids]; cbn [dup_membership]; grows_tac. Qed.
Hint Resolve grows_dup_files grows_dup_children grows_dup_membership : grows.
Lemma grows_duplicate_body m : grows (m_duplicate_body T LATEST root_attrs m).
Proof. unfold m_duplicate_body. grows_tac. Qed.
Lemma ro_check_compat f v : ro (f_check_version_compatibility T f v).
Proof. intros w r w' H. unfold f_check_version_compatibility in H. destruct (f_check T w f v); try discriminate H. injection H as _ <-. reflexivity. Qed.
Lemma grows_set_version f v : grows (f_set_version T f v).
Proof. unfold f_set_version. apply grows_bind; [apply grows_ro; apply ro_check_compat|intros [errs mask]]. grows_tac. Qed.
Lemma ro_e_serialize h : ro (e_serialize T tab_el tab_at tab_en float_fmt h).
Proof. intros w r w' H. unfold e_serialize in H. destruct (ser_heap _ _ _ _ _ _ _ _ _ _ _); try discriminate H. injection H as _ <-. reflexivity. Qed.

Lemma ro_ser_tail ff i (hdr : list N) :
  ro (fun w => match ser_heap T tab_el tab_at tab_en float_fmt (fuel_of w) w ff i 0 false with
               | Val s => Val (OK (hdr ++ s), w) | Pan s => Pan s | Fuel => Fuel end).
Proof. intros w r w' H. cbv beta in H. destruct (ser_heap _ _ _ _ _ _ _ _ _ _ _); try discriminate H. injection H as _ <-. reflexivity. Qed.
Lemma grows_ser_tail ff i (hdr : list N) :
  grows (fun w => match ser_heap T tab_el tab_at tab_en float_fmt (fuel_of w) w ff i 0 false with
                  | Val s => Val (OK (hdr ++ s), w) | Pan s => Pan s | Fuel => Fuel end).
Proof. apply grows_ro. apply ro_ser_tail. Qed.
Hint Resolve grows_ser_tail : grows.
Lemma grows_f_serialize f : grows (f_serialize T tab_el tab_at tab_en check_fn float_fmt attr_schema_location f).
Proof. unfold f_serialize. grows_tac. Qed.

Lemma grows_run_op o : grows (run_op T tab_el tab_en check_fn LATEST root_attrs o).
Proof. destruct o; cbn [run_op]; unfold welem, wunit; grows_tac. Qed.
Lemma grows_duplicate m : grows (m_duplicate T tab_el tab_en check_fn LATEST root_attrs m).
Proof.
  intros w r w' E. unfold m_duplicate in E.
  destruct (m_duplicate_body T LATEST root_attrs m w) as [[[c|e] w1]| |] eqn:Eb; try discriminate E.
  - injection E as _ <-. exact (grows_duplicate_body m _ _ _ Eb).
  - injection E as _ <-. destruct (grows_duplicate_body m _ _ _ Eb) as (G1 & G2 & G3).
    unfold Grow, drop_models_files; cbn [w_next w_models w_files]. rewrite !firstn_length. repeat split; lia.
Qed.
Lemma grows_run_op2 o : pending_indep2 o = false -> grows (run2 o).
Proof.
  intros Hp. destruct o; try discriminate Hp; cbn [run_op2].
  - apply grows_bind; [apply grows_run_op|intros ?; apply grows_ro; apply ro_ret].
  - apply grows_bind; [apply grows_e_sort|intros ?; apply grows_ro; apply ro_ret].
  - apply grows_bind; [apply grows_m_sort|intros ?; apply grows_ro; apply ro_ret].
  - apply grows_bind; [apply grows_duplicate|intros ?; apply grows_ro; apply ro_ret].
  - apply grows_bind; [apply grows_set_version|intros ?; apply grows_ro; apply ro_ret].
  - apply grows_bind; [apply grows_ro; apply ro_check_compat|intros [errs mask]; apply grows_ro; apply ro_ret].
  - apply grows_bind; [apply grows_f_serialize|intros ?; apply grows_ro; apply ro_ret].
  - apply grows_bind; [apply grows_ro; apply ro_e_serialize|intros ?; apply grows_ro; apply ro_ret].
Qed.

Section Region.
Variable P : id -> Prop.
Variable PM : N -> Prop.
Variable PF : N -> Prop.
Section Bounds.
Variables L LM LF : N.
Notation irp := (CopyProofsIrp.irpqL P PM PF L LM LF (fun _ => True)).
Notation irpq := (irpqL P PM PF L LM LF).
Notation NPq := (fun c : id => ~ P c).

(* ---------- sort ---------- *)
Lemma irpq_keyed_loop rec ty : (forall c, grows (rec c)) -> (forall c, ~ P c -> irp (rec c)) ->
  forall l, OutC P l -> irpq (OutP P) (keyed_loop T rec ty l).
Proof.
  intros Hgr Hrec. induction l as [|[c|d] l IH]; intros Hl; cbn [keyed_loop].
  - apply irpq_ret. intros k c [].
  - apply OutC_cons_elem in Hl as (Hc & Hl). eapply irpq_bind; [apply Hrec; exact Hc|solve [grows_tac]|]. intros _ _.
    apply irpq_get; [exact Hc|]. intros cn Gcn.
    eapply irpq_bind; [apply irp_ro; ro_tac|solve [grows_tac]|]. intros fs _. destruct fs as [[x idx]|]; [|apply irpq_panic].
    eapply irpq_bind; [apply IH; exact Hl|solve [grows_tac]|]. intros more Hmore. apply irpq_ret.
    intros k j [H|H]; [injection H as _ <-; exact Hc|exact (Hmore k j H)].
  - apply OutC_cons_data in Hl. apply IH. exact Hl.
Qed.
Lemma irp_iter_loop rec : (forall c, grows (rec c)) -> (forall c, ~ P c -> irp (rec c)) -> forall l, OutC P l -> irp (iter_loop rec l).
Proof.
  intros Hgr Hrec. induction l as [|[c|d] l IH]; intros Hl; cbn [iter_loop].
  - apply irpq_ret. exact I.
  - apply OutC_cons_elem in Hl as (Hc & Hl). eapply irpq_bind; [apply Hrec; exact Hc|solve [grows_tac]|]. intros _ _. apply IH. exact Hl.
  - apply OutC_cons_data in Hl. apply IH. exact Hl.
Qed.

Lemma irp_sort_f fuel : forall i, ~ P i ->
  irp (sort_f T tab_el tab_at tab_en name_index name_definition_ref isort_poly fuel i).
Proof.
  induction fuel as [|f IH]; intros i Hi; cbn [sort_f]; [apply irpq_fuel|].
  apply irpq_get; [exact Hi|]. intros n Gn.
  eapply irpq_bind; [apply irp_ro; ro_tac|solve [grows_tac]|]. intros mode _.
  destruct ((mode =? MCharacters) || (mode =? MMixed)); [apply irpq_ret; exact I|].
  eapply irpq_bind; [apply irp_ro; ro_tac|solve [grows_tac]|]. intros ordered _.
  destruct (negb ordered && (1 <? N.of_nat (List.length (n_content n)))).
  - eapply irpq_bind; [apply irpq_keyed_loop; [apply grows_sort_f|exact IH|exact (GoodN_OutC P PM n Gn)]|solve [grows_tac]|]. intros keyed Hk.
    apply irpq_wget. intros w0. eapply irpq_bind; [apply irp_ro; ro_tac|solve [grows_tac]|]. intros _ _.
    apply irp_modify_node; [exact Hi|]. intros n' Gn'. destruct Gn' as (G1 & G2 & G3).
    split; [|split; [exact G2|exact G3]]. cbn [n_content set_content]. intros c Hc.
    apply in_map_iff in Hc as ((k & j) & [= <-] & Hin). apply in_isort in Hin. exact (Hk k j Hin).
  - apply irp_iter_loop; [apply grows_sort_f|exact IH|exact (GoodN_OutC P PM n Gn)].
Qed.

Lemma irp_e_sort i : ~ P i -> irp (e_sort T tab_el tab_at tab_en name_index name_definition_ref i).
Proof. intros Hi. unfold e_sort, e_sort_with. apply irpq_wget. intros w0. apply irp_sort_f. exact Hi. Qed.
Lemma irp_m_sort m : ~ PM m -> irp (m_sort T tab_el tab_at tab_en name_index name_definition_ref m).
Proof.
  intros Hm. unfold m_sort, m_sort_with. apply irpq_get_model; [exact Hm|]. intros x Gx.
  apply (irp_e_sort (m_root x)). exact (proj1 Gx).
Qed.

(* ---------- file version, compatibility check, serialization ---------- *)
Lemma irp_set_version f v : ~ PF f -> irp (f_set_version T f v).
Proof.
  intros Hf. unfold f_set_version. eapply irpq_bind; [apply irp_ro; apply ro_check_compat|solve [grows_tac]|]. intros [errs mask] _.
  irp_tac.
Qed.
Lemma irp_f_serialize f : ~ PF f -> irp (f_serialize T tab_el tab_at tab_en check_fn float_fmt attr_schema_location f).
Proof.
  intros Hf. unfold f_serialize. irp_tac. apply irp_ro. apply ro_ser_tail.
Qed.

(* ---------- duplicate ---------- *)
Lemma irp_dup_files c : ~ PM c -> forall files fm, irp (dup_files T c files fm).
Proof.
  intros Hc. induction files as [|f files IH]; intros fm; cbn [dup_files]; [apply irpq_ret; exact I|].
  apply irpq_get_file_any. intros fl.
  eapply irpq_bind; [apply irpq_create_file; exact Hc|solve [grows_tac]|]. intros nf Hnf.
  apply irpq_get_file; [exact Hnf|]. intros nfl Hnfl.
  eapply irpq_bind; [apply irp_set_file; [exact Hnf|exact Hnfl]|solve [grows_tac]|]. intros _ _. apply IH.
Qed.
Lemma irp_dup_children croot : ~ P croot -> forall items, irp (dup_children T LATEST croot items).
Proof.
  intros Hc. induction items as [|[e|d] items IH]; cbn [dup_children]; [apply irpq_ret; exact I| |exact IH].
  eapply irpq_bind; [apply irpq_e_copy; exact Hc|solve [grows_tac]|]. intros _ _. exact IH.
Qed.
Lemma irp_dup_membership fm : forall oids cids, OutI P cids -> irp (dup_membership fm oids cids).
Proof.
  induction oids as [|o oids IH]; intros [|c cids] Hc; cbn [dup_membership]; try (apply irpq_ret; exact I).
  apply OutI_cons in Hc as (Hc & Hcs). apply irpq_get_any. intros on. apply irpq_wget. intros w0.
  eapply irpq_bind; [|solve [grows_tac]|intros _ _; apply IH; exact Hcs]. irp_tac.
Qed.

Lemma irpq_duplicate_body m : irpq (fun c => ~ PM c) (m_duplicate_body T LATEST root_attrs m).
Proof.
  unfold m_duplicate_body. apply irpq_get_model_any. intros x.
  eapply irpq_bind; [apply irpq_new_model|solve [grows_tac]|]. intros c Hc.
  apply irpq_get_any. intros rn. apply irpq_get_model; [exact Hc|]. intros cx Gcx.
  assert (Hroot : ~ P (m_root cx)) by exact (proj1 Gcx).
  eapply irpq_bind; [irp_tac|solve [grows_tac]|]. intros _ _.
  eapply irpq_bind; [apply irp_dup_files; exact Hc|solve [grows_tac]|]. intros fm _.
  eapply irpq_bind; [apply irp_dup_children; exact Hroot|solve [grows_tac]|]. intros _ _.
  apply irpq_wget. intros w0.
  eapply irpq_bind; [apply irp_ro; ro_tac|solve [grows_tac]|]. intros oids _.
  eapply irpq_bind; [apply irpq_dfs_ids; exact Hroot|solve [grows_tac]|]. intros cids Hcids.
  eapply irpq_bind; [apply irp_dup_membership; exact Hcids|solve [grows_tac]|]. intros _ _. apply irpq_ret. exact Hc.
Qed.

(* every operation except duplicate (its failure path shrinks the world again) and the pending load, for all bounds *)
Theorem irp_run_op2L o : pending_indep2 o = false -> is_dup o = false -> op2_apart P PM PF o -> irp (run2 o).
Proof.
  intros Hp Hd (Hh & Hm & Hf). destruct o; try discriminate Hp; try discriminate Hd;
    cbn [op2_handles op2_models op2_files] in Hh, Hm, Hf; cbn [run_op2].
  - eapply irpq_bind; [apply (irp_run_opL T tab_el tab_en check_fn LATEST root_attrs P PM PF L LM LF o); split; assumption|solve [grows_tac]|].
    intros v _. apply irpq_ret. exact I.
  - eapply irpq_bind; [apply irp_e_sort; apply Hh; left; reflexivity|solve [grows_tac]|]. intros _ _. apply irpq_ret. exact I.
  - eapply irpq_bind; [apply irp_m_sort; apply Hm; left; reflexivity|solve [grows_tac]|]. intros _ _. apply irpq_ret. exact I.
  - eapply irpq_bind; [apply irp_set_version; apply Hf; left; reflexivity|solve [grows_tac]|]. intros _ _. apply irpq_ret. exact I.
  - eapply irpq_bind; [apply irp_ro; apply ro_check_compat|solve [grows_tac]|]. intros [errs mask] _. apply irpq_ret. exact I.
  - eapply irpq_bind; [apply irp_f_serialize; apply Hf; left; reflexivity|solve [grows_tac]|]. intros t _. apply irpq_ret. exact I.
  - eapply irpq_bind; [apply irp_ro; apply ro_e_serialize|solve [grows_tac]|]. intros t _. apply irpq_ret. exact I.
Qed.

End Bounds.

Notation irp := (CopyProofsIrp.irpq P PM PF (fun _ => True)).
Notation irpq := (irpq P PM PF).

Lemma irpq_duplicate m : irpq (fun c => ~ PM c) (m_duplicate T tab_el tab_en check_fn LATEST root_attrs m).
Proof.
  assert (HB : irpq (fun c => ~ PM c) (m_duplicate_body T LATEST root_attrs m)).
  { apply irpq_of_L. intros L LM LF. apply irpq_duplicate_body. }
  intros w r w' S E. unfold m_duplicate in E.
  destruct (m_duplicate_body T LATEST root_attrs m w) as [[[c|e] w1]| |] eqn:Eb; try discriminate E.
  - injection E as <- <-. exact (HB _ _ _ S Eb).
  - injection E as <- <-. destruct (HB _ _ _ S Eb) as (S1 & Sm1 & _).
    destruct S as (A1 & A2 & A3 & A4 & A5 & A6). destruct S1 as (B1 & B2 & B3 & B4 & B5 & B6). destruct Sm1 as (C1 & C2 & C3 & C4 & C5 & C6).
    assert (Hm : forall k, PM k -> nth_opt (firstn (List.length (w_models w)) (w_models w1)) (N.to_nat k) = nth_opt (w_models w) (N.to_nat k)).
    { intros k Hk. destruct (A4 k Hk) as (xk & Hxk). rewrite nth_opt_firstn_lt by (eapply nth_opt_Some; eauto). auto. }
    assert (Hf : forall k, PF k -> nth_opt (firstn (List.length (w_files w)) (w_files w1)) (N.to_nat k) = nth_opt (w_files w) (N.to_nat k)).
    { intros k Hk. destruct (A5 k Hk) as (xk & Hxk). rewrite nth_opt_firstn_lt by (eapply nth_opt_Some; eauto). auto. }
    split; [|split; [|intros a [=]]]; unfold drop_models_files.
    + split; [exact B1|]. split; [exact B2|]. cbn [w_models w_files]. split; [|split; [|split]].
      * intros k x Hk Hx. apply nth_opt_firstn_some in Hx as (Hx & _). eapply B3; eauto.
      * intros k Hk. rewrite (Hm k Hk). auto.
      * intros k Hk. rewrite (Hf k Hk). auto.
      * intros k fl Hk Hfl. apply nth_opt_firstn_some in Hfl as (Hfl & _). eapply B6; eauto.
    + split; [exact C1|]. cbn [w_models w_files]. split; [exact Hm|]. split; [exact Hf|].
      unfold Grow; cbn [w_next w_models w_files]. rewrite !firstn_length. repeat split; lia.
Qed.

(* ---------- the alphabet ---------- *)
Theorem irp_run_op2 o : pending_indep2 o = false -> op2_apart P PM PF o -> irp (run2 o).
Proof.
  intros Hp Ha. destruct (is_dup o) eqn:Hd.
  - destruct o; try discriminate Hd. cbn [run_op2].
    intros w r w' S E. apply wbind_inv in E as [(c & w1 & E1 & E2) | (e & E1 & ->)].
    + apply wret_inv in E2 as (-> & ->). destruct (irpq_duplicate m _ _ _ S E1) as (S1 & Sm & _). auto.
    + destruct (irpq_duplicate m _ _ _ S E1) as (S1 & Sm & _). split; [exact S1|]. split; [exact Sm|]. intros a [=].
  - apply irpq_of_L. intros L LM LF. apply irp_run_op2L; assumption.
Qed.

End Region.
(* histories over op2 *)
Fixpoint run_ops2 (l : list op2) (w : world) : res world :=
  match l with
  | [] => Val w
  | o :: r => match run2 o w with Val (_, w') => run_ops2 r w' | Pan s => Pan s | Fuel => Fuel end
  end.

Theorem independent_history2 P PM PF l : forall w w',
  Sealed P PM PF w -> Forall (fun o => pending_indep2 o = false /\ op2_apart P PM PF o) l ->
  run_ops2 l w = Val w' -> Sealed P PM PF w' /\ Same P PM PF w w'.
Proof.
  induction l as [|o l IH]; intros w w' S HF H; cbn [run_ops2] in H.
  - injection H as <-. split; [exact S|apply Same_refl].
  - inversion HF as [|? ? (Hp & Ho) Hl]; subst.
    destruct (run2 o w) as [[r w1]| |] eqn:E; try discriminate H.
    destruct (irp_run_op2 P PM PF o Hp Ho _ _ _ S E) as (S1 & Sm1 & _).
    destruct (IH _ _ S1 Hl H) as (S2 & Sm2). split; [exact S2|eapply Same_trans; eauto].
Qed.

(* INDEPENDENCE over op2 (partial: pending_indep2 = OpLoad), one model b of a world with TreeInv *)
Theorem independent_all2_partial o w r w' b xb :
  pending_indep2 o = false ->
  TreeInv w -> nth_opt (w_models w) (N.to_nat b) = Some xb ->
  IndexApart w (Sub w (m_root xb)) b -> FilesListed w b xb ->
  op2_apart (Sub w (m_root xb)) (fun m => m = b) (fun f => In f (m_files xb)) o ->
  run2 o w = Val (r, w') ->
  nth_opt (w_models w') (N.to_nat b) = Some xb /\
  (forall f, In f (m_files xb) -> nth_opt (w_files w') (N.to_nat f) = nth_opt (w_files w) (N.to_nat f)) /\
  (forall x, Sub w (m_root xb) x -> w_nodes w' x = w_nodes w x) /\
  (forall x, Sub w' (m_root xb) x <-> Sub w (m_root xb) x).
Proof.
  intros Hp HT Hb HI HF Ho H. pose proof (Sealed_of_TreeInv w b xb HT Hb HI HF) as S.
  destruct (irp_run_op2 _ _ _ o Hp Ho _ _ _ S H) as (_ & Sm & _). exact (Same_model w w' b xb Hb Sm).
Qed.

End Indep2.
