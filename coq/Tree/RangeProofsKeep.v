(* Tree/RangeProofsKeep.v — C07: a relation for the steps of a move that do not insert: no node changes its name or type,
   every child list only loses sub-elements (as a SUBSEQUENCE: the order of the remaining ones is kept), and the child list of
   the designated destination h either keeps every position (some items may be overwritten by character data) or ends without
   any sub-element.  Reflexive, transitive, preserved by every step of move_element_local / move_element_full before the
   final insertion. *)
From Coq Require Import Arith.
From AV Require Import Base.Bytes Base.Outcome Hash.HashModel Spec.SpecOps Tree.Heap Tree.Ops Tree.Script Tree.Inv Tree.InvProofsBase
  Tree.InvProofsCore Tree.InvProofsTree Tree.InvProofsPrim Tree.InvProofsCreate Tree.InvProofsData Tree.InvProofsRefs
  Tree.InvProofsRemove Tree.InvProofsMove.
Open Scope list_scope.
Open Scope N_scope.

Inductive subseq {A} : list A -> list A -> Prop :=
| ss_nil : subseq [] []
| ss_skip x l' l : subseq l' l -> subseq l' (x :: l)
| ss_take x l' l : subseq l' l -> subseq (x :: l') (x :: l).

Lemma subseq_refl {A} (l : list A) : subseq l l.
Proof. induction l; [apply ss_nil | apply ss_take; auto]. Qed.
Lemma subseq_nil {A} (l : list A) : subseq [] l.
Proof. induction l; [apply ss_nil | apply ss_skip; auto]. Qed.
Lemma subseq_trans {A} (a b c : list A) : subseq a b -> subseq b c -> subseq a c.
Proof.
  intros H1 H2. revert a H1. induction H2; intros a H1.
  - exact H1.
  - apply ss_skip. apply IHsubseq. exact H1.
  - inversion H1; subst; [apply ss_skip; apply IHsubseq; assumption | apply ss_take; apply IHsubseq; assumption].
Qed.
Lemma subseq_remove_at {A} (l : list A) k : subseq (remove_at l k) l.
Proof.
  revert k. induction l as [|x l IH]; intros k; [destruct k; apply ss_nil|].
  destruct k; cbn [remove_at]; [apply ss_skip; apply subseq_refl | apply ss_take; apply IH].
Qed.
Lemma subseq_app {A} (a a' b b' : list A) : subseq a' a -> subseq b' b -> subseq (a' ++ b') (a ++ b).
Proof. intros H1 H2. induction H1; cbn [app]; [exact H2 | apply ss_skip; auto | apply ss_take; auto]. Qed.
Lemma subseq_in {A} (a b : list A) x : subseq a b -> In x a -> In x b.
Proof. intros H. induction H; intros Hi; [exact Hi | right; auto | destruct Hi as [<-|Hi]; [left; reflexivity | right; auto]]. Qed.

(* position-wise: the same item, or overwritten by character data *)
Inductive pdull : list citem -> list citem -> Prop :=
| pd_nil : pdull [] []
| pd_same x r r' : pdull r r' -> pdull (x :: r) (x :: r')
| pd_data x d r r' : pdull r r' -> pdull (x :: r) (CData d :: r').

Lemma pdull_refl l : pdull l l.
Proof. induction l; [apply pd_nil | apply pd_same; auto]. Qed.
Lemma pdull_trans a b c : pdull a b -> pdull b c -> pdull a c.
Proof.
  intros H1. revert c. induction H1; intros c H2; inversion H2; subst;
    [apply pd_nil | apply pd_same; auto | apply pd_data; auto | apply pd_data; auto | apply pd_data; auto].
Qed.
Lemma pdull_elems a b : pdull a b -> subseq (elems b) (elems a).
Proof.
  induction 1; cbn [elems flat_map app].
  - apply ss_nil.
  - destruct x; cbn [app]; [apply ss_take; exact IHpdull | exact IHpdull].
  - destruct x; cbn [app]; [apply ss_skip; exact IHpdull | exact IHpdull].
Qed.
Lemma pdull_length a b : pdull a b -> List.length b = List.length a.
Proof. induction 1; cbn [List.length]; auto. Qed.

Definition hrel (c c' : list citem) : Prop := pdull c c' \/ elems c' = [].
Lemma hrel_refl c : hrel c c. Proof. left. apply pdull_refl. Qed.
Lemma hrel_trans a b c : hrel a b -> hrel b c -> hrel a c.
Proof.
  intros [H1|H1] [H2|H2]; [left; eapply pdull_trans; eauto | right; exact H2 | | right; exact H2].
  right. pose proof (pdull_elems _ _ H2) as S. rewrite H1 in S. inversion S. reflexivity.
Qed.
Lemma hrel_elems a b : hrel a b -> subseq (elems b) (elems a).
Proof. intros [H|H]; [apply pdull_elems; exact H | rewrite H; apply subseq_nil]. Qed.

Section Keep.
Variable h : id.

Definition node_keep (i : id) (n n' : node) : Prop :=
  n_name n' = n_name n /\ n_type n' = n_type n /\ subseq (elems (n_content n')) (elems (n_content n)) /\
  (i = h -> hrel (n_content n) (n_content n')).

Definition Keep (w w' : world) : Prop :=
  forall i n, w_nodes w i = Some n -> exists n', w_nodes w' i = Some n' /\ node_keep i n n'.

Lemma node_keep_refl i n : node_keep i n n.
Proof. repeat split; auto using subseq_refl, hrel_refl. Qed.
Lemma node_keep_trans i a b c : node_keep i a b -> node_keep i b c -> node_keep i a c.
Proof.
  intros (N1 & T1 & S1 & H1) (N2 & T2 & S2 & H2). split; [congruence|]. split; [congruence|].
  split; [eapply subseq_trans; eauto|]. intros E. eapply hrel_trans; eauto.
Qed.
Lemma Keep_refl w : Keep w w.
Proof. intros i n H. exists n. split; auto using node_keep_refl. Qed.
Lemma Keep_trans a b c : Keep a b -> Keep b c -> Keep a c.
Proof.
  intros H1 H2 i n Hn. destruct (H1 _ _ Hn) as (n1 & Hn1 & K1). destruct (H2 _ _ Hn1) as (n2 & Hn2 & K2).
  exists n2. split; auto. eapply node_keep_trans; eauto.
Qed.

Definition keepp {A} (m : W A) : Prop := forall w r w', m w = Val (r, w') -> Keep w w'.

Lemma keepp_ro {A} (m : W A) : ro m -> keepp m.
Proof. intros R w r w' H. apply R in H. subst. apply Keep_refl. Qed.
Lemma keepp_bind {A B} (m : W A) (k : A -> W B) : keepp m -> (forall a, keepp (k a)) -> keepp (wbind m k).
Proof.
  intros Hm Hk w r w' H. apply wbind_inv in H as [(a & w1 & H1 & H2) | (e & H1 & _)].
  - eapply Keep_trans; [eapply Hm; eauto | eapply Hk; eauto].
  - eapply Hm; eauto.
Qed.
Lemma keepp_try {A} (m : W A) : keepp m -> keepp (wtry m).
Proof. intros Hm w r w' H. apply wtry_inv in H as (r0 & H & _). eapply Hm; eauto. Qed.
Lemma keepp_nfp {A} (m : W A) : nfp m -> keepp m.
Proof.
  intros Hn w r w' H. destruct (Hn _ _ _ H) as (Hx & _). intros i n Hi. exists n. rewrite Hx. split; auto using node_keep_refl.
Qed.

Lemma keep_wset w i n n' : w_nodes w i = Some n -> node_keep i n n' -> Keep w (wset w i n').
Proof.
  intros Hn K j nj Hj. unfold wset. cbn [w_nodes]. unfold upd. destruct (j =? i) eqn:E.
  - apply N.eqb_eq in E. subst j. rewrite Hn in Hj. injection Hj as <-. eauto.
  - exists nj. split; auto using node_keep_refl.
Qed.

End Keep.
