(* Tree/Observe.v — the observation function of property C11 ("failed operations have no effect").
   What a client of the library can see of a world:
     * for EVERY allocated node (handles are node ids; stale handles are handles too) its whole node record:
       parent link, element name, type, content with all values, attributes, local file membership, comment;
     * the files (name, version, model, standalone flag);
     * for every model: the root, the file list (Vec order is observable through `files()`), the identifiables map
       and the reference-origins map.
   Decisions:
     * `m_idents` is observed AS A LIST: `identifiable_elements()` iterates in IndexMap order, which a client can see.
       (The correspondence harness compares it sorted; list equality is the stronger statement and it is what the
       theorems prove.)
     * `m_origins` is a HashMap: only `get_references_to(path)` per key and the multiset of keys are observable.
       The weak relation [origins_equiv] says that; the theorems prove the stronger list equality, [origins_eq_equiv]
       shows that it implies the weak one.
     * A failing `create_copied_sub_element` may already have allocated the copy.  No handle to those nodes is ever
       returned and nothing that was allocated before lists them, so they are garbage: [obs_eq_upto_garbage] allows
       exactly that - every previously allocated id keeps its node record, files and models are unchanged, and ids
       may have been allocated beyond the old bound (unreachable from every root and from every old node, see
       FailProofs*.v: garbage_unreachable).
   MODEL/SPEC ONLY: definitions + Examples. *)
From Coq Require Import Permutation.
From AV Require Import Base.Bytes Base.Outcome Hash.HashModel Tree.Heap Tree.Ops Tree.Script.
Open Scope list_scope.
Open Scope N_scope.

Record obs := mkObs {
  o_next : N;                          (* number of handles that can exist *)
  o_nodes : list (option node);        (* the node record behind handle 0, 1, ..., o_next - 1 *)
  o_files : list file;
  o_models : list model
}.

Definition ids_below (n : N) : list N := map N.of_nat (seq 0 (N.to_nat n)).

Definition observe (w : world) : obs :=
  mkObs (w_next w) (map (w_nodes w) (ids_below (w_next w))) (w_files w) (w_models w).

(* the weak (order-insensitive) reading of the origins map *)
Definition origins_equiv (a b : list (list N * list id)) : Prop :=
  forall p, Permutation (match assoc_get p a with Some l => l | None => [] end)
                        (match assoc_get p b with Some l => l | None => [] end).

Definition model_equiv (x y : model) : Prop :=
  m_root x = m_root y /\ m_files x = m_files y /\ m_idents x = m_idents y /\ origins_equiv (m_origins x) (m_origins y).

(* identical observation *)
Definition obs_eq (w w' : world) : Prop := observe w' = observe w.

(* nothing that existed changed; ids >= w_next w may have been allocated *)
Definition obs_eq_upto_garbage (w w' : world) : Prop :=
  w_next w <= w_next w' /\
  (forall i, i < w_next w -> w_nodes w' i = w_nodes w i) /\
  w_files w' = w_files w /\
  w_models w' = w_models w.

(* downward reachability through content lists (what a client can navigate to from a handle) *)
Inductive reach_from (w : world) (a : id) : id -> Prop :=
| rf_refl : reach_from w a a
| rf_step p n c : reach_from w a p -> w_nodes w p = Some n -> In (CElem c) (n_content n) -> reach_from w a c.

(* every id mentioned by an allocated node or a model root is allocated, nothing is allocated beyond w_next *)
Definition ClosedHeap (w : world) : Prop :=
  (forall i n c, w_nodes w i = Some n -> In (CElem c) (n_content n) -> c < w_next w) /\
  (forall x, In x (w_models w) -> m_root x < w_next w) /\
  (forall i n, w_nodes w i = Some n -> i < w_next w).
