(* Tree/IndexProofsSortReal.v — [F] MaskOk (agent-c14's table hypothesis of the sort theorems: the SHORT-NAME entry of every named
   type is valid in some version) holds for the generated tables, by a sweep over the data type table. *)
From Coq Require Import Lia.
From AV Require Import Base.Bytes Base.Outcome Hash.HashModel Spec.SpecOps Spec.SpecReal Tree.SpecWFReal Tree.Heap Tree.SortProofsHeap
  Tree.SortProofsNames Tree.IndexProofsTablesReal.
Open Scope list_scope.
Open Scope N_scope.

Definition mask_ok_at (ty : N) : bool :=
  match short_name_version_mask RT ty with Val (Some m) => negb (N.land MAXV m =? 0) | _ => true end.
Lemma rt_mask_sweep : forallb mask_ok_at (ids_upto (n_datatypes RT)) = true.
Proof. vm_compute. reflexivity. Qed.

Theorem real_mask_ok : MaskOk RT.
Proof.
  intros ty m H.
  assert (Hb : ty < n_datatypes RT).
  { unfold short_name_version_mask, sub_slice, dt, unwrap in H. destruct (T_datatypes RT ty) as [d|] eqn:Ed; [|discriminate H].
    exact (real_dt_bound _ _ Ed). }
  pose proof rt_mask_sweep as HS. rewrite forallb_forall in HS. specialize (HS ty (ids_upto_in _ _ Hb)).
  unfold mask_ok_at in HS. rewrite H in HS. apply Bool.negb_true_iff, N.eqb_neq in HS. exact HS.
Qed.
