(* Tree/Ops.v — model of the element / model / file operations of the data crate
   (elementraw.rs, element.rs, autosarmodel.rs, arxmlfile.rs), function by function, single-threaded:
   every lock acquisition succeeds unless the SAME thread already holds the lock in a conflicting mode, in which case
   the Rust blocks forever; those call shapes are marked `Pan "HANG ..."`.
   Rust expressions that can panic are `Pan site`.  Upward walks use fuel = number of allocated nodes + 1
   (a longer chain is cyclic: the Rust would loop forever); recursion over the tree uses the same bound.
   MODEL ONLY: definitions, no proofs. *)
From AV Require Import Base.Bytes Base.Outcome Hash.HashModel Tree.Heap.
Open Scope string_scope.
Open Scope list_scope.
Open Scope N_scope.

Section Ops.
Variable T : tables.
Variable tab_el tab_en : nametab.                 (* ElementName / EnumItem string tables *)
Variable check_fn : N -> list N -> res bool.      (* validate_regex_n *)
Variable LATEST : N.                              (* AutosarVersion::LATEST as u32 *)
Variable name_index name_definition_ref : N.      (* ElementName::Index, ::DefinitionRef (used by cmp / merge) *)

Definition SHORT := name_short_name T.
Definition wl {A} (r : res A) : W A := wlift r.
Definition fuel_of (w : world) : nat := S (N.to_nat (w_next w)).

(* ------------------------------------------------------------------ values *)
Definition opt_le (maxlen : option N) (len : nat) : bool :=
  match maxlen with Some m => N.of_nat len <=? m | None => true end.

(* CharacterData::check_value *)
Definition check_value (v : cdata) (spec : cdspec) (version : N) : res bool :=
  match spec, v with
  | CEnum items, DEnum e =>
    Val (match find (fun it => fst it =? e) items with
         | Some (_, mask) => negb (N.land mask version =? 0)
         | None => false end)
  | CPattern fn maxlen, DString s =>
    if opt_le maxlen (List.length s) then check_fn fn s else Val false
  | CString _ maxlen, DString s => Val (opt_le maxlen (List.length s))
  | CUInt, DUInt _ => Val true
  | CFloat, DFloat _ => Val true
  | _, _ => Val false
  end.

(* CharacterData::check_version_compatibility -> (compatible, mask) *)
Definition value_compat (v : cdata) (spec : cdspec) (version : N) : bool * N :=
  match spec with
  | CEnum items =>
    match v with
    | DEnum e => match find (fun it => fst it =? e) items with
                 | Some (_, mask) => (negb (N.land mask version =? 0), mask)
                 | None => (false, 0) end
    | _ => (false, 4294967295)
    end
  | _ => (true, 4294967295)
  end.

(* CharacterData::to_string for the conversion in Element::set_character_data_internal *)
Definition cdata_to_string (v : cdata) : res (list N) :=
  match v with
  | DEnum e => unwrap "EnumItem::to_str" (to_str tab_en e)
  | DString s => Val s
  | DUInt n => Val (to_dec n)
  | DFloat _ => Pan "UNMODELLED: f64::to_string"
  end.

(* ------------------------------------------------------------------ reading a node *)
(* ElementRaw::character_data *)
Definition character_data (n : node) : res (option cdata) :=
  match n_content n with
  | [CData d] => (let* mode := content_mode T (n_type n) in
                  Val (if (mode =? MCharacters) || (mode =? MMixed) then Some d else None))%res
  | _ => Val None
  end.

(* ElementRaw::item_name *)
Definition item_name (n : node) : W (option (list N)) :=
  (do named <- wl (is_named T (n_type n));
   if negb named then wret None else
   match n_content n with
   | CElem s :: _ =>
     do sn <- get_node s;
     if n_name sn =? SHORT then
       do cd <- wl (character_data sn);
       wret (match cd with Some (DString nm) => Some nm | _ => None end)
     else wret None
   | _ => wret None
   end)%W.

(* ElementRaw::is_identifiable *)
Definition is_identifiable (n : node) : W bool :=
  (do named <- wl (is_named T (n_type n));
   if negb named then wret false else
   match n_content n with
   | CElem s :: _ => do sn <- get_node s; wret (n_name sn =? SHORT)
   | _ => wret false
   end)%W.

(* ElementRaw::parent *)
Definition parent_of (n : node) : W (option id) :=
  match n_parent n with
  | PElem p => wret (Some p)
  | PModel _ => wret None
  | PNone => wfail ItemDeleted
  end.

(* the upward walk of path_unchecked: item names of the ancestors, root first *)
Fixpoint up_names (fuel : nat) (p : pref) (acc : list (list N)) {struct fuel} : W (list (list N)) :=
  match fuel with
  | O => wfuel
  | S f =>
    match p with
    | PNone => wfail ItemDeleted
    | PModel _ => wret acc
    | PElem i =>
      (do n <- get_node i;
       do nm <- item_name n;
       up_names f (n_parent n) (match nm with Some x => x :: acc | None => acc end))%W
    end
  end.

Definition join_path (names : list (list N)) : list N := List.concat (map (fun nm => 47 :: nm) names).

(* ElementRaw::path_unchecked *)
Definition path_unchecked (n : node) : W (list N) :=
  (do own <- item_name n;
   do w <- wget;
   do names <- up_names (fuel_of w) (n_parent n) (match own with Some x => [x] | None => [] end);
   wret (join_path names))%W.

(* ElementRaw::path *)
Definition path_of (n : node) : W (list N) :=
  (do i <- is_identifiable n;
   if i then path_unchecked n else wfail ElementNotIdentifiable)%W.

Definition path_id (i : id) : W (list N) := (do n <- get_node i; path_of n)%W.

(* Element::model *)
Fixpoint model_walk (fuel : nat) (i : id) {struct fuel} : W N :=
  match fuel with
  | O => wfuel
  | S f =>
    (do n <- get_node i;
     match n_parent n with
     | PElem p => model_walk f p
     | PModel m => wret m
     | PNone => wfail ItemDeleted
     end)%W
  end.
Definition model_of (i : id) : W N := (do w <- wget; model_walk (fuel_of w) i)%W.

(* Element::file_membership -> (local?, set) *)
Fixpoint fm_walk (fuel : nat) (self cur : id) {struct fuel} : W (bool * list N) :=
  match fuel with
  | O => wfuel
  | S f =>
    (do n <- get_node cur;
     if negb (is_empty (n_files n)) then wret (cur =? self, n_files n) else
     do p <- parent_of n;
     match p with
     | Some pi => fm_walk f self pi
     | None => wfail NoFilesInModel
     end)%W
  end.
Definition file_membership (i : id) : W (bool * list N) := (do w <- wget; fm_walk (fuel_of w) i i)%W.

(* Element::min_version *)
Definition min_version (i : id) : W N :=
  (do '(_, files) <- file_membership i;
   do w <- wget;
   wret (fold_left (fun ver f => match nth_opt (w_files w) (N.to_nat f) with
                                 | Some x => if f_version x <? ver then f_version x else ver
                                 | None => ver end) files LATEST))%W.

(* ------------------------------------------------------------------ the two indexes *)
Definition get_element_by_path (m : N) (path : list N) : W (option id) :=
  (do x <- get_model m; wret (assoc_get path (m_idents x)))%W.

Definition add_identifiable (m : N) (path : list N) (e : id) : W unit :=
  modify_model m (fun x => set_idents x (assoc_insert path e (m_idents x))).

Definition remove_identifiable (m : N) (path : list N) : W unit :=
  modify_model m (fun x => set_idents x (assoc_swap_remove path (m_idents x))).

(* fix_identifiables: keys are visited in the order of the snapshot `keys().cloned()` *)
Definition fix_identifiables (m : N) (old_path new_path : list N) : W unit :=
  modify_model m (fun x =>
    set_idents x
      (fold_left (fun idents key =>
         match strip_prefix old_path key with
         | Some suffix =>
           if is_empty suffix || starts_with_slash suffix then
             match assoc_get key idents with
             | Some entry => assoc_insert (new_path ++ suffix) entry (assoc_swap_remove key idents)
             | None => idents
             end
           else idents
         | None => idents
         end) (map fst (m_idents x)) (m_idents x))).

Definition add_reference_origin (m : N) (r : list N) (e : id) : W unit :=
  modify_model m (fun x =>
    set_origins x (match assoc_get r (m_origins x) with
                   | Some l => assoc_insert r (l ++ [e]) (m_origins x)
                   | None => m_origins x ++ [(r, [e])]
                   end)).

Definition remove_first (e : id) (l : list id) : list id :=
  match index_of (N.eqb e) l with Some k => swap_remove_at l k | None => l end.

Definition fix_reference_origins (m : N) (old_ref new_ref : list N) (e : id) : W unit :=
  if bytes_eqb old_ref new_ref then wret tt else
  modify_model m (fun x =>
    let o1 := match assoc_get old_ref (m_origins x) with
              | Some l =>
                match index_of (N.eqb e) l with
                | Some k => let l' := swap_remove_at l k in
                            if is_empty l' then assoc_remove old_ref (m_origins x)
                            else assoc_insert old_ref l' (m_origins x)
                | None => m_origins x
                end
              | None => m_origins x
              end in
    set_origins x (match assoc_get new_ref o1 with
                   | Some l => assoc_insert new_ref (l ++ [e]) o1
                   | None => o1 ++ [(new_ref, [e])]
                   end)).

Definition remove_reference_origin (m : N) (r : list N) (e : id) : W unit :=
  modify_model m (fun x =>
    set_origins x (match assoc_get r (m_origins x) with
                   | Some l => let l' := remove_first e l in
                               if is_empty l' then assoc_remove r (m_origins x) else assoc_insert r l' (m_origins x)
                   | None => m_origins x
                   end)).

(* ------------------------------------------------------------------ insertion range *)
Fixpoint lex_cmp (a b : list N) : comparison :=
  match a, b with
  | [], [] => Eq
  | [], _ :: _ => Lt
  | _ :: _, [] => Gt
  | x :: a', y :: b' => match x ?= y with Eq => lex_cmp a' b' | c => c end
  end.
Fixpoint list_eqbN (a b : list N) : bool :=
  match a, b with [], [] => true | x :: a', y :: b' => (x =? y) && list_eqbN a' b' | _, _ => false end.

(* repetition check shared by the Sequence/Equal and Choice/equal branches *)
Definition repeat_conflict (ty : N * N) (idx : list N) : res bool :=
  (let* m := get_sub_element_multiplicity T ty idx in
   Val (match m with Some mu => negb (mu =? 2) | None => false end))%res.

Fixpoint range_loop (ty : N * N) (version : N) (new_idx : list N) (items : list citem) (idx : N) (start_pos end_pos : N)
  {struct items} : W (N * N) :=
  match items with
  | [] => wret (start_pos, end_pos)
  | CData _ :: rest => range_loop ty version new_idx rest (idx + 1) start_pos (idx + 1)
  | CElem c :: rest =>
    (do cn <- get_node c;
     do ex0 <- wl (find_sub_element T ty (n_name cn) version);
     (* fix: an existing child that is not valid in `version` is looked up without the version restriction;
        a child unknown to the type does not restrict the position (`continue`) *)
     do ex <- (match ex0 with Some x => wret (Some x) | None => wl (find_sub_element T ty (n_name cn) 4294967295) end);
     match ex with
     | None => range_loop ty version new_idx rest (idx + 1) start_pos end_pos
     | Some (_, ex_idx) =>
       do g <- wl (find_common_group T ty new_idx ex_idx);
       do gd <- wl (dt T g);
       let mode := dt_mode gd in
       if mode =? MSequence then
         match lex_cmp new_idx ex_idx with
         | Lt => wret (start_pos, end_pos)
         | Eq => do c <- wl (repeat_conflict ty new_idx);
                 if c then wfail ElementInsertionConflict
                 else range_loop ty version new_idx rest (idx + 1) start_pos (idx + 1)
         | Gt => range_loop ty version new_idx rest (idx + 1) (idx + 1) (idx + 1)
         end
       else if mode =? MChoice then
         if list_eqbN new_idx ex_idx then
           do c <- wl (repeat_conflict ty new_idx);
           if c then wfail ElementInsertionConflict
           else range_loop ty version new_idx rest (idx + 1) start_pos (idx + 1)
         else wfail ElementInsertionConflict
       else if (mode =? MBag) || (mode =? MMixed) then
         range_loop ty version new_idx rest (idx + 1) start_pos (idx + 1)
       else wpanic "elementraw.rs calc_element_insert_range: unreachable!()"
     end)%W
  end.

(* ElementRaw::calc_element_insert_range *)
Definition calc_element_insert_range (n : node) (name version : N) : W (N * N) :=
  (do mode <- wl (content_mode T (n_type n));
   if mode =? MCharacters then wfail IncorrectContentType else
   do f <- wl (find_sub_element T (n_type n) name version);
   match f with
   | None => wfail InvalidSubElement
   | Some (_, new_idx) =>
     if (mode =? MBag) || (mode =? MMixed) then wret (0, N.of_nat (List.length (n_content n)))
     else range_loop (n_type n) version new_idx (n_content n) 0 0 0
   end)%W.

(* self.content.insert(position, ..) : Vec::insert panics when position > len *)
Definition content_insert (self : id) (pos : N) (it : citem) : W unit :=
  (do n <- get_node self;
   if N.of_nat (List.length (n_content n)) <? pos then wpanic "Vec::insert: index > len"
   else set_node self (set_content n (insert_at (n_content n) (N.to_nat pos) it)))%W.

Definition new_node (parent : pref) (name : N) (ty : N * N) : node := mkNode parent name ty [] [] [] None.

(* ------------------------------------------------------------------ create *)
(* ElementRaw::create_sub_element_inner *)
Definition create_sub_element_inner (self : id) (name pos version : N) : W id :=
  (do n <- get_node self;
   do f <- wl (find_sub_element T (n_type n) name version);
   match f with
   | None => wfail InvalidSubElement
   | Some (et, _) =>
     do nv <- wl (is_named_in_version T et version);
     if nv then wfail ItemNameRequired else
     do c <- alloc (new_node (PElem self) name et);
     content_insert self pos (CElem c);;
     wret c
   end)%W.

Definition raw_create_sub_element (self : id) (name version : N) : W id :=
  (do n <- get_node self;
   do '(_, e) <- calc_element_insert_range n name version;
   create_sub_element_inner self name e version)%W.

Definition raw_create_sub_element_at (self : id) (name pos version : N) : W id :=
  (do n <- get_node self;
   do '(s, e) <- calc_element_insert_range n name version;
   if (s <=? pos) && (pos <=? e) then create_sub_element_inner self name pos version else wfail InvalidPosition)%W.

(* ElementRaw::set_character_data_internal *)
Definition raw_set_character_data (i : id) (v : cdata) (version : N) : W unit :=
  (do n <- get_node i;
   do mode <- wl (content_mode T (n_type n));
   if (mode =? MCharacters) || ((mode =? MMixed) && Nat.leb (List.length (n_content n)) 1) then
     do spec <- wl (chardata_spec T (n_type n));
     match spec with
     | Some cs =>
       do ok <- wl (check_value v cs version);
       if ok then
         set_node i (set_content n (match n_content n with [] => [CData v] | _ :: r => CData v :: r end))
       else wfail IncorrectContentType
     | None => wfail IncorrectContentType
     end
   else wfail IncorrectContentType)%W.

(* ElementRaw::create_named_sub_element_inner *)
Definition create_named_sub_element_inner (self : id) (name : N) (item : list N) (pos : N) (m : N) (version : N) : W id :=
  (if is_empty item then wfail ItemNameRequired else
   do n <- get_node self;
   do f <- wl (find_sub_element T (n_type n) name version);
   match f with
   | None => wfail InvalidSubElement
   | Some (et, _) =>
     do nv <- wl (is_named_in_version T et version);
     if negb nv then wfail ElementNotIdentifiable else
     do sn <- wl (find_sub_element T et SHORT version);
     do valid <- match sn with
                 | Some (se_type, _) =>
                   do cs <- wl (chardata_spec T se_type);
                   match cs with Some spec => wl (check_value (DString item) spec version) | None => wret false end
                 | None => wret false
                 end;
     if negb valid then wfail IncorrectContentType else
     do parent_path <- path_unchecked n;
     let path := parent_path ++ [47] ++ item in
     do ex <- get_element_by_path m path;
     match ex with
     | Some _ => wfail DuplicateItemName
     | None =>
       do c <- alloc (new_node (PElem self) name et);
       content_insert self pos (CElem c);;
       do s <- raw_create_sub_element c SHORT version;
       do _ <- wtry (raw_set_character_data s (DString item) version);
       add_identifiable m path c;;
       wret c
     end
   end)%W.

Definition raw_create_named_sub_element (self : id) (name : N) (item : list N) (m version : N) : W id :=
  (do n <- get_node self;
   do '(_, e) <- calc_element_insert_range n name version;
   create_named_sub_element_inner self name item e m version)%W.

Definition raw_create_named_sub_element_at (self : id) (name : N) (item : list N) (pos m version : N) : W id :=
  (do n <- get_node self;
   do '(s, e) <- calc_element_insert_range n name version;
   if (s <=? pos) && (pos <=? e) then create_named_sub_element_inner self name item pos m version
   else wfail InvalidPosition)%W.

(* ------------------------------------------------------------------ deep copy *)
Fixpoint copy_attrs (ty : N * N) (version : N) (attrs acc : list (N * cdata)) : W (list (N * cdata)) :=
  match attrs with
  | [] => wret acc
  | (an, av) :: rest =>
    (do sp <- wl (find_attribute_spec T ty an);
     match sp with
     | None => wfail VersionIncompatibleData
     | Some (_, spec, required, mask) =>
       if negb (N.land version mask =? 0) && fst (value_compat av spec version)
       then copy_attrs ty version rest (acc ++ [(an, av)])
       else if negb (required =? 0) then wfail VersionIncompatibleData
       else copy_attrs ty version rest acc
     end)%W
  end.

(* ElementRaw::deep_copy *)
Fixpoint deep_copy (fuel : nat) (src : id) (version : N) {struct fuel} : W id :=
  match fuel with
  | O => wfuel
  | S f =>
    (do n <- get_node src;
     do c <- alloc (mkNode PNone (n_name n) (n_type n) [] [] [] (n_comment n));
     do attrs <- copy_attrs (n_type n) version (n_attrs n) [];
     modify_node c (fun x => set_attrs x attrs);;
     (fix items (l : list citem) : W unit :=
        match l with
        | [] => wret tt
        | CData d :: rest =>
          modify_node c (fun x => set_content x (n_content x ++ [CData d]));; items rest
        | CElem s :: rest =>
          do sn <- get_node s;
          do fs <- wl (find_sub_element T (n_type n) (n_name sn) version);
          match fs with
          | Some _ =>
            do r <- wtry (deep_copy f s version);
            match r with
            | Some cs =>
              modify_node cs (fun x => set_parent x (PElem c));;
              modify_node c (fun x => set_content x (n_content x ++ [CElem cs]));;
              items rest
            | None => items rest
            end
          | None => items rest
          end
        end) (n_content n);;
     wret c)%W
  end.

(* ElementRaw::make_unique_item_name *)
Fixpoint unique_loop (fuel : nat) (m : N) (parent_path orig name : list N) (counter : N) {struct fuel}
  : W (list N * N) :=
  match fuel with
  | O => wfuel
  | S f =>
    (do ex <- get_element_by_path m (parent_path ++ [47] ++ name);
     match ex with
     | Some _ => unique_loop f m parent_path orig (orig ++ [95] ++ to_dec counter) (counter + 1)
     | None => wret (name, counter)
     end)%W
  end.

Definition make_unique_item_name (i : id) (m : N) (parent_path : list N) : W (list N) :=
  (do n <- get_node i;
   do nm <- item_name n;
   match nm with
   | None => wfail ElementNotIdentifiable
   | Some orig =>
     do x <- get_model m;
     do '(name, counter) <- unique_loop (S (S (List.length (m_idents x)))) m parent_path orig orig 1;
     (if 1 <? counter then
        match n_content n with
        | CElem s :: _ => modify_node s (fun sn => set_content sn [CData (DString name)])
        | _ => wret tt
        end
      else wret tt);;
     wret name
   end)%W.

(* is `other` an ancestor of the element whose parent link is p?  (the loops in create_copied / move_element_local) *)
Fixpoint ancestor_is (fuel : nat) (p : pref) (other : id) {struct fuel} : W bool :=
  match fuel with
  | O => wfuel
  | S f =>
    match p with
    | PElem i => if i =? other then wret true else (do n <- get_node i; ancestor_is f (n_parent n) other)%W
    | _ => wret false
    end
  end.

(* the index registration walk over a freshly copied subtree (elements_dfs with the path_parts stack) *)
Fixpoint register_subtree (fuel : nat) (m : N) (cur : list N) (i : id) {struct fuel} : W unit :=
  match fuel with
  | O => wfuel
  | S f =>
    (do n <- get_node i;
     do ident <- is_identifiable n;
     do cur' <- (if ident then
                   do nm <- item_name n;
                   let p := match nm with Some x => cur ++ [47] ++ x | None => cur end in
                   add_identifiable m p i;; wret p
                 else wret cur);
     do isr <- wl (is_ref T (n_type n));
     (if isr then
        do cd <- wl (character_data n);
        match cd with Some (DString r) => add_reference_origin m r i | _ => wret tt end
      else wret tt);;
     (fix kids (l : list citem) : W unit :=
        match l with
        | [] => wret tt
        | CElem c :: rest => register_subtree f m cur' c;; kids rest
        | CData _ :: rest => kids rest
        end) (n_content n))%W
  end.

(* ElementRaw::create_copied_sub_element_inner *)
Definition create_copied_sub_element_inner (self other : id) (pos m version : N) : W id :=
  (do n <- get_node self;
   do w <- wget;
   do anc <- ancestor_is (fuel_of w) (n_parent n) other;
   if anc then wfail ForbiddenCopyOfParent else
   do c <- deep_copy (fuel_of w) other version;
   (* fix a8ba45e: a copy of an identifiable type without SHORT-NAME is refused (the allocated copy stays as garbage) *)
   do cn0 <- get_node c;
   do nv <- wl (is_named_in_version T (n_type cn0) version);
   do id0 <- is_identifiable cn0;
   if nv && negb id0 then wfail ItemNameRequired else
   do path <- path_unchecked n;
   modify_node c (fun x => set_parent x (PElem self));;
   do cn <- get_node c;
   do ident <- is_identifiable cn;
   (if ident then do _ <- make_unique_item_name c m path; wret tt else wret tt);;
   do w2 <- wget;
   register_subtree (fuel_of w2) m path c;;
   content_insert self pos (CElem c);;
   wret c)%W.

Definition raw_create_copied_sub_element (self other : id) (m version : N) : W id :=
  (do n <- get_node self;
   do o <- get_node other;
   do '(_, e) <- calc_element_insert_range n (n_name o) version;
   create_copied_sub_element_inner self other e m version)%W.

Definition raw_create_copied_sub_element_at (self other : id) (pos m version : N) : W id :=
  (do n <- get_node self;
   do o <- get_node other;
   do '(s, e) <- calc_element_insert_range n (n_name o) version;
   if (s <=? pos) && (pos <=? e) then create_copied_sub_element_inner self other pos m version
   else wfail InvalidPosition)%W.

(* ------------------------------------------------------------------ move *)
(* pre-order list of (id) of a subtree: Element::elements_dfs() *)
Fixpoint dfs_ids (fuel : nat) (i : id) {struct fuel} : W (list id) :=
  match fuel with
  | O => wfuel
  | S f =>
    (do n <- get_node i;
     do rest <- (fix kids (l : list citem) : W (list id) :=
                   match l with
                   | [] => wret []
                   | CElem c :: r => do a <- dfs_ids f c; do b <- kids r; wret (a ++ b)
                   | CData _ :: r => kids r
                   end) (n_content n);
     wret (i :: rest))%W
  end.

(* paths of all elements of the subtree whose TYPE is named and whose path() is Ok, with the element *)
Fixpoint named_paths (ids : list id) : W (list (list N * id)) :=
  match ids with
  | [] => wret []
  | i :: rest =>
    (do n <- get_node i;
     do named <- wl (is_named T (n_type n));
     do r <- named_paths rest;
     if named then
       do p <- wtry (path_of n);
       wret (match p with Some x => (x, i) :: r | None => r end)
     else wret r)%W
  end.

(* remove `c` from the content list of `parent` : position(..).unwrap() + Vec::remove *)
Definition detach_from (parent c : id) : W unit :=
  (do pn <- get_node parent;
   match index_of (citem_is c) (n_content pn) with
   | Some k => set_node parent (set_content pn (remove_at (n_content pn) k))
   | None => wfail ElementNotFound      (* fix 72b7a48: position(..).ok_or(ElementNotFound)? *)
   end)%W.

(* ElementRaw::move_element_position *)
Definition move_element_position (self mv : id) (pos e : N) : W id :=
  (do n <- get_node self;
   (* fix fd5588f: the bound is the end of the insertion range (the moved element occupies one position of it) *)
   if pos <? e then
     match index_of (citem_is mv) (n_content n) with
     | Some cur => set_node self (set_content n (insert_at (remove_at (n_content n) cur) (N.to_nat pos) (CElem mv)));;
                   wret mv
     | None => wfail ElementNotFound    (* fix 72b7a48 *)
     end
   else wfail InvalidPosition)%W.

(* ElementRaw::move_element_local *)
Definition move_element_local (self mv : id) (pos m version : N) : W id :=
  (do n <- get_node self;
   do w <- wget;
   do anc <- ancestor_is (fuel_of w) (n_parent n) mv;
   if anc then wfail ForbiddenMoveToSubElement else
   do mn <- get_node mv;
   do sp <- parent_of mn;
   match sp with
   | None => wfail InvalidSubElement
   | Some src_parent =>
     do ids <- dfs_ids (fuel_of w) mv;
     do original <- named_paths ids;
     let original_paths := map fst original in
     (* `self` is write-locked by Element::move_element_here; the upward walk of move_element.path_unchecked() uses
        try_read_for on every ancestor and therefore FAILS when self is one of them (a spurious lock conflict:
        known finding C12-move-to-ancestor).  Nothing has been mutated at this point. *)
     do self_above <- ancestor_is (fuel_of w) (n_parent mn) self;
     if self_above then wfail ParentElementLocked else
     do src_prefix <- path_unchecked mn;
     do dest_prefix <- path_unchecked n;
     detach_from src_parent mv;;
     modify_node mv (fun x => set_parent x (PElem self));;
     do mn2 <- get_node mv;
     do ident <- is_identifiable mn2;
     do dest_path <- (if ident then do nm <- make_unique_item_name mv m dest_prefix; wret (dest_prefix ++ [47] ++ nm)
                      else wret dest_prefix);
     (if ident then fix_identifiables m src_prefix dest_path
      else (fix each (l : list (list N)) : W unit :=
              match l with
              | [] => wret tt
              | op :: r =>
                (match strip_prefix src_prefix op with
                 | Some suffix => fix_identifiables m op (dest_path ++ suffix)
                 | None => wret tt
                 end);; each r
              end) original_paths);;
     (fix each (l : list (list N)) : W unit :=
        match l with
        | [] => wret tt
        | orig_ref :: r =>
          (match strip_prefix src_prefix orig_ref with
           | Some suffix =>
             do x <- get_model m;
             match assoc_get orig_ref (m_origins x) with
             | Some refs =>
               set_model m (set_origins x (assoc_remove orig_ref (m_origins x)));;
               let refstr := dest_path ++ suffix in
               (fix upd_refs (rl : list id) : W unit :=
                  match rl with
                  | [] => wret tt
                  | re :: rr => raw_set_character_data re (DString refstr) version;; upd_refs rr
                  end) refs;;
               (* fix: entry(refstr).or_default().extend(refs) *)
               modify_model m (fun y => set_origins y (match assoc_get refstr (m_origins y) with
                                                        | Some l0 => assoc_insert refstr (l0 ++ refs) (m_origins y)
                                                        | None => m_origins y ++ [(refstr, refs)] end))
             | None => wret tt
             end
           | None => wret tt
           end);; each r
        end) original_paths;;
     content_insert self pos (CElem mv);;
     wret mv
   end)%W.

(* references (text, element) below mv: is_reference() and character_data() as text *)
Fixpoint ref_texts (ids : list id) : W (list (list N * id)) :=
  match ids with
  | [] => wret []
  | i :: rest =>
    (do n <- get_node i;
     do isr <- wl (is_ref T (n_type n));
     do r <- ref_texts rest;
     if isr then
       do cd <- wl (character_data n);
       match cd with
       | Some d => do s <- wl (cdata_to_string d); wret ((s, i) :: r)
       | None => wret r
       end
     else wret r)%W
  end.

(* ElementRaw::move_element_full  (between two models).  original_paths is an FxHashMap: iteration order is
   not observable here because the entries are independent (distinct keys). *)
Definition move_element_full (self mv : id) (pos m m_src version : N) : W id :=
  (do n <- get_node self;
   do mn <- get_node mv;
   do src_prefix <- path_unchecked mn;
   do dest_prefix <- path_unchecked n;
   do sp <- parent_of mn;
   match sp with
   | None => wfail InvalidSubElement
   | Some src_parent =>
     do w <- wget;
     do ids <- dfs_ids (fuel_of w) mv;
     do original <- named_paths ids;
     do orig_refs <- ref_texts ids;
     detach_from src_parent mv;;
     (fix each (l : list (list N * id)) : W unit :=
        match l with [] => wret tt | (p, _) :: r => remove_identifiable m_src p;; each r end) original;;
     (fix each (l : list (list N * id)) : W unit :=
        match l with [] => wret tt | (p, e) :: r => remove_reference_origin m_src p e;; each r end) orig_refs;;
     modify_node mv (fun x => set_parent x (PElem self));;
     do mn2 <- get_node mv;
     do ident <- is_identifiable mn2;
     do dest_path <- (if ident then do nm <- make_unique_item_name mv m dest_prefix; wret (dest_prefix ++ [47] ++ nm)
                      else wret dest_prefix);
     (fix each (l : list (list N * id)) : W unit :=
        match l with
        | [] => wret tt
        | (op, e) :: r =>
          (match strip_prefix src_prefix op with
           | Some suffix => add_identifiable m (dest_path ++ suffix) e
           | None => wret tt
           end);; each r
        end) original;;
     (fix each (l : list (list N * id)) : W unit :=
        match l with
        | [] => wret tt
        | (old_ref, re) :: r =>
          (if existsb (fun p => bytes_eqb (fst p) old_ref) original then
             match strip_prefix src_prefix old_ref with
             | Some suffix =>
               let refstr := dest_path ++ suffix in
               raw_set_character_data re (DString refstr) version;;
               add_reference_origin m refstr re
             | None => add_reference_origin m old_ref re
             end
           else add_reference_origin m old_ref re);; each r   (* else branch: fix — references to outside targets are registered too *)
        end) orig_refs;;
     content_insert self pos (CElem mv);;
     wret mv
   end)%W.

(* ------------------------------------------------------------------ remove *)
(* ElementRaw::remove_internal *)
Fixpoint remove_internal (fuel : nat) (i : id) (m : N) (path : list N) {struct fuel} : W unit :=
  match fuel with
  | O => wfuel
  | S f =>
    (do n <- get_node i;
     do ident <- is_identifiable n;
     do path' <- (if ident then
                    do nm <- item_name n;
                    match nm with
                    | Some x => let p := path ++ [47] ++ x in remove_identifiable m p;; wret p
                    | None => wret path
                    end
                  else wret path);
     do isr <- wl (is_ref T (n_type n));
     (if isr then
        do cd <- wl (character_data n);
        match cd with Some (DString r) => remove_reference_origin m r i | _ => wret tt end
      else wret tt);;
     (fix kids (l : list citem) : W unit :=
        match l with
        | [] => wret tt
        | CElem c :: rest => remove_internal f c m path';; kids rest
        | CData _ :: rest => kids rest
        end) (n_content n);;
     modify_node i (fun x => set_parent (set_files (set_content x []) []) PNone))%W   (* file_membership.clear(): fix 6db19c9 *)
  end.

(* ElementRaw::remove_sub_element *)
Definition raw_remove_sub_element (self sub m : N) : W unit :=
  (do n <- get_node self;
   do path <- path_unchecked n;
   match index_of (citem_is sub) (n_content n) with
   | None => wfail ElementNotFound
   | Some pos =>
     do named <- wl (is_named T (n_type n));
     do sn <- get_node sub;
     if named && (n_name sn =? SHORT) then wfail ShortNameRemovalForbidden else
     do w <- wget;
     remove_internal (fuel_of w) sub m path;;
     modify_node self (fun x => set_content x (remove_at (n_content x) pos))
   end)%W.

(* ================================================================== Element-level (public) operations *)
Definition e_create_sub_element (h name : N) : W id :=
  (do v <- min_version h; raw_create_sub_element h name v)%W.
Definition e_create_sub_element_at (h name pos : N) : W id :=
  (do v <- min_version h; raw_create_sub_element_at h name pos v)%W.
Definition e_create_named_sub_element (h name : N) (item : list N) : W id :=
  (do m <- model_of h; do v <- min_version h; raw_create_named_sub_element h name item m v)%W.
Definition e_create_named_sub_element_at (h name : N) (item : list N) (pos : N) : W id :=
  (do m <- model_of h; do v <- min_version h; raw_create_named_sub_element_at h name item pos m v)%W.
Definition e_create_copied_sub_element (h other : N) : W id :=
  (if h =? other then wfail InvalidSubElement else
   do m <- model_of h; do v <- min_version h; raw_create_copied_sub_element h other m v)%W.
Definition e_create_copied_sub_element_at (h other pos : N) : W id :=
  (if h =? other then wfail InvalidSubElement else
   do m <- model_of h; do v <- min_version h; raw_create_copied_sub_element_at h other pos m v)%W.

(* Element::move_element_here / ElementRaw::move_element_here *)
Definition e_move_element_here (h mv : N) : W id :=
  (if h =? mv then wfail ForbiddenMoveToSubElement else     (* the guard added by fix 59c7b9a *)
   do m_src <- model_of mv;
   do m <- model_of h;
   do v_src <- min_version mv;
   do v <- min_version h;
   if negb (v =? v_src) then wfail VersionMismatch else
   do n <- get_node h;
   do mn <- get_node mv;
   do '(_, e) <- calc_element_insert_range n (n_name mn) v;
   if m =? m_src then
     do sp <- parent_of mn;
     match sp with
     | None => wfail InvalidSubElement
     | Some p => if p =? h then wret mv else move_element_local h mv e m v
     end
   else move_element_full h mv e m m_src v)%W.

Definition e_move_element_here_at (h mv pos : N) : W id :=
  (if h =? mv then wfail ForbiddenMoveToSubElement else     (* the guard added by fix 59c7b9a *)
   do m_src <- model_of mv;
   do m <- model_of h;
   do v_src <- min_version mv;
   do v <- min_version h;
   if negb (v =? v_src) then wfail VersionMismatch else
   do n <- get_node h;
   do mn <- get_node mv;
   do '(s, e) <- calc_element_insert_range n (n_name mn) v;
   if (s <=? pos) && (pos <=? e) then
     if m =? m_src then
       do sp <- parent_of mn;
       match sp with
       | None => wfail InvalidSubElement
       | Some p => if p =? h then move_element_position h mv pos e else move_element_local h mv pos m v
       end
     else move_element_full h mv pos m m_src v
   else wfail InvalidPosition)%W.

Definition e_remove_sub_element (h sub : N) : W unit :=
  (if h =? sub then wfail ElementNotFound else              (* the guard added by fix fb2694d *)
   do m <- model_of h; raw_remove_sub_element h sub m)%W.

(* Element::get_sub_element *)
Fixpoint first_named (name : N) (l : list citem) : W (option id) :=
  match l with
  | [] => wret None
  | CElem c :: rest => (do cn <- get_node c; if n_name cn =? name then wret (Some c) else first_named name rest)%W
  | CData _ :: rest => first_named name rest
  end.
Definition get_sub_element (h name : N) : W (option id) := (do n <- get_node h; first_named name (n_content n))%W.

Definition e_remove_sub_element_kind (h name : N) : W unit :=
  (do s <- get_sub_element h name;
   match s with Some sub => e_remove_sub_element h sub | None => wfail ElementNotFound end)%W.

(* ElementRaw::set_item_name via Element::set_item_name *)
Definition strip_suffix (suf s : list N) : option (list N) :=
  match strip_prefix (rev suf) (rev s) with Some r => Some (rev r) | None => None end.

Definition e_set_item_name (h : N) (new_name : list N) : W unit :=
  (if is_empty new_name then wfail ItemNameRequired else
   do m <- model_of h;
   do version <- min_version h;
   do n <- get_node h;
   do cur <- item_name n;
   match cur with
   | None => wfail ElementNotIdentifiable
   | Some current_name =>
     if bytes_eqb current_name new_name then wret tt else
     do old_path <- path_of n;
     match strip_suffix current_name old_path with
     | None => wpanic "elementraw.rs set_item_name: strip_suffix(..).unwrap()"
     | Some base =>
       let new_path := base ++ new_name in
       do ex <- get_element_by_path m new_path;
       match ex with
       | Some _ => wfail DuplicateItemName
       | None =>
         match n_content n with
         | CElem s :: _ =>
           do sn <- get_node s;
           if n_name sn =? SHORT then
             raw_set_character_data s (DString new_name) version;;
             fix_identifiables m old_path new_path;;
             do x <- get_model m;
             (fix each (keys : list (list N)) : W unit :=
                match keys with
                | [] => wret tt
                | refpath :: r =>
                  (match strip_prefix old_path refpath with
                   | Some partial =>
                     if is_empty partial || starts_with_slash partial then
                       do y <- get_model m;
                       match assoc_get refpath (m_origins y) with
                       | Some reflist =>
                         set_model m (set_origins y (assoc_remove refpath (m_origins y)));;
                         let refpath_new := new_path ++ partial in
                         (fix upd_refs (rl : list id) : W unit :=
                            match rl with
                            | [] => wret tt
                            | re :: rr =>
                              do rn <- get_node re;
                              match n_content rn with
                              | [] => set_node re (set_content rn [CData (DString refpath_new)])   (* fix a58912b: push when empty *)
                              | _ :: tl => set_node re (set_content rn (CData (DString refpath_new) :: tl))
                              end;; upd_refs rr
                            end) reflist;;
                         (* fix: entry(refpath_new).or_default().extend(reflist) *)
                         modify_model m (fun z => set_origins z (match assoc_get refpath_new (m_origins z) with
                                                                  | Some l0 => assoc_insert refpath_new (l0 ++ reflist) (m_origins z)
                                                                  | None => m_origins z ++ [(refpath_new, reflist)] end))
                       | None => wret tt
                       end
                     else wret tt
                   | None => wret tt
                   end);; each r
                end) (map fst (m_origins x))
           else wret tt
         | _ => wret tt
         end
       end
     end
   end)%W.

(* Element::set_character_data_internal *)
Definition e_set_character_data (h : N) (v0 : cdata) : W unit :=
  (do n <- get_node h;
   do mode <- wl (content_mode T (n_type n));
   (* fix 9caed4a: mixed content is only replaced while it contains no sub-elements *)
   if negb ((mode =? MCharacters)
            || ((mode =? MMixed) && negb (existsb (fun it => match it with CElem _ => true | CData _ => false end) (n_content n))))
   then wfail IncorrectContentType else
   do spec <- wl (chardata_spec T (n_type n));
   match spec with
   | None => wfail IncorrectContentType
   | Some cs =>
     do m <- model_of h;
     do version <- min_version h;
     do ok0 <- wl (check_value v0 cs version);
     do '(v, ok) <- (if negb ok0 && match cs with CPattern _ _ | CString _ _ => true | _ => false end
                     then do s <- wl (cdata_to_string v0);
                          do ok1 <- wl (check_value (DString s) cs version); wret (DString s, ok1)
                     else wret (v0, ok0));
     if negb ok then wfail IncorrectContentType else
     do cd0 <- wl (character_data n);
     do prev_path <- (if (n_name n =? SHORT) && match cd0 with Some _ => true | None => false end then
                        do p <- parent_of n;
                        match p with
                        | Some pi =>
                          do pp <- path_id pi;
                          (* fix: the new name must not produce a path that another element already has *)
                          do pn <- get_node pi;
                          do old <- item_name pn;
                          (match old, v with
                           | Some old_name, DString new_name =>
                             match strip_suffix old_name pp with
                             | Some base =>
                               if negb (bytes_eqb new_name old_name) then
                                 do ex <- get_element_by_path m (base ++ new_name);
                                 match ex with Some _ => wfail DuplicateItemName | None => wret tt end
                               else wret tt
                             | None => wret tt
                             end
                           | _, _ => wret tt
                           end);;
                          wret (Some pp)
                        | None => wret None
                        end
                      else wret None);
     do isr <- wl (is_ref T (n_type n));
     let old_refval := if isr then match cd0 with Some (DString s) => Some s | _ => None end else None in
     set_node h (set_content n [CData v]);;
     (match prev_path with
      | Some pp =>
        do n2 <- get_node h;
        do p <- parent_of n2;
        match p with
        | Some pi => do np <- path_id pi; fix_identifiables m pp np
        | None => wret tt
        end
      | None => wret tt
      end);;
     (if isr then
        match v with
        | DString refval =>
          match old_refval with
          | Some o => fix_reference_origins m o refval h
          | None => add_reference_origin m refval h
          end
        | _ => wret tt
        end
      else wret tt)
   end)%W.

(* Element::remove_character_data *)
Definition e_remove_character_data (h : N) : W unit :=
  (do n <- get_node h;
   do mode <- wl (content_mode T (n_type n));
   if negb (mode =? MCharacters) then wfail IncorrectContentType else
   if n_name n =? SHORT then wfail ShortNameRemovalForbidden else
   do cd <- wl (character_data n);
   match cd with
   | Some d =>
     do isr <- wl (is_ref T (n_type n));
     (if isr then
        do m <- model_of h;
        match d with DString r => remove_reference_origin m r h | _ => wret tt end
      else wret tt);;
     modify_node h (fun x => set_content x [])
   | None => wret tt
   end)%W.

Definition e_insert_character_content_item (h : N) (text : list N) (pos : N) : W unit :=
  (do n <- get_node h;
   do mode <- wl (content_mode T (n_type n));
   if mode =? MMixed then
     if pos <=? N.of_nat (List.length (n_content n))
     then set_node h (set_content n (insert_at (n_content n) (N.to_nat pos) (CData (DString text))))
     else wfail InvalidPosition
   else wfail IncorrectContentType)%W.

Definition e_remove_character_content_item (h pos : N) : W unit :=
  (do n <- get_node h;
   do mode <- wl (content_mode T (n_type n));
   if mode =? MMixed then
     match nth_opt (n_content n) (N.to_nat pos) with
     | Some (CData _) => set_node h (set_content n (remove_at (n_content n) (N.to_nat pos)))
     | _ => wfail InvalidPosition
     end
   else wfail IncorrectContentType)%W.

(* ElementRaw::set_attribute_internal *)
Definition raw_set_attribute (h attr : N) (v : cdata) (version : N) : W unit :=
  (do n <- get_node h;
   do sp <- wl (find_attribute_spec T (n_type n) attr);
   match sp with
   | None => wfail InvalidAttribute
   | Some (_, spec, _, mask) =>
     (* fix 9d42e0a: an attribute that is not valid in the file version is rejected *)
     if N.land version mask =? 0 then wfail InvalidAttribute else
     do ok <- wl (check_value v spec version);
     if ok then
       set_node h (set_attrs n (if existsb (fun a => fst a =? attr) (n_attrs n)
                                then map (fun a => if fst a =? attr then (attr, v) else a) (n_attrs n)
                                else n_attrs n ++ [(attr, v)]))
     else wfail InvalidAttributeValue
   end)%W.

Definition e_set_attribute (h attr : N) (v : cdata) : W unit :=
  (do version <- min_version h; raw_set_attribute h attr v version)%W.

(* ElementRaw::remove_attribute -> bool *)
Definition e_remove_attribute (h attr : N) : W bool :=
  (do n <- get_node h;
   match index_of (fun a => fst a =? attr) (n_attrs n) with
   | None => wret false
   | Some k =>
     do sp <- wl (find_attribute_spec T (n_type n) attr);
     match sp with
     | Some (_, _, required, _) =>
       if required =? 0 then set_node h (set_attrs n (remove_at (n_attrs n) k));; wret true else wret false
     | None => wret false
     end
   end)%W.

Definition attr_value (n : node) (attr : N) : option cdata :=
  option_map snd (find (fun a => fst a =? attr) (n_attrs n)).

(* Element::set_reference_target *)
Definition e_set_reference_target (h target : N) : W unit :=
  (do n <- get_node h;
   do isr <- wl (is_ref T (n_type n));
   if negb isr then wfail NotReferenceElement else
   do new_ref <- path_id target;
   do tn <- get_node target;
   do txt <- wl (unwrap "ElementName::to_str" (to_str tab_el (n_name tn)));
   do item <- match from_bytes tab_en txt with
              | Ok i => wret (Some i)
              | Err => wl (reference_dest_value T (n_type n) (n_type tn))
              | Panic => wpanic "EnumItem::from_bytes: table index"
              end;
   match item with
   | None => wfail InvalidReference
   | Some enum_item =>
     do m <- model_of h;
     do version <- min_version h;
     do r <- wtry (raw_set_attribute h (attr_dest T) (DEnum enum_item) version);
     match r with
     | None => wfail InvalidReference
     | Some _ =>
       do n2 <- get_node h;
       do cd <- wl (character_data n2);
       (match cd with
        | Some (DString old_ref) => fix_reference_origins m old_ref new_ref h
        | _ => add_reference_origin m new_ref h
        end);;
       raw_set_character_data h (DString new_ref) version
     end
   end)%W.

(* Element::get_reference_target *)
Definition e_get_reference_target (h : N) : W id :=
  (do n <- get_node h;
   do isr <- wl (is_ref T (n_type n));
   if negb isr then wfail NotReferenceElement else
   do cd <- wl (character_data n);
   match cd with
   | Some (DString r) =>
     do m <- model_of h;
     do t <- get_element_by_path m r;
     match t with
     | None => wfail InvalidReference
     | Some target =>
       match attr_value n (attr_dest T) with
       | Some (DEnum d) =>
         do tn <- get_node target;
         do ok <- wl (verify_reference_dest T (n_type tn) d);
         if ok then wret target else wfail InvalidReference
       | _ => wfail InvalidReference
       end
     end
   | _ => wfail InvalidReference
   end)%W.

(* Element::set_comment : "--" -> "__" (str::replace, non-overlapping left to right) *)
Fixpoint replace_dd (s : list N) : list N :=
  match s with
  | 45 :: 45 :: r => 95 :: 95 :: replace_dd r
  | x :: r => x :: replace_dd r
  | [] => []
  end.
Definition e_set_comment (h : N) (c : option (list N)) : W unit :=
  modify_node h (fun x => set_comment x (option_map replace_dd c)).

Definition e_get_or_create_sub_element (h name : N) : W id :=
  (do v <- min_version h;
   do s <- get_sub_element h name;
   match s with Some c => wret c | None => raw_create_sub_element h name v end)%W.

Fixpoint first_named_item (name : N) (item : list N) (l : list citem) : W (option id) :=
  match l with
  | [] => wret None
  | CElem c :: rest =>
    (do cn <- get_node c;
     do nm <- item_name cn;
     if (n_name cn =? name) && bytes_eqb (match nm with Some x => x | None => [] end) item
     then wret (Some c) else first_named_item name item rest)%W
  | CData _ :: rest => first_named_item name item rest
  end.

Definition e_get_or_create_named_sub_element (h name : N) (item : list N) : W id :=
  (do m <- model_of h;
   do v <- min_version h;
   do n <- get_node h;
   do s <- first_named_item name item (n_content n);
   match s with Some c => wret c | None => raw_create_named_sub_element h name item m v end)%W.

(* ------------------------------------------------------------------ files *)
Definition parent_splittable (n : node) : W bool :=
  (do p <- parent_of n;
   match p with
   | None => wret true
   | Some pi => do pn <- get_node pi; do s <- wl (splittable T (n_type pn)); wret (negb (s =? 0))
   end)%W.

(* Element::add_to_file_restricted *)
Fixpoint add_to_file_restricted (fuel : nat) (e f : N) {struct fuel} : W unit :=
  match fuel with
  | O => wfuel
  | S fl =>
    (do fm <- wtry (file_membership e);
     let '(local, cur) := match fm with Some x => x | None => (true, []) end in
     if set_mem f cur then wret tt else
     do n <- get_node e;
     do sp <- wl (splittable T (n_type n));
     (if negb (sp =? 0) then
        (fix kids (l : list citem) : W unit :=
           match l with
           | [] => wret tt
           | CElem c :: rest =>
             modify_node c (fun x => if is_empty (n_files x) then set_files x cur else x);; kids rest
           | CData _ :: rest => kids rest
           end) (n_content n)
      else wret tt);;
     let ext := set_add f cur in
     do ps <- parent_splittable n;
     (if ps || local then modify_node e (fun x => set_files x ext) else wret tt);;
     do p <- parent_of n;
     match p with
     | Some pi => add_to_file_restricted fl pi f
     | None => wret tt
     end)%W
  end.

Definition file_model (f : N) : W N := (do x <- get_file f; wret (f_model x))%W.

(* Element::add_to_file *)
Definition e_add_to_file (e f : N) : W unit :=
  (do n <- get_node e;
   do ps <- parent_splittable n;
   if negb ps then wfail FilesetModificationForbidden else
   do fm <- file_model f;
   do m <- model_of e;
   if negb (fm =? m) then wfail InvalidFile else
   do '(_, cur) <- file_membership e;
   if set_mem f cur then wret tt else
   modify_node e (fun x => set_files x (set_add f cur));;
   do p <- parent_of n;
   match p with
   | Some pi => do w <- wget; add_to_file_restricted (fuel_of w) pi f
   | None => wret tt
   end)%W.

(* Element::remove_from_file *)
Definition e_remove_from_file (e f : N) : W unit :=
  (do n <- get_node e;
   do ps <- parent_splittable n;
   if negb ps then wfail FilesetModificationForbidden else
   do fm <- file_model f;
   do m <- model_of e;
   if negb (fm =? m) then wfail InvalidFile else
   do '(_, cur) <- file_membership e;
   let restricted := set_remove f cur in
   (if is_empty restricted then
      do p <- parent_of n;
      match p with
      | Some pi => do _ <- wtry (e_remove_sub_element pi e); wret tt
      | None => wret tt
      end
    else wret tt);;
   modify_node e (fun x => set_files x restricted);;
   do w <- wget;
   do ids <- dfs_ids (fuel_of w) e;
   do to_delete <- (fix scan (l : list id) : W (list id) :=
                      match l with
                      | [] => wret []
                      | s :: rest =>
                        do sn <- get_node s;
                        if negb (is_empty (n_files sn)) then
                          let fs := set_remove f (n_files sn) in
                          set_node s (set_files sn fs);;
                          do r <- scan rest;
                          wret (if is_empty fs then s :: r else r)
                        else scan rest
                      end) ids;
   (fix del (l : list id) : W unit :=
      match l with
      | [] => wret tt
      | d :: rest =>
        do dn <- get_node d;
        do p <- wtry (parent_of dn);
        (match p with
         | Some (Some pi) => do _ <- wtry (e_remove_sub_element pi d); wret tt
         | _ => wret tt
         end);; del rest
      end) to_delete)%W.

(* AutosarModel::new *)
Definition new_model (root_attrs : list (N * cdata)) : W N :=
  fun w =>
    let r := w_next w in
    let m := N.of_nat (List.length (w_models w)) in
    match et_new T (autosar_element T), elem T (autosar_element T) with
    | Val ty, Val ed =>
      Val (OK m, mkWorld (upd (w_nodes w) r (mkNode (PModel m) (ed_name ed) ty [] root_attrs [] None)) (r + 1) (w_files w)
                         (w_models w ++ [mkModel r [] [] []]))
    | Pan s, _ | _, Pan s => Pan s
    | _, _ => Fuel
    end.

(* AutosarModel::create_file *)
Definition m_create_file (m : N) (name : list N) (version : N) : W N :=
  (do x <- get_model m;
   do w <- wget;
   if existsb (fun f => match nth_opt (w_files w) (N.to_nat f) with Some fl => bytes_eqb (f_name fl) name | None => false end)
              (m_files x)
   then wfail DuplicateFilenameError else
   let fid := N.of_nat (List.length (w_files w)) in
   wput (mkWorld (w_nodes w) (w_next w) (w_files w ++ [mkFile m name version None]) (w_models w));;
   modify_model m (fun y => set_mfiles y (m_files y ++ [fid]));;
   do w2 <- wget;
   do _ <- wtry (add_to_file_restricted (fuel_of w2) (m_root x) fid);
   wret fid)%W.

(* Element::set_file_membership *)
Definition set_file_membership (e : N) (fm : list N) : W unit :=
  (do n <- get_node e;
   do p <- wtry (parent_of n);
   do ps <- match p with
            | Some (Some pi) => do pn <- get_node pi; do s <- wl (splittable T (n_type pn)); wret (negb (s =? 0))
            | _ => wret true
            end;
   if is_empty fm || ps then modify_node e (fun x => set_files x fm) else wret tt)%W.

(* AutosarModel::remove_file *)
Definition m_remove_file (m f : N) : W unit :=
  (do x <- get_model m;
   match index_of (N.eqb f) (m_files x) with
   | None => wret tt
   | Some pos =>
     let files' := swap_remove_at (m_files x) pos in
     set_model m (set_mfiles x files');;
     if is_empty files' then
       (* fix 3b8f454: every sub-element of the root is removed through remove_sub_element (results ignored) *)
       do r <- get_node (m_root x);
       (fix each (l : list citem) : W unit :=
          match l with
          | [] => wret tt
          | CElem c :: rest => (do _ <- wtry (e_remove_sub_element (m_root x) c); each rest)
          | CData _ :: rest => each rest
          end) (n_content r);;
       set_file_membership (m_root x) [];;
       modify_model m (fun y => set_origins (set_idents y []) [])
     else
       do _ <- wtry (e_remove_from_file (m_root x) f); wret tt
   end)%W.

End Ops.
