(* Tree/IndexProofsTinyCross.v — non-vacuity of the closed history theorem for all 26 constructors (tiny table set of
   Tree/Index.v), with moves between two models:
     cross_demo            /A/S (with a reference to itself) moves from model 0 into /B of model 1: the path leaves the index
                           of model 0 and arrives in the index of model 1, the reference is rewritten and registered there
     cross_container_demo  the container ELEMENTS of /A (holding /A/S, /A/T and two references to /A/S) moves into /B of model 1
     K05_move_cross_container_refuted   witness of the finding class collision_x (the two-model form of
                           C04-move-container-duplicates-paths): /B of model 1 already has the sub-package /B/S *)
From AV Require Import Base.Bytes Base.Outcome Hash.HashModel Tree.Heap Tree.Ops Tree.Script Tree.Inv Tree.InvProofs.
From AV Require Import Tree.Index Tree.IndexProofsBase Tree.Refs Tree.IndexProofsBridge Tree.IndexProofsTiny Tree.IndexProofsClosed
  Tree.IndexProofsTinyMove Tree.RefsAll Tree.IndexProofsNodeInv Tree.IndexProofsAll Tree.Copy Tree.IndexProofsDup.
Import Tiny.
Open Scope string_scope.
Open Scope list_scope.
Open Scope N_scope.

Lemma tiny_root_plain : forall ty, et_new tiny (autosar_element tiny) = Val ty -> plainty tiny ty.
Proof. vm_compute. intros ty [= <-]. vm_compute. split; reflexivity. Qed.

Definition script_oka (s : list op) : bool :=
  clean45a tiny tiny_el tiny_en tiny_check_fn LATEST [] s Inv.empty_world && is_val (run_script s empty_world).
Theorem script_inva s :
  script_oka s = true -> TreeFacts (wof s) /\ Inv04 tiny tiny_check_fn (wof s) /\ Inv05 tiny (wof s).
Proof.
  unfold script_oka, wof. intros H. apply andb_true_iff in H as (Hc & Hv).
  destruct (run_script s empty_world) as [w'| |] eqn:E; try discriminate.
  eapply (C04_C05_history_all tiny tiny_el tiny_en tiny_check_fn LATEST [] tiny_tables_ok tiny_root_plain s w' Hc).
  rewrite <- run_script_run_ops. exact E.
Qed.

(* model 0: /A (2) with ELEMENTS (4) holding /A/S (5, reference 7 to /A/S) and /A/T (8, reference 10 to /A/T);
   model 1 (root 11): /B (13) with ELEMENTS (15) *)
Definition x_pre : list op :=
  setup ++ [OpCreateNamed 1 nPKG (BS "A"); OpCreateSub 2 nELEMENTS; OpCreateNamed 4 nSYSTEM (BS "S");
            OpCreateSub 5 nREF; OpSetRefTarget 7 5; OpCreateNamed 4 nSYSTEM (BS "T"); OpCreateSub 8 nREF; OpSetRefTarget 10 8;
            OpNewModel; OpCreateFile 1 (BS "g") 2; OpCreateSub 11 nPKGS; OpCreateNamed 12 nPKG (BS "B"); OpCreateSub 13 nELEMENTS].
Definition cross_demo : list op := x_pre ++ [OpMove 15 5].
Example cross_demo_summary :
  (TreeFacts (wof cross_demo) /\ Inv04 tiny tiny_check_fn (wof cross_demo) /\ Inv05 tiny (wof cross_demo)) /\
  idents_of (wof x_pre) 0 = [(BS "/A", 2); (BS "/A/S", 5); (BS "/A/T", 8)] /\
  idents_of (wof cross_demo) 0 = [(BS "/A", 2); (BS "/A/T", 8)] /\ origins_list (wof cross_demo) 0 = [(BS "/A/T", [10])] /\
  idents_of (wof cross_demo) 1 = [(BS "/B", 13); (BS "/B/S", 5)] /\ origins_list (wof cross_demo) 1 = [(BS "/B/S", [7])].
Proof. split; [apply script_inva; vm_compute; reflexivity|]. vm_compute. repeat split; reflexivity. Qed.

(* the container ELEMENTS (4) of /A with /A/S (5), /A/T (8) and the references 7, 10 to /A/S moves into /B (13) of model 1 *)
Definition x2_pre : list op :=
  setup ++ [OpCreateNamed 1 nPKG (BS "A"); OpCreateSub 2 nELEMENTS; OpCreateNamed 4 nSYSTEM (BS "S");
            OpCreateSub 5 nREF; OpSetRefTarget 7 5; OpCreateNamed 4 nSYSTEM (BS "T"); OpCreateSub 8 nREF; OpSetRefTarget 10 5;
            OpNewModel; OpCreateFile 1 (BS "g") 2; OpCreateSub 11 nPKGS; OpCreateNamed 12 nPKG (BS "B")].
Definition x2_op : op := OpMove 13 4.
Definition cross_container_demo : list op := x2_pre ++ [x2_op].
Example cross_container_demo_summary :
  (TreeFacts (wof cross_container_demo) /\ Inv04 tiny tiny_check_fn (wof cross_container_demo) /\ Inv05 tiny (wof cross_container_demo)) /\
  idents_of (wof cross_container_demo) 0 = [(BS "/A", 2)] /\ origins_list (wof cross_container_demo) 0 = [] /\
  idents_of (wof cross_container_demo) 1 = [(BS "/B", 13); (BS "/B/S", 5); (BS "/B/T", 8)] /\
  origins_list (wof cross_container_demo) 1 = [(BS "/B/S", [7; 10])].
Proof. split; [apply script_inva; vm_compute; reflexivity|]. vm_compute. repeat split; reflexivity. Qed.

(* the same move when /B already has the sub-package /B/S (16): the element 5 takes over its index entry *)
Definition x3_pre : list op := x2_pre ++ [OpCreateSub 13 nPKGS; OpCreateNamed 15 nPKG (BS "S")].
Example K05_move_cross_container_refuted :
  (TreeFacts (wof x3_pre) /\ Inv04 tiny tiny_check_fn (wof x3_pre) /\ Inv05 tiny (wof x3_pre)) /\
  Known05 tiny tiny_el tiny_en tiny_check_fn LATEST [] (wof x3_pre) x2_op = false /\
  Known05a tiny tiny_el tiny_en tiny_check_fn LATEST [] (wof x3_pre) x2_op = true /\
  (exists w', Tiny.run x2_op (wof x3_pre) = Val (OK (VElem 4), w')) /\
  ~ Inv04 tiny tiny_check_fn (wof (x3_pre ++ [x2_op])).
Proof.
  split; [apply script_inva; vm_compute; reflexivity|].
  split; [vm_compute; reflexivity|]. split; [vm_compute; reflexivity|]. split; [eexists; vm_compute; reflexivity|].
  intros HI. pose proof (i4_exact _ _ _ HI 1) as HE. unfold IndexExact in HE.
  destruct (model_at (wof (x3_pre ++ [x2_op])) 1) as [x|] eqn:Hx; [|vm_compute in Hx; discriminate Hx].
  specialize (HE x eq_refl (BS "/B/S") 16). vm_compute in Hx. injection Hx as <-.
  set (W := wof (x3_pre ++ [x2_op])) in *.
  assert (C1 : child_of W 11 12) by (eexists; split; [vm_compute; reflexivity|cbn; auto 10]).
  assert (C2 : child_of W 12 13) by (eexists; split; [vm_compute; reflexivity|cbn; auto 10]).
  assert (C3 : child_of W 13 15) by (eexists; split; [vm_compute; reflexivity|cbn; auto 10]).
  assert (C4 : child_of W 15 16) by (eexists; split; [vm_compute; reflexivity|cbn; auto 10]).
  assert (HS : SpecPath tiny W 1 16 (BS "/B/S")).
  { eexists. split; [vm_compute; reflexivity|]. cbn [m_root].
    exists (seg tiny W 12 ++ seg tiny W 13 ++ seg tiny W 15 ++ seg tiny W 16 ++ []).
    split; [|vm_compute; reflexivity].
    apply (IndexProofsTree.dpath_cons tiny W 11 12 16 _ C1). apply (IndexProofsTree.dpath_cons tiny W 12 13 16 _ C2).
    apply (IndexProofsTree.dpath_cons tiny W 13 15 16 _ C3). apply (IndexProofsTree.dpath_cons tiny W 15 16 16 _ C4). constructor. }
  assert (HP : PathSet tiny W 1 (BS "/B/S") 16).
  { split; [eapply specpath_mreach; exact HS|]. split; [vm_compute; reflexivity|exact HS]. }
  apply HE in HP. vm_compute in HP. discriminate HP.
Qed.

(* ---------- copies under the classes of the statement for all constructors: copy_demo (Tree/IndexProofsTinyMove.v) is clean, the
   witness of the finding C04-copy-container-duplicates-paths is in the class (now through the collision test of copy_clean_b) *)
Example copy_demo_all : script_oka copy_demo = true.
Proof. vm_compute. reflexivity. Qed.
Example copy_container_in_class :
  Known04a tiny LATEST (wof cc_pre) cc_op = false /\ Known05a tiny tiny_el tiny_en tiny_check_fn LATEST [] (wof cc_pre) cc_op = true.
Proof. vm_compute. split; reflexivity. Qed.

(* ---------- AutosarModel::duplicate of the demo model: the copy (model 1) has its own exact index and referrer map *)
Lemma script_K s : script_oka s = true ->
  K tiny tiny_check_fn (wof s).
Proof.
  unfold script_oka, wof. intros H. apply andb_true_iff in H as (Hc & Hv).
  destruct (run_script s empty_world) as [w'| |] eqn:E; try discriminate.
  eapply (C04_C05_history_all_K tiny tiny_el tiny_en tiny_check_fn LATEST [] tiny_tables_ok tiny_root_plain s w' Hc).
  rewrite <- run_script_run_ops. exact E.
Qed.
Example dup_demo_summary :
  dup_clean tiny tiny_el tiny_en tiny_check_fn LATEST [] (wof demo) 0 = true /\
  exists w', m_duplicate tiny tiny_el tiny_en tiny_check_fn LATEST [] 0 (wof demo) = Val (OK 1, w') /\
    (Inv04 tiny tiny_check_fn w' /\ Inv05 tiny w') /\
    idents_of w' 0 = [(BS "/A", 2); (BS "/A/S", 5); (BS "/B", 8)] /\
    idents_of w' 1 = [(BS "/A", 12); (BS "/A/S", 15); (BS "/B", 18)] /\ origins_list w' 1 = [(BS "/B", [17])].
Proof.
  assert (Hc : dup_clean tiny tiny_el tiny_en tiny_check_fn LATEST [] (wof demo) 0 = true) by (vm_compute; reflexivity).
  split; [exact Hc|].
  destruct (m_duplicate tiny tiny_el tiny_en tiny_check_fn LATEST [] 0 (wof demo)) as [[[c|e] w']| |] eqn:E; try (vm_compute in E; discriminate E).
  assert (Hc1 : c = 1) by (vm_compute in E; injection E as E _; symmetry; exact E). subst c.
  exists w'. split; [reflexivity|].
  destruct (C45_duplicate tiny tiny_el tiny_en tiny_check_fn LATEST [] tiny_tables_ok tiny_root_plain 0 (wof demo) (OK 1) w'
              (script_K demo ltac:(vm_compute; reflexivity)) Hc E) as (A & B & _).
  split; [split; assumption|]. vm_compute in E. injection E as <-. vm_compute. repeat split; reflexivity.
Qed.

