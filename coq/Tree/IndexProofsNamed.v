(* Tree/IndexProofsNamed.v — C04: create_named_sub_element / _at / get_or_create_named_sub_element keep Inv04
   (outside the class K04-front). *)
From AV Require Import Base.Bytes Base.Outcome Hash.HashModel Tree.Heap Tree.Ops Tree.Script Tree.IndexProofsW
  Tree.Index Tree.IndexProofsBase Tree.IndexProofsAssoc Tree.IndexProofsFrame Tree.IndexProofsAttach Tree.IndexProofsCreate.
Open Scope string_scope.
Open Scope list_scope.
Open Scope N_scope.

Section Named.
Variable T : tables.
Variable tab_el tab_en : nametab.
Variable check_fn : N -> list N -> res bool.
Variable LATEST : N.
Hypothesis TK : TablesOK T check_fn.

Notation Inv04 := (Inv04 T check_fn).
Notation ShortTyped := (ShortTyped T check_fn).
Notation SHORTN := (name_short_name T).

(* the world after a successful create_named_sub_element *)
Definition named_nodes (w : world) (self : id) (n : node) (name : N) (et se : N * N) (item : list N) (k : nat)
  : id -> option node :=
  let c := w_next w in let s := c + 1 in
  fun j =>
    if j =? s then Some (mkNode (PElem c) SHORTN se [CData (DString item)] [] [] None)
    else if j =? c then Some (mkNode (PElem self) name et [CElem s] [] [] None)
    else if j =? self then Some (set_content n (insert_at (n_content n) k (CElem c)))
    else w_nodes w j.

Lemma raw_set_cdata_leaf s sn v cs version w r w' :
  w_nodes w s = Some sn -> n_content sn = [] ->
  content_mode T (n_type sn) = Val MCharacters ->
  chardata_spec T (n_type sn) = Val (Some cs) -> check_value check_fn v cs version = Val true ->
  raw_set_character_data T check_fn s v version w = Val (r, w') ->
  r = OK tt /\ w' = mkWorld (upd (w_nodes w) s (set_content sn [CData v])) (w_next w) (w_files w) (w_models w).
Proof.
  intros Hs Hc Hm Hcs Hck H. unfold raw_set_character_data in H.
  wstep H; try solve [winv E]. winv E. rewrite Hs in Hn. injection Hn as <-.
  wstep H; try solve [winv E]. winv E. rewrite Hm in Hv. injection Hv as <-.
  change (MCharacters =? MCharacters) with true in H. cbn [orb] in H.
  wstep H; try solve [winv E]. winv E. rewrite Hcs in Hv. injection Hv as <-.
  wstep H; try solve [winv E]. winv E. rewrite Hck in Hv. injection Hv as <-.
  apply set_node_inv in H as (-> & ->). rewrite Hc. auto.
Qed.

Lemma create_named_inner_val self name item pos m version w r w' :
  TreeFacts w ->
  create_named_sub_element_inner T check_fn self name item pos m version w = Val (r, w') ->
  (w' = w /\ exists e, r = ER e) \/
  (exists n et ix, w_nodes w self = Some n /\ find_sub_element T (n_type n) name version = Val (Some (et, ix)) /\
     (N.to_nat pos <= List.length (n_content n))%nat /\ (exists e, r = ER e) /\
     w' = leaf_world w self n (new_node (PElem self) name et) (N.to_nat pos)) \/
  (exists n et ix se six pp x,
     w_nodes w self = Some n /\ find_sub_element T (n_type n) name version = Val (Some (et, ix)) /\
     is_named_in_version T et version = Val true /\ content_mode T et <> Val MCharacters /\
     find_sub_element T et SHORTN version = Val (Some (se, six)) /\
     (exists cs, chardata_spec T se = Val (Some cs) /\ check_value check_fn (DString item) cs version = Val true) /\
     path_unchecked T n w = Val (OK pp, w) /\
     model_at w m = Some x /\ assoc_get (pp ++ 47 :: item) (m_idents x) = None /\
     (N.to_nat pos <= List.length (n_content n))%nat /\ r = OK (w_next w) /\
     (forall j, w_nodes w' j = named_nodes w self n name et se item (N.to_nat pos) j) /\
     w_next w' = w_next w + 2 /\ w_files w' = w_files w /\
     w_models w' = list_set (w_models w) (N.to_nat m) (set_idents x (assoc_insert (pp ++ 47 :: item) (w_next w) (m_idents x)))).
Proof.
  intros HF H. unfold create_named_sub_element_inner in H.
  destruct (is_empty item); [winv H; left; eauto|].
  wstep H; try solve [winv E]. winv E. wstep H; try solve [winv E]. winv E.
  destruct v as [[et ix]|]; [|winv H; left; eauto].
  wstep H; try solve [winv E]. winv E. destruct v; cbn [negb] in H; [|winv H; left; eauto].
  wstep H; try solve [winv E]. winv E.
  destruct v as [[se six]|].
  2:{ wstep H; try solve [winv E]. winv E. cbn [negb] in H. winv H. left; eauto. }
  wstep H.
  2:{ wstep E; try solve [winv E0]. winv E0. destruct v; winv E. }
  wstep E; try solve [winv E0]. winv E0. destruct v as [cs|]; [|winv E; cbn [negb] in H; winv H; left; eauto].
  winv E. destruct v; cbn [negb] in H; [|winv H; left; eauto].
  wstep H; [|left; eauto].
  wstep H.
  2:{ unfold get_element_by_path in E0. wstep E0; try solve [winv E1]. winv E1. winv E0. }
  unfold get_element_by_path in E0. wstep E0; try solve [winv E1]. winv E1. winv E0.
  change ([47] ++ item) with (47 :: item) in H.
  destruct (assoc_get (a ++ 47 :: item) (m_idents x)) eqn:Eg; [winv H; left; eauto|].
  wstep H. 2:{ apply alloc_inv in E0 as ([=] & _). }
  apply alloc_inv in E0 as (Ea & ->). injection Ea as ->.
  assert (Hne : self <> w_next w) by (pose proof (tf_alloc _ HF _ _ Hn); lia).
  set (cn := new_node (PElem self) name et) in *.
  wstep H.
  2:{ unfold content_insert in E0. wstep E0; try solve [winv E1]. winv E1.
      destruct (_ <? pos); [discriminate|]. apply set_node_inv in E0 as ([=] & _). }
  unfold content_insert in E0. wstep E0; try solve [winv E1]. winv E1. cbn in Hn0. rewrite upd_neq in Hn0 by exact Hne.
  rewrite Hn in Hn0. injection Hn0 as <-.
  destruct (N.of_nat (List.length (n_content n)) <? pos) eqn:El; [discriminate|]. apply N.ltb_ge in El.
  apply set_node_inv in E0 as (_ & ->).
  fold (leaf_world w self n cn (N.to_nat pos)) in H. set (w1 := leaf_world w self n cn (N.to_nat pos)) in *.
  assert (Hc1 : w_nodes w1 (w_next w) = Some cn).
  { cbn. rewrite upd_neq by (intros E0; apply Hne; symmetry; exact E0). apply upd_eq. }
  assert (Hraw : forall r2 w2, raw_create_sub_element T (w_next w) (SHORT T) version w1 = Val (r2, w2) ->
            (w2 = w1 /\ exists e, r2 = ER e) \/
            (r2 = OK (w_next w + 1) /\ content_mode T et <> Val MCharacters /\
             w2 = leaf_world w1 (w_next w) cn (new_node (PElem (w_next w)) SHORTN se) 0)).
  { intros r2 w2 HH. unfold raw_create_sub_element in HH. wstep HH; try solve [winv E0]. winv E0.
    rewrite Hc1 in Hn0. injection Hn0 as <-.
    wstep HH; [|left; eauto]. pose proof (calc_range_mode T _ _ _ _ _ _ E0) as Hmd.
    match type of HH with (let (_, _) := ?p in _) _ = _ => destruct p as [s0 e0] end.
    apply create_inner_val in HH; [|cbn; lia].
    destruct HH as [(-> & HH)|(n2 & et2 & ix2 & Hn2 & Hf2 & Hl2 & -> & ->)]; [left; auto|]. right.
    rewrite Hc1 in Hn2. injection Hn2 as <-. cbn [cn new_node n_type] in Hf2. unfold SHORT in *. rewrite Hv1 in Hf2.
    injection Hf2 as <- <-. cbn [cn new_node n_content List.length] in Hl2.
    assert (He0 : N.to_nat e0 = O) by lia. rewrite He0. split; [reflexivity|]. split; [exact Hmd|reflexivity]. }
  wstep H.
  2:{ destruct (Hraw _ _ E0) as [(-> & _)|([=] & _)]. right. left. exists n, et, ix.
      split; [exact Hn|]. split; [exact Hv|]. split; [lia|]. split; [eauto|reflexivity]. }
  destruct (Hraw _ _ E0) as [(_ & (e & [=]))|(Ha & Hmd & ->)]. injection Ha as ->. clear E0 Hraw.
  set (sn := new_node (PElem (w_next w)) SHORTN se) in *.
  set (w2 := leaf_world w1 (w_next w) cn sn 0) in *.
  assert (Hs2 : w_nodes w2 (w_next w + 1) = Some sn).
  { cbn. rewrite upd_neq by lia. apply upd_eq. }
  destruct (tk_short _ _ TK _ _ _ _ Hv1) as (Hmode & _).
  wstep H.
  2:{ apply wtry_inv in E0 as (r0 & _ & [=]). }
  apply wtry_inv in E0 as (r0 & E0 & _).
  eapply raw_set_cdata_leaf in E0 as (_ & Hw0); eauto. subst w0.
  wstep H.
  2:{ apply modify_model_inv in E0 as (? & _ & [=] & _). }
  apply modify_model_inv in E0 as (x2 & Hx2 & _ & ->). cbn in Hx2. fold (model_at w m) in Hx2.
  assert (x2 = x) by (unfold model_at in *; congruence). subst x2. winv H.
  right. right. exists n, et, ix, se, six, a, x.
  split; [exact Hn|]. split; [exact Hv|]. split; [exact Hv0|]. split; [exact Hmd|]. split; [exact Hv1|]. split; [eauto|].
  split; [exact E|]. split; [exact Hx|]. split; [exact Eg|]. split; [lia|]. split; [reflexivity|].
  split; [|split; [cbn; lia|split; reflexivity]].
  intros j. cbn. unfold named_nodes, upd.
  destruct (j =? w_next w + 1) eqn:E1; [reflexivity|].
  destruct (j =? w_next w) eqn:E2; [reflexivity|].
  apply N.eqb_neq in E1. destruct (j =? w_next w + 1) eqn:E3; [apply N.eqb_eq in E3; contradiction|].
  destruct (j =? self); reflexivity.
Qed.

(* ---------- models after add_identifiable *)
Lemma model_at_set_same w m y ms :
  w_models ms = list_set (w_models w) (N.to_nat m) y -> forall x, model_at w m = Some x -> model_at ms m = Some y.
Proof. intros Hm x Hx. unfold model_at in *. rewrite Hm. eapply list_set_nth_eq; eauto. Qed.
Lemma model_at_set_other w m y ms m2 :
  w_models ms = list_set (w_models w) (N.to_nat m) y -> m2 <> m -> model_at ms m2 = model_at w m2.
Proof. intros Hm Hne. unfold model_at. rewrite Hm. apply list_set_nth_neq. lia. Qed.
Lemma model_at_set_none w m y ms :
  w_models ms = list_set (w_models w) (N.to_nat m) y -> model_at w m = None -> forall m2, model_at ms m2 = model_at w m2.
Proof. intros Hm Hn m2. unfold model_at in *. rewrite Hm. rewrite list_set_none by exact Hn. reflexivity. Qed.

Lemma is_named_of_version et v : is_named_in_version T et v = Val true -> named T et = true.
Proof.
  unfold is_named_in_version, named, is_named. destruct (short_name_version_mask T (snd et)) as [[mask|]| |]; cbn; congruence.
Qed.

Lemma inv04_attach_named w w' self n name et se item k pp m x :
  TreeFacts w -> Inv04 w -> w_nodes w self = Some n ->
  (forall j, w_nodes w' j = named_nodes w self n name et se item k j) ->
  w_models w' = list_set (w_models w) (N.to_nat m) (set_idents x (assoc_insert (pp ++ 47 :: item) (w_next w) (m_idents x))) ->
  model_at w m = Some x -> assoc_get (pp ++ 47 :: item) (m_idents x) = None ->
  SpecPath T w m self pp ->
  named T et = true -> short_type T check_fn se -> ~ In 47 item ->
  name <> SHORTN -> content_mode T et <> Val MCharacters ->
  (k <= List.length (n_content n))%nat -> n_name n <> SHORTN -> content_mode T (n_type n) <> Val MCharacters ->
  (k = O -> identifiable_n T w n = false) ->
  Inv04 w'.
Proof.
  intros HF HI Hself Hnodes Hmodels Hx Hfree Hpp Hnamed Hse Hitem Hname Hmet Hk Hns Hmode Hfront.
  set (c := w_next w) in *. set (s := c + 1) in *. set (path := pp ++ 47 :: item) in *.
  set (cnode := mkNode (PElem self) name et [CElem s] [] [] None).
  set (snode := mkNode (PElem c) SHORTN se [CData (DString item)] [] [] None).
  assert (Hfresh : forall j, c <= j -> w_nodes w j = None).
  { intros j Hj. destruct (w_nodes w j) as [y|] eqn:E; [|reflexivity]. pose proof (tf_alloc _ HF _ _ E). unfold c in *. lia. }
  assert (Hc : w_nodes w c = None) by (apply Hfresh; lia).
  assert (Hs : w_nodes w s = None) by (apply Hfresh; unfold s; lia).
  assert (Hsc : self <> c) by (intros ->; congruence).
  assert (Hss : self <> s) by (intros ->; congruence).
  assert (Hs' : w_nodes w' s = Some snode).
  { rewrite Hnodes. unfold named_nodes. fold c. fold s. rewrite N.eqb_refl. reflexivity. }
  assert (Hc' : w_nodes w' c = Some cnode).
  { rewrite Hnodes. unfold named_nodes. fold c. fold s. assert (c =? s = false) by (apply N.eqb_neq; unfold s; lia).
    rewrite H, N.eqb_refl. reflexivity. }
  assert (Hself' : w_nodes w' self = Some (set_content n (insert_at (n_content n) k (CElem c)))).
  { rewrite Hnodes. unfold named_nodes. fold c. fold s.
    apply N.eqb_neq in Hsc, Hss. rewrite Hsc, Hss, N.eqb_refl. reflexivity. }
  assert (Hother : forall j, j <> s -> j <> c -> j <> self -> w_nodes w' j = w_nodes w j).
  { intros j H1 H2 H3. rewrite Hnodes. unfold named_nodes. fold c. fold s.
    apply N.eqb_neq in H1, H2, H3. rewrite H1, H2, H3. reflexivity. }
  assert (Hold : forall j nj, w_nodes w j = Some nj -> j <> self -> w_nodes w' j = Some nj).
  { intros j nj Hj Hne. rewrite Hother; auto; intros ->; congruence. }
  assert (Hnew : forall j, w_nodes w j = None -> forall nj, w_nodes w' j = Some nj -> j = c \/ j = s).
  { intros j Hj nj Hj'. destruct (N.eq_dec j s) as [->|H1]; [auto|]. destruct (N.eq_dec j c) as [->|H2]; [auto|].
    destruct (N.eq_dec j self) as [->|H3]; [congruence|]. rewrite Hother in Hj' by assumption. congruence. }
  assert (Hkids : forall p y, child_of w' p y -> w_nodes w p = None -> w_nodes w y = None).
  { intros p y (np & Hp & Hy) Hpn. destruct (Hnew _ Hpn _ Hp) as [->| ->].
    - rewrite Hc' in Hp. injection Hp as <-. cbn in Hy. destruct Hy as [[= <-]|[]]. exact Hs.
    - rewrite Hs' in Hp. injection Hp as <-. cbn in Hy. destruct Hy as [[=]|[]]. }
  assert (Hfront' : k = O -> identifiable_n T w n = false /\
                    (named T (n_type n) = true -> forall cn0, w_nodes w' c = Some cn0 -> n_name cn0 <> name_short_name T)).
  { intros Hk0. split; [auto|]. intros _ cn0 Hcn0. rewrite Hc' in Hcn0. injection Hcn0 as <-. exact Hname. }
  assert (Hroots : forall m2, option_map m_root (model_at w' m2) = option_map m_root (model_at w m2)).
  { intros m2. destruct (N.eq_dec m2 m) as [->|Hne].
    - rewrite (model_at_set_same _ _ _ _ Hmodels _ Hx), Hx. reflexivity.
    - rewrite (model_at_set_other _ _ _ _ _ Hmodels Hne). reflexivity. }
  (* the readings of the two new nodes *)
  destruct Hse as (Hsmode & Hsref & Hsval).
  assert (Hcd_s : cdata_of T snode = Some (DString item)).
  { unfold cdata_of, character_data. cbn [snode n_content n_type]. rewrite Hsmode. cbn. reflexivity. }
  assert (Hsc_c : short_child T w' cnode = Some snode).
  { unfold short_child. cbn [cnode n_content]. rewrite Hs'. cbn [snode n_name]. rewrite N.eqb_refl. reflexivity. }
  assert (Hin_c : item_name_n T w' cnode = Some item).
  { unfold item_name_n. cbn [cnode n_type]. rewrite Hnamed, Hsc_c, Hcd_s. reflexivity. }
  assert (Hid_c : identifiable T w' c = true).
  { unfold identifiable. rewrite Hc'. unfold identifiable_n. cbn [cnode n_type]. rewrite Hnamed, Hsc_c. reflexivity. }
  assert (Hseg_c : seg T w' c = 47 :: item).
  { unfold seg. rewrite Hc'. unfold seg_n. rewrite Hin_c. reflexivity. }
  assert (Hid_s : identifiable T w' s = false).
  { unfold identifiable. rewrite Hs'. unfold identifiable_n, short_child. cbn. apply andb_false_r. }
  assert (Hdp : forall i q, dpath T w' c i q -> (i = c /\ q = []) \/ i = s).
  { intros i q Hd. induction Hd as [|p y q Hp IH Hy]; [left; auto|]. right.
    destruct IH as [(-> & ->)| ->].
    - destruct Hy as (np & Hnp & Hin). rewrite Hc' in Hnp. injection Hnp as <-. cbn in Hin. destruct Hin as [[= <-]|[]]. reflexivity.
    - destruct Hy as (np & Hnp & Hin). rewrite Hs' in Hnp. injection Hnp as <-. cbn in Hin. destruct Hin as [[=]|[]]. }
  assert (Hps_old : forall m p i, old w i -> PathSet T w' m p i <-> PathSet T w m p i).
  { intros m0 p0 i0 Hi0. eapply (pathset_old T w w' self c n k); eassumption. }
  assert (HpsC : forall m2 p, PathSet T w' m2 p c <-> m2 = m /\ p = path).
  { intros m2 p. split.
    - intros (_ & _ & Hsp).
      assert (Hno : ~ old w c) by (intros (? & ?); congruence).
      edestruct (specpath_new T w w' self c n k) as (ps & q2 & H1 & H2 & Hpq); try eassumption. subst p.
      destruct (specpath_fun T _ _ _ _ _ _ HF H1 Hpp) as (-> & ->). split; [reflexivity|].
      destruct (Hdp _ _ H2) as [(_ & ->)|E]; [|exfalso; unfold s in E; lia]. rewrite Hseg_c, app_nil_r. reflexivity.
    - intros (-> & ->).
      assert (Hsp : SpecPath T w' m c path).
      { assert (H : SpecPath T w' m c (pp ++ seg T w' c ++ [])).
        { eapply (specpath_new_fwd T w w' self c n k); try eassumption. constructor. }
        rewrite Hseg_c, app_nil_r in H. exact H. }
      split; [eapply specpath_mreach; eauto|]. split; [exact Hid_c|exact Hsp]. }
  assert (Hclass : forall m2 p i, PathSet T w' m2 p i -> old w i \/ i = c).
  { intros m2 p i (Hr & Hid & _). destruct (w_nodes w i) as [ni|] eqn:Ei; [left; eexists; eauto|].
    assert (Hno : ~ old w i) by (intros (? & ?); congruence).
    edestruct (mreach_new T w w' self c n k) as (_ & (q2 & Hd)); try eassumption.
    destruct (Hdp _ _ Hd) as [(-> & _)| ->]; [right; reflexivity|]. congruence. }
  assert (Holdnew : forall j nj, w_nodes w' j = Some nj -> old w j \/ j = c \/ j = s).
  { intros j nj Hj. destruct (w_nodes w j) as [y|] eqn:E; [left; eexists; eauto|right; eapply Hnew; eauto]. }
  destruct HI as [I1 I2 I3 IL I4 I5].
  constructor.
  - (* ShortTyped *)
    intros j nj Hj Hnm. destruct (Holdnew _ _ Hj) as [Ho|[->| ->]].
    + eapply (shorttyped_old T w w' self c n k); eauto.
    + rewrite Hc' in Hj. injection Hj as <-. cbn in Hnm. contradiction.
    + rewrite Hs' in Hj. injection Hj as <-. cbn [snode n_type]. split; [exact Hsmode|]. split; [exact Hsref|exact Hsval].
  - (* SlashFree *)
    intros j nj s0 Hj Hnm Hcd. destruct (Holdnew _ _ Hj) as [Ho|[->| ->]].
    + eapply (slashfree_old T w w' self c n k); eauto.
    + rewrite Hc' in Hj. injection Hj as <-. cbn in Hnm. contradiction.
    + rewrite Hs' in Hj. injection Hj as <-. rewrite Hcd_s in Hcd. injection Hcd as <-. exact Hitem.
  - (* AllNamed *)
    intros j nj Hj Hid. destruct (Holdnew _ _ Hj) as [Ho|[->| ->]].
    + eapply (allnamed_old T w w' self c n k); eauto.
    + rewrite Hc' in Hj. injection Hj as <-. rewrite Hin_c. discriminate.
    + rewrite Hs' in Hj. injection Hj as <-. unfold identifiable in Hid_s. rewrite Hs' in Hid_s. congruence.
  - (* CharsLeaf *)
    intros j nj Hj Hm. destruct (Holdnew _ _ Hj) as [Ho|[->| ->]].
    + eapply (charsleaf_old T w w' self c n k); eauto.
    + rewrite Hc' in Hj. injection Hj as <-. cbn in Hm. contradiction.
    + rewrite Hs' in Hj. injection Hj as <-. right. eexists. reflexivity.
  - (* IndexExact *)
    intros m2 x2 Hx2 p i. destruct (N.eq_dec m2 m) as [->|Hne].
    + rewrite (model_at_set_same _ _ _ _ Hmodels _ Hx) in Hx2. injection Hx2 as <-. cbn [set_idents m_idents].
      destruct (bytes_dec p path) as [->|Hp].
      * rewrite assoc_get_insert_eq. split.
        -- intros [= <-]. apply HpsC. auto.
        -- intros HP. destruct (Hclass _ _ _ HP) as [Ho| ->]; [|reflexivity].
           apply (Hps_old m path i Ho) in HP. apply (I4 m x Hx) in HP. congruence.
      * rewrite assoc_get_insert_neq by exact Hp. rewrite (I4 m x Hx p i). split.
        -- intros HP. apply Hps_old; [|exact HP]. destruct HP as (Hr & _). apply (mreach_alloc T _ _ _ HF Hr).
        -- intros HP. destruct (Hclass _ _ _ HP) as [Ho| ->]; [apply Hps_old in HP; assumption|].
           apply HpsC in HP as (_ & ->). contradiction.
    + rewrite (model_at_set_other _ _ _ _ _ Hmodels Hne) in Hx2. rewrite (I4 m2 x2 Hx2 p i). split.
      * intros HP. apply Hps_old; [|exact HP]. destruct HP as (Hr & _). apply (mreach_alloc T _ _ _ HF Hr).
      * intros HP. destruct (Hclass _ _ _ HP) as [Ho| ->]; [apply Hps_old in HP; assumption|].
        apply HpsC in HP as (-> & _). contradiction.
  - (* IndexNoDup *)
    intros m2 x2 Hx2. destruct (N.eq_dec m2 m) as [->|Hne].
    + rewrite (model_at_set_same _ _ _ _ Hmodels _ Hx) in Hx2. injection Hx2 as <-. cbn [set_idents m_idents].
      apply nodup_insert. apply (I5 m x Hx).
    + rewrite (model_at_set_other _ _ _ _ _ Hmodels Hne) in Hx2. apply (I5 m2 x2 Hx2).
Qed.

(* ---------- the operations *)
Lemma model_of_mreach h m w : TreeFacts w -> model_of h w = Val (OK m, w) -> MReach T w m h.
Proof.
  intros HF H. apply (model_of_val T) in H. destruct H as (_ & H). destruct H as [(m2 & s & Hm & Hu)|(Hm & _)]; [|discriminate Hm].
  injection Hm as <-. eapply specpath_mreach. eapply upath_specpath; eauto.
Qed.

(* what create_named_sub_element does to the world: nothing, a fresh leaf (when creating the SHORT-NAME fails), or a
   fresh named element with its SHORT-NAME and one new index entry *)
Definition named_shape (w : world) (h name : N) (item : list N) (m : N) (w' : world) : Prop :=
  leaf_shape T check_fn w h name w' \/
  exists n et se k pp x,
    w_nodes w h = Some n /\
    (forall j, w_nodes w' j = named_nodes w h n name et se item k j) /\
    w_models w' = list_set (w_models w) (N.to_nat m) (set_idents x (assoc_insert (pp ++ 47 :: item) (w_next w) (m_idents x))) /\
    model_at w m = Some x /\ assoc_get (pp ++ 47 :: item) (m_idents x) = None /\
    SpecPath T w m h pp /\
    named T et = true /\ short_type T check_fn se /\ ~ In 47 item /\
    name <> SHORTN /\ content_mode T et <> Val MCharacters /\
    (k <= List.length (n_content n))%nat /\ n_name n <> SHORTN /\ content_mode T (n_type n) <> Val MCharacters /\
    isref T (n_type n) = false /\
    (k = O -> identifiable_n T w n = false).

Lemma raw_create_named_shape h name item m v pos_opt w r w' :
  TreeFacts w -> Inv04 w -> model_of h w = Val (OK m, w) -> min_version LATEST h w = Val (OK v, w) ->
  front T LATEST w h name pos_opt = false ->
  match pos_opt with
  | None => raw_create_named_sub_element T check_fn h name item m v w = Val (r, w')
  | Some pos => raw_create_named_sub_element_at T check_fn h name item pos m v w = Val (r, w')
  end -> named_shape w h name item m w'.
Proof.
  intros HF HI Hm Hv Hfr H.
  assert (Hcore : forall n s e pos, w_nodes w h = Some n -> calc_element_insert_range T n name v w = Val (OK (s, e), w) ->
            (N.to_nat pos = O -> identifiable_n T w n = false /\ (named T (n_type n) = true -> name <> name_short_name T)) ->
            create_named_sub_element_inner T check_fn h name item pos m v w = Val (r, w') -> named_shape w h name item m w').
  { intros n s e pos Hn Hr Hfront Hc. apply create_named_inner_val in Hc; [|exact HF].
    assert (Hns : n_name n <> SHORTN) by (eapply range_not_short; eauto; apply (i4_short _ _ _ HI)).
    assert (Hmd : content_mode T (n_type n) <> Val MCharacters) by (eapply calc_range_mode; eauto).
    assert (Hnr : isref T (n_type n) = false) by (eapply range_not_ref; eauto).
    destruct Hc as [(-> & _)|[(n2 & et & ix & Hn2 & Hfind & Hlen & _ & ->)|
      (n2 & et & ix & se & six & pp & x & Hn2 & Hfind & Hnv & Hmet & Hfs & (cs & Hcs & Hck) & Hpu & Hx & Hfree & Hlen & _ & Hnodes & _ & _ & Hmodels)]].
    - left. left. reflexivity.
    - rewrite Hn in Hn2. injection Hn2 as <-. left. right.
      exists n, (new_node (PElem h) name et), (N.to_nat pos).
      split; [exact Hn|]. split; [reflexivity|]. split; [reflexivity|]. split; [exact Hlen|].
      split; [exact Hns|]. split; [exact Hmd|]. split; [exact Hnr|].
      split; [exact Hfront|]. split; [|reflexivity].
      cbn [new_node n_name n_type]. intros Hs. subst name. eapply (tk_short _ _ TK); eauto.
    - rewrite Hn in Hn2. injection Hn2 as <-. right.
      pose proof (tk_short _ _ TK _ _ _ _ Hfs) as Hse.
      assert (Hitem : ~ In 47 item).
      { destruct Hse as (_ & _ & Hval). destruct (Hval _ _ _ Hcs Hck) as (s0 & [= <-] & Hs0). exact Hs0. }
      assert (Hname : name <> SHORTN).
      { intros ->. destruct (tk_short _ _ TK _ _ _ _ Hfind) as (Hc & _). contradiction. }
      assert (Hpp : SpecPath T w m h pp).
      { destruct (path_unchecked_spec T w m h n HF Hn (model_of_mreach _ _ _ HF Hm)) as (_ & Hsp).
        destruct (Hsp _ _ Hpu) as (_ & p & [= <-] & Hp). exact Hp. }
      exists n, et, se, (N.to_nat pos), pp, x.
      split; [exact Hn|]. split; [exact Hnodes|]. split; [exact Hmodels|]. split; [exact Hx|]. split; [exact Hfree|].
      split; [exact Hpp|]. split; [eapply is_named_of_version; eauto|]. split; [exact Hse|]. split; [exact Hitem|].
      split; [exact Hname|]. split; [exact Hmet|]. split; [exact Hlen|]. split; [exact Hns|]. split; [exact Hmd|].
      split; [exact Hnr|]. intros Hk0. apply Hfront. exact Hk0. }
  destruct pos_opt as [pos|].
  - unfold raw_create_named_sub_element_at in H. wnode H n Hn.
    wbind_ro H se Ese; [|left; left; reflexivity]. destruct se as [s e].
    destruct ((s <=? pos) && (pos <=? e)); [|winv H; left; left; reflexivity].
    eapply Hcore; eauto. intros Hp. eapply front_false_at; eauto.
  - unfold raw_create_named_sub_element in H. wnode H n Hn.
    wbind_ro H se Ese; [|left; left; reflexivity]. destruct se as [s e].
    eapply Hcore; eauto. intros Hp. eapply front_false_end; eauto.
Qed.

Lemma named_shape_inv04 w h name item m w' : TreeFacts w -> Inv04 w -> named_shape w h name item m w' -> Inv04 w'.
Proof.
  intros HF HI [Hl|(n & et & se & k & pp & x & Hn & Hnodes & Hmodels & Hx & Hfree & Hpp & Hnamed & Hse & Hitem & Hname & Hmet & Hk & Hns & Hmd & _ & Hfront)].
  - eapply leaf_shape_inv04; eauto.
  - eapply inv04_attach_named; eauto.
Qed.

Lemma raw_create_named_inv04 h name item m v pos_opt w r w' :
  TreeFacts w -> Inv04 w -> model_of h w = Val (OK m, w) -> min_version LATEST h w = Val (OK v, w) ->
  front T LATEST w h name pos_opt = false ->
  match pos_opt with
  | None => raw_create_named_sub_element T check_fn h name item m v w = Val (r, w')
  | Some pos => raw_create_named_sub_element_at T check_fn h name item pos m v w = Val (r, w')
  end -> Inv04 w'.
Proof. intros HF HI Hm Hv Hfr H. eapply named_shape_inv04; eauto. eapply raw_create_named_shape; eauto. Qed.

Lemma e_create_named_shape o w r w' :
  TreeFacts w -> Inv04 w -> Known04 T LATEST w o = false ->
  match o with
  | OpCreateNamed h name item =>
    e_create_named_sub_element T check_fn LATEST h name item w = Val (r, w') -> exists m, named_shape w h name item m w'
  | OpCreateNamedAt h name item pos =>
    e_create_named_sub_element_at T check_fn LATEST h name item pos w = Val (r, w') -> exists m, named_shape w h name item m w'
  | OpGetOrCreateNamed h name item =>
    e_get_or_create_named_sub_element T check_fn LATEST h name item w = Val (r, w') -> exists m, named_shape w h name item m w'
  | _ => True
  end.
Proof.
  intros HF HI HK. destruct o; try exact I; intros H.
  - unfold e_create_named_sub_element in H. wbind_ro H m Em; [|exists 0; left; left; reflexivity].
    wbind_ro H v Ev; [|exists 0; left; left; reflexivity].
    exists m. eapply (raw_create_named_shape h name item m v None); eauto.
  - unfold e_create_named_sub_element_at in H. wbind_ro H m Em; [|exists 0; left; left; reflexivity].
    wbind_ro H v Ev; [|exists 0; left; left; reflexivity].
    exists m. eapply (raw_create_named_shape h name item m v (Some pos)); eauto.
  - unfold e_get_or_create_named_sub_element in H. wbind_ro H m Em; [|exists 0; left; left; reflexivity].
    wbind_ro H v Ev; [|exists 0; left; left; reflexivity].
    wnode H n Hn. wbind_ro H s Es; [|exists 0; left; left; reflexivity].
    destruct s as [c|]; [winv H; exists 0; left; left; reflexivity|].
    exists m. eapply (raw_create_named_shape h name item m v None); eauto.
Qed.

Theorem C04_create_named h name item w r w' :
  TreeFacts w -> Inv04 w -> Known04 T LATEST w (OpCreateNamed h name item) = false ->
  e_create_named_sub_element T check_fn LATEST h name item w = Val (r, w') -> Inv04 w'.
Proof.
  intros HF HI HK H. unfold e_create_named_sub_element in H. wstep H; [|exact HI]. wstep H; [|exact HI].
  eapply (raw_create_named_inv04 h name item a a0 None); eauto.
Qed.

Theorem C04_create_named_at h name item pos w r w' :
  TreeFacts w -> Inv04 w -> Known04 T LATEST w (OpCreateNamedAt h name item pos) = false ->
  e_create_named_sub_element_at T check_fn LATEST h name item pos w = Val (r, w') -> Inv04 w'.
Proof.
  intros HF HI HK H. unfold e_create_named_sub_element_at in H. wstep H; [|exact HI]. wstep H; [|exact HI].
  eapply (raw_create_named_inv04 h name item a a0 (Some pos)); eauto.
Qed.

Theorem C04_get_or_create_named h name item w r w' :
  TreeFacts w -> Inv04 w -> Known04 T LATEST w (OpGetOrCreateNamed h name item) = false ->
  e_get_or_create_named_sub_element T check_fn LATEST h name item w = Val (r, w') -> Inv04 w'.
Proof.
  intros HF HI HK H. unfold e_get_or_create_named_sub_element in H. wstep H; [|exact HI]. wstep H; [|exact HI].
  wstep H; try solve [winv E1; exact HI]. winv E1. wstep H; [|exact HI].
  destruct a1 as [c|]; [winv H; exact HI|].
  eapply (raw_create_named_inv04 h name item a a0 None); eauto.
Qed.

End Named.
