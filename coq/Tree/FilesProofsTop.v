(* Tree/FilesProofsTop.v — C10 proofs: the statements of Properties/C10.v assembled from the layers below. *)
From Coq Require Import PeanoNat Arith Lia.
From AV Require Import Base.Bytes Base.Outcome Hash.HashModel Tree.Heap Tree.Ops Tree.Script Tree.Serialize
  Tree.Inv Tree.InvProofsBase Tree.InvProofsCore Tree.InvProofsTree Tree.InvProofs
  Tree.Files Tree.FilesProofsBase Tree.FilesProofsProj Tree.FilesProofsFrame Tree.FilesProofsOps
  Tree.FilesProofsAdd Tree.FilesProofsRemove Tree.FilesProofsInv Tree.FilesProofsHist Tree.FilesProofsOwned.
Open Scope string_scope.
Open Scope list_scope.
Open Scope N_scope.

Lemma eff_is_file_membership i w b s w' :
  file_membership i w = Val (OK (b, s), w') ->
  w' = w /\ Eff w i s /\ (b = true <-> exists n, w_nodes w i = Some n /\ n_files n <> []).
Proof. apply file_membership_spec. Qed.

Lemma eff_executable w i s : Core w -> (eff w i = Some s <-> Eff w i s).
Proof. intros C. split; [apply eff_sound | apply eff_complete; auto]. Qed.

Lemma eff_unique w i s s' : Eff w i s -> Eff w i s' -> s = s' /\ s <> [].
Proof. intros H H'. split; [eapply Eff_fun; eauto | eapply Eff_nonempty; eauto]. Qed.

Section Top.
Variable T : tables.

Lemma filter_is_eff w x f : Core w -> In x (w_models w) -> FilesInvM T w x -> Attributed w (m_root x) f ->
  forall i, Reach w (m_root x) i ->
  (Proj T w (Some f) (m_root x) i -> Attributed w i f) /\
  (Recursible T w -> Attributed w i f -> Proj T w (Some f) (m_root x) i).
Proof.
  intros C Hx FI Hroot i Hr. split.
  - apply proj_attributed; auto.
  - intros Hrec. apply attributed_proj; auto.
Qed.

(* the element set of a file is a connected part of the tree that contains the root *)
Lemma proj_closed w ff r i : Proj T w ff r i ->
  i = r \/ exists p pn, Proj T w ff r p /\ w_nodes w p = Some pn /\ In i (kids pn).
Proof. destruct 1 as [H|p pn c cn Hp Hpn Hrec Hc Hcn Hpass]; [left; reflexivity|right; eauto]. Qed.

Lemma nothing_lost_all w : Core w -> FilesInv T w -> Recursible T w ->
  forall x, In x (w_models w) -> m_files x <> [] ->
  forall i, Reach w (m_root x) i -> exists f, In f (m_files x) /\ Proj T w (Some f) (m_root x) i.
Proof. intros C FI Hrec x Hx Hne i Hr. eapply nothing_lost; eauto. Qed.

Section Heap.
Variable tab_el tab_at tab_en : nametab.
Variable float_fmt : N -> list N.

Lemma ser_visits fuel w ff i indent inline s :
  ser_heap T tab_el tab_at tab_en float_fmt fuel w ff i indent inline = Val s ->
  exists l, ser_ids T fuel w ff i = Val l /\ forall x, In x l <-> Proj T w ff i x.
Proof.
  intros H. destruct (ser_heap_ids T tab_el tab_at tab_en float_fmt fuel w ff i indent inline s H) as (l & Hl).
  exists l. split; auto. apply (ser_ids_proj T fuel w ff i l Hl).
Qed.
End Heap.

(* self-containedness reduced to the XML layer: if every text that is rendered from a connected element set containing
   the root loads (C01: round trip; C07: required sub-elements), every file's text loads *)
Lemma self_contained (Loads : world -> option N -> id -> Prop) :
  (forall w ff r, (forall i, Proj T w ff r i -> i = r \/ exists p pn, Proj T w ff r p /\ w_nodes w p = Some pn /\ In i (kids pn)) ->
                  Loads w ff r) ->
  forall w x f, In x (w_models w) -> Loads w (Some f) (m_root x).
Proof. intros H w x f Hx. apply H. intros i. apply proj_closed. Qed.

End Top.

(* ---------- C03's step theorems discharge the hypotheses of the history and refutation theorems ---------- *)
Section Discharged.
Variable T : tables.
Variable tab_el tab_en : nametab.
Variable check_fn : N -> list N -> res bool.
Variable LATEST : N.
Variable root_attrs : list (N * cdata).

Lemma core_step_all : CoreStep T tab_el tab_en check_fn LATEST root_attrs.
Proof. intros o w r w' C H. eapply (Core_step T tab_el tab_en check_fn LATEST root_attrs); eauto. Qed.
Lemma tree_step_all : TreeStep T tab_el tab_en check_fn LATEST root_attrs.
Proof. intros o w r w' TI HK H. eapply (TreeInv_step T tab_el tab_en check_fn LATEST root_attrs); eauto. Qed.

Lemma inv_step_all o w r w' :
  TreeInv w -> FilesInv T w -> RootNamedLast T w o = false -> Known10 w o = false -> Unowned w o = false ->
  run_op T tab_el tab_en check_fn LATEST root_attrs o w = Val (r, w') -> FilesInv T w'.
Proof. apply inv_step. apply core_step_all. Qed.

Lemma inv_histories_all l w w' : TreeInv w -> FilesInv T w ->
  steps_ok T tab_el tab_en check_fn LATEST root_attrs l w = true ->
  run_ops T tab_el tab_en check_fn LATEST root_attrs l w = Val w' -> TreeInv w' /\ FilesInv T w'.
Proof. apply inv_histories; [apply core_step_all | apply tree_step_all]. Qed.

(* every state reachable from the empty world by a history whose steps avoid the classes *)
Lemma reachable_all l w' :
  steps_ok T tab_el tab_en check_fn LATEST root_attrs l empty_world = true ->
  run_ops T tab_el tab_en check_fn LATEST root_attrs l empty_world = Val w' -> TreeInv w' /\ FilesInv T w'.
Proof. apply inv_histories_all; [apply empty_treeinv | apply empty_filesinv]. Qed.

(* FilesOwned: preserved by every operation; with it the Unowned exclusion disappears *)
Lemma owned_step_all o w r w' : Core w -> FilesOwned w ->
  run_op T tab_el tab_en check_fn LATEST root_attrs o w = Val (r, w') -> FilesOwned w'.
Proof. apply owned_step. apply core_step_all. Qed.

Lemma owned_not_unowned w o : FilesOwned w -> Unowned w o = false.
Proof. apply owned_unowned. Qed.

Lemma inv_step_owned_all o w r w' :
  TreeInv w -> FilesInv T w -> FilesOwned w -> RootNamedLast T w o = false -> Known10 w o = false ->
  run_op T tab_el tab_en check_fn LATEST root_attrs o w = Val (r, w') -> FilesInv T w' /\ FilesOwned w'.
Proof. apply inv_step_owned. apply core_step_all. Qed.

Lemma inv_histories_owned_all l w w' : TreeInv w -> FilesInv T w -> FilesOwned w ->
  steps_ok_owned T tab_el tab_en check_fn LATEST root_attrs l w = true ->
  run_ops T tab_el tab_en check_fn LATEST root_attrs l w = Val w' -> TreeInv w' /\ FilesInv T w' /\ FilesOwned w'.
Proof. apply inv_histories_owned; [apply core_step_all | apply tree_step_all]. Qed.

Lemma reachable_owned_all l w' :
  steps_ok_owned T tab_el tab_en check_fn LATEST root_attrs l empty_world = true ->
  run_ops T tab_el tab_en check_fn LATEST root_attrs l empty_world = Val w' -> TreeInv w' /\ FilesInv T w' /\ FilesOwned w'.
Proof. apply inv_histories_owned_all; [apply empty_treeinv | apply empty_filesinv | apply empty_owned]. Qed.
End Discharged.

Import TinyF.
Lemma add_foreign_refuted_all : refuted Known_add_foreign.
Proof. apply add_foreign_refuted; [apply core_step_all | apply tree_step_all]. Qed.
Lemma root_last_refuted_all : refuted Known_root_last.
Proof. apply root_last_refuted; [apply core_step_all | apply tree_step_all]. Qed.
Lemma root_last_remove_file_refuted_all : refuted (fun w o => Known_root_last w o && match o with OpRemoveFile _ _ => true | _ => false end).
Proof. apply root_last_remove_file_refuted; [apply core_step_all | apply tree_step_all]. Qed.
Lemma move_local_refuted_all : refuted Known_move_local.
Proof. apply move_local_refuted; [apply core_step_all | apply tree_step_all]. Qed.
