(* Tree/ListingSweep3.v — [F] named_agree_b on the datatypes i of the regenerated tables with i mod 4 = 3 (Tree/Listing.v). *)
From AV Require Import Base.Bytes Base.Outcome Spec.SpecOps Spec.SpecReal Tree.Listing.
Open Scope N_scope.
Lemma listing_sweep_3 : forallb (named_agree_b RT) (shard4 3 (n_datatypes RT)) = true.
Proof. vm_compute. reflexivity. Qed.
