(* Tree/RangeProofsMove.v — C07: move_element_here[_at] into ANOTHER parent keeps every child list in specification order:
   all steps before the final insertion satisfy Keep (Tree/RangeProofsKeep.v), the insertion happens at a position of the
   range computed for the moved element's name on the destination's original child list. *)
From Coq Require Import Arith.
From AV Require Import Base.Bytes Base.Outcome Hash.HashModel Spec.SpecOps Tree.Heap Tree.Ops Tree.Script Tree.Inv Tree.InvProofsBase
  Tree.InvProofsCore Tree.InvProofsTree Tree.InvProofsPrim Tree.InvProofsCreate Tree.InvProofsData Tree.InvProofsRefs
  Tree.InvProofsRemove Tree.InvProofsMove Tree.RangeProofsKeep.
Open Scope list_scope.
Open Scope N_scope.

Section Steps.
Variable T : tables.
Variable tab_en : nametab.
Variable check_fn : N -> list N -> res bool.
Variable h : id.

Lemma keepp_raw_set_cdata re v version : keepp h (raw_set_character_data T check_fn re v version).
Proof.
  intros w r w' H. apply (raw_set_cdata_inv T check_fn) in H as [->|(n & Hn & _ & ->)]; [apply Keep_refl|].
  apply keep_wset with (n := n); [exact Hn|].
  split; [reflexivity|]. split; [reflexivity|]. cbn [n_content set_content].
  destruct (n_content n) as [|x t].
  - split; [apply subseq_nil|]. intros _. right. reflexivity.
  - split.
    + cbn [elems flat_map app]. destruct x; cbn [app]; [apply ss_skip; apply subseq_refl | apply subseq_refl].
    + intros _. left. apply pd_data. apply pdull_refl.
Qed.

Lemma keepp_upd_refs_loop refstr version rl : keepp h (upd_refs_loop T check_fn refstr version rl).
Proof.
  induction rl as [|re rr IH]; cbn [upd_refs_loop]; [apply keepp_ro; ro_tac|].
  apply keepp_bind; [apply keepp_raw_set_cdata | intros _; exact IH].
Qed.

Lemma keepp_set_model m x : keepp h (set_model m x).
Proof. intros w r w' H. apply set_model_inv in H as (_ & ->). intros i n Hi. exists n. split; [exact Hi|apply node_keep_refl]. Qed.

Lemma keepp_modify_model m f : keepp h (modify_model m f).
Proof.
  intros w r w' H. apply modify_model_inv in H as (x & Hx & _ & ->). intros i n Hi. exists n. split; [exact Hi|apply node_keep_refl].
Qed.

Lemma keepp_move_ref_body m sp dp version orig_ref : keepp h (move_ref_body T check_fn m sp dp version orig_ref).
Proof.
  unfold move_ref_body. destruct (strip_prefix sp orig_ref); [|apply keepp_ro; ro_tac].
  apply keepp_bind; [apply keepp_ro; ro_tac|]. intros x.
  destruct (assoc_get orig_ref (m_origins x)); [|apply keepp_ro; ro_tac].
  apply keepp_bind; [apply keepp_set_model|]. intros _.
  apply keepp_bind; [apply keepp_upd_refs_loop|]. intros _. apply keepp_modify_model.
Qed.

Lemma keepp_each_loop {A} (body : A -> W unit) l : (forall a, keepp h (body a)) -> keepp h (each_loop body l).
Proof.
  intros Hb. induction l as [|a l IH]; cbn [each_loop]; [apply keepp_ro; ro_tac|].
  apply keepp_bind; auto.
Qed.

Lemma keepp_fix_identifiables m a b : keepp h (fix_identifiables m a b).
Proof. unfold fix_identifiables. apply keepp_modify_model. Qed.

Lemma keepp_make_unique i m pp : keepp h (make_unique_item_name T i m pp).
Proof.
  intros w r w' H. unfold make_unique_item_name in H.
  wstepn H n En; winv En.
  wstepn H nm Ei.
  destruct nm as [orig|]; [|winv H; apply Keep_refl].
  wstepn H x Ex; winv Ex.
  wstepn H nc Eu. destruct nc as [name counter].
  wstepn H u Em.
  - winv H. destruct (1 <? counter); [|winv Em; apply Keep_refl].
    destruct (n_content n0) as [|[s|d] rest]; try (winv Em; apply Keep_refl).
    apply modify_node_wset in Em as (sn & Hs & _ & ->).
    apply keep_wset with (n := sn); [exact Hs|].
    split; [reflexivity|]. split; [reflexivity|]. cbn [n_content set_content elems flat_map app].
    split; [apply subseq_nil|]. intros _. right. reflexivity.
  - destruct (1 <? counter); [|winv Em]. destruct (n_content n0) as [|[s|d] rest]; try (winv Em). prim_noerr Em.
  - apply Keep_refl.
  - apply Keep_refl.
Qed.

Lemma keep_detach w p pn k :
  p <> h -> w_nodes w p = Some pn -> Keep h w (wset w p (set_content pn (remove_at (n_content pn) k))).
Proof.
  intros NE Hp. apply keep_wset with (n := pn); [exact Hp|].
  split; [reflexivity|]. split; [reflexivity|]. cbn [n_content set_content]. split.
  - clear. generalize (n_content pn) as l. intros l. revert k. induction l as [|x l IH]; intros k; [destruct k; apply ss_nil|].
    destruct k; cbn [remove_at elems flat_map].
    + destruct x; cbn [app]; [apply ss_skip; apply subseq_refl | apply subseq_refl].
    + apply subseq_app; [apply subseq_refl | apply IH].
  - intros E. congruence.
Qed.

Lemma keep_set_parent w i n pp : w_nodes w i = Some n -> Keep h w (wset w i (set_parent n pp)).
Proof.
  intros Hn. apply keep_wset with (n := n); [exact Hn|].
  split; [reflexivity|]. split; [reflexivity|]. cbn [n_content set_parent]. split; [apply subseq_refl | intros _; apply hrel_refl].
Qed.

(* ------------------------------------------------------------------ move_element_local, successful run *)
Lemma move_local_keep mv pos m version w c w' :
  move_element_local T check_fn h mv pos m version w = Val (OK c, w') ->
  (forall mn, w_nodes w mv = Some mn -> n_parent mn <> PElem h) ->
  exists w4, Keep h w w4 /\ content_insert h pos (CElem mv) w4 = Val (OK tt, w') /\ c = mv.
Proof.
  intros H Hpar. unfold move_element_local in H.
  wrun_ro H idtac.
  match goal with
  | E0 : parent_of ?mn0 w = Val (OK (Some ?sp0), w), Hm : w_nodes w mv = Some ?mn0 |- _ =>
    rename mn0 into mn; rename sp0 into sp; apply parent_of_some in E0; rename E0 into Hpm; rename Hm into Hmv
  end.
  assert (Hsp : sp <> h) by (intros ->; eapply Hpar; eauto).
  (* detach *)
  wstepn H u Ed.
  apply detach_inv in Ed as [(e' & [=] & _)|(pn & k & Hpn & Hk & _ & ->)].
  pose proof (keep_detach w sp pn k Hsp Hpn) as K1.
  set (w1 := wset w sp _) in *.
  (* re-parent *)
  wstepn H u2 Em. apply modify_node_wset in Em as (mn1 & Hmn1 & _ & ->).
  pose proof (keep_set_parent w1 mv mn1 (PElem h) Hmn1) as K2.
  set (w2 := wset w1 mv _) in *.
  assert (K12 : Keep h w w2) by (eapply Keep_trans; eauto).
  clearbody w2 w1.
  wstepn H mn2 Eg; winv Eg.
  wstepn H ident Ei.
  wstepn H dest_path Edp.
  assert (K3 : Keep h w2 w0).
  { destruct ident.
    - apply wbind_inv in Edp as [(nm & wq & Eq1 & Eq2) | (e & Eq1 & [=])].
      winv Eq2. eapply keepp_make_unique; eauto.
    - winv Edp. apply Keep_refl. }
  wstepn H u3 Ea.
  assert (K4 : Keep h w0 w3).
  { destruct ident; [eapply keepp_fix_identifiables; eauto|].
    eapply (keepp_each_loop (fixid_body m _ dest_path)); [|exact Ea].
    intros a. unfold fixid_body. destruct (strip_prefix _ a); [apply keepp_fix_identifiables | apply keepp_ro; ro_tac]. }
  wstepn H u4 Eb.
  assert (K5 : Keep h w3 w4).
  { eapply (keepp_each_loop (move_ref_body T check_fn m _ dest_path version)); [|exact Eb].
    intros a. apply keepp_move_ref_body. }
  wstepn H u5 Ec.
  winv H. destruct u5. exists w4. split; [|split; [exact Ec|reflexivity]].
  eapply Keep_trans; [exact K12|]. eapply Keep_trans; [exact K3|]. eapply Keep_trans; [exact K4|exact K5].
Qed.

(* ------------------------------------------------------------------ move_element_full, successful run *)
Lemma keepp_add_ref_loop m sp dp version original l : keepp h (add_ref_loop T check_fn m sp dp version original l).
Proof.
  induction l as [|[old_ref re] l IH]; cbn [add_ref_loop]; [apply keepp_ro; ro_tac|].
  apply keepp_bind; [|intros _; exact IH].
  destruct (existsb _ original); [|apply keepp_nfp, nfp_add_reference_origin].
  destruct (strip_prefix sp old_ref); [|apply keepp_nfp, nfp_add_reference_origin].
  apply keepp_bind; [apply keepp_raw_set_cdata | intros _; apply keepp_nfp, nfp_add_reference_origin].
Qed.

Lemma move_full_keep mv pos m m_src version w c w' :
  move_element_full T tab_en check_fn h mv pos m m_src version w = Val (OK c, w') ->
  (forall mn, w_nodes w mv = Some mn -> n_parent mn <> PElem h) ->
  exists w4, Keep h w w4 /\ content_insert h pos (CElem mv) w4 = Val (OK tt, w') /\ c = mv.
Proof.
  intros H Hpar. unfold move_element_full in H.
  wrun_ro H idtac.
  match goal with
  | E0 : parent_of ?mn0 w = Val (OK (Some ?sp0), w), Hm : w_nodes w mv = Some ?mn0,
    En : named_paths T _ w = Val (OK ?orig, w), Er : ref_texts T tab_en _ w = Val (OK ?orefs, w) |- _ =>
    rename mn0 into mn; rename sp0 into sp; rename orig into original; rename orefs into orig_refs;
    apply parent_of_some in E0; rename E0 into Hpm; rename Hm into Hmv
  end.
  assert (Hsp : sp <> h) by (intros ->; eapply Hpar; eauto).
  wstepn H u Ed.
  apply detach_inv in Ed as [(e' & [=] & _)|(pn & k & Hpn & Hk & _ & ->)].
  pose proof (keep_detach w sp pn k Hsp Hpn) as K1.
  set (w1 := wset w sp _) in *. clearbody w1.
  wstepn H u1 El1.
  match type of El1 with _ = Val (_, ?wx) => rename wx into w1a end.
  wstepn H u1' El2.
  match type of El2 with _ = Val (_, ?wx) => rename wx into w3 end.
  pose proof (keepp_nfp h _ (nfp_rm_id_loop m_src original) _ _ _ El1) as K1a.
  pose proof (keepp_nfp h _ (nfp_rm_ref_loop m_src orig_refs) _ _ _ El2) as K1b.
  wstepn H u2 Em. apply modify_node_wset in Em as (mn1 & Hmn1 & _ & ->).
  pose proof (keep_set_parent w3 mv mn1 (PElem h) Hmn1) as K2.
  set (w2 := wset w3 mv _) in *. clearbody w2.
  wstepn H mn2 Eg; winv Eg.
  wstepn H ident Ei.
  wstepn H dest_path Edp.
  match type of Edp with _ = Val (_, ?wx) => rename wx into wq1 end.
  assert (K3 : Keep h w2 wq1).
  { destruct ident.
    - apply wbind_inv in Edp as [(nm & wq & Eq1 & Eq2) | (e & Eq1 & [=])].
      winv Eq2. eapply keepp_make_unique; eauto.
    - winv Edp. apply Keep_refl. }
  wstepn H u3 Ea.
  match type of Ea with _ = Val (_, ?wx) => rename wx into wq2 end.
  pose proof (keepp_nfp h _ (nfp_add_id_loop m _ dest_path original) _ _ _ Ea) as K4.
  wstepn H u4 Eb.
  match type of Eb with _ = Val (_, ?wx) => rename wx into wq3 end.
  pose proof (keepp_add_ref_loop m _ dest_path version original orig_refs _ _ _ Eb) as K5.
  wstepn H u5 Ec.
  winv H. destruct u5. exists wq3. split; [|split; [exact Ec|reflexivity]].
  eapply Keep_trans; [exact K1|]. eapply Keep_trans; [exact K1a|]. eapply Keep_trans; [exact K1b|].
  eapply Keep_trans; [exact K2|]. eapply Keep_trans; [exact K3|]. eapply Keep_trans; [exact K4|exact K5].
Qed.

End Steps.
