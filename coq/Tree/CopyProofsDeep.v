(* Tree/CopyProofsDeep.v — C13 proofs, layer 1: ElementRaw::deep_copy (Tree/Ops.v) allocates a fresh subtree that is
   the source filtered for the target version, and touches nothing else.  For every table set. *)
From AV Require Import Base.Bytes Base.Outcome Hash.HashModel Tree.Heap Tree.Ops Tree.Script
  Tree.CopyProofsW Tree.CopyProofsDefs.
From Coq Require Import Lia.
Open Scope string_scope.
Open Scope list_scope.
Open Scope N_scope.

(* ------------------------------------------------------------------ Closed / Ext *)
Lemma Ext_refl w : Ext w w.
Proof. repeat split; auto. lia. Qed.

Lemma Ext_trans a b c : Ext a b -> Ext b c -> Ext a c.
Proof.
  intros (n1 & k1 & f1 & m1) (n2 & k2 & f2 & m2). repeat split; try congruence; try lia.
  intros i Hi. rewrite k2 by lia. apply k1. exact Hi.
Qed.

Lemma Closed_upd w i n n' :
  Closed w -> w_nodes w i = Some n ->
  (forall x, In (CElem x) (n_content n') -> exists cn, w_nodes w x = Some cn) ->
  Closed (mkWorld (upd (w_nodes w) i n') (w_next w) (w_files w) (w_models w)).
Proof.
  intros [C1 C2] Hi Hk. split; cbn.
  - intros j m. unfold upd. destruct (j =? i) eqn:E.
    + apply N.eqb_eq in E. subst j. intros _. eapply C1; eauto.
    + apply C1.
  - intros p m c. unfold upd at 1. destruct (p =? i) eqn:E.
    + intros [= <-] Hin. destruct (Hk c Hin) as (cn & Hc).
      unfold upd. destruct (c =? i); eauto.
    + intros Hp Hin. destruct (C2 p m c Hp Hin) as (cn & Hc).
      unfold upd. destruct (c =? i); eauto.
Qed.

Lemma Closed_alloc w n' :
  Closed w -> (forall x, ~ In (CElem x) (n_content n')) ->
  Closed (mkWorld (upd (w_nodes w) (w_next w) n') (w_next w + 1) (w_files w) (w_models w)).
Proof.
  intros [C1 C2] Hk. split; cbn.
  - intros j m. unfold upd. destruct (j =? w_next w) eqn:E.
    + apply N.eqb_eq in E. subst j. intros _. lia.
    + intros H. apply C1 in H. lia.
  - intros p m c. unfold upd at 1. destruct (p =? w_next w) eqn:E.
    + intros [= <-] Hin. exfalso. eapply Hk; eauto.
    + intros Hp Hin. destruct (C2 p m c Hp Hin) as (cn & Hc).
      unfold upd. destruct (c =? w_next w); eauto.
Qed.

Ltac splits := repeat match goal with |- _ /\ _ => split end.

Lemma set_parent_same n : set_parent n (n_parent n) = n.
Proof. destruct n; reflexivity. Qed.

Section Deep.
Variable T : tables.

(* ------------------------------------------------------------------ copy_attrs computes kept_attrs *)
Lemma copy_attrs_spec ty v attrs : forall acc w r w',
  copy_attrs T ty v attrs acc w = Val (r, w') ->
  w' = w /\ match kept_attrs T ty v attrs with
            | Val (Some l) => r = OK (acc ++ l)
            | Val None => r = ER VersionIncompatibleData
            | _ => False
            end.
Proof.
  induction attrs as [|[an av] rest IH]; intros acc w r w' H.
  - cbn in H. apply wret_inv in H as (-> & ->). cbn. rewrite app_nil_r. auto.
  - cbn [copy_attrs] in H. cbn [kept_attrs]. unfold attr_keep. cbn [fst snd].
    apply wbind_inv in H as [(sp & w1 & E & H) | (e & E & _)].
    2: { apply wl_inv in E as (? & _ & [=] & _). }
    apply wl_inv in E as (sp' & Hsp & [= <-] & ->). rewrite Hsp. cbn [bind].
    destruct sp as [[[[cd spec] req] mask]|].
    + destruct (negb (N.land v mask =? 0) && fst (value_compat av spec v)) eqn:EK.
      * apply IH in H as (-> & H). split; auto.
        destruct (kept_attrs T ty v rest) as [[l|]| |]; cbn; auto.
        rewrite H. rewrite <- app_assoc. reflexivity.
      * destruct (negb (req =? 0)) eqn:ER.
        -- apply wfail_inv in H as (-> & ->). auto.
        -- apply IH in H as (-> & H). split; auto.
           destruct (kept_attrs T ty v rest) as [[l|]| |]; cbn; auto.
    + apply wfail_inv in H as (-> & ->). auto.
Qed.

(* ------------------------------------------------------------------ the strengthened relation used in the induction:
   Filt + freshness (lo <= every copy id), parent links of the copy, empty file membership, children allocated after
   their parent *)
Inductive FiltR (lo v : N) (w w' : world) : pref -> id -> id -> Prop :=
| FR_node p s c ns nc :
    w_nodes w s = Some ns -> w_nodes w' c = Some nc -> lo <= c ->
    n_parent nc = p -> n_files nc = [] ->
    n_name nc = n_name ns -> n_type nc = n_type ns -> n_comment nc = n_comment ns ->
    kept_attrs T (n_type ns) v (n_attrs ns) = Val (Some (n_attrs nc)) ->
    FiltRItems lo v w w' c (n_type ns) (n_content ns) (n_content nc) ->
    FiltR lo v w w' p s c
with FiltRItems (lo v : N) (w w' : world) : id -> N * N -> list citem -> list citem -> Prop :=
| FRI_nil c ty : FiltRItems lo v w w' c ty [] []
| FRI_data c ty d r r' : FiltRItems lo v w w' c ty r r' -> FiltRItems lo v w w' c ty (CData d :: r) (CData d :: r')
| FRI_keep c ty s cs sn x r r' :
    w_nodes w s = Some sn -> find_sub_element T ty (n_name sn) v = Val (Some x) -> c < cs ->
    FiltR lo v w w' (PElem c) s cs -> FiltRItems lo v w w' c ty r r' ->
    FiltRItems lo v w w' c ty (CElem s :: r) (CElem cs :: r')
| FRI_drop_name c ty s sn r r' :
    w_nodes w s = Some sn -> find_sub_element T ty (n_name sn) v = Val None ->
    FiltRItems lo v w w' c ty r r' -> FiltRItems lo v w w' c ty (CElem s :: r) r'
| FRI_drop_attrs c ty s sn x r r' :
    w_nodes w s = Some sn -> find_sub_element T ty (n_name sn) v = Val (Some x) ->
    kept_attrs T (n_type sn) v (n_attrs sn) = Val None ->
    FiltRItems lo v w w' c ty r r' -> FiltRItems lo v w w' c ty (CElem s :: r) r'.

Scheme FiltR_mind := Minimality for FiltR Sort Prop
  with FiltRItems_mind := Minimality for FiltRItems Sort Prop.
Combined Scheme FiltR_mutind from FiltR_mind, FiltRItems_mind.

Lemma FiltR_Filt lo v w w' :
  (forall p s c, FiltR lo v w w' p s c -> Filt T v w w' s c) /\
  (forall c ty l l', FiltRItems lo v w w' c ty l l' -> FiltItems T v w w' ty l l').
Proof.
  apply FiltR_mutind; intros.
  - econstructor; eauto.
  - constructor.
  - constructor; auto.
  - econstructor; eauto.
  - eapply FI_drop_name; eauto.
  - eapply FI_drop_attrs; eauto.
Qed.

Lemma FiltR_fresh lo v w w' :
  (forall p s c, FiltR lo v w w' p s c -> FreshTree lo w' c) /\
  (forall c ty l l', FiltRItems lo v w w' c ty l l' -> forall x, In (CElem x) l' -> FreshTree lo w' x).
Proof.
  apply FiltR_mutind.
  - intros p s c ns nc _ Hc Hlo _ _ _ _ _ _ _ IH. econstructor; eauto.
  - intros c ty x H. destruct H.
  - intros c ty d r r' _ IH x [E|H]; [discriminate E | auto].
  - intros c ty s cs sn x0 r r' _ _ _ _ IHn _ IHr x [E|H]; [injection E as <-; exact IHn | auto].
  - intros c ty s sn r r' _ _ _ IHr. exact IHr.
  - intros c ty s sn x0 r r' _ _ _ _ IHr. exact IHr.
Qed.

(* transport: change of the source world (to an earlier one that agrees on old nodes), of the freshness bound, and of
   the target world (any world that keeps the copy's nodes; the top node may be re-parented) *)
Lemma FiltR_transport lo1 lo v w1 w w2 w3 :
  lo <= lo1 -> Closed w -> (forall i, i < w_next w -> w_nodes w1 i = w_nodes w i) ->
  (forall p s c, FiltR lo1 v w1 w2 p s c ->
     (exists n, w_nodes w s = Some n) -> forall p',
     (forall nc, w_nodes w2 c = Some nc -> w_nodes w3 c = Some (set_parent nc p')) ->
     (forall i n, w_nodes w2 i = Some n -> c < i -> w_nodes w3 i = Some n) ->
     FiltR lo v w w3 p' s c) /\
  (forall c ty l l', FiltRItems lo1 v w1 w2 c ty l l' ->
     (forall s, In (CElem s) l -> exists n, w_nodes w s = Some n) ->
     (forall i n, w_nodes w2 i = Some n -> c < i -> w_nodes w3 i = Some n) ->
     FiltRItems lo v w w3 c ty l l').
Proof.
  intros Hlo [C1 C2] Hold.
  assert (SRC : forall s, (exists n, w_nodes w s = Some n) -> w_nodes w1 s = w_nodes w s).
  { intros s (n & Hn). apply Hold. eapply C1; eauto. }
  apply FiltR_mutind.
  - intros p s c ns nc Hs Hc Hlo1 Hp Hf Hnm Hty Hcm Hat _ IH Hex p' Htop Hdesc.
    assert (Hs' : w_nodes w s = Some ns). { rewrite <- (SRC s Hex). exact Hs. }
    eapply FR_node with (ns := ns) (nc := set_parent nc p'); eauto; try lia.
    all: try (apply IH; auto; intros s' Hin; eapply C2; eauto).
  - intros; constructor.
  - intros c ty d r r' _ IH Hex Hdesc. constructor. apply IH; auto.
    intros s Hin. apply Hex. right. exact Hin.
  - intros c ty s cs sn x r r' Hs Hfs Hlt HF IHn _ IHr Hex Hdesc.
    assert (Hex' : exists n, w_nodes w s = Some n) by (apply Hex; left; reflexivity).
    assert (Hs' : w_nodes w s = Some sn). { rewrite <- (SRC s Hex'). exact Hs. }
    eapply FRI_keep; eauto.
    + apply IHn; auto.
      * intros nc Hnc. rewrite (Hdesc _ _ Hnc Hlt).
        (* the child's parent link is already PElem c *)
        inversion HF as [? ? ? ? nc0 _ Hc0 _ Hp0]; subst.
        rewrite Hc0 in Hnc. injection Hnc as <-. rewrite <- Hp0. rewrite set_parent_same. reflexivity.
      * intros i n Hi Hlt'. apply Hdesc; auto. lia.
    + apply IHr; auto. intros s' Hin. apply Hex. right. exact Hin.
  - intros c ty s sn r r' Hs Hfs _ IHr Hex Hdesc.
    assert (Hex' : exists n, w_nodes w s = Some n) by (apply Hex; left; reflexivity).
    assert (Hs' : w_nodes w s = Some sn). { rewrite <- (SRC s Hex'). exact Hs. }
    eapply FRI_drop_name; eauto. apply IHr; auto. intros s' Hin. apply Hex. right. exact Hin.
  - intros c ty s sn x r r' Hs Hfs Hka _ IHr Hex Hdesc.
    assert (Hex' : exists n, w_nodes w s = Some n) by (apply Hex; left; reflexivity).
    assert (Hs' : w_nodes w s = Some sn). { rewrite <- (SRC s Hex'). exact Hs. }
    eapply FRI_drop_attrs; eauto. apply IHr; auto. intros s' Hin. apply Hex. right. exact Hin.
Qed.

(* ------------------------------------------------------------------ deep_copy, unfolded one level *)
Definition dc_items (dc : id -> N -> W id) (c : id) (ty : N * N) (version : N) : list citem -> W unit :=
  fix items (l : list citem) : W unit :=
    match l with
    | [] => wret tt
    | CData d :: rest =>
      (modify_node c (fun x => set_content x (n_content x ++ [CData d]));; items rest)%W
    | CElem s :: rest =>
      (do sn <- get_node s;
       do fs <- wl (find_sub_element T ty (n_name sn) version);
       match fs with
       | Some _ =>
         do r <- wtry (dc s version);
         match r with
         | Some cs =>
           modify_node cs (fun x => set_parent x (PElem c));;
           modify_node c (fun x => set_content x (n_content x ++ [CElem cs]));;
           items rest
         | None => items rest
         end
       | None => items rest
       end)%W
    end.

Lemma deep_copy_S f src version :
  deep_copy T (S f) src version =
  (do n <- get_node src;
   do c <- alloc (mkNode PNone (n_name n) (n_type n) [] [] [] (n_comment n));
   do attrs <- copy_attrs T (n_type n) version (n_attrs n) [];
   modify_node c (fun x => set_attrs x attrs);;
   dc_items (deep_copy T f) c (n_type n) version (n_content n);;
   wret c)%W.
Proof. reflexivity. Qed.

Lemma dc_items_nil dc c ty v : dc_items dc c ty v [] = wret tt.
Proof. reflexivity. Qed.
Lemma dc_items_data dc c ty v d rest :
  dc_items dc c ty v (CData d :: rest) =
  (modify_node c (fun x => set_content x (n_content x ++ [CData d]));; dc_items dc c ty v rest)%W.
Proof. reflexivity. Qed.
Lemma dc_items_elem dc c ty v s rest :
  dc_items dc c ty v (CElem s :: rest) =
  (do sn <- get_node s;
   do fs <- wl (find_sub_element T ty (n_name sn) v);
   match fs with
   | Some _ =>
     do r <- wtry (dc s v);
     match r with
     | Some cs =>
       modify_node cs (fun x => set_parent x (PElem c));;
       modify_node c (fun x => set_content x (n_content x ++ [CElem cs]));;
       dc_items dc c ty v rest
     | None => dc_items dc c ty v rest
     end
   | None => dc_items dc c ty v rest
   end)%W.
Proof. reflexivity. Qed.

Definition DCspec (dc : id -> N -> W id) : Prop :=
  forall src v w r w', Closed w -> dc src v w = Val (r, w') ->
    Closed w' /\ Ext w w' /\
    match r with
    | OK c => FiltR (w_next w) v w w' PNone src c
    | ER _ => exists ns, w_nodes w src = Some ns /\ kept_attrs T (n_type ns) v (n_attrs ns) = Val None
    end.

Lemma dc_items_spec dc (Hdc : DCspec dc) w0 c ty v (C0 : Closed w0) (Hc0 : w_next w0 <= c) :
  forall l w r w' nc,
    Closed w -> w_next w0 <= w_next w -> (forall i, i < w_next w0 -> w_nodes w i = w_nodes w0 i) ->
    w_nodes w c = Some nc ->
    (forall s, In (CElem s) l -> exists n, w_nodes w0 s = Some n) ->
    dc_items dc c ty v l w = Val (r, w') ->
    r = OK tt /\ Closed w' /\ w_next w <= w_next w' /\
    (forall i, i < w_next w -> i <> c -> w_nodes w' i = w_nodes w i) /\
    w_files w' = w_files w /\ w_models w' = w_models w /\
    exists l', w_nodes w' c = Some (set_content nc (n_content nc ++ l')) /\
               FiltRItems (w_next w0) v w0 w' c ty l l'.
Proof.
  induction l as [|[s|d] rest IH]; intros w r w' nc Cw Hn Hold Hc Hsrc H.
  - rewrite dc_items_nil in H. apply wret_inv in H as (-> & ->).
    splits; auto; try lia.
    exists []. split; [|constructor]. rewrite app_nil_r. rewrite Hc. destruct nc; reflexivity.
  - rewrite dc_items_elem in H.
    assert (Hexs : exists n, w_nodes w0 s = Some n) by (apply Hsrc; left; reflexivity).
    assert (Hsrc' : forall s', In (CElem s') rest -> exists n, w_nodes w0 s' = Some n)
      by (intros s' Hin; apply Hsrc; right; exact Hin).
    destruct Hexs as (sn0 & Hs0).
    assert (Hslt : s < w_next w0) by (eapply (proj1 C0); eauto).
    apply wbind_inv in H as [(sn & w1 & E & H) | (e & E & _)].
    2: { apply get_node_inv in E as (? & _ & [=] & _). }
    apply get_node_inv in E as (sn' & Hs & [= <-] & ->).
    rewrite (Hold s Hslt) in Hs. rewrite Hs0 in Hs. injection Hs as <-.
    apply wbind_inv in H as [(fs & w1 & E & H) | (e & E & _)].
    2: { apply wl_inv in E as (? & _ & [=] & _). }
    apply wl_inv in E as (fs' & Hfs & [= <-] & ->).
    destruct fs as [x|].
    2: { (* the name is not permitted *)
      destruct (IH w r w' nc Cw Hn Hold Hc Hsrc' H) as (Hr & Cw' & Hn' & Hfr & Hf & Hm & l' & Hc' & HF).
      splits; auto. exists l'. split; auto. eapply FRI_drop_name; eauto. }
    apply wbind_inv in H as [(ro & w1 & E & H) | (e & E & _)].
    2: { apply wtry_inv in E as (? & _ & [=]). }
    apply wtry_inv in E as (r0 & E & [= ->]).
    destruct (Hdc _ _ _ _ _ Cw E) as (Cw1 & (Hn1 & Hold1 & Hf1 & Hm1) & Hr0).
    assert (Hclt : c < w_next w) by (eapply (proj1 Cw); eauto).
    assert (Hc1 : w_nodes w1 c = Some nc) by (rewrite Hold1; auto).
    assert (Hold01 : forall i, i < w_next w0 -> w_nodes w1 i = w_nodes w0 i).
    { intros i Hi. rewrite Hold1 by lia. apply Hold. exact Hi. }
    destruct r0 as [cs|e].
    2: { (* the sub-element itself is not permitted *)
      destruct Hr0 as (ns & Hns & Hka).
      rewrite (Hold s Hslt) in Hns. rewrite Hs0 in Hns. injection Hns as <-.
      destruct (IH w1 r w' nc Cw1 ltac:(lia) Hold01 Hc1 Hsrc' H) as (Hr & Cw' & Hn' & Hfr & Hf & Hm & l' & Hc' & HF).
      splits; auto; try lia; try congruence.
      - intros i Hi Hic. rewrite Hfr by (auto; lia). apply Hold1. exact Hi.
      - exists l'. split; auto. eapply FRI_drop_attrs; eauto. }
    (* the sub-element is copied: cs *)
    assert (Hcs : w_next w <= cs) by (inversion Hr0; auto).
    clear E.
    apply wbind_inv in H as [(u & w2 & E & H) | (e & E & _)].
    2: { apply modify_node_inv in E as (? & _ & [=] & _). }
    apply modify_node_inv in E as (ncs & Hncs & _ & ->).
    apply wbind_inv in H as [(u' & w3 & E & H) | (e & E & _)].
    2: { apply modify_node_inv in E as (? & _ & [=] & _). }
    apply modify_node_inv in E as (nc2 & Hnc2 & _ & ->).
    cbn [w_nodes] in Hnc2. rewrite upd_neq in Hnc2 by lia. rewrite Hc1 in Hnc2. injection Hnc2 as <-.
    set (w2 := mkWorld (upd (w_nodes w1) cs (set_parent ncs (PElem c))) (w_next w1) (w_files w1) (w_models w1)) in *.
    set (nc' := set_content nc (n_content nc ++ [CElem cs])) in *.
    set (w3 := mkWorld (upd (w_nodes w2) c nc') (w_next w2) (w_files w2) (w_models w2)) in *.
    assert (Cw2 : Closed w2).
    { apply (Closed_upd w1 cs ncs _ Cw1 Hncs). cbn. intros y Hin. exact (proj2 Cw1 cs ncs y Hncs Hin). }
    assert (Hcs1 : cs < w_next w1) by (eapply (proj1 Cw1); eauto).
    assert (Cw3 : Closed w3).
    { eapply Closed_upd with (n := nc); eauto.
      - cbn. rewrite upd_neq by lia. exact Hc1.
      - cbn. intros y Hin. apply in_app_or in Hin as [Hin|[[= <-]|[]]].
        + destruct (proj2 Cw1 c nc y Hc1 Hin) as (cn & Hx). unfold upd. destruct (y =? cs); eauto.
        + rewrite upd_eq. eauto. }
    assert (Hold03 : forall i, i < w_next w0 -> w_nodes w3 i = w_nodes w0 i).
    { intros i Hi. cbn. rewrite !upd_neq by lia. apply Hold01. exact Hi. }
    assert (Hc3 : w_nodes w3 c = Some nc') by (cbn; apply upd_eq).
    destruct (IH w3 r w' nc' Cw3 ltac:(cbn; lia) Hold03 Hc3 Hsrc' H) as (Hr & Cw' & Hn' & Hfr & Hf & Hm & l' & Hc' & HF).
    cbn [w_next w_files w_models w3 w2] in *.
    splits; auto; try lia; try congruence.
    + intros i Hi Hic. rewrite Hfr by (auto; lia). cbn. rewrite !upd_neq by lia. apply Hold1. exact Hi.
    + exists (CElem cs :: l'). split.
      * rewrite Hc'. unfold nc'. cbn. rewrite <- app_assoc. reflexivity.
      * eapply FRI_keep; eauto; try lia.
        eapply (proj1 (FiltR_transport (w_next w) (w_next w0) v w w0 w1 w' Hn C0 Hold)); eauto.
        -- intros nx Hnx. rewrite Hncs in Hnx. injection Hnx as <-.
           rewrite Hfr by (cbn; lia). cbn. rewrite upd_neq by lia. apply upd_eq.
        -- intros i n Hi Hlt. assert (i < w_next w1) by (eapply (proj1 Cw1); eauto).
           rewrite Hfr by (cbn; lia). cbn. rewrite !upd_neq by lia. exact Hi.
  - rewrite dc_items_data in H.
    assert (Hsrc' : forall s', In (CElem s') rest -> exists n, w_nodes w0 s' = Some n)
      by (intros s' Hin; apply Hsrc; right; exact Hin).
    assert (Hclt : c < w_next w) by (eapply (proj1 Cw); eauto).
    apply wbind_inv in H as [(u & w1 & E & H) | (e & E & _)].
    2: { apply modify_node_inv in E as (? & _ & [=] & _). }
    apply modify_node_inv in E as (nc2 & Hnc2 & _ & ->).
    rewrite Hc in Hnc2. injection Hnc2 as <-.
    set (nc' := set_content nc (n_content nc ++ [CData d])) in *.
    set (w1 := mkWorld (upd (w_nodes w) c nc') (w_next w) (w_files w) (w_models w)) in *.
    assert (Cw1 : Closed w1).
    { eapply Closed_upd; eauto. cbn. intros x Hin. apply in_app_or in Hin as [Hin|[[=]|[]]].
      eapply (proj2 Cw); eauto. }
    assert (Hold1 : forall i, i < w_next w0 -> w_nodes w1 i = w_nodes w0 i).
    { intros i Hi. cbn. rewrite upd_neq by lia. apply Hold. exact Hi. }
    assert (Hc1 : w_nodes w1 c = Some nc') by (cbn; apply upd_eq).
    destruct (IH w1 r w' nc' Cw1 ltac:(cbn; lia) Hold1 Hc1 Hsrc' H) as (Hr & Cw' & Hn' & Hfr & Hf & Hm & l' & Hc' & HF).
    cbn [w_next w_files w_models w1] in *.
    splits; auto.
    + intros i Hi Hic. rewrite Hfr by auto. cbn. rewrite upd_neq by lia. reflexivity.
    + exists (CData d :: l'). split.
      * rewrite Hc'. unfold nc'. cbn. rewrite <- app_assoc. reflexivity.
      * constructor. exact HF.
Qed.

(* ------------------------------------------------------------------ the specification of deep_copy *)
Theorem deep_copy_spec : forall fuel, DCspec (deep_copy T fuel).
Proof.
  induction fuel as [|f IH]; intros src v w r w' Cw H.
  - discriminate H.
  - rewrite deep_copy_S in H.
    apply wbind_inv in H as [(n & w1 & E & H) | (e & E & _)].
    2: { apply get_node_inv in E as (? & _ & [=] & _). }
    apply get_node_inv in E as (n' & Hsrc & [= <-] & ->).
    apply wbind_inv in H as [(c & w1 & E & H) | (e & E & _)].
    2: { apply alloc_inv in E as ([=] & _). }
    apply alloc_inv in E as ([= ->] & ->).
    set (n0 := mkNode PNone (n_name n) (n_type n) [] [] [] (n_comment n)) in *.
    set (w1 := mkWorld (upd (w_nodes w) (w_next w) n0) (w_next w + 1) (w_files w) (w_models w)) in *.
    assert (Cw1 : Closed w1) by (apply Closed_alloc; [exact Cw | intros x []]).
    assert (Ex1 : Ext w w1).
    { unfold Ext, w1; cbn. splits; auto; try lia. intros i Hi. apply upd_neq. lia. }
    apply wbind_inv in H as [(attrs & w2 & E & H) | (e & E & ->)].
    2: { (* a required attribute is not permitted *)
      apply copy_attrs_spec in E as (-> & E). splits; auto.
      exists n. split; auto. destruct (kept_attrs T (n_type n) v (n_attrs n)) as [[l|]| |]; try contradiction; try discriminate; auto. }
    apply copy_attrs_spec in E as (-> & E).
    destruct (kept_attrs T (n_type n) v (n_attrs n)) as [[l|]| |] eqn:Hka; try contradiction; try discriminate.
    injection E as ->. cbn [app] in *.
    apply wbind_inv in H as [(u & w2 & E & H) | (e & E & _)].
    2: { apply modify_node_inv in E as (? & _ & [=] & _). }
    apply modify_node_inv in E as (n1 & Hn1 & _ & ->).
    cbn [w_nodes w1] in Hn1. rewrite upd_eq in Hn1. injection Hn1 as <-.
    set (n2 := set_attrs n0 l) in *.
    set (w2 := mkWorld (upd (w_nodes w1) (w_next w) n2) (w_next w1) (w_files w1) (w_models w1)) in *.
    assert (Cw2 : Closed w2).
    { apply (Closed_upd w1 (w_next w) n0 n2 Cw1); [cbn; apply upd_eq | intros x []]. }
    apply wbind_inv in H as [(u' & w3 & E & H) | (e & E & ->)].
    2: { eapply dc_items_spec with (w0 := w) (nc := n2) in E; eauto; try (cbn; lia).
         - destruct E as ([=] & _).
         - intros i Hi. cbn. rewrite !upd_neq by lia. reflexivity.
         - cbn. apply upd_eq.
         - intros s Hin. eapply (proj2 Cw); eauto. }
    apply wret_inv in H as (-> & ->).
    eapply dc_items_spec with (w0 := w) (nc := n2) in E; eauto; try (cbn; lia).
    + destruct E as (_ & Cw3 & Hn3 & Hfr & Hf3 & Hm3 & l' & Hc3 & HF).
      cbn [w_next w_files w_models w2 w1] in *.
      splits; auto.
      * unfold Ext. splits; auto; try lia.
        intros i Hi. rewrite Hfr by lia. cbn. rewrite !upd_neq by lia. reflexivity.
      * eapply FR_node with (ns := n) (nc := set_content n2 (n_content n2 ++ l')); eauto; try lia.
        all: try (cbn; exact Hka).
    + intros i Hi. cbn. rewrite !upd_neq by lia. reflexivity.
    + cbn. apply upd_eq.
    + intros s Hin. eapply (proj2 Cw); eauto.
Qed.

(* ---------- corollaries in the vocabulary of Tree/CopyProofsDefs.v ---------- *)
(* allocation only: every node of the copy is fresh, and nothing allocated before is touched *)
Corollary deep_copy_fresh fuel src v w c w' :
  Closed w -> deep_copy T fuel src v w = Val (OK c, w') -> FreshTree (w_next w) w' c /\ Ext w w' /\ Closed w'.
Proof.
  intros Cw H. destruct (deep_copy_spec fuel src v w _ w' Cw H) as (Cw' & Ex & HF).
  splits; auto. eapply (proj1 (FiltR_fresh _ _ _ _)); eauto.
Qed.

(* even a failing deep_copy touches nothing that existed *)
Corollary deep_copy_frame fuel src v w r w' :
  Closed w -> deep_copy T fuel src v w = Val (r, w') -> Ext w w' /\ Closed w'.
Proof. intros Cw H. destruct (deep_copy_spec fuel src v w r w' Cw H) as (Cw' & Ex & _). auto. Qed.

Corollary deep_copy_filtered fuel src v w c w' :
  Closed w -> deep_copy T fuel src v w = Val (OK c, w') -> Filt T v w w' src c.
Proof.
  intros Cw H. destruct (deep_copy_spec fuel src v w _ w' Cw H) as (_ & _ & HF).
  eapply (proj1 (FiltR_Filt _ _ _ _)); eauto.
Qed.

(* a filtered copy of a subtree that is entirely valid in the version is an isomorphic copy *)
Lemma Filt_AllValid_Iso v w w' :
  (forall s c, Filt T v w w' s c -> AllValidIn T v w s -> Iso w w' s c) /\
  (forall ty l l', FiltItems T v w w' ty l l' -> AllValidItems T v w ty l -> IsoItems w w' l l').
Proof.
  apply Filt_mutind.
  - intros s c ns nc Hs Hc Hnm Hty Hcm Hka _ IH HA.
    inversion HA as [? ns' Hs' Hka' HI]; subst. rewrite Hs in Hs'. injection Hs' as <-.
    rewrite Hka in Hka'. injection Hka' as Hat.
    econstructor; eauto.
  - intros; constructor.
  - intros ty d r r' _ IH HA. inversion HA; subst. constructor; auto.
  - intros ty s c sn x r r' Hs Hfs _ IHn _ IHr HA. inversion HA; subst. constructor; auto.
  - intros ty s sn r r' Hs Hfs _ IHr HA. inversion HA as [| |? ? sn' x' ? Hs' Hfs']; subst.
    rewrite Hs in Hs'. injection Hs' as <-. rewrite Hfs in Hfs'. discriminate Hfs'.
  - intros ty s sn x r r' Hs Hfs Hka _ IHr HA. inversion HA as [| |? ? sn' x' ? Hs' Hfs' HAs]; subst.
    rewrite Hs in Hs'. injection Hs' as <-.
    inversion HAs as [? ns' Hs'' Hka']; subst. rewrite Hs in Hs''. injection Hs'' as <-.
    rewrite Hka in Hka'. discriminate Hka'.
Qed.

Corollary deep_copy_same_version fuel src v w c w' :
  Closed w -> AllValidIn T v w src -> deep_copy T fuel src v w = Val (OK c, w') -> Iso w w' src c.
Proof.
  intros Cw HA H. eapply (proj1 (Filt_AllValid_Iso v w w')); eauto. eapply deep_copy_filtered; eauto.
Qed.

End Deep.
