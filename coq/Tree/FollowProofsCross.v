(* Tree/FollowProofsCross.v — C06 proofs, layer 5: move_element_full (a subtree moves to another model).
     ref_texts_covers / _sound   the snapshot of the references inside the moved subtree
     addid_fold                  the destination index after registering the moved identifiable elements
     refloop_sem                 the final loop: references whose text is a path of the snapshot are rewritten, every
                                 reference of the subtree is registered in the destination's referrer map *)
From Coq Require Import Lia.
From AV Require Import Base.Bytes Base.Outcome Hash.HashModel Tree.Heap Tree.Ops Tree.Script Tree.Index Tree.Refs
  Tree.IndexProofsW Tree.IndexProofsBase Tree.IndexProofsAssoc Tree.Follow Tree.FollowProofsPath Tree.FollowProofsLoop
  Tree.FollowProofsLoopG Tree.FollowProofsRename Tree.FollowProofsMove Tree.FollowProofsTree.
Open Scope string_scope.
Open Scope list_scope.
Open Scope N_scope.

Ltac wk H := lazymatch type of H with
  | wbind ?m ?k ?w = Val (OK ?r, ?w') =>
    let a := fresh "a" in let w1 := fresh "w" in let E := fresh "E" in let e := fresh "e" in let Q := fresh "Q" in
    apply wbind_inv in H as [(a & w1 & E & H) | (e & E & Q)]; [ try ro_subst E | discriminate Q ]
  end.

(* ---------- pure: registering the moved elements in the destination index ---------- *)
Section AddFold.
Variable src dest : list N.
Definition addid_step (I : list (list N * id)) (pe : list N * id) : list (list N * id) :=
  match strip_prefix src (fst pe) with
  | Some suf => assoc_insert (dest ++ suf) (snd pe) I
  | None => I
  end.

Lemma addid_fold : forall L I,
  (forall p1 e1 p2 e2 s1 s2, In (p1, e1) L -> In (p2, e2) L -> strip_prefix src p1 = Some s1 -> strip_prefix src p2 = Some s2 ->
     dest ++ s1 = dest ++ s2 -> e1 = e2) ->
  forall k,
    (forall p e suf, In (p, e) L -> strip_prefix src p = Some suf -> dest ++ suf = k ->
                     assoc_get k (fold_left addid_step L I) = Some e) /\
    ((forall p e suf, In (p, e) L -> strip_prefix src p = Some suf -> dest ++ suf <> k) ->
     assoc_get k (fold_left addid_step L I) = assoc_get k I).
Proof.
  induction L as [|(p0, e0) L IH]; intros I Hfun k; cbn [fold_left].
  - split; [intros p e suf []|reflexivity].
  - assert (Hfun' : forall p1 e1 p2 e2 s1 s2, In (p1, e1) L -> In (p2, e2) L -> strip_prefix src p1 = Some s1 ->
              strip_prefix src p2 = Some s2 -> dest ++ s1 = dest ++ s2 -> e1 = e2).
    { intros. eapply (Hfun p1 e1 p2 e2); eauto; right; assumption. }
    destruct (IH (addid_step I (p0, e0)) Hfun' k) as (IH1 & IH2).
    (* is k written again by the rest of the list? *)
    destruct (existsb (fun pe => match strip_prefix src (fst pe) with Some s => bytes_eqb (dest ++ s) k | None => false end) L) eqn:Ex.
    + apply existsb_exists in Ex as ((p', e') & Hin' & Hm). cbn [fst] in Hm.
      destruct (strip_prefix src p') as [s'|] eqn:Es'; [|discriminate Hm]. apply bytes_eqb_spec in Hm.
      split.
      * intros p e suf [[= <- <-]|Hin] Hs Hk; [|eapply IH1; eauto].
        rewrite (IH1 p' e' s' Hin' Es' Hm). f_equal. symmetry.
        eapply (Hfun p0 e0 p' e'); eauto; [left; reflexivity|right; exact Hin'|congruence].
      * intros Hno. exfalso. eapply (Hno p' e' s'); eauto. right. exact Hin'.
    + assert (Hnone : forall p e suf, In (p, e) L -> strip_prefix src p = Some suf -> dest ++ suf <> k).
      { intros p e suf Hin Hs Hk. assert (existsb (fun pe => match strip_prefix src (fst pe) with Some s => bytes_eqb (dest ++ s) k | None => false end) L = true); [|congruence].
        apply existsb_exists. exists (p, e). split; [exact Hin|]. cbn [fst]. rewrite Hs. apply bytes_eqb_spec. exact Hk. }
      rewrite (IH2 Hnone). split.
      * intros p e suf [[= <- <-]|Hin] Hs Hk; [|exfalso; eapply Hnone; eauto].
        unfold addid_step. cbn [fst snd]. rewrite Hs, Hk. apply assoc_get_insert_eq.
      * intros Hno. unfold addid_step. cbn [fst snd]. destruct (strip_prefix src p0) as [s0|] eqn:Es0; [|reflexivity].
        apply assoc_get_insert_neq. intros E. eapply (Hno p0 e0 s0); eauto. left. reflexivity.
Qed.
End AddFold.

Section Cross.
Variable T : tables.
Variable tab_el tab_en : nametab.
Variable check_fn : N -> list N -> res bool.
Variable LATEST : N.

(* ---------- the snapshot of references ---------- *)
Lemma ref_texts_covers w : forall ids L,
  ref_texts T tab_en ids w = Val (OK L, w) ->
  forall rf p, In rf ids -> ref_text T w rf = Some p -> In (p, rf) L.
Proof.
  induction ids as [|i ids IH]; intros L H rf p Hin Hr; [destruct Hin|].
  cbn [ref_texts] in H. wk H. apply get_node_inv in E as (ni & Hni & Q & _). injection Q as ->.
  wk H. apply wl_inv in E as (b & Hb & Q & _). injection Q as ->.
  wk H. match goal with E : ref_texts T tab_en ids w = Val (OK ?r, w) |- _ => rename E into Erest; rename r into rest end.
  assert (Hrest : In rf ids -> In (p, rf) rest) by (intros; eapply IH; eauto).
  destruct Hin as [<-|Hin].
  - unfold ref_text in Hr. rewrite Hni in Hr. unfold isref in Hr. rewrite Hb in Hr.
    destruct b; [|discriminate Hr]. unfold cdata_of in Hr.
    wk H. apply wl_inv in E as (cd & Hcd & Q & _). injection Q as ->. rewrite Hcd in Hr.
    destruct cd as [[| s | |]|]; try discriminate Hr. injection Hr as ->.
    wk H. apply wl_inv in E as (s0 & Hs0 & Q & _). injection Q as ->. cbn in Hs0. injection Hs0 as <-.
    apply wret_inv in H as ([= ->] & _). left. reflexivity.
  - destruct b.
    + wk H. destruct a as [d|].
      * wk H. apply wret_inv in H as ([= ->] & _). right. auto.
      * apply wret_inv in H as ([= ->] & _). auto.
    + apply wret_inv in H as ([= ->] & _). auto.
Qed.

(* an entry of the snapshot belongs to an element of the walk and is determined by that element's node *)
Definition ref_entry (w : world) (i : id) (s : list N) : Prop :=
  exists ni d, w_nodes w i = Some ni /\ is_ref T (n_type ni) = Val true /\ character_data T ni = Val (Some d) /\
               cdata_to_string tab_en d = Val s.

Lemma ref_texts_sound w : forall ids L,
  ref_texts T tab_en ids w = Val (OK L, w) -> forall s i, In (s, i) L -> In i ids /\ ref_entry w i s.
Proof.
  induction ids as [|i0 ids IH]; intros L H s i Hin.
  - apply wret_inv in H as ([= ->] & _). destruct Hin.
  - cbn [ref_texts] in H. wk H. apply get_node_inv in E as (ni & Hni & Q & _). injection Q as ->.
    wk H. apply wl_inv in E as (b & Hb & Q & _). injection Q as ->.
    wk H. match goal with E : ref_texts T tab_en ids w = Val (OK ?r, w) |- _ => rename E into Erest; rename r into rest end.
    assert (Hrest : In (s, i) rest -> In i (i0 :: ids) /\ ref_entry w i s).
    { intros Hr. destruct (IH _ Erest s i Hr) as (H1 & H2). split; [right; exact H1|exact H2]. }
    destruct b.
    + wk H. apply wl_inv in E as (cd & Hcd & Q & _). injection Q as ->. destruct cd as [d|].
      * wk H. apply wl_inv in E as (s0 & Hs0 & Q & _). injection Q as ->.
        apply wret_inv in H as ([= ->] & _). destruct Hin as [[= <- <-]|Hin]; [|auto].
        split; [left; reflexivity|]. exists ni, d. auto.
      * apply wret_inv in H as ([= ->] & _). auto.
    + apply wret_inv in H as ([= ->] & _). auto.
Qed.

Lemma ref_entry_fun w i s1 s2 : ref_entry w i s1 -> ref_entry w i s2 -> s1 = s2.
Proof. intros (n1 & d1 & A1 & _ & C1 & D1) (n2 & d2 & A2 & _ & C2 & D2). congruence. Qed.

(* ---------- loops that only touch the maps of one model ---------- *)
Definition frame_nodes (w w' : world) : Prop :=
  w_nodes w' = w_nodes w /\ w_next w' = w_next w /\ w_files w' = w_files w.

Lemma modify_model_other m f w w' m2 x2 :
  modify_model m f w = Val (OK tt, w') -> m2 <> m -> model_at w m2 = Some x2 -> model_at w' m2 = Some x2.
Proof.
  intros H Hne Hx. apply modify_model_inv in H as (x & _ & _ & ->). unfold model_at in *. cbn [w_models].
  rewrite list_set_nth_neq; [exact Hx|]. intros E. apply Hne. apply N2Nat.inj. exact E.
Qed.
Lemma modify_model_frame m f w w' : modify_model m f w = Val (OK tt, w') -> frame_nodes w w'.
Proof. intros H. apply modify_model_inv in H as (x & _ & _ & ->). repeat split. Qed.

Section SrcLoops.
Variable m_src m : N.
Hypothesis Hmm : m <> m_src.
Variable A : Type.
Variable body : A -> W unit.
Hypothesis body_ok : forall a w w', body a w = Val (OK tt, w') -> frame_nodes w w' /\ model_at w' m = model_at w m.
Variable each : list A -> W unit.
Hypothesis each_nil : each [] = wret tt.
Hypothesis each_cons : forall a r, each (a :: r) = (body a;; each r)%W.

Lemma srcloop_frame : forall L w w', each L w = Val (OK tt, w') -> frame_nodes w w' /\ model_at w' m = model_at w m.
Proof.
  induction L as [|a L IH]; intros w w' H.
  - rewrite each_nil in H. apply wret_inv in H as (_ & ->). repeat split.
  - rewrite each_cons in H. apply wbind_inv in H as [(u & w1 & E & H)|(e & _ & [=])]. destruct u.
    destruct (body_ok _ _ _ E) as ((A1 & A2 & A3) & A4). destruct (IH _ _ H) as ((B1 & B2 & B3) & B4).
    repeat split; congruence.
Qed.
End SrcLoops.

(* ---------- registering the moved identifiable elements in the destination ---------- *)
Section AddLoop.
Variable m : N.
Variable src dest : list N.
Variable each : list (list N * id) -> W unit.
Hypothesis each_nil : each [] = wret tt.
Hypothesis each_cons : forall op e r,
  each ((op, e) :: r) =
  (match strip_prefix src op with
   | Some suffix => add_identifiable m (dest ++ suffix) e
   | None => wret tt
   end;; each r)%W.

Lemma addid_loop : forall L w x w',
  model_at w m = Some x -> each L w = Val (OK tt, w') ->
  frame_nodes w w' /\ (forall m2, m2 <> m -> model_at w' m2 = model_at w m2) /\
  exists x', model_at w' m = Some x' /\ m_idents x' = fold_left (addid_step src dest) L (m_idents x) /\
             m_origins x' = m_origins x.
Proof.
  induction L as [|(op, e) L IH]; intros w x w' Hx H.
  - rewrite each_nil in H. apply wret_inv in H as (_ & ->). repeat split; auto. exists x. auto.
  - rewrite each_cons in H. apply wbind_inv in H as [(u & w1 & E & H)|(e0 & _ & [=])]. destruct u.
    assert (Hstep : frame_nodes w w1 /\ (forall m2, m2 <> m -> model_at w1 m2 = model_at w m2) /\
              exists x1, model_at w1 m = Some x1 /\ m_idents x1 = addid_step src dest (m_idents x) (op, e) /\
                         m_origins x1 = m_origins x).
    { unfold addid_step. cbn [fst snd]. destruct (strip_prefix src op) as [suf|].
      - unfold add_identifiable in E. apply modify_model_inv in E as (x0 & Hx0 & _ & ->).
        assert (x0 = x) by (unfold model_at in Hx; congruence). subst x0. split; [repeat split|]. split.
        + intros m2 Hne. unfold model_at. cbn [w_models]. apply list_set_nth_neq. intros Q. apply Hne. apply N2Nat.inj. exact Q.
        + eexists. split; [unfold model_at; cbn [w_models]; eapply list_set_nth_eq; exact Hx|]. cbn. auto.
      - apply wret_inv in E as (_ & ->). split; [repeat split|]. split; [auto|]. exists x. auto. }
    destruct Hstep as ((S1 & S2 & S3) & S4 & x1 & Hx1 & S5 & S6).
    destruct (IH _ _ _ Hx1 H) as ((I1 & I2 & I3) & I4 & x' & Hx' & I5 & I6).
    split; [repeat split; congruence|]. split.
    + intros m2 Hne. rewrite I4 by exact Hne. apply S4. exact Hne.
    + exists x'. split; [exact Hx'|]. cbn [fold_left]. rewrite <- S5. split; congruence.
Qed.
End AddLoop.

(* ---------- add_reference_origin ---------- *)
Lemma add_reference_origin_sem m r e w w' x :
  model_at w m = Some x -> add_reference_origin m r e w = Val (OK tt, w') ->
  frame_nodes w w' /\ (forall m2, m2 <> m -> model_at w' m2 = model_at w m2) /\
  model_at w' m = Some (set_origins x (merge_origin r [e] (m_origins x))).
Proof.
  intros Hx H. unfold add_reference_origin in H. apply modify_model_inv in H as (x0 & Hx0 & _ & ->).
  assert (x0 = x) by (unfold model_at in Hx; congruence). subst x0. split; [repeat split|]. split.
  - intros m2 Hne. unfold model_at. cbn [w_models]. apply list_set_nth_neq. intros Q. apply Hne. apply N2Nat.inj. exact Q.
  - unfold model_at. cbn [w_models]. erewrite list_set_nth_eq; [reflexivity|exact Hx].
Qed.

Lemma origins_of_merge_keep x k k2 e i :
  In i (origins_of x k) -> In i (origins_of (set_origins x (merge_origin k2 [e] (m_origins x))) k).
Proof.
  unfold origins_of. cbn [set_origins m_origins]. intros H. destruct (bytes_dec k k2) as [->|Hne].
  - rewrite assoc_get_merge_eq. destruct (assoc_get k2 (m_origins x)); [apply in_or_app; left; exact H|destruct H].
  - rewrite assoc_get_merge_neq by exact Hne. exact H.
Qed.
Lemma origins_of_merge_new x k e : In e (origins_of (set_origins x (merge_origin k [e] (m_origins x))) k).
Proof.
  unfold origins_of. cbn [set_origins m_origins]. rewrite assoc_get_merge_eq.
  destruct (assoc_get k (m_origins x)); [apply in_or_app; right|]; left; reflexivity.
Qed.

(* ---------- the final loop over the references of the moved subtree ---------- *)
Section RefLoop.
Variable m : N.
Variable src dest : list N.
Variable version : N.
Variable inorig : list N -> bool.
Variable each : list (list N * id) -> W unit.
Hypothesis each_nil : each [] = wret tt.
Hypothesis each_cons : forall old_ref re r,
  each ((old_ref, re) :: r) =
  ((if inorig old_ref then
      match strip_prefix src old_ref with
      | Some suffix =>
        raw_set_character_data T check_fn re (DString (dest ++ suffix)) version;;
        add_reference_origin m (dest ++ suffix) re
      | None => add_reference_origin m old_ref re
      end
    else add_reference_origin m old_ref re);; each r)%W.

Definition newtext (s : list N) : list N :=
  if inorig s then match strip_prefix src s with Some suf => dest ++ suf | None => s end else s.
Definition rewrites (s : list N) : bool :=
  inorig s && match strip_prefix src s with Some _ => true | None => false end.

Lemma refloop_sem : forall L w x w',
  model_at w m = Some x ->
  (forall s1 s2 i, In (s1, i) L -> In (s2, i) L -> s1 = s2) ->
  each L w = Val (OK tt, w') ->
  w_next w' = w_next w /\ w_files w' = w_files w /\ (forall m2, m2 <> m -> model_at w' m2 = model_at w m2) /\
  (exists x', model_at w' m = Some x' /\ m_idents x' = m_idents x /\
     (forall k i, In i (origins_of x k) -> In i (origins_of x' k)) /\
     (forall s i, In (s, i) L -> In i (origins_of x' (newtext s)))) /\
  (forall s i, In (s, i) L ->
     w_nodes w' i = if rewrites s then option_map (rewrite_head (newtext s)) (w_nodes w i) else w_nodes w i) /\
  (forall i, (forall s, ~ In (s, i) L) -> w_nodes w' i = w_nodes w i).
Proof.
  induction L as [|(s0, re) L IH]; intros w x w' Hx Hfun H.
  - rewrite each_nil in H. apply wret_inv in H as (_ & ->). repeat split; auto.
    + exists x. repeat split; auto. intros s i [].
    + intros s i [].
  - rewrite each_cons in H. apply wbind_inv in H as [(u & w1 & E & H)|(e0 & _ & [=])]. destruct u.
    (* one step *)
    assert (Hstep : w_next w1 = w_next w /\ w_files w1 = w_files w /\
              (forall m2, m2 <> m -> model_at w1 m2 = model_at w m2) /\
              model_at w1 m = Some (set_origins x (merge_origin (newtext s0) [re] (m_origins x))) /\
              w_nodes w1 re = (if rewrites s0 then option_map (rewrite_head (newtext s0)) (w_nodes w re) else w_nodes w re) /\
              (forall i, i <> re -> w_nodes w1 i = w_nodes w i)).
    { unfold newtext, rewrites. destruct (inorig s0); cbn [andb].
      - destruct (strip_prefix src s0) as [suf|].
        + apply wbind_inv in E as [(u & wa & E1 & E2)|(e0 & _ & [=])]. destruct u.
          destruct (raw_set_cd_ok T check_fn _ _ _ _ _ E1) as (rn & cs & Hrn & _ & _ & ->).
          assert (Hx2 : model_at (mkWorld (upd (w_nodes w) re (set_content rn (match n_content rn with [] => [CData (DString (dest ++ suf))] | _ :: r => CData (DString (dest ++ suf)) :: r end))) (w_next w) (w_files w) (w_models w)) m = Some x) by exact Hx.
          destruct (add_reference_origin_sem _ _ _ _ _ _ Hx2 E2) as ((A1 & A2 & A3) & A4 & A5).
          cbn [w_nodes w_next w_files] in *. repeat split; auto.
          * rewrite A1, upd_eq, Hrn. cbn [option_map]. f_equal. unfold rewrite_head. destruct (n_content rn); reflexivity.
          * intros i Hne. rewrite A1. apply upd_neq. exact Hne.
        + destruct (add_reference_origin_sem _ _ _ _ _ _ Hx E) as ((A1 & A2 & A3) & A4 & A5).
          repeat split; auto; intros; rewrite A1; reflexivity.
      - destruct (add_reference_origin_sem _ _ _ _ _ _ Hx E) as ((A1 & A2 & A3) & A4 & A5).
        repeat split; auto; intros; rewrite A1; reflexivity. }
    destruct Hstep as (S1 & S2 & S3 & S4 & S5 & S6).
    assert (Hfun' : forall s1 s2 i, In (s1, i) L -> In (s2, i) L -> s1 = s2).
    { intros s1 s2 i H1 H2. eapply Hfun; right; eauto. }
    destruct (IH _ _ _ S4 Hfun' H) as (I1 & I2 & I3 & (x' & Hx' & I4 & I5 & I6) & I7 & I8).
    split; [congruence|]. split; [congruence|]. split.
    { intros m2 Hne. rewrite I3 by exact Hne. apply S3. exact Hne. }
    split.
    { exists x'. split; [exact Hx'|]. split; [rewrite I4; reflexivity|]. split.
      - intros k i Hi. apply I5. apply origins_of_merge_keep. exact Hi.
      - intros s i [[= <- <-]|Hin]; [|apply I6; exact Hin]. apply I5. apply origins_of_merge_new. }
    (* is the element written again by the rest of the list? *)
    assert (Hdec : forall i, {s | In (s, i) L} + {forall s, ~ In (s, i) L}).
    { intros i. clear. induction L as [|(s1, i1) L IHL]; [right; intros s []|].
      destruct (N.eq_dec i1 i) as [->|Hne]; [left; exists s1; left; reflexivity|].
      destruct IHL as [(s & Hs)|Hn]; [left; exists s; right; exact Hs|].
      right. intros s [[= _ E]|Hin]; [contradiction|eapply Hn; eauto]. }
    split.
    + intros s i [[= <- <-]|Hin].
      * destruct (Hdec re) as [(s' & Hs')|Hno].
        -- assert (s' = s0) by (eapply Hfun; [right; exact Hs'|left; reflexivity]). subst s'.
           rewrite (I7 _ _ Hs'), S5. destruct (rewrites s0); [|reflexivity].
           destruct (w_nodes w re); reflexivity.
        -- rewrite (I8 re Hno). exact S5.
      * rewrite (I7 _ _ Hin). destruct (N.eq_dec i re) as [->|Hne].
        -- assert (s = s0) by (eapply Hfun; [right; exact Hin|left; reflexivity]). subst s.
           rewrite S5. destruct (rewrites s0); [|reflexivity]. destruct (w_nodes w re); reflexivity.
        -- rewrite (S6 i Hne). reflexivity.
    + intros i Hno. rewrite I8 by (intros s Hs; eapply Hno; right; exact Hs).
      apply S6. intros ->. eapply Hno. left. reflexivity.
Qed.
End RefLoop.

Lemma modify_model_at_other m f w w' m2 :
  modify_model m f w = Val (OK tt, w') -> m2 <> m -> model_at w' m2 = model_at w m2.
Proof.
  intros H Hne. apply modify_model_inv in H as (x & _ & _ & ->). unfold model_at. cbn [w_models].
  apply list_set_nth_neq. intros E. apply Hne. apply N2Nat.inj. exact E.
Qed.

(* ---------- move_element_full ---------- *)
Theorem move_full_follow self mv pos m m_src version w w' r :
  Inv06 T check_fn w ->
  move_element_full T tab_en check_fn self mv pos m m_src version w = Val (OK r, w') ->
  MReach T w m_src mv -> m <> m_src -> (exists xd, model_at w m = Some xd) ->
  (forall n, w_nodes w self = Some n -> isref T (n_type n) = false) ->
  exists xs x', model_at w m_src = Some xs /\ model_at w' m = Some x' /\
    (* (a) a reference inside the subtree whose text is the path of an element of the subtree *)
    (forall rf p x, reach T w mv rf -> ref_text T w rf = Some p -> assoc_get p (m_idents xs) = Some x -> reach T w mv x ->
       exists p', ref_text T w' rf = Some p' /\ assoc_get p' (m_idents x') = Some x /\ In rf (origins_of x' p')) /\
    (* (b) a reference inside the subtree pointing elsewhere keeps its text and is registered in the destination *)
    (forall rf p, reach T w mv rf -> ref_text T w rf = Some p ->
       ~ (exists x, assoc_get p (m_idents xs) = Some x /\ reach T w mv x) ->
       ref_text T w' rf = Some p /\ In rf (origins_of x' p)) /\
    (* (c) a reference outside the subtree keeps its text *)
    (forall rf p, ref_text T w rf = Some p -> ~ reach T w mv rf -> ref_text T w' rf = Some p).
Proof.
  intros (HT & H4 & H5) H HRmv Hmm (xd & Hxd) Hselfref. unfold move_element_full in H.
  wk H. apply get_node_inv in E as (n & Hn & Q & _). injection Q as ->.
  wk H. apply get_node_inv in E as (mn & Hmn & Q & _). injection Q as ->.
  wk H. rename E into Esrc. wk H. rename E into Edst. wk H. rename E into Epar.
  destruct a1 as [src_parent|]; [|discriminate H].
  wk H. apply wget_inv in E as ([= ->] & _).
  wk H. rename E into Edfs. wk H. rename E into Enp. wk H. rename E into Ert.
  match type of Esrc with _ = Val (OK ?x, _) => rename x into src end.
  match type of Edst with _ = Val (OK ?x, _) => rename x into dpre end.
  match type of Edfs with _ = Val (OK ?x, _) => rename x into ids end.
  match type of Enp with _ = Val (OK ?x, _) => rename x into orig end.
  match type of Ert with _ = Val (OK ?x, _) => rename x into L end.
  destruct (path_unchecked_spec T w m_src mv mn HT Hmn HRmv) as (_ & Hps).
  destruct (Hps _ _ Esrc) as (_ & (src0 & [= <-] & Hsp)).
  destruct HRmv as (xs & Hxs & Hrootmv). pose proof (ex_intro _ xs (conj Hxs Hrootmv) : MReach T w m_src mv) as HRmv.
  (* the snapshot of paths *)
  assert (Htodo : forall k x, In (k, x) orig ->
            assoc_get k (m_idents xs) = Some x /\ reach T w mv x /\ old_form src k).
  { intros k x Hin.
    destruct (named_paths_sound T w ids orig Enp k x Hin) as (Hxi & nx & Hnx & Hpx).
    assert (Hrx : reach T w mv x) by (apply creach_reach; eapply dfs_sound; eauto).
    assert (HRx : MReach T w m_src x) by (exists xs; split; [exact Hxs|eapply reach_trans; eauto]).
    destruct (path_of_spec T w m_src x nx HT Hnx HRx) as (_ & Hps2). destruct (Hps2 _ _ Hpx) as (_ & Hif).
    destruct (identifiable T w x) eqn:Eix; [|discriminate Hif]. destruct Hif as (p0 & [= <-] & Hspx).
    split; [|split; [exact Hrx|eapply below_old_form; eauto]].
    apply (i4_exact _ _ _ H4 m_src xs Hxs). split; [exact HRx|]. split; assumption. }
  assert (Hcov : forall p x, assoc_get p (m_idents xs) = Some x -> reach T w mv x -> In (p, x) orig).
  { intros p x Hgx Hrx. pose proof (proj1 (i4_exact _ _ _ H4 m_src xs Hxs p x) Hgx) as (HRx & Hidx & Hspx).
    unfold identifiable in Hidx. destruct (w_nodes w x) as [nx|] eqn:Hnx; [|discriminate Hidx].
    assert (Hnmd : is_named T (n_type nx) = Val true).
    { unfold identifiable_n in Hidx. apply andb_true_iff in Hidx as (Hnm & _). unfold named in Hnm.
      destruct (is_named T (n_type nx)) as [[|]| |]; try discriminate Hnm. reflexivity. }
    assert (Hxi : In x ids) by (eapply dfs_covers; [apply (reach_creach T); exact Hrx|exact Edfs]).
    destruct (named_paths_val T w ids orig Enp x nx Hxi Hnx Hnmd) as (r0 & Hr0).
    destruct (path_of_spec T w m_src x nx HT Hnx HRx) as (_ & Hps2). destruct (Hps2 _ _ Hr0) as (_ & Hif).
    assert (Hidx2 : identifiable T w x = true) by (unfold identifiable; rewrite Hnx; exact Hidx).
    rewrite Hidx2 in Hif. destruct Hif as (p0 & -> & Hsp0).
    destruct (specpath_fun T w m_src m_src x _ _ HT Hspx Hsp0) as (_ & <-).
    eapply named_paths_covers; eauto. }
  (* detach *)
  wk H. rename E into Edet. unfold detach_from in Edet. wk Edet.
  apply get_node_inv in E as (pn & Hpn & Q & _). injection Q as ->.
  destruct (index_of (citem_is mv) (n_content pn)) as [kpos|] eqn:Eidx; [|discriminate Edet].
  apply set_node_inv in Edet as (_ & ->).
  assert (Hpar : n_parent mn = PElem src_parent).
  { unfold parent_of in Epar. destruct (n_parent mn); try discriminate Epar.
    apply wret_inv in Epar as ([= ->] & _). reflexivity. }
  assert (Hmsp : mv <> src_parent) by (intros <-; exact (no_self_parent w mv mn HT Hmn Hpar)).
  (* the two clean-up loops in the source model *)
  wk H. rename E into Erm1. match type of Erm1 with _ = Val (OK ?u, _) => destruct u end.
  match type of Erm1 with _ _ ?wa = Val (_, ?wb) => assert (HR : frame_nodes wa wb /\ model_at wb m = model_at wa m) end.
  { eapply (srcloop_frame) with (body := fun a : list N * id => remove_identifiable m_src (fst a)); [..|exact Erm1];
      first [ reflexivity | (intros [? ?] ?; reflexivity)
            | (intros ? ? ? Hb; split; [eapply modify_model_frame; exact Hb|eapply modify_model_at_other; eauto]) ]. }
  destruct HR as ((R1 & R2 & R3) & R4).
  wk H. rename E into Erm2. match type of Erm2 with _ = Val (OK ?u, _) => destruct u end.
  match type of Erm2 with _ _ ?wa = Val (_, ?wb) => assert (HR : frame_nodes wa wb /\ model_at wb m = model_at wa m) end.
  { eapply (srcloop_frame) with (body := fun a : list N * id => remove_reference_origin m_src (fst a) (snd a)); [..|exact Erm2];
      first [ reflexivity | (intros [? ?] ?; reflexivity)
            | (intros ? ? ? Hb; split; [eapply modify_model_frame; exact Hb|eapply modify_model_at_other; eauto]) ]. }
  destruct HR as ((Q1 & Q2 & Q3) & Q4).
  cbn [w_nodes w_next w_files] in *.
  (* re-parent *)
  wk H. apply modify_node_inv in E as (n1 & Hn1 & _ & ->). rewrite Q1, R1 in Hn1. rewrite upd_neq in Hn1 by exact Hmsp.
  assert (n1 = mn) by congruence. subst n1. clear Hn1.
  wk H. apply get_node_inv in E as (mn2 & Hmn2 & Q & _). injection Q as ->.
  cbn [w_nodes] in Hmn2. rewrite upd_eq in Hmn2. injection Hmn2 as <-.
  match type of H with wbind _ _ ?ww = _ => set (w2 := ww) in * end.
  assert (Hw2n : forall i, i <> mv -> i <> src_parent -> w_nodes w2 i = w_nodes w i).
  { intros i H1 H2. unfold w2. cbn [w_nodes]. rewrite upd_neq by assumption. rewrite Q1, R1. apply upd_neq. exact H2. }
  assert (Hw2mv : w_nodes w2 mv = Some (set_parent mn (PElem self))) by (unfold w2; cbn [w_nodes]; apply upd_eq).
  assert (Hw2names : forall i, option_map n_name (w_nodes w2 i) = option_map n_name (w_nodes w i)).
  { intros i. unfold w2. cbn [w_nodes]. rewrite Q1, R1. unfold upd.
    destruct (i =? mv) eqn:Eq1; [apply N.eqb_eq in Eq1; subst i; rewrite Hmn; reflexivity|].
    destruct (i =? src_parent) eqn:Eq2; [apply N.eqb_eq in Eq2; subst i; rewrite Hpn; reflexivity|reflexivity]. }
  assert (Hxd2 : model_at w2 m = Some xd).
  { unfold w2. match goal with |- model_at {| w_nodes := _; w_next := _; w_files := _; w_models := w_models ?wx |} m = _ =>
      change (model_at wx m = Some xd) end. rewrite Q4, R4. exact Hxd. }
  wk H. apply (is_identifiable_val T) in E as (_ & [= ->]).
  rewrite (identifiable_n_same T w w2 mn (set_parent mn (PElem self)) Hw2names eq_refl eq_refl) in H.
  (* the destination path *)
  wk H. rename E into Edest.
  match type of Edest with _ = Val (OK ?d, ?w3) =>
    rename d into dest;
    assert (Hw3 : w_models w3 = w_models w2 /\ forall rf p, ref_text T w rf = Some p -> w_nodes w3 rf = w_nodes w2 rf) end.
  { destruct (identifiable_n T w mn) eqn:Eid.
    - wk Edest. apply wret_inv in Edest as (_ & ->).
      destruct (make_unique_ok T _ _ _ _ _ _ E) as (ni & xm0 & Hni & _ & _ & M1 & _ & _ & M4 & _).
      assert (ni = set_parent mn (PElem self)) by congruence. subst ni. cbn [set_parent n_content] in M4.
      split; [exact M1|]. intros rf p Hr. apply M4. intros s rest Hc ->.
      unfold identifiable_n in Eid. apply andb_true_iff in Eid as (_ & Hsc). unfold short_child in Hsc. rewrite Hc in Hsc.
      destruct (w_nodes w s) as [sn|] eqn:Hsn; [|discriminate Hsc].
      destruct (n_name sn =? name_short_name T) eqn:Esn; [|discriminate Hsc]. apply N.eqb_eq in Esn.
      destruct (i4_short _ _ _ H4 s sn Hsn Esn) as (_ & Hsref & _).
      destruct (ref_text_content T w s p sn Hr Hsn) as (_ & Hc2). unfold isref in Hc2. rewrite Hsref in Hc2. discriminate Hc2.
    - apply wret_inv in Edest as (_ & ->). split; reflexivity. }
  destruct Hw3 as (Hw3m & Hw3n).
  (* registering the identifiable elements *)
  wk H. rename E into Eadd. match type of Eadd with _ = Val (OK ?u, _) => destruct u end.
  match type of Eadd with ?ee _ ?w3 = Val (_, ?w4) =>
    destruct (addid_loop m src dest ee eq_refl (fun _ _ _ => eq_refl) orig w3 xd w4) as ((A1 & A2 & A3) & A4 & x4 & Hx4 & A5 & A6);
      [unfold model_at in *; rewrite Hw3m; exact Hxd2|exact Eadd|] end.
  (* the reference loop *)
  wk H. rename E into Eref. match type of Eref with _ = Val (OK ?u, _) => destruct u end.
  assert (HfunL : forall s1 s2 i, In (s1, i) L -> In (s2, i) L -> s1 = s2).
  { intros s1 s2 i H1 H2. destruct (ref_texts_sound w ids L Ert s1 i H1) as (_ & X1).
    destruct (ref_texts_sound w ids L Ert s2 i H2) as (_ & X2). eapply ref_entry_fun; eauto. }
  match type of Eref with ?ee _ ?w4 = Val (_, ?w5) =>
    destruct (refloop_sem m src dest version (fun old_ref => existsb (fun p : list N * id => bytes_eqb (fst p) old_ref) orig)
                ee eq_refl (fun _ _ _ => eq_refl) L w4 x4 w5 Hx4 HfunL Eref)
      as (F1 & F2 & F3 & (x5 & Hx5 & F4 & F5 & F6) & F7 & F8) end.
  (* insertion *)
  wk H. rename E into Eins. apply wret_inv in H as (_ & <-).
  unfold content_insert in Eins. wk Eins. apply get_node_inv in E as (n5 & Hn5 & Q & _). injection Q as ->.
  match type of Eins with (if ?b then _ else _) _ = _ => destruct b end; [discriminate Eins|].
  apply set_node_inv in Eins as (_ & ->).
  (* the node of a reference before the last loop *)
  assert (Hkeep : forall rf p, ref_text T w rf = Some p ->
            rf <> self /\ exists n4, w_nodes w4 rf = Some n4 /\ ref_text T w4 rf = Some p).
  { intros rf p Hr.
    assert (K1 : rf <> src_parent).
    { intros ->. destruct (ref_text_content T w _ p pn Hr Hpn) as (Hc & _). rewrite Hc in Eidx. cbn in Eidx. discriminate Eidx. }
    assert (K2 : rf <> self).
    { intros ->. destruct (ref_text_content T w _ p n Hr Hn) as (_ & Hc). rewrite (Hselfref n Hn) in Hc. discriminate Hc. }
    split; [exact K2|].
    assert (Hn43 : w_nodes w4 rf = w_nodes w2 rf) by (rewrite A1; exact (Hw3n rf p Hr)).
    destruct (N.eq_dec rf mv) as [->|Hne].
    - exists (set_parent mn (PElem self)). split; [rewrite Hn43; exact Hw2mv|]. rewrite <- Hr.
      unfold ref_text. rewrite Hn43, Hw2mv, Hmn. reflexivity.
    - assert (Hsame : w_nodes w2 rf = w_nodes w rf) by (apply Hw2n; assumption).
      assert (Hnr : exists nr, w_nodes w rf = Some nr).
      { unfold ref_text in Hr. destruct (w_nodes w rf) as [nr|]; [eauto|discriminate Hr]. }
      destruct Hnr as (nr & Enr). exists nr. split; [rewrite Hn43, Hsame; exact Enr|].
      rewrite <- Hr. apply ref_text_node. rewrite Hn43. exact Hsame. }
  exists xs, x5. split; [exact Hxs|]. split; [exact Hx5|]. split; [|split].
  - intros rf p x Hrf Hr Hgx Hrx.
    assert (Hin_o : In (p, x) orig) by (apply Hcov; assumption).
    destruct (Htodo p x Hin_o) as (_ & _ & (suf & -> & Hb)).
    assert (HinL : In (src ++ suf, rf) L).
    { eapply ref_texts_covers; eauto. eapply dfs_covers; [apply (reach_creach T); exact Hrf|exact Edfs]. }
    assert (Hio : existsb (fun pe : list N * id => bytes_eqb (fst pe) (src ++ suf)) orig = true).
    { apply existsb_exists. exists (src ++ suf, x). split; [exact Hin_o|]. apply bytes_eqb_refl. }
    exists (dest ++ suf). destruct (Hkeep rf _ Hr) as (Rself & n4 & Hn4 & Hr4).
    split; [|split].
    + pose proof (F7 _ _ HinL) as Hnode. unfold rewrites, newtext in Hnode. rewrite Hio, strip_prefix_app in Hnode. cbn [andb] in Hnode.
      rewrite Hn4 in Hnode. cbn [option_map] in Hnode.
      apply (ref_text_rewritten T w4 _ rf n4 (src ++ suf) (dest ++ suf) Hn4 Hr4).
      cbn [w_nodes]. rewrite upd_neq by exact Rself. exact Hnode.
    + rewrite F4, A5.
      refine (proj1 (addid_fold src dest orig (m_idents xd) _ (dest ++ suf)) (src ++ suf) x suf Hin_o (strip_prefix_app _ _) eq_refl).
      intros p1 e1 p2 e2 s1 s2 I1 I2 E1 E2 Heq. apply app_inv_head in Heq. subst s2.
      apply strip_prefix_some in E1. apply strip_prefix_some in E2. subst p1 p2.
      destruct (Htodo _ _ I1) as (G1 & _). destruct (Htodo _ _ I2) as (G2 & _). congruence.
    + pose proof (F6 _ _ HinL) as Ho. unfold newtext in Ho. rewrite Hio, strip_prefix_app in Ho. exact Ho.
  - intros rf p Hrf Hr Hnot.
    assert (HinL : In (p, rf) L).
    { eapply ref_texts_covers; eauto. eapply dfs_covers; [apply (reach_creach T); exact Hrf|exact Edfs]. }
    assert (Hio : existsb (fun pe : list N * id => bytes_eqb (fst pe) p) orig = false).
    { destruct (existsb _ orig) eqn:Ex; [|reflexivity]. exfalso. apply existsb_exists in Ex as ((p0 & x) & Hin0 & Hb).
      cbn [fst] in Hb. apply bytes_eqb_spec in Hb. subst p0. destruct (Htodo p x Hin0) as (G1 & G2 & _). apply Hnot. eauto. }
    destruct (Hkeep rf _ Hr) as (Rself & n4 & Hn4 & Hr4).
    split.
    + pose proof (F7 _ _ HinL) as Hnode. unfold rewrites in Hnode. rewrite Hio in Hnode. cbn [andb] in Hnode.
      rewrite <- Hr4. apply ref_text_node. cbn [w_nodes]. rewrite upd_neq by exact Rself. exact Hnode.
    + pose proof (F6 _ _ HinL) as Ho. unfold newtext in Ho. rewrite Hio in Ho. exact Ho.
  - intros rf p Hr Hnot. destruct (Hkeep rf _ Hr) as (Rself & n4 & Hn4 & Hr4).
    rewrite <- Hr4. apply ref_text_node. cbn [w_nodes]. rewrite upd_neq by exact Rself. apply F8.
    intros s HinL. apply Hnot. destruct (ref_texts_sound w ids L Ert s rf HinL) as (Hi & _).
    apply creach_reach. eapply dfs_sound; eauto.
Qed.

(* ---------- the public calls ---------- *)
Definition registered (w : world) (m : N) (rf : id) : Prop :=
  exists xm p, model_at w m = Some xm /\ ref_text T w rf = Some p /\ In rf (origins_of xm p).

Definition cross_clauses (w w' : world) (m_src m : N) (mv : id) : Prop :=
  (forall rf x, below T w mv rf -> designates T w m_src rf x -> below T w mv x ->
                designates T w' m rf x /\ registered w' m rf) /\
  (forall rf p, below T w mv rf -> ref_text T w rf = Some p ->
                ~ (exists x, designates T w m_src rf x /\ below T w mv x) ->
                ref_text T w' rf = Some p /\ registered w' m rf) /\
  (forall rf p, ref_text T w rf = Some p -> ~ below T w mv rf -> ref_text T w' rf = Some p).

Lemma cross_of_full h mv pos m m_src version w w' r :
  Inv06 T check_fn w ->
  move_element_full T tab_en check_fn h mv pos m m_src version w = Val (OK r, w') ->
  model_of h w = Val (OK m, w) -> model_of mv w = Val (OK m_src, w) -> m <> m_src ->
  (forall n, w_nodes w h = Some n -> isref T (n_type n) = false) ->
  cross_clauses w w' m_src m mv.
Proof.
  intros HI Hmf Hmh Hmm Hne Hnr. pose proof HI as (HT & _).
  assert (HRmv : MReach T w m_src mv) by (apply (model_of_mreach T); assumption).
  assert (HRh : MReach T w m h) by (apply (model_of_mreach T); assumption).
  assert (Hxd : exists xd, model_at w m = Some xd) by (destruct HRh as (xd & H1 & _); eauto).
  destruct (move_full_follow h mv pos m m_src version w w' r HI Hmf HRmv Hne Hxd Hnr) as (xs & x' & Hxs & Hx' & Ha & Hb & Hc).
  split; [|split].
  - intros rf x Hrf (xs0 & p & Hxs0 & Hr & Hp) Hx. assert (xs0 = xs) by congruence. subst xs0.
    destruct (Ha rf p x Hrf Hr Hp Hx) as (p' & H1 & H2 & H3). split; [exists x', p'; auto|exists x', p'; auto].
  - intros rf p Hrf Hr Hnot. destruct (Hb rf p Hrf Hr) as (H1 & H2).
    + intros (x & Hgx & Hrx). apply Hnot. exists x. split; [exists xs, p; auto|exact Hrx].
    + split; [exact H1|exists x', p; auto].
  - exact Hc.
Qed.

Theorem C06_move_cross h mv w w' r m m_src :
  TablesOK T check_fn -> Inv06 T check_fn w ->
  e_move_element_here T tab_en check_fn LATEST h mv w = Val (OK r, w') ->
  model_of h w = Val (OK m, w) -> model_of mv w = Val (OK m_src, w) -> m <> m_src ->
  cross_clauses w w' m_src m mv.
Proof.
  intros TK HI H Hmh Hmm Hne. unfold e_move_element_here in H.
  destruct (h =? mv); [discriminate H|].
  wk H. wk H. assert (a = m_src) by congruence. assert (a0 = m) by congruence. subst a a0.
  wk H. wk H. destruct (negb (a0 =? a)); [discriminate H|].
  wk H. apply get_node_inv in E3 as (n & Hn & Q & _). injection Q as ->.
  wk H. apply get_node_inv in E3 as (mn & Hmn & Q & _). injection Q as ->.
  wk H. destruct a1 as (rs, re).
  assert (Hnr : forall n0, w_nodes w h = Some n0 -> isref T (n_type n0) = false).
  { intros n0 Hn0. assert (n0 = n) by congruence. subst n0. eapply (calc_range_not_ref T); eauto. }
  destruct (m =? m_src) eqn:Em; [apply N.eqb_eq in Em; contradiction|].
  eapply cross_of_full; eauto.
Qed.

Theorem C06_move_at_cross h mv pos w w' r m m_src :
  TablesOK T check_fn -> Inv06 T check_fn w ->
  e_move_element_here_at T tab_en check_fn LATEST h mv pos w = Val (OK r, w') ->
  model_of h w = Val (OK m, w) -> model_of mv w = Val (OK m_src, w) -> m <> m_src ->
  cross_clauses w w' m_src m mv.
Proof.
  intros TK HI H Hmh Hmm Hne. unfold e_move_element_here_at in H.
  destruct (h =? mv); [discriminate H|].
  wk H. wk H. assert (a = m_src) by congruence. assert (a0 = m) by congruence. subst a a0.
  wk H. wk H. destruct (negb (a0 =? a)); [discriminate H|].
  wk H. apply get_node_inv in E3 as (n & Hn & Q & _). injection Q as ->.
  wk H. apply get_node_inv in E3 as (mn & Hmn & Q & _). injection Q as ->.
  wk H. destruct a1 as (rs, re).
  assert (Hnr : forall n0, w_nodes w h = Some n0 -> isref T (n_type n0) = false).
  { intros n0 Hn0. assert (n0 = n) by congruence. subst n0. eapply (calc_range_not_ref T); eauto. }
  destruct ((rs <=? pos) && (pos <=? re)); [|discriminate H].
  destruct (m =? m_src) eqn:Em; [apply N.eqb_eq in Em; contradiction|].
  eapply cross_of_full; eauto.
Qed.

End Cross.
