(* Tree/InvProofsCore.v — C03 proofs, layer 1: how Core / NoOrphan react to the elementary changes of the heap
   (same skeleton, one node's content list, re-parenting, allocation, clearing a subtree, a new model). *)
From Coq Require Import PeanoNat Arith.
From AV Require Import Base.Bytes Base.Outcome Hash.HashModel Tree.Heap Tree.Ops Tree.Script Tree.Inv Tree.InvProofsBase.
Open Scope string_scope.
Open Scope list_scope.
Open Scope N_scope.

(* ------------------------------------------------------------------ skeleton views *)
Lemma skel_some w i n : w_nodes w i = Some n -> skel w i = Some (n_parent n, kids n).
Proof. unfold skel. intros ->. reflexivity. Qed.
Lemma skel_inv w i pp ks : skel w i = Some (pp, ks) -> exists n, w_nodes w i = Some n /\ n_parent n = pp /\ kids n = ks.
Proof. unfold skel. destruct (w_nodes w i) as [n|]; [|discriminate]. intros [= <- <-]. eauto. Qed.
Lemma skel_none w i : skel w i = None <-> w_nodes w i = None.
Proof. unfold skel. destruct (w_nodes w i); split; congruence. Qed.

Lemma allocated_skel w i : allocated w i <-> skel w i <> None.
Proof.
  unfold allocated, skel. destruct (w_nodes w i) as [n|]; split; intros H; try congruence; eauto.
  destruct H as (? & [=]).
Qed.
Lemma lists_skel w p c : lists w p c <-> exists pp ks, skel w p = Some (pp, ks) /\ In c ks.
Proof.
  split.
  - intros (n & Hn & Hc). exists (n_parent n), (kids n). split; auto. apply skel_some; auto.
  - intros (pp & ks & Hs & Hc). apply skel_inv in Hs as (n & Hn & _ & <-). exists n; auto.
Qed.
Lemma par_skel w c p : par w c p <-> exists ks, skel w c = Some (PElem p, ks).
Proof.
  split.
  - intros (n & Hn & Hp). exists (kids n). rewrite (skel_some _ _ _ Hn), Hp. reflexivity.
  - intros (ks & Hs). apply skel_inv in Hs as (n & Hn & Hp & _). exists n; auto.
Qed.

Lemma par_fun w c p q : par w c p -> par w c q -> p = q.
Proof. intros (n & Hn & Hp) (n' & Hn' & Hq). congruence. Qed.

Lemma depth_alloc w x h : Depth w x h -> allocated w x.
Proof. destruct 1; eexists; eauto. Qed.

Lemma depth_fun w x h : Depth w x h -> forall h', Depth w x h' -> h = h'.
Proof.
  induction 1 as [x n Hn Ht | x n p h Hn Hp Hd IH]; intros h' H'.
  - destruct H' as [x n' Hn' Ht' | x n' p' h' Hn' Hp' Hd']; auto.
    exfalso. rewrite Hn in Hn'. injection Hn' as <-. eapply Ht; eauto.
  - destruct H' as [x n' Hn' Ht' | x n' p' h' Hn' Hp' Hd'].
    + exfalso. rewrite Hn in Hn'. injection Hn' as <-. eapply Ht'; eauto.
    + f_equal. apply IH. rewrite Hn in Hn'. injection Hn' as <-. rewrite Hp in Hp'. injection Hp' as <-. auto.
Qed.

(* Depth only depends on the parent links *)
Lemma depth_transfer w w' :
  (forall x n, w_nodes w x = Some n -> exists n', w_nodes w' x = Some n' /\ n_parent n' = n_parent n) ->
  forall x h, Depth w x h -> Depth w' x h.
Proof.
  intros Hp x h H. induction H as [x n Hn Ht | x n p h Hn Hpp Hd IH].
  - destruct (Hp _ _ Hn) as (n' & Hn' & E). eapply D_top; [eauto|rewrite E; auto].
  - destruct (Hp _ _ Hn) as (n' & Hn' & E). eapply D_step; eauto. congruence.
Qed.

(* ------------------------------------------------------------------ same_tree *)
Lemma same_tree_refl w : same_tree w w.
Proof. repeat split; auto. Qed.
Lemma same_tree_trans a b c : same_tree a b -> same_tree b c -> same_tree a c.
Proof. intros (H1 & H2 & H3) (G1 & G2 & G3). split; [congruence | split; [congruence | intros i; rewrite G3; auto]]. Qed.
Lemma same_tree_sym a b : same_tree a b -> same_tree b a.
Proof. intros (H1 & H2 & H3). repeat split; auto. Qed.

Lemma same_tree_parents w w' :
  (forall i, skel w' i = skel w i) ->
  forall x n, w_nodes w x = Some n -> exists n', w_nodes w' x = Some n' /\ n_parent n' = n_parent n.
Proof.
  intros Hs x n Hn. specialize (Hs x). rewrite (skel_some _ _ _ Hn) in Hs.
  apply skel_inv in Hs as (n' & Hn' & Hp & _). eauto.
Qed.

Lemma Core_same_tree w w' : same_tree w w' -> Core w -> Core w'.
Proof.
  intros (Hn & Hr & Hs) C. constructor.
  - intros i. rewrite allocated_skel, Hs, <- allocated_skel, Hn. apply C.
  - intros p c. rewrite lists_skel, par_skel. setoid_rewrite Hs. rewrite <- lists_skel, <- par_skel. apply C.
  - intros p n Hp. pose proof (skel_some _ _ _ Hp) as E. rewrite Hs in E.
    apply skel_inv in E as (n0 & Hn0 & _ & <-). eapply c_nodup; eauto.
  - intros k r. rewrite Hr. intros H. destruct (c_roots _ C _ _ H) as (n & Hn0 & Hp).
    pose proof (skel_some _ _ _ Hn0) as E. rewrite <- Hs in E.
    apply skel_inv in E as (n' & Hn' & Hp' & _). exists n'. split; auto. congruence.
  - intros i. rewrite allocated_skel, Hs, <- allocated_skel. intros Ha.
    destruct (c_depth _ C _ Ha) as (h & Hd). exists h. eapply depth_transfer; [|exact Hd].
    apply same_tree_parents. auto.
Qed.

(* orphans: nodes whose parent does not list them, up to a set S of exceptions *)
Definition OrphE (w : world) (S : id -> Prop) : Prop := forall c p, par w c p -> lists w p c \/ S c.

Lemma NoOrphanE_OrphE w : (forall c p, par w c p -> lists w p c) <-> OrphE w (fun _ => False).
Proof. unfold OrphE. split; intros H c p Hp; specialize (H c p Hp); tauto. Qed.
Lemma OrphE_weaken w (S S' : id -> Prop) : (forall x, S x -> S' x) -> OrphE w S -> OrphE w S'.
Proof. intros HS H c p Hp. destruct (H c p Hp); auto. Qed.

Lemma OrphE_same_tree w w' S : same_tree w w' -> OrphE w S -> OrphE w' S.
Proof.
  intros (Hn & Hr & Hs) H c p. rewrite par_skel, lists_skel. setoid_rewrite Hs.
  rewrite <- par_skel, <- lists_skel. apply H.
Qed.
(* ---------- RootsOnly ---------- *)
Lemma rootsonly_mono w w' :
  (forall k r, nth_error (roots w) k = Some r -> nth_error (roots w') k = Some r) ->
  (forall x m ks, skel w' x = Some (PModel m, ks) -> exists ks0, skel w x = Some (PModel m, ks0)) ->
  RootsOnly w -> RootsOnly w'.
Proof.
  intros Hr Hp R i n m Hi Hm. pose proof (skel_some _ _ _ Hi) as E. rewrite Hm in E.
  destruct (Hp _ _ _ E) as (ks0 & E0). apply skel_inv in E0 as (n0 & Hn0 & Hp0 & _). apply Hr. eapply R; eauto.
Qed.

Definition OrphSub (w : world) (S : id -> Prop) : Prop := OrphE w S /\ RootsOnly w.

Lemma NoOrphan_OrphSub w : NoOrphan w <-> OrphSub w (fun _ => False).
Proof. unfold NoOrphan, OrphSub. rewrite NoOrphanE_OrphE. tauto. Qed.
Lemma OrphSub_weaken w (S S' : id -> Prop) : (forall x, S x -> S' x) -> OrphSub w S -> OrphSub w S'.
Proof. intros HS (H & R). split; auto. eapply OrphE_weaken; eauto. Qed.
Lemma OrphSub_same_tree w w' S : same_tree w w' -> OrphSub w S -> OrphSub w' S.
Proof.
  intros ST (H & R). split; [eapply OrphE_same_tree; eauto|]. destruct ST as (Hn & Hr & Hs).
  apply (rootsonly_mono w w'); [rewrite Hr; auto | | exact R].
  intros x m ks. rewrite Hs. eauto.
Qed.
Lemma NoOrphan_same_tree w w' : same_tree w w' -> NoOrphan w -> NoOrphan w'.
Proof. rewrite !NoOrphan_OrphSub. apply OrphSub_same_tree. Qed.
Lemma TreeInv_same_tree w w' : same_tree w w' -> TreeInv w -> TreeInv w'.
Proof. intros H (C & O). split; [eapply Core_same_tree | eapply NoOrphan_same_tree]; eauto. Qed.

(* ------------------------------------------------------------------ one node changes, the others keep their skeleton *)
Definition upd1 (w w' : world) (i : id) : Prop :=
  w_next w' = w_next w /\ roots w' = roots w /\ forall x, x <> i -> skel w' x = skel w x.

Lemma upd1_parents w w' i pp ks ks' :
  upd1 w w' i -> skel w i = Some (pp, ks) -> skel w' i = Some (pp, ks') ->
  forall x n, w_nodes w x = Some n -> exists n', w_nodes w' x = Some n' /\ n_parent n' = n_parent n.
Proof.
  intros (_ & _ & Ho) Hi Hi' x n Hn. destruct (N.eq_dec x i) as [->|Hx].
  - apply skel_inv in Hi as (n0 & Hn0 & Hp0 & _). apply skel_inv in Hi' as (n1 & Hn1 & Hp1 & _).
    exists n1. split; auto. congruence.
  - specialize (Ho x Hx). rewrite (skel_some _ _ _ Hn) in Ho. apply skel_inv in Ho as (n' & Hn' & Hp & _). eauto.
Qed.

(* U1: the content list of i changes; new entries must already point to i *)
Lemma core_upd_kids w w' i pp ks ks' :
  Core w -> upd1 w w' i -> skel w i = Some (pp, ks) -> skel w' i = Some (pp, ks') ->
  NoDup ks' -> (forall c, In c ks' -> In c ks \/ par w c i) ->
  Core w'.
Proof.
  intros C U Hi Hi' Hnd Hnew. pose proof (upd1_parents _ _ _ _ _ _ U Hi Hi') as HP.
  destruct U as (Hn & Hr & Ho).
  assert (Hal : forall x, allocated w' x <-> allocated w x).
  { intros x. rewrite !allocated_skel. destruct (N.eq_dec x i) as [->|Hx]; [|rewrite Ho; tauto].
    rewrite Hi, Hi'. split; congruence. }
  assert (Hpar : forall c p, par w c p -> par w' c p).
  { intros c p (n & Hc & Hp). destruct (HP _ _ Hc) as (n' & Hc' & E). exists n'. split; auto. congruence. }
  constructor.
  - intros x. rewrite Hal, Hn. apply C.
  - intros p c Hl. apply Hpar. apply lists_skel in Hl as (pp' & ks0 & Hs & Hc).
    destruct (N.eq_dec p i) as [->|Hp].
    + rewrite Hi' in Hs. injection Hs as <- <-. destruct (Hnew _ Hc) as [H|H]; auto.
      apply C. apply lists_skel. eauto.
    + rewrite Ho in Hs by auto. apply C. apply lists_skel. eauto.
  - intros p n Hp. pose proof (skel_some _ _ _ Hp) as E. destruct (N.eq_dec p i) as [->|Hpi].
    + rewrite Hi' in E. injection E as _ <-. auto.
    + rewrite Ho in E by auto. apply skel_inv in E as (n0 & Hn0 & _ & <-). eapply c_nodup; eauto.
  - intros k r. rewrite Hr. intros H. destruct (c_roots _ C _ _ H) as (n & Hn0 & Hp).
    destruct (HP _ _ Hn0) as (n' & Hn' & E). exists n'. split; auto. congruence.
  - intros x Ha. apply Hal in Ha. destruct (c_depth _ C _ Ha) as (h & Hd). exists h.
    eapply depth_transfer; eauto.
Qed.

(* parent links are unchanged by a content-list change of i *)
Lemma upd1_par_back w w' i pp ks ks' :
  upd1 w w' i -> skel w i = Some (pp, ks) -> skel w' i = Some (pp, ks') ->
  forall c p, par w' c p -> par w c p.
Proof.
  intros (Hn & Hr & Ho) Hi Hi' c p Hp.
  apply par_skel in Hp as (ks0 & Hs). apply par_skel. destruct (N.eq_dec c i) as [->|Hc].
  - rewrite Hi' in Hs. injection Hs as -> <-. eauto.
  - rewrite Ho in Hs by auto. eauto.
Qed.

Lemma upd1_lists_other w w' i p c : upd1 w w' i -> p <> i -> (lists w' p c <-> lists w p c).
Proof. intros (_ & _ & Ho) Hp. rewrite !lists_skel. rewrite Ho by auto. tauto. Qed.

(* entries dropped from i's list become exceptions *)
Lemma orphe_drop w w' i pp ks ks' (S : id -> Prop) :
  upd1 w w' i -> skel w i = Some (pp, ks) -> skel w' i = Some (pp, ks') ->
  OrphE w S -> OrphE w' (fun x => S x \/ (In x ks /\ ~ In x ks')).
Proof.
  intros U Hi Hi' HO c p Hp. pose proof (upd1_par_back _ _ _ _ _ _ U Hi Hi' _ _ Hp) as Hp0.
  destruct (HO _ _ Hp0) as [Hl|Hs]; [|auto].
  destruct (N.eq_dec p i) as [->|Hpi].
  - apply lists_skel in Hl as (pp' & ks0 & Hs & Hc). rewrite Hi in Hs. injection Hs as <- <-.
    destruct (in_dec N.eq_dec c ks') as [Hin|Hin]; [|auto]. left. apply lists_skel. eauto.
  - left. apply (upd1_lists_other _ _ _ _ _ U Hpi). auto.
Qed.

(* an entry c0 (already pointing to i) inserted into i's list stops being an exception *)
Lemma orphe_insert w w' i pp ks ks' c0 (S : id -> Prop) :
  upd1 w w' i -> skel w i = Some (pp, ks) -> skel w' i = Some (pp, ks') ->
  (forall x, In x ks' <-> x = c0 \/ In x ks) -> par w c0 i ->
  OrphE w S -> OrphE w' (fun x => S x /\ x <> c0).
Proof.
  intros U Hi Hi' Hks Hc0 HO c p Hp. pose proof (upd1_par_back _ _ _ _ _ _ U Hi Hi' _ _ Hp) as Hp0.
  destruct (N.eq_dec c c0) as [->|Hc].
  - left. rewrite (par_fun _ _ _ _ Hp0 Hc0). apply lists_skel. exists pp, ks'. split; auto. apply Hks. auto.
  - destruct (HO _ _ Hp0) as [Hl|Hs]; [|auto]. left.
    destruct (N.eq_dec p i) as [->|Hpi].
    + apply lists_skel in Hl as (pp' & ks0 & Hs & Hin). rewrite Hi in Hs. injection Hs as <- <-.
      apply lists_skel. exists pp, ks'. split; auto. apply Hks. auto.
    + apply (upd1_lists_other _ _ _ _ _ U Hpi). auto.
Qed.

(* ------------------------------------------------------------------ U2: re-parenting an unlisted node *)
Lemma ancs_step w a x p : par w x p -> AncS w a p -> AncS w a x.
Proof. intros. eapply A_up; eauto. Qed.

Lemma core_reparent w w' i pp ks q :
  Core w -> upd1 w w' i -> skel w i = Some (pp, ks) -> skel w' i = Some (PElem q, ks) ->
  (forall m, pp <> PModel m) -> allocated w q -> ~ AncS w i q -> (forall p, ~ lists w p i) ->
  Core w'.
Proof.
  intros C U Hi Hi' Hnm Hq Hanc Hunl. destruct U as (Hn & Hr & Ho).
  assert (Hal : forall x, allocated w' x <-> allocated w x).
  { intros x. rewrite !allocated_skel. destruct (N.eq_dec x i) as [->|Hx]; [|rewrite Ho; tauto].
    rewrite Hi, Hi'. split; congruence. }
  assert (Hkids : forall p c, lists w' p c <-> lists w p c).
  { intros p c. rewrite !lists_skel. destruct (N.eq_dec p i) as [->|Hp]; [|rewrite Ho; tauto].
    rewrite Hi, Hi'. split; intros (a & b & [= <- <-] & H); eauto. }
  constructor.
  - intros x. rewrite Hal, Hn. apply C.
  - intros p c Hl. apply Hkids in Hl. assert (c <> i) by (intros ->; eapply Hunl; eauto).
    apply C in Hl. apply par_skel in Hl as (ks0 & Hs). apply par_skel. exists ks0. rewrite Ho; auto.
  - intros p n Hp. pose proof (skel_some _ _ _ Hp) as E. destruct (N.eq_dec p i) as [->|Hpi].
    + rewrite Hi' in E. injection E as _ <-. apply skel_inv in Hi as (n0 & Hn0 & _ & <-). eapply c_nodup; eauto.
    + rewrite Ho in E by auto. apply skel_inv in E as (n0 & Hn0 & _ & <-). eapply c_nodup; eauto.
  - intros k r. rewrite Hr. intros H. destruct (c_roots _ C _ _ H) as (n & Hn0 & Hp).
    assert (r <> i). { intros ->. rewrite (skel_some _ _ _ Hn0) in Hi. injection Hi as <- _. eapply Hnm; eauto. }
    pose proof (skel_some _ _ _ Hn0) as E. rewrite <- Ho in E by auto.
    apply skel_inv in E as (n' & Hn' & Hp' & _). exists n'. split; auto. congruence.
  - (* depth *)
    assert (Hnew : forall x h, Depth w x h -> ~ AncS w i x -> Depth w' x h).
    { intros x h Hd. induction Hd as [x n Hx Ht | x n p h Hx Hp Hd IH]; intros Hna.
      - assert (x <> i) by (intros ->; apply Hna; constructor).
        pose proof (skel_some _ _ _ Hx) as E. rewrite <- Ho in E by auto.
        apply skel_inv in E as (n' & Hn' & Hp' & _). eapply D_top; [eauto|rewrite Hp'; auto].
      - assert (x <> i) by (intros ->; apply Hna; constructor).
        pose proof (skel_some _ _ _ Hx) as E. rewrite <- Ho in E by auto.
        apply skel_inv in E as (n' & Hn' & Hp' & _). apply (D_step w' x n' p); [exact Hn' | congruence | ].
        apply IH. intros Ha. apply Hna. eapply A_up; eauto. exists n; auto. }
    destruct (c_depth _ C _ Hq) as (hq & Hdq). pose proof (Hnew _ _ Hdq Hanc) as Hdq'.
    assert (Hdi : Depth w' i (S hq)).
    { apply skel_inv in Hi' as (n' & Hn' & Hp' & _). eapply D_step; eauto. }
    assert (Hall : forall x h, Depth w x h -> exists h', Depth w' x h').
    { intros x h Hd. induction Hd as [x n Hx Ht | x n p h Hx Hp Hd IH].
      - destruct (N.eq_dec x i) as [->|Hxi]; [eauto|].
        pose proof (skel_some _ _ _ Hx) as E. rewrite <- Ho in E by auto.
        apply skel_inv in E as (n' & Hn' & Hp' & _). exists O. eapply D_top; [eauto|rewrite Hp'; auto].
      - destruct (N.eq_dec x i) as [->|Hxi]; [eauto|].
        pose proof (skel_some _ _ _ Hx) as E. rewrite <- Ho in E by auto.
        apply skel_inv in E as (n' & Hn' & Hp' & _). destruct IH as (h' & IH). exists (S h').
        apply (D_step w' x n' p); [exact Hn' | congruence | exact IH]. }
    intros x Ha. apply Hal in Ha. destruct (c_depth _ C _ Ha) as (h & Hd). eauto.
Qed.

Lemma orphe_reparent w w' i pp ks q (S : id -> Prop) :
  upd1 w w' i -> skel w i = Some (pp, ks) -> skel w' i = Some (PElem q, ks) ->
  OrphE w S -> OrphE w' (fun x => S x \/ x = i).
Proof.
  intros (Hn & Hr & Ho) Hi Hi' HO c p Hp.
  destruct (N.eq_dec c i) as [->|Hc]; [auto|].
  assert (Hp0 : par w c p).
  { apply par_skel in Hp as (ks0 & Hs). apply par_skel. rewrite Ho in Hs by auto. eauto. }
  destruct (HO _ _ Hp0) as [Hl|Hs]; [|auto]. left.
  apply lists_skel in Hl as (pp' & ks0 & Hs & Hin). apply lists_skel.
  destruct (N.eq_dec p i) as [->|Hpi].
  - rewrite Hi in Hs. injection Hs as <- <-. eauto.
  - rewrite Ho by auto. eauto.
Qed.

(* ------------------------------------------------------------------ U3: allocation of a fresh node *)
Definition alloc1 (w w' : world) : Prop :=
  w_next w' = w_next w + 1 /\ roots w' = roots w /\ forall x, x <> w_next w -> skel w' x = skel w x.

Lemma core_fresh_none w : Core w -> skel w (w_next w) = None.
Proof.
  intros C. destruct (skel w (w_next w)) eqn:E; auto.
  assert (allocated w (w_next w)) as Ha by (apply allocated_skel; congruence).
  apply C in Ha. lia.
Qed.

Lemma core_alloc w w' pp :
  Core w -> alloc1 w w' -> skel w' (w_next w) = Some (pp, []) ->
  (pp = PNone \/ exists q, pp = PElem q /\ allocated w q) ->
  Core w'.
Proof.
  intros C (Hn & Hr & Ho) Hi Hpp. pose proof (core_fresh_none _ C) as Hf.
  assert (Hal : forall x, allocated w' x <-> allocated w x \/ x = w_next w).
  { intros x. rewrite !allocated_skel. destruct (N.eq_dec x (w_next w)) as [->|Hx].
    - rewrite Hi. split; [auto|congruence].
    - rewrite Ho by auto. tauto. }
  assert (HP : forall x n, w_nodes w x = Some n -> exists n', w_nodes w' x = Some n' /\ n_parent n' = n_parent n).
  { intros x n Hx. assert (x <> w_next w). { intros ->. apply skel_none in Hf. congruence. }
    pose proof (skel_some _ _ _ Hx) as E. rewrite <- Ho in E by auto.
    apply skel_inv in E as (n' & Hn' & Hp' & _). eauto. }
  constructor.
  - intros x. rewrite Hal, Hn. rewrite (c_alloc _ C). lia.
  - intros p c Hl. apply lists_skel in Hl as (pp' & ks0 & Hs & Hc).
    destruct (N.eq_dec p (w_next w)) as [->|Hp].
    + rewrite Hi in Hs. injection Hs as <- <-. destruct Hc.
    + rewrite Ho in Hs by auto. assert (Hl : lists w p c) by (apply lists_skel; eauto).
      apply C in Hl. destruct Hl as (n & Hc0 & Hpc). destruct (HP _ _ Hc0) as (n' & Hc' & E). exists n'.
      split; auto. congruence.
  - intros p n Hp. pose proof (skel_some _ _ _ Hp) as E. destruct (N.eq_dec p (w_next w)) as [->|Hpi].
    + rewrite Hi in E. injection E as _ <-. constructor.
    + rewrite Ho in E by auto. apply skel_inv in E as (n0 & Hn0 & _ & <-). eapply c_nodup; eauto.
  - intros k r. rewrite Hr. intros H. destruct (c_roots _ C _ _ H) as (n & Hn0 & Hp).
    destruct (HP _ _ Hn0) as (n' & Hn' & E). exists n'. split; auto. congruence.
  - intros x Ha. apply Hal in Ha as [Ha| ->].
    + destruct (c_depth _ C _ Ha) as (h & Hd). exists h. eapply depth_transfer; eauto.
    + apply skel_inv in Hi as (n' & Hn' & Hp' & _). destruct Hpp as [->|(q & -> & Hq)].
      * exists O. eapply D_top; [eauto|rewrite Hp'; congruence].
      * destruct (c_depth _ C _ Hq) as (h & Hd). exists (S h). eapply D_step; eauto.
        eapply depth_transfer; eauto.
Qed.

Lemma orphe_alloc w w' pp (S : id -> Prop) :
  Core w -> alloc1 w w' -> skel w' (w_next w) = Some (pp, []) ->
  OrphE w S -> OrphE w' (fun x => S x \/ (x = w_next w /\ pp <> PNone)).
Proof.
  intros C (Hn & Hr & Ho) Hi HO c p Hp. pose proof (core_fresh_none _ C) as Hf.
  destruct (N.eq_dec c (w_next w)) as [->|Hc].
  - right. right. split; auto. apply par_skel in Hp as (ks0 & Hs). rewrite Hi in Hs. congruence.
  - assert (Hp0 : par w c p).
    { apply par_skel in Hp as (ks0 & Hs). apply par_skel. rewrite Ho in Hs by auto. eauto. }
    destruct (HO _ _ Hp0) as [Hl|Hs]; [|auto]. left.
    apply lists_skel in Hl as (pp' & ks0 & Hs & Hin). apply lists_skel.
    assert (p <> w_next w) by (intros ->; congruence). rewrite Ho by auto. eauto.
Qed.

(* ------------------------------------------------------------------ U4: a new model with a fresh root *)
Lemma core_new_model w w' :
  Core w -> w_next w' = w_next w + 1 -> roots w' = roots w ++ [w_next w] ->
  (forall x, x <> w_next w -> skel w' x = skel w x) ->
  skel w' (w_next w) = Some (PModel (N.of_nat (List.length (roots w))), []) ->
  Core w'.
Proof.
  intros C Hn Hr Ho Hi. pose proof (core_fresh_none _ C) as Hf.
  assert (Hal : forall x, allocated w' x <-> allocated w x \/ x = w_next w).
  { intros x. rewrite !allocated_skel. destruct (N.eq_dec x (w_next w)) as [->|Hx].
    - rewrite Hi. split; [auto|congruence].
    - rewrite Ho by auto. tauto. }
  assert (HP : forall x n, w_nodes w x = Some n -> exists n', w_nodes w' x = Some n' /\ n_parent n' = n_parent n).
  { intros x n Hx. assert (x <> w_next w). { intros ->. apply skel_none in Hf. congruence. }
    pose proof (skel_some _ _ _ Hx) as E. rewrite <- Ho in E by auto.
    apply skel_inv in E as (n' & Hn' & Hp' & _). eauto. }
  constructor.
  - intros x. rewrite Hal, Hn. rewrite (c_alloc _ C). lia.
  - intros p c Hl. apply lists_skel in Hl as (pp' & ks0 & Hs & Hc).
    destruct (N.eq_dec p (w_next w)) as [->|Hp].
    + rewrite Hi in Hs. injection Hs as <- <-. destruct Hc.
    + rewrite Ho in Hs by auto. assert (Hl : lists w p c) by (apply lists_skel; eauto).
      apply C in Hl. destruct Hl as (n & Hc0 & Hpc). destruct (HP _ _ Hc0) as (n' & Hc' & E). exists n'.
      split; auto. congruence.
  - intros p n Hp. pose proof (skel_some _ _ _ Hp) as E. destruct (N.eq_dec p (w_next w)) as [->|Hpi].
    + rewrite Hi in E. injection E as _ <-. constructor.
    + rewrite Ho in E by auto. apply skel_inv in E as (n0 & Hn0 & _ & <-). eapply c_nodup; eauto.
  - intros k r. rewrite Hr. intros H.
    destruct (Nat.lt_ge_cases k (List.length (roots w))) as [Hk|Hk].
    + rewrite nth_error_app1 in H by auto. destruct (c_roots _ C _ _ H) as (n & Hn0 & Hp).
      destruct (HP _ _ Hn0) as (n' & Hn' & E). exists n'. split; auto. congruence.
    + rewrite nth_error_app2 in H by auto. destruct (k - List.length (roots w))%nat as [|d] eqn:Ek.
      * cbn in H. injection H as <-. apply skel_inv in Hi as (n' & Hn' & Hp' & _). exists n'. split; auto.
        rewrite Hp'. do 2 f_equal. lia.
      * cbn in H. destruct d; discriminate.
  - intros x Ha. apply Hal in Ha as [Ha| ->].
    + destruct (c_depth _ C _ Ha) as (h & Hd). exists h. eapply depth_transfer; eauto.
    + apply skel_inv in Hi as (n' & Hn' & Hp' & _). exists O. eapply D_top; [eauto|rewrite Hp'; congruence].
Qed.

Lemma orphe_new_model w w' (S : id -> Prop) pp :
  Core w -> (forall x, x <> w_next w -> skel w' x = skel w x) ->
  skel w' (w_next w) = Some (PModel pp, []) ->
  OrphE w S -> OrphE w' S.
Proof.
  intros C Ho Hi HO c p Hp. pose proof (core_fresh_none _ C) as Hf.
  destruct (N.eq_dec c (w_next w)) as [->|Hc].
  - apply par_skel in Hp as (ks0 & Hs). rewrite Hi in Hs. congruence.
  - assert (Hp0 : par w c p).
    { apply par_skel in Hp as (ks0 & Hs). apply par_skel. rewrite Ho in Hs by auto. eauto. }
    destruct (HO _ _ Hp0) as [Hl|Hs]; [|auto]. left.
    apply lists_skel in Hl as (pp' & ks0 & Hs & Hin). apply lists_skel.
    assert (p <> w_next w) by (intros ->; congruence). rewrite Ho by auto. eauto.
Qed.

(* ------------------------------------------------------------------ U5: a whole subtree L is cleared and unlinked *)
Section Clear.
Variables (w w' : world) (self sub : id) (L : list id) (pp : pref) (ks ks' : list id).
Hypothesis C : Core w.
Hypothesis Hn : w_next w' = w_next w.
Hypothesis Hr : roots w' = roots w.
Hypothesis HL : forall x, In x L -> allocated w x /\ skel w' x = Some (PNone, []).
Hypothesis Ho : forall x, ~ In x L -> x <> self -> skel w' x = skel w x.
Hypothesis Hself : ~ In self L.
Hypothesis Hi : skel w self = Some (pp, ks).
Hypothesis Hi' : skel w' self = Some (pp, ks').
Hypothesis Hks : forall x, In x ks' <-> In x ks /\ x <> sub.
Hypothesis Hnd : NoDup ks'.
Hypothesis Hsub : In sub L.
Hypothesis Hps : par w sub self.
Hypothesis Hup : forall c, In c L -> c <> sub -> exists p, In p L /\ par w c p.

Lemma clear_alloc x : allocated w' x <-> allocated w x.
Proof.
  rewrite !allocated_skel. destruct (in_dec N.eq_dec x L) as [Hin|Hin].
  - destruct (HL _ Hin) as (Ha & E). rewrite E. apply allocated_skel in Ha. split; congruence.
  - destruct (N.eq_dec x self) as [->|Hx]; [rewrite Hi, Hi'; split; congruence|]. rewrite Ho; tauto.
Qed.

Lemma clear_par_keep c p : ~ In c L -> (par w' c p <-> par w c p).
Proof.
  intros Hc. rewrite !par_skel. destruct (N.eq_dec c self) as [->|Hx].
  - rewrite Hi, Hi'. split; intros (k & [= -> <-]); eauto.
  - rewrite Ho by auto. tauto.
Qed.

Lemma clear_L_parent c : In c L -> exists p, par w c p.
Proof.
  intros Hc. destruct (N.eq_dec c sub) as [->|Hcs]; [eauto|]. destruct (Hup _ Hc Hcs) as (p & _ & Hp). eauto.
Qed.

(* a member of L is listed only by members of L, except sub by self *)
Lemma clear_listed_notin p c : lists w p c -> ~ In p L -> p <> self -> ~ In c L.
Proof.
  intros Hl Hp Hps' Hc. apply C in Hl. destruct (N.eq_dec c sub) as [->|Hcs].
  - apply Hps'. eapply par_fun; eauto.
  - destruct (Hup _ Hc Hcs) as (p' & Hp' & Hpar). apply Hp. rewrite (par_fun _ _ _ _ Hl Hpar). auto.
Qed.

Lemma core_clear : Core w'.
Proof.
  constructor.
  - intros x. rewrite clear_alloc, Hn. apply C.
  - intros p c Hl. apply lists_skel in Hl as (pp' & ks0 & Hs & Hc).
    destruct (in_dec N.eq_dec p L) as [Hin|Hin].
    { destruct (HL _ Hin) as (_ & E). rewrite E in Hs. injection Hs as <- <-. destruct Hc. }
    destruct (N.eq_dec p self) as [->|Hp].
    + rewrite Hi' in Hs. injection Hs as <- <-. apply Hks in Hc as (Hc & Hcs).
      assert (Hl : lists w self c) by (apply lists_skel; eauto). pose proof (c_up _ C _ _ Hl) as Hpc.
      apply clear_par_keep; auto. intros HcL. destruct (Hup _ HcL Hcs) as (p' & Hp' & Hpar).
      apply Hself. rewrite (par_fun _ _ _ _ Hpc Hpar). auto.
    + rewrite Ho in Hs by auto. assert (Hl : lists w p c) by (apply lists_skel; eauto).
      apply clear_par_keep; [eapply clear_listed_notin; eauto|]. apply C. auto.
  - intros p n Hp. pose proof (skel_some _ _ _ Hp) as E.
    destruct (in_dec N.eq_dec p L) as [Hin|Hin].
    { destruct (HL _ Hin) as (_ & E'). rewrite E' in E. injection E as _ <-. constructor. }
    destruct (N.eq_dec p self) as [->|Hpi].
    + rewrite Hi' in E. injection E as _ <-. auto.
    + rewrite Ho in E by auto. apply skel_inv in E as (n0 & Hn0 & _ & <-). eapply c_nodup; eauto.
  - intros k r. rewrite Hr. intros H. destruct (c_roots _ C _ _ H) as (n & Hn0 & Hp).
    assert (HrL : ~ In r L).
    { intros HrL. destruct (clear_L_parent _ HrL) as (p & n' & Hn' & Hp'). congruence. }
    assert (Hpar : skel w' r = Some (PModel (N.of_nat k), kids n) \/ r = self).
    { destruct (N.eq_dec r self); auto. left. rewrite Ho by auto. rewrite (skel_some _ _ _ Hn0). congruence. }
    destruct Hpar as [E| ->].
    + apply skel_inv in E as (n' & Hn' & Hp' & _). eauto.
    + rewrite (skel_some _ _ _ Hn0) in Hi. injection Hi as <- _.
      apply skel_inv in Hi' as (n' & Hn' & Hp' & _). exists n'. split; auto. congruence.
  - assert (Hall : forall x h, Depth w x h -> exists h', Depth w' x h').
    { intros x h Hd. induction Hd as [x n Hx Ht | x n p h Hx Hp Hd IH].
      - destruct (in_dec N.eq_dec x L) as [Hin|Hin].
        { destruct (HL _ Hin) as (_ & E'). apply skel_inv in E' as (n' & Hn' & Hp' & _). exists O.
          eapply D_top; [eauto|rewrite Hp'; congruence]. }
        assert (E : exists n', w_nodes w' x = Some n' /\ n_parent n' = n_parent n).
        { destruct (N.eq_dec x self) as [->|Hxs].
          - rewrite (skel_some _ _ _ Hx) in Hi. injection Hi as <- _.
            apply skel_inv in Hi' as (n' & Hn' & Hp' & _). eauto.
          - pose proof (skel_some _ _ _ Hx) as E. rewrite <- Ho in E by auto.
            apply skel_inv in E as (n' & Hn' & Hp' & _). eauto. }
        destruct E as (n' & Hn' & Hp'). exists O. eapply D_top; [eauto|rewrite Hp'; auto].
      - destruct (in_dec N.eq_dec x L) as [Hin|Hin].
        { destruct (HL _ Hin) as (_ & E'). apply skel_inv in E' as (n' & Hn' & Hp' & _). exists O.
          eapply D_top; [eauto|rewrite Hp'; congruence]. }
        assert (E : exists n', w_nodes w' x = Some n' /\ n_parent n' = n_parent n).
        { destruct (N.eq_dec x self) as [->|Hxs].
          - rewrite (skel_some _ _ _ Hx) in Hi. injection Hi as <- _.
            apply skel_inv in Hi' as (n' & Hn' & Hp' & _). eauto.
          - pose proof (skel_some _ _ _ Hx) as E. rewrite <- Ho in E by auto.
            apply skel_inv in E as (n' & Hn' & Hp' & _). eauto. }
        destruct E as (n' & Hn' & Hp'). destruct IH as (h' & IH). exists (S h').
        apply (D_step w' x n' p); [exact Hn' | congruence | exact IH]. }
    intros x Ha. apply clear_alloc in Ha. destruct (c_depth _ C _ Ha) as (h & Hd). eauto.
Qed.

Hypothesis Hdown : forall p c, In p L -> lists w p c -> In c L.

Lemma orphe_clear (S : id -> Prop) : OrphE w S -> OrphE w' S.
Proof.
  intros HO c p Hp.
  assert (HcL : ~ In c L).
  { intros HcL. destruct (HL _ HcL) as (_ & E). apply par_skel in Hp as (k & Hs). congruence. }
  apply clear_par_keep in Hp; auto. destruct (HO _ _ Hp) as [Hl|Hs]; [|auto]. left.
  assert (HpL : ~ In p L) by (intros HpL; apply HcL; eapply Hdown; eauto).
  apply lists_skel in Hl as (pp' & ks0 & Hs & Hin). apply lists_skel.
  destruct (N.eq_dec p self) as [->|Hps'].
  - rewrite Hi in Hs. injection Hs as <- <-. exists pp, ks'. split; auto. apply Hks. split; auto.
    intros ->. auto.
  - rewrite Ho by auto. eauto.
Qed.
Lemma orphsub_clear (S : id -> Prop) : OrphSub w S -> OrphSub w' S.
Proof.
  intros (H & R). split; [apply orphe_clear; auto|]. apply (rootsonly_mono w w'); [rewrite Hr; auto | | exact R].
  intros x m ks0 E. destruct (in_dec N.eq_dec x L) as [Hin|Hin].
    { destruct (HL _ Hin) as (_ & E'). congruence. }
    destruct (N.eq_dec x self) as [->|Hx].
    + rewrite Hi' in E. injection E as -> <-. eauto.
    + rewrite Ho in E by auto. eauto.
Qed.
End Clear.


(* ------------------------------------------------------------------ OrphSub = OrphE + RootsOnly under the elementary changes *)
Lemma rootsonly_upd1 w w' i pp ks ks' :
  upd1 w w' i -> skel w i = Some (pp, ks) -> skel w' i = Some (pp, ks') -> RootsOnly w -> RootsOnly w'.
Proof.
  intros (Hn & Hr & Ho) Hi Hi'. apply rootsonly_mono.
  - rewrite Hr. auto.
  - intros x m ks0 E. destruct (N.eq_dec x i) as [->|Hx].
    + rewrite Hi' in E. injection E as -> <-. eauto.
    + rewrite Ho in E by auto. eauto.
Qed.

Lemma orphsub_drop w w' i pp ks ks' (S : id -> Prop) :
  upd1 w w' i -> skel w i = Some (pp, ks) -> skel w' i = Some (pp, ks') ->
  OrphSub w S -> OrphSub w' (fun x => S x \/ (In x ks /\ ~ In x ks')).
Proof. intros U Hi Hi' (H & R). split; [eapply orphe_drop; eauto | eapply rootsonly_upd1; eauto]. Qed.

Lemma orphsub_insert w w' i pp ks ks' c0 (S : id -> Prop) :
  upd1 w w' i -> skel w i = Some (pp, ks) -> skel w' i = Some (pp, ks') ->
  (forall x, In x ks' <-> x = c0 \/ In x ks) -> par w c0 i ->
  OrphSub w S -> OrphSub w' (fun x => S x /\ x <> c0).
Proof. intros U Hi Hi' Hk Hp (H & R). split; [eapply orphe_insert; eauto | eapply rootsonly_upd1; eauto]. Qed.

Lemma orphsub_reparent w w' i pp ks q (S : id -> Prop) :
  upd1 w w' i -> skel w i = Some (pp, ks) -> skel w' i = Some (PElem q, ks) ->
  OrphSub w S -> OrphSub w' (fun x => S x \/ x = i).
Proof.
  intros U Hi Hi' (H & R). split; [eapply orphe_reparent; eauto|]. destruct U as (Hn & Hr & Ho).
  apply (rootsonly_mono w w'); [rewrite Hr; auto | | exact R].
  intros x m ks0 E. destruct (N.eq_dec x i) as [->|Hx]; [congruence|]. rewrite Ho in E by auto. eauto.
Qed.

Lemma orphsub_alloc w w' pp (S : id -> Prop) :
  Core w -> alloc1 w w' -> skel w' (w_next w) = Some (pp, []) -> (forall m, pp <> PModel m) ->
  OrphSub w S -> OrphSub w' (fun x => S x \/ (x = w_next w /\ pp <> PNone)).
Proof.
  intros C U Hi Hpp (H & R). split; [eapply orphe_alloc; eauto|]. destruct U as (Hn & Hr & Ho).
  apply (rootsonly_mono w w'); [rewrite Hr; auto | | exact R].
  intros x m ks0 E. destruct (N.eq_dec x (w_next w)) as [->|Hx].
    + rewrite Hi in E. injection E as -> _. exfalso. eapply Hpp; eauto.
    + rewrite Ho in E by auto. eauto.
Qed.

Lemma orphsub_new_model w w' (S : id -> Prop) :
  Core w -> roots w' = roots w ++ [w_next w] -> (forall x, x <> w_next w -> skel w' x = skel w x) ->
  skel w' (w_next w) = Some (PModel (N.of_nat (List.length (roots w))), []) ->
  OrphSub w S -> OrphSub w' S.
Proof.
  intros C Hr Ho Hi (H & R). split; [eapply orphe_new_model; eauto|].
  intros x n m Hx Hm. rewrite Hr. destruct (N.eq_dec x (w_next w)) as [->|Hxi].
  - rewrite (skel_some _ _ _ Hx) in Hi. injection Hi as E _. rewrite Hm in E. injection E as ->.
    rewrite Nat2N.id. rewrite nth_error_app2 by lia. rewrite Nat.sub_diag. reflexivity.
  - pose proof (skel_some _ _ _ Hx) as E. rewrite Ho in E by auto.
    apply skel_inv in E as (n0 & Hn0 & Hp0 & _).
    assert (Hnth : nth_error (roots w) (N.to_nat m) = Some x) by (eapply R; eauto; congruence).
    rewrite nth_error_app1; auto. apply nth_error_Some. congruence.
Qed.

(* ------------------------------------------------------------------ shrinking: parents kept, content lists lose entries *)
Definition shr (w w' : world) : Prop :=
  w_next w' = w_next w /\ roots w' = roots w /\
  forall i, match skel w i, skel w' i with
            | Some (p, ks), Some (p', ks') => p' = p /\ incl ks' ks /\ NoDup ks'
            | None, None => True
            | _, _ => False
            end.

Lemma shr_refl w : Core w -> shr w w.
Proof.
  intros C. repeat split; auto. intros i. destruct (skel w i) as [[p ks]|] eqn:E; auto.
  repeat split; auto using incl_refl. apply skel_inv in E as (n & Hn & _ & <-). eapply c_nodup; eauto.
Qed.
Lemma same_tree_shr w w' : Core w -> same_tree w w' -> shr w w'.
Proof.
  intros C (Hn & Hr & Hs). repeat split; auto. intros i. rewrite Hs. destruct (skel w i) as [[p ks]|] eqn:E; auto.
  repeat split; auto using incl_refl. apply skel_inv in E as (n & Hn0 & _ & <-). eapply c_nodup; eauto.
Qed.
Lemma shr_trans a b c : shr a b -> shr b c -> shr a c.
Proof.
  intros (H1 & H2 & H3) (G1 & G2 & G3). split; [congruence|]. split; [congruence|]. intros i.
  specialize (H3 i). specialize (G3 i).
  destruct (skel a i) as [[p ks]|], (skel b i) as [[p' ks']|], (skel c i) as [[p'' ks'']|]; try tauto.
  destruct H3 as (-> & I1 & N1). destruct G3 as (-> & I2 & N2). repeat split; auto. eapply incl_tran; eauto.
Qed.

Lemma shr_par w w' c p : shr w w' -> (par w' c p <-> par w c p).
Proof.
  intros (_ & _ & H). specialize (H c). rewrite !par_skel.
  destruct (skel w c) as [[q ks]|], (skel w' c) as [[q' ks']|]; try tauto.
  destruct H as (-> & _ & _). split; intros (k & [= -> <-]); eauto.
Qed.
Lemma shr_lists w w' p c : shr w w' -> lists w' p c -> lists w p c.
Proof.
  intros (_ & _ & H). specialize (H p). rewrite !lists_skel.
  destruct (skel w p) as [[q ks]|], (skel w' p) as [[q' ks']|]; try tauto;
    try (intros (a & b & [=] & _); fail).
  destruct H as (-> & I & _). intros (a & b & [= <- <-] & Hc). eauto.
Qed.
Lemma shr_alloc w w' i : shr w w' -> (allocated w' i <-> allocated w i).
Proof.
  intros (_ & _ & H). specialize (H i). rewrite !allocated_skel.
  destruct (skel w i) as [[q ks]|], (skel w' i) as [[q' ks']|]; try tauto; split; congruence.
Qed.

Lemma Core_shr w w' : shr w w' -> Core w -> Core w'.
Proof.
  intros S C. pose proof S as (Hn & Hr & Hs). constructor.
  - intros i. rewrite (shr_alloc _ _ _ S), Hn. apply C.
  - intros p c Hl. apply (shr_par _ _ _ _ S). apply C. eapply shr_lists; eauto.
  - intros p n Hp. specialize (Hs p). rewrite (skel_some _ _ _ Hp) in Hs.
    destruct (skel w p) as [[q ks]|]; tauto.
  - intros k r. rewrite Hr. intros H. destruct (c_roots _ C _ _ H) as (n & Hn0 & Hp).
    specialize (Hs r). rewrite (skel_some _ _ _ Hn0) in Hs. destruct (skel w' r) as [[q' ks']|] eqn:E; [|tauto].
    destruct Hs as (-> & _). apply skel_inv in E as (n' & Hn' & Hp' & _). exists n'. split; auto. congruence.
  - intros i Ha. apply (shr_alloc _ _ _ S) in Ha. destruct (c_depth _ C _ Ha) as (h & Hd). exists h.
    eapply depth_transfer; [|exact Hd]. intros x n Hx. specialize (Hs x). rewrite (skel_some _ _ _ Hx) in Hs.
    destruct (skel w' x) as [[q' ks']|] eqn:E; [|tauto]. destruct Hs as (-> & _).
    apply skel_inv in E as (n' & Hn' & Hp' & _). eauto.
Qed.

Lemma shr_ancs w w' a x : shr w w' -> (AncS w' a x <-> AncS w a x).
Proof.
  intros S. split; induction 1; try constructor.
  - eapply A_up; eauto. apply (shr_par _ _ _ _ S). auto.
  - eapply A_up; eauto. apply (shr_par _ _ _ _ S). auto.
Qed.

(* one node loses entries of its content list *)
Lemma shr_upd1 w w' i pp ks ks' :
  Core w -> upd1 w w' i -> skel w i = Some (pp, ks) -> skel w' i = Some (pp, ks') -> incl ks' ks -> NoDup ks' ->
  shr w w'.
Proof.
  intros C (Hn & Hr & Ho) Hi Hi' Hinc Hnd. repeat split; auto. intros x. destruct (N.eq_dec x i) as [->|Hx].
  - rewrite Hi, Hi'. auto.
  - rewrite Ho by auto. destruct (skel w x) as [[p k]|] eqn:E; auto. repeat split; auto using incl_refl.
    apply skel_inv in E as (n & Hn0 & _ & <-). eapply c_nodup; eauto.
Qed.
