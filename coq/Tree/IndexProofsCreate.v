(* Tree/IndexProofsCreate.v — C04: create_sub_element / create_sub_element_at / get_or_create_sub_element keep Inv04
   (outside the class K04-front). *)
From AV Require Import Base.Bytes Base.Outcome Hash.HashModel Tree.Heap Tree.Ops Tree.Script Tree.IndexProofsW
  Tree.Index Tree.IndexProofsBase Tree.IndexProofsAssoc Tree.IndexProofsFrame Tree.IndexProofsAttach.
Open Scope string_scope.
Open Scope list_scope.
Open Scope N_scope.

Section Create.
Variable T : tables.
Variable tab_el tab_en : nametab.
Variable check_fn : N -> list N -> res bool.
Variable LATEST : N.
Hypothesis TK : TablesOK T check_fn.

Notation Inv04 := (Inv04 T check_fn).
Notation ShortTyped := (ShortTyped T check_fn).

Lemma calc_range_mode n name v w r w' :
  calc_element_insert_range T n name v w = Val (OK r, w') -> content_mode T (n_type n) <> Val MCharacters.
Proof.
  unfold calc_element_insert_range. remember (OK r) as r0 eqn:Er. intros H. wstep H; [|winv E]. winv E.
  destruct (v0 =? MCharacters) eqn:Em; [winv H; discriminate|]. apply N.eqb_neq in Em. congruence.
Qed.

(* a node on which an insert range exists is neither a SHORT-NAME element nor a reference element *)
Lemma range_not_short w i n name v r w' :
  ShortTyped w -> w_nodes w i = Some n -> calc_element_insert_range T n name v w = Val (OK r, w') ->
  n_name n <> name_short_name T.
Proof.
  intros HS Hn H Hs. apply calc_range_mode in H. destruct (HS _ _ Hn Hs) as (Hm & _). contradiction.
Qed.
Lemma range_not_ref n name v w r w' :
  calc_element_insert_range T n name v w = Val (OK r, w') -> isref T (n_type n) = false.
Proof.
  intros H. apply calc_range_mode in H. unfold isref. destruct (is_ref T (n_type n)) as [[|]| |] eqn:E; try reflexivity.
  apply (tk_ref _ _ TK) in E. contradiction.
Qed.

Definition leaf_world (w : world) (self : id) (n : node) (cn : node) (k : nat) : world :=
  mkWorld (upd (upd (w_nodes w) (w_next w) cn) self (set_content n (insert_at (n_content n) k (CElem (w_next w)))))
          (w_next w + 1) (w_files w) (w_models w).

Lemma create_inner_val self name pos version w r w' :
  self <> w_next w ->
  create_sub_element_inner T self name pos version w = Val (r, w') ->
  (w' = w /\ exists e, r = ER e) \/
  exists n et ix, w_nodes w self = Some n /\ find_sub_element T (n_type n) name version = Val (Some (et, ix)) /\
    (N.to_nat pos <= List.length (n_content n))%nat /\ r = OK (w_next w) /\
    w' = leaf_world w self n (new_node (PElem self) name et) (N.to_nat pos).
Proof.
  intros Hne H. unfold create_sub_element_inner in H.
  wstep H; [|winv E]. winv E. wstep H; [|winv E]. winv E.
  destruct v as [[et ix]|]; [|winv H; left; eauto].
  wstep H; [|winv E]. winv E. destruct v; [winv H; left; eauto|].
  wstep H. 2:{ apply alloc_inv in E as ([=] & _). }
  apply alloc_inv in E as (Ea & ->). injection Ea as ->.
  wstep H.
  - unfold content_insert in E. wstep E; try solve [winv E0]. winv E0. cbn in Hn0. rewrite upd_neq in Hn0 by exact Hne.
    rewrite Hn in Hn0. injection Hn0 as <-.
    destruct (N.of_nat (List.length (n_content n)) <? pos) eqn:El; [discriminate|].
    apply set_node_inv in E as (_ & ->). winv H. right. exists n, et, ix.
    split; [exact Hn|]. split; [exact Hv|]. split; [apply N.ltb_ge in El; lia|]. split; [reflexivity|]. reflexivity.
  - unfold content_insert in E. wstep E; try solve [winv E0]. winv E0. cbn in Hn0. rewrite upd_neq in Hn0 by exact Hne.
    destruct (N.of_nat (List.length (n_content n0)) <? pos); [discriminate|].
    apply set_node_inv in E as ([=] & _).
Qed.

(* ---------- the invariant after attaching a fresh leaf *)
Lemma dpath_leaf w c cn i q : w_nodes w c = Some cn -> n_content cn = [] -> dpath T w c i q -> i = c.
Proof.
  intros Hc Hl Hd. induction Hd as [|p x q Hp IH Hx]; [reflexivity|]. subst p.
  destruct Hx as (np & Hnp & Hin). rewrite Hc in Hnp. injection Hnp as <-. rewrite Hl in Hin. destruct Hin.
Qed.

Lemma inv04_attach_leaf w self n cn k :
  TreeFacts w -> Inv04 w -> w_nodes w self = Some n -> n_content cn = [] ->
  (k <= List.length (n_content n))%nat -> n_name n <> name_short_name T ->
  content_mode T (n_type n) <> Val MCharacters ->
  (k = O -> identifiable_n T w n = false /\ (named T (n_type n) = true -> n_name cn <> name_short_name T)) ->
  (n_name cn = name_short_name T -> short_type T check_fn (n_type cn)) ->
  Inv04 (leaf_world w self n cn k).
Proof.
  intros HF HI Hself Hleaf Hk Hns Hmode Hfront Hst.
  set (c := w_next w). set (w' := leaf_world w self n cn k).
  assert (Hc : w_nodes w c = None).
  { destruct (w_nodes w c) as [x|] eqn:E; [|reflexivity]. pose proof (tf_alloc _ HF _ _ E). unfold c in *. lia. }
  assert (Hsc : self <> c) by (intros ->; congruence).
  assert (Hself' : w_nodes w' self = Some (set_content n (insert_at (n_content n) k (CElem c)))).
  { cbn. apply upd_eq. }
  assert (Hc' : w_nodes w' c = Some cn).
  { cbn. rewrite upd_neq by (intros E; apply Hsc; symmetry; exact E). apply upd_eq. }
  assert (Hold : forall j nj, w_nodes w j = Some nj -> j <> self -> w_nodes w' j = Some nj).
  { intros j nj Hj Hne. cbn. rewrite upd_neq by exact Hne. rewrite upd_neq; [exact Hj|]. intros ->. fold c in Hj. congruence. }
  assert (Hnew : forall j, w_nodes w j = None -> forall nj, w_nodes w' j = Some nj -> j = c).
  { intros j Hj nj Hj'. cbn in Hj'. unfold upd in Hj'. destruct (j =? self) eqn:E1; [apply N.eqb_eq in E1; subst; congruence|].
    fold c in Hj'. destruct (j =? c) eqn:E2; [apply N.eqb_eq in E2; exact E2|congruence]. }
  assert (Hkids : forall p x, child_of w' p x -> w_nodes w p = None -> w_nodes w x = None).
  { intros p x (np & Hp & Hx) Hpn. rewrite (Hnew _ Hpn _ Hp) in Hp. rewrite Hc' in Hp. injection Hp as <-.
    rewrite Hleaf in Hx. destruct Hx. }
  assert (Hfront' : k = O -> identifiable_n T w n = false /\
                    (named T (n_type n) = true -> forall cn0, w_nodes w' c = Some cn0 -> n_name cn0 <> name_short_name T)).
  { intros Hk0. destruct (Hfront Hk0) as (H1 & H2). split; [exact H1|]. intros Hn cn0 Hcn0. rewrite Hc' in Hcn0.
    injection Hcn0 as <-. auto. }
  assert (Hroots : forall m, option_map m_root (model_at w' m) = option_map m_root (model_at w m)) by reflexivity.
  assert (Holdnew : forall j nj, w_nodes w' j = Some nj -> old w j \/ j = c).
  { intros j nj Hj. destruct (w_nodes w j) as [x|] eqn:E; [left; eexists; eauto|right; eapply Hnew; eauto]. }
  destruct HI as [I1 I2 I3 IL I4 I5].
  constructor.
  - (* ShortTyped *)
    intros j nj Hj Hnm. destruct (Holdnew _ _ Hj) as [Ho| ->].
    + eapply (shorttyped_old T w w' self c n k); eauto.
    + rewrite Hc' in Hj. injection Hj as <-. auto.
  - (* SlashFree *)
    intros j nj s Hj Hnm Hcd. destruct (Holdnew _ _ Hj) as [Ho| ->].
    + eapply (slashfree_old T w w' self c n k); eauto.
    + rewrite Hc' in Hj. injection Hj as <-. rewrite (leaf_no_cdata T _ Hleaf) in Hcd. discriminate.
  - (* AllNamed *)
    intros j nj Hj Hid. destruct (Holdnew _ _ Hj) as [Ho| ->].
    + eapply (allnamed_old T w w' self c n k); eauto.
    + rewrite Hc' in Hj. injection Hj as <-. rewrite (leaf_not_identifiable T _ _ Hleaf) in Hid. discriminate.
  - (* CharsLeaf *)
    intros j nj Hj Hm. destruct (Holdnew _ _ Hj) as [Ho| ->].
    + eapply (charsleaf_old T w w' self c n k); eauto.
    + rewrite Hc' in Hj. injection Hj as <-. left. exact Hleaf.
  - (* IndexExact *)
    intros m x Hx p i. change (model_at w' m) with (model_at w m) in Hx. rewrite (I4 m x Hx p i).
    destruct (w_nodes w i) as [ni|] eqn:Ei.
    + symmetry. apply (pathset_old T w w' self c n k); eauto. eexists; eauto.
    + split.
      * intros (Hr & _). exfalso. destruct (mreach_alloc T _ _ _ HF Hr) as (? & ?). congruence.
      * intros (Hr & Hid & _). exfalso.
        assert (Hno : ~ old w i) by (intros (? & ?); congruence).
        destruct (mreach_new T w w' self c n k HF Hself Hold Hself' Hc Hkids Hk Hns Hfront' Hroots m i Hr Hno) as (_ & (q2 & Hd)).
        apply (dpath_leaf _ _ _ _ _ Hc' Hleaf) in Hd. subst i. unfold identifiable in Hid. rewrite Hc' in Hid.
        rewrite (leaf_not_identifiable T _ _ Hleaf) in Hid. discriminate.
  - (* IndexNoDup *)
    intros m x Hx. apply (I5 m x Hx).
Qed.

(* ---------- the class K04-front, unfolded *)
Lemma front_false_at w h n name p :
  w_nodes w h = Some n -> front T LATEST w h name (Some p) = false -> N.to_nat p = O ->
  identifiable_n T w n = false /\ (named T (n_type n) = true -> name <> name_short_name T).
Proof.
  intros Hn Hf Hp. assert (p = 0) by lia. subst p. unfold front, ins_pos in Hf.
  apply orb_false_iff in Hf as (H1 & H2). unfold identifiable in H1. rewrite Hn in H1. split; [exact H1|].
  intros Hnm. unfold named_node in H2. rewrite Hn, Hnm in H2. cbn in H2. apply N.eqb_neq in H2. exact H2.
Qed.
Lemma front_false_end w h n name v s e :
  w_nodes w h = Some n -> min_version LATEST h w = Val (OK v, w) ->
  calc_element_insert_range T n name v w = Val (OK (s, e), w) ->
  front T LATEST w h name None = false -> N.to_nat e = O ->
  identifiable_n T w n = false /\ (named T (n_type n) = true -> name <> name_short_name T).
Proof.
  intros Hn Hv Hr Hf He. apply (front_false_at w h n name e Hn); [|exact He].
  unfold front, ins_pos, range_of in *. rewrite Hv, Hn, Hr in Hf. exact Hf.
Qed.

(* what create_sub_element does to the world: nothing, or a fresh leaf under h *)
Definition leaf_shape (w : world) (h name : N) (w' : world) : Prop :=
  w' = w \/
  exists n cn k, w_nodes w h = Some n /\ n_content cn = [] /\ n_name cn = name /\
    (k <= List.length (n_content n))%nat /\ n_name n <> name_short_name T /\
    content_mode T (n_type n) <> Val MCharacters /\ isref T (n_type n) = false /\
    (k = O -> identifiable_n T w n = false /\ (named T (n_type n) = true -> n_name cn <> name_short_name T)) /\
    (n_name cn = name_short_name T -> short_type T check_fn (n_type cn)) /\
    w' = leaf_world w h n cn k.

Lemma raw_create_sub_shape h name v pos_opt w r w' :
  TreeFacts w -> Inv04 w -> min_version LATEST h w = Val (OK v, w) ->
  front T LATEST w h name pos_opt = false ->
  match pos_opt with
  | None => raw_create_sub_element T h name v w = Val (r, w')
  | Some pos => raw_create_sub_element_at T h name pos v w = Val (r, w')
  end -> leaf_shape w h name w'.
Proof.
  intros HF HI Hv Hfr H.
  assert (Hcore : forall n s e pos, w_nodes w h = Some n -> calc_element_insert_range T n name v w = Val (OK (s, e), w) ->
            (N.to_nat pos = O -> identifiable_n T w n = false /\ (named T (n_type n) = true -> name <> name_short_name T)) ->
            create_sub_element_inner T h name pos v w = Val (r, w') -> leaf_shape w h name w').
  { intros n s e pos Hn Hr Hfront Hc. apply create_inner_val in Hc; [|pose proof (tf_alloc _ HF _ _ Hn); lia].
    destruct Hc as [(-> & _)|(n2 & et & ix & Hn2 & Hfind & Hlen & _ & ->)]; [left; reflexivity|]. right.
    rewrite Hn in Hn2. injection Hn2 as <-.
    exists n, (new_node (PElem h) name et), (N.to_nat pos).
    split; [exact Hn|]. split; [reflexivity|]. split; [reflexivity|]. split; [exact Hlen|].
    split; [eapply range_not_short; eauto; apply (i4_short _ _ _ HI)|].
    split; [eapply calc_range_mode; eauto|]. split; [eapply range_not_ref; eauto|].
    split; [exact Hfront|]. split; [|reflexivity].
    cbn [new_node n_name n_type]. intros Hs. subst name. eapply (tk_short _ _ TK); eauto. }
  destruct pos_opt as [pos|].
  - unfold raw_create_sub_element_at in H. wnode H n Hn.
    wbind_ro H se Ese; [|left; reflexivity]. destruct se as [s e]. destruct ((s <=? pos) && (pos <=? e)); [|winv H; left; reflexivity].
    eapply Hcore; eauto. intros Hp. eapply front_false_at; eauto.
  - unfold raw_create_sub_element in H. wnode H n Hn.
    wbind_ro H se Ese; [|left; reflexivity]. destruct se as [s e].
    eapply Hcore; eauto. intros Hp. eapply front_false_end; eauto.
Qed.

Lemma leaf_shape_inv04 w h name w' : TreeFacts w -> Inv04 w -> leaf_shape w h name w' -> Inv04 w'.
Proof.
  intros HF HI [->|(n & cn & k & Hn & Hleaf & _ & Hk & Hns & Hmd & _ & Hfront & Hst & ->)]; [exact HI|].
  apply inv04_attach_leaf; auto.
Qed.

Lemma raw_create_sub_inv04 h name v pos_opt w r w' :
  TreeFacts w -> Inv04 w -> min_version LATEST h w = Val (OK v, w) ->
  front T LATEST w h name pos_opt = false ->
  match pos_opt with
  | None => raw_create_sub_element T h name v w = Val (r, w')
  | Some pos => raw_create_sub_element_at T h name pos v w = Val (r, w')
  end -> Inv04 w'.
Proof. intros HF HI Hv Hfr H. eapply leaf_shape_inv04; eauto. eapply raw_create_sub_shape; eauto. Qed.

(* the three public operations have the same shape *)
Lemma e_create_sub_shape o w r w' :
  TreeFacts w -> Inv04 w -> Known04 T LATEST w o = false ->
  match o with
  | OpCreateSub h name => e_create_sub_element T LATEST h name w = Val (r, w') -> leaf_shape w h name w'
  | OpCreateSubAt h name pos => e_create_sub_element_at T LATEST h name pos w = Val (r, w') -> leaf_shape w h name w'
  | OpGetOrCreate h name => e_get_or_create_sub_element T LATEST h name w = Val (r, w') -> leaf_shape w h name w'
  | _ => True
  end.
Proof.
  intros HF HI HK. destruct o; try exact I; intros H.
  - unfold e_create_sub_element in H. wbind_ro H v Ev; [|left; reflexivity].
    eapply (raw_create_sub_shape h name v None); eauto.
  - unfold e_create_sub_element_at in H. wbind_ro H v Ev; [|left; reflexivity].
    eapply (raw_create_sub_shape h name v (Some pos)); eauto.
  - unfold e_get_or_create_sub_element in H. wbind_ro H v Ev; [|left; reflexivity].
    wbind_ro H s Es; [|left; reflexivity]. destruct s as [c|]; [winv H; left; reflexivity|].
    eapply (raw_create_sub_shape h name v None); eauto.
Qed.

Theorem C04_create_sub h name w r w' :
  TreeFacts w -> Inv04 w -> Known04 T LATEST w (OpCreateSub h name) = false ->
  e_create_sub_element T LATEST h name w = Val (r, w') -> Inv04 w'.
Proof.
  intros HF HI HK H. unfold e_create_sub_element in H. wstep H; [|exact HI].
  eapply (raw_create_sub_inv04 h name a None); eauto.
Qed.

Theorem C04_create_sub_at h name pos w r w' :
  TreeFacts w -> Inv04 w -> Known04 T LATEST w (OpCreateSubAt h name pos) = false ->
  e_create_sub_element_at T LATEST h name pos w = Val (r, w') -> Inv04 w'.
Proof.
  intros HF HI HK H. unfold e_create_sub_element_at in H. wstep H; [|exact HI].
  eapply (raw_create_sub_inv04 h name a (Some pos)); eauto.
Qed.

Theorem C04_get_or_create_sub h name w r w' :
  TreeFacts w -> Inv04 w -> Known04 T LATEST w (OpGetOrCreate h name) = false ->
  e_get_or_create_sub_element T LATEST h name w = Val (r, w') -> Inv04 w'.
Proof.
  intros HF HI HK H. unfold e_get_or_create_sub_element in H. wstep H; [|exact HI].
  wstep H; [|exact HI]. destruct a0 as [c|]; [winv H; exact HI|].
  eapply (raw_create_sub_inv04 h name a None); eauto.
Qed.

End Create.
