(* Tree/FilesProofsFrame.v — C10 proofs, layer 2: operations that do not touch file sets.
   Frame w w' : every node of w keeps its type, and either keeps its local set and its parent link (or loses the
   link), or is a removed node (empty set, no parent); nodes that are new in w' have an empty local set; the models
   keep their roots and file lists.  Under Frame the invariant is inherited (transfer lemma).  Every operation other
   than the four file operations and move satisfies Frame. *)
From Coq Require Import PeanoNat Arith Lia.
From AV Require Import Base.Bytes Base.Outcome Hash.HashModel Tree.Heap Tree.Ops Tree.Script Tree.Serialize
  Tree.Inv Tree.InvProofsBase Tree.InvProofsCore Tree.InvProofsTree Tree.Files Tree.FilesProofsBase Tree.FilesProofsProj.
Open Scope string_scope.
Open Scope list_scope.
Open Scope N_scope.

Definition mview (x : model) : id * list N := (m_root x, m_files x).

Definition node_kept (n n' : node) : Prop :=
  n_type n' = n_type n /\
  ((n_files n' = n_files n /\ (n_parent n' = n_parent n \/ n_parent n' = PNone)) \/
   (n_files n' = [] /\ n_parent n' = PNone)).

Record Frame (w w' : world) : Prop := mkFrame {
  fr_next : w_next w <= w_next w';
  fr_old : forall x n, w_nodes w x = Some n -> exists n', w_nodes w' x = Some n' /\ node_kept n n';
  fr_new : forall x n', w_nodes w x = None -> w_nodes w' x = Some n' -> n_files n' = [];
  fr_models : forall x', In x' (w_models w') ->
              (exists x, In x (w_models w) /\ mview x = mview x') \/ (m_files x' = [] /\ w_nodes w (m_root x') = None);
  fr_files : w_files w' = w_files w
}.

Lemma node_kept_refl n : node_kept n n.
Proof. split; auto. Qed.
Lemma node_kept_trans a b c : node_kept a b -> node_kept b c -> node_kept a c.
Proof.
  intros (T1 & H1) (T2 & H2). split; [congruence|].
  destruct H1 as [(F1 & P1)|(F1 & P1)], H2 as [(F2 & P2)|(F2 & P2)].
  - left. split; [congruence|]. destruct P1, P2; [left|right|right|right]; congruence.
  - right. auto.
  - right. split; [congruence|]. destruct P2; congruence.
  - right. auto.
Qed.

Lemma Frame_refl w : Frame w w.
Proof.
  constructor; auto; try lia.
  - intros x n H. exists n. split; auto. apply node_kept_refl.
  - intros x n' H H'. congruence.
  - intros x' H. left. eauto.
Qed.

Lemma Frame_trans a b c : Frame a b -> Frame b c -> Frame a c.
Proof.
  intros [N1 O1 W1 M1 F1] [N2 O2 W2 M2 F2]. constructor; try congruence; try lia.
  - intros x n H. destruct (O1 _ _ H) as (n1 & H1 & K1). destruct (O2 _ _ H1) as (n2 & H2 & K2).
    exists n2. split; auto. eapply node_kept_trans; eauto.
  - intros x n2 H H2. destruct (w_nodes b x) as [n1|] eqn:H1.
    + pose proof (W1 _ _ H H1) as E. destruct (O2 _ _ H1) as (n2' & H2' & (_ & K)).
      assert (n2' = n2) by congruence. subst n2'. destruct K as [(F & _)|(F & _)]; congruence.
    + eapply W2; eauto.
  - intros x' Hx'. destruct (M2 _ Hx') as [(x1 & Hx1 & E1)|(Hf & Hn)].
    + destruct (M1 _ Hx1) as [(x0 & Hx0 & E0)|(Hf & Hn)].
      * left. exists x0. split; auto. congruence.
      * right. injection E1 as Er Ef. split; congruence.
    + right. split; auto. destruct (w_nodes a (m_root x')) as [n|] eqn:E; auto.
      destruct (O1 _ _ E) as (n1 & H1 & _). congruence.
Qed.

Section Transfer.
Variable T : tables.

Lemma split_ok_type n n' : n_type n' = n_type n -> split_ok T n -> split_ok T n'.
Proof. unfold split_ok. intros ->. auto. Qed.

(* what the transfer needs to know about an element reached in w' *)
Definition carried (w w' : world) (r : id) (nonempty : Prop) (i : id) : Prop :=
  (nonempty -> exists s, Eff w' i s) /\
  ((exists n n', w_nodes w i = Some n /\ w_nodes w' i = Some n' /\ Reach w r i /\
                 n_files n' = n_files n /\ n_type n' = n_type n /\ n_parent n' = n_parent n /\
                 (forall s, Eff w i s -> Eff w' i s)) \/
   (exists n', w_nodes w i = None /\ w_nodes w' i = Some n' /\ n_files n' = [])).

Lemma frame_carried w w' x x' : TreeInv w -> Core w' -> Frame w w' -> FilesInvM T w x ->
  In x (w_models w) -> In x' (w_models w') -> mview x = mview x' ->
  forall i, Reach w' (m_root x') i -> carried w w' (m_root x) (m_files x <> []) i.
Proof.
  intros (C & NO & _) C' F FI Hx Hx' Hv. injection Hv as Hroot Hfiles.
  intros i Hr. rewrite <- Hroot in Hr. induction Hr as [H|p c Hp IH Hl].
  - destruct (root_node _ _ C Hx) as (n & k & Hn & Hpn).
    destruct (root_node _ _ C' Hx') as (n' & k' & Hn' & Hpn'). rewrite <- Hroot in Hn'.
    destruct (fr_old _ _ F _ _ Hn) as (n'' & Hn'' & (Ty & K)). assert (n'' = n') by congruence. subst n''.
    destruct K as [(Fs & Pp)|(_ & Pp)]; [|congruence]. destruct Pp as [Pp|Pp]; [|congruence].
    assert (forall s, Eff w (m_root x) s -> Eff w' (m_root x) s) as Htr.
    { intros s Hs. inversion Hs as [i0 n0 Hn0 Hne E1 E2 | i0 n0 q s0 Hn0 He Hq Hs0 E1 E2]; subst.
      - assert (n0 = n) by congruence. subst n0. rewrite <- Fs. constructor; auto. congruence.
      - assert (n0 = n) by congruence. subst n0. congruence. }
    split.
    + intros Hne. destruct (fi_eff _ _ _ FI Hne (m_root x)) as (s & Hs); [constructor; exists n; auto|]. eauto.
    + left. exists n, n'. repeat split; auto. constructor. exists n; auto.
  - destruct IH as (IHd & IHs).
    pose proof (c_up _ C' _ _ Hl) as (cn' & Hcn' & Hpar').
    destruct (w_nodes w c) as [cn|] eqn:Hcn.
    + destruct (fr_old _ _ F _ _ Hcn) as (cn'' & Hcn'' & (Ty & K)). assert (cn'' = cn') by congruence. subst cn''.
      destruct K as [(Fs & Pp)|(_ & Pp)]; [|congruence]. destruct Pp as [Pp|Pp]; [|congruence].
      assert (par w c p) as Hparw by (exists cn; split; auto; congruence).
      pose proof (NO _ _ Hparw) as Hlw.
      destruct IHs as [(pn & pn' & Hpn & Hpn' & Hrp & _ & _ & _ & Htrp)|(pn' & Hnone & _)].
      2:{ destruct Hlw as (pn & Hpn & _). congruence. }
      assert (Reach w (m_root x) c) as Hrc by (eapply R_kid; eauto).
      assert (forall s, Eff w c s -> Eff w' c s) as Htr.
      { intros s Hs. inversion Hs as [i0 n0 Hn0 Hne E1 E2 | i0 n0 q s0 Hn0 He Hq Hs0 E1 E2]; subst.
        - assert (n0 = cn) by congruence. subst n0. rewrite <- Fs. constructor; auto. congruence.
        - assert (n0 = cn) by congruence. subst n0. eapply Eff_up; eauto; try congruence.
          apply Htrp. assert (q = p) by congruence. subst q. exact Hs0. }
      split.
      * intros Hne. destruct (fi_eff _ _ _ FI Hne c Hrc) as (s & Hs). eauto.
      * left. exists cn, cn'. repeat split; auto.
    + pose proof (fr_new _ _ F _ _ Hcn Hcn') as Fe. split.
      * intros Hne. destruct (IHd Hne) as (s & Hs). exists s. eapply Eff_up; eauto.
      * right. exists cn'. auto.
Qed.

(* everything below a root that is new in w' is new in w' *)
Lemma frame_new_root w w' r : TreeInv w -> Core w' -> Frame w w' -> w_nodes w r = None ->
  forall i, Reach w' r i -> w_nodes w i = None.
Proof.
  intros (C & NO & _) C' F Hr i H. induction H as [H|p c Hp IH Hl]; auto.
  destruct (w_nodes w c) as [cn|] eqn:Hcn; auto. exfalso.
  pose proof (c_up _ C' _ _ Hl) as (cn' & Hcn' & Hpar').
  destruct (fr_old _ _ F _ _ Hcn) as (cn'' & Hcn'' & (Ty & K)). assert (cn'' = cn') by congruence. subst cn''.
  destruct K as [(Fs & Pp)|(_ & Pp)]; [|congruence]. destruct Pp as [Pp|Pp]; [|congruence].
  assert (par w c p) as Hparw by (exists cn; split; auto; congruence).
  destruct (NO _ _ Hparw) as (pn & Hpn & _). congruence.
Qed.

(* one model at a time *)
Lemma frame_transfer_model w w' x x' : TreeInv w -> Core w' -> Frame w w' ->
  In x (w_models w) -> In x' (w_models w') -> mview x = mview x' -> FilesInvM T w x -> FilesInvM T w' x'.
Proof.
  intros TI C' F Hx Hx' Hv FIx. pose proof (frame_carried _ _ _ _ TI C' F FIx Hx Hx' Hv) as CA.
  destruct TI as (C & NO & _). injection Hv as Hroot Hfiles. constructor.
  - intros i n' Hr Hn'. rewrite <- Hfiles.
    destruct (CA i Hr) as (_ & [(n & n'' & Hn & Hn'' & Hrw & Fs & _)|(n'' & _ & Hn'' & Fe)]); assert (n'' = n') by congruence; subst n''.
    + rewrite Fs. eapply (fi_sub _ _ _ FIx); eauto.
    + rewrite Fe. intros y [].
  - intros i n' p Hr Hn' Hne Hp.
    destruct (CA i Hr) as (_ & [(n & n'' & Hn & Hn'' & Hrw & Fs & _ & Pp & _)|(n'' & _ & Hn'' & Fe)]); assert (n'' = n') by congruence; subst n''; [|congruence].
    destruct (fi_par _ _ _ FIx i n p Hrw Hn) as (s & Hs & Hi); try congruence.
    exists s. split; [|rewrite Fs; exact Hi].
    assert (Reach w' (m_root x') p) as Hrp by (eapply reach_par; eauto; exists n'; auto).
    destruct (CA p Hrp) as (_ & [(pn & pn' & _ & _ & _ & _ & _ & _ & Htr)|(pn' & Hnone & _)]); auto.
    exfalso. destruct (Eff_alloc _ _ _ Hs) as (? & ?). congruence.
  - intros i n' p pn' Hr Hn' Hne Hp Hpn'.
    destruct (CA i Hr) as (_ & [(n & n'' & Hn & Hn'' & Hrw & Fs & _ & Pp & _)|(n'' & _ & Hn'' & Fe)]); assert (n'' = n') by congruence; subst n''; [|congruence].
    assert (Reach w' (m_root x') p) as Hrp by (eapply reach_par; eauto; exists n'; auto).
    destruct (CA p Hrp) as (_ & [(pn & pn'' & Hpn & Hpn'' & _ & _ & Ty & _)|(pn'' & Hnone & _)]).
    + assert (pn'' = pn') by congruence. subst pn''. eapply split_ok_type; eauto.
      eapply (fi_split _ _ _ FIx i n p pn); eauto; congruence.
    + exfalso. assert (par w i p) as Hparw by (exists n; split; auto; congruence).
      destruct (NO _ _ Hparw) as (? & ? & _). congruence.
  - intros Hne i Hr. destruct (CA i Hr) as (Hd & _). apply Hd. congruence.
Qed.

Lemma frame_transfer_new w w' x' : TreeInv w -> Core w' -> Frame w w' ->
  m_files x' = [] -> w_nodes w (m_root x') = None -> FilesInvM T w' x'.
Proof.
  intros TI C' F Hnf Hnr. pose proof (frame_new_root _ _ _ TI C' F Hnr) as Hnew.
  assert (forall i n', Reach w' (m_root x') i -> w_nodes w' i = Some n' -> n_files n' = []) as He
    by (intros i n' Hr Hn'; apply (fr_new _ _ F i n'); auto).
  constructor.
  - intros i n' Hr Hn'. rewrite (He _ _ Hr Hn'). intros y [].
  - intros i n' p Hr Hn' Hne. exfalso. apply Hne. eauto.
  - intros i n' p pn' Hr Hn' Hne. exfalso. apply Hne. eauto.
  - intros Hne. congruence.
Qed.

Theorem frame_transfer w w' : TreeInv w -> Core w' -> Frame w w' -> FilesInv T w -> FilesInv T w'.
Proof.
  intros TI C' F FI x' Hx'. destruct (fr_models _ _ F _ Hx') as [(x & Hx & Hv)|(Hnf & Hnr)].
  - eapply frame_transfer_model; eauto.
  - eapply frame_transfer_new; eauto.
Qed.

End Transfer.
