(* Tree/OrdFilesOps.v — C07, histories: every operation of Tree/Script.v keeps NFw (Tree/OrdFiles.v): local file sets only name
   existing files, and only create_file changes the file list.  Mechanical: the tactic fp_go decomposes each computation. *)
From Coq Require Import PeanoNat Arith Lia.
From AV Require Import Base.Bytes Base.Outcome Hash.HashModel Spec.SpecOps Tree.Heap Tree.Ops Tree.Script Tree.Inv
  Tree.InvProofsBase Tree.InvProofsCore Tree.InvProofsPrim Tree.InvProofsCreate Tree.InvProofsRefs Tree.InvProofsRemove
  Tree.FilesProofsBase Tree.OrdFiles.
Open Scope string_scope.
Open Scope list_scope.
Open Scope N_scope.

Section Ops.
Variable T : tables.
Variable tab_el tab_en : nametab.
Variable check_fn : N -> list N -> res bool.
Variable LATEST : N.
Variable FL : list file.

Notation fp := (fp FL).

Lemma fp_add_identifiable m p e : fp (add_identifiable m p e).
Proof. unfold add_identifiable. fp_go. Qed.
Lemma fp_remove_identifiable m p : fp (remove_identifiable m p).
Proof. unfold remove_identifiable. fp_go. Qed.
Lemma fp_fix_identifiables m a b : fp (fix_identifiables m a b).
Proof. unfold fix_identifiables. fp_go. Qed.
Lemma fp_add_reference_origin m r e : fp (add_reference_origin m r e).
Proof. unfold add_reference_origin. fp_go. Qed.
Lemma fp_fix_reference_origins m a b e : fp (fix_reference_origins m a b e).
Proof. unfold fix_reference_origins. fp_go. Qed.
Lemma fp_remove_reference_origin m r e : fp (remove_reference_origin m r e).
Proof. unfold remove_reference_origin. fp_go. Qed.
Hint Resolve fp_add_identifiable fp_remove_identifiable fp_fix_identifiables fp_add_reference_origin
  fp_fix_reference_origins fp_remove_reference_origin : fpdb.

Lemma fp_content_insert self pos it : fp (content_insert self pos it).
Proof. unfold content_insert. fp_go. Qed.
Hint Resolve fp_content_insert : fpdb.
Lemma fp_raw_set_cdata i v version : fp (raw_set_character_data T check_fn i v version).
Proof. unfold raw_set_character_data. fp_go. Qed.
Hint Resolve fp_raw_set_cdata : fpdb.
Lemma fp_detach p c : fp (detach_from p c).
Proof. unfold detach_from. fp_go. Qed.
Hint Resolve fp_detach : fpdb.
Lemma fp_make_unique i m pp : fp (make_unique_item_name T i m pp).
Proof. unfold make_unique_item_name. fp_go. Qed.
Hint Resolve fp_make_unique : fpdb.
Lemma fp_remove_internal fuel : forall i m path, fp (remove_internal T fuel i m path).
Proof. induction fuel as [|f IH]; intros i m path; cbn [remove_internal]; fp_go. Qed.
Hint Resolve fp_remove_internal : fpdb.
Lemma fp_raw_remove self sub m : fp (raw_remove_sub_element T self sub m).
Proof. unfold raw_remove_sub_element. fp_go. Qed.
Hint Resolve fp_raw_remove : fpdb.
Lemma fp_e_remove h sub : fp (e_remove_sub_element T h sub).
Proof. unfold e_remove_sub_element. fp_go. Qed.
Hint Resolve fp_e_remove : fpdb.
Lemma fp_e_remove_kind h name : fp (e_remove_sub_element_kind T h name).
Proof. unfold e_remove_sub_element_kind. fp_go. Qed.
Lemma fp_set_item_name h nm : fp (e_set_item_name T check_fn LATEST h nm).
Proof. unfold e_set_item_name. fp_go. Qed.
Lemma fp_set_cdata h v : fp (e_set_character_data T tab_en check_fn LATEST h v).
Proof. unfold e_set_character_data. fp_go. Qed.
Lemma fp_remove_cdata h : fp (e_remove_character_data T h).
Proof. unfold e_remove_character_data. fp_go. Qed.
Lemma fp_insert_citem h text pos : fp (e_insert_character_content_item T h text pos).
Proof. unfold e_insert_character_content_item. fp_go. Qed.
Lemma fp_remove_citem h pos : fp (e_remove_character_content_item T h pos).
Proof. unfold e_remove_character_content_item. fp_go. Qed.
Lemma fp_raw_set_attribute h attr v version : fp (raw_set_attribute T check_fn h attr v version).
Proof. unfold raw_set_attribute. fp_go. Qed.
Hint Resolve fp_raw_set_attribute : fpdb.
Lemma fp_set_attribute h attr v : fp (e_set_attribute T check_fn LATEST h attr v).
Proof. unfold e_set_attribute. fp_go. Qed.
Lemma fp_remove_attribute h attr : fp (e_remove_attribute T h attr).
Proof. unfold e_remove_attribute. fp_go. Qed.
Lemma fp_set_ref_target h target : fp (e_set_reference_target T tab_el tab_en check_fn LATEST h target).
Proof. unfold e_set_reference_target. fp_go. Qed.
Lemma fp_set_comment h c : fp (e_set_comment h c).
Proof. unfold e_set_comment. fp_go. Qed.

(* ---- the file operations that keep the file list ---- *)
Lemma fp_atfr fuel : forall e f, Pf FL f -> fp (add_to_file_restricted T fuel e f).
Proof. induction fuel as [|fl IH]; intros e f Hf; cbn [add_to_file_restricted]; fp_go. Qed.
Lemma fp_add_to_file e f : fp (e_add_to_file T e f).
Proof. unfold e_add_to_file. pose proof fp_atfr as HA. fp_go. Qed.
Lemma fp_remove_from_file e f : fp (e_remove_from_file T e f).
Proof. unfold e_remove_from_file. fp_go. Qed.
Hint Resolve fp_remove_from_file : fpdb.
Lemma fp_set_file_membership e : fp (set_file_membership T e []).
Proof. unfold set_file_membership. fp_go. Qed.
Hint Resolve fp_set_file_membership : fpdb.
Lemma fp_remove_file m f : fp (m_remove_file T m f).
Proof. unfold m_remove_file. fp_go. Qed.

(* ---- create ---- *)
Lemma fp_create_inner self name pos version : fp (create_sub_element_inner T self name pos version).
Proof. unfold create_sub_element_inner. fp_go. Qed.
Hint Resolve fp_create_inner : fpdb.
Lemma fp_raw_create self name version : fp (raw_create_sub_element T self name version).
Proof. unfold raw_create_sub_element. fp_go. Qed.
Hint Resolve fp_raw_create : fpdb.
Lemma fp_raw_create_at self name pos version : fp (raw_create_sub_element_at T self name pos version).
Proof. unfold raw_create_sub_element_at. fp_go. Qed.
Lemma fp_e_create h name : fp (e_create_sub_element T LATEST h name).
Proof. unfold e_create_sub_element. fp_go. Qed.
Lemma fp_e_create_at h name pos : fp (e_create_sub_element_at T LATEST h name pos).
Proof. unfold e_create_sub_element_at. pose proof fp_raw_create_at. fp_go. Qed.
Lemma fp_named_inner self name item pos m version : fp (create_named_sub_element_inner T check_fn self name item pos m version).
Proof. unfold create_named_sub_element_inner. fp_go. Qed.
Hint Resolve fp_named_inner : fpdb.
Lemma fp_raw_named self name item m version : fp (raw_create_named_sub_element T check_fn self name item m version).
Proof. unfold raw_create_named_sub_element. fp_go. Qed.
Hint Resolve fp_raw_named : fpdb.
Lemma fp_raw_named_at self name item pos m version : fp (raw_create_named_sub_element_at T check_fn self name item pos m version).
Proof. unfold raw_create_named_sub_element_at. fp_go. Qed.
Lemma fp_e_named h name item : fp (e_create_named_sub_element T check_fn LATEST h name item).
Proof. unfold e_create_named_sub_element. fp_go. Qed.
Lemma fp_e_named_at h name item pos : fp (e_create_named_sub_element_at T check_fn LATEST h name item pos).
Proof. unfold e_create_named_sub_element_at. pose proof fp_raw_named_at. fp_go. Qed.
Lemma fp_get_or_create h name : fp (e_get_or_create_sub_element T LATEST h name).
Proof. unfold e_get_or_create_sub_element. fp_go. Qed.
Lemma fp_get_or_create_named h name item : fp (e_get_or_create_named_sub_element T check_fn LATEST h name item).
Proof. unfold e_get_or_create_named_sub_element. fp_go. Qed.

(* ---- copy ---- *)
Lemma fp_deep_copy fuel : forall src version, fp (deep_copy T fuel src version).
Proof. induction fuel as [|f IH]; intros src version; cbn [deep_copy]; fp_go. Qed.
Hint Resolve fp_deep_copy : fpdb.
Lemma fp_register_subtree fuel : forall m cur i, fp (register_subtree T fuel m cur i).
Proof. induction fuel as [|f IH]; intros m cur i; cbn [register_subtree]; fp_go. Qed.
Hint Resolve fp_register_subtree : fpdb.
Lemma fp_ccsei self other pos m version : fp (create_copied_sub_element_inner T self other pos m version).
Proof. unfold create_copied_sub_element_inner. fp_go. Qed.
Hint Resolve fp_ccsei : fpdb.
Lemma fp_e_copy h other : fp (e_create_copied_sub_element T LATEST h other).
Proof. unfold e_create_copied_sub_element, raw_create_copied_sub_element. fp_go. Qed.
Lemma fp_e_copy_at h other pos : fp (e_create_copied_sub_element_at T LATEST h other pos).
Proof. unfold e_create_copied_sub_element_at, raw_create_copied_sub_element_at. fp_go. Qed.

(* ---- move ---- *)
Lemma fp_move_position self mv pos e : fp (move_element_position self mv pos e).
Proof. unfold move_element_position. fp_go. Qed.
Hint Resolve fp_move_position : fpdb.
Lemma fp_move_local self mv pos m version : fp (move_element_local T check_fn self mv pos m version).
Proof. unfold move_element_local. fp_go. Qed.
Hint Resolve fp_move_local : fpdb.
Lemma fp_move_full self mv pos m m_src version : fp (move_element_full T tab_en check_fn self mv pos m m_src version).
Proof. unfold move_element_full. fp_go. Qed.
Hint Resolve fp_move_full : fpdb.
Lemma fp_e_move h mv : fp (e_move_element_here T tab_en check_fn LATEST h mv).
Proof. unfold e_move_element_here. fp_go. Qed.
Lemma fp_e_move_at h mv pos : fp (e_move_element_here_at T tab_en check_fn LATEST h mv pos).
Proof. unfold e_move_element_here_at. fp_go. Qed.

End Ops.
