(* Tree/RangeProofsCheck.v — C07 (reload clause): soundness of the boolean world checker (Tree/WorldCheck.v): when it answers
   true on a world without nodes above w_next, the world has exact child types, SHORT-NAMEs where named, is not hollow, is
   WorldCanon and RootHeader (Tree/ProjectCanon.v), and the file projects for the writer's fuel. *)
From Coq Require Import Arith Lia.
From AV Require Import Base.Bytes Base.Outcome Hash.HashModel Spec.SpecOps Spec.Versions Tree.Heap Tree.Ops Tree.Serialize Tree.Range
  Tree.SpecWF Tree.Project Tree.ProjectCanon Tree.WorldCheck Tree.OrdFrame Tree.Files.
From AV Require Import Xml.Parser Xml.StrictValidDef Xml.RoundTripAttrs Xml.RoundTripElem Xml.RoundTripCanon Xml.RoundTripCanonb Xml.RoundTripFile.
Open Scope string_scope.
Open Scope list_scope.
Open Scope N_scope.

Lemma in_ids_below k i : i < k -> In i (ids_below k).
Proof.
  intros H. unfold ids_below. rewrite <- (N2Nat.id i). apply in_map. apply in_seq. lia.
Qed.

Lemma adj_none_app pre post : adj_none (pre ++ None :: None :: post) = true.
Proof.
  induction pre as [|a pre IH]; [reflexivity|]. cbn [app adj_none].
  destruct a as [x|]; [exact IH|]. destruct (pre ++ None :: None :: post) as [|[y|] r] eqn:E; [destruct pre; discriminate|exact IH|reflexivity].
Qed.

Lemma shape_keptb_sound mode k : shape_keptb mode k = true -> ShapeKept mode k.
Proof.
  unfold shape_keptb, ShapeKept. destruct (mode =? MCharacters).
  - destruct k as [|[x|] [|y r]]; try discriminate; auto.
  - destruct (mode =? MMixed).
    + intros H a b pre post -> -> ->. rewrite adj_none_app in H. discriminate.
    + intros H. rewrite forallb_forall in H. apply Forall_forall. intros c Hc ->. specialize (H _ Hc). discriminate.
Qed.

Section Sound.
Variable strict : bool.
Variable T : tables.
Variable tab_el tab_at tab_en : nametab.
Variable check_fn : N -> list N -> res bool.
Variable float_fmt : N -> list N.
Variable float_parse : list N -> option N.
Variable ver : N.
Variable w : world.
Variable ff : option N.
Variable root : id.

Notation node_canonb := (node_canonb T tab_el tab_at tab_en check_fn float_fmt float_parse ver w ff).

Lemma node_canonb_sound va n : node_canonb va n = true ->
  NodeCanonAt T tab_el tab_at tab_en check_fn float_fmt float_parse ver va w ff n.
Proof.
  unfold WorldCheck.node_canonb. rewrite !andb_true_iff. intros [[[[A B] C] D] E].
  split; [apply comments_okb_spec; exact A|]. split; [apply elem_nameb_spec; exact B|].
  split; [apply attrsokb_spec; exact C|]. split.
  - destruct (content_mode T (n_type n)) as [mode| |]; try discriminate.
    destruct (kept_items w ff (n_content n)) as [k|]; try discriminate.
    destruct (is_named_in_version T (n_type n) ver) as [named| |]; try discriminate.
    apply andb_true_iff in D as [D1 D2].
    exists mode, k, named. split; [reflexivity|]. split; [reflexivity|]. split; [apply shape_keptb_sound; exact D1|]. split; [reflexivity|].
    intros ->. cbn [negb orb] in D2. destruct k as [|[s|] r]; try discriminate. apply N.eqb_eq in D2. subst s. eauto.
  - intros d Hd. rewrite forallb_forall in E. specialize (E _ Hd). apply textokb_spec. exact E.
Qed.

Theorem world_check_sound : Fresh w ->
  world_checkb T tab_el tab_at tab_en check_fn float_fmt float_parse ver w ff root = true ->
  (forall i n, w_nodes w i = Some n ->
     (forall c cn, In (CElem c) (n_content n) -> w_nodes w c = Some cn ->
        exists idx, find_sub_element T (n_type n) (n_name cn) ver = Val (Some (n_type cn, idx))) /\
     (is_named_in_version T (n_type n) ver = Val true ->
        exists c cn, In (CElem c) (n_content n) /\ w_nodes w c = Some cn /\ Project.passes ff cn = true /\ n_name cn = name_short_name T)) /\
  WorldCanon T tab_el tab_at tab_en check_fn float_fmt float_parse ver w ff root /\
  RootHeader strict T tab_el tab_at tab_en check_fn float_fmt float_parse ver w ff root /\
  NoHollow T w ff root /\
  exists t, proj (fuel_of w) w ff root = Some t.
Proof.
  intros F H. unfold world_checkb in H. apply andb_true_iff in H as [HN HP]. rewrite forallb_forall in HN.
  assert (Hnode : forall i n, w_nodes w i = Some n ->
            node_checkb T tab_el tab_at tab_en check_fn float_fmt float_parse ver w ff root i n = true).
  { intros i n Hn. assert (L : i < w_next w).
    { destruct (N.lt_ge_cases i (w_next w)) as [L|G]; [exact L|]. rewrite F in Hn by exact G. discriminate. }
    specialize (HN i (in_ids_below _ _ L)). rewrite Hn in HN. exact HN. }
  assert (Hparts : forall i n, w_nodes w i = Some n ->
            no_root_childb root n = true /\ typedb T ver w n = true /\ shortb T ver w ff n = true /\ hollowb T w ff n = true /\
            (if i =? root then root_headerb T tab_el tab_at tab_en check_fn float_fmt float_parse ver w ff n
             else node_canonb ver n) = true).
  { intros i n Hn. specialize (Hnode i n Hn). unfold node_checkb in Hnode. rewrite !andb_true_iff in Hnode. tauto. }
  split; [|split; [|split; [|split]]].
  - intros i n Hn. destruct (Hparts i n Hn) as (_ & Ht & Hs & _). split.
    + intros c cn Hin Hc. unfold typedb in Ht. rewrite forallb_forall in Ht. specialize (Ht _ Hin). cbn beta iota in Ht. rewrite Hc in Ht.
      destruct (find_sub_element T (n_type n) (n_name cn) ver) as [[[et idx]|]| |]; try discriminate.
      apply etype_eqb_spec in Ht. subst et. eauto.
    + intros Hnv. unfold shortb in Hs. rewrite Hnv in Hs. apply existsb_exists in Hs as ([c|d] & Hin & Hc); [|discriminate].
      cbn [is_short_item] in Hc. destruct (w_nodes w c) as [cn|] eqn:Ec; [|discriminate].
      apply andb_true_iff in Hc as [P Nm]. apply N.eqb_eq in Nm. exists c, cn. auto.
  - split.
    + intros i n Hn NE. destruct (Hparts i n Hn) as (_ & _ & _ & _ & Hc). apply N.eqb_neq in NE. rewrite NE in Hc.
      apply node_canonb_sound. exact Hc.
    + intros i n Hn Hin. destruct (Hparts i n Hn) as (Hr & _). unfold no_root_childb in Hr. apply negb_true_iff in Hr.
      assert (X : existsb (fun it => match it with CElem c => c =? root | CData _ => false end) (n_content n) = true).
      { apply existsb_exists. exists (CElem root). split; [exact Hin|apply N.eqb_refl]. }
      congruence.
  - destruct (proj (fuel_of w) w ff root) as [t|] eqn:EP; [|discriminate].
    destruct (fuel_of w) as [|fl]; [discriminate|]. cbn [proj] in EP. destruct (w_nodes w root) as [rn|] eqn:Er; [|discriminate].
    destruct (Hparts root rn Er) as (_ & _ & _ & _ & Hc). rewrite N.eqb_refl in Hc. unfold root_headerb in Hc.
    destruct (elem T (autosar_element T)) as [e| |] eqn:EE; try discriminate.
    destruct (version_of_ident "Autosar_4_0_1") as [v401|] eqn:V401; try discriminate.
    rewrite !andb_true_iff in Hc. destruct Hc as [[[A B] C] D].
    apply N.eqb_eq in A. apply etype_eqb_spec in B.
    unfold headerb in D. destruct (parse_file_header true tab_at (pcattrs rn) dummy_state) as [[u st'|? ?]| |] eqn:PF; try discriminate D.
    destruct (pfh_indep tab_at _ _ _ _ PF) as (v0 & -> & HDR). cbn [p_version Parser.set_version] in D. apply N.eqb_eq in D. subst v0.
    exists rn, e, v401. split; [first [exact Er|reflexivity]|]. split; [first [exact EE|reflexivity]|].
    split; [first [exact V401|reflexivity]|]. split; [exact A|]. split; [exact B|].
    split; [apply node_canonb_sound; exact C|]. intros st. apply HDR.
  - intros i n _ Hn Hne. destruct (Hparts i n Hn) as (_ & _ & _ & Hh & _). unfold hollowb in Hh.
    destruct (n_content n) as [|first rest] eqn:Ec; [congruence|]. apply andb_true_iff in Hh as [H1 H2]. split.
    + apply existsb_exists in H1 as (it & Hin & Hk). exists it. split; [exact Hin|].
      destruct it as [c|d]; [|exact I]. cbn [item_keptb] in Hk. destruct (w_nodes w c) as [cn|] eqn:E; [|discriminate]. exists cn. auto.
    + intros mode f0 r0 Hm Hc [= <- <-]. rewrite Hm, Hc in H2.
      destruct first as [c|d]; [|exact I]. cbn [item_keptb] in H2. destruct (w_nodes w c) as [cn|] eqn:E; [|discriminate]. exists cn. auto.
  - destruct (proj (fuel_of w) w ff root) as [t|]; [eauto|discriminate].
Qed.

End Sound.
