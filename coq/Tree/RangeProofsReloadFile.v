(* Tree/RangeProofsReloadFile.v — C07 (reload clause) over the bytes ArxmlFile::serialize writes.
   Tree/Project.v proj is agent-c10's projection fproj (Tree/Files.v); with C10's file_self_contained (the text f_serialize
   writes for a file, loaded alone, is exactly the projection tree, given that no written element is hollow and the projection
   is a canonical root) the second hypothesis of reload_clean_composed — "f_serialize writes serialize_file of the
   projection" — is no longer needed: the statement is about f_serialize's own bytes. *)
From AV Require Import Base.Bytes Base.Outcome Hash.HashModel Spec.SpecOps Tree.Heap Tree.Ops Tree.Serialize Tree.Range Tree.SpecWF Tree.Project
  Tree.RangeProofsProject Tree.Files Tree.FilesProofsLoad.
From AV Require Xml.Lexer Xml.Parser Xml.Serializer Xml.StrictValidDef Xml.RoundTripFile.
Open Scope list_scope.
Open Scope N_scope.

Lemma proj_items_eq (rec1 rec2 : id -> option Parser.etree) w ff : (forall c, rec1 c = rec2 c) ->
  forall l, proj_items rec1 w ff l = fproj_items w ff rec2 l.
Proof.
  intros E. induction l as [|[c|d] r IH]; cbn [proj_items fproj_items]; [reflexivity| |].
  - destruct (w_nodes w c) as [cn|]; [|reflexivity].
    change (Project.passes ff cn) with (Serialize.passes ff cn). destruct (Serialize.passes ff cn); [|exact IH].
    rewrite E, IH. reflexivity.
  - rewrite IH. reflexivity.
Qed.

Lemma proj_eq_fproj w ff : forall fuel i, proj fuel w ff i = fproj fuel w ff i.
Proof.
  induction fuel as [|f IH]; intros i; [reflexivity|]. cbn [proj fproj].
  destruct (w_nodes w i) as [n|]; [|reflexivity].
  rewrite (proj_items_eq (proj f w ff) (fproj f w ff) w ff (IH) (n_content n)).
  destruct (fproj_items w ff (fproj f w ff) (n_content n)); reflexivity.
Qed.

Theorem reload_clean_file :
  forall (strict : bool) (T : tables) (tab_el tab_at tab_en : nametab) (check_fn : N -> list N -> res bool)
         (float_fmt : N -> list N) (float_parse : list N -> option N) (attr_schema_location : N) (ver : N),
  SpecWF T ->
  forall (w : world) (f : N) (text : list N) (w' : world),
  f_serialize T tab_el tab_at tab_en check_fn float_fmt attr_schema_location f w = Val (OK text, w') ->
  exists fl x, nth_opt (w_files w) (N.to_nat f) = Some fl /\ nth_opt (w_models w) (N.to_nat (f_model fl)) = Some x /\
    forall t, proj (fuel_of w') w' (Some f) (m_root x) = Some t ->
      WorldOK T check_fn ver w' (Some f) ->
      NoHollow T w' (Some f) (m_root x) ->
      RoundTripFile.RootCanon strict T tab_el tab_at tab_en check_fn float_fmt float_parse ver t ->
      Project.SVNR T check_fn ver t /\
      exists st, Parser.load strict T tab_el tab_at tab_en check_fn float_parse text = Val (Parser.Ret t st) /\
                 Parser.p_warnings st = [] /\ Parser.p_version st = ver /\ Parser.p_standalone st = f_standalone fl.
Proof.
  intros strict T tab_el tab_at tab_en check_fn float_fmt float_parse asl ver WF w f text w' H.
  destruct (file_self_contained strict T tab_el tab_at tab_en check_fn float_fmt float_parse asl ver f w text w' H)
    as (fl & x & Hfl & Hx & _ & HL).
  exists fl, x. split; [exact Hfl|]. split; [exact Hx|]. intros t Ht OK NH RC. split.
  - destruct (proj_svnr T check_fn ver WF w' (Some f) OK _ _ _ Ht) as (HS & _). exact HS.
  - apply HL; auto. rewrite <- proj_eq_fproj. exact Ht.
Qed.
