(* Tree/NoPanicFloat.v — C12: the float printer as an ORACLE (definitions only).
   Tree/Ops.v marks `CharacterData::Float(..).to_string()` as `Pan "UNMODELLED: f64::to_string"`: the digits are not
   modelled.  Whether a call can PANIC does not depend on the digits: here Element::set_character_data is written once
   more with the text conversion as a parameter [c2s]; instantiated with Ops.v's conversion it IS Ops.v's function
   (set_cdata_G_ops, by reflexivity), instantiated with [cdata_to_stringF float_fmt] — any function float_fmt from the
   64 bits to a byte string — it is the operation the no-panic theorem speaks about.  [run_opF] is run_op with this
   one function replaced. *)
From AV Require Import Base.Bytes Base.Outcome Hash.HashModel Spec.SpecOps Tree.Heap Tree.Ops Tree.Script.
Open Scope string_scope.
Open Scope list_scope.
Open Scope N_scope.

Section Float.
Variable T : tables.
Variable tab_el tab_en : nametab.
Variable check_fn : N -> list N -> res bool.
Variable LATEST : N.
Variable root_attrs : list (N * cdata).

(* Element::set_character_data_internal with the to_string conversion as a parameter: the text of Tree/Ops.v *)
Definition e_set_character_dataG (c2s : cdata -> res (list N)) (h : N) (v0 : cdata) : W unit :=
  (do n <- get_node h;
   do mode <- wl (content_mode T (n_type n));
   if negb ((mode =? MCharacters)
            || ((mode =? MMixed) && negb (existsb (fun it => match it with CElem _ => true | CData _ => false end) (n_content n))))
   then wfail IncorrectContentType else
   do spec <- wl (chardata_spec T (n_type n));
   match spec with
   | None => wfail IncorrectContentType
   | Some cs =>
     do m <- model_of h;
     do version <- min_version LATEST h;
     do ok0 <- wl (check_value check_fn v0 cs version);
     do '(v, ok) <- (if negb ok0 && match cs with CPattern _ _ | CString _ _ => true | _ => false end
                     then do s <- wl (c2s v0);
                          do ok1 <- wl (check_value check_fn (DString s) cs version); wret (DString s, ok1)
                     else wret (v0, ok0));
     if negb ok then wfail IncorrectContentType else
     do cd0 <- wl (character_data T n);
     do prev_path <- (if (n_name n =? SHORT T) && match cd0 with Some _ => true | None => false end then
                        do p <- parent_of n;
                        match p with
                        | Some pi =>
                          do pp <- path_id T pi;
                          do pn <- get_node pi;
                          do old <- item_name T pn;
                          (match old, v with
                           | Some old_name, DString new_name =>
                             match strip_suffix old_name pp with
                             | Some base =>
                               if negb (bytes_eqb new_name old_name) then
                                 do ex <- get_element_by_path m (base ++ new_name);
                                 match ex with Some _ => wfail DuplicateItemName | None => wret tt end
                               else wret tt
                             | None => wret tt
                             end
                           | _, _ => wret tt
                           end);;
                          wret (Some pp)
                        | None => wret None
                        end
                      else wret None);
     do isr <- wl (is_ref T (n_type n));
     let old_refval := if isr then match cd0 with Some (DString s) => Some s | _ => None end else None in
     set_node h (set_content n [CData v]);;
     (match prev_path with
      | Some pp =>
        do n2 <- get_node h;
        do p <- parent_of n2;
        match p with
        | Some pi => do np <- path_id T pi; fix_identifiables m pp np
        | None => wret tt
        end
      | None => wret tt
      end);;
     (if isr then
        match v with
        | DString refval =>
          match old_refval with
          | Some o => fix_reference_origins m o refval h
          | None => add_reference_origin m refval h
          end
        | _ => wret tt
        end
      else wret tt)
   end)%W.

(* Ops.v's function is the instance with Ops.v's conversion *)
Lemma set_cdata_G_ops h v0 :
  e_set_character_dataG (cdata_to_string tab_en) h v0 = e_set_character_data T tab_en check_fn LATEST h v0.
Proof. reflexivity. Qed.

Variable float_fmt : N -> list N.                    (* ORACLE: f64::to_string, any function *)

Definition cdata_to_stringF (v : cdata) : res (list N) :=
  match v with DFloat b => Val (float_fmt b) | _ => cdata_to_string tab_en v end.

Definition e_set_character_dataF := e_set_character_dataG cdata_to_stringF.

Definition run_opF (o : op) : W value :=
  match o with
  | OpSetCData h v => wunit (e_set_character_dataF h v)
  | _ => run_op T tab_el tab_en check_fn LATEST root_attrs o
  end.

End Float.
