(* Tree/CompatHistReal.v — on the regenerated real tables: every version mask lies within u32 (MaskOK RT, [F]); hence for EVERY
   history of the operation alphabet `op` from the empty world whose moves / copies satisfy op_ok, the compatibility check is exact —
   no hypothesis about the world is left. *)
From AV Require Import Base.Bytes Base.Outcome Hash.HashModel Spec.SpecOps Spec.SpecProofs Spec.SpecReal Tree.Heap Tree.Ops Tree.Script Tree.Inv
  Tree.Compat Tree.CompatSpec Tree.CompatTyped Tree.CompatProofs5 Tree.CompatReal Tree.SpecWFReal Tree.CompatHist1 Tree.CompatHist4 Tree.CompatHist5 Tree.CompatHist6 Tree.Script2.
From AV.Gen Require Import SpecTables.
Open Scope list_scope.
Open Scope N_scope.

Lemma mask_list_ok : forallb (fun m => N.land m U32MAX =? m) t_version_info = true.
Proof. vm_cast_no_check (@eq_refl bool true). Qed.
Lemma m_version_info_eq : m_version_info = build t_version_info.
Proof. vm_cast_no_check (@eq_refl _ m_version_info). Qed.
Theorem MaskOK_real : MaskOK RT.
Proof.
  intros i m H. cbn [T_version_info RT] in H. rewrite m_version_info_eq, get_build in H.
  apply nth_error_In in H. pose proof mask_list_ok as L. rewrite forallb_forall in L. apply N.eqb_eq. exact (L _ H).
Qed.

Section Real.
Variable tab_el tab_en : nametab.
Variable check_fn : N -> list N -> res bool.
Variable LATEST : N.
Variable root_attrs : list (N * cdata).

Theorem exact_histories_real (l : list op) (w : world) :
  run_ops RT tab_el tab_en check_fn LATEST root_attrs l empty_world = Val w ->
  ok_ops RT tab_el tab_en check_fn LATEST root_attrs l empty_world ->
  forall f v r, f_check RT w f v = Val r -> (fst r = [] <-> ValidIn RT w f v).
Proof.
  intros H Hok f v r Hc.
  destruct (typed_histories RT tab_el tab_en check_fn LATEST root_attrs l w Hok H) as (C & HT).
  exact (f_check_exact_u RT w f v PairOK_real MaskOK_real C HT r Hc).
Qed.

(* the same for one more step from any world that already satisfies the invariant *)
Theorem exact_step_real o w r0 w' :
  Core w -> TypedU RT w -> op_ok RT w o ->
  Inv.run RT tab_el tab_en check_fn LATEST root_attrs o w = Val (r0, w') ->
  forall f v r, f_check RT w' f v = Val r -> (fst r = [] <-> ValidIn RT w' f v).
Proof.
  intros C HT Hok H f v r Hc.
  destruct (typed_step RT tab_el tab_en check_fn LATEST root_attrs o w r0 w' C HT Hok H) as (C' & HT').
  exact (f_check_exact_u RT w' f v PairOK_real MaskOK_real C' HT' r Hc).
Qed.

End Real.

(* the extended alphabet (sort, sort of a model, set_version, check_version_compatibility, serialize; load and duplicate pending) *)
Section Real2.
Variable tab_el tab_at tab_en : nametab.
Variable check_fn : N -> list N -> res bool.
Variable float_parse : list N -> option N.
Variable float_fmt : N -> list N.
Variable LATEST name_index name_definition_ref attr_schema_location : N.
Variable root_attrs : list (N * cdata).

Theorem exact_histories2_real (l : list op2) (w : world) :
  run_ops2 RT tab_el tab_at tab_en check_fn float_parse float_fmt LATEST name_index name_definition_ref attr_schema_location root_attrs l empty_world = Val w ->
  ok_ops2 RT tab_el tab_at tab_en check_fn float_parse float_fmt LATEST name_index name_definition_ref attr_schema_location root_attrs l empty_world ->
  forall f v r, f_check RT w f v = Val r -> (fst r = [] <-> ValidIn RT w f v).
Proof.
  intros H Hok f v r Hc.
  destruct (typed_histories2 RT tab_el tab_at tab_en check_fn float_parse float_fmt LATEST name_index name_definition_ref
              attr_schema_location root_attrs l empty_world w InvProofs.empty_core (empty_typed RT) Hok H) as (C & HT).
  exact (f_check_exact_u RT w f v PairOK_real MaskOK_real C HT r Hc).
Qed.
End Real2.

(* ---- non-vacuity: a history on the real tables with a move whose side condition holds ---- *)
From AV Require Import Hash.HashRealElement Hash.HashRealEnum.
Definition ex_check (fn : N) (s : list N) : res bool := Val true.
Definition ex_hist : list op :=
  [ OpNewModel; OpCreateFile 0 [102] 1048576;
    OpCreateSub 0 5413;                     (* AR-PACKAGES        -> node 1 *)
    OpCreateNamed 1 5250 [112];             (* AR-PACKAGE "p"     -> node 2 (SHORT-NAME 3) *)
    OpCreateNamed 1 5250 [113];             (* AR-PACKAGE "q"     -> node 4 (SHORT-NAME 5) *)
    OpCreateSub 2 3929;                     (* ELEMENTS below p   -> node 6 *)
    OpMove 4 6 ].                           (* move it below q *)
Definition ex_final : res world := Eval vm_compute in run_ops RT tab_element tab_enum ex_check 1048576 [] ex_hist empty_world.

Example hist_real_example : exists w,
  run_ops RT tab_element tab_enum ex_check 1048576 [] ex_hist empty_world = Val w /\
  ok_ops RT tab_element tab_enum ex_check 1048576 [] ex_hist empty_world /\
  (exists n4 n6, w_nodes w 4 = Some n4 /\ w_nodes w 6 = Some n6 /\ In (CElem 6) (n_content n4) /\ n_parent n6 = PElem 4) /\
  forall f v r, f_check RT w f v = Val r -> (fst r = [] <-> ValidIn RT w f v).
Proof.
  destruct ex_final as [w| |] eqn:E; try (vm_compute in E; discriminate).
  exists w.
  assert (Hrun : run_ops RT tab_element tab_enum ex_check 1048576 [] ex_hist empty_world = Val w) by (rewrite <- E; vm_cast_no_check (@eq_refl _ ex_final)).
  assert (Hok : ok_ops RT tab_element tab_enum ex_check 1048576 [] ex_hist empty_world).
  { unfold ex_hist. cbn [ok_ops op_ok].
    repeat match goal with
    | |- True /\ _ => split; [exact I|]
    | |- match ?x with _ => _ end => let y := eval vm_compute in x in change x with y; cbv beta iota
    | |- True => exact I
    end.
    split; [|exact I].
    intros n cn Hn Hcn. vm_compute in Hn. injection Hn as <-. vm_compute in Hcn. injection Hcn as <-.
    exists U32MAX. eexists. eexists. split; [vm_compute; reflexivity|reflexivity]. }
  split; [exact Hrun|]. split; [exact Hok|]. split.
  - vm_compute in E. injection E as <-. eexists. eexists. split; [reflexivity|]. split; [reflexivity|]. split; [cbn; auto|reflexivity].
  - exact (exact_histories_real tab_element tab_enum ex_check 1048576 [] ex_hist w Hrun Hok).
Qed.
