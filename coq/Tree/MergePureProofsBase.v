(* Tree/MergePureProofsBase.v — C09, pure level, layer 0: file sets as strictly sorted lists, the positional keys of a
   content list, and what the result of the walk (LoadProofsWalk.walk_partition) says about one position. *)
From Coq Require Import Sorting.Sorted Permutation.
From AV Require Import Base.Bytes Base.Outcome Hash.HashModel Tree.Heap Tree.Ops Tree.Load Tree.MergeSpec Tree.MergePure
  Tree.LoadProofsWalk.
Open Scope string_scope.
Open Scope list_scope.
Open Scope N_scope.

(* ------------------------------------------------------------------ sets of file ids *)
Definition sset (l : list N) : Prop := StronglySorted N.lt l.

Lemma sset_nil : sset []. Proof. constructor. Qed.

Lemma sset_inv x l : sset (x :: l) -> sset l /\ Forall (N.lt x) l.
Proof. intros H. inversion H; subst. auto. Qed.

Lemma sset_ext a : forall b, sset a -> sset b -> (forall x, In x a <-> In x b) -> a = b.
Proof.
  induction a as [|x a IH]; intros b Ha Hb Hx.
  - destruct b as [|y b]; [reflexivity|]. exfalso. apply (Hx y). left. reflexivity.
  - destruct b as [|y b]; [exfalso; apply (Hx x); left; reflexivity|].
    apply sset_inv in Ha as [Ha Fa]. apply sset_inv in Hb as [Hb Fb].
    rewrite Forall_forall in Fa, Fb.
    assert (x = y).
    { destruct (proj1 (Hx x) (or_introl eq_refl)) as [E|Hin]; [auto|].
      destruct (proj2 (Hx y) (or_introl eq_refl)) as [E|Hin2]; [auto|].
      apply Fb in Hin. apply Fa in Hin2. lia. }
    subst y. f_equal. apply IH; auto. intros z. split; intros Hz.
    + destruct (proj1 (Hx z) (or_intror Hz)) as [E|H]; [|exact H]. subst z. apply Fa in Hz. lia.
    + destruct (proj2 (Hx z) (or_intror Hz)) as [E|H]; [|exact H]. subst z. apply Fb in Hz. lia.
Qed.

Lemma sset_filter p l : sset l -> sset (filter p l).
Proof.
  induction l as [|x l IH]; intros H; cbn [filter]; [constructor|].
  apply sset_inv in H as [H F]. destruct (p x); [|auto].
  constructor; [apply IH; exact H|]. apply Forall_forall. intros y Hy. rewrite Forall_forall in F.
  apply filter_In in Hy as [Hy _]. auto.
Qed.

Lemma set_mem_in x l : set_mem x l = true <-> In x l.
Proof.
  unfold set_mem. rewrite existsb_exists. split.
  - intros (y & Hy & E). apply N.eqb_eq in E. subst. exact Hy.
  - intros H. exists x. split; [exact H|apply N.eqb_refl].
Qed.

Lemma set_add_in x y l : In y (set_add x l) <-> y = x \/ In y l.
Proof.
  induction l as [|z l IH]; cbn [set_add].
  - cbn. intuition.
  - destruct (x <? z) eqn:E1; [cbn; intuition|].
    destruct (x =? z) eqn:E2.
    + apply N.eqb_eq in E2. subst. cbn. intuition.
    + cbn [In]. rewrite IH. intuition.
Qed.

Lemma sset_set_add x l : sset l -> sset (set_add x l).
Proof.
  induction l as [|z l IH]; intros H; cbn [set_add].
  - constructor; constructor.
  - destruct (x <? z) eqn:E1.
    + apply N.ltb_lt in E1. constructor; [exact H|]. apply sset_inv in H as [_ F].
      constructor; [exact E1|]. apply Forall_forall. intros y Hy. rewrite Forall_forall in F. specialize (F y Hy). lia.
    + destruct (x =? z) eqn:E2; [exact H|].
      apply N.ltb_ge in E1. apply N.eqb_neq in E2.
      apply sset_inv in H as [H F]. constructor; [apply IH; exact H|].
      apply Forall_forall. intros y Hy. rewrite Forall_forall in F. apply set_add_in in Hy as [->|Hy]; [lia|auto].
Qed.

Lemma is_empty_nil {A} (l : list A) : is_empty l = true <-> l = [].
Proof. destruct l; cbn; split; congruence. Qed.
Lemma is_empty_false {A} (l : list A) : is_empty l = false <-> l <> [].
Proof. destruct l; cbn; split; congruence. Qed.

(* the files of an element among the loaded ones *)
Definition inF (F : list N) (files : list N) : list N := filter (fun f => set_mem f F) files.

Lemma inF_in F files x : In x (inF F files) <-> In x files /\ In x F.
Proof. unfold inF. rewrite filter_In, set_mem_in. tauto. Qed.

Lemma inF_cons_in g F files : sset files -> In g files -> ~ In g F -> inF (g :: F) files = set_add g (inF F files).
Proof.
  intros Hs Hg Hn. apply sset_ext.
  - apply sset_filter. exact Hs.
  - apply sset_set_add, sset_filter. exact Hs.
  - intros x. rewrite set_add_in, !inF_in. cbn [In]. split.
    + intros [Hx [<-|HF]]; auto.
    + intros [->|[Hx HF]]; auto.
Qed.

Lemma inF_cons_notin g F files : ~ In g files -> inF (g :: F) files = inF F files.
Proof.
  intros Hn. unfold inF. apply filter_ext_in. intros x Hx. unfold set_mem. cbn [existsb].
  destruct (x =? g) eqn:E; [|reflexivity]. apply N.eqb_eq in E. subst. contradiction.
Qed.

(* local membership: empty when it equals what is inherited *)
Definition norm (inh : option (list N)) (S : list N) : list N :=
  match inh with Some p => if bytes_eqb p S then [] else S | None => S end.

(* ------------------------------------------------------------------ positional keys *)
(* the key of an element without its node id *)
Record core := mkCore { c_name : N; c_ident : bool; c_item : option (list N); c_defref : option (list N); c_idx : list N }.
Definition pk_of (i : id) (c : core) : pk := mkPk i (c_name c) (c_ident c) (c_item c) (c_defref c) (c_idx c).
Definition core_of (p : pk) : core := mkCore (pk_name p) (pk_ident p) (pk_item p) (pk_defref p) (pk_idx p).

Definition cmatch (k x : core) : bool := pmatch (pk_of 0 k) (pk_of 0 x).
Lemma pmatch_core i j k x : pmatch (pk_of i k) (pk_of j x) = cmatch k x.
Proof. reflexivity. Qed.

(* keys with ids from..from+n-1 *)
Fixpoint pks_from (from : N) (l : list core) : list pk :=
  match l with [] => [] | c :: r => pk_of from c :: pks_from (from + 1) r end.

Lemma pks_from_ids l : forall from, map pk_id (pks_from from l) = n_range (List.length l) from.
Proof. induction l as [|c l IH]; intros from; cbn; [reflexivity|]. f_equal. apply IH. Qed.

Lemma n_range_lt k : forall from j, In j (n_range k from) -> from <= j < from + N.of_nat k.
Proof.
  induction k as [|k IH]; intros from j; cbn [n_range]; [intros []|].
  intros [<-|H]; [lia|]. apply IH in H. lia.
Qed.

Lemma n_range_nodup k : forall from, NoDup (n_range k from).
Proof.
  induction k as [|k IH]; intros from; cbn [n_range]; constructor; [|apply IH].
  intros H. apply n_range_lt in H. lia.
Qed.

Lemma pks_from_in from l p : In p (pks_from from l) -> exists k c, nth_error l k = Some c /\ p = pk_of (from + N.of_nat k) c.
Proof.
  revert from. induction l as [|c l IH]; intros from; cbn [pks_from]; [intros []|].
  intros [<-|H].
  - exists O, c. split; [reflexivity|]. f_equal. lia.
  - apply IH in H as (k & c' & Hk & ->). exists (S k), c'. split; [exact Hk|]. f_equal. lia.
Qed.

Lemma pks_from_nth from l k c : nth_error l k = Some c -> In (pk_of (from + N.of_nat k) c) (pks_from from l).
Proof.
  revert from k. induction l as [|c0 l IH]; intros from [|k]; cbn [nth_error pks_from]; try discriminate.
  - intros [= ->]. left. f_equal. lia.
  - intros H. right. replace (from + N.of_nat (S k)) with ((from + 1) + N.of_nat k) by lia. apply IH. exact H.
Qed.

(* uniqueness of the cores of a list *)
Inductive UniqC : list core -> Prop :=
| UniqC_nil : UniqC []
| UniqC_cons k l : (forall x, In x l -> cmatch k x = false) -> UniqC l -> UniqC (k :: l).

Lemma uniq_pks from l : UniqC l -> Uniq (pks_from from l).
Proof.
  intros H. revert from. induction H as [|k l Hk Hu IH]; intros from; cbn [pks_from]; constructor.
  - intros x Hx. apply pks_from_in in Hx as (j & c & Hj & ->). rewrite pmatch_core. apply Hk. eapply nth_error_In; eauto.
  - apply IH.
Qed.

(* ------------------------------------------------------------------ reading the result of the walk at one position *)
Lemma lookup_merge_notin i l : ~ In i (map fst l) -> lookup_merge i l = None.
Proof.
  induction l as [|[a b] l IH]; cbn [lookup_merge map fst In]; [reflexivity|].
  intros H. destruct (a =? i) eqn:E; [apply N.eqb_eq in E; subst; exfalso; apply H; left; reflexivity|].
  apply IH. intros Hin. apply H. right. exact Hin.
Qed.

Lemma merges_of_fst la lb x : In x (map fst (merges_of la lb)) -> In x (map pk_id la).
Proof.
  unfold merges_of. induction la as [|a la IH]; cbn [flat_map map]; [intros []|].
  rewrite map_app, in_app_iff. intros [H|H].
  - destruct (partner_in lb a); cbn in H; [|destruct H]. destruct H as [<-|[]]. left. reflexivity.
  - right. apply IH. exact H.
Qed.

Lemma lookup_merges_of la lb a :
  NoDup (map pk_id la) -> In a la ->
  lookup_merge (pk_id a) (merges_of la lb) = option_map pk_id (partner_in lb a).
Proof.
  induction la as [|a0 la IH]; intros Hn Ha; [destruct Ha|].
  cbn [map] in Hn. inversion Hn as [|? ? Hnot Hn']; subst.
  unfold merges_of. cbn [flat_map]. fold (merges_of la lb).
  destruct Ha as [<-|Ha].
  - destruct (partner_in lb a0) as [b|]; cbn [app lookup_merge option_map].
    + rewrite N.eqb_refl. reflexivity.
    + apply lookup_merge_notin. intros H. apply merges_of_fst in H. contradiction.
  - assert (Hne : pk_id a0 <> pk_id a) by (intros E; apply Hnot; rewrite E; apply in_map; exact Ha).
    destruct (partner_in lb a0) as [b|]; cbn [app lookup_merge].
    + apply N.eqb_neq in Hne. rewrite Hne. apply IH; auto.
    + apply IH; auto.
Qed.

Lemma a_only_of_mem la lb a :
  NoDup (map pk_id la) -> In a la ->
  existsb (N.eqb (pk_id a)) (a_only_of la lb) = negb (has_partner lb a).
Proof.
  induction la as [|a0 la IH]; intros Hn Ha; [destruct Ha|].
  cbn [map] in Hn. inversion Hn as [|? ? Hnot Hn']; subst.
  unfold a_only_of. cbn [filter]. fold (a_only_of la lb).
  destruct Ha as [<-|Ha].
  - destruct (has_partner lb a0); cbn [negb map existsb].
    + apply not_true_is_false. intros H. apply existsb_exists in H as (x & Hx & E). apply N.eqb_eq in E. subst x.
      apply Hnot. unfold a_only_of in Hx. apply in_map_iff in Hx as (y & Ey & Hy). apply filter_In in Hy as [Hy _].
      rewrite <- Ey. apply in_map. exact Hy.
    + rewrite N.eqb_refl. reflexivity.
  - assert (Hne : pk_id a <> pk_id a0) by (intros E; apply Hnot; rewrite <- E; apply in_map; exact Ha).
    destruct (negb (has_partner lb a0)); cbn [map existsb].
    + apply N.eqb_neq in Hne. rewrite Hne. cbn [orb]. apply IH; auto.
    + apply IH; auto.
Qed.

(* ------------------------------------------------------------------ lists *)
Lemma Forall2_perm_l {A B} (R : A -> B -> Prop) l1 l1' :
  Permutation l1 l1' -> forall l2, Forall2 R l1 l2 -> exists l2', Permutation l2 l2' /\ Forall2 R l1' l2'.
Proof.
  induction 1 as [|x l l' Hp IH|x y l|l l' l'' Hp1 IH1 Hp2 IH2]; intros l2 HF.
  - inversion HF; subst. exists []. split; constructor.
  - inversion HF as [|? b ? l2r Hxb HFr]; subst. destruct (IH _ HFr) as (l2' & P & F).
    exists (b :: l2'). split; constructor; auto.
  - inversion HF as [|? b1 ? l2r H1 HFr]; subst. inversion HFr as [|? b2 ? l2rr H2 HFrr]; subst.
    exists (b2 :: b1 :: l2rr). split; [apply perm_swap|]. constructor; [exact H2|]. constructor; [exact H1|exact HFrr].
  - destruct (IH1 _ HF) as (m & P1 & F1). destruct (IH2 _ F1) as (m' & P2 & F2).
    exists m'. split; [eapply perm_trans; eauto|exact F2].
Qed.

Lemma Forall2_flip {A B} (R : A -> B -> Prop) l1 l2 : Forall2 R l1 l2 -> Forall2 (fun b a => R a b) l2 l1.
Proof. induction 1; constructor; auto. Qed.

Lemma Forall2_perm_r {A B} (R : A -> B -> Prop) l2 l2' :
  Permutation l2 l2' -> forall l1, Forall2 R l1 l2 -> exists l1', Permutation l1 l1' /\ Forall2 R l1' l2'.
Proof.
  intros Hp l1 HF. apply Forall2_flip in HF.
  destruct (Forall2_perm_l _ _ _ Hp _ HF) as (l1' & P & F). exists l1'. split; [exact P|].
  apply Forall2_flip in F. exact F.
Qed.

Lemma Forall2_insert_at {A B} (R : A -> B -> Prop) l1 l2 k x y :
  Forall2 R l1 l2 -> R x y -> Forall2 R (insert_at l1 k x) (insert_at l2 k y).
Proof.
  intros HF Hxy. revert k. induction HF as [|a b l1 l2 Hab HF IH]; intros k.
  - destruct k; cbn; constructor; auto.
  - destruct k; cbn [insert_at]; constructor; auto.
Qed.

Lemma insert_at_perm {A} (l : list A) k x : Permutation (insert_at l k x) (x :: l).
Proof.
  revert k. induction l as [|y l IH]; intros k.
  - destruct k; cbn; apply Permutation_refl.
  - destruct k; cbn [insert_at]; [apply Permutation_refl|].
    eapply perm_trans; [apply perm_skip; apply IH|apply perm_swap].
Qed.

Lemma insert_at_length {A} (l : list A) k x : List.length (insert_at l k x) = S (List.length l).
Proof.
  revert k. induction l as [|y l IH]; intros k; destruct k; cbn [insert_at List.length]; auto.
Qed.

Lemma insert_at_map {A B} (f : A -> B) l k x : map f (insert_at l k x) = insert_at (map f l) k (f x).
Proof. revert k. induction l as [|y l IH]; intros k; destruct k; cbn [insert_at map]; auto. f_equal. apply IH. Qed.

Lemma Forall2_length {A B} (R : A -> B -> Prop) l1 l2 : Forall2 R l1 l2 -> List.length l1 = List.length l2.
Proof. induction 1; cbn; auto. Qed.

Lemma Forall2_nth {A B} (R : A -> B -> Prop) l1 l2 k a :
  Forall2 R l1 l2 -> nth_error l1 k = Some a -> exists b, nth_error l2 k = Some b /\ R a b.
Proof.
  intros HF. revert k. induction HF as [|x y l1 l2 Hxy HF IH]; intros [|k]; cbn [nth_error]; try discriminate.
  - intros [= <-]. eauto.
  - apply IH.
Qed.
