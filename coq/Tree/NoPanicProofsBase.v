(* Tree/NoPanicProofsBase.v — C12 (panic / loop half), layer 0:
   the progress calculus (`runs m w`: m returns a value from w, neither Pan nor Fuel), totality of the specification
   lookups on checked tables, and the read-only functions of Ops.v (navigation, paths, insertion range) on a world
   that is Closed and has finite parent chains. *)
From Coq Require Import Lia.
From AV Require Import Base.Bytes Base.Outcome Hash.HashModel Spec.SpecOps Xml.TablesOk Tree.Heap Tree.Ops Tree.Script Tree.Inv.
From AV Require Import Tree.InvProofsCore Tree.InvProofsTree Tree.NoPanic.
Open Scope string_scope.
Open Scope list_scope.
Open Scope N_scope.

(* ------------------------------------------------------------------ progress calculus *)
Lemma runs_bind {A B} (m : W A) (k : A -> W B) w r w1 :
  m w = Val (r, w1) -> (forall a, r = OK a -> runs (k a) w1) -> runs (wbind m k) w.
Proof.
  intros E H. unfold runs, wbind. rewrite E. destruct r as [a|e].
  - apply (H a eq_refl).
  - eauto.
Qed.
Lemma runs_then {A B} (m : W A) (k : A -> W B) w :
  runs m w -> (forall a w1, runs (k a) w1) -> runs (wbind m k) w.
Proof. intros (r & w1 & E) H. eapply runs_bind; [exact E|]. intros a _. apply H. Qed.
Lemma runs_ret {A} (a : A) w : runs (wret a) w. Proof. unfold runs, wret. eauto. Qed.
Lemma runs_fail {A} e w : runs (@wfail A e) w. Proof. unfold runs, wfail. eauto. Qed.
Lemma runs_val {A} (m : W A) w r w1 : m w = Val (r, w1) -> runs m w. Proof. unfold runs. eauto. Qed.
Lemma runs_try {A} (m : W A) w : runs m w -> runs (wtry m) w.
Proof. intros (r & w1 & E). unfold runs, wtry. rewrite E. destruct r; eauto. Qed.
Lemma wtry_val {A} (m : W A) w r w1 : m w = Val (r, w1) ->
  wtry m w = Val (OK (match r with OK a => Some a | ER _ => None end), w1).
Proof. intros E. unfold wtry. rewrite E. destruct r; reflexivity. Qed.
Lemma wl_val {A} (x : res A) a w : x = Val a -> wl x w = Val (OK a, w).
Proof. intros ->. reflexivity. Qed.
Lemma wget_val w : wget w = Val (OK w, w). Proof. reflexivity. Qed.
Lemma set_node_val i n w : set_node i n w = Val (OK tt, mkWorld (upd (w_nodes w) i n) (w_next w) (w_files w) (w_models w)).
Proof. reflexivity. Qed.
Lemma runs_welem (m : W id) w : runs m w -> runs (welem m) w.
Proof. intros (r & w1 & E). unfold welem. eapply runs_bind; [exact E|]. intros a _. apply runs_ret. Qed.
Lemma runs_wunit (m : W unit) w : runs m w -> runs (wunit m) w.
Proof. intros (r & w1 & E). unfold wunit. eapply runs_bind; [exact E|]. intros a _. apply runs_ret. Qed.

(* a computation that succeeds or fails without changing the world *)
Definition rd {A} (m : W A) (w : world) (P : A -> Prop) : Prop :=
  exists r, m w = Val (r, w) /\ forall a, r = OK a -> P a.
Lemma rd_bind_runs {A B} (m : W A) (k : A -> W B) w P :
  rd m w P -> (forall a, P a -> runs (k a) w) -> runs (wbind m k) w.
Proof. intros (r & E & F) H. eapply runs_bind; [exact E|]. intros a ->. apply H. apply F. reflexivity. Qed.
Lemma rd_bind {A B} (m : W A) (k : A -> W B) w P Q :
  rd m w P -> (forall a, P a -> rd (k a) w Q) -> rd (wbind m k) w Q.
Proof.
  intros (r & E & F) H. unfold rd, wbind. rewrite E. destruct r as [a|e].
  - apply H. apply F. reflexivity.
  - exists (ER e). split; [reflexivity|]. intros a0 [=].
Qed.
Lemma rd_ret {A} (a : A) w (P : A -> Prop) : P a -> rd (wret a) w P.
Proof. intros H. exists (OK a). split; [reflexivity|]. intros a0 [= <-]. exact H. Qed.
Lemma rd_fail {A} e w (P : A -> Prop) : rd (@wfail A e) w P.
Proof. exists (ER e). split; [reflexivity|]. intros a0 [=]. Qed.
Lemma rd_wl {A} (x : res A) a w (P : A -> Prop) : x = Val a -> P a -> rd (wl x) w P.
Proof. intros -> H. exists (OK a). split; [reflexivity|]. intros a0 [= <-]. exact H. Qed.
Lemma rd_weaken {A} (m : W A) w (P Q : A -> Prop) : rd m w P -> (forall a, P a -> Q a) -> rd m w Q.
Proof. intros (r & E & F) H. exists r. split; [exact E|]. intros a Ha. apply H. apply F. exact Ha. Qed.
Lemma rd_runs {A} (m : W A) w P : rd m w P -> runs m w.
Proof. intros (r & E & _). eapply runs_val. exact E. Qed.
Lemma rd_try {A} (m : W A) w P : rd m w P ->
  rd (wtry m) w (fun o => match o with Some a => P a | None => True end).
Proof.
  intros (r & E & F). exists (OK (match r with OK a => Some a | ER _ => None end)).
  split; [apply wtry_val; exact E|]. intros o [= <-]. destruct r; [apply F; reflexivity|exact I].
Qed.

(* progress with a postcondition on result and final world *)
Definition runsQ {A} (m : W A) (w : world) (Q : out A -> world -> Prop) : Prop :=
  exists r w', m w = Val (r, w') /\ Q r w'.
Lemma runsQ_runs {A} (m : W A) w Q : runsQ m w Q -> runs m w.
Proof. intros (r & w' & E & _). eapply runs_val; eauto. Qed.
Lemma runsQ_bind_runs {A B} (m : W A) (k : A -> W B) w Q :
  runsQ m w Q -> (forall a w1, Q (OK a) w1 -> runs (k a) w1) -> runs (wbind m k) w.
Proof. intros (r & w1 & E & HQ) H. eapply runs_bind; [exact E|]. intros a ->. eapply H; eauto. Qed.
Lemma runsQ_bind {A B} (m : W A) (k : A -> W B) w Q (R : out B -> world -> Prop) :
  runsQ m w Q -> (forall a w1, Q (OK a) w1 -> runsQ (k a) w1 R) -> (forall e w1, Q (ER e) w1 -> R (ER e) w1) ->
  runsQ (wbind m k) w R.
Proof.
  intros (r & w1 & E & HQ) H HE. unfold runsQ, wbind. rewrite E. destruct r as [a|e].
  - apply (H a w1 HQ).
  - exists (ER e), w1. split; [reflexivity|]. apply HE. exact HQ.
Qed.
Lemma runsQ_weaken {A} (m : W A) w (Q R : out A -> world -> Prop) :
  runsQ m w Q -> (forall r w1, Q r w1 -> R r w1) -> runsQ m w R.
Proof. intros (r & w1 & E & HQ) H. exists r, w1. split; [exact E|]. apply H. exact HQ. Qed.
Lemma runsQ_val {A} (m : W A) w r w1 (Q : out A -> world -> Prop) : m w = Val (r, w1) -> Q r w1 -> runsQ m w Q.
Proof. intros E H. exists r, w1. auto. Qed.
Lemma rd_runsQ {A} (m : W A) w P : rd m w P -> runsQ m w (fun r w1 => w1 = w /\ forall a, r = OK a -> P a).
Proof. intros (r & E & F). exists r, w. auto. Qed.
Lemma runsQ_try {A} (m : W A) w Q :
  runsQ m w Q -> runsQ (wtry m) w (fun r w1 => exists r0, Q r0 w1 /\ r = OK (match r0 with OK a => Some a | ER _ => None end)).
Proof. intros (r & w1 & E & HQ). exists (OK (match r with OK a => Some a | ER _ => None end)), w1. split; [apply wtry_val; exact E|eauto]. Qed.

(* ------------------------------------------------------------------ tables *)
Section Spec12.
Variable T : tables.
Hypothesis OK12 : tables_ok12 T = true.

Lemma ok12_tables : tables_ok T = true.
Proof. unfold tables_ok12 in OK12. rewrite !andb_true_iff in OK12. tauto. Qed.
Notation TOK := ok12_tables (only parsing).

Lemma ok12_modes ty : ty < n_datatypes T -> grp_modes_ok T FUEL ty = true.
Proof.
  intros L. unfold tables_ok12 in OK12. rewrite !andb_true_iff in OK12. destruct OK12 as [[_ M] _].
  unfold modes_ok in M. rewrite forallb_forall in M. exact (M ty (proj2 (iota_spec _ _) L)).
Qed.

Lemma grp_modes_S f ty : grp_modes_ok T (S f) ty = true ->
  exists d, T_datatypes T ty = Some d /\ dt_mode d <= 4 /\
    forall pos kind idx, pos < dt_sub_end d - dt_sub_start d -> T_subelements T (dt_sub_start d + pos) = Some (kind, idx) ->
      kind <> 0 -> grp_modes_ok T f idx = true.
Proof.
  cbn [grp_modes_ok]. destruct (T_datatypes T ty) as [d|]; [|discriminate]. rewrite andb_true_iff. intros [M F].
  exists d. split; [reflexivity|]. split; [apply N.leb_le; exact M|].
  intros pos kind idx Hp ES K. rewrite forallb_forall in F. specialize (F pos (proj2 (iota_spec _ _) Hp)).
  rewrite ES in F. destruct (kind =? 0) eqn:KK; [apply N.eqb_eq in KK; congruence|exact F].
Qed.

(* the mode of the common group of two index paths is one of the five modes *)
Lemma common_group_mode : forall f a b res g d,
  grp_modes_ok T f res = true -> path_ok T res a -> path_ok T res b ->
  common_group T res a b = Val g -> T_datatypes T g = Some d -> dt_mode d <= 4.
Proof.
  induction f as [|f IH]; intros a b res g d GM Pa Pb E ED; [discriminate|].
  destruct (grp_modes_S _ _ GM) as (d0 & ED0 & M0 & SUB).
  destruct a as [|x a']; [destruct Pa|]. destruct b as [|y b']; [destruct Pb|].
  cbn [common_group] in E.
  destruct (x =? y) eqn:XY; [|injection E as <-; rewrite ED0 in ED; injection ED as <-; exact M0].
  apply N.eqb_eq in XY. subst y. cbn [path_ok] in Pa, Pb.
  destruct Pa as (d1 & kind & idx & m & ED1 & SL & LT & _ & ES & EV & RA).
  destruct Pb as (d2 & kind2 & idx2 & m2 & ED2 & _ & _ & _ & ES2 & _ & RB).
  rewrite ED0 in ED1, ED2. injection ED1 as <-. injection ED2 as <-. rewrite ES in ES2. injection ES2 as <- <-.
  rewrite (sub_slice_ok T res d0 ED0 SL) in E. cbn [bind] in E.
  destruct (dt_sub_end d0 - dt_sub_start d0 <=? x) eqn:C; [apply N.leb_le in C; lia|].
  unfold subel in E. rewrite ES in E. cbn [unwrap bind] in E.
  destruct (kind =? 0) eqn:K; [injection E as <-; rewrite ED0 in ED; injection ED as <-; exact M0|].
  apply N.eqb_neq in K.
  destruct a' as [|x' a'']; [destruct RA as [-> _]; congruence|]. destruct RA as [_ PA'].
  destruct b' as [|y' b'']; [destruct RB as [-> _]; congruence|]. destruct RB as [_ PB'].
  change (1 =? 0) with false in E. cbv iota in E.
  eapply (IH (x' :: a'') (y' :: b'') idx g d); [eapply SUB; eauto | exact PA' | exact PB' | exact E | exact ED].
Qed.

Lemma ok12_refs ty : ty < n_datatypes T -> exists l, ref_slice T ty = Val l.
Proof.
  intros L. unfold tables_ok12 in OK12. rewrite !andb_true_iff in OK12. destruct OK12 as [_ R].
  unfold refs_ok in R. rewrite forallb_forall in R. specialize (R ty (proj2 (iota_spec _ _) L)).
  unfold ref_slice, dt. destruct (T_datatypes T ty) as [d|]; [|discriminate]. cbn [unwrap bind].
  apply andb_true_iff in R as [S E]. rewrite (slice_chk_ok _ _ _ _ S). cbn [bind].
  rewrite forallb_forall in E.
  set (start := dt_ref_start d) in *.
  assert (LOOP : forall k pos, pos + N.of_nat k = dt_ref_end d - start ->
    exists l, (fix loop (k : nat) (pos : N) {struct k} : res (list N) :=
                 match k with
                 | O => Val []
                 | S k' => bind (unwrap "REF_ITEMS[i]" (T_ref_items T (start + pos)))
                                (fun x => bind (loop k' (pos + 1)) (fun rest => Val (x :: rest)))
                 end) k pos = Val l).
  { induction k as [|k IH]; intros pos Hp; [eauto|].
    assert (Hlt : pos < dt_ref_end d - start) by lia.
    specialize (E pos (proj2 (iota_spec _ _) Hlt)).
    destruct (T_ref_items T (start + pos)) as [x|]; [|discriminate]. cbn [unwrap bind].
    destruct (IH (pos + 1) ltac:(lia)) as (l & ->). cbn [bind]. eauto. }
  apply LOOP. lia.
Qed.

Lemma et_dt t : etype_ok T t -> exists d, dt T (snd t) = Val d /\ T_datatypes T (snd t) = Some d.
Proof. intros H. destruct (etype_dt T TOK t H) as (d & E). exists d. unfold dt. rewrite E. auto. Qed.

Lemma content_mode_ok t : etype_ok T t -> exists m, content_mode T t = Val m.
Proof. intros H. destruct (et_dt t H) as (d & E & _). unfold content_mode. rewrite E. cbn. eauto. Qed.

Lemma is_named_ok t : etype_ok T t -> exists b, is_named T t = Val b.
Proof.
  intros (_ & L & _). destruct (short_name_version_mask_ok T TOK _ L) as (r & E).
  unfold is_named. rewrite E. cbn. eauto.
Qed.

Lemma splittable_ok t : etype_ok T t -> exists s, splittable T t = Val s.
Proof. intros (_ & _ & e & E & _). unfold splittable, elem. rewrite E. cbn. eauto. Qed.

Lemma reference_dest_value_ok t other : etype_ok T t -> etype_ok T other -> exists r, reference_dest_value T t other = Val r.
Proof.
  intros Ht Ho. unfold reference_dest_value.
  destruct (is_ref_ok T TOK t Ht) as (b & ->). cbn [bind]. destruct b; cbn [negb]; [|eauto].
  destruct (is_named_ok other Ho) as (b & ->). cbn [bind]. destruct b; cbn [negb]; [|eauto].
  destruct (find_attribute_spec_ok T TOK t (attr_dest T) Ht) as (r & -> & _). cbn [bind].
  destruct r as [[[[c spec] req] ver]|]; [|eauto].
  destruct spec; eauto.
  destruct Ho as (_ & L & _). destruct (ok12_refs _ L) as (l & ->). cbn [bind]. eauto.
Qed.

(* the insertion-range loop needs the mode of a common group to be one of the four container modes *)
Lemma group_mode_cases t a b g d : etype_ok T t -> path_ok T (snd t) a -> path_ok T (snd t) b ->
  find_common_group T t a b = Val g -> dt T g = Val d -> (dt_mode d =? MCharacters) = false ->
  dt_mode d = MSequence \/ dt_mode d = MChoice \/ dt_mode d = MBag \/ dt_mode d = MMixed.
Proof.
  intros (_ & L & _) Pa Pb E ED NC.
  assert (EDT : T_datatypes T g = Some d).
  { unfold dt in ED. destruct (T_datatypes T g); [injection ED as ->; reflexivity|discriminate]. }
  pose proof (common_group_mode FUEL a b (snd t) g d (ok12_modes _ L) Pa Pb E EDT) as LE.
  apply N.eqb_neq in NC. unfold MSequence, MChoice, MBag, MMixed, MCharacters in *. lia.
Qed.

End Spec12.

(* ------------------------------------------------------------------ finite parent chains *)
Section Chains.
Variable T : tables.
Variable tab_el tab_en : nametab.
Notation Closed := (Closed T tab_el tab_en).

(* ---- finite parent chains are shorter than the fuel *)
Lemma depth_lt_fuel w i h : Closed w -> Depth w i h -> (S h < fuel_of w)%nat.
Proof.
  intros C D. destruct (depth_chain w i h) as (l & Hlen & Hnd & Hl); auto.
  - intros x (n & E). apply (cl_alloc _ _ _ _ C). congruence.
  - assert (B : (List.length l <= N.to_nat (w_next w))%nat).
    { apply nodup_bounded; auto. intros y Hy. apply Hl. exact Hy. }
    unfold fuel_of. lia.
Qed.

Lemma depth_parent w i n p h : w_nodes w i = Some n -> n_parent n = PElem p -> Depth w i h ->
  exists h', h = S h' /\ Depth w p h'.
Proof. intros E EP D. eapply par_depth; eauto. exists n. auto. Qed.

Lemma depth_top w i n h : w_nodes w i = Some n -> (forall p, n_parent n <> PElem p) -> Depth w i h -> h = O.
Proof.
  intros E NP D. inversion D; subst; auto. exfalso. match goal with H : w_nodes w i = Some ?n0 |- _ => rewrite E in H; injection H as <- end.
  eapply NP; eauto.
Qed.

End Chains.

(* ------------------------------------------------------------------ the world *)
Section NP.
Variable T : tables.
Variable tab_el tab_en : nametab.
Variable check_fn : N -> list N -> res bool.
Variable LATEST : N.
Variable root_attrs : list (N * cdata).
Hypothesis OK12 : tables_ok12 T = true.
Hypothesis CHECK : forall fn s, exists b, check_fn fn s = Val b.
(* every lemma of this section is generalised over the same eight things, in this order (later files apply them
   through the notation `ENV lemma`) *)
Collection Env := T tab_el tab_en check_fn LATEST root_attrs OK12 CHECK.
Set Default Proof Using "Env".

Notation TOK := (ok12_tables T OK12) (only parsing).
Notation node_ok := (node_ok T tab_el tab_en).
Notation Closed := (Closed T tab_el tab_en).
Notation cdata_ok := (cdata_ok tab_en).

Lemma check_value_ok v spec version : exists b, check_value check_fn v spec version = Val b.
Proof.
  unfold check_value. destruct spec, v; eauto.
  destruct (opt_le maxlen (List.length s)); eauto.
Qed.

Lemma cdata_to_string_ok v : cdata_ok v -> (forall b, v <> DFloat b) -> exists s, cdata_to_string tab_en v = Val s.
Proof.
  intros H NF. destruct v; cbn [cdata_to_string]; eauto.
  - cbn in H. destruct (to_str tab_en item); [cbn; eauto|congruence].
  - exfalso. eapply NF. reflexivity.
Qed.

(* ---- allocation / lookups *)
Lemma get_node_ok w i : Closed w -> i < w_next w ->
  exists n, get_node i w = Val (OK n, w) /\ w_nodes w i = Some n /\ node_ok w n.
Proof.
  intros C L. destruct (w_nodes w i) as [n|] eqn:E.
  - exists n. unfold get_node. rewrite E. split; [reflexivity|]. split; [reflexivity|]. eapply cl_node; eauto.
  - exfalso. apply (proj2 (cl_alloc _ _ _ _ C i) L). exact E.
Qed.

Lemma rd_get_node w i (P : node -> Prop) : Closed w -> i < w_next w ->
  (forall n, w_nodes w i = Some n -> node_ok w n -> P n) -> rd (get_node i) w P.
Proof.
  intros C L H. destruct (get_node_ok w i C L) as (n & E & EN & NO).
  exists (OK n). split; [exact E|]. intros a [= <-]. auto.
Qed.

Lemma get_model_ok w m : Closed w -> m < N.of_nat (List.length (w_models w)) ->
  exists x, get_model m w = Val (OK x, w) /\ nth_opt (w_models w) (N.to_nat m) = Some x /\ model_ok w x.
Proof.
  intros C L. destruct (nth_opt_lt (w_models w) (N.to_nat m) ltac:(lia)) as (x & E).
  exists x. unfold get_model. rewrite E. split; [reflexivity|]. split; [reflexivity|].
  eapply cl_model; eauto. eapply nth_opt_In. exact E.
Qed.

Lemma get_file_ok w f : f < N.of_nat (List.length (w_files w)) ->
  exists x, get_file f w = Val (OK x, w).
Proof.
  intros L. destruct (nth_opt_lt (w_files w) (N.to_nat f) ltac:(lia)) as (x & E).
  exists x. unfold get_file. rewrite E. reflexivity.
Qed.

(* ---- reading a node *)
Lemma character_data_ok w n : node_ok w n -> exists r, character_data T n = Val r.
Proof.
  intros (ET & _). unfold character_data. destruct (n_content n) as [|[c|d] [|? ?]]; eauto.
  destruct (content_mode_ok T OK12 _ ET) as (m & ->). cbn. eauto.
Qed.

Lemma item_name_ok w n : Closed w -> node_ok w n -> exists r, item_name T n w = Val (OK r, w).
Proof.
  intros C NO. pose proof NO as (ET & _ & KIDS & _). unfold item_name.
  destruct (is_named_ok T OK12 _ ET) as (b & EB).
  unfold wbind at 1. rewrite (wl_val _ _ _ EB). destruct b; cbn [negb]; [|eexists; reflexivity].
  destruct (n_content n) as [|[s|d] rest] eqn:EC; try (eexists; reflexivity).
  destruct (get_node_ok w s C (KIDS s (or_introl eq_refl))) as (sn & E & _ & SNO).
  unfold wbind at 1. rewrite E. destruct (n_name sn =? SHORT T); [|eexists; reflexivity].
  destruct (character_data_ok w sn SNO) as (cd & ECD).
  unfold wbind. rewrite (wl_val _ _ _ ECD). eexists; reflexivity.
Qed.

Lemma rd_item_name w n (P : option (list N) -> Prop) : Closed w -> node_ok w n -> (forall r, P r) -> rd (item_name T n) w P.
Proof. intros C NO H. destruct (item_name_ok w n C NO) as (r & E). exists (OK r). split; [exact E|]. intros; apply H. Qed.

Lemma is_identifiable_ok w n : Closed w -> node_ok w n -> exists r, is_identifiable T n w = Val (OK r, w).
Proof.
  intros C NO. pose proof NO as (ET & _ & KIDS & _). unfold is_identifiable.
  destruct (is_named_ok T OK12 _ ET) as (b & EB).
  unfold wbind at 1. rewrite (wl_val _ _ _ EB). destruct b; cbn [negb]; [|eexists; reflexivity].
  destruct (n_content n) as [|[s|d] rest] eqn:EC; try (eexists; reflexivity).
  destruct (get_node_ok w s C (KIDS s (or_introl eq_refl))) as (sn & E & _ & SNO).
  unfold wbind. rewrite E. eexists; reflexivity.
Qed.

Lemma parent_of_val n w : exists r, parent_of n w = Val (r, w).
Proof. unfold parent_of. destruct (n_parent n); eexists; reflexivity. Qed.

(* Element::model *)
Lemma model_walk_ok w : Closed w -> forall i h, Depth w i h -> forall f, (h < f)%nat ->
  rd (model_walk f i) w (fun m => m < N.of_nat (List.length (w_models w))).
Proof.
  intros C i h D. induction D as [x n Hn Ht | x n p h Hn Hp Dp IH]; intros f Hf; (destruct f as [|f]; [lia|]); cbn [model_walk].
  - assert (L : x < w_next w) by (apply (cl_alloc _ _ _ _ C); congruence).
    eapply rd_bind; [apply (rd_get_node w x (fun a => a = n) C L); intros n0 E _; congruence|].
    intros a ->. pose proof (cl_node _ _ _ _ C _ _ Hn) as (_ & _ & _ & _ & PO).
    destruct (n_parent n) as [|m|p] eqn:EP.
    + apply rd_fail.
    + apply rd_ret. exact PO.
    + exfalso. eapply Ht. reflexivity.
  - assert (L : x < w_next w) by (apply (cl_alloc _ _ _ _ C); congruence).
    eapply rd_bind; [apply (rd_get_node w x (fun a => a = n) C L); intros n0 E _; congruence|].
    intros a ->. rewrite Hp. apply IH. lia.
Qed.

Lemma model_of_ok w i : Closed w -> UpWF w -> i < w_next w ->
  rd (model_of i) w (fun m => m < N.of_nat (List.length (w_models w))).
Proof.
  intros C U L. destruct (U i L) as (h & D). unfold model_of.
  eapply rd_bind; [exists (OK w); split; [reflexivity|]; intros a [= <-]; exact (eq_refl w)|].
  intros a <-. eapply model_walk_ok; eauto. pose proof (depth_lt_fuel T tab_el tab_en w i h C D). lia.
Qed.

(* Element::file_membership *)
Lemma fm_walk_ok w self : Closed w -> forall i h, Depth w i h -> forall f, (h < f)%nat ->
  rd (fm_walk f self i) w (fun _ => True).
Proof.
  intros C i h D. induction D as [x n Hn Ht | x n p h Hn Hp Dp IH]; intros f Hf; (destruct f as [|f]; [lia|]); cbn [fm_walk].
  - assert (L : x < w_next w) by (apply (cl_alloc _ _ _ _ C); congruence).
    eapply rd_bind; [apply (rd_get_node w x (fun a => a = n) C L); intros n0 E _; congruence|].
    intros a ->. destruct (negb (is_empty (n_files n))); [apply rd_ret; exact I|].
    unfold parent_of. destruct (n_parent n) as [|m|p] eqn:EP.
    + eapply (rd_bind _ _ _ (fun _ => False)); [apply rd_fail|]. intros a [].
    + eapply (rd_bind _ _ _ (fun a => a = None)); [apply rd_ret; reflexivity|]. intros a ->. apply rd_fail.
    + exfalso. eapply Ht. reflexivity.
  - assert (L : x < w_next w) by (apply (cl_alloc _ _ _ _ C); congruence).
    eapply rd_bind; [apply (rd_get_node w x (fun a => a = n) C L); intros n0 E _; congruence|].
    intros a ->. destruct (negb (is_empty (n_files n))); [apply rd_ret; exact I|].
    unfold parent_of. rewrite Hp.
    eapply rd_bind; [apply (rd_ret (Some p) w (fun a => a = Some p)); reflexivity|].
    intros a ->. apply IH. lia.
Qed.

Lemma file_membership_ok w i : Closed w -> UpWF w -> i < w_next w -> rd (file_membership i) w (fun _ => True).
Proof.
  intros C U L. destruct (U i L) as (h & D). unfold file_membership.
  eapply rd_bind; [exists (OK w); split; [reflexivity|]; intros a [= <-]; exact (eq_refl w)|].
  intros a <-. eapply fm_walk_ok; eauto. pose proof (depth_lt_fuel T tab_el tab_en w i h C D). lia.
Qed.

Lemma min_version_ok w i : Closed w -> UpWF w -> i < w_next w -> rd (min_version LATEST i) w (fun _ => True).
Proof.
  intros C U L. unfold min_version.
  eapply rd_bind; [apply file_membership_ok; auto|]. intros [lo files] _.
  eapply rd_bind; [exists (OK w); split; [reflexivity|]; intros a [= <-]; exact I|].
  intros a _. apply rd_ret. exact I.
Qed.

(* ---- paths *)
Definition ends_with (p own : list N) : Prop := exists pre, p = pre ++ own.

Lemma up_names_ok w : Closed w -> forall i h, Depth w i h -> forall f acc, (S h < f)%nat ->
  rd (up_names T f (PElem i) acc) w (fun l => exists pre, l = pre ++ acc).
Proof.
  intros C i h D. induction D as [x n Hn Ht | x n p h Hn Hp Dp IH]; intros f acc Hf; (destruct f as [|f]; [lia|]); cbn [up_names].
  - assert (L : x < w_next w) by (apply (cl_alloc _ _ _ _ C); congruence).
    eapply rd_bind; [apply (rd_get_node w x (fun a => a = n) C L); intros n0 E _; congruence|].
    intros a ->. pose proof (cl_node _ _ _ _ C _ _ Hn) as NO.
    eapply rd_bind; [apply (rd_item_name w n (fun _ => True) C NO); auto|]. intros nm _.
    destruct f as [|f]; [lia|]. cbn [up_names]. destruct (n_parent n) as [|m|p] eqn:EP.
    + apply rd_fail.
    + apply rd_ret. destruct nm as [x0|]; [exists [x0]|exists []]; reflexivity.
    + exfalso. eapply Ht. reflexivity.
  - assert (L : x < w_next w) by (apply (cl_alloc _ _ _ _ C); congruence).
    eapply rd_bind; [apply (rd_get_node w x (fun a => a = n) C L); intros n0 E _; congruence|].
    intros a ->. pose proof (cl_node _ _ _ _ C _ _ Hn) as NO.
    eapply rd_bind; [apply (rd_item_name w n (fun _ => True) C NO); auto|]. intros nm _.
    rewrite Hp. eapply rd_weaken; [apply IH; lia|].
    intros l (pre & ->). destruct nm as [x0|]; [exists (pre ++ [x0]); rewrite <- app_assoc|exists pre]; reflexivity.
Qed.

(* the upward walk from an arbitrary parent link *)
Lemma up_names_pref_ok w p acc : Closed w -> UpWF w ->
  match p with PElem i => i < w_next w | _ => True end ->
  rd (up_names T (fuel_of w) p acc) w (fun l => exists pre, l = pre ++ acc).
Proof.
  intros C U L. destruct p as [|m|i].
  - unfold fuel_of. cbn [up_names]. apply rd_fail.
  - unfold fuel_of. cbn [up_names]. apply rd_ret. exists []. reflexivity.
  - destruct (U i L) as (h & D). eapply up_names_ok; eauto. eapply (depth_lt_fuel T tab_el tab_en); eauto.
Qed.

Lemma join_path_app a b : join_path (a ++ b) = join_path a ++ join_path b.
Proof. unfold join_path. rewrite map_app, concat_app. reflexivity. Qed.

(* ElementRaw::path_unchecked: never panics / loops; the path of a named element ends with its item name *)
Lemma path_unchecked_ok w n : Closed w -> UpWF w -> node_ok w n ->
  rd (path_unchecked T n) w (fun p => forall own, item_name T n w = Val (OK (Some own), w) -> ends_with p own).
Proof.
  intros C U NO. unfold path_unchecked.
  destruct (item_name_ok w n C NO) as (own & EO).
  eapply rd_bind; [exists (OK own); split; [exact EO|]; intros a [= <-]; exact (eq_refl own)|].
  intros a <-.
  eapply rd_bind; [exists (OK w); split; [reflexivity|]; intros a [= <-]; exact (eq_refl w)|].
  intros a <-.
  eapply rd_bind; [apply up_names_pref_ok; auto; destruct NO as (_ & _ & _ & _ & PO); destruct (n_parent n); auto|].
  intros l (pre & ->). apply rd_ret. intros own' E'. rewrite EO in E'. injection E' as ->.
  rewrite join_path_app. exists (join_path pre ++ [47]). unfold join_path at 2. cbn. rewrite app_nil_r, <- app_assoc. reflexivity.
Qed.

Lemma path_of_ok w n : Closed w -> UpWF w -> node_ok w n ->
  rd (path_of T n) w (fun p => forall own, item_name T n w = Val (OK (Some own), w) -> ends_with p own).
Proof.
  intros C U NO. unfold path_of. destruct (is_identifiable_ok w n C NO) as (b & E).
  eapply rd_bind; [exists (OK b); split; [exact E|]; intros a [= <-]; exact (eq_refl b)|].
  intros a <-. destruct b; [apply path_unchecked_ok; auto|apply rd_fail].
Qed.

Lemma path_id_ok w i : Closed w -> UpWF w -> i < w_next w -> rd (path_id T i) w (fun _ => True).
Proof.
  intros C U L. unfold path_id. eapply rd_bind; [apply (rd_get_node w i (fun n => node_ok w n) C L); auto|].
  intros n NO. eapply rd_weaken; [apply path_of_ok; auto|]. auto.
Qed.

(* String::strip_suffix succeeds on a string that ends with the suffix *)
Lemma strip_prefix_app pre s : strip_prefix pre (pre ++ s) = Some s.
Proof. induction pre as [|x pre IH]; cbn; [reflexivity|]. rewrite N.eqb_refl. exact IH. Qed.
Lemma strip_suffix_ends own p : ends_with p own -> exists base, strip_suffix own p = Some base.
Proof.
  intros (pre & ->). unfold strip_suffix. rewrite rev_app_distr, strip_prefix_app. eauto.
Qed.

(* ---- get_element_by_path *)
Lemma get_element_by_path_ok w m p : Closed w -> m < N.of_nat (List.length (w_models w)) ->
  rd (get_element_by_path m p) w (fun _ => True).
Proof.
  intros C L. destruct (get_model_ok w m C L) as (x & E & _ & _). unfold get_element_by_path.
  eapply rd_bind; [exists (OK x); split; [exact E|]; intros a [= <-]; exact (eq_refl x)|].
  intros a <-. apply rd_ret. exact I.
Qed.

(* ---- the insertion range *)
Lemma repeat_conflict_ok ty idx : path_ok T (snd ty) idx -> exists b, repeat_conflict T ty idx = Val b.
Proof.
  intros P. unfold repeat_conflict. destruct (get_sub_element_multiplicity_ok T TOK ty idx P) as (r & ->). cbn. eauto.
Qed.

Lemma range_loop_ok w ty version new_idx : Closed w -> etype_ok T ty -> path_ok T (snd ty) new_idx ->
  forall items idx s e, (forall c, In (CElem c) items -> c < w_next w) -> s <= e -> e <= idx ->
  rd (range_loop T ty version new_idx items idx s e) w
     (fun r => fst r <= snd r /\ snd r <= idx + N.of_nat (List.length items)).
Proof.
  intros C ET PN. induction items as [|it rest IH]; intros idx s e KIDS SE EI; cbn [range_loop].
  - apply rd_ret. cbn. lia.
  - destruct it as [c|d].
    + eapply rd_bind; [apply (rd_get_node w c (fun _ => True) C); [apply KIDS; left; reflexivity|auto]|].
      intros cn _.
      assert (REC : forall s' e', s' <= e' -> e' <= idx + 1 ->
                rd (range_loop T ty version new_idx rest (idx + 1) s' e') w
                   (fun r => fst r <= snd r /\ snd r <= idx + N.of_nat (List.length (CElem c :: rest)))).
      { intros s' e' H1 H2. eapply rd_weaken; [apply IH; auto; intros c0 H0; apply KIDS; right; exact H0|].
        intros r [R1 R2]. split; [exact R1|]. cbn [List.length]. lia. }
      destruct (find_sub_element_total T TOK ty (n_name cn) version ET) as (ex0 & E0 & F0).
      eapply rd_bind; [apply (rd_wl _ ex0 w (fun a => a = ex0) E0); reflexivity|]. intros a ->.
      assert (EX : rd (match ex0 with Some x => wret (Some x) | None => wl (find_sub_element T ty (n_name cn) 4294967295) end) w
                      (fun ex => found_ok T (snd ty) ex)).
      { destruct ex0 as [x|]; [apply rd_ret; exact F0|].
        destruct (find_sub_element_total T TOK ty (n_name cn) 4294967295 ET) as (ex1 & E1 & F1).
        eapply rd_wl; eauto. }
      eapply rd_bind; [exact EX|]. intros ex FO.
      destruct ex as [[et ex_idx]|]; [|apply REC; lia].
      destruct FO as [_ PE].
      destruct (find_common_group_ok T ty new_idx ex_idx PN PE) as (g & gd & EG & ED & NC).
      eapply rd_bind; [apply (rd_wl _ g w (fun a => a = g) EG); reflexivity|]. intros a ->.
      eapply rd_bind; [apply (rd_wl _ gd w (fun a => a = gd) ED); reflexivity|]. intros a ->.
      destruct (group_mode_cases T OK12 ty new_idx ex_idx g gd ET PN PE EG ED NC) as [M|[M|[M|M]]]; rewrite M.
      * change (MSequence =? MSequence) with true. cbv iota.
        destruct (lex_cmp new_idx ex_idx).
        -- destruct (repeat_conflict_ok ty new_idx PN) as (b & EB).
           eapply rd_bind; [apply (rd_wl _ b w (fun _ => True) EB); exact I|]. intros b0 _.
           destruct b0; [apply rd_fail|apply REC; lia].
        -- apply rd_ret. cbn [fst snd List.length]. lia.
        -- apply REC; lia.
      * change (MChoice =? MSequence) with false. change (MChoice =? MChoice) with true. cbv iota.
        destruct (list_eqbN new_idx ex_idx); [|apply rd_fail].
        destruct (repeat_conflict_ok ty new_idx PN) as (b & EB).
        eapply rd_bind; [apply (rd_wl _ b w (fun _ => True) EB); exact I|]. intros b0 _.
        destruct b0; [apply rd_fail|apply REC; lia].
      * change (MBag =? MSequence) with false. change (MBag =? MChoice) with false. change (MBag =? MBag) with true.
        cbn [orb]. cbv iota. apply REC; lia.
      * change (MMixed =? MSequence) with false. change (MMixed =? MChoice) with false. change (MMixed =? MBag) with false.
        change (MMixed =? MMixed) with true. cbn [orb]. cbv iota. apply REC; lia.
    + eapply rd_weaken; [apply IH; [intros c0 H0; apply KIDS; right; exact H0|lia|lia]|].
      intros r [R1 R2]. split; [exact R1|]. cbn [List.length]. lia.
Qed.

(* ElementRaw::calc_element_insert_range: start <= end <= len *)
Lemma calc_range_ok w n name version : Closed w -> node_ok w n ->
  rd (calc_element_insert_range T n name version) w
     (fun r => fst r <= snd r /\ snd r <= N.of_nat (List.length (n_content n))).
Proof.
  intros C NO. pose proof NO as (ET & _ & KIDS & _). unfold calc_element_insert_range.
  destruct (content_mode_ok T OK12 _ ET) as (mode & EM).
  eapply rd_bind; [apply (rd_wl _ mode w (fun a => a = mode) EM); reflexivity|]. intros a ->.
  destruct (mode =? MCharacters); [apply rd_fail|].
  destruct (find_sub_element_total T TOK (n_type n) name version ET) as (f & EF & FO).
  eapply rd_bind; [apply (rd_wl _ f w (fun a => a = f) EF); reflexivity|]. intros a ->.
  destruct f as [[et new_idx]|]; [|apply rd_fail]. destruct FO as [_ PN].
  destruct ((mode =? MBag) || (mode =? MMixed)).
  - apply rd_ret. cbn [fst snd]. lia.
  - eapply rd_weaken; [apply (range_loop_ok w (n_type n) version new_idx C ET PN (n_content n) 0 0 0); auto; lia|].
    intros r [R1 R2]. split; [exact R1|lia].
Qed.

End NP.
