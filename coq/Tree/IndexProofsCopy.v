(* Tree/IndexProofsCopy.v — C04/C05: Element::create_copied_sub_element[_at].
   A successful copy is: deep_copy (agent-c13's deep_copy_spec: a fresh subtree, the source filtered for the version),
   re-parenting, unique naming of the copy, the registration walk (IndexProofsReg.register_run), insertion into the
   destination.  The final world is the old world with the fresh subtree attached below the destination
   (IndexProofsAttach: attach_inv04 / attach_inv05).  A failed copy that allocated nothing leaves the world as it was. *)
From Coq Require Import Lia PeanoNat.
From AV Require Import Base.Bytes Base.Outcome Hash.HashModel Tree.Heap Tree.Ops Tree.Script Tree.IndexProofsW
  Tree.Index Tree.IndexProofsBase Tree.IndexProofsAssoc Tree.IndexProofsFrame Tree.IndexProofsAttach
  Tree.IndexProofsTree Tree.IndexProofsCreate Tree.IndexProofsNamed Tree.Refs Tree.RefsProofsBase Tree.RefsProofs
  Tree.Follow Tree.FollowProofsPath Tree.FollowProofsTree Tree.IndexProofsReg Tree.IndexProofsMoveOp
  Tree.CopyProofsDefs Tree.CopyProofsDeep Tree.CopyProofsCreate Tree.CopyProofsFK Tree.CopyProofsTop Tree.Observe Tree.FailProofsCopy.
Open Scope string_scope.
Open Scope list_scope.
Open Scope N_scope.

Ltac wk H := lazymatch type of H with
  | wbind ?m ?k ?w = Val (OK ?r, ?w') =>
    let a := fresh "a" in let w1 := fresh "w" in let E := fresh "E" in let e := fresh "e" in let Q := fresh "Q" in
    apply wbind_inv in H as [(a & w1 & E & H) | (e & E & Q)]; [ try ro_subst E | discriminate Q ]
  end.

Section Copy.
Variable T : tables.
Variable tab_el tab_en : nametab.
Variable check_fn : N -> list N -> res bool.
Variable LATEST : N.
Hypothesis TK : TablesOK T check_fn.
Notation Inv04 := (Inv04 T check_fn).
Notation SHORTN := (name_short_name T).

Lemma tf_closed w : TreeFacts w -> Closed w.
Proof.
  intros HF. split; [intros i n Hn; eapply tf_alloc; eauto|].
  intros p n c Hp Hc. destruct (tf_up _ HF p c) as (cn & Hcn & _); [exists n; auto|eauto].
Qed.

(* ---------- the old part of an extended world *)
Lemma ext_old w w1 j nj : Ext w w1 -> TreeFacts w -> w_nodes w j = Some nj -> w_nodes w1 j = Some nj.
Proof. intros (_ & Hk & _) HF Hj. rewrite Hk; [exact Hj|]. eapply tf_alloc; eauto. Qed.
Lemma ext_readings w w1 j nj : Ext w w1 -> TreeFacts w -> w_nodes w j = Some nj ->
  item_name_n T w1 nj = item_name_n T w nj /\ identifiable_n T w1 nj = identifiable_n T w nj /\ seg_n T w1 nj = seg_n T w nj.
Proof.
  intros HE HF Hj. apply readings_ext; [reflexivity|]. rewrite !short_child_hd.
  destruct (hd_error (n_content nj)) as [[y|d]|] eqn:Eh; try reflexivity.
  assert (Hy : child_of w j y).
  { exists nj. split; [exact Hj|]. destruct (n_content nj); cbn in Eh; [discriminate|]. injection Eh as ->. left. reflexivity. }
  destruct (tf_up _ HF _ _ Hy) as (yn & Hyn & _). rewrite (ext_old w w1 y yn HE HF Hyn), Hyn. reflexivity.
Qed.
Lemma upath_ext w w1 mm l p : Ext w w1 -> TreeFacts w -> upath T w mm l p -> upath T w1 mm l p.
Proof.
  intros HE HF Hu. induction Hu as [|i ni q Hi Hu IH]; [constructor|].
  destruct (ext_readings w w1 i ni HE HF Hi) as (_ & _ & <-). econstructor; [eapply ext_old; eauto|exact IH].
Qed.

(* make_unique_item_name, without assumptions on the names *)
Lemma unique_loop_name0 f m pp orig : forall name counter w nm c,
  unique_loop f m pp orig name counter w = Val (OK (nm, c), w) ->
  (counter = 1 -> name = orig) -> 1 <= counter -> (c = 1 -> nm = orig) /\ 1 <= c.
Proof.
  induction f as [|f IH]; intros name counter w nm c H H1 Hc; [discriminate H|]. cbn [unique_loop] in H.
  wk H. destruct a as [ex|].
  - apply (IH _ _ _ _ _ H); [intros E0; lia|lia].
  - apply wret_inv in H as ([= -> ->] & _). auto.
Qed.

Lemma make_unique_shape0 i m pp w nm w3 :
  make_unique_item_name T i m pp w = Val (OK nm, w3) ->
  exists ni x orig, w_nodes w i = Some ni /\ item_name_n T w ni = Some orig /\ model_at w m = Some x /\
    assoc_get (pp ++ 47 :: nm) (m_idents x) = None /\ (~ In 47 orig -> ~ In 47 nm) /\
    ((w3 = w /\ nm = orig) \/
     (exists s rest sn, n_content ni = CElem s :: rest /\ w_nodes w s = Some sn /\
        w3 = mkWorld (upd (w_nodes w) s (set_content sn [CData (DString nm)])) (w_next w) (w_files w) (w_models w))).
Proof.
  intros H. unfold make_unique_item_name in H.
  wk H. apply get_node_inv in E as (ni & Hni & Q & _). injection Q as ->.
  wk H. apply (item_name_val T) in E as (_ & [= ->]). destruct (item_name_n T w ni) as [orig|] eqn:Eo; [|discriminate H].
  wk H. apply get_model_inv in E as (x & Hx & Q & _). injection Q as ->.
  wk H. destruct a as (name, counter).
  pose proof (FollowProofsMove.unique_loop_free _ _ _ _ _ _ _ _ _ E) as Hfree.
  destruct (unique_loop_name0 _ _ _ _ _ _ _ _ _ E (fun _ => eq_refl) ltac:(lia)) as (Hc1 & Hc).
  unfold get_element_by_path in Hfree. wk Hfree.
  apply get_model_inv in E0 as (x2 & Hx2 & Q & _). injection Q as ->. assert (x2 = x) by congruence. subst x2.
  apply wret_inv in Hfree as ([= Hfree] & _).
  wk H. apply wret_inv in H as ([= ->] & ->).
  exists ni, x, orig. split; [exact Hni|]. split; [exact Eo|]. split; [exact Hx|]. split; [symmetry; exact Hfree|].
  split.
  { intros Hso. match goal with E : unique_loop _ _ _ _ _ _ w = Val (OK (name, counter), w) |- _ =>
      exact (proj1 (unique_loop_name _ _ _ _ _ _ _ _ _ E Hso Hso (fun _ => eq_refl) ltac:(lia))) end. }
  match goal with E : (if _ then _ else _) w = Val _ |- _ => rename E into E2 end.
  destruct (1 <? counter) eqn:Ec.
  - destruct (n_content ni) as [|[s|d] rest] eqn:Ecn.
    + exfalso. unfold item_name_n, short_child in Eo. rewrite Ecn in Eo. destruct (named T (n_type ni)); discriminate.
    + apply modify_node_inv in E2 as (sn & Hs & _ & ->). right. exists s, rest, sn. auto.
    + exfalso. unfold item_name_n, short_child in Eo. rewrite Ecn in Eo. destruct (named T (n_type ni)); discriminate.
  - apply wret_inv in E2 as (_ & ->). left. split; [reflexivity|]. apply Hc1. apply N.ltb_ge in Ec. lia.
Qed.

Lemma cdata_of_replace nd d d' : cdata_of T nd = Some d -> cdata_of T (set_content nd [CData d']) = Some d'.
Proof.
  unfold cdata_of, character_data. cbn [set_content n_content n_type].
  destruct (n_content nd) as [|[y|d0] [|z r]]; try discriminate.
  destruct (content_mode T (n_type nd)) as [md| |]; cbn; try discriminate.
  destruct ((md =? MCharacters) || (md =? MMixed)); [reflexivity|discriminate].
Qed.

(* ---------- what a successful create_copied_sub_element_inner does *)
Definition renamed (w1 : world) (ren : option (id * node * list N)) (j : id) : option node :=
  match ren with
  | Some (s, sn, nm) => if j =? s then Some (set_content sn [CData (DString nm)]) else w_nodes w1 j
  | None => w_nodes w1 j
  end.

Lemma copy_inner_shape self other pos m v w c w' :
  TreeFacts w -> Inv04 w -> MReach T w m self ->
  create_copied_sub_element_inner T self other pos m v w = Val (OK c, w') ->
  exists n w1 cn0 x path L R ren,
    w_nodes w self = Some n /\ SpecPath T w m self path /\ model_at w m = Some x /\
    Closed w1 /\ Ext w w1 /\ FiltR T (w_next w) v w w1 PNone other c /\ w_nodes w1 c = Some cn0 /\
    w_next w' = w_next w1 /\ w_files w' = w_files w /\
    (N.to_nat pos <= List.length (n_content n))%nat /\
    w_nodes w' self = Some (set_content n (insert_at (n_content n) (N.to_nat pos) (CElem c))) /\
    w_nodes w' c = Some (set_parent cn0 (PElem self)) /\
    (forall j, j <> self -> j <> c -> w_nodes w' j = renamed w1 ren j) /\
    (forall s sn nm, ren = Some (s, sn, nm) -> (exists rest, n_content cn0 = CElem s :: rest) /\ w_nodes w1 s = Some sn /\ s <> self /\ s <> c) /\
    (identifiable T w' c = true -> exists nm, seg T w' c = 47 :: nm /\ assoc_get (path ++ 47 :: nm) (m_idents x) = None) /\
    w_models w' = list_set (w_models w) (N.to_nat m) (reg_apply x L R) /\
    exists w3, (forall j, w_nodes w3 j = if j =? self then Some n else w_nodes w' j) /\
               reg_entries T (fuel_of w') w3 path c = Some (L, R) /\
               (forall s sn nm, ren = Some (s, sn, nm) ->
                  exists orig, cdata_of T sn = Some (DString orig) /\ (~ In 47 orig -> ~ In 47 nm)) /\
               (exists f, deep_copy T f other v w = Val (OK c, w1)).
Proof.
  intros HF HI HRself H. unfold create_copied_sub_element_inner in H.
  wk H. match goal with E : get_node self w = _ |- _ => apply get_node_inv in E as (n & Hn & Q & _); injection Q as -> end.
  wk H. match goal with E : wget w = _ |- _ => apply wget_inv in E as ([= ->] & _) end.
  wk H. match goal with E : ancestor_is _ _ _ w = Val (OK ?b, _) |- _ => destruct b; [discriminate H|]; clear E end.
  wk H. match goal with E : deep_copy _ _ _ _ w = Val (OK ?cc, ?ww) |- _ => rename E into Edc; rename cc into c0; rename ww into w1 end.
  pose proof (tf_closed w HF) as Cw.
  destruct (deep_copy_spec T _ _ _ _ _ _ Cw Edc) as (Cw1 & Ex1 & HFR).
  wk H. match goal with E : get_node c0 w1 = _ |- _ => apply get_node_inv in E as (cn0 & Hcn0 & Q & _); injection Q as -> end.
  wk H. wk H.
  match type of H with (if ?b then _ else _) _ = _ => destruct b; [discriminate H|] end.
  wk H. match goal with E : path_unchecked T n w1 = Val (OK ?pp, _) |- _ => rename E into Epath; rename pp into path end.
  (* the path of the destination *)
  destruct (mreach_specpath T _ _ _ HRself) as (p0 & Hsp0).
  pose proof (upath_ext w w1 m _ _ Ex1 HF (specpath_upath T _ _ _ _ HF Hsp0)) as Hu1.
  pose proof (ext_old w w1 self n Ex1 HF Hn) as Hn1.
  apply (path_unchecked_val T self n w1 _ _ Hn1) in Epath as (_ & [(m2 & s2 & [= <-] & Hu2)|([=] & _)]).
  destruct (upath_fun T _ _ _ _ Hu1 _ _ Hu2) as (-> & ->). clear Hu2.
  (* re-parenting *)
  wk H. match goal with E : modify_node c0 _ w1 = _ |- _ => apply modify_node_inv in E as (cn1 & Hcn1 & _ & ->) end.
  assert (cn1 = cn0) by congruence. subst cn1. clear Hcn1.
  wk H. match goal with E : get_node c0 _ = Val (OK ?cc, _) |- _ => apply get_node_inv in E as (cnx & Hcn & Q & _); injection Q as -> end.
  cbn [w_nodes] in Hcn. rewrite upd_eq in Hcn. injection Hcn as <-.
  match type of H with wbind _ _ ?ww = _ => set (w2 := ww) in * end.
  wk H. match goal with E : is_identifiable T _ w2 = _ |- _ => apply (is_identifiable_val T) in E as (_ & [= ->]) end.
  assert (Hlo : w_next w <= c0).
  { inversion HFR; subst. assumption. }
  assert (Hself_lt : self < w_next w) by (eapply tf_alloc; eauto).
  assert (Hsc : self <> c0) by lia.
  destruct HRself as (x & Hx & Hrx). pose proof (ex_intro _ x (conj Hx Hrx) : MReach T w m self) as HRself.
  assert (Hm1 : w_models w1 = w_models w) by (destruct Ex1 as (_ & _ & _ & Em1); exact Em1).
  assert (Hx2 : model_at w2 m = Some x) by (unfold model_at, w2; cbn [w_models]; rewrite Hm1; exact Hx).
  (* children of the copy are fresh *)
  assert (Hkids_c : forall y, In (CElem y) (n_content cn0) -> w_next w <= y).
  { intros y Hy. inversion HFR as [? ? ? ns nc Hs Hc _ _ _ _ _ _ _ HIt]; subst. rewrite Hcn0 in Hc. injection Hc as <-.
    pose proof (proj2 (FiltR_fresh T (w_next w) v w w1) _ _ _ _ HIt y Hy) as HFT. inversion HFT; subst. assumption. }
  (* unique naming *)
  set (cn := set_parent cn0 (PElem self)) in *.
  wk H. match goal with E : _ w2 = Val (OK _, ?ww) |- _ => rename E into Emu; rename ww into w3 end.
  assert (Hmu : exists ren : option (id * node * list N),
            (forall j, w_nodes w3 j = if j =? c0 then Some cn else renamed w1 ren j) /\
            w_next w3 = w_next w1 /\ w_files w3 = w_files w1 /\ w_models w3 = w_models w /\
            (forall s sn nm, ren = Some (s, sn, nm) -> (exists rest, n_content cn0 = CElem s :: rest) /\ w_nodes w1 s = Some sn /\ s <> c0) /\
            (forall s sn nm, ren = Some (s, sn, nm) -> exists orig, cdata_of T sn = Some (DString orig) /\ (~ In 47 orig -> ~ In 47 nm)) /\
            (identifiable_n T w2 cn = true ->
               exists nm, assoc_get (p0 ++ 47 :: nm) (m_idents x) = None /\ item_name_n T w3 cn = Some nm)).
  { destruct (identifiable_n T w2 cn) eqn:Eid.
    - wk Emu. apply wret_inv in Emu as (_ & ->). match goal with E : make_unique_item_name T _ _ _ w2 = Val (OK ?nn, _) |- _ => rename E into Emu; rename nn into nm end.
      destruct (make_unique_shape0 _ _ _ _ _ _ Emu) as (ni & x0 & orig & Hni & Horig & Hx0 & Hfree & Hnmsl & Hshape).
      assert (ni = cn) by (unfold w2 in Hni; cbn [w_nodes] in Hni; rewrite upd_eq in Hni; congruence). subst ni.
      assert (x0 = x) by congruence. subst x0.
      destruct Hshape as [(-> & ->)|(s & rest & sn & Hc0 & Hs0 & ->)].
      + exists None. split; [intros j; unfold w2; cbn [w_nodes renamed]; unfold upd; destruct (j =? c0); reflexivity|].
        repeat split; auto; try discriminate. intros _. exists orig. auto.
      + assert (Hsc0 : s <> c0).
        { intros ->. specialize (Hkids_c c0). cbn [cn set_parent n_content] in Hc0. rewrite Hc0 in Hkids_c.
          (* c0 would be its own child: the children are allocated after the parent *)
          inversion HFR as [? ? ? ns nc Hs Hc _ _ _ _ _ _ _ HIt]; subst. rewrite Hcn0 in Hc. injection Hc as <-.
          rewrite Hc0 in HIt. clear -HIt. remember (CElem c0 :: rest) as l' eqn:El'. revert El'.
          induction HIt; intros El'; try discriminate; auto. injection El' as -> ->. lia. }
        assert (Hs1 : w_nodes w1 s = Some sn).
        { unfold w2 in Hs0. cbn [w_nodes] in Hs0. rewrite upd_neq in Hs0 by exact Hsc0. exact Hs0. }
        exists (Some (s, sn, nm)). split.
        { intros j. cbn [w_nodes renamed]. unfold w2. cbn [w_nodes]. unfold upd. destruct (j =? s) eqn:Ejs.
          - apply N.eqb_eq in Ejs. subst j. apply N.eqb_neq in Hsc0. rewrite Hsc0. reflexivity.
          - destruct (j =? c0); reflexivity. }
        split; [reflexivity|]. split; [reflexivity|]. split; [exact Hm1|]. split.
        { intros s' sn' nm' [= <- <- <-]. cbn [cn set_parent n_content] in Hc0. split; [eauto|]. split; [exact Hs1|exact Hsc0]. }
        split.
        { intros s' sn' nm' [= <- <- <-]. exists orig. split; [|exact Hnmsl].
          unfold item_name_n in Horig. destruct (named T (n_type cn)); [|discriminate Horig].
          unfold short_child in Horig. rewrite Hc0, Hs0 in Horig. destruct (n_name sn =? SHORTN); [|discriminate Horig].
          destruct (cdata_of T sn) as [[| t | |]|]; try discriminate Horig. congruence. }
        intros _. exists nm. split; [exact Hfree|].
        (* the item name of the copy after the renaming *)
        unfold item_name_n in Horig |- *. destruct (named T (n_type cn)); [|discriminate].
        unfold short_child in Horig |- *. rewrite Hc0 in *. rewrite Hs0 in Horig. cbn [w_nodes]. rewrite upd_eq.
        cbn [set_content n_name]. destruct (n_name sn =? SHORTN); [|discriminate].
        destruct (cdata_of T sn) as [d|] eqn:Ecd; [|discriminate]. rewrite (cdata_of_replace sn d (DString nm) Ecd). reflexivity.
    - apply wret_inv in Emu as (_ & ->). exists None. split; [intros j; unfold w2; cbn [w_nodes renamed]; unfold upd; destruct (j =? c0); reflexivity|].
      repeat split; auto; try discriminate. }
  destruct Hmu as (ren & N3 & X3 & F3 & M3 & Hren & Hrennm & Hfreenm). clear Emu.
  (* the registration walk *)
  wk H. match goal with E : wget w3 = _ |- _ => apply wget_inv in E as ([= ->] & _) end.
  wk H. match goal with E : register_subtree _ _ _ _ _ w3 = Val (_, ?ww) |- _ => rename E into Ereg; rename ww into w4 end.
  assert (Hx3 : model_at w3 m = Some x) by (unfold model_at; rewrite M3; exact Hx).
  destruct (register_run T _ _ _ _ w3 w3 x _ _ (fun j => eq_refl) Hx3 Ereg) as (L & R & Hent & _ & N4 & X4 & F4 & M4).
  (* insertion *)
  wk H. match goal with E : content_insert _ _ _ w4 = _ |- _ => rename E into Eins end. apply wret_inv in H as ([= Hcc] & <-). subst c.
  unfold content_insert in Eins. wk Eins. match goal with E : get_node self w4 = _ |- _ => apply get_node_inv in E as (n5 & Hn5 & Q & _); injection Q as -> end.
  destruct (N.of_nat (List.length (n_content n5)) <? pos) eqn:Elen; [discriminate Eins|]. apply N.ltb_ge in Elen.
  apply set_node_inv in Eins as (_ & ->).
  assert (Hren_self : forall s sn nm, ren = Some (s, sn, nm) -> s <> self).
  { intros s sn nm Er. destruct (Hren s sn nm Er) as ((rest & Hc0) & _ & _). specialize (Hkids_c s). rewrite Hc0 in Hkids_c.
    specialize (Hkids_c (or_introl eq_refl)). lia. }
  assert (Hself3 : w_nodes w3 self = Some n).
  { rewrite N3. apply N.eqb_neq in Hsc. rewrite Hsc. unfold renamed. destruct ren as [[[s sn] nm]|]; [|exact Hn1].
    pose proof (Hren_self s sn nm eq_refl) as Hne. apply not_eq_sym, N.eqb_neq in Hne. rewrite Hne. exact Hn1. }
  assert (n5 = n) by (rewrite N4, Hself3 in Hn5; congruence). subst n5.
  exists n, w1, cn0, x, p0, L, R, ren. cbn [w_nodes w_next w_files w_models].
  split; [exact Hn|]. split; [exact Hsp0|]. split; [exact Hx|]. split; [exact Cw1|]. split; [exact Ex1|]. split; [exact HFR|]. split; [exact Hcn0|].
  split; [congruence|]. split; [destruct Ex1 as (_ & _ & Ef1 & _); congruence|]. split; [lia|].
  split; [apply upd_eq|]. split; [rewrite upd_neq by (apply not_eq_sym; exact Hsc); rewrite N4, N3, N.eqb_refl; reflexivity|].
  split.
  { intros j Hj1 Hj2. rewrite upd_neq by exact Hj1. rewrite N4, N3. apply N.eqb_neq in Hj2. rewrite Hj2. reflexivity. }
  split.
  { intros s sn nm Er. destruct (Hren s sn nm Er) as (H1 & H2 & H3). split; [exact H1|]. split; [exact H2|]. split; [eapply Hren_self; eauto|exact H3]. }
  split.
  { (* the copy, when identifiable, has a name whose path is free *)
    intros Hid. unfold identifiable in Hid. cbn [w_nodes] in Hid. rewrite upd_neq in Hid by (apply not_eq_sym; exact Hsc).
    rewrite N4, N3, N.eqb_refl in Hid.
    set (wf := mkWorld (upd (w_nodes w4) self (set_content n (insert_at (n_content n) (N.to_nat pos) (CElem c0)))) (w_next w4) (w_files w4) (w_models w4)) in *.
    (* readings of the node of the copy in the three worlds *)
    assert (Hsc_f3 : short_child T wf cn = short_child T w3 cn).
    { rewrite !short_child_hd. destruct (hd_error (n_content cn)) as [[y|d]|] eqn:Eh; try reflexivity.
      assert (Hy : In (CElem y) (n_content cn0)).
      { cbn [cn set_parent n_content] in Eh. destruct (n_content cn0); cbn in Eh; [discriminate|]. injection Eh as ->. left. reflexivity. }
      pose proof (Hkids_c y Hy) as Hlo_y. unfold wf. cbn [w_nodes]. rewrite upd_neq by lia. rewrite N4. reflexivity. }
    assert (Hsc_32 : identifiable_n T w3 cn = identifiable_n T w2 cn).
    { unfold identifiable_n. f_equal. rewrite !short_child_hd. destruct (hd_error (n_content cn)) as [[y|d]|] eqn:Eh; try reflexivity.
      rewrite N3. unfold w2. cbn [w_nodes]. unfold upd. destruct (y =? c0); [reflexivity|]. unfold renamed.
      destruct ren as [[[s sn] nm]|]; [|reflexivity]. destruct (y =? s) eqn:Eys; [|reflexivity]. apply N.eqb_eq in Eys. subst y.
      destruct (Hren s sn nm eq_refl) as (_ & Hs1 & _). rewrite Hs1. cbn [set_content n_name]. destruct (n_name sn =? SHORTN); reflexivity. }
    destruct (readings_ext T w3 wf cn cn eq_refl Hsc_f3) as (Rn & Ri & Rs).
    rewrite Ri, Hsc_32 in Hid. destruct (Hfreenm Hid) as (nm & Hfree & Hname). exists nm. split; [|exact Hfree].
    unfold seg. cbn [wf w_nodes]. rewrite upd_neq by (apply not_eq_sym; exact Hsc). rewrite N4, N3, N.eqb_refl. fold wf.
    rewrite Rs. unfold seg_n. rewrite Hname. reflexivity. }
  split; [rewrite M4, M3; reflexivity|].
  exists w3. split.
  { intros j. destruct (j =? self) eqn:Ej; [apply N.eqb_eq in Ej; subst j; exact Hself3|]. apply N.eqb_neq in Ej.
    rewrite upd_neq by exact Ej. rewrite N4. reflexivity. }
  split; [unfold fuel_of; cbn [w_next]; rewrite X4; exact Hent|]. split; [exact Hrennm|]. eexists. exact Edc.
Qed.

(* ---------- boolean duplicate checks *)
Lemma nodupb_sound l : nodupb l = true -> NoDup l.
Proof.
  induction l as [|k r IH]; intros H; [constructor|]. cbn in H. apply andb_true_iff in H as (H1 & H2). constructor; [|auto].
  intros Hin. apply negb_true_iff in H1. assert (existsb (bytes_eqb k) r = true); [|congruence].
  apply existsb_exists. exists k. split; [exact Hin|apply bytes_eqb_refl].
Qed.
Lemma nodupN_sound l : nodupN l = true -> NoDup l.
Proof.
  induction l as [|k r IH]; intros H; [constructor|]. cbn in H. apply andb_true_iff in H as (H1 & H2). constructor; [|auto].
  intros Hin. apply negb_true_iff in H1. assert (existsb (N.eqb k) r = true); [|congruence].
  apply existsb_exists. exists k. split; [exact Hin|apply N.eqb_refl].
Qed.

(* name and type of a node are those of some node of the old world *)
Definition NTn (w : world) (nj : node) : Prop :=
  exists s ns, w_nodes w s = Some ns /\ n_name nj = n_name ns /\ n_type nj = n_type ns.
Inductive NTtree (lo : N) (w w1 : world) : id -> Prop :=
| NTt c nc : w_nodes w1 c = Some nc -> lo <= c -> NTn w nc -> (forall y, In (CElem y) (n_content nc) -> NTtree lo w w1 y) -> NTtree lo w w1 c.

Lemma FiltR_nt lo v w w1 :
  (forall p s c, FiltR T lo v w w1 p s c -> NTtree lo w w1 c) /\
  (forall c ty l l', FiltRItems T lo v w w1 c ty l l' -> forall y, In (CElem y) l' -> NTtree lo w w1 y).
Proof.
  apply FiltR_mutind.
  - intros p s c ns nc Hs Hc Hlo _ _ Hnm Hty _ _ _ IH. econstructor; [exact Hc|exact Hlo|exists s, ns; auto|exact IH].
  - intros c ty y H. destruct H.
  - intros c ty d r r' _ IH y [E|H]; [discriminate E|auto].
  - intros c ty s cs sn x0 r r' _ _ _ _ IHn _ IHr y [E|H]; [injection E as <-; exact IHn|auto].
  - intros c ty s sn r r' _ _ _ IHr. exact IHr.
  - intros c ty s sn x0 r r' _ _ _ _ IHr. exact IHr.
Qed.

(* the same tree in a world whose fresh nodes have the same names, types and no more sub-elements *)
Lemma NTtree_transport lo w w1 w' y :
  (forall j nj1, lo <= j -> w_nodes w1 j = Some nj1 ->
     exists nj', w_nodes w' j = Some nj' /\ n_name nj' = n_name nj1 /\ n_type nj' = n_type nj1 /\
                 forall z, In (CElem z) (n_content nj') -> In (CElem z) (n_content nj1)) ->
  NTtree lo w w1 y -> NTtree lo w w' y.
Proof.
  intros Htr H. induction H as [c nc Hc Hlo (s & ns & Hs & Hnm & Hty) _ IH].
  destruct (Htr c nc Hlo Hc) as (nc' & Hc' & Hnm' & Hty' & Hsub).
  econstructor; [exact Hc'|exact Hlo|exists s, ns; split; [exact Hs|split; congruence]|]. intros z Hz. apply IH. apply Hsub. exact Hz.
Qed.
Lemma walk_nt lo w w' f : forall y, NTtree lo w w' y -> forall j, In j (walk f w' y) ->
  lo <= j /\ exists nj', w_nodes w' j = Some nj' /\ NTn w nj'.
Proof.
  induction f as [|f IH]; intros y Hy j Hj; [destruct Hj|]. inversion Hy as [c nc Hc Hlo Hnt Hk]; subst.
  cbn [walk] in Hj. rewrite Hc in Hj. destruct Hj as [<-|Hj]; [split; [exact Hlo|eauto]|].
  apply in_flat_map in Hj as ([z|d] & Hz & Hj); [|destruct Hj]. eapply IH; [apply Hk; exact Hz|exact Hj].
Qed.

Lemma FiltR_inv lo v w w1 p s c : FiltR T lo v w w1 p s c ->
  exists ns nc, w_nodes w s = Some ns /\ w_nodes w1 c = Some nc /\ lo <= c /\ n_name nc = n_name ns /\ n_type nc = n_type ns /\
    FiltRItems T lo v w w1 c (n_type ns) (n_content ns) (n_content nc).
Proof. intros H. inversion H; subst. eauto 10. Qed.
Lemma FiltR_kid_lo lo v w w1 p s c nc y : FiltR T lo v w w1 p s c -> w_nodes w1 c = Some nc -> In (CElem y) (n_content nc) -> lo <= y.
Proof.
  intros H Hc Hy. destruct (FiltR_inv _ _ _ _ _ _ _ H) as (ns & nc' & _ & Hc' & _ & _ & _ & HIt). rewrite Hc in Hc'. injection Hc' as <-.
  pose proof (proj2 (FiltR_fresh T lo v w w1) _ _ _ _ HIt y Hy) as HFT. inversion HFT; subst. assumption.
Qed.

Lemma renamed_cases w1 ren j :
  (renamed w1 ren j = w_nodes w1 j /\ forall s sn nm, ren = Some (s, sn, nm) -> j <> s) \/
  (exists s sn nm, ren = Some (s, sn, nm) /\ j = s /\ renamed w1 ren j = Some (set_content sn [CData (DString nm)])).
Proof.
  unfold renamed. destruct ren as [[[s sn] nm]|]; [|left; split; [reflexivity|discriminate]].
  destruct (j =? s) eqn:E; [apply N.eqb_eq in E; right; exists s, sn, nm; auto|].
  apply N.eqb_neq in E. left. split; [reflexivity|]. intros ? ? ? [= <- _ _]. exact E.
Qed.

Section CopyInv.
Variables (w w' w1 w3 : world) (self c : id) (n cn0 : node) (pos : nat) (m : N) (x : model) (path : list N)
          (L R : list (list N * id)) (ren : option (id * node * list N)) (v : N) (other : id).
Hypothesis HF : TreeFacts w.
Hypothesis HI : Inv04 w.
Hypothesis HI5 : Inv05 T w.
Hypothesis Hn : w_nodes w self = Some n.
Hypothesis Hpath : SpecPath T w m self path.
Hypothesis Hx : model_at w m = Some x.
Hypothesis HE : Ext w w1.
Hypothesis HFR : FiltR T (w_next w) v w w1 PNone other c.
Hypothesis Hcn0 : w_nodes w1 c = Some cn0.
Hypothesis Hpos : (pos <= List.length (n_content n))%nat.
Hypothesis Hself' : w_nodes w' self = Some (set_content n (insert_at (n_content n) pos (CElem c))).
Hypothesis Hc' : w_nodes w' c = Some (set_parent cn0 (PElem self)).
Hypothesis Hother : forall j, j <> self -> j <> c -> w_nodes w' j = renamed w1 ren j.
Hypothesis Hren : forall s sn nm, ren = Some (s, sn, nm) -> (exists rest, n_content cn0 = CElem s :: rest) /\ w_nodes w1 s = Some sn /\ s <> self /\ s <> c.
Hypothesis Hfree : identifiable T w' c = true -> exists nm, seg T w' c = 47 :: nm /\ assoc_get (path ++ 47 :: nm) (m_idents x) = None.
Hypothesis Hmodels : w_models w' = list_set (w_models w) (N.to_nat m) (reg_apply x L R).
Hypothesis Hw3 : forall j, w_nodes w3 j = if j =? self then Some n else w_nodes w' j.
Hypothesis Hent : reg_entries T (fuel_of w') w3 path c = Some (L, R).
Hypothesis HFK : FreshKids (w_next w) w'.
(* the side invariants of the nodes allocated by the call *)
Hypothesis Hnewside : forall j nj', ~ old w j -> w_nodes w' j = Some nj' ->
  (n_name nj' = SHORTN -> short_type T check_fn (n_type nj')) /\
  (forall t, n_name nj' = SHORTN -> cdata_of T nj' = Some (DString t) -> ~ In 47 t) /\
  (identifiable_n T w' nj' = true -> item_name_n T w' nj' <> None) /\
  (content_mode T (n_type nj') = Val MCharacters -> chars_content (n_content nj')).
Hypothesis HLnd : NoDup (map fst L).
Hypothesis HRnd : NoDup (map snd R).
Hypothesis HLc : identifiable T w' c = true \/ (forall p j, In (p, j) L -> assoc_get p (m_idents x) = None).
(* the destination *)
Hypothesis Hfront : pos = O -> identifiable_n T w n = false /\ (named T (n_type n) = true -> n_name cn0 <> SHORTN).
Hypothesis Hmode : content_mode T (n_type n) <> Val MCharacters.

Notation lo := (w_next w).

Lemma ci_lo_c : lo <= c.
Proof. destruct (FiltR_inv _ _ _ _ _ _ _ HFR) as (ns & nc & _ & _ & H & _). exact H. Qed.
Lemma ci_old_lt j nj : w_nodes w j = Some nj -> j < lo.
Proof. intros H. eapply tf_alloc; eauto. Qed.
Lemma ci_self_lt : self < lo.
Proof. eapply ci_old_lt; eauto. Qed.
Lemma ci_c_none : w_nodes w c = None.
Proof. destruct (w_nodes w c) as [a|] eqn:E; [|reflexivity]. pose proof (ci_old_lt c a E). pose proof ci_lo_c. lia. Qed.
Lemma ci_ren_lo s sn nm : ren = Some (s, sn, nm) -> lo <= s.
Proof.
  intros E. destruct (Hren s sn nm E) as ((rest & Hc0) & _). eapply (FiltR_kid_lo _ _ _ _ _ _ _ cn0 s HFR Hcn0). rewrite Hc0. left. reflexivity.
Qed.
Lemma ci_old j nj : w_nodes w j = Some nj -> j <> self -> w_nodes w' j = Some nj.
Proof.
  intros Hj Hne. pose proof (ci_old_lt j nj Hj) as Hlt. rewrite Hother; [|exact Hne|pose proof ci_lo_c; lia].
  destruct (renamed_cases w1 ren j) as [(-> & _)|(s & sn & nm & Er & -> & _)].
  - destruct HE as (_ & Hk & _). rewrite Hk by exact Hlt. exact Hj.
  - pose proof (ci_ren_lo s sn nm Er). lia.
Qed.
Lemma ci_new_lo p np' : w_nodes w p = None -> w_nodes w' p = Some np' -> lo <= p.
Proof.
  intros Hp Hp'. destruct (N.lt_ge_cases p lo) as [Hlt|Hge]; [exfalso|exact Hge].
  assert (p <> self) by (intros ->; congruence). pose proof ci_lo_c.
  rewrite Hother in Hp'; [|assumption|lia].
  destruct (renamed_cases w1 ren p) as [(E & _)|(s & sn & nm & Er & -> & _)].
  - rewrite E in Hp'. destruct HE as (_ & Hk & _). rewrite Hk in Hp' by exact Hlt. congruence.
  - pose proof (ci_ren_lo s sn nm Er). lia.
Qed.
Lemma ci_newkids p y : child_of w' p y -> w_nodes w p = None -> w_nodes w y = None.
Proof.
  intros (np' & Hp' & Hy) Hp. pose proof (ci_new_lo p np' Hp Hp') as Hlo. pose proof (HFK p np' y Hlo Hp' Hy) as Hy_lo.
  destruct (w_nodes w y) as [a|] eqn:E; [|reflexivity]. pose proof (ci_old_lt y a E). lia.
Qed.
Lemma ci_nshort : n_name n <> SHORTN.
Proof. intros E. destruct (i4_short _ _ _ HI _ _ Hn E) as (Hm & _). contradiction. Qed.
Lemma ci_front : pos = O -> identifiable_n T w n = false /\
  (named T (n_type n) = true -> forall cn, w_nodes w' c = Some cn -> n_name cn <> SHORTN).
Proof.
  intros Hp. destruct (Hfront Hp) as (H1 & H2). split; [exact H1|]. intros Hnm cn Hcn. rewrite Hc' in Hcn. injection Hcn as <-. exact (H2 Hnm).
Qed.
Lemma ci_roots m2 : option_map m_root (model_at w' m2) = option_map m_root (model_at w m2).
Proof.
  destruct (N.eq_dec m2 m) as [->|Hne].
  - rewrite (model_at_set_same _ _ _ _ Hmodels _ Hx), Hx. reflexivity.
  - rewrite (model_at_set_other _ _ _ _ _ Hmodels Hne). reflexivity.
Qed.
Lemma ci_selfnoref : isref T (n_type n) = false.
Proof.
  unfold isref. destruct (is_ref T (n_type n)) as [[|]| |] eqn:E; try reflexivity. exfalso. apply Hmode. apply (tk_ref _ _ TK _ E).
Qed.

(* the fresh subtree in w3 (the world of the registration walk) and in w' *)
Lemma ci_w3_fresh j : lo <= j -> w_nodes w3 j = w_nodes w' j.
Proof. intros Hj. rewrite Hw3. pose proof ci_self_lt. destruct (j =? self) eqn:E; [apply N.eqb_eq in E; lia|reflexivity]. Qed.
Lemma ci_child3 p y : lo <= p -> (child_of w3 p y <-> child_of w' p y).
Proof. intros Hp. unfold child_of. rewrite (ci_w3_fresh p Hp). tauto. Qed.
Lemma ci_kid_lo p y : lo <= p -> child_of w' p y -> lo <= y.
Proof. intros Hp (np & Hnp & Hy). eapply HFK; eauto. Qed.
Lemma ci_readings3 j : lo <= j -> seg T w3 j = seg T w' j /\ identifiable T w3 j = identifiable T w' j /\ ref_text T w3 j = ref_text T w' j.
Proof.
  intros Hj. unfold seg, identifiable, ref_text. rewrite (ci_w3_fresh j Hj). destruct (w_nodes w' j) as [nj|] eqn:Ej; [|auto].
  assert (Hsc : short_child T w3 nj = short_child T w' nj).
  { rewrite !short_child_hd. destruct (hd_error (n_content nj)) as [[y|d]|] eqn:Eh; try reflexivity.
    assert (Hy : child_of w' j y).
    { exists nj. split; [exact Ej|]. destruct (n_content nj); cbn in Eh; [discriminate|]. injection Eh as ->. left. reflexivity. }
    rewrite (ci_w3_fresh y (ci_kid_lo j y Hj Hy)). reflexivity. }
  destruct (readings_ext T w' w3 nj nj eq_refl Hsc) as (_ & H2 & H3). auto.
Qed.
Lemma ci_dpath3 i q : dpath T w3 c i q <-> dpath T w' c i q.
Proof.
  split.
  - intros Hd. apply (dpath_fwd T (fun j => lo <= j) w3 w'); [|exact ci_lo_c|exact Hd].
    intros p y Hp Hc. apply (ci_child3 p y Hp) in Hc. pose proof (ci_kid_lo p y Hp Hc) as Hy. split; [exact Hc|]. split; [exact Hy|].
    symmetry. apply ci_readings3. exact Hy.
  - intros Hd. apply (dpath_fwd T (fun j => lo <= j) w' w3); [|exact ci_lo_c|exact Hd].
    intros p y Hp Hc. pose proof (ci_kid_lo p y Hp Hc) as Hy. split; [apply (ci_child3 p y Hp); exact Hc|]. split; [exact Hy|].
    apply ci_readings3. exact Hy.
Qed.
Lemma ci_reach_lo i : reach T w' c i -> lo <= i.
Proof.
  intros (q & Hd). apply (dpath_fwd T (fun j => lo <= j) w' w') in Hd; [tauto| |exact ci_lo_c].
  intros p y Hp Hc. split; [exact Hc|]. split; [eapply ci_kid_lo; eauto|reflexivity].
Qed.
Lemma ci_reach_new i : reach T w' c i -> w_nodes w i = None.
Proof.
  intros Hr. pose proof (ci_reach_lo i Hr). destruct (w_nodes w i) as [a|] eqn:E; [|reflexivity]. pose proof (ci_old_lt i a E). lia.
Qed.

(* the entries of the walk, in the final world *)
Lemma ci_L_spec p j : In (p, j) L <-> exists q, dpath T w' c j q /\ identifiable T w' j = true /\ p = path ++ seg T w' c ++ q.
Proof.
  destruct (reg_sound T _ _ _ _ _ _ Hent) as (S1 & _). destruct (reg_complete T _ _ _ _ _ _ Hent) as (C1 & _).
  destruct (ci_readings3 c ci_lo_c) as (Hsc & _). split.
  - intros Hin. destruct (S1 p j Hin) as (q & Hd & Hid & ->). exists q. apply ci_dpath3 in Hd as Hd'.
    assert (Hj : lo <= j) by (apply ci_reach_lo; exists q; exact Hd'). destruct (ci_readings3 j Hj) as (_ & Hi & _).
    split; [exact Hd'|]. split; [rewrite <- Hi; exact Hid|]. rewrite Hsc. reflexivity.
  - intros (q & Hd & Hid & ->). assert (Hj : lo <= j) by (apply ci_reach_lo; exists q; exact Hd).
    destruct (ci_readings3 j Hj) as (_ & Hi & _). rewrite <- Hsc. apply C1; [apply ci_dpath3; exact Hd|rewrite Hi; exact Hid].
Qed.
Lemma ci_R_spec r j : In (r, j) R <-> reach T w' c j /\ ref_text T w' j = Some r.
Proof.
  destruct (reg_sound T _ _ _ _ _ _ Hent) as (_ & S2). destruct (reg_complete T _ _ _ _ _ _ Hent) as (_ & C2). split.
  - intros Hin. destruct (S2 r j Hin) as ((q & Hd) & Ht). apply ci_dpath3 in Hd.
    assert (Hj : lo <= j) by (apply ci_reach_lo; exists q; exact Hd). destruct (ci_readings3 j Hj) as (_ & _ & Hr).
    split; [exists q; exact Hd|rewrite <- Hr; exact Ht].
  - intros ((q & Hd) & Ht). assert (Hj : lo <= j) by (apply ci_reach_lo; exists q; exact Hd).
    destruct (ci_readings3 j Hj) as (_ & _ & Hr). apply C2; [exists q; apply ci_dpath3; exact Hd|rewrite Hr; exact Ht].
Qed.

(* the new keys are not keys of the old index *)
Lemma ci_L_fresh p j : In (p, j) L -> assoc_get p (m_idents x) = None.
Proof.
  intros Hin. destruct HLc as [Hid|HL]; [|exact (HL p j Hin)].
  destruct (Hfree Hid) as (nm & Hsg & Hfr). apply ci_L_spec in Hin as (q & Hd & _ & ->). rewrite Hsg.
  destruct (assoc_get (path ++ (47 :: nm) ++ q) (m_idents x)) as [z|] eqn:Ez; [exfalso|reflexivity].
  apply (i4_exact _ _ _ HI m x Hx) in Ez as (_ & _ & Hspz).
  pose proof (slashfree_names T w (i4_slash _ _ _ HI)) as HNS.
  destruct (prefix_is_path T w m z _ (path ++ 47 :: nm) q HNS Hspz) as (y & Hy1 & Hy2 & _).
  - rewrite <- app_assoc. reflexivity.
  - eapply dpath_boundary; eauto.
  - intros E. apply app_eq_nil in E as (_ & E). discriminate.
  - assert (Hk : assoc_get (path ++ 47 :: nm) (m_idents x) = Some y).
    { apply (i4_exact _ _ _ HI m x Hx). split; [eapply specpath_mreach; eauto|]. split; assumption. }
    congruence.
Qed.

Lemma ci_idents m2 x2' : model_at w' m2 = Some x2' ->
  (m2 = m /\ m_idents x2' = ins_all L (m_idents x) /\ m_origins x2' = addo_all R (m_origins x)) \/
  (m2 <> m /\ model_at w m2 = Some x2').
Proof.
  intros H. destruct (N.eq_dec m2 m) as [->|Hne].
  - left. rewrite (model_at_set_same _ _ _ _ Hmodels _ Hx) in H. injection H as <-. auto.
  - right. rewrite (model_at_set_other _ _ _ _ _ Hmodels Hne) in H. auto.
Qed.

Theorem copy_inv04 : Inv04 w'.
Proof.
  pose proof HI as [I1 I2 I3 IL I4 I5].
  eapply attach_inv04 with (w := w) (self := self) (c := c) (n := n) (k := pos) (mm := m) (ps := path).
  - exact HF.
  - exact Hn.
  - exact ci_old.
  - exact Hself'.
  - exact ci_c_none.
  - exact ci_newkids.
  - exact Hpos.
  - exact ci_nshort.
  - exact ci_front.
  - exact ci_roots.
  - exact Hpath.
  - exact I1.
  - exact I2.
  - exact I3.
  - exact IL.
  - exact Hmode.
  - exact Hnewside.
  - (* old elements *)
    intros m2 x2' Hx2' p i (ni & Hi). destruct (ci_idents m2 x2' Hx2') as [(-> & Hid & _)|(Hne & Hx2)].
    + rewrite Hid, (ins_all_get L (m_idents x) p HLnd). destruct (assoc_get p L) as [j|] eqn:El.
      * apply assoc_get_in in El. pose proof (ci_L_fresh p j El) as Hfr. split.
        -- intros [= ->]. exfalso. apply ci_L_spec in El as (q & Hd & _). rewrite (ci_reach_new i (ex_intro _ q Hd)) in Hi. discriminate.
        -- intros HP. apply (I4 m x Hx) in HP. congruence.
      * apply (I4 m x Hx).
    + apply (I4 m2 x2' Hx2).
  - (* new elements *)
    intros m2 x2' Hx2' p i Hno. assert (Hwi : w_nodes w i = None) by (destruct (w_nodes w i) eqn:E; [exfalso; apply Hno; eexists; eauto|reflexivity]).
    destruct (ci_idents m2 x2' Hx2') as [(-> & Hid & _)|(Hne & Hx2)].
    + rewrite Hid, (ins_all_get L (m_idents x) p HLnd). split.
      * intros H. split; [reflexivity|]. destruct (assoc_get p L) as [j|] eqn:El.
        -- injection H as ->. apply assoc_get_in in El. apply ci_L_spec. exact El.
        -- exfalso. apply (I4 m x Hx) in H as (Hr & _). destruct (mreach_alloc T _ _ _ HF Hr) as (a & Ha). congruence.
      * intros (_ & Hq). apply ci_L_spec in Hq. rewrite (in_assoc_get p L i HLnd Hq). reflexivity.
    + rewrite (I4 m2 x2' Hx2 p i). split.
      * intros (Hr & _). destruct (mreach_alloc T _ _ _ HF Hr) as (a & Ha). congruence.
      * intros (E & _). contradiction.
  - intros m2 x2' Hx2'. destruct (ci_idents m2 x2' Hx2') as [(-> & Hid & _)|(Hne & Hx2)].
    + rewrite Hid. apply ins_all_nodup. apply (I5 m x Hx).
    + apply (I5 m2 x2' Hx2).
Qed.

Theorem copy_inv05 : Inv05 T w'.
Proof.
  pose proof HI5 as [IE IT].
  eapply attach_inv05 with (w := w) (self := self) (c := c) (n := n) (k := pos) (mm := m) (ps := path).
  - exact HF.
  - exact Hn.
  - exact ci_old.
  - exact Hself'.
  - exact ci_c_none.
  - exact ci_newkids.
  - exact Hpos.
  - exact ci_nshort.
  - exact ci_front.
  - exact ci_roots.
  - exact Hpath.
  - exact ci_selfnoref.
  - intros m2 x2' Hx2' p r (nr & Hr). destruct (ci_idents m2 x2' Hx2') as [(-> & _ & Ho)|(Hne & Hx2)].
    + unfold origins_of. rewrite Ho. fold (oget p (addo_all R (m_origins x))). rewrite addo_all_oget, in_app_iff.
      destruct (IE m x Hx p) as (_ & Hiff). unfold origins_of in Hiff. fold (oget p (m_origins x)) in Hiff. rewrite Hiff. split; [|auto].
      intros [H|H]; [exact H|]. exfalso. apply in_map_iff in H as ((r0 & j0) & E0 & Hf). cbn in E0. subst j0.
      apply filter_In in Hf as (Hin & _). apply ci_R_spec in Hin as (Hre & _). rewrite (ci_reach_new r Hre) in Hr. discriminate.
    + destruct (IE m2 x2' Hx2 p) as (_ & Hiff). exact (Hiff r).
  - intros m2 x2' Hx2' p r Hno. assert (Hwr : w_nodes w r = None) by (destruct (w_nodes w r) eqn:E; [exfalso; apply Hno; eexists; eauto|reflexivity]).
    destruct (ci_idents m2 x2' Hx2') as [(-> & _ & Ho)|(Hne & Hx2)].
    + unfold origins_of. rewrite Ho. fold (oget p (addo_all R (m_origins x))). rewrite addo_all_oget, in_app_iff. split.
      * intros [H|H].
        -- exfalso. destruct (IE m x Hx p) as (_ & Hiff). apply Hiff in H as (Hrm & _). destruct (mreach_alloc T _ _ _ HF Hrm) as (a & Ha). congruence.
        -- apply in_map_iff in H as ((r0 & j0) & E0 & Hf). cbn in E0. subst j0. apply filter_In in Hf as (Hin & Hk). cbn in Hk.
           destruct (bytes_dec r0 p) as [->|]; [|discriminate]. apply ci_R_spec in Hin. tauto.
      * intros (_ & Hre & Ht). right. apply in_map_iff. exists (p, r). split; [reflexivity|]. apply filter_In. split; [apply ci_R_spec; auto|].
        cbn. destruct (bytes_dec p p); [reflexivity|contradiction].
    + destruct (IE m2 x2' Hx2 p) as (_ & Hiff). rewrite (Hiff r). split.
      * intros (Hrm & _). destruct (mreach_alloc T _ _ _ HF Hrm) as (a & Ha). congruence.
      * intros (E & _). contradiction.
  - intros m2 x2' p Hx2'. destruct (ci_idents m2 x2' Hx2') as [(-> & _ & Ho)|(Hne & Hx2)]; [|apply (IE m2 x2' Hx2 p)].
    unfold origins_of. rewrite Ho. fold (oget p (addo_all R (m_origins x))). rewrite addo_all_oget.
    destruct (IE m x Hx p) as (Hnd & Hiff). unfold origins_of in Hnd, Hiff. fold (oget p (m_origins x)) in Hnd, Hiff.
    apply RefsProofsReport.nodup_app; [exact Hnd| |].
    + clear -HRnd. induction R as [|[r0 j0] R0 IH]; [constructor|]. cbn [map snd] in HRnd. inversion HRnd as [|? ? Hni Hnd']; subst.
      cbn [filter fst]. destruct (bytes_dec r0 p); [|apply IH; exact Hnd']. cbn [map snd]. constructor; [|apply IH; exact Hnd'].
      intros Hin. apply Hni. apply in_map_iff in Hin as (e9 & E9 & Hf). apply filter_In in Hf as (Hf & _). apply in_map_iff. exists e9. auto.
    + intros r H1 H2. apply Hiff in H1 as (Hrm & _). destruct (mreach_alloc T _ _ _ HF Hrm) as (a & Ha).
      apply in_map_iff in H2 as ((r0 & j0) & E0 & Hf). cbn in E0. subst j0. apply filter_In in Hf as (Hin & _).
      apply ci_R_spec in Hin as (Hre & _). rewrite (ci_reach_new r Hre) in Ha. discriminate.
  - intros m2 x2' Hx2'. destruct (ci_idents m2 x2' Hx2') as [(-> & _ & Ho)|(Hne & Hx2)]; [|apply (IT m2 x2' Hx2)].
    rewrite Ho. apply addo_all_tidy. apply (IT m x Hx).
Qed.

End CopyInv.

(* ---------- from the decidable condition copy_clean to the hypotheses of the section above *)
Variable root_attrs : list (N * cdata).
Notation Known05 := (Known05 T tab_el tab_en check_fn LATEST root_attrs).

Lemma range_complete lo hi (ids : list id) :
  NoDup ids -> N.of_nat (List.length ids) = hi - lo -> (forall j, In j ids -> lo <= j < hi) ->
  forall j, lo <= j < hi -> In j ids.
Proof.
  intros Hnd Hlen Hrange j Hj.
  set (rng := map (fun k => lo + N.of_nat k) (seq 0 (N.to_nat (hi - lo)))).
  assert (Hincl : incl ids rng).
  { intros y Hy. destruct (Hrange y Hy) as (H1 & H2). apply in_map_iff. exists (N.to_nat (y - lo)). split; [lia|]. apply in_seq. lia. }
  assert (Hlen2 : (List.length rng <= List.length ids)%nat) by (unfold rng; rewrite map_length, seq_length; lia).
  apply (NoDup_length_incl Hnd Hlen2 Hincl). apply in_map_iff. exists (N.to_nat (j - lo)). split; [lia|]. apply in_seq. lia.
Qed.

Lemma copy_inner_inv self other pos m v w c w' n :
  TreeFacts w -> Inv04 w -> Inv05 T w -> MReach T w m self -> w_nodes w self = Some n ->
  create_copied_sub_element_inner T self other pos m v w = Val (OK c, w') ->
  copy_clean T w w' self c = true ->
  content_mode T (n_type n) <> Val MCharacters ->
  (N.to_nat pos = O -> identifiable_n T w n = false /\ (named T (n_type n) = true -> nm_of w other <> SHORTN)) ->
  Inv04 w' /\ Inv05 T w'.
Proof.
  intros HF HI HI5 HRself Hn H Hclean Hmode Hfront.
  pose proof (tf_closed w HF) as Cw.
  destruct (CopyProofsCreate.ccsei_spec T _ _ _ _ _ _ _ _ Cw H) as (Cw' & _).
  assert (HFK : FreshKids (w_next w) w').
  { destruct (CopyProofsFK.ccsei_FK T (w_next w) _ _ _ _ _ _ _ _ H) as (_ & _ & HK); [apply N.le_refl| |exact HK].
    intros p np y Hp Hnp _. pose proof (tf_alloc _ HF _ _ Hnp). lia. }
  destruct (copy_inner_shape self other pos m v w c w' HF HI HRself H)
    as (n0 & w1 & cn0 & x & path & L & R & ren & Hn0 & Hpath & Hx & Cw1 & HE & HFR & Hcn0 & Hnx & Hfl & Hpos & Hself' & Hc' & Hother & Hren & Hfree & Hmodels & w3 & Hw3 & Hent & _ & _).
  assert (n0 = n) by congruence. subst n0.
  (* unfold the decidable condition *)
  unfold copy_clean in Hclean. rewrite Hn in Hclean.
  destruct (path_unchecked T n w) as [[[path0|e0] wq]| |] eqn:Epu; try discriminate Hclean.
  destruct (path_unchecked_spec T w m self n HF Hn HRself) as (_ & Hps).
  destruct (Hps _ _ Epu) as (_ & p1 & [= <-] & Hsp1). destruct (specpath_fun T _ _ _ _ _ _ HF Hsp1 Hpath) as (_ & ->).
  set (w3c := mkWorld (fun j => if j =? self then Some n else w_nodes w' j) (w_next w') (w_files w') (w_models w')) in *.
  assert (Hent_c : reg_entries T (fuel_of w') w3c path c = Some (L, R)).
  { rewrite <- Hent. apply reg_entries_nodes. intros j. cbn. rewrite Hw3. reflexivity. }
  rewrite Hent_c in Hclean. repeat (apply andb_true_iff in Hclean as (Hclean & ?)).
  match goal with Hx0 : forallb _ _ = true |- _ => rename Hx0 into Hok end.
  match goal with Hx0 : (_ || _) = true |- _ => rename Hx0 into HLc end.
  match goal with Hx0 : nodupN (map snd R) = true |- _ => apply nodupN_sound in Hx0; rename Hx0 into HRnd end.
  match goal with Hx0 : nodupb (map fst L) = true |- _ => apply nodupb_sound in Hx0; rename Hx0 into HLnd end.
  match goal with Hx0 : (_ =? _) = true |- _ => apply N.eqb_eq in Hx0; rename Hx0 into Hlen end.
  apply nodupN_sound in Hclean. rename Hclean into Hidnd.
  set (ids := walk (fuel_of w') w' c) in *.
  (* the tree of the copy in the final world *)
  assert (Hlo_c : w_next w <= c) by (destruct (FiltR_inv _ _ _ _ _ _ _ HFR) as (? & ? & _ & _ & Hl & _); exact Hl).
  assert (Hself_lt : self < w_next w) by (eapply tf_alloc; eauto).
  assert (Hren_lo : forall s sn nm, ren = Some (s, sn, nm) -> w_next w <= s).
  { intros s sn nm Er. destruct (Hren s sn nm Er) as ((rest & Hc0) & _). eapply (FiltR_kid_lo _ _ _ _ _ _ _ cn0 s HFR Hcn0). rewrite Hc0. left. reflexivity. }
  assert (HNT : NTtree (w_next w) w w' c).
  { apply (NTtree_transport (w_next w) w w1 w'); [|apply (proj1 (FiltR_nt (w_next w) v w w1)) in HFR; exact HFR].
    intros j nj1 Hj Hj1. destruct (N.eq_dec j c) as [->|Hjc].
    - rewrite Hcn0 in Hj1. injection Hj1 as <-. eexists. split; [exact Hc'|]. cbn. auto.
    - rewrite Hother; [|lia|exact Hjc]. destruct (renamed_cases w1 ren j) as [(-> & _)|(s & sn & nm & Er & -> & ->)].
      + exists nj1. auto.
      + destruct (Hren s sn nm Er) as (_ & Hs1 & _). rewrite Hs1 in Hj1. injection Hj1 as <-. eexists. split; [reflexivity|]. cbn.
        split; [reflexivity|]. split; [reflexivity|]. intros z [E|[]]. discriminate E. }
  assert (Hids_nt : forall j nj', In j ids -> w_nodes w' j = Some nj' -> NTn w nj').
  { intros j nj' Hj Hj'. destruct (walk_nt _ _ _ _ c HNT j Hj) as (_ & nj2 & Hj2 & Hnt). congruence. }
  assert (Hrange : forall j, In j ids -> w_next w <= j < w_next w').
  { intros j Hj. destruct (walk_nt _ _ _ _ c HNT j Hj) as (Hlo & nj2 & Hj2 & _). split; [exact Hlo|]. eapply (proj1 Cw'); eauto. }
  assert (Hall : forall j, w_next w <= j < w_next w' -> In j ids) by (apply range_complete; assumption).
  rewrite forallb_forall in Hok.
  assert (HposN : (N.to_nat pos <= List.length (n_content n))%nat) by exact Hpos.
  assert (Hcn0_name : n_name cn0 = nm_of w other).
  { destruct (FiltR_inv _ _ _ _ _ _ _ HFR) as (ns & nc & Hs & Hc & _ & Hnm & _). rewrite Hcn0 in Hc. injection Hc as <-.
    unfold nm_of. rewrite Hs. exact Hnm. }
  assert (Hnew_ids : forall j nj', w_nodes w j = None -> w_nodes w' j = Some nj' -> In j ids).
  { intros j nj' Hwj Hj'. apply Hall. split.
    - destruct (N.lt_ge_cases j (w_next w)) as [Hlt|Hge]; [exfalso|exact Hge].
      assert (j <> self) by (intros ->; congruence). rewrite Hother in Hj'; [|assumption|lia].
      destruct (renamed_cases w1 ren j) as [(E & _)|(s & sn & nm & Er & -> & _)].
      + rewrite E in Hj'. destruct HE as (_ & Hk & _). rewrite Hk in Hj' by exact Hlt. congruence.
      + pose proof (Hren_lo s sn nm Er). lia.
    - eapply (proj1 Cw'); eauto. }
  assert (Hnewside : forall j nj', ~ old w j -> w_nodes w' j = Some nj' ->
            (n_name nj' = SHORTN -> short_type T check_fn (n_type nj')) /\
            (forall t, n_name nj' = SHORTN -> cdata_of T nj' = Some (DString t) -> ~ In 47 t) /\
            (identifiable_n T w' nj' = true -> item_name_n T w' nj' <> None) /\
            (content_mode T (n_type nj') = Val MCharacters -> chars_content (n_content nj'))).
  { intros j nj' Hno Hj. assert (Hwj : w_nodes w j = None) by (destruct (w_nodes w j) eqn:E; [exfalso; apply Hno; eexists; eauto|reflexivity]).
    pose proof (Hnew_ids j nj' Hwj Hj) as Hin. pose proof (Hok j Hin) as Hokj. destruct (Hids_nt j nj' Hin Hj) as (s0 & ns & Hs0 & Hnm & Hty).
    unfold node_ok in Hokj. rewrite Hj in Hokj. apply andb_true_iff in Hokj as (Hokj & H3). apply andb_true_iff in Hokj as (H1 & H2).
    split; [intros E; rewrite Hty; eapply (i4_short _ _ _ HI s0 ns Hs0); rewrite <- Hnm; exact E|]. split; [|split].
    - intros t E Hcd. apply N.eqb_eq in E. rewrite E, Hcd in H2. cbn in H2. apply negb_true_iff in H2.
      intros Hi. assert (existsb (N.eqb 47) t = true); [|congruence]. apply existsb_exists. exists 47. split; [exact Hi|reflexivity].
    - intros Hid. rewrite Hid in H1. cbn in H1. destruct (item_name_n T w' nj'); [discriminate|discriminate H1].
    - intros Hm. rewrite Hm in H3. cbn in H3. destruct (n_content nj') as [|[y|d] [|z r]]; try discriminate; [left; reflexivity|right; eexists; reflexivity]. }
  split.
  - eapply (copy_inv04 w w' w1 w3 self c n cn0 (N.to_nat pos) m x path L R ren v other); eauto.
    + apply orb_true_iff in HLc as [Hl|Hl]; [left; exact Hl|right]. destruct L; [intros p j []|discriminate].
    + intros Hp. destruct (Hfront Hp) as (H1 & H2). split; [exact H1|]. intros Hnm. rewrite Hcn0_name. exact (H2 Hnm).
  - eapply (copy_inv05 w w' w1 w3 self c n cn0 (N.to_nat pos) m x path L R ren v other); eauto.
    + apply orb_true_iff in HLc as [Hl|Hl]; [left; exact Hl|right]. destruct L; [intros p j []|discriminate].
    + intros Hp. destruct (Hfront Hp) as (H1 & H2). split; [exact H1|]. intros Hnm. rewrite Hcn0_name. exact (H2 Hnm).
Qed.

(* a failed copy that allocated nothing *)
Lemma copy_failed_same w w' :
  TreeFacts w -> Inv04 w -> Inv05 T w -> obs_eq_upto_garbage w w' -> Closed w' -> w_next w' = w_next w ->
  Inv04 w' /\ Inv05 T w'.
Proof.
  intros HF HI HI5 (_ & Hold & _ & Hm) (Hal & _) Hnx.
  assert (Hnodes : forall i, w_nodes w' i = w_nodes w i).
  { intros i. destruct (N.lt_ge_cases i (w_next w)) as [Hlt|Hge]; [apply Hold; exact Hlt|].
    destruct (w_nodes w' i) as [a|] eqn:E1; [pose proof (Hal i a E1); lia|].
    destruct (w_nodes w i) as [b|] eqn:E2; [pose proof (tf_alloc _ HF _ _ E2); lia|reflexivity]. }
  assert (HSV : SV w w') by (split; [intros i; rewrite Hnodes; reflexivity|rewrite Hm; reflexivity]).
  split; [eapply Inv04_iv; [apply SV_IV; exact HSV|exact HI]|eapply Inv05_sv; eauto].
Qed.

Theorem C45_copy h other w r w' :
  TreeFacts w -> Inv04 w -> Inv05 T w ->
  Known04 T LATEST w (OpCopy h other) = false -> Known05 w (OpCopy h other) = false ->
  e_create_copied_sub_element T LATEST h other w = Val (r, w') -> Inv04 w' /\ Inv05 T w'.
Proof.
  intros HF HI HI5 HK4 HK5 H. pose proof (tf_closed w HF) as Cw.
  destruct (copy_source_unchanged T LATEST h other None w r w' Cw H) as (Cw' & _).
  cbn [Refs.Known05 run_op] in HK5. unfold welem, wbind in HK5. rewrite H in HK5.
  destruct r as [c|e].
  2:{ apply negb_false_iff, N.eqb_eq in HK5. eapply copy_failed_same; eauto. exact (gnf_e_create_copied T LATEST h other w e w' H). }
  cbn in HK5. apply negb_false_iff in HK5.
  cbn [Known04] in HK4. apply orb_false_iff in HK4 as (Hfront & _).
  unfold e_create_copied_sub_element in H. destruct (h =? other); [discriminate H|].
  wk H. wk H. unfold raw_create_copied_sub_element in H.
  wk H. match goal with E : get_node h w = _ |- _ => apply get_node_inv in E as (n & Hn & Q & _); injection Q as -> end.
  wk H. match goal with E : get_node other w = _ |- _ => apply get_node_inv in E as (o & Ho & Q & _); injection Q as -> end.
  wk H. match goal with E : calc_element_insert_range T n _ _ w = Val (OK ?rr, _) |- _ => destruct rr as (rs, re); rename E into Ecalc end.
  match goal with E : model_of h w = Val (OK ?mm, w) |- _ => rename E into Emod; rename mm into m end.
  match goal with E : min_version LATEST h w = Val (OK ?vv, w) |- _ => rename E into Emin; rename vv into v end.
  eapply (copy_inner_inv h other re m v w c w' n); eauto.
  - apply model_of_mreach; assumption.
  - eapply calc_range_mode; eauto.
  - intros Hre. unfold nm_of in *. rewrite Ho in *. eapply front_false_end; eauto.
Qed.

Theorem C45_copy_at h other pos w r w' :
  TreeFacts w -> Inv04 w -> Inv05 T w ->
  Known04 T LATEST w (OpCopyAt h other pos) = false -> Known05 w (OpCopyAt h other pos) = false ->
  e_create_copied_sub_element_at T LATEST h other pos w = Val (r, w') -> Inv04 w' /\ Inv05 T w'.
Proof.
  intros HF HI HI5 HK4 HK5 H. pose proof (tf_closed w HF) as Cw.
  destruct (copy_source_unchanged T LATEST h other (Some pos) w r w' Cw H) as (Cw' & _).
  cbn [Refs.Known05 run_op] in HK5. unfold welem, wbind in HK5. rewrite H in HK5.
  destruct r as [c|e].
  2:{ apply negb_false_iff, N.eqb_eq in HK5. eapply copy_failed_same; eauto. exact (gnf_e_create_copied_at T LATEST h other pos w e w' H). }
  cbn in HK5. apply negb_false_iff in HK5.
  cbn [Known04] in HK4. apply orb_false_iff in HK4 as (Hfront & _).
  unfold e_create_copied_sub_element_at in H. destruct (h =? other); [discriminate H|].
  wk H. wk H. unfold raw_create_copied_sub_element_at in H.
  wk H. match goal with E : get_node h w = _ |- _ => apply get_node_inv in E as (n & Hn & Q & _); injection Q as -> end.
  wk H. match goal with E : get_node other w = _ |- _ => apply get_node_inv in E as (o & Ho & Q & _); injection Q as -> end.
  wk H. match goal with E : calc_element_insert_range T n _ _ w = Val (OK ?rr, _) |- _ => destruct rr as (rs, re); rename E into Ecalc end.
  destruct ((rs <=? pos) && (pos <=? re)); [|discriminate H].
  match goal with E : model_of h w = Val (OK ?mm, w) |- _ => rename E into Emod; rename mm into m end.
  match goal with E : min_version LATEST h w = Val (OK ?vv, w) |- _ => rename E into Emin; rename vv into v end.
  eapply (copy_inner_inv h other pos m v w c w' n); eauto.
  - apply model_of_mreach; assumption.
  - eapply calc_range_mode; eauto.
  - intros Hre. unfold nm_of in *. rewrite Ho in *. eapply front_false_at; eauto.
Qed.

End Copy.
