(* Tree/Inv.v — the invariants of property C03 over the heap model (Tree/Heap.v, Ops.v, Script.v).
   DEFINITIONS ONLY (plus Examples); proofs are in Tree/InvProofs*.v.

   Two tiers:
   * [Core w]      : the structural facts that EVERY operation preserves for EVERY table set, whatever the result
                     (OK or ER): allocation bound, child-to-parent agreement, no id twice in one content list,
                     roots, well-founded parent chains.  Everything navigation needs follows from Core.
   * [NoOrphan w]  : parent-to-child agreement for ALL allocated nodes: a node whose parent link is `PElem p` is
                     listed by p, and a node whose parent link is `PModel m` is the root of model m.  With Core it says: every allocated node is either reachable from a model root
                     or Detached (its ancestor chain ends in PNone).  This tier is what the code violates on the
                     classes [Known_*] below (findings).
   [TreeInv w] := Core w /\ NoOrphan w. *)
From AV Require Import Base.Bytes Base.Outcome Hash.HashModel Tree.Heap Tree.Ops Tree.Script.
Open Scope string_scope.
Open Scope list_scope.
Open Scope N_scope.

(* the sub-elements listed by a content list, in order *)
Definition elems (l : list citem) : list id :=
  flat_map (fun it => match it with CElem c => [c] | CData _ => [] end) l.
Definition kids (n : node) : list id := elems (n_content n).

Definition lists (w : world) (p c : id) : Prop := exists n, w_nodes w p = Some n /\ In c (kids n).
Definition par (w : world) (c p : id) : Prop := exists n, w_nodes w c = Some n /\ n_parent n = PElem p.
Definition allocated (w : world) (i : id) : Prop := exists n, w_nodes w i = Some n.

(* Depth w x h : x is allocated and its ancestor chain has exactly h links `PElem` before it ends in a node whose
   parent link is PNone or PModel.  Existence of a depth = the chain is finite = no cycle. *)
Inductive Depth (w : world) : id -> nat -> Prop :=
| D_top x n : w_nodes w x = Some n -> (forall p, n_parent n <> PElem p) -> Depth w x 0
| D_step x n p h : w_nodes w x = Some n -> n_parent n = PElem p -> Depth w p h -> Depth w x (S h).

(* where the ancestor chain of x ends: the parent link (PNone / PModel m) of its topmost ancestor *)
Inductive Top (w : world) : id -> pref -> Prop :=
| T_here x n : w_nodes w x = Some n -> (forall p, n_parent n <> PElem p) -> Top w x (n_parent n)
| T_up x n p t : w_nodes w x = Some n -> n_parent n = PElem p -> Top w p t -> Top w x t.

(* a is x or an ancestor of x (following parent links) *)
Inductive AncS (w : world) (a : id) : id -> Prop :=
| A_refl : AncS w a a
| A_up x p : par w x p -> AncS w a p -> AncS w a x.

(* downward reachability through content lists *)
Inductive Reach (w : world) (r : id) : id -> Prop :=
| R_self : allocated w r -> Reach w r r
| R_kid p c : Reach w r p -> lists w p c -> Reach w r c.

Definition roots (w : world) : list id := map m_root (w_models w).
Definition Live (w : world) (x : id) : Prop := exists r, In r (roots w) /\ Reach w r x.
Definition Detached (w : world) (i : id) : Prop := Top w i PNone.
Definition Orphan (w : world) (i : id) : Prop := allocated w i /\ ~ Live w i.

Record Core (w : world) : Prop := mkCore {
  c_alloc : forall i, allocated w i <-> i < w_next w;                                   (* (a) *)
  c_up : forall p c, lists w p c -> par w c p;                                           (* (b) *)
  c_nodup : forall p n, w_nodes w p = Some n -> NoDup (kids n);                          (* (c) *)
  c_roots : forall k r, nth_error (roots w) k = Some r ->                                (* (d) *)
            exists n, w_nodes w r = Some n /\ n_parent n = PModel (N.of_nat k);
  c_depth : forall i, allocated w i -> exists h, Depth w i h                             (* (e) *)
}.

(* only the root of model m carries the parent link PModel m *)
Definition RootsOnly (w : world) : Prop :=
  forall i n m, w_nodes w i = Some n -> n_parent n = PModel m -> nth_error (roots w) (N.to_nat m) = Some i.

Definition NoOrphan (w : world) : Prop :=
  (forall c p, par w c p -> lists w p c) /\ RootsOnly w.                                (* (f), all nodes *)

Definition TreeInv (w : world) : Prop := Core w /\ NoOrphan w.

Definition empty_world : world := mkWorld (fun _ => None) 0 [] [].

(* ---------- the relation "same tree": what TreeInv can see of a world ---------- *)
Definition skel (w : world) (i : id) : option (pref * list id) :=
  match w_nodes w i with Some n => Some (n_parent n, kids n) | None => None end.
Definition same_tree (w w' : world) : Prop :=
  w_next w' = w_next w /\ roots w' = roots w /\ forall i, skel w' i = skel w i.

(* ---------- structural pre-order (document order) ---------- *)
(* Pre w i l : l is the pre-order enumeration of the subtree below i *)
Inductive Pre (w : world) : id -> list id -> Prop :=
| Pre_node i n ls : w_nodes w i = Some n -> Forall2 (Pre w) (kids n) ls -> Pre w i (i :: List.concat ls).

(* pre-order with depth labels, cut below depth `lim` (None = unlimited): what elements_dfs_with_max_depth yields.
   A node at depth d is listed; its children are listed iff lim = None or d < lim. *)
Definition deeper (lim : option nat) (d : nat) : bool :=
  match lim with None => true | Some m => Nat.ltb d m end.
Inductive PreD (w : world) (lim : option nat) : nat -> id -> list (nat * id) -> Prop :=
| PreD_cut d i n : w_nodes w i = Some n -> deeper lim d = false -> PreD w lim d i [(d, i)]
| PreD_node d i n ls : w_nodes w i = Some n -> deeper lim d = true ->
    Forall2 (PreD w lim (S d)) (kids n) ls -> PreD w lim d i ((d, i) :: List.concat ls).

(* file-scoped: the sub-forest of the nodes whose LOCAL membership is empty or contains f; a node that fails the
   test is pruned with its whole subtree *)
Definition in_file (f : N) (n : node) : bool := is_empty (n_files n) || set_mem f (n_files n).
Inductive PreF (w : world) (lim : option nat) (f : N) : nat -> id -> list (nat * id) -> Prop :=
| PreF_skip d i n : w_nodes w i = Some n -> in_file f n = false -> PreF w lim f d i []
| PreF_cut d i n : w_nodes w i = Some n -> in_file f n = true -> deeper lim d = false -> PreF w lim f d i [(d, i)]
| PreF_node d i n ls : w_nodes w i = Some n -> in_file f n = true -> deeper lim d = true ->
    Forall2 (PreF w lim f (S d)) (kids n) ls -> PreF w lim f d i ((d, i) :: List.concat ls).

(* ---------- live part of a world (for the stale-handle theorem) ---------- *)
Definition live_eq (w w' : world) : Prop :=
  w_models w' = w_models w /\ w_files w' = w_files w /\
  forall x, Live w x -> w_nodes w' x = w_nodes w x.

(* ---------- classes of operations on which the code breaks NoOrphan (findings) ---------- *)
Definition has_elem (l : list citem) : bool := existsb (fun it => match it with CElem _ => true | CData _ => false end) l.
Definition head_elem (n : node) : bool := match n_content n with CElem _ :: _ => true | _ => false end.
Definition node_has_elem (w : world) (i : id) : bool :=
  match w_nodes w i with Some n => has_elem (n_content n) | None => false end.
Definition node_head_elem (w : world) (i : id) : bool :=
  match w_nodes w i with Some n => head_elem n | None => false end.
Definition is_pelem (p : pref) : bool := match p with PElem _ => true | _ => false end.
Definition pref_eqb (a b : pref) : bool :=
  match a, b with
  | PNone, PNone => true | PModel x, PModel y => x =? y | PElem x, PElem y => x =? y | _, _ => false
  end.
Definition parent_in (w : world) (i : id) : pref :=
  match w_nodes w i with Some n => n_parent n | None => PNone end.

(* (i) set_character_data on an element that has sub-elements: the content list is replaced by the text, the
       sub-elements keep their parent link.  Since fix 9caed4a the code rejects this for Mixed content, so the class
       is only left for a Characters-mode element that has sub-elements (no table set lets one be created). *)
Definition Known_setcdata (w : world) (o : op) : bool :=
  match o with OpSetCData h _ => node_has_elem w h | _ => false end.

(* (iv) an element that is recorded in the reference-origin index and whose FIRST content item is a sub-element
        gets its text rewritten (content[0] is overwritten): on rename / move of a referenced element, and
        set_reference_target on such an element.  Cannot occur when reference elements have no sub-elements. *)
Definition dirty_origins (w : world) : bool :=
  existsb (fun x => existsb (fun e => existsb (node_head_elem w) (snd e)) (m_origins x)) (w_models w).
Definition Known_refhead (w : world) (o : op) : bool :=
  match o with
  | OpMove _ _ | OpMoveAt _ _ _ | OpSetItemName _ _ => dirty_origins w
  | OpSetRefTarget h _ => node_head_elem w h
  | _ => false
  end.

Section Known.
Variable T : tables.
Variable tab_el tab_en : nametab.
Variable check_fn : N -> list N -> res bool.
Variable LATEST name_index name_definition_ref : N.
Variable root_attrs : list (N * cdata).

Definition run := run_op T tab_el tab_en check_fn LATEST root_attrs.

(* (iii) a move or copy that FAILS after the point of no return: the call returns an error, but the moved element
         has already been re-parented (resp. the fresh copy, node `w_next w`, already carries a parent link) and is
         never inserted into the destination's content list.  Decided by running the model. *)
Definition Known_failed_reparent (w : world) (o : op) : bool :=
  match o with
  | OpMove _ mv | OpMoveAt _ mv _ =>
    match run o w with
    | Val (ER _, w') => negb (pref_eqb (parent_in w' mv) (parent_in w mv))
    | _ => false
    end
  | OpCopy _ _ | OpCopyAt _ _ _ =>
    match run o w with
    | Val (ER _, w') => is_pelem (parent_in w' (w_next w))
    | _ => false
    end
  | _ => false
  end.

Definition Known (w : world) (o : op) : bool :=
  Known_setcdata w o || Known_failed_reparent w o || Known_refhead w o.

(* all histories: run a list of operations, stopping at Pan / Fuel *)
Fixpoint run_ops (l : list op) (w : world) : res world :=
  match l with
  | [] => Val w
  | o :: r => match run o w with Val (_, w') => run_ops r w' | Pan s => Pan s | Fuel => Fuel end
  end.

(* no operation of the history is in a Known class at the state where it is executed *)
Fixpoint clean_ops (l : list op) (w : world) : bool :=
  match l with
  | [] => true
  | o :: r => negb (Known w o) && match run o w with Val (_, w') => clean_ops r w' | _ => true end
  end.

(* no operation of the history is a failed re-parenting at the state where it is executed *)
Fixpoint clean_rep_ops (l : list op) (w : world) : bool :=
  match l with
  | [] => true
  | o :: r => negb (Known_failed_reparent w o) && match run o w with Val (_, w') => clean_rep_ops r w' | _ => true end
  end.

End Known.
