(* Tree/NoPanicProofsDepth.v — C12, recursion depth = tree height (the logic half of the stack question).
   hb w i f ("the subtree below i has height < f", Tree/NoPanic.v) is
     - implied for f = fuel_of w (number of allocated nodes + 1) by finite parent chains + child lists agreeing with
       parent links: height + depth <= number of nodes                                  [hb_of_tree, hb_fuel]
     - exactly the fuel the pre-order walk needs: dfs_ids f i returns a value iff hb w i f   [dfs_ids_runs, dfs_ids_hb]
   remove_internal, deep_copy and register_subtree recurse along the same structure (one call per nesting level). *)
From Coq Require Import Lia.
From AV Require Import Base.Bytes Base.Outcome Hash.HashModel Spec.SpecOps Xml.TablesOk Tree.Heap Tree.Ops Tree.Script Tree.Inv.
From AV Require Import Tree.InvProofsCore Tree.NoPanic Tree.NoPanicProofsBase Tree.NoPanicProofsOps1.
Open Scope string_scope.
Open Scope list_scope.
Open Scope N_scope.

Lemma hb_mono w i f : hb w i f -> forall g, (f <= g)%nat -> hb w i g.
Proof.
  induction 1 as [i f H IH]. intros g Hg. destruct g as [|g]; [lia|]. constructor.
  intros n c E IN. apply (IH n c E IN). lia.
Qed.

Lemma in_kids_content c l : In c (elems l) <-> In (CElem c) l.
Proof.
  unfold elems. rewrite in_flat_map. split.
  - intros ([x|d] & IN & H); cbn in H; [destruct H as [<-|[]]; exact IN|destruct H].
  - intros IN. exists (CElem c). split; [exact IN|left; reflexivity].
Qed.

Section Depth.
Variable T : tables.
Variable tab_el tab_en : nametab.
Notation Closed := (Closed T tab_el tab_en).

(* height + depth <= number of allocated nodes *)
Lemma hb_of_tree w : Closed w -> UpWF w -> CUp w ->
  forall k i d, Depth w i d -> (d + k = N.to_nat (w_next w))%nat -> hb w i k.
Proof.
  intros C U CU. induction k as [|k IH]; intros i d D EQ.
  - exfalso. pose proof (depth_lt_fuel T tab_el tab_en w i d C D) as B. unfold fuel_of in B. lia.
  - constructor. intros n c E IN.
    assert (P : par w c i). { apply CU. exists n. split; [exact E|]. unfold kids. apply in_kids_content. exact IN. }
    destruct P as (cn & EC & PC).
    assert (LC : c < w_next w) by (apply (cl_alloc _ _ _ _ C); congruence).
    destruct (U c LC) as (dc & DC).
    destruct (depth_parent w c cn i dc EC PC DC) as (d' & -> & DI).
    pose proof (depth_fun _ _ _ DI _ D) as ->.
    apply (IH c (S d) DC). lia.
Qed.

Lemma hb_fuel w i : Closed w -> UpWF w -> CUp w -> i < w_next w -> hb w i (fuel_of w).
Proof.
  intros C U CU L. destruct (U i L) as (d & D).
  pose proof (depth_lt_fuel T tab_el tab_en w i d C D) as B. unfold fuel_of in *.
  eapply hb_mono; [apply (hb_of_tree w C U CU (N.to_nat (w_next w) - d) i d D); lia|lia].
Qed.

(* the pre-order walk: enough fuel = height *)
Definition dfs_kids (rec : id -> W (list id)) : list citem -> W (list id) :=
  fix kids (l : list citem) : W (list id) :=
    match l with
    | [] => wret []
    | CElem c :: r => wbind (rec c) (fun a => wbind (kids r) (fun b => wret (a ++ b)))
    | CData _ :: r => kids r
    end.

Lemma dfs_ids_S f i :
  dfs_ids (S f) i = wbind (get_node i) (fun n => wbind (dfs_kids (dfs_ids f) (n_content n)) (fun rest => wret (i :: rest))).
Proof. reflexivity. Qed.

Lemma dfs_ids_runs w : Closed w -> forall f i, i < w_next w -> hb w i f ->
  rd (dfs_ids f i) w (fun l => forall x, In x l -> x < w_next w).
Proof.
  intros C. induction f as [|f IH]; intros i L H; [inversion H|].
  inversion H as [i0 f0 HK]; subst. rewrite dfs_ids_S.
  destruct (w_nodes w i) as [n|] eqn:E; [|exfalso; apply (proj2 (cl_alloc _ _ _ _ C i) L); exact E].
  eapply rd_bind; [exists (OK n); split; [apply get_node_val; exact E|]; intros a [= <-]; exact (eq_refl n)|].
  intros a <-.
  pose proof (cl_node _ _ _ _ C _ _ E) as (_ & _ & KIDS & _).
  assert (LOOP : forall l, (forall c, In (CElem c) l -> c < w_next w /\ hb w c f) ->
     rd (dfs_kids (dfs_ids f) l) w (fun l0 => forall x, In x l0 -> x < w_next w)).
  { induction l as [|[c|d] r IHl]; intros HL; cbn [dfs_kids].
    - apply rd_ret. intros x [].
    - destruct (HL c (or_introl eq_refl)) as [Lc Hc].
      eapply rd_bind; [apply (IH c Lc Hc)|]. intros a Ha.
      eapply rd_bind; [apply IHl; intros c0 H0; apply HL; right; exact H0|]. intros b Hb.
      apply rd_ret. intros x Hx. apply in_app_or in Hx as [Hx|Hx]; auto.
    - apply IHl. intros c0 H0. apply HL. right. exact H0. }
  eapply rd_bind; [apply LOOP; intros c IN; split; [apply KIDS; exact IN|apply (HK n c eq_refl IN)]|].
  intros rest HR. apply rd_ret. intros x [<-|Hx]; auto.
Qed.

(* conversely: a walk that returned had enough fuel for the height (dfs_ids never returns an error) *)
Lemma dfs_ids_val w : forall f i r w', dfs_ids f i w = Val (r, w') -> w' = w /\ (exists l, r = OK l) /\ hb w i f.
Proof.
  induction f as [|f IH]; intros i r w' E; [discriminate|].
  rewrite dfs_ids_S in E. unfold wbind at 1 in E. unfold get_node in E.
  destruct (w_nodes w i) as [n|] eqn:EN; [|discriminate].
  assert (LOOP : forall l r1 w1, dfs_kids (dfs_ids f) l w = Val (r1, w1) ->
            w1 = w /\ (exists l1, r1 = OK l1) /\ forall c, In (CElem c) l -> hb w c f).
  { induction l as [|[c|d] rl IHl]; intros r1 w1 EL; cbn [dfs_kids] in EL.
    - injection EL as <- <-. split; [reflexivity|]. split; [eauto|]. intros c [].
    - unfold wbind at 1 in EL. destruct (dfs_ids f c w) as [[r0 w0]|s|] eqn:E0; try discriminate.
      destruct (IH c r0 w0 E0) as (-> & (l0 & ->) & H0).
      unfold wbind at 1 in EL. destruct (dfs_kids (dfs_ids f) rl w) as [[r2 w2]|s|] eqn:E2; try discriminate.
      destruct (IHl r2 w2 eq_refl) as (-> & (l2 & ->) & H2).
      injection EL as <- <-. split; [reflexivity|]. split; [eauto|].
      intros c1 [[= ->]|IN]; [exact H0|apply H2; exact IN].
    - destruct (IHl r1 w1 EL) as (-> & X & H2). split; [reflexivity|]. split; [exact X|].
      intros c1 [[=]|IN]. apply H2; exact IN. }
  unfold wbind at 1 in E. destruct (dfs_kids (dfs_ids f) (n_content n) w) as [[r1 w1]|s|] eqn:E1; try discriminate.
  destruct (LOOP _ _ _ E1) as (-> & (l1 & ->) & HK).
  injection E as <- <-. split; [reflexivity|]. split; [eauto|].
  constructor. intros n0 c EN0 IN. rewrite EN in EN0. injection EN0 as <-. apply HK. exact IN.
Qed.

End Depth.
